import OZ.Lemmas.RwaMonSound
import OZ.Lemmas.FungibleAuth
/-
C04 — soundness of the MONITOR that decides the property on implementation traces.

`./check C04` (and, for the sites `rwa.sum` / `rwa.rollback` / `rwa.replay`, `./check C01`) reports a
concrete violation exactly when `OZ.Rwa.Mon.checkCore` (the driver's monitor on parsed values,
OZ/Model/RwaMon.lean) returns a message on the implementation's observations. Here it is proved
that on the observations of the MODEL the monitor never returns a message, for every host
configuration, start ledger, admin and every finite history of op lines whose token accounts lie
in the observed universe 0..N-1 (`monitor_accepts_every_model_trace`). Consequences:

  * an implementation whose observations agree with the model's (the correspondence the check
    establishes by differential testing) can never raise a monitor alarm — a monitor failure is
    never a false alarm of the monitor itself;
  * every conclusion the monitor evaluates — ALL 23 checks of `OZ.Rwa.Mon.verdict`:
    `vGateTransfer`, `vGateTransferFrom`, `vGateMint` (every gate open in the observed pre-state,
    every registered verdict module approving by its script), `vFrozenLeBalance`,
    `vForcedUnfreeze`, `vBurnUnfreeze` (frozen' = min(frozen, balance − amount)), `vRecover`
    (`vRecoverTarget`, `vRecoverRet`, `vRecoverEffects`), `vMove` (exact balance movement per kind),
    `vFrameFrozen`, `vFrameAddrFrozen`, `vFreezeEffect`, `vUnfreezeEffect`, `vNotify` (exactly the
    owed notification, nothing on failure), `vBound`, `vFanout` (each registered hook module once,
    nobody else), `vConsulted` (every registered verdict module once), `vRegistry`, `vAddModule`,
    `vRemoveModule` (ghost registry), `vOperator`, `vSum`, `vRollback`, `vReplay` — is a THEOREM about
    the model, in the monitor's own executable wording.

The model observation used here IS the data the driver's model side prints: `OZ.Drv.C04.stepLine`
runs `applyRet cfg s auth op` on the parsed op line `(auth, op, comps')` and prints, for an
accepted call, `ok ret= <showState s' comps'> now= ev= idv= cq= cn= ml= dem=` — i.e. the fields of
`obsOk s s' r op comps'` (balances / frozen amounts / flags / identity oracle / recovery targets
over `List.range N`, the registry over the five hooks, the module scripts, the return value of
`recover`, the new events / notifications / module calls as `drop` of the logs, the module calls
grouped by module, the sorted required signers) — and for a rejected one the same getters of the
unchanged state with empty logs (`obsErr s comps`). The monitor does not read `now=`, `idv=`, `cq=`
nor the non-token events of `ev=`, so `Obs` does not carry them. `lineOf op x y` is what
`OZ.Drv.C04.parseLine` reads from the op line `parseOp` builds `op` from (see
OZ/Lemmas/RwaMonChecks.lean); an `env_mod` line carries a module SCRIPT `k : Comp` and becomes the
model operation `envModule i k.canTransfer k.canCreate` together with the new script list
(`Item.envMod`), exactly as `parseOp` does. `monInit admin` / `(init start admin, replicate K default)`
are what the driver's `initMon` / `initM` build from the label.

Hypothesis `Item.ok`: the token accounts of every operation (`Op.addrs`) are < N — the observation
prints the universe 0..N-1 only, so neither "Σ balances = supply" nor the gates of an account
outside can be decided from it (`sum_needs_closed_universe`); the harness draws every account from
that universe. And a module's verdict function is only ever replaced through an `env_mod` line
(`Item.envMod`), never by an `Op.envModule` with functions no script describes.

No model trace was found on which the monitor as it was raises an alarm: the refactored monitor
is the former one check by check, and the theorem holds for it as it stands.

Property theorems only; helper facts come from OZ/Lemmas/RwaMon*.lean.
-/
namespace OZ.Rwa.Mon
open OZ.Host OZ.Fungible OZ.Rwa

/-- one line of a trace, as `OZ.Drv.C04.parseOp` reads it: an invocation `op` with the authorizing
set `auth` (and whatever the line carries in `amt=` / `lu=` where `op` does not determine them), or
an `env_mod` line that re-scripts module `i` -/
inductive Item where
  | call (auth : List Nat) (op : Op) (x : Int) (y : Nat)
  | envMod (i : Nat) (k : Comp)

def Item.auth : Item → List Nat
  | .call auth _ _ _ => auth
  | .envMod _ _ => []

def Item.op : Item → Op
  | .call _ op _ _ => op
  | .envMod i k => .envModule i k.canTransfer k.canCreate

/-- the module scripts after the line -/
def Item.comps (cs : List Comp) : Item → List Comp
  | .call _ _ _ _ => cs
  | .envMod i k => setAt cs i k

def Item.line : Item → Line
  | .call _ op x y => lineOf op x y
  | .envMod i k => lineOf (.envModule i k.canTransfer k.canCreate) 0 0

/-- the token accounts of the line lie in the observed universe; verdict functions change through
`env_mod` lines only -/
def Item.ok : Item → Prop
  | .call _ op _ _ => (∀ a ∈ op.addrs, a < N) ∧ isEnvModule op = false
  | .envMod _ _ => True

/-- one line through the model: new model state, new module scripts, the model's observation -/
def stepItem (c : Cfg) (sc : State × List Comp) (it : Item) : (State × List Comp) × Obs :=
  stepObs c sc.1 sc.2 it.auth it.op (it.comps sc.2)

/-- monitor state and model state describe the same point of a history -/
structure Agree (m : Mon) (s : State) (cs : List Comp) : Prop where
  admin : m.admin = s.admin
  prev : Shows m.prev s cs
  replay : m.replay = (List.range N).map s.base.bal
  reg : m.reg = regOf s

/-- **one line**: fed with the model's own observation of any call (accepted or rejected) or
re-scripting, the monitor reports nothing, its state keeps describing the model's, and the model
state stays good -/
theorem monitor_sound_step (c : Cfg) {m : Mon} {s : State} {cs : List Comp} (hg : Good s cs)
    (ha : Agree m s cs) (it : Item) (hok : it.ok) :
    (checkCore m it.line (stepItem c (s, cs) it).2).2 = none ∧
    Agree (checkCore m it.line (stepItem c (s, cs) it).2).1 (stepItem c (s, cs) it).1.1 (stepItem c (s, cs) it).1.2 ∧
    Good (stepItem c (s, cs) it).1.1 (stepItem c (s, cs) it).1.2 := by
  obtain ⟨hadm, hprev, hrep, hreg⟩ := ha
  have hU : ∀ a ∈ it.op.addrs, a < N := by
    cases it with
    | call auth op x y => exact hok.1
    | envMod i k => intro a h; cases h
  cases hx : applyRet c s it.auth it.op with
  | error e =>
    have hs : stepItem c (s, cs) it = ((s, cs), obsErr s cs) := by
      unfold stepItem stepObs; simp only; rw [hx]
    rw [hs]
    refine ⟨?_, ⟨hadm, shows_stateObs s cs false, hrep, ?_⟩, hg⟩
    · show verdict m.admin m.reg m.prev it.line ((obsErr s cs).evs.foldl replayBase m.replay) (obsErr s cs) = none
      rw [hreg]
      exact verdict_err it.line hg hprev hrep
    · show ghostReg m.reg it.line false = regOf s
      unfold ghostReg
      rw [if_neg (fun e => Bool.false_ne_true e.1), if_neg (fun e => Bool.false_ne_true e.1)]
      exact hreg
  | ok v =>
    obtain ⟨s', r⟩ := v
    have hs : stepItem c (s, cs) it = ((s', it.comps cs), obsOk s s' r it.op (it.comps cs)) := by
      unfold stepItem stepObs; simp only; rw [hx]
    rw [hs]
    have hadm' : s'.admin = s.admin := (apply_post c hg.frozen it.auth it.op hx).admin
    have hev := apply_events c it.auth it.op (applyRet_apply hx)
    have hr' := apply_replay_aux c hg.replay it.auth it.op (applyRet_apply hx)
    have hgood : Good s' (it.comps cs) := by
      cases it with
      | call auth op x y => exact good_ok hg hok.1 hok.2 hx
      | envMod i k => exact good_envMod hg hx
    have hline : ∃ x y, it.line = lineOf it.op x y := by
      cases it with
      | call auth op x y => exact ⟨x, y, rfl⟩
      | envMod i k => exact ⟨0, 0, rfl⟩
    obtain ⟨x, y, hl⟩ := hline
    refine ⟨?_, ⟨hadm.trans hadm'.symm, shows_obsOk s s' r it.op (it.comps cs), ?_, ?_⟩, hgood⟩
    · show verdict m.admin m.reg m.prev it.line
        ((obsOk s s' r it.op (it.comps cs)).evs.foldl replayBase m.replay) (obsOk s s' r it.op (it.comps cs)) = none
      rw [hreg, hl]
      exact verdict_ok x y hg hprev hadm hrep hU hx
    · exact obsOk_replay hrep hg.replay hr' hev
    · show ghostReg m.reg it.line true = regOf s'
      rw [hreg, hl, ghostReg_spec, ← (apply_post c hg.frozen it.auth it.op hx).mods]
      rfl

/-- the monitor run over a whole history of model observations: first message, if any -/
def monitorRun (c : Cfg) : Mon → State × List Comp → List Item → Option String
  | _, _, [] => none
  | m, sc, it :: its =>
    match (checkCore m it.line (stepItem c sc it).2).2 with
    | some msg => some msg
    | none => monitorRun c (checkCore m it.line (stepItem c sc it).2).1 (stepItem c sc it).1 its

/-- the model's initial state for a sequence (what the driver's `initM` builds from the label) -/
def modelInit (start admin : Nat) : State × List Comp := (init start admin, List.replicate K Comp.default)

theorem good_init (start admin : Nat) : Good (init start admin) (List.replicate K Comp.default) := by
  refine ⟨base_init_inv _ start, by intro x; simp [init, Fungible.init], by intro k; simp [init],
    by simp [ReplayOK, init, Fungible.init, Rwa.replay], ⟨?_, ?_⟩, by simp⟩
  · intro m f t a hmax _
    have : (List.replicate K Comp.default).getD m Comp.default = Comp.default := by
      rw [List.getD_eq_getElem?_getD, List.getElem?_replicate]; split <;> rfl
    rw [this]; exact default_canTransfer f t a hmax
  · intro m t a hmax _
    have : (List.replicate K Comp.default).getD m Comp.default = Comp.default := by
      rw [List.getD_eq_getElem?_getD, List.getElem?_replicate]; split <;> rfl
    rw [this]; exact default_canCreate t a hmax

theorem agree_init (start admin : Nat) :
    Agree (monInit admin) (init start admin) (List.replicate K Comp.default) := by
  have h : ∀ o sp, Fungible.allowance (init start admin).base o sp = 0 := fun o sp => by
    unfold Fungible.allowance; rw [allowanceData_none rfl]
  refine ⟨rfl, ⟨rfl, rfl, ?_, rfl, rfl, rfl, rfl, rfl, rfl, rfl, rfl⟩, rfl, rfl⟩
  show [] = allowList (init start admin)
  simp [allowList, h]

/-- **monitor soundness**: for every host configuration, start ledger, admin and finite history of
trace lines over the observed universe — any amounts, any authorizing subsets, any operators, any
scripts of the compliance modules, any answers of the identity verifier, any ledger movement — the
monitor reports nothing on the model's observations. -/
theorem monitor_accepts_every_model_trace (c : Cfg) (start admin : Nat) (its : List Item)
    (hok : ∀ it ∈ its, it.ok) :
    monitorRun c (monInit admin) (modelInit start admin) its = none := by
  suffices ∀ m s cs, Good s cs → Agree m s cs → monitorRun c m (s, cs) its = none from
    this _ _ _ (good_init start admin) (agree_init start admin)
  induction its with
  | nil => intro m s cs _ _; rfl
  | cons it its ih =>
    intro m s cs hg ha
    obtain ⟨h1, h2, h3⟩ := monitor_sound_step c hg ha it (hok it List.mem_cons_self)
    unfold monitorRun
    rw [h1]
    exact ih (fun y hy => hok y (List.mem_cons_of_mem _ hy)) _ _ _ h3 h2

/-! ### the hypothesis cannot be dropped, and the monitor is not trivially silent (tests, labelled
as such) -/

/-- the hypothesis that the history stays inside the observed universe cannot be dropped: after a
mint to account 7 with only accounts 0..4 observed, the model's own observation shows supply 1 and
balances summing to 0 — the monitor (rightly, from what it sees) reports `site=rwa.sum` -/
theorem sum_needs_closed_universe :
    (monitorRun ⟨1, 200000⟩ (monInit 0) (modelInit 100 0) [.call [0] (.mint 7 1 0) 0 0]).isSome = true := by
  decide

/-- ... nor for the gates: the model accepts a transfer of 0 from account 7 (nothing observable
changes), but the observation carries no identity bit for an account outside 0..4, so the gate
check reads `from_identity` as closed -/
theorem gate_needs_closed_universe :
    (vGateTransfer (List.replicate 5 []) zeroObs (lineOf (.transfer 7 1 0) 0 0)
      (stepItem ⟨1, 200000⟩ (modelInit 100 0) (.call [7] (.transfer 7 1 0) 0 0)).2).isSome = true := by
  decide

/-- the repaired defect (DESIGN §8-1), as the unfixed implementation showed it: account 1 holds 100
with 90 frozen, its address is frozen, its identity fails, the token is paused — and
`transfer_from(3, 1, 2, 50)` is accepted -/
def preDefect : Obs :=
  { zeroObs with sup := 100, bal := [0, 100, 0, 0, 0], paused := true, af := [false, true, false, false, false],
                 ft := [0, 90, 0, 0, 0], id := [true, false, true, true, true] }

def postDefect : Obs :=
  { preDefect with bal := [0, 50, 50, 0, 0], evs := [.transfer 1 2 50], cn := [.transferred 1 2 50], dem := [3] }

/-- on that observation the gate check fires, and so does the monitor as a whole -/
example :
    (vGateTransferFrom (List.replicate 5 []) preDefect ⟨.transferFrom, [3, 1, 2], 50, 0⟩ postDefect).isSome = true ∧
    (vFrozenLeBalance postDefect).isSome = true ∧
    (checkCore { admin := 0, prev := preDefect, replay := [0, 100, 0, 0, 0], reg := List.replicate 5 [] }
      ⟨.transferFrom, [3, 1, 2], 50, 0⟩ postDefect).2.isSome = true := by
  decide

/-- a recovery 1 -> 2 that moves the balance but forgets the partially frozen 40 (seeded change
C04-1 / C01-r2-2): `vRecover` fires; a forced transfer that unfreezes everything instead of the
minimum: `vForcedUnfreeze` fires; a notification that never reached the compliance contract:
`vNotify` fires -/
example :
    (vRecover { zeroObs with sup := 100, bal := [0, 100, 0, 0, 0], ft := [0, 40, 0, 0, 0], rct := [none, some 2, none, none, none] }
      ⟨.recover, [1, 2, 0], 0, 0⟩
      { zeroObs with ret := some true, sup := 100, bal := [0, 0, 100, 0, 0], ft := [0, 0, 0, 0, 0],
                     rct := [none, some 2, none, none, none], evs := [.transfer 1 2 100],
                     cn := [.transferred 1 2 100], dem := [0] }).isSome = true ∧
    (vForcedUnfreeze { zeroObs with sup := 100, bal := [0, 100, 0, 0, 0], ft := [0, 90, 0, 0, 0] }
      ⟨.forcedTransfer, [1, 2, 0], 20, 0⟩
      { zeroObs with sup := 100, bal := [0, 80, 20, 0, 0], ft := [0, 0, 0, 0, 0] }).isSome = true ∧
    (vNotify { zeroObs with sup := 100, bal := [0, 100, 0, 0, 0] } ⟨.transfer, [1, 2], 20, 0⟩
      { zeroObs with sup := 100, bal := [0, 80, 20, 0, 0] }).isSome = true := by
  decide

end OZ.Rwa.Mon
