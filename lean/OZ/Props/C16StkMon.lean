import OZ.Props.C16Stk
import OZ.Lemmas.GatesStkMon
/-
C16, machine `stk` (stacked guards) — soundness of the MONITOR that decides the property on
implementation traces.

For the sequences labelled `kind=stk` the driver feeds `OZ.Gates.Stk.Mon.checkCore` (the monitor on parsed
values, OZ/Model/GatesStkMon.lean) with the implementation's observations of the harness contract
`stk::Stacked`; `./check C16` reports a violation there exactly when it returns a message. Here it is
proved that on the observations of the MODEL the monitor never returns a message, for every label (any
owner, admin, role holder, start ledger) and every finite history (`monitor_accepts_every_model_trace`).
Together with OZ/Props/C16Mon.lean (the other eight machines) every machine the driver runs is covered.
Consequences:

  * an implementation whose observations agree with the model's can never raise a monitor alarm — a
    monitor failure is never a false alarm of the monitor itself;
  * every conclusion the monitor evaluates (an entry point declared `when_not_paused` / `when_paused` is
    accepted only in that pause state — `site=stacked.bypass.pause.<fn>`; only with the authorization of
    the principal of its authorization attribute — `site=stacked.bypass.auth.<fn>`; it is NOT refused when
    both hold — `site=stacked.refused.<fn>`; pause / unpause alternate, need the authorizing owner and are
    accepted then; counter and `paused()` follow the accepted calls and nothing else, an accepted `inc_*`
    returns the new counter — `site=stacked.effect`; a rejected call changes no getter) is a THEOREM about
    the model, in the monitor's own executable wording.

The model observation used here IS the data the driver's model side prints: `OZ.Drv.C16.StkIO.stepLine` runs
`stepM` on the parsed op and `StkIO.obsLine` prints the tag and the fields of `modelObs` of the resulting
state (`ret`, `now`, `counter`, `paused`); `lineOf auth op` is what `StkIO.parseLine` reads from the op line
`StkIO.parseOp` builds `(auth, op)` from. `monInit p` / `initM p` are what the driver's `minitAny` / `initAny`
build from the label parameters `p` (`StkIO.paramsOf (parseLabel label)`).

Property theorems only; helper facts come from OZ/Lemmas/GatesStk.lean and OZ/Lemmas/GatesStkMon.lean.
-/
namespace OZ.Gates.Stk.Mon
open OZ.Host OZ.Fungible OZ.Gates OZ.Gates.Stk

/-- monitor state and model state describe the same point of a history -/
structure Agree (m : Mon) (x : MSt) : Prop where
  prev : m.prev = none ∨ m.prev = some (stableOf x)
  paused : m.paused = x.s.p.paused
  counter : m.counter = x.s.counter
  owner : x.s.owner = some m.owner
  admin : x.s.admin = some m.admin
  isOp : x.s.isOp = fun a => a == m.opr

/-- the monitor's reading of "the principal authorized" is the model's guard condition -/
theorem authorized_iff {m : Mon} {x : MSt} (ha : Agree m x) (auth : List Nat) (f : Fn) (c : Nat) :
    authorized m (lineOf auth (.op (.call f c))) f.spec.who = true ↔ Authorized x.s auth c f.spec.who := by
  cases hw : f.spec.who
  · simp [authorized, lineOf, Authorized, ha.owner]
  · simp [authorized, lineOf, Authorized, ha.admin]
  · simp only [authorized, lineOf, callerArg, hw, Authorized, ha.isOp]
    simp only [if_true, List.head?_cons, Bool.and_eq_true, beq_iff_eq, List.contains_iff_mem]
    constructor
    · rintro ⟨h1, h2⟩
      injection h1 with h1
      subst h1
      exact ⟨rfl, h2⟩
    · rintro ⟨h1, h2⟩
      subst h1
      exact ⟨rfl, h2⟩

/-- the monitor's reading of "every guard holds" is exactly acceptance by the model -/
theorem guardsHold_iff {m : Mon} {x : MSt} (ha : Agree m x) (auth : List Nat) (f : Fn) (c : Nat) :
    guardsHold m (lineOf auth (.op (.call f c))) f = true ↔ ∃ s', x.s.call auth f c = .ok s' := by
  rw [stacked_accepted_iff, ← authorized_iff ha]
  unfold guardsHold
  rw [ha.paused, ha.counter]
  cases hf : f.isInc <;> simp [and_assoc]

/-- the monitor's reading of "the owner is the authorizing caller" -/
theorem byOwner_iff {m : Mon} {x : MSt} (ha : Agree m x) (auth : List Nat) (c : Nat) (call : Call) :
    byOwner m ⟨call, [c], auth, 0⟩ = true ↔ x.s.owner = some c ∧ c ∈ auth := by
  simp only [byOwner, ha.owner, List.head?_cons, Bool.and_eq_true, beq_iff_eq, List.contains_iff_mem]
  constructor
  · rintro ⟨h1, h2⟩
    injection h1 with h1
    subst h1
    exact ⟨rfl, h2⟩
  · rintro ⟨h1, h2⟩
    injection h1 with h1
    subst h1
    exact ⟨rfl, h2⟩

/-- **a rejected call**: the monitor is silent on the (unchanged) getters and keeps describing the state -/
theorem rejected_sound {m : Mon} {x : MSt} (ha : Agree m x) (auth : List Nat) (op : SOp)
    (hr : applyModel x.s auth op = none) :
    (checkCore m (lineOf auth op) (modelObs x false op)).2 = none ∧
    Agree (checkCore m (lineOf auth op) (modelObs x false op)).1 x := by
  have hc : counterStep m (lineOf auth op) false = m.counter := rfl
  have hp : pausedStep m (lineOf auth op) false = m.paused := rfl
  refine ⟨verdict_none (vRollback_none (fun _ => ha.prev)) ?_
      (vEffect_none (by rw [show (modelObs x false op).ok = false from rfl, hc, ha.counter]; rfl)
        (by rw [show (modelObs x false op).ok = false from rfl, hp, ha.paused]; rfl) (fun h => by cases h)),
    ⟨Or.inr rfl, ha.paused, ha.counter, ha.owner, ha.admin, ha.isOp⟩⟩
  cases op with
  | advance n => cases hr
  | op o =>
    have hno := applyModel_op_none hr
    cases o with
    | call f c =>
      refine vFn_none (fun h => by cases h.1) (fun h => by cases h.1) ?_
      rintro ⟨-, hg⟩
      obtain ⟨s', hs'⟩ := (guardsHold_iff ha auth f c).1 hg
      exact hno s' hs'
    | pause c =>
      refine vToggle_none (fun h => by cases h.1) (fun h => by cases h.1) (fun h => by cases h.1) ?_
        (fun h => by cases h.2.1)
      rintro ⟨-, -, hnp, hb⟩
      obtain ⟨h1, h2⟩ := (byOwner_iff ha auth c .pause).1 hb
      have hp' : x.s.p.paused = false := by rw [← ha.paused]; simpa using hnp
      exact hno _ (pause_iff.2 ⟨hp', h1, h2, rfl⟩)
    | unpause c =>
      refine vToggle_none (fun h => by cases h.1) (fun h => by cases h.1) (fun h => by cases h.1)
        (fun h => by cases h.2.1) ?_
      rintro ⟨-, -, hnp, hb⟩
      obtain ⟨h1, h2⟩ := (byOwner_iff ha auth c .unpause).1 hb
      have hp' : x.s.p.paused = true := by rw [← ha.paused]; exact hnp
      exact hno _ (unpause_iff.2 ⟨hp', h1, h2, rfl⟩)

/-- **an accepted call**: the monitor is silent on the new getters and its ghost flag / ghost counter
describe the new state -/
theorem accepted_sound {m : Mon} {x : MSt} (ha : Agree m x) (auth : List Nat) (op : SOp) {s' : Stk}
    (hs : applyModel x.s auth op = some s') :
    (checkCore m (lineOf auth op) (modelObs ⟨s', nowStep x.now op⟩ true op)).2 = none ∧
    Agree (checkCore m (lineOf auth op) (modelObs ⟨s', nowStep x.now op⟩ true op)).1 ⟨s', nowStep x.now op⟩ := by
  have hroll : vRollback m (modelObs ⟨s', nowStep x.now op⟩ true op) = none :=
    vRollback_none (fun h => by cases h)
  cases op with
  | advance n =>
    injection hs with hs
    subst hs
    have hcall : vCall m (lineOf auth (.advance n)) (modelObs ⟨x.s, nowStep x.now (.advance n)⟩ true (.advance n)) = none :=
      vToggle_other (l := lineOf auth (.advance n)) (fun h => by cases h) (fun h => by cases h)
    have heff : vEffect m (lineOf auth (.advance n)) (modelObs ⟨x.s, nowStep x.now (.advance n)⟩ true (.advance n)) = none :=
      vEffect_none (l := lineOf auth (.advance n)) ha.counter.symm ha.paused.symm (fun _ h => by cases h)
    exact ⟨verdict_none hroll hcall heff, ⟨Or.inr rfl, ha.paused, ha.counter, ha.owner, ha.admin, ha.isOp⟩⟩
  | op o =>
    have hx := applyModel_op_some hs
    obtain ⟨k1, k2, k3⟩ := apply_keeps hx
    cases o with
    | call f c =>
      obtain ⟨h1, h2, hb⟩ := call_iff.1 hx
      have hcnt : s'.counter = counterF m.counter (.fn f) ∧ s'.p = x.s.p := by
        cases hf : f.isInc
        · rw [(body_reset hf).1 hb]; simp [counterF, hf]
        · rw [((body_inc hf).1 hb).2]; simp [counterF, hf, ha.counter]
      have hpz : s'.p.paused = m.paused := by rw [hcnt.2, ha.paused]
      have hcall : vCall m (lineOf auth (.op (.call f c)))
          (modelObs ⟨s', nowStep x.now (.op (.call f c))⟩ true (.op (.call f c))) = none := by
        show vFn m (lineOf auth (.op (.call f c))) f _ = none
        refine vFn_none ?_ ?_ (fun h => h.1 rfl)
        · rintro ⟨-, hne⟩
          exact hne (by rw [ha.paused]; exact h1)
        · rintro ⟨-, hna⟩
          exact hna ((authorized_iff ha auth f c).2 h2)
      have heff : vEffect m (lineOf auth (.op (.call f c)))
          (modelObs ⟨s', nowStep x.now (.op (.call f c))⟩ true (.op (.call f c))) = none := by
        refine vEffect_none (l := lineOf auth (.op (.call f c))) hcnt.1 hpz ?_
        intro _ hinc
        have hf : f.isInc = true := hinc
        show (if (true = true) ∧ f.isInc = true then some s'.counter else none) = some s'.counter
        rw [if_pos ⟨rfl, hf⟩]
      exact ⟨verdict_none hroll hcall heff,
        ⟨Or.inr rfl, hpz.symm, hcnt.1.symm, k1.trans ha.owner, k2.trans ha.admin, k3.trans ha.isOp⟩⟩
    | pause c =>
      obtain ⟨h1, h2, h3, e⟩ := pause_iff.1 hx
      have hp' : s'.p.paused = true := by rw [e]
      have hc' : s'.counter = x.s.counter := by rw [e]
      have hcall : vCall m (lineOf auth (.op (.pause c)))
          (modelObs ⟨s', nowStep x.now (.op (.pause c))⟩ true (.op (.pause c))) = none := by
        show vToggle m (lineOf auth (.op (.pause c))) _ = none
        refine vToggle_none ?_ (fun h => by cases h.2.1) ?_ (fun h => h.1 rfl) (fun h => h.1 rfl)
        · rintro ⟨-, -, hp⟩
          rw [ha.paused, h1] at hp
          cases hp
        · rintro ⟨-, -, hnb⟩
          exact hnb ((byOwner_iff ha auth c .pause).2 ⟨h2, h3⟩)
      have heff : vEffect m (lineOf auth (.op (.pause c)))
          (modelObs ⟨s', nowStep x.now (.op (.pause c))⟩ true (.op (.pause c))) = none :=
        vEffect_none (l := lineOf auth (.op (.pause c))) (hc'.trans ha.counter.symm) hp' (fun _ h => by cases h)
      exact ⟨verdict_none hroll hcall heff,
        ⟨Or.inr rfl, hp'.symm, ha.counter.trans hc'.symm, k1.trans ha.owner, k2.trans ha.admin, k3.trans ha.isOp⟩⟩
    | unpause c =>
      obtain ⟨h1, h2, h3, e⟩ := unpause_iff.1 hx
      have hp' : s'.p.paused = false := by rw [e]
      have hc' : s'.counter = x.s.counter := by rw [e]
      have hcall : vCall m (lineOf auth (.op (.unpause c)))
          (modelObs ⟨s', nowStep x.now (.op (.unpause c))⟩ true (.op (.unpause c))) = none := by
        show vToggle m (lineOf auth (.op (.unpause c))) _ = none
        refine vToggle_none (fun h => by cases h.2.1) ?_ ?_ (fun h => h.1 rfl) (fun h => h.1 rfl)
        · rintro ⟨-, -, hp⟩
          exact hp (by rw [ha.paused, h1])
        · rintro ⟨-, -, hnb⟩
          exact hnb ((byOwner_iff ha auth c .unpause).2 ⟨h2, h3⟩)
      have heff : vEffect m (lineOf auth (.op (.unpause c)))
          (modelObs ⟨s', nowStep x.now (.op (.unpause c))⟩ true (.op (.unpause c))) = none :=
        vEffect_none (l := lineOf auth (.op (.unpause c))) (hc'.trans ha.counter.symm) hp' (fun _ h => by cases h)
      exact ⟨verdict_none hroll hcall heff,
        ⟨Or.inr rfl, hp'.symm, ha.counter.trans hc'.symm, k1.trans ha.owner, k2.trans ha.admin, k3.trans ha.isOp⟩⟩

/-- **one call**: fed with the model's own observation of any call (accepted or rejected), the monitor
reports nothing and its state keeps describing the model's -/
theorem monitor_sound_step {m : Mon} {x : MSt} (ha : Agree m x) (auth : List Nat) (op : SOp) :
    (checkCore m (lineOf auth op) (modelObs (stepM x auth op).1 (stepM x auth op).2 op)).2 = none ∧
    Agree (checkCore m (lineOf auth op) (modelObs (stepM x auth op).1 (stepM x auth op).2 op)).1
      (stepM x auth op).1 := by
  cases hap : applyModel x.s auth op with
  | none => rw [stepM_none hap]; exact rejected_sound ha auth op hap
  | some s' => rw [stepM_some hap]; exact accepted_sound ha auth op hap

/-- one item of a history: the authorizing addresses and the call -/
abbrev Item := List Nat × SOp

/-- the monitor run over a whole history of model observations: first message, if any -/
def monitorRun : Mon → MSt → List Item → Option String
  | _, _, [] => none
  | m, x, a :: as =>
    match (checkCore m (lineOf a.1 a.2) (modelObs (stepM x a.1 a.2).1 (stepM x a.1 a.2).2 a.2)).2 with
    | some msg => some msg
    | none => monitorRun
        (checkCore m (lineOf a.1 a.2) (modelObs (stepM x a.1 a.2).1 (stepM x a.1 a.2).2 a.2)).1
        (stepM x a.1 a.2).1 as

/-- the states the driver builds from a `kind=stk` label agree -/
theorem init_agree (p : Params) : Agree (monInit p) (initM p) :=
  ⟨Or.inl rfl, rfl, rfl, rfl, rfl, rfl⟩

/-- **monitor soundness**, machine `stk`: for every sequence label (any owner, admin, role holder and start
ledger — distinct or coinciding principals) and every finite history — any of the twelve guarded entry
points, pause, unpause, ledger movement, any callers, any authorizing subsets — the monitor reports
nothing on the model's observations -/
theorem monitor_accepts_every_model_trace (p : Params) (ops : List Item) :
    monitorRun (monInit p) (initM p) ops = none := by
  suffices ∀ m x, Agree m x → monitorRun m x ops = none from this _ _ (init_agree p)
  induction ops with
  | nil => intro m x _; rfl
  | cons a as ih =>
    intro m x ha
    obtain ⟨h1, h2⟩ := monitor_sound_step ha a.1 a.2
    unfold monitorRun
    rw [h1]
    exact ih _ _ h2

/-! ### non-vacuity (tests, labelled as such): the monitor is not trivially silent -/

/-- the observation of the seeded change "auth guard macro drops the stacked pause guard": `inc_a`
(`#[only_owner]` above `#[when_not_paused]`) accepted with the owner's authorization while the ghost flag
says paused — `site=stacked.bypass.pause.inc_a` -/
example :
    (checkCore { owner := 0, admin := 2, opr := 1, paused := true, counter := 12, prev := none }
      ⟨.fn .incA, [], [0], 0⟩
      ⟨true, some 13, { now := 100, counter := 13, paused := true }⟩).2.isSome = true := by
  simp [checkCore, verdict, orElse, vRollback, vCall, vFn, Fn.spec]

/-- `reset_a` (`#[only_owner]` above `#[when_paused]`) accepted while not paused —
`site=stacked.bypass.pause.reset_a` -/
example :
    (checkCore { owner := 0, admin := 2, opr := 1, paused := false, counter := 4, prev := none }
      ⟨.fn .resetA, [], [0], 0⟩
      ⟨true, none, { now := 100, counter := 0, paused := false }⟩).2.isSome = true := by
  simp [checkCore, verdict, orElse, vRollback, vCall, vFn, Fn.spec]

/-- `inc_b` accepted with only a stranger's authorization — `site=stacked.bypass.auth.inc_b` -/
example :
    (checkCore { owner := 0, admin := 2, opr := 1, paused := false, counter := 4, prev := none }
      ⟨.fn .incB, [], [3], 0⟩
      ⟨true, some 5, { now := 100, counter := 5, paused := false }⟩).2.isSome = true := by
  simp [checkCore, verdict, orElse, vRollback, vCall, vFn, Fn.spec, authorized]

/-- the role holder's authorized `inc_r2` refused while not paused — `site=stacked.refused.inc_r2` -/
example :
    (checkCore { owner := 0, admin := 2, opr := 1, paused := false, counter := 4,
                 prev := some { now := 100, counter := 4, paused := false } }
      ⟨.fn .incR2, [1], [1], 0⟩
      ⟨false, none, { now := 100, counter := 4, paused := false }⟩).2.isSome = true := by
  simp [checkCore, verdict, orElse, vRollback, vCall, vFn, Fn.spec, authorized, guardsHold, Fn.isInc, I32_MAX]

/-- an accepted `inc_c` after which the counter did not move — `site=stacked.effect` -/
example :
    (checkCore { owner := 0, admin := 2, opr := 1, paused := false, counter := 4, prev := none }
      ⟨.fn .incC, [], [2], 0⟩
      ⟨true, some 4, { now := 100, counter := 4, paused := false }⟩).2.isSome = true := by
  simp [checkCore, verdict, orElse, vRollback, vCall, vFn, Fn.spec, authorized, guardsHold, vEffect, counterStep,
    counterF, Fn.isInc]

end OZ.Gates.Stk.Mon
