import OZ.Lemmas.Fungible
/-
C01 — Fungible supply is conserved and reconstructible from events.

Property theorems only. The model (OZ/Model/Fungible.lean) mirrors `impl Base` of
packages/tokens/src/fungible/storage.rs and extensions/burnable/storage.rs; every flavour
of the library (allow/block-list, capped, pausable, votes, vault shares, RWA) moves
balances exclusively through `Base::update`, so `update_inv`/`update_no_overflow` carry
over to them; their extra gates only make more calls fail (checked by the correspondence).

All statements hold for every configuration, every start ledger, every finite list of
operations with arbitrary `Int` amounts (negative, zero, beyond i128) and arbitrary
authorizing subsets, over any duplicate-free set `U` of accounts that contains the
accounts the operations mention.
-/
namespace OZ.Fungible
open OZ.Host

/-- the code's "can't overflow" comments are true: under the invariant the unchecked
credit / supply subtraction of `update` stays inside i128, so the overflow panic is
unreachable -/
theorem update_no_overflow {U : List Nat} (hn : U.Nodup) {s : State} (hi : Inv U s)
    (f t : Option Nat) (amt : Int) : update s f t amt ≠ .error .overflowPanic := by
  intro h
  unfold update at h
  split at h
  · cases h
  · rename_i h0
    split at h
    · rename_i e hd
      -- the error came from `debit`: it is never `overflowPanic`
      unfold debit at hd
      cases f <;> simp only at hd <;> split at hd <;> cases hd <;> cases h
    · rename_i s1 hd
      obtain ⟨-, -, -, hd4⟩ := debit_ok hd
      unfold credit at h
      cases t with
      | some b =>
        simp only at h
        split at h
        · cases h
        · rename_i hnot
          apply hnot
          cases f with
          | some a =>
            obtain ⟨hge, hs1, hb1⟩ := hd4
            rw [hb1]
            by_cases hab : b = a
            · subst hab; rw [upd_same]
              have := bal_le_supply hn hi b; have := hi.nonneg b; have := hi.supHi
              unfold in128 I128_MIN; constructor <;> omega
            · rw [upd_other _ _ _ _ hab]
              have := bal_add_le_supply hn hi a b (Ne.symm hab)
              have := hi.nonneg b; have := hi.supHi
              unfold in128 I128_MIN; constructor <;> omega
          | none =>
            obtain ⟨hs1, hin, hb1⟩ := hd4
            rw [hb1]
            have := bal_le_supply hn hi b; have := hi.nonneg b
            unfold in128 I128_MIN at *; constructor <;> omega
      | none =>
        simp only at h
        split at h
        · cases h
        · rename_i hnot
          apply hnot
          cases f with
          | some a =>
            obtain ⟨hge, hs1, hb1⟩ := hd4
            rw [hs1]
            have := bal_le_supply hn hi a; have := hi.supHi
            unfold in128 I128_MIN; constructor <;> omega
          | none =>
            obtain ⟨hs1, hin, hb1⟩ := hd4
            rw [hs1]
            have := hi.supLo; have := hi.supHi
            unfold in128 I128_MIN; constructor <;> omega


/-- what one successful invocation does to the supply -/
def supplyDelta : Op → Int
  | .mint _ a => a
  | .burn _ a => -a
  | .burnFrom _ _ a => -a
  | _ => 0

/-- one successful invocation preserves the invariant, changes the supply by exactly
`+amount` (mint), `-amount` (burn, burn_from) or not at all (everything else) -/
theorem apply_inv {U : List Nat} (hn : U.Nodup) (c : Cfg) {s s' : State} (hi : Inv U s)
    (auth : List Nat) (op : Op) (hU : ∀ a ∈ op.addrs, a ∈ U)
    (h : apply c s auth op = .ok s') :
    Inv U s' ∧ s'.supply = s.supply + supplyDelta op := by
  cases op with
  | mint to amt =>
    obtain ⟨s1, h1, h2⟩ := bind_eq_ok h
    injection h2 with h2; subst h2
    obtain ⟨hi1, hs⟩ := update_inv hn hi (by intro a e; cases e) (by intro b e; cases e; exact hU _ (by simp [Op.addrs])) h1
    refine ⟨hi1.congr rfl rfl, ?_⟩
    simp [emit, supplyDelta] at *; rw [hs]
  | transfer f t amt =>
    obtain ⟨_, _, h⟩ := bind_eq_ok h
    obtain ⟨s1, h1, h2⟩ := bind_eq_ok h
    injection h2 with h2; subst h2
    obtain ⟨hi1, hs⟩ := update_inv hn hi (by intro a e; cases e; exact hU _ (by simp [Op.addrs]))
      (by intro b e; cases e; exact hU _ (by simp [Op.addrs])) h1
    refine ⟨hi1.congr rfl rfl, ?_⟩
    simp [emit, supplyDelta] at *; rw [hs]
  | transferFrom sp f t amt =>
    obtain ⟨_, _, h⟩ := bind_eq_ok h
    obtain ⟨s0, h0, h⟩ := bind_eq_ok h
    obtain ⟨s1, h1, h2⟩ := bind_eq_ok h
    injection h2 with h2; subst h2
    obtain ⟨e1, e2, -, -, -⟩ := spendAllowance_ok h0
    obtain ⟨hi1, hs⟩ := update_inv hn (hi.congr e1 e2) (by intro a e; cases e; exact hU _ (by simp [Op.addrs]))
      (by intro b e; cases e; exact hU _ (by simp [Op.addrs])) h1
    refine ⟨hi1.congr rfl rfl, ?_⟩
    simp [emit, supplyDelta] at *; rw [hs, e1]
  | approve o sp amt lu =>
    obtain ⟨_, _, h⟩ := bind_eq_ok h
    obtain ⟨s0, h0, h2⟩ := bind_eq_ok h
    injection h2 with h2; subst h2
    obtain ⟨e1, e2, -, -, -⟩ := setAllowance_ok h0
    refine ⟨(hi.congr e1 e2).congr rfl rfl, ?_⟩
    simp [emit, supplyDelta]; exact e1
  | burn f amt =>
    obtain ⟨_, _, h⟩ := bind_eq_ok h
    obtain ⟨s1, h1, h2⟩ := bind_eq_ok h
    injection h2 with h2; subst h2
    obtain ⟨hi1, hs⟩ := update_inv hn hi (by intro a e; cases e; exact hU _ (by simp [Op.addrs]))
      (by intro b e; cases e) h1
    refine ⟨hi1.congr rfl rfl, ?_⟩
    simp [emit, supplyDelta] at *; rw [hs]; omega
  | burnFrom sp f amt =>
    obtain ⟨_, _, h⟩ := bind_eq_ok h
    obtain ⟨s0, h0, h⟩ := bind_eq_ok h
    obtain ⟨s1, h1, h2⟩ := bind_eq_ok h
    injection h2 with h2; subst h2
    obtain ⟨e1, e2, -, -, -⟩ := spendAllowance_ok h0
    obtain ⟨hi1, hs⟩ := update_inv hn (hi.congr e1 e2) (by intro a e; cases e; exact hU _ (by simp [Op.addrs]))
      (by intro b e; cases e) h1
    refine ⟨hi1.congr rfl rfl, ?_⟩
    simp [emit, supplyDelta] at *; rw [hs, e1]; omega
  | advance n =>
    injection h with h; subst h
    exact ⟨hi.congr rfl rfl, by simp [supplyDelta]⟩

/-- a transfer (plain or allowance-based) never changes the supply; a mint raises it by
exactly the amount; a burn lowers it by exactly the amount -/
theorem transfer_supply (c : Cfg) (s s' : State) (auth : List Nat) (f t : Nat) (amt : Int) {U : List Nat}
    (hn : U.Nodup) (hi : Inv U s) (hf : f ∈ U) (ht : t ∈ U)
    (h : apply c s auth (.transfer f t amt) = .ok s') : s'.supply = s.supply := by
  have := (apply_inv hn c hi auth _ (by intro a ha; simp [Op.addrs] at ha; rcases ha with rfl | rfl <;> assumption) h).2
  simpa [supplyDelta] using this

theorem mint_supply (c : Cfg) (s s' : State) (auth : List Nat) (t : Nat) (amt : Int) {U : List Nat}
    (hn : U.Nodup) (hi : Inv U s) (ht : t ∈ U)
    (h : apply c s auth (.mint t amt) = .ok s') : s'.supply = s.supply + amt := by
  have := (apply_inv hn c hi auth _ (by intro a ha; simp [Op.addrs] at ha; subst ha; assumption) h).2
  simpa [supplyDelta] using this

theorem burn_supply (c : Cfg) (s s' : State) (auth : List Nat) (f : Nat) (amt : Int) {U : List Nat}
    (hn : U.Nodup) (hi : Inv U s) (hf : f ∈ U)
    (h : apply c s auth (.burn f amt) = .ok s') : s'.supply = s.supply - amt := by
  have := (apply_inv hn c hi auth _ (by intro a ha; simp [Op.addrs] at ha; subst ha; assumption) h).2
  simp [supplyDelta] at this; omega

/-- a call that fails leaves every balance, allowance and the supply exactly as before
(the host's rollback, which is how `step` is defined; the correspondence check observes it
on the implementation after every failed call) -/
theorem failed_no_effect (c : Cfg) (s : State) (auth : List Nat) (op : Op) (e : Err)
    (h : apply c s auth op = .error e) : step c s (auth, op) = s := by
  simp [step, h]

theorem init_inv (U : List Nat) (now : Nat) : Inv U (init now) := by
  refine ⟨?_, ?_, ?_, ?_, ?_⟩
  · induction U with
    | nil => rfl
    | cons x xs ih => simp only [total, List.map_cons, List.sum_cons, init] at *; omega
  · intro a; simp [init]
  · intro a _; simp [init]
  · simp [init]
  · simp [init, I128_MAX]

/-- **C01, every reachable state**: for every finite history of operations (any amounts,
any authorizing subsets, any ledger movement), `total_supply` equals the sum of all
balances, no balance is negative, and the supply is a non-negative i128. -/
theorem inv_reachable (c : Cfg) (now : Nat) (U : List Nat) (hn : U.Nodup)
    (ops : List (List Nat × Op)) (hU : ∀ x ∈ ops, ∀ a ∈ x.2.addrs, a ∈ U) :
    Inv U (run c (init now) ops) := by
  suffices ∀ s, Inv U s → Inv U (run c s ops) from this _ (init_inv U now)
  induction ops with
  | nil => intro s hs; exact hs
  | cons x xs ih =>
    intro s hs
    simp only [run, List.foldl_cons]
    apply ih (fun y hy => hU y (List.mem_cons_of_mem _ hy))
    unfold step
    cases hx : apply c s x.1 x.2 with
    | error e => exact hs
    | ok s' => exact (apply_inv hn c hs x.1 x.2 (hU x (List.mem_cons_self)) hx).1

/-! ### replay of events -/

theorem replay_append (evs : List Event) (ev : Event) :
    replay (evs ++ [ev]) = replayEvent (replay evs) ev := by
  simp [replay, List.foldl_append]

/-- one successful invocation keeps "replaying the events gives the balances" -/
theorem apply_replay (c : Cfg) {s s' : State} (auth : List Nat) (op : Op)
    (hr : replay s.events = s.bal) (h : apply c s auth op = .ok s') :
    replay s'.events = s'.bal := by
  cases op with
  | mint to amt =>
    obtain ⟨s1, h1, h2⟩ := bind_eq_ok h
    injection h2 with h2; subst h2
    obtain ⟨_, s0, hd, hc⟩ := update_ok h1
    obtain ⟨-, -, ed, hd4⟩ := debit_ok hd
    obtain ⟨-, -, ec, hc4⟩ := credit_ok hc
    simp only [emit]; rw [replay_append, ec, ed, hr]
    simp only [replayEvent]; rw [hc4.2.1, hd4.2.2]
  | transfer f t amt =>
    obtain ⟨_, _, h⟩ := bind_eq_ok h
    obtain ⟨s1, h1, h2⟩ := bind_eq_ok h
    injection h2 with h2; subst h2
    obtain ⟨_, s0, hd, hc⟩ := update_ok h1
    obtain ⟨-, -, ed, hd4⟩ := debit_ok hd
    obtain ⟨-, -, ec, hc4⟩ := credit_ok hc
    simp only [emit]; rw [replay_append, ec, ed, hr]
    simp only [replayEvent]; rw [hc4.2.1, hd4.2.2]
  | transferFrom sp f t amt =>
    obtain ⟨_, _, h⟩ := bind_eq_ok h
    obtain ⟨sa, ha, h⟩ := bind_eq_ok h
    obtain ⟨s1, h1, h2⟩ := bind_eq_ok h
    injection h2 with h2; subst h2
    obtain ⟨-, eb, -, ee, -⟩ := spendAllowance_ok ha
    obtain ⟨_, s0, hd, hc⟩ := update_ok h1
    obtain ⟨-, -, ed, hd4⟩ := debit_ok hd
    obtain ⟨-, -, ec, hc4⟩ := credit_ok hc
    simp only [emit]; rw [replay_append, ec, ed, ee, hr]
    simp only [replayEvent]; rw [hc4.2.1, hd4.2.2, eb]
  | approve o sp amt lu =>
    obtain ⟨_, _, h⟩ := bind_eq_ok h
    obtain ⟨s0, h0, h2⟩ := bind_eq_ok h
    injection h2 with h2; subst h2
    obtain ⟨-, eb, -, ee, -⟩ := setAllowance_ok h0
    simp only [emit]; rw [replay_append, ee, hr]
    simp only [replayEvent]; rw [eb]
  | burn f amt =>
    obtain ⟨_, _, h⟩ := bind_eq_ok h
    obtain ⟨s1, h1, h2⟩ := bind_eq_ok h
    injection h2 with h2; subst h2
    obtain ⟨_, s0, hd, hc⟩ := update_ok h1
    obtain ⟨-, -, ed, hd4⟩ := debit_ok hd
    obtain ⟨-, -, ec, hc4⟩ := credit_ok hc
    simp only [emit]; rw [replay_append, ec, ed, hr]
    simp only [replayEvent]; rw [hc4.2.1, hd4.2.2]
  | burnFrom sp f amt =>
    obtain ⟨_, _, h⟩ := bind_eq_ok h
    obtain ⟨sa, ha, h⟩ := bind_eq_ok h
    obtain ⟨s1, h1, h2⟩ := bind_eq_ok h
    injection h2 with h2; subst h2
    obtain ⟨-, eb, -, ee, -⟩ := spendAllowance_ok ha
    obtain ⟨_, s0, hd, hc⟩ := update_ok h1
    obtain ⟨-, -, ed, hd4⟩ := debit_ok hd
    obtain ⟨-, -, ec, hc4⟩ := credit_ok hc
    simp only [emit]; rw [replay_append, ec, ed, ee, hr]
    simp only [replayEvent]; rw [hc4.2.1, hd4.2.2, eb]
  | advance n =>
    injection h with h; subst h; exact hr

/-- **C01, events**: replaying the emitted mint / burn / transfer events from genesis
reproduces every balance, after any history -/
theorem replay_events (c : Cfg) (now : Nat) (ops : List (List Nat × Op)) :
    replay (run c (init now) ops).events = (run c (init now) ops).bal := by
  suffices ∀ s, replay s.events = s.bal → replay (run c s ops).events = (run c s ops).bal from
    this _ (by simp [init, replay])
  induction ops with
  | nil => intro s hs; exact hs
  | cons x xs ih =>
    intro s hs
    simp only [run, List.foldl_cons]
    apply ih
    unfold step
    cases hx : apply c s x.1 x.2 with
    | error e => exact hs
    | ok s' => exact apply_replay c x.1 x.2 hs hx

/-! ### non-vacuity (tests, labelled as such): the hypotheses are met by a concrete,
non-trivial history, including a self-transfer, a failed call and an overflow attempt -/

def demoOps : List (List Nat × Op) :=
  [([], .mint 0 1000), ([0], .transfer 0 0 1000), ([0], .transfer 0 1 400), ([1], .transfer 0 1 1),
   ([], .mint 2 (I128_MAX - 1000)), ([], .mint 2 1), ([0], .approve 0 4 300 110),
   ([4], .transferFrom 4 0 3 100), ([3], .burn 3 40), ([4], .burnFrom 4 0 60)]

example : (run ⟨1, 1000⟩ (init 100) demoOps).supply = I128_MAX - 100 ∧
    (run ⟨1, 1000⟩ (init 100) demoOps).bal 0 = 440 ∧
    (run ⟨1, 1000⟩ (init 100) demoOps).bal 3 = 60 ∧
    allowance (run ⟨1, 1000⟩ (init 100) demoOps) 0 4 = 140 := by decide

example : ∀ x ∈ demoOps, ∀ a ∈ x.2.addrs, a ∈ [0, 1, 2, 3, 4] := by decide

end OZ.Fungible
