import OZ.Lemmas.IdentityHist
/-
C15 — An RWA identity is verified only by valid claims from currently trusted issuers.

Model: OZ/Model/IdentityRegistry.lean, ClaimIssuer.lean, Identity.lean (the tree after the
`fix:` commit 89dbb47). Notions (OZ/Lemmas/Identity.lean):
  `trustedFor r i t`     issuer `i` is currently trusted for topic `t` at registry `r`
  `holds st i t c`       the identity store holds claim `c` for topic `t` from issuer `i`
  `satisfies V W st d t i`  … and issuer `i` confirms it for identity `d`
  `WorldInv W`           registry invariant + identity stores well-formed; holds in every world
                         reachable from a fresh deployment (`reach_inv`, `worldInv_fresh`)
  `Binding V`            the signature oracle accepts given bytes for one message only.
-/
namespace OZ.Identity
open OZ.Host OZ.ClaimIssuer

variable {σ : Type}

/-! ### the registry: who is trusted for what -/

/-- the per-topic issuer list the verifier iterates over is exactly the set of issuers whose current
topic set contains the topic — in every registry reachable by any add/remove/update history -/
theorem trusted_iff_listed (ops : List RegOp) (t i : Nat) (l : List Nat)
    (hl : (regReplay ops).topicIssuers t = some l) : i ∈ l ↔ trustedFor (regReplay ops) i t :=
  ((inv_replay ops).fwd t l hl).2 i

/-- `trustedFor` is what the registry's own `has_claim_topic` answers -/
theorem trusted_iff_has_claim_topic (r : Reg) (i t : Nat) :
    trustedFor r i t ↔ hasClaimTopic r i t = .ok true := by
  unfold trustedFor hasClaimTopic
  cases h : r.issuerTopics i with
  | none => simp
  | some ts => simp

/-- every required topic of a reachable registry has its (possibly empty) issuer list, so
`get_claim_topics_and_issuers` never fails and reports exactly the required topics -/
theorem required_topics_listed (ops : List RegOp) :
    ∃ tis, getClaimTopicsAndIssuers (regReplay ops) = .ok tis ∧
      ∀ t l, (t, l) ∈ tis ↔ t ∈ (regReplay ops).topics ∧ (regReplay ops).topicIssuers t = some l :=
  collect_ok (inv_replay ops)

/-- de-listing: a removed issuer is trusted for nothing -/
theorem delisted_issuer_not_trusted {r r' : Reg} {i : Nat} (e : removeIssuer r i = .ok r') (t : Nat) :
    ¬ trustedFor r' i t := by
  rintro ⟨ts, h, _⟩
  rw [(removeIssuer_spec e).2.2.2, upd_eq] at h
  cases h

/-- narrowing: after `update_issuer_claim_topics` the issuer is trusted exactly for the new set -/
theorem updated_issuer_trusted_iff {r r' : Reg} {i : Nat} {ts : List Nat}
    (e : updateIssuer r i ts = .ok r') (t : Nat) : trustedFor r' i t ↔ t ∈ ts := by
  unfold trustedFor
  rw [(updateIssuer_spec e).2.2.2.1, upd_eq]
  constructor
  · rintro ⟨ts', h, ht⟩; injection h with h; subst h; exact ht
  · intro ht; exact ⟨ts, rfl, ht⟩

/-- a removed topic is taken away from every issuer -/
theorem removed_topic_not_trusted {r r' : Reg} {t : Nat} (h : r.Inv) (e : removeTopic r t = .ok r')
    (i : Nat) : ¬ trustedFor r' i t := by
  rintro ⟨ts, hts, ht⟩
  rw [(removeTopic_spec h e).2.2.2 i] at hts
  cases ho : r.issuerTopics i with
  | none => rw [ho] at hts; cases hts
  | some old =>
    rw [ho] at hts
    injection hts with hts
    subst hts
    exact ((List.Nodup.mem_erase_iff (h.issuerTopicsOk i old ho).1).mp ht).1 rfl

/-- a topic added (again) starts with no trusted issuer: earlier trust does not come back -/
theorem fresh_topic_has_no_issuer {r r' : Reg} {t : Nat} (h : r.Inv) (e : addTopic r t = .ok r')
    (i : Nat) : ¬ trustedFor r' i t := by
  rintro ⟨ts, hts, ht⟩
  obtain ⟨hnot, _, hit, _⟩ := addTopic_spec e
  rw [hit] at hts
  exact hnot ((h.issuerTopicsOk i ts hts).2 t ht)

/-! ### the verifier -/

/-- **verify_identity succeeds exactly when** the verifier is wired, the account has a registered
identity, and for EVERY currently required topic there is an issuer currently trusted for that
topic whose claim for that topic the identity holds and which confirms it. Both directions. -/
theorem verify_identity_iff (V : Verifier σ) (W : World σ) (hW : WorldInv W) (a : Nat) :
    verifyIdentity V W a = .ok () ↔
      W.vIrs = true ∧ ∃ d ra r, W.irs.identity a = some d ∧ W.vCti = some ra ∧ W.regs ra = some r ∧
        ∀ t ∈ r.topics, ∃ i, trustedFor r i t ∧ ∃ st, W.ids d = some st ∧ satisfies V W st d t i := by
  unfold verifyIdentity
  rw [verifyWith_iff]
  constructor
  · rintro ⟨hv, d, ra, r, tis, hd, hc, hr, hg, hb⟩
    refine ⟨hv, d, ra, r, hd, hc, hr, ?_⟩
    have hinv := hW.regs ra r hr
    obtain ⟨tis', hg', hm⟩ := collect_ok hinv
    rw [hg] at hg'; injection hg' with hg'; subst hg'
    intro t ht
    have hs := (hinv.topicSome t).mp ht
    cases hl : r.topicIssuers t with
    | none => rw [hl] at hs; cases hs
    | some l =>
      have hbody := hb (t, l) ((hm t l).mpr ⟨ht, hl⟩)
      obtain ⟨hne, st, hst, hloop⟩ := (verifyTopic_iff V W d t l).mp hbody
      have hwf := (hW.ids d st hst).1
      obtain ⟨i, hi, hsat⟩ :=
        (issuerLoop_iff V W st d t (fun i hi => (hwf t (i, t) hi).2) l hne).mp hloop
      exact ⟨i, ((hinv.fwd t l hl).2 i).mp hi, st, hst, hsat⟩
  · rintro ⟨hv, d, ra, r, hd, hc, hr, hall⟩
    have hinv := hW.regs ra r hr
    obtain ⟨tis, hg, hm⟩ := collect_ok hinv
    refine ⟨hv, d, ra, r, tis, hd, hc, hr, hg, ?_⟩
    rintro ⟨t, l⟩ hmem
    obtain ⟨ht, hl⟩ := (hm t l).mp hmem
    obtain ⟨i, htr, st, hst, hsat⟩ := hall t ht
    have hi : i ∈ l := ((hinv.fwd t l hl).2 i).mpr htr
    have hne : l ≠ [] := by intro e; subst e; cases hi
    have hwf := (hW.ids d st hst).1
    exact (verifyTopic_iff V W d t l).mpr ⟨hne, st, hst,
      (issuerLoop_iff V W st d t (fun i hi => (hwf t (i, t) hi).2) l hne).mpr ⟨i, hi, hsat⟩⟩

/-- the same over ANY history: every world reached from a fresh deployment by any finite sequence
of accepted operations of the whole stack (registry add/remove/update, identity registry, claims
added / removed / written raw, keys, nonces, revocations, time, re-wiring) -/
theorem verify_identity_iff_reachable (V : Verifier σ) (W0 W : World σ) (h0 : W0.Fresh)
    (hr : Reach V W0 W) (a : Nat) :
    verifyIdentity V W a = .ok () ↔
      W.vIrs = true ∧ ∃ d ra r, W.irs.identity a = some d ∧ W.vCti = some ra ∧ W.regs ra = some r ∧
        ∀ t ∈ r.topics, ∃ i, trustedFor r i t ∧ ∃ st, W.ids d = some st ∧ satisfies V W st d t i :=
  verify_identity_iff V W (reach_inv V (worldInv_fresh h0) hr) a

-- non-vacuity: a reachable world in which verification succeeds …
example : Reach idealV (freshWorld Msg) exWorld :=
  reach_runOps idealV _ exOps Reach.init (by decide)
example : okB (verifyIdentity idealV exWorld 11) = true := by decide
-- … and fails once the claim has expired, the nonce is bumped, the claim is revoked, the key is
-- removed, the issuer is de-listed or narrowed, or another topic is required
example : okB (verifyIdentity idealV (stepW idealV exWorld (.time 9)) 11) = false := by decide
example : okB (verifyIdentity idealV (stepW idealV exWorld (.time 8)) 11) = true := by decide
example : okB (verifyIdentity idealV (stepW idealV exWorld (.invalidate 4 8 1)) 11) = false := by decide
example : okB (verifyIdentity idealV (stepW idealV exWorld (.revoke 4 8 1 exData true)) 11) = false := by decide
example : okB (verifyIdentity idealV (stepW idealV exWorld (.removeKey 4 1 101 0 1)) 11) = false := by decide
example : okB (verifyIdentity idealV (stepW idealV exWorld (.reg 0 (.removeIssuer 4))) 11) = false := by decide
example : okB (verifyIdentity idealV (stepW idealV exWorld (.reg 0 (.addTopic 2))) 11) = false := by decide
example : okB (verifyIdentity idealV
    (runOps idealV exWorld [.reg 0 (.addTopic 2), .reg 0 (.updateIssuer 4 [2])]) 11) = false := by decide

/-- **untrusted never counts**: if for some required topic no CURRENTLY TRUSTED issuer has a held,
matching and confirmed claim, verification fails — whatever claims the identity holds from
untrusted or de-listed issuers, for other topics, or rejected by their issuer -/
theorem untrusted_never_counts (V : Verifier σ) (W : World σ) (hW : WorldInv W) (a d ra : Nat) (r : Reg)
    (t : Nat) (hd : W.irs.identity a = some d) (hc : W.vCti = some ra) (hr : W.regs ra = some r)
    (ht : t ∈ r.topics)
    (hno : ∀ i, trustedFor r i t → ∀ st, W.ids d = some st → ¬ satisfies V W st d t i) :
    verifyIdentity V W a ≠ .ok () := by
  intro h
  obtain ⟨_, d', ra', r', hd', hc', hr', hall⟩ := (verify_identity_iff V W hW a).mp h
  rw [hd] at hd'; injection hd' with hd'; subst hd'
  rw [hc] at hc'; injection hc' with hc'; subst hc'
  rw [hr] at hr'; injection hr' with hr'; subst hr'
  obtain ⟨i, htr, st, hst, hsat⟩ := hall t ht
  exact hno i htr st hst hsat

/-- a claim counts for (topic, issuer) only if it carries that topic and that issuer and the issuer
confirms it: a claim for another topic, of another issuer, or rejected never validates -/
theorem claim_counts_only_if (V : Verifier σ) (W : World σ) (c : Claim σ) (t i d : Nat) :
    validateClaim V W c t i d = true ↔
      c.topic = t ∧ c.issuer = i ∧ issuerConfirms V W i d t c.scheme c.sig c.data = true := by
  rw [validateClaim_iff]; exact and_assoc

/-- an address without a claim issuer contract confirms nothing -/
theorem no_contract_no_confirmation (V : Verifier σ) (W : World σ) (i d t scheme : Nat) (sd : SigData σ)
    (data : List Nat) (h : W.issuers i = none) : issuerConfirms V W i d t scheme sd data = false := by
  unfold issuerConfirms; rw [h]

/-- a de-listed issuer's claim stops counting at once: if only issuer `i` settled the required
topic `t`, verification fails after `remove_trusted_issuer(i)` -/
theorem delisting_invalidates (V : Verifier σ) (W : World σ) (hW : WorldInv W) (a d ra i t : Nat) (r r' : Reg)
    (hd : W.irs.identity a = some d) (hc : W.vCti = some ra) (hr : W.regs ra = some r)
    (e : removeIssuer r i = .ok r') (ht : t ∈ r.topics)
    (honly : ∀ j, j ≠ i → ∀ st, W.ids d = some st → ¬ satisfies V W st d t j) :
    verifyIdentity V { W with regs := upd W.regs ra (some r') } a ≠ .ok () := by
  have hW' : WorldInv { W with regs := upd W.regs ra (some r') } :=
    worldInv_applyOp V (.reg ra (.removeIssuer i)) hW trivial (by
      simp only [applyOp, onReg, hr, RegOp.apply, e])
  have hsat : ∀ j st, satisfies V { W with regs := upd W.regs ra (some r') } st d t j ↔ satisfies V W st d t j :=
    fun j st => Iff.rfl
  apply untrusted_never_counts V _ hW' a d ra r' t hd hc (by simp [upd]) (by rw [(removeIssuer_spec e).2.1]; exact ht)
  intro j htr st hst
  by_cases hj : j = i
  · subst hj; exact absurd htr (delisted_issuer_not_trusted e t)
  · exact fun hs => honly j hj st hst ((hsat j st).mp hs)

/-! ### the issuer -/

/-- **is_claim_valid accepts exactly when** the signature data is well-formed for the scheme and
the signature verifies, under the embedded key, over exactly (network, issuer, identity, topic,
CURRENT nonce, data) ∧ that key is currently allowed for the topic ∧ the claim is not expired
(`timestamp < valid_until`, data at least 16 bytes) ∧ it is not revoked -/
theorem issuer_confirms_iff (V : Verifier σ) (env : Env) (s : Issuer) (self identity topic scheme : Nat)
    (sd : SigData σ) (data : List Nat) :
    isClaimValid V env s self identity topic scheme sd data = true ↔
      expectedLen scheme = some sd.len ∧
      V scheme sd.pk { network := env.network, issuer := self, identity := identity, topic := topic,
                       nonce := currentNonce s identity topic, data := data } sd.sig = true ∧
      isKeyAllowedForTopic s sd.pk scheme topic = true ∧
      (∃ vu, validUntil data = .ok vu ∧ env.timestamp < vu) ∧
      isClaimRevoked s identity topic data = false := by
  unfold isClaimValid extractOk isClaimExpired buildClaimMessage
  cases he : expectedLen scheme with
  | none => simp
  | some n =>
    by_cases hl : sd.len = n
    · subst hl
      cases hk : isKeyAllowedForTopic s sd.pk scheme topic with
      | false => simp
      | true =>
        cases hv : validUntil data with
        | error e => simp
        | ok vu =>
          by_cases ht : env.timestamp ≥ vu
          · have : ¬ env.timestamp < vu := Nat.not_lt.mpr ht
            simp [ht, this]
          · have h2 : env.timestamp < vu := Nat.lt_of_not_le ht
            cases hrv : isClaimRevoked s identity topic data with
            | true => simp [ht]
            | false => simp [ht, h2]
    · have : (sd.len == n) = false := by simp [hl]
      simp [this]
      intro h; exact absurd h.symm hl

/-- through the verifier's `try_is_claim_valid`: additionally the issuer address must host a claim
issuer contract -/
theorem issuer_confirms_world_iff (V : Verifier σ) (W : World σ) (i d t scheme : Nat) (sd : SigData σ)
    (data : List Nat) :
    issuerConfirms V W i d t scheme sd data = true ↔
      ∃ s, W.issuers i = some s ∧ isClaimValid V W.env s i d t scheme sd data = true := by
  unfold issuerConfirms
  cases h : W.issuers i with
  | none => simp
  | some s => simp

/-- the two sentences of the property composed: issuer `i` settles topic `t` for identity `d` iff
the identity holds a claim for `t` from `i`, `i` hosts a claim issuer contract, and that contract's
five conditions hold for the claim as stored -/
theorem satisfies_iff (V : Verifier σ) (W : World σ) (st : IdStore σ) (d t i : Nat) :
    satisfies V W st d t i ↔
      ∃ c s, holds st i t c ∧ W.issuers i = some s ∧
        expectedLen c.scheme = some c.sig.len ∧
        V c.scheme c.sig.pk { network := W.env.network, issuer := i, identity := d, topic := t,
                              nonce := currentNonce s d t, data := c.data } c.sig.sig = true ∧
        isKeyAllowedForTopic s c.sig.pk c.scheme t = true ∧
        (∃ vu, validUntil c.data = .ok vu ∧ W.env.timestamp < vu) ∧
        isClaimRevoked s d t c.data = false := by
  unfold satisfies
  constructor
  · rintro ⟨c, hh, hc⟩
    obtain ⟨s, hs, hv⟩ := (issuer_confirms_world_iff V W i d t c.scheme c.sig c.data).mp hc
    exact ⟨c, s, hh, hs, (issuer_confirms_iff V W.env s i d t c.scheme c.sig c.data).mp hv⟩
  · rintro ⟨c, s, hh, hs, hv⟩
    exact ⟨c, hh, (issuer_confirms_world_iff V W i d t c.scheme c.sig c.data).mpr
      ⟨s, hs, (issuer_confirms_iff V W.env s i d t c.scheme c.sig c.data).mpr hv⟩⟩

/-- "key currently allowed for the topic" = some (topic, registry) authorisation of that
(key, scheme) has been granted by `allow_key` and not taken back by `remove_key` — over any
history of an issuer's key, nonce and revocation operations -/
theorem key_allowed_iff_authorized (ops : List KeyOp) (pk scheme topic : Nat) :
    isKeyAllowedForTopic (issuerReplay ops) pk scheme topic = true ↔
      ∃ registry, authorized (issuerReplay ops) pk scheme topic registry :=
  (inv_issuerReplay ops).link pk scheme topic

/-- `allow_key` grants exactly one authorisation, `remove_key` takes exactly one back -/
theorem allow_key_grants_one {s s' : Issuer} {reg : Option Reg} {self pk registry scheme topic : Nat}
    (e : allowKey s reg self pk registry scheme topic = .ok s') (pk' sc' t' r' : Nat) :
    authorized s' pk' sc' t' r' ↔
      authorized s pk' sc' t' r' ∨ (pk' = pk ∧ sc' = scheme ∧ t' = topic ∧ r' = registry) :=
  (allowKey_spec e).2.2.2 pk' sc' t' r'

theorem remove_key_revokes_one (ops : List KeyOp) {s' : Issuer} {pk registry scheme topic : Nat}
    (e : removeKey (issuerReplay ops) pk registry scheme topic = .ok s') (pk' sc' t' r' : Nat) :
    authorized s' pk' sc' t' r' ↔
      authorized (issuerReplay ops) pk' sc' t' r' ∧ ¬ (pk' = pk ∧ sc' = scheme ∧ t' = topic ∧ r' = registry) :=
  (removeKey_spec (inv_issuerReplay ops) e).2 pk' sc' t' r'

theorem currentNonce_bumped {s s' : Issuer} {d t : Nat} (e : invalidateClaimSignatures s d t = .ok s') :
    currentNonce s' d t = currentNonce s d t + 1 := by
  unfold invalidateClaimSignatures at e
  split at e
  · cases e
  · injection e with e; subst e
    simp [currentNonce, upd2]

/-- **nonce bump invalidates**: a claim the issuer confirmed stops being confirmed once
`invalidate_claim_signatures(identity, topic)` is accepted (signatures bind their message) -/
theorem nonce_bump_invalidates (V : Verifier σ) (hV : Binding V) (env : Env) {s s' : Issuer} {d t : Nat}
    (e : invalidateClaimSignatures s d t = .ok s') (self scheme : Nat) (sd : SigData σ) (data : List Nat)
    (h : isClaimValid V env s self d t scheme sd data = true) :
    isClaimValid V env s' self d t scheme sd data = false := by
  cases h' : isClaimValid V env s' self d t scheme sd data with
  | false => rfl
  | true =>
    have h1 := ((issuer_confirms_iff V env s self d t scheme sd data).mp h).2.1
    have h2 := ((issuer_confirms_iff V env s' self d t scheme sd data).mp h').2.1
    have := hV _ _ _ _ _ h1 h2
    injection this with _ _ _ _ hn _
    rw [currentNonce_bumped e] at hn
    omega

/-- … and only for that (identity, topic): every other pair is judged as before -/
theorem nonce_bump_is_local (V : Verifier σ) (env : Env) {s s' : Issuer} {d t : Nat}
    (e : invalidateClaimSignatures s d t = .ok s') (self d' t' scheme : Nat) (sd : SigData σ) (data : List Nat)
    (hne : ¬ (d' = d ∧ t' = t)) :
    isClaimValid V env s' self d' t' scheme sd data = isClaimValid V env s self d' t' scheme sd data := by
  have hn : currentNonce s' d' t' = currentNonce s d' t' := by
    unfold invalidateClaimSignatures at e
    split at e
    · cases e
    · injection e with e; subst e; simp [currentNonce, upd2, hne]
  obtain ⟨hk, _, hrv⟩ := invalidate_frame e
  rw [Bool.eq_iff_iff, issuer_confirms_iff, issuer_confirms_iff, hn]
  unfold isKeyAllowedForTopic isClaimRevoked
  rw [hk, hrv]

/-- **revocation is nonce independent**: the revocation digest does not contain the nonce, so a
bump changes no revocation status … -/
theorem revocation_is_nonce_independent {s s' : Issuer} {d t : Nat}
    (e : invalidateClaimSignatures s d t = .ok s') (d' t' : Nat) (data : List Nat) :
    isClaimRevoked s' d' t' data = isClaimRevoked s d' t' data := by
  rw [show isClaimRevoked s' d' t' data = (s'.revoked d' t' data).getD false from rfl,
      (invalidate_frame e).2.2]
  rfl

/-- … a revocation sets exactly the status of its (identity, topic, data) and leaves nonces alone … -/
theorem revocation_sets (s : Issuer) (d t : Nat) (data : List Nat) (b : Bool) (d' t' : Nat) (data' : List Nat) :
    isClaimRevoked (setClaimRevoked s d t data b) d' t' data' =
      (if d' = d ∧ t' = t ∧ data' = data then b else isClaimRevoked s d' t' data') ∧
    currentNonce (setClaimRevoked s d t data b) d' t' = currentNonce s d' t' := by
  constructor
  · unfold isClaimRevoked setClaimRevoked
    simp only
    split <;> rfl
  · rfl

/-- … and a revoked claim is confirmed under no signature, whatever the nonce is by then, for any
history of later key / nonce operations that does not un-revoke it -/
theorem revoked_never_confirmed (V : Verifier σ) (env : Env) (s : Issuer) (self d t scheme : Nat)
    (sd : SigData σ) (data : List Nat) (h : isClaimRevoked s d t data = true) :
    isClaimValid V env s self d t scheme sd data = false := by
  cases h' : isClaimValid V env s self d t scheme sd data with
  | false => rfl
  | true =>
    have := ((issuer_confirms_iff V env s self d t scheme sd data).mp h').2.2.2.2
    rw [h] at this; cases this

-- non-vacuity: issuer 4 of the example world confirms the example claim, and neither after a bump
-- nor after its revocation followed by a bump and a re-signature with the new nonce
example : issuerConfirms idealV exWorld 4 8 1 101 exClaim.sig exData = true := by decide
example : issuerConfirms idealV (stepW idealV exWorld (.invalidate 4 8 1)) 4 8 1 101 exClaim.sig exData = false := by
  decide
example : issuerConfirms idealV (runOps idealV exWorld [.revoke 4 8 1 exData true, .invalidate 4 8 1]) 4 8 1 101
    { exClaim.sig with sig := { exClaim.sig.sig with nonce := 1 } } exData = false := by decide
example : issuerConfirms idealV (runOps idealV exWorld [.invalidate 4 8 1]) 4 8 1 101
    { exClaim.sig with sig := { exClaim.sig.sig with nonce := 1 } } exData = true := by decide
example : Binding idealV := idealV_binding

/-! ### the defect of the unfixed tree (8e54c03), kept as a regression witness -/

/-- before the fix a required topic WITHOUT any trusted issuer counted as satisfied: in the world
reached by `set_irs; set_cti; add_identity(11 ↦ 8); add_claim_topic(7)` identity 8 holds no claim
at all, the old `verify_identity` accepts account 11, the fixed one refuses -/
theorem legacy_zero_issuer_topic_counterexample :
    okB (verifyIdentityLegacy noV cexWorld 11) = true ∧ okB (verifyIdentity noV cexWorld 11) = false ∧
    (∃ r, cexWorld.regs 0 = some r ∧ r.topics = [7] ∧ r.topicIssuers 7 = some []) := by
  refine ⟨by decide, by decide, ?_⟩
  exact ⟨_, rfl, by decide, by decide⟩

/-- the counterexample world is reachable from a fresh deployment -/
theorem legacy_counterexample_reachable : Reach noV (freshWorld Unit) cexWorld :=
  reach_runOps noV _ cexOps Reach.init (by decide)

/-- the fix changes nothing else: whenever every required topic has at least one trusted issuer
the old and the new `verify_identity` agree -/
theorem legacy_agrees_when_every_topic_has_an_issuer (V : Verifier σ) (W : World σ) (a : Nat)
    (h : ∀ ra r tis, W.vCti = some ra → W.regs ra = some r → getClaimTopicsAndIssuers r = .ok tis →
      ∀ ti ∈ tis, ti.2 ≠ []) :
    verifyIdentityLegacy V W a = .ok () ↔ verifyIdentity V W a = .ok () := by
  unfold verifyIdentityLegacy verifyIdentity
  rw [verifyWith_iff, verifyWith_iff]
  constructor
  · rintro ⟨hv, d, ra, r, tis, hd, hc, hr, hg, hb⟩
    refine ⟨hv, d, ra, r, tis, hd, hc, hr, hg, ?_⟩
    rintro ⟨t, l⟩ hm
    obtain ⟨st, hst, hl⟩ := (verifyTopicLegacy_iff V W d t l).mp (hb (t, l) hm)
    exact (verifyTopic_iff V W d t l).mpr ⟨h ra r tis hc hr hg (t, l) hm, st, hst, hl⟩
  · rintro ⟨hv, d, ra, r, tis, hd, hc, hr, hg, hb⟩
    refine ⟨hv, d, ra, r, tis, hd, hc, hr, hg, ?_⟩
    rintro ⟨t, l⟩ hm
    obtain ⟨_, st, hst, hl⟩ := (verifyTopic_iff V W d t l).mp (hb (t, l) hm)
    exact (verifyTopicLegacy_iff V W d t l).mpr ⟨st, hst, hl⟩

end OZ.Identity
