import OZ.Lemmas.RegRulesMon4
/-
C20 (d) — soundness of the `rules` MONITOR that decides the property on implementation traces.

`./check C20` reports a concrete violation in a `rules` sequence exactly when
`OZ.RegRules.Mon.checkCore` (the sub-driver's monitor on parsed values, OZ/Model/RegRulesMon.lean)
returns a message on the implementation's observations. Here it is proved that on the observations
of the MODEL (with the harness's oracle `installOk`: exactly policy 6 refuses `install`) the monitor
never returns a message, for every label (ledger `now`, constructor signers `s0` and policies `p0`
such that the constructor's `add_context_rule` is accepted) and every finite history of the eight
rule-management operations with ARBITRARY arguments and of idle gaps
(`monitor_accepts_every_model_trace`). Consequences: a monitor failure is never a false alarm of the
monitor itself, and every conclusion it evaluates — ALL checks of the `rules` monitor are covered:
the accept / refuse decision against the plain list with its documented limits (15 rules, 15
signers, 5 policies, duplicate signers / policies, absent ids / signers / policies, expiry in the past, empty rules,
duplicate fingerprints as plain triples of SETS, policy 6), the returned id above every id handed
out before (`rules.id_reused`), `get_context_rules_count` (`rules.count`), `get_context_rule` over
all ids (`rules.map`), `get_context_rules` per type in order (`rules.enumerates_once`), and the
stored fingerprint set as the injective image of the rules (`rules.fingerprints`) — is a THEOREM
about the model, in the monitor's own executable wording.

One hypothesis, about the labels the harness generates, not about the model:
* `hc`: the constructor rule is accepted. `minit` always starts from the ghost rule 0 while `initM`
  falls back to the empty state when the constructor's `add_context_rule` is refused (no signer and
  no policy, a duplicate signer or policy, more than 15 signers / 5 policies, policy 6); on such a
  label the monitor fires at the first call (`constructor_refused_fires` below). The harness only
  generates labels whose constructor succeeds (the account could not be deployed otherwise).

THE MONITOR WAS CORRECTED by this proof. Its earlier `add` decision (`legacyPlainAdd` / `legacyPlain`
in OZ/Model/RegRulesMon.lean) accepted an `add_context_rule` whose policy vector repeats a policy,
which the model (like `compute_fingerprint`: `DuplicatePolicy`) refuses: on the model's own
observation of such a call it reported `site=rules.valid_refused`, a false alarm of the monitor
(`legacy_monitor_false_alarm_dup_policy`). `plain` now refuses a repeated policy (`dup_policy`), as
the property demands (duplicates are refused; a repeated signer was already refused as
`dup_signer`). The driver's `parseOp` passes the policy vector through `dedupSort`, so the corrected
monitor decides no real trace differently (behaviour-preservation tests unchanged).

`modelObs ret s ok` is the data the model driver prints for state `s` (`stepLine` / `showState` of
OZ/Drv/C20Rules.lean, `idleSt` of OZ/Drv/C20.lean), as `parseObs` reads it: the tag; `ret=` the id
`NextId` of the old state for an accepted `add`, `-` otherwise (`retOf`); `n=`
`getContextRulesCount`; `R=` the printed `liveRules`; `T=` the printed ids of `getContextRules` over
types 0..3; `nfp=` the number of stored fingerprints; `fpd=` the number of distinct fingerprints of
the live rules (`fpsLive`, `eraseDups`); `fpok=` the bit "every live rule has a fingerprint and it
is stored".

Property theorems only; helper facts come from OZ/Lemmas/RegRulesMon{,2,3,4}.lean.
-/
namespace OZ.RegRules.Mon
open OZ.Reg OZ.RegMon OZ.RegRules

/-- the observation the harness / the model driver print for a state -/
def modelObs (ret : Option Nat) (s : State) (ok : Bool) : Obs :=
  { ok := ok,
    ret := ret,
    n := getContextRulesCount s,
    R := sepBy ";" ((liveRules s).map showRule),
    T := sepBy ";" ((List.range NC).map (fun c => match getContextRules s c with
      | some l => s!"{c}:{nats (l.map (·.id))}"
      | none => s!"{c}:x")),
    nfp := s.fps.length,
    fpd := (fpsLive s).eraseDups.length,
    fpok := bit (decide ((fpsLive s).length = (liveRules s).length ∧ (fpsLive s).all s.fps.contains)) }

/-- whether the model accepts the call -/
def accepted (s : State) (op : Op) : Bool :=
  match step installOk s op with
  | .ok _ => true
  | .error _ => false

/-- the getter part of the monitor never fires on the observation of a state the plain list
describes: count, rules by id, ids per type in order, fingerprints -/
theorem getters_quiet {g : Mon} {s : State} (ha : Agree g s) (hI : Inv s) (hS : IdsSorted s)
    (ret : Option Nat) (ok : Bool) : firstFail (getters g (modelObs ret s ok)) = none := by
  have hlen : g.rules.length = (ghost s).length := by rw [ha.rules]
  have q1 : (modelObs ret s ok).n = g.rules.length := by
    show s.count = _
    rw [hlen, ghost_length hI]
  have q2 : (modelObs ret s ok).R = rWant g := rWant_eq ha
  have q3 : (modelObs ret s ok).T = tWant g := tWant_eq ha hI hS
  have q4 : (modelObs ret s ok).nfp = g.rules.length ∧ (modelObs ret s ok).fpd = g.rules.length ∧
      (modelObs ret s ok).fpok = "1" := by
    refine ⟨by rw [hlen]; exact nfp_eq hI, by rw [hlen]; exact fpd_eq hI, ?_⟩
    show bit (decide _) = "1"
    rw [decide_eq_true (fpok_eq hI)]
    rfl
  unfold getters
  rw [chk_decide q1, firstFail_none_cons, chk_decide q2, firstFail_none_cons, chk_decide q3, firstFail_none_cons,
    chk_decide q4]
  rfl

/-- **one call**: fed with the model's own observation of any call (accepted or refused), the
monitor reports nothing and its plain list keeps describing the model's state -/
theorem monitor_sound_step {g : Mon} {s : State} (hI : Inv s) (hS : IdsSorted s) (ha : Agree g s) (op : Op) :
    (checkCore g op (modelObs (retOf s op (accepted s op)) (next installOk s op) (accepted s op))).2 = none ∧
    Agree (checkCore g op (modelObs (retOf s op (accepted s op)) (next installOk s op) (accepted s op))).1
      (next installOk s op) := by
  have hI' := inv_next installOk hI op
  have hS' := idsSorted_next hI hS op
  have key : ∃ g2,
      idStep g (decide2 "rules" g (plain g op) (accepted s op) (near g op)).1
        (decide2 "rules" g (plain g op) (accepted s op) (near g op)).2 op (accepted s op)
        (retOf s op (accepted s op)) = (g2, none) ∧
      (decide2 "rules" g (plain g op) (accepted s op) (near g op)).2 = none ∧
      Agree g2 (next installOk s op) := by
    rcases outcome ha hI op with ⟨s', g', hs, hp, ha'⟩ | ⟨⟨e, hs⟩, w, hp⟩
    · have hn : next installOk s op = s' := by unfold next; rw [hs]
      have hacc : accepted s op = true := by unfold accepted; rw [hs]
      obtain ⟨g2, hid, ha2⟩ := idStep_ok ha hI hs ha'
      rw [hn, hacc, hp, decide2_ok]
      exact ⟨g2, hid, rfl, ha2⟩
    · have hn : next installOk s op = s := by unfold next; rw [hs]
      have hacc : accepted s op = false := by unfold accepted; rw [hs]
      rw [hn, hacc, hp, decide2_err]
      exact ⟨g, idStep_err _ _ _ _ _, rfl, ha⟩
  obtain ⟨g2, hid, hd, ha2⟩ := key
  unfold checkCore
  rw [show (modelObs (retOf s op (accepted s op)) (next installOk s op) (accepted s op)).ok = accepted s op from rfl,
    show (modelObs (retOf s op (accepted s op)) (next installOk s op) (accepted s op)).ret =
      retOf s op (accepted s op) from rfl, hid, hd]
  refine ⟨?_, ha2⟩
  show firstFail (none :: none :: getters g2 _) = none
  rw [firstFail_none_cons, firstFail_none_cons]
  exact getters_quiet ha2 hI' hS' _ _

/-- an item of a sequence: a call, or an idle gap of `days` days (17 280 ledgers each). On an idle
line the dispatcher OZ/Drv/C20.lean only moves the monitor's `now` (no check by this monitor) while
the model performs `.advance`. -/
inductive Item where
  | call (op : Op)
  | idle (days : Nat)

/-- the monitor run over a whole history of model observations: first message, if any -/
def monitorRun : Mon → State → List Item → Option String
  | _, _, [] => none
  | g, s, .call op :: rest =>
    match (checkCore g op (modelObs (retOf s op (accepted s op)) (next installOk s op) (accepted s op))).2 with
    | some msg => some msg
    | none => monitorRun (checkCore g op (modelObs (retOf s op (accepted s op)) (next installOk s op) (accepted s op))).1
        (next installOk s op) rest
  | g, s, .idle d :: rest =>
    monitorRun { g with now := g.now + d * 17280 } (next installOk s (.advance (d * 17280))) rest

/-- the monitor's initial state for a sequence (what `minit` builds from the label: the ledger
sequence `now`, the constructor rule's signers `s0` and policies `p0`) -/
def monInit (now : Nat) (s0 p0 : List Nat) : Mon :=
  { rules := [⟨0, 0, 0, none, s0, p0⟩], maxId := 0, now := now }

/-- the run from any pair of a monitor state and a model state it describes -/
theorem monitor_run_quiet (items : List Item) :
    ∀ g s, Inv s → IdsSorted s → Agree g s → monitorRun g s items = none := by
  induction items with
  | nil => intro g s _ _ _; rfl
  | cons it rest ih =>
    intro g s hI hS ha
    cases it with
    | call op =>
      obtain ⟨h1, h2⟩ := monitor_sound_step hI hS ha op
      unfold monitorRun
      rw [h1]
      exact ih _ _ (inv_next installOk hI op) (idsSorted_next hI hS op) h2
    | idle d =>
      unfold monitorRun
      refine ih _ _ (inv_next installOk hI _) (idsSorted_next hI hS _) ?_
      exact ⟨ha.rules, ha.maxId, by show g.now + _ = s.now + _; rw [ha.now]⟩

/-- **monitor soundness**: for every label (`now`, `s0`, `p0`) whose constructor rule the model
accepts (`initM` then starts from that state `s`) and every finite history of calls of
`add_context_rule`, `update_context_rule_name`,
`update_context_rule_valid_until`, `remove_context_rule`, `add_signer`, `remove_signer`,
`add_policy`, `remove_policy` — any ids, names, expiries, signers, policies, accepted or refused —
and of idle gaps, the monitor that the sub-driver's `minit` builds reports nothing on the
observations of the model that the sub-driver's `initM` builds -/
theorem monitor_accepts_every_model_trace (now : Nat) (s0 p0 : List Nat) (s : State)
    (hc : addContextRule installOk (init now) 0 0 none s0 p0 = .ok s)
    (items : List Item) :
    monitorRun (monInit now s0 p0) s items = none := by
  obtain ⟨ha, hI, hS⟩ := agree_constructor hc
  exact monitor_run_quiet items _ _ hI hS ha

/-! ### the hypothesis is needed (test, labelled as such) -/

/-- a label whose constructor rule the model refuses (no signer, no policy): `initM` falls back to
the empty state, `minit` still holds the ghost rule 0, and the monitor fires on the model's
observation of the first call (`rules.count`) -/
theorem constructor_refused_fires :
    (∃ e, addContextRule installOk (init 100) 0 0 none [] [] = .error e) ∧
    (monitorRun (monInit 100 [] []) (init 100) [.call (.rename 0 1)]).isSome = true := by
  refine ⟨⟨_, rfl⟩, by decide⟩

/-! ### the false alarm of the monitor before its correction -/

/-- **finding.** Model trace: the account with constructor rule (signer 0, no policy), then
`add_context_rule(type 1, name 1, no expiry, signers [1], policies [2, 2])`. The model refuses the
call (`DuplicatePolicy`). The monitor's earlier decision `legacyPlain` accepts it, so on the model's
own (refused) observation it reported `site=rules.valid_refused`; the corrected `plain` refuses it
and reports nothing. -/
theorem legacy_monitor_false_alarm_dup_policy :
    accepted (added (init 100) 0 0 none [0] []) (.add 1 1 none [1] [2, 2]) = false ∧
    (decide2 "rules" (monInit 100 [0] []) (legacyPlain (monInit 100 [0] []) (.add 1 1 none [1] [2, 2])) false
      (near (monInit 100 [0] []) (.add 1 1 none [1] [2, 2]))).2 =
        some (refusedSite "rules" "valid") ∧
    (decide2 "rules" (monInit 100 [0] []) (plain (monInit 100 [0] []) (.add 1 1 none [1] [2, 2])) false
      (near (monInit 100 [0] []) (.add 1 1 none [1] [2, 2]))).2 = none ∧
    monitorRun (monInit 100 [0] []) (added (init 100) 0 0 none [0] []) [.call (.add 1 1 none [1] [2, 2])] = none := by
  exact ⟨by decide, by decide, by decide,
    monitor_accepts_every_model_trace 100 [0] [] _ rfl [.call (.add 1 1 none [1] [2, 2])]⟩

/-! ### non-vacuity (tests, labelled as such): the monitor is not trivially silent -/

/-- a refused valid `add`, an accepted `add` with a repeated policy, an accepted 16th rule, a reused id, a wrong count, a rule listed under a
wrong type and a missing fingerprint entry are reported -/
example :
    (checkCore (monInit 100 [0] []) (.add 1 1 none [1] []) ⟨false, none, 1, "", "", 1, 1, "1"⟩).2.isSome = true ∧
    (checkCore (monInit 100 [0] []) (.add 1 1 none [1] [2, 2]) ⟨true, some 1, 2, "", "", 2, 2, "1"⟩).2.isSome = true ∧
    (checkCore { rules := (List.range 15).map (fun i => ⟨i, 0, 0, none, [i], []⟩), maxId := 14, now := 100 }
      (.add 1 1 none [16] []) ⟨true, some 15, 16, "", "", 16, 16, "1"⟩).2.isSome = true ∧
    (idStep (monInit 100 [0] []) (monInit 100 [0] []) none (.add 1 1 none [1] []) true (some 0)).2.isSome = true ∧
    (firstFail (getters (monInit 100 [0] []) ⟨true, none, 2, rWant (monInit 100 [0] []), tWant (monInit 100 [0] []), 1, 1, "1"⟩)).isSome = true ∧
    (firstFail (getters (monInit 100 [0] []) ⟨true, none, 1, rWant (monInit 100 [0] []), "0:-;1:0;2:-;3:-", 1, 1, "1"⟩)).isSome = true ∧
    (firstFail (getters (monInit 100 [0] []) ⟨true, none, 1, rWant (monInit 100 [0] []), tWant (monInit 100 [0] []), 0, 1, "0"⟩)).isSome = true := by
  refine ⟨by decide, by decide, by decide, by decide, by decide, by decide, by decide⟩

end OZ.RegRules.Mon
