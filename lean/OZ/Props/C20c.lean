import OZ.Lemmas.RegBinder
/-
C20 (c): the token binder (`TokenBucket(i) -> Vec<Address>` in buckets of 100, `TotalCount`,
swap-and-pop across buckets, batches spilling over several buckets) represents the plain set
  bound s t  :=  is_token_bound(t)
under ANY history of `bind_token` / `bind_tokens` / `unbind_token` (arbitrary arguments, failed
calls rolled back), and index access enumerates that set exactly once.
-/
namespace OZ.Props.C20c
open OZ.Reg OZ.RegBinder

/-- **binder_refines.** After any history the storage is a duplicate-free flat list `l` (the
plain set with an enumeration) and every getter answers from it: `linked_tokens` is `l`,
`linked_token_count` its length, `is_token_bound` membership, `get_token_by_index` the `i`-th
element (failing exactly from `count` on), `get_token_index` fails exactly on non-members and
otherwise returns a position of the token. -/
theorem binder_refines (ops : List Op) :
    let s := run init ops
    ∃ l : List Nat, l.Nodup ∧ linkedTokens s = l ∧ linkedTokenCount s = l.length ∧ l.length ≤ MAX_TOKENS ∧
      (∀ t, isTokenBound s t = true ↔ t ∈ l) ∧
      (∀ i, getTokenByIndex s i = l[i]?) ∧
      (∀ t, (getTokenIndex s t = none ↔ t ∉ l) ∧ ∀ i, getTokenIndex s t = some i → l[i]? = some t) := by
  intro s
  obtain ⟨l, h⟩ : Inv s := inv_run inv_init ops
  exact ⟨l, h.nodup, rep_linkedTokens h, h.count, h.le, rep_isTokenBound h, rep_getTokenByIndex h,
    fun t => ⟨rep_getTokenIndex_none h t, rep_getTokenIndex_some h t⟩⟩

/-- **binder_abs_step.** The represented set moves exactly as a plain set does. -/
theorem binder_abs_step (s : State) (hs : Reachable s) :
    (∀ t s', bindToken s t = .ok s' → ∀ x, bound s' x ↔ (bound s x ∨ x = t)) ∧
    (∀ ts s', bindTokens s ts = .ok s' → ∀ x, bound s' x ↔ (bound s x ∨ x ∈ ts)) ∧
    (∀ t s', unbindToken s t = .ok s' → ∀ x, bound s' x ↔ (bound s x ∧ x ≠ t)) ∧
    (∀ o e, step s o = .error e → next s o = s) := by
  obtain ⟨l, h⟩ := reachable_inv hs
  refine ⟨?_, ?_, ?_, ?_⟩
  · intro t s' hok x
    obtain ⟨⟨hn, hl⟩, rfl⟩ := (bindToken_ok_iff h s' t).1 hok
    unfold bound
    rw [rep_isTokenBound (rep_push h hn hl), rep_isTokenBound h]; simp
  · intro ts s' hok x
    obtain ⟨⟨_, hl, hnd, hdis⟩, rfl⟩ := (bindTokens_ok_iff h s' ts).1 hok
    exact mem_foldl_push h ts hnd hdis hl x
  · intro t s' hok x
    by_cases ht : t ∈ l
    · obtain ⟨s'', idx, hs'', hget, hr⟩ := (unbindToken_ok_iff h t).1 ht
      rw [hok] at hs''; injection hs'' with hs''; subst hs''
      unfold bound
      rw [rep_isTokenBound hr, rep_isTokenBound h]
      exact mem_swapPop l h.nodup idx t hget x
    · obtain ⟨e, he⟩ := (unbindToken_ok_iff h t).2 ht
      rw [hok] at he; cases he
  · intro o e he
    simp [next, he]

/-- **binder_dup_refused.** A bound token cannot be bound again, alone or inside a batch, and a
batch with a repetition is refused. -/
theorem binder_dup_refused (s : State) (hs : Reachable s) :
    (∀ t, bound s t → ∃ e, bindToken s t = .error e) ∧
    (∀ ts t, t ∈ ts → bound s t → ∃ e, bindTokens s ts = .error e) ∧
    (∀ ts, ¬ ts.Nodup → ∃ e, bindTokens s ts = .error e) := by
  obtain ⟨l, h⟩ := reachable_inv hs
  refine ⟨?_, ?_, ?_⟩
  · intro t hb
    exact err_of_not_ok (fun s' hok => ((bindToken_ok_iff h s' t).1 hok).1.1 ((rep_isTokenBound h t).1 hb))
  · intro ts t ht hb
    exact err_of_not_ok (fun s' hok =>
      ((bindTokens_ok_iff h s' ts).1 hok).1.2.2.2 t ht ((rep_isTokenBound h t).1 hb))
  · intro ts hnd
    exact err_of_not_ok (fun s' hok => hnd ((bindTokens_ok_iff h s' ts).1 hok).1.2.2.1)

/-- **binder_absent_refused.** A token that is not bound cannot be unbound. -/
theorem binder_absent_refused (s : State) (hs : Reachable s) (t : Nat) (hn : ¬ bound s t) :
    ∃ e, unbindToken s t = .error e := by
  obtain ⟨l, h⟩ := reachable_inv hs
  exact (unbindToken_ok_iff h t).2 (fun hm => hn ((rep_isTokenBound h t).2 hm))

/-- **binder_limit_exact.** In a reachable state a new token is accepted exactly while fewer than
`MAX_TOKENS = 10 000` are bound (the 10 000th accepted, the 10 001st refused); a duplicate-free
batch of new tokens of at most 200 is accepted exactly when it fits. -/
theorem binder_limit_exact (s : State) (hs : Reachable s) :
    (∀ t, ¬ bound s t →
      ((∃ s', bindToken s t = .ok s') ↔ linkedTokenCount s < 10000) ∧
      (linkedTokenCount s = 9999 → ∃ s', bindToken s t = .ok s') ∧
      (linkedTokenCount s = 10000 → ∃ e, bindToken s t = .error e)) ∧
    (∀ ts, ts.Nodup → (∀ t, t ∈ ts → ¬ bound s t) → ts.length ≤ 200 →
      ((∃ s', bindTokens s ts = .ok s') ↔ linkedTokenCount s + ts.length ≤ 10000)) ∧
    (∀ ts, ts.length > 200 → ∃ e, bindTokens s ts = .error e) := by
  obtain ⟨l, h⟩ := reachable_inv hs
  have hc : linkedTokenCount s = l.length := h.count
  refine ⟨?_, ?_, ?_⟩
  · intro t hn
    have hnl : t ∉ l := fun hm => hn ((rep_isTokenBound h t).2 hm)
    have key : (∃ s', bindToken s t = .ok s') ↔ linkedTokenCount s < 10000 := by
      rw [hc]
      constructor
      · rintro ⟨s', hok⟩; exact ((bindToken_ok_iff h s' t).1 hok).1.2
      · intro hl; exact ⟨_, (bindToken_ok_iff h _ t).2 ⟨⟨hnl, hl⟩, rfl⟩⟩
    refine ⟨key, fun h9 => key.2 (by omega), fun h10 => ?_⟩
    exact err_of_not_ok (fun s' hok => by have := key.1 ⟨s', hok⟩; omega)
  · intro ts hnd hdis hlen
    rw [hc]
    have hdis' : ∀ t, t ∈ ts → t ∉ l := fun t ht hm => hdis t ht ((rep_isTokenBound h t).2 hm)
    constructor
    · rintro ⟨s', hok⟩; exact ((bindTokens_ok_iff h s' ts).1 hok).1.2.1
    · intro hl
      exact ⟨_, (bindTokens_ok_iff h _ ts).2 ⟨⟨by simpa [BUCKET_SIZE] using hlen, hl, hnd, hdis'⟩, rfl⟩⟩
  · intro ts hlen
    exact err_of_not_ok (fun s' hok => by
      have := ((bindTokens_ok_iff h s' ts).1 hok).1.1
      simp [BUCKET_SIZE] at this; omega)

/-- **binder_enumerates_once.** In a reachable state `get_token_by_index` is a bijection between
`0 .. count-1` and the bound tokens: defined exactly below the count, injective, onto the set;
and `get_token_index` is its inverse. -/
theorem binder_enumerates_once (s : State) (hs : Reachable s) :
    (∀ i, (getTokenByIndex s i).isSome = true ↔ i < linkedTokenCount s) ∧
    (∀ i t, getTokenByIndex s i = some t → bound s t) ∧
    (∀ i j t, getTokenByIndex s i = some t → getTokenByIndex s j = some t → i = j) ∧
    (∀ t, bound s t → ∃ i, i < linkedTokenCount s ∧ getTokenByIndex s i = some t) ∧
    (∀ t i, getTokenIndex s t = some i → getTokenByIndex s i = some t) := by
  obtain ⟨l, h⟩ := reachable_inv hs
  have hc : linkedTokenCount s = l.length := h.count
  refine ⟨?_, ?_, ?_, ?_, ?_⟩
  · intro i
    rw [rep_getTokenByIndex h, hc]
    constructor
    · intro hi
      obtain ⟨t, ht⟩ := Option.isSome_iff_exists.1 hi
      rw [List.getElem?_eq_some_iff] at ht; exact ht.1
    · intro hi; rw [List.getElem?_eq_getElem hi]; rfl
  · intro i t hi
    rw [rep_getTokenByIndex h] at hi
    exact (rep_isTokenBound h t).2 (List.mem_iff_getElem?.2 ⟨i, hi⟩)
  · intro i j t hi hj
    rw [rep_getTokenByIndex h] at hi hj
    have hnd := h.nodup
    rw [List.getElem?_eq_some_iff] at hi hj
    obtain ⟨hi', hi⟩ := hi
    obtain ⟨hj', hj⟩ := hj
    rw [List.Nodup, List.pairwise_iff_getElem] at hnd
    rcases Nat.lt_trichotomy i j with hlt | heq | hgt
    · exact absurd (hi.trans hj.symm) (hnd i j hi' hj' hlt)
    · exact heq
    · exact absurd (hj.trans hi.symm) (hnd j i hj' hi' hgt)
  · intro t hb
    obtain ⟨i, hi⟩ := List.mem_iff_getElem?.1 ((rep_isTokenBound h t).1 hb)
    refine ⟨i, ?_, by rw [rep_getTokenByIndex h]; exact hi⟩
    rw [hc]; rw [List.getElem?_eq_some_iff] at hi; exact hi.1
  · intro t i hi
    rw [rep_getTokenByIndex h]; exact rep_getTokenIndex_some h t i hi

/-! ### non-vacuity: a batch crossing a bucket boundary, then swap-and-pop across buckets -/

example :
    let s := run init [.bindMany (List.range 101), .unbind 3]
    linkedTokenCount s = 100 ∧ getTokenByIndex s 3 = some 100 ∧ getTokenIndex s 100 = some 3 ∧
    s.buckets 1 = [] ∧ isTokenBound s 3 = false ∧ isTokenBound s 100 = true := by decide +kernel

end OZ.Props.C20c
