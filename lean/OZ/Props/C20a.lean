import OZ.Lemmas.RegKeys
/-
C20 (a): the claim-issuer signing-key registry (`Topics(topic) -> Vec<SigningKey>`,
`Pairs(SigningKey) -> Vec<(topic, registry)>`) represents the plain relation
  rel s k t r  :=  "key k may sign topic t for registry r"
under ANY history of `allow_key` / `remove_key` (with an arbitrary oracle `allowed` for the
cross-contract call `has_claim_topic`, arbitrary arguments, failed calls rolled back).
-/
namespace OZ.Props.C20a
open OZ.Reg OZ.RegKeys

/-- **keys_refines.** After any history every getter answers as the plain relation does:
`is_key_allowed_for_topic` = "some pair (t, ·)", `is_key_allowed_for_registry` = "some pair (·, r)",
`get_keys_for_topic` fails exactly on topics without keys and otherwise lists exactly the keys
with a pair for the topic, each once; `get_registries` fails exactly on keys without pairs and
otherwise lists exactly the registries of the key's pairs. -/
theorem keys_refines (allowed : Nat → Nat → Bool) (ops : List Op) :
    let s := run allowed init ops
    (∀ k t, isKeyAllowedForTopic s k t = true ↔ ∃ r, rel s k t r) ∧
    (∀ k r, isKeyAllowedForRegistry s k r = true ↔ ∃ t, rel s k t r) ∧
    (∀ t, (getKeysForTopic s t = none ↔ ∀ k r, ¬ rel s k t r) ∧
          ∀ l, getKeysForTopic s t = some l → l.Nodup ∧ ∀ k, k ∈ l ↔ ∃ r, rel s k t r) ∧
    (∀ k, (getRegistries s k = none ↔ ∀ t r, ¬ rel s k t r) ∧
          ∀ l, getRegistries s k = some l → ∀ r, r ∈ l ↔ ∃ t, rel s k t r) := by
  intro s
  have hI : Inv s := inv_run allowed inv_init ops
  refine ⟨?_, ?_, ?_, ?_⟩
  · intro k t
    simp only [isKeyAllowedForTopic, List.contains_iff_mem, rel]
    exact hI.twoWay k t
  · intro k r
    simp only [isKeyAllowedForRegistry, List.any_eq_true, rel]
    constructor
    · rintro ⟨⟨t, r'⟩, hm, hp⟩; simp at hp; subst hp; exact ⟨t, hm⟩
    · rintro ⟨t, hm⟩; exact ⟨(t, r), hm, by simp⟩
  · intro t
    unfold getKeysForTopic rel
    constructor
    · constructor
      · intro h k r hm
        split at h
        · rename_i he
          have : k ∈ s.topics t := (hI.twoWay k t).2 ⟨r, hm⟩
          rw [he] at this; cases this
        · cases h
      · intro h
        have : s.topics t = [] := by
          rw [List.eq_nil_iff_forall_not_mem]
          intro k hk
          obtain ⟨r, hr⟩ := (hI.twoWay k t).1 hk
          exact h k r hr
        simp [this]
    · intro l h
      split at h
      · cases h
      · injection h with h; subst h
        exact ⟨hI.topicsNodup t, fun k => hI.twoWay k t⟩
  · intro k
    unfold getRegistries rel
    constructor
    · constructor
      · intro h t r hm
        split at h
        · rename_i he; rw [he] at hm; cases hm
        · cases h
      · intro h
        have : s.pairs k = [] := by
          rw [List.eq_nil_iff_forall_not_mem]
          rintro ⟨t, r⟩ hm; exact h t r hm
        simp [this]
    · intro l h r
      split at h
      · cases h
      · injection h with h; subst h
        simp only [List.mem_map]
        constructor
        · rintro ⟨⟨t, r'⟩, hm, rfl⟩; exact ⟨t, hm⟩
        · rintro ⟨t, hm⟩; exact ⟨(t, r), hm, rfl⟩

/-- **keys_abs_step.** The represented relation moves exactly as a plain set does: an accepted
`allow_key` inserts its triple and nothing else, an accepted `remove_key` deletes its triple and
nothing else, a refused call leaves the state alone. -/
theorem keys_abs_step (allowed : Nat → Nat → Bool) (s : State) (hI : Inv s) (k : Key) (r t : Nat) :
    (∀ s', allowKey allowed s k r t = .ok s' →
      ∀ k' t' r', rel s' k' t' r' ↔ (rel s k' t' r' ∨ (k' = k ∧ t' = t ∧ r' = r))) ∧
    (∀ s', removeKey s k r t = .ok s' →
      ∀ k' t' r', rel s' k' t' r' ↔ (rel s k' t' r' ∧ ¬ (k' = k ∧ t' = t ∧ r' = r))) ∧
    (∀ o e, step allowed s o = .error e → next allowed s o = s) := by
  refine ⟨?_, ?_, ?_⟩
  · intro s' h k' t' r'
    obtain ⟨_, rfl⟩ := (allowKey_ok_iff allowed s s' k r t).1 h
    simp only [rel, allowed', updD]
    by_cases hk : k' = k
    · subst hk; simp
    · simp [hk]
  · intro s' h k' t' r'
    obtain ⟨_, rfl⟩ := (removeKey_ok_iff hI s' k r t).1 h
    simp only [rel, removed', updD]
    by_cases hk : k' = k
    · subst hk
      rw [if_pos rfl, (hI.pairsNodup k').mem_erase_iff]
      constructor
      · rintro ⟨hne, hm⟩; exact ⟨hm, fun h => hne (by rw [h.2.1, h.2.2])⟩
      · rintro ⟨hm, hne⟩
        refine ⟨fun h => hne ⟨rfl, ?_⟩, hm⟩
        injection h with a b; exact ⟨a, b⟩
    · simp [hk]
  · intro o e h
    simp [next, h]

/-- **keys_dup_refused.** A triple that is already stored is refused, in every state. -/
theorem keys_dup_refused (allowed : Nat → Nat → Bool) (s : State) (k : Key) (r t : Nat)
    (h : rel s k t r) : ∃ e, allowKey allowed s k r t = .error e := by
  cases hr : allowKey allowed s k r t with
  | error e => exact ⟨e, rfl⟩
  | ok s' =>
    obtain ⟨⟨_, _, hn, _⟩, _⟩ := (allowKey_ok_iff allowed s s' k r t).1 hr
    exact absurd h hn

/-- **keys_absent_refused.** Removing a triple that is not stored is refused, in every state. -/
theorem keys_absent_refused (s : State) (k : Key) (r t : Nat) (h : ¬ rel s k t r) :
    ∃ e, removeKey s k r t = .error e := by
  unfold removeKey
  by_cases h1 : s.pairs k = []
  · exact ⟨_, by rw [if_pos h1]⟩
  · rw [if_neg h1]
    have : (!(s.pairs k).contains (t, r)) = true := by simpa [rel] using h
    exact ⟨_, by rw [if_pos this]⟩

/-- **keys_limit_exact.** In a reachable state a new, permitted triple is accepted exactly while
the key has fewer than `MAX_REGISTRIES_PER_KEY = 20` pairs and the topic has room for the key
(`MAX_KEYS_PER_TOPIC = 50`, not counted again for a key already in the topic): the 20th pair
and the 50th key are accepted, the 21st and the 51st refused. -/
theorem keys_limit_exact (allowed : Nat → Nat → Bool) (s : State) (_hs : Reachable allowed s)
    (k : Key) (r t : Nat) (hk : k.1 ≠ 0) (ha : allowed r t = true) (hn : ¬ rel s k t r) :
    ((∃ s', allowKey allowed s k r t = .ok s') ↔
      ((s.pairs k).length < 20 ∧ (k ∈ s.topics t ∨ (s.topics t).length < 50))) ∧
    ((s.pairs k).length = 19 → (s.topics t).length = 49 → ∃ s', allowKey allowed s k r t = .ok s') ∧
    ((s.pairs k).length = 20 → ∃ e, allowKey allowed s k r t = .error e) ∧
    (k ∉ s.topics t → (s.topics t).length = 50 → ∃ e, allowKey allowed s k r t = .error e) := by
  have key : (∃ s', allowKey allowed s k r t = .ok s') ↔
      ((s.pairs k).length < 20 ∧ (k ∈ s.topics t ∨ (s.topics t).length < 50)) := by
    constructor
    · rintro ⟨s', h⟩
      obtain ⟨⟨_, _, _, ht, hl⟩, _⟩ := (allowKey_ok_iff allowed s s' k r t).1 h
      exact ⟨hl, ht⟩
    · rintro ⟨hl, ht⟩
      exact ⟨_, (allowKey_ok_iff allowed s _ k r t).2 ⟨⟨hk, ha, hn, ht, hl⟩, rfl⟩⟩
  have refuse : ¬ (∃ s', allowKey allowed s k r t = .ok s') → ∃ e, allowKey allowed s k r t = .error e := by
    intro h
    cases hr : allowKey allowed s k r t with
    | error e => exact ⟨e, rfl⟩
    | ok s' => exact absurd ⟨s', hr⟩ h
  refine ⟨key, ?_, ?_, ?_⟩
  · intro h1 h2; exact key.2 ⟨by omega, Or.inr (by omega)⟩
  · intro h1; exact refuse (fun h => by have := (key.1 h).1; omega)
  · intro h1 h2; exact refuse (fun h => by
      cases (key.1 h).2 with
      | inl h' => exact h1 h'
      | inr h' => omega)

/-- **keys_enumerates_once.** In a reachable state the two stored vectors enumerate the relation
without repetition: `Pairs(k)` lists exactly the pairs of `k`, each at exactly one index, and
`Topics(t)` lists exactly the keys with a pair for `t`, each at exactly one index. -/
theorem keys_enumerates_once (allowed : Nat → Nat → Bool) (s : State) (hs : Reachable allowed s) :
    (∀ k, (∀ t r, rel s k t r ↔ ∃ i : Nat, (s.pairs k)[i]? = some (t, r)) ∧
          ∀ (i j : Nat) p, (s.pairs k)[i]? = some p → (s.pairs k)[j]? = some p → i = j) ∧
    (∀ t, (∀ k, (∃ r, rel s k t r) ↔ ∃ i : Nat, (s.topics t)[i]? = some k) ∧
          ∀ (i j : Nat) k, (s.topics t)[i]? = some k → (s.topics t)[j]? = some k → i = j) := by
  have hI := reachable_inv hs
  have inj : ∀ {α : Type} (l : List α), l.Nodup → ∀ (i j : Nat) p, l[i]? = some p → l[j]? = some p → i = j := by
    intro α l hnd i j p hi hj
    rw [List.getElem?_eq_some_iff] at hi hj
    obtain ⟨hi', hi⟩ := hi
    obtain ⟨hj', hj⟩ := hj
    rw [List.Nodup, List.pairwise_iff_getElem] at hnd
    rcases Nat.lt_trichotomy i j with h | h | h
    · exact absurd (hi.trans hj.symm) (hnd i j hi' hj' h)
    · exact h
    · exact absurd (hj.trans hi.symm) (hnd j i hj' hi' h)
  constructor
  · intro k
    exact ⟨fun t r => List.mem_iff_getElem? (l := s.pairs k) (a := (t, r)), inj _ (hI.pairsNodup k)⟩
  · intro t
    refine ⟨fun k => ?_, inj _ (hI.topicsNodup t)⟩
    rw [← List.mem_iff_getElem?]
    exact (hI.twoWay k t).symm

/-- **keys_two_way_consistent.** After any history the two storage branches agree:
key ∈ `Topics(t)` ⇔ some pair `(t, ·)` ∈ `Pairs(key)`; in particular no key stays listed for a
topic after its last registry for that topic is removed. -/
theorem keys_two_way_consistent (allowed : Nat → Nat → Bool) (ops : List Op) (k : Key) (t : Nat) :
    k ∈ (run allowed init ops).topics t ↔ ∃ r, (t, r) ∈ (run allowed init ops).pairs k :=
  (inv_run allowed inv_init ops).twoWay k t

/-! ### non-vacuity and the regression of defect #7 -/

def okB (r : Except RErr State) : Bool := match r with | .ok _ => true | .error _ => false

/-- the 20 distinct pairs (topic i / 3, registry i % 3) for key (1, 1) -/
def twenty : List Op := (List.range 20).map (fun i => Op.allow (1, 1) (i % 3) (i / 3))

instance (s : State) (k : Key) (t r : Nat) : Decidable (rel s k t r) := by unfold rel; infer_instance

/-- the reachable state with 19 pairs for key (1, 1) -/
def s19 : State := run (fun _ _ => true) init (twenty.take 19)

/-- after 19 accepted pairs the 20th is accepted and the 21st refused (fixed code) -/
example : okB (allowKey (fun _ _ => true) s19 (1, 1) 1 6) = true ∧
    okB (allowKey (fun _ _ => true) (run (fun _ _ => true) init twenty) (1, 1) 2 6) = false ∧
    ((run (fun _ _ => true) init twenty).pairs (1, 1)).length = 20 := by decide +kernel

/-- **keys_limit_counterexample** (defect #7, regression): with the test of the unfixed tree
(`len >= MAX` after the push) a reachable state with 19 pairs refuses the 20th, although
`MAX_REGISTRIES_PER_KEY = 20` is the documented maximum. -/
theorem keys_limit_counterexample :
    (s19.pairs (1, 1)).length = 19 ∧ ¬ rel s19 (1, 1) 6 1 ∧
    okB (allowKeyLegacy (fun _ _ => true) s19 (1, 1) 1 6) = false ∧
    okB (allowKey (fun _ _ => true) s19 (1, 1) 1 6) = true := by decide +kernel

end OZ.Props.C20a
