import OZ.Props.C16
import OZ.Lemmas.GatesMon
/-
C16 — soundness of the MONITOR that decides the property on implementation traces.

`./check C16` reports a concrete violation exactly when `OZ.Gates.Mon.checkCore` (the driver's
monitor on parsed values, OZ/Model/GatesMon.lean) returns a message on the implementation's
observations. Here it is proved that on the observations of the MODEL the monitor never returns a
message, for every host configuration, every sequence label whose constructor the model accepts
and every finite history (`monitor_accepts_every_model_trace`) — for the EIGHT machines the driver
runs through `OZ.Gates.Mon.checkCore` (the ninth, `stk`, has its own monitor core and soundness theorem:
OZ/Props/C16StkMon.lean): the pausable token (`ptok`), the pausable counter (`pcnt`), the AllowList / BlockList
library types (`alib`, `blib`), the two list examples (`aex`, `bex`), the capped token (`cap`) and
the migration contracts (`mig`, all three executables). Consequences:

  * an implementation whose observations agree with the model's (the correspondence the check
    establishes by differential testing) can never raise a monitor alarm — a monitor failure is
    never a false alarm of the monitor itself;
  * every conclusion the monitor evaluates (no pausable entry point accepted while paused,
    `emergency_reset` only while paused, pause / unpause alternate and need the authorizing owner,
    `paused()` follows the accepted pause / unpause calls and nothing else, not even the passage of
    time; `allowed()` / `blocked()` of every observed party equal the list built from the accepted
    list changes; every accepted transfer / transfer_from / approve / burn / burn_from had all its
    vetted parties allowed resp. not blocked; list changes of the examples need the authorizing
    manager; an accepted list change that does not flip the status of the account emits no list event
    and changes no getter, one that does emits exactly the matching event, nothing else emits a list
    event (`vListEv`: `site=list.idempotent.<machine>`, `site=list.event.<machine>`); the cap never
    moves and total_supply ≤ cap; migrate / ensure accepted only after an
    enable / upgrade not yet consumed, `Migrating` follows the accepted calls, migrate / upgrade
    need the authorizing owner; a rejected call changes no getter) is a THEOREM about the model,
    in the monitor's own executable wording.

The model observation used here IS the data the driver's model side prints: `OZ.Drv.C16.stepLine`
runs `stepM` (below `OZ.Gates.Mon`) on the parsed op and `obsLine` prints the tag and the fields of
`stableOf` of the resulting state plus, under `ev=`, the events the call added to the module's log
(`newEvents`; `modelObs` keeps the list-change events among them, which is what `parseObs` reads back from
that word); `lineOf w auth op` is what `OZ.Drv.C16.parseLine`
reads from the op line `parseAny` builds `(auth, op)` from (`w`: the `block` / `unblock` wording of
a list change). `monInit p` / `initM p` are what the driver's `minitM` / `initM` build from the
label parameters `p` (`paramsOf (parseLabel label)`).

Hypothesis `initSt p ≠ .bad`: a label whose constructor the model rejects (negative initial supply
or cap) describes no contract at all; the driver then prints `bad` lines, which correspond to no
observation of the harness.

While proving this, the monitor as it was turned out to be STRICTER than the model outside the
harness's universe of five accounts: its ghost list had five entries, so an allow-listed party with
address ≥ 5 read as "not allowed" (`legacy_monitor_false_alarm_outside_universe`). The ghost list is
now a map over all addresses (`Mon.ghost : Nat → Bool`); within the universe nothing changes.

Property theorems only; helper facts come from OZ/Lemmas/GatesMon.lean.
-/
namespace OZ.Gates.Mon
open OZ.Host OZ.Fungible OZ.Gates
open OZ.FungibleMon (Kind orElse)

/-! ## what the model does, in the monitor's terms (one theorem per machine) -/

/-- **pausable token**: every accepted call keeps the owner and satisfies the pause conclusions -/
theorem ptok_facts (cfg : Cfg) (s : PTok) (w : Bool) (auth : List Nat) (op : GOp) {st' : St}
    (h : applyPTok cfg s auth op = some st') :
    ∃ s', st' = .ptok s' ∧ s'.owner = s.owner ∧ PauseFacts s.p.paused s.owner (lineOf w auth op) s'.p.paused := by
  cases op <;> simp only [applyPTok] at h <;> try cases h
  case tok o =>
    obtain ⟨s', hx, e⟩ := okSt_some h
    refine ⟨s', e, ?_, ?_⟩
    · obtain ⟨t, _, h2⟩ := bind_eq_ok hx
      injection h2 with h2; subst h2; rfl
    · have hp' : s'.p = s.p := by
        obtain ⟨t, _, h2⟩ := bind_eq_ok hx
        injection h2 with h2; subst h2; rfl
      refine ⟨?_, ?_, ?_, ?_, ?_⟩
      · intro hp
        show isPausable (.fungible (kindOf o)) = false
        rw [isPausable_tok]
        cases hpo : pausableOp o
        · rfl
        · rw [(paused_blocks cfg s auth o hp hpo).1] at hx; cases hx
      · intro hc; simp [lineOf] at hc
      · intro hc; simp [lineOf] at hc
      · intro hc; simp [lineOf] at hc
      · rw [hp', pausedF_other] <;> simp [lineOf]
  case pause c =>
    obtain ⟨s', hx, e⟩ := okSt_some h
    obtain ⟨_, ha, hx⟩ := bind_eq_ok hx
    obtain ⟨p1, hp1, hx⟩ := bind_eq_ok hx
    injection hx with hx; subst hx
    obtain ⟨e1, e2⟩ := pause_ok hp1
    obtain ⟨hm, heq⟩ := callerIsOwner_ok ha
    subst e2
    refine ⟨_, e, rfl, ⟨fun _ => rfl, fun hc => by simp [lineOf] at hc, fun _ => ⟨e1, by simp [lineOf, heq], heq ▸ hm⟩,
      fun hc => by simp [lineOf] at hc, by simp [pausedF, lineOf]⟩⟩
  case unpause c =>
    obtain ⟨s', hx, e⟩ := okSt_some h
    obtain ⟨_, ha, hx⟩ := bind_eq_ok hx
    obtain ⟨p1, hp1, hx⟩ := bind_eq_ok hx
    injection hx with hx; subst hx
    obtain ⟨e1, e2⟩ := unpause_ok hp1
    obtain ⟨hm, heq⟩ := callerIsOwner_ok ha
    subst e2
    refine ⟨_, e, rfl, ⟨fun _ => rfl, fun hc => by simp [lineOf] at hc, fun hc => by simp [lineOf] at hc,
      fun _ => ⟨e1, by simp [lineOf, heq], heq ▸ hm⟩, by simp [pausedF, lineOf]⟩⟩

/-- **pausable counter** -/
theorem pcnt_facts (s : PCnt) (w : Bool) (auth : List Nat) (op : GOp) {st' : St}
    (h : applyPCnt s auth op = some st') :
    ∃ s', st' = .pcnt s' ∧ s'.owner = s.owner ∧ PauseFacts s.p.paused s.owner (lineOf w auth op) s'.p.paused := by
  cases op
  case tok o =>
    cases o <;> simp only [applyPCnt] at h <;> try cases h
    refine ⟨s, rfl, rfl, ⟨fun _ => rfl, fun hc => by simp [lineOf] at hc, fun hc => by simp [lineOf] at hc,
      fun hc => by simp [lineOf] at hc, by rw [pausedF_other] <;> simp [lineOf, kindOf]⟩⟩
  case increment =>
    simp only [applyPCnt] at h
    obtain ⟨s', hx, e⟩ := okSt_some h
    simp only [PCnt.apply] at hx
    have hnp : s.p.paused = false := by
      cases hp : s.p.paused
      · rfl
      · rw [(paused_blocks_counter s auth).1 hp |>.1] at h; cases h
    obtain ⟨_, _, hx⟩ := bind_eq_ok hx
    split at hx
    · cases hx
    · injection hx with hx; subst hx
      refine ⟨_, e, rfl, ⟨(fun hp => by rw [hnp] at hp; cases hp), fun hc => by simp [lineOf] at hc,
        fun hc => by simp [lineOf] at hc, fun hc => by simp [lineOf] at hc, by rw [pausedF_other] <;> simp [lineOf]⟩⟩
  case reset =>
    simp only [applyPCnt] at h
    obtain ⟨s', hx, e⟩ := okSt_some h
    have hpd : s.p.paused = true := by
      cases hp : s.p.paused
      · rw [(paused_blocks_counter s auth).2 hp |>.1] at hx; cases hx
      · rfl
    simp only [PCnt.apply] at hx
    obtain ⟨_, _, hx⟩ := bind_eq_ok hx
    injection hx with hx; subst hx
    refine ⟨_, e, rfl, ⟨fun _ => rfl, fun _ => hpd, fun hc => by simp [lineOf] at hc,
      fun hc => by simp [lineOf] at hc, by rw [pausedF_other] <;> simp [lineOf]⟩⟩
  case pause c =>
    simp only [applyPCnt] at h
    obtain ⟨s', hx, e⟩ := okSt_some h
    obtain ⟨_, ha, hx⟩ := bind_eq_ok hx
    obtain ⟨p1, hp1, hx⟩ := bind_eq_ok hx
    injection hx with hx; subst hx
    obtain ⟨e1, e2⟩ := pause_ok hp1
    obtain ⟨hm, heq⟩ := callerIsOwner_ok ha
    subst e2
    refine ⟨_, e, rfl, ⟨fun _ => rfl, fun hc => by simp [lineOf] at hc, fun _ => ⟨e1, by simp [lineOf, heq], heq ▸ hm⟩,
      fun hc => by simp [lineOf] at hc, by simp [pausedF, lineOf]⟩⟩
  case unpause c =>
    simp only [applyPCnt] at h
    obtain ⟨s', hx, e⟩ := okSt_some h
    obtain ⟨_, ha, hx⟩ := bind_eq_ok hx
    obtain ⟨p1, hp1, hx⟩ := bind_eq_ok hx
    injection hx with hx; subst hx
    obtain ⟨e1, e2⟩ := unpause_ok hp1
    obtain ⟨hm, heq⟩ := callerIsOwner_ok ha
    subst e2
    refine ⟨_, e, rfl, ⟨fun _ => rfl, fun hc => by simp [lineOf] at hc, fun hc => by simp [lineOf] at hc,
      fun _ => ⟨e1, by simp [lineOf, heq], heq ▸ hm⟩, by simp [pausedF, lineOf]⟩⟩
  all_goals (simp only [applyPCnt] at h; cases h)

/-- **AllowList library type**: every accepted call had its vetted parties allowed and moves the
list exactly as the op line says -/
theorem alib_facts (cfg : Cfg) (s : LTok) (mgr : Nat) (w : Bool) (auth : List Nat) (op : GOp) {st' : St}
    (h : applyALib cfg s auth op = some st') :
    ∃ s', st' = .alib s' ∧ ListFacts true false mgr s.listed (lineOf w auth op) s'.listed ∧
      ListEvFacts true s.listed (lineOf w auth op) ((s'.log.drop s.log.length).filter isListEv) (s' = s) := by
  cases op <;> simp only [applyALib] at h <;> try cases h
  case tok o =>
    obtain ⟨s', hx, e⟩ := okSt_some h
    refine ⟨s', e, ⟨?_, (fun hf => by cases hf), ?_⟩, ?_⟩
    · intro p hp
      have hp' : p ∈ vetted o := by rw [← vetted_tok]; exact hp
      exact allowlist_gates cfg s s' auth o hx p hp'
    · rw [alib_tok_listed hx]; exact (listStep_fungible _ _ _ _ _).symm
    · rw [alib_tok_log hx]; exact listEv_tok _ _ _ _ _ _ _ _
  case setList u on x =>
    obtain ⟨s', hx, e⟩ := okSt_some h
    have hs' := alib_set_eq hx
    obtain ⟨f1, f2⟩ := setFn_facts true on s u
    refine ⟨s', e, ⟨?_, (fun hf => by cases hf), ?_⟩, ?_⟩
    · intro p hp; cases x <;> simp [lineOf, vettedOfCall] at hp
    · rw [alib_set_listed hx]; cases x <;> exact (listStep_set _ _ _ _ _ _ _).symm
    · cases x <;> exact listEv_set _ _ _ _ _ _ _ _ _ _ _ (by rw [hs']; exact f2) (fun hg => by rw [hs']; exact f1 hg)

/-- **BlockList library type** -/
theorem blib_facts (cfg : Cfg) (s : LTok) (mgr : Nat) (w : Bool) (auth : List Nat) (op : GOp) {st' : St}
    (h : applyBLib cfg s auth op = some st') :
    ∃ s', st' = .blib s' ∧ ListFacts false false mgr s.listed (lineOf w auth op) s'.listed ∧
      ListEvFacts false s.listed (lineOf w auth op) ((s'.log.drop s.log.length).filter isListEv) (s' = s) := by
  cases op <;> simp only [applyBLib] at h <;> try cases h
  case tok o =>
    obtain ⟨s', hx, e⟩ := okSt_some h
    refine ⟨s', e, ⟨?_, (fun hf => by cases hf), ?_⟩, ?_⟩
    · intro p hp
      have hp' : p ∈ vetted o := by rw [← vetted_tok]; exact hp
      exact blocklist_gates cfg s s' auth o hx p hp'
    · rw [blib_tok_listed hx]; exact (listStep_fungible _ _ _ _ _).symm
    · rw [blib_tok_log hx]; exact listEv_tok _ _ _ _ _ _ _ _
  case setList u on x =>
    obtain ⟨s', hx, e⟩ := okSt_some h
    have hs' := blib_set_eq hx
    obtain ⟨f1, f2⟩ := setFn_facts false on s u
    refine ⟨s', e, ⟨?_, (fun hf => by cases hf), ?_⟩, ?_⟩
    · intro p hp; cases x <;> simp [lineOf, vettedOfCall] at hp
    · rw [blib_set_listed hx]; cases x <;> exact (listStep_set _ _ _ _ _ _ _).symm
    · cases x <;> exact listEv_set _ _ _ _ _ _ _ _ _ _ _ (by rw [hs']; exact f2) (fun hg => by rw [hs']; exact f1 hg)

/-- **fungible-allowlist example**: additionally a list change needs the authorizing manager, and
the manager set is fixed -/
theorem aex_facts (cfg : Cfg) (s : LEx) (mgr : Nat) (hm : s.isMgr = fun a => a == mgr) (w : Bool)
    (auth : List Nat) (op : GOp) {st' : St} (h : applyAEx cfg s auth op = some st') :
    ∃ s', st' = .aex s' ∧ s'.isMgr = s.isMgr ∧ ListFacts true true mgr s.t.listed (lineOf w auth op) s'.t.listed ∧
      ListEvFacts true s.t.listed (lineOf w auth op) ((s'.t.log.drop s.t.log.length).filter isListEv) (s' = s) := by
  cases op <;> simp only [applyAEx] at h <;> try cases h
  case tok o =>
    obtain ⟨s', hx, e⟩ := okSt_some h
    obtain ⟨hl, hmg⟩ := aex_tok_listed hx
    refine ⟨s', e, hmg, ⟨?_, fun _ hg => by simp [lineOf, Call.isGate] at hg, ?_⟩, ?_⟩
    · intro p hp
      have hp' : p ∈ vetted o := by rw [← vetted_tok]; exact hp
      exact allowlist_gates_example cfg s s' auth o hx p hp'
    · rw [hl]; exact (listStep_fungible _ _ _ _ _).symm
    · rw [aex_tok_log hx]; exact listEv_tok _ _ _ _ _ _ _ _
  case setList u on x =>
    cases x <;> simp only at h <;> try cases h
    rename_i operator
    obtain ⟨s', hx, e⟩ := okSt_some h
    obtain ⟨hl, hmg⟩ := aex_set_listed hx
    have hs' := aex_set_eq hx
    obtain ⟨f1, f2⟩ := setFn_facts true on s.t u
    obtain ⟨h1, h2⟩ := (list_change_needs_manager cfg s s' auth u operator on).1 hx
    have hop : operator = mgr := by rw [hm] at h1; simpa using h1
    refine ⟨s', e, hmg, ⟨?_, fun _ _ => ⟨by simp [lineOf, hop], hop ▸ h2⟩, ?_⟩, ?_⟩
    · intro p hp; simp [lineOf, vettedOfCall] at hp
    · rw [hl]; exact (listStep_set _ _ _ _ _ _ _).symm
    · exact listEv_set _ _ _ _ _ _ _ _ _ _ _ (by rw [hs']; exact f2) (fun hg => by rw [hs', f1 hg])

/-- **fungible-blocklist example** -/
theorem bex_facts (cfg : Cfg) (s : LEx) (mgr : Nat) (hm : s.isMgr = fun a => a == mgr) (w : Bool)
    (auth : List Nat) (op : GOp) {st' : St} (h : applyBEx cfg s auth op = some st') :
    ∃ s', st' = .bex s' ∧ s'.isMgr = s.isMgr ∧ ListFacts false true mgr s.t.listed (lineOf w auth op) s'.t.listed ∧
      ListEvFacts false s.t.listed (lineOf w auth op) ((s'.t.log.drop s.t.log.length).filter isListEv) (s' = s) := by
  cases op <;> simp only [applyBEx] at h <;> try cases h
  case tok o =>
    obtain ⟨s', hx, e⟩ := okSt_some h
    obtain ⟨hl, hmg⟩ := bex_tok_listed hx
    refine ⟨s', e, hmg, ⟨?_, fun _ hg => by simp [lineOf, Call.isGate] at hg, ?_⟩, ?_⟩
    · intro p hp
      have hp' : p ∈ vetted o := by rw [← vetted_tok]; exact hp
      exact blocklist_gates_example cfg s s' auth o hx p hp'
    · rw [hl]; exact (listStep_fungible _ _ _ _ _).symm
    · rw [bex_tok_log hx]; exact listEv_tok _ _ _ _ _ _ _ _
  case setList u on x =>
    cases x <;> simp only at h <;> try cases h
    rename_i operator
    obtain ⟨s', hx, e⟩ := okSt_some h
    obtain ⟨hl, hmg⟩ := bex_set_listed hx
    have hs' := bex_set_eq hx
    obtain ⟨f1, f2⟩ := setFn_facts false on s.t u
    obtain ⟨h1, h2⟩ := (list_change_needs_manager cfg s s' auth u operator on).2 hx
    have hop : operator = mgr := by rw [hm] at h1; simpa using h1
    refine ⟨s', e, hmg, ⟨?_, fun _ _ => ⟨by simp [lineOf, hop], hop ▸ h2⟩, ?_⟩, ?_⟩
    · intro p hp; simp [lineOf, vettedOfCall] at hp
    · rw [hl]; exact (listStep_set _ _ _ _ _ _ _).symm
    · exact listEv_set _ _ _ _ _ _ _ _ _ _ _ (by rw [hs']; exact f2) (fun hg => by rw [hs', f1 hg])

/-- **capped token**, one call of the token: the cap stays, and the call either leaves the supply where it was
or (a mint, which is checked against the cap) leaves it at or below the cap -/
theorem cap_facts (cfg : Cfg) (s : CTok) (cap : Int) (hc : s.cap = some cap)
    (auth : List Nat) (o : Fungible.Op) {st' : St} (h : applyCap cfg s auth (.tok o) = some st') :
    ∃ s', st' = .cap s' ∧ s'.cap = some cap ∧ (s'.tok.supply = s.tok.supply ∨ s'.tok.supply ≤ cap) := by
  simp only [applyCap] at h
  obtain ⟨s', hx, e⟩ := okSt_some h
  refine ⟨s', e, ?_⟩
  cases o with
  | mint to amt =>
    simp only [CTok.apply] at hx
    obtain ⟨u, hcc, hx⟩ := bind_eq_ok hx
    obtain ⟨t, ht, e⟩ := ctok_withTok_ok hx
    subst e
    exact ⟨hc, .inr (check_cap_then_mint s cap hc to amt t hcc ht).2.1⟩
  | burn f amt => simp only [CTok.apply] at hx; cases hx
  | burnFrom sp f amt => simp only [CTok.apply] at hx; cases hx
  | transfer f t amt =>
    simp only [CTok.apply] at hx
    obtain ⟨t', ht, e⟩ := ctok_withTok_ok hx
    subst e
    exact ⟨hc, .inl (by simp only; rw [apply_supply_nonmint (by trivial) ht])⟩
  | transferFrom sp f t amt =>
    simp only [CTok.apply] at hx
    obtain ⟨t', ht, e⟩ := ctok_withTok_ok hx
    subst e
    exact ⟨hc, .inl (by simp only; rw [apply_supply_nonmint (by trivial) ht])⟩
  | approve ow sp amt lu =>
    simp only [CTok.apply] at hx
    obtain ⟨t', ht, e⟩ := ctok_withTok_ok hx
    subst e
    exact ⟨hc, .inl (by simp only; rw [apply_supply_nonmint (by trivial) ht])⟩
  | advance n =>
    simp only [CTok.apply] at hx
    obtain ⟨t', ht, e⟩ := ctok_withTok_ok hx
    subst e
    exact ⟨hc, .inl (by simp only; rw [apply_supply_nonmint (by trivial) ht])⟩

/-- **`set_cap` called again**: accepted exactly for a non-negative cap, which it installs; the token is untouched -/
theorem setcap_facts (cfg : Cfg) (s : CTok) (auth : List Nat) (c : Int) {st' : St}
    (h : applyCap cfg s auth (.setCap c) = some st') :
    0 ≤ c ∧ st' = .cap { s with cap := some c } := by
  simp only [applyCap] at h
  obtain ⟨s', hx, e⟩ := okSt_some h
  unfold setCap at hx
  by_cases hn : c < 0
  · rw [if_pos hn] at hx; cases hx
  · rw [if_neg hn] at hx
    injection hx with hx
    subst hx
    exact ⟨by omega, e⟩

/-- **migration contracts** (harness contract, v1 example, prebuilt v2 wasm) -/
theorem mig_facts (s : Mig) (v : Nat) (w : Bool) (auth : List Nat) (op : GOp) {st' : St}
    (h : applyMig s v auth op = some st') :
    ∃ s' v', st' = .mig s' v' ∧ s'.owner = s.owner ∧ MigFacts s.migrating s.owner (lineOf w auth op) s'.migrating := by
  cases op
  case tok o =>
    cases o <;> simp only [applyMig] at h <;> try cases h
    refine ⟨s, v, rfl, rfl, ⟨fun hc => by simp [lineOf] at hc, fun hc => by simp [lineOf] at hc,
      by rw [creditF_other] <;> simp [lineOf]⟩⟩
  case enable =>
    simp only [applyMig] at h
    split at h
    · obtain ⟨s', hx, e⟩ := okSt_some h
      simp only [Mig.apply] at hx
      injection hx with hx; subst hx
      exact ⟨_, _, e, rfl, ⟨fun hc => by simp [lineOf] at hc, fun hc => by simp [lineOf] at hc,
        by simp [creditF, lineOf, enableMigration]⟩⟩
    · cases h
  case ensure =>
    simp only [applyMig] at h
    split at h
    · obtain ⟨s', hx, e⟩ := okSt_some h
      simp only [Mig.apply] at hx
      obtain ⟨_, he, hx⟩ := bind_eq_ok hx
      injection hx with hx; subst hx
      have hm : s.migrating = true := by
        unfold ensureCanCompleteMigration canCompleteMigration at he
        split at he
        · cases he
        · rename_i hn; simpa using hn
      exact ⟨_, _, e, rfl, ⟨fun _ => hm, fun hc => by simp [lineOf] at hc,
        by rw [creditF_other] <;> simp [lineOf]⟩⟩
    · cases h
  case complete =>
    simp only [applyMig] at h
    split at h
    · obtain ⟨s', hx, e⟩ := okSt_some h
      simp only [Mig.apply] at hx
      injection hx with hx; subst hx
      exact ⟨_, _, e, rfl, ⟨fun hc => by simp [lineOf] at hc, fun hc => by simp [lineOf] at hc,
        by simp [creditF, lineOf, completeMigration]⟩⟩
    · cases h
  case migrate d o =>
    simp only [applyMig] at h
    split at h
    · cases h
    · obtain ⟨s', hx, e⟩ := okSt_some h
      simp only [Mig.apply] at hx
      obtain ⟨h1, h2, h3, h4, -, -⟩ := migrate_consumes_flag s s' auth d o hx
      have hown : s'.owner = s.owner := by
        obtain ⟨_, _, hx⟩ := bind_eq_ok hx
        obtain ⟨_, _, hx⟩ := bind_eq_ok hx
        injection hx with hx; subst hx; rfl
      exact ⟨_, _, e, hown, ⟨fun _ => h1, fun _ => ⟨by simp [lineOf, h3], h3 ▸ h4⟩,
        by rw [h2]; simp [creditF, lineOf]⟩⟩
  case upgrade o =>
    simp only [applyMig] at h
    obtain ⟨s', hx, e⟩ := okSt_some h
    simp only [Mig.apply] at hx
    obtain ⟨h1, h3, h4, -⟩ := upgrade_enables_one_migration s s' auth 1 o hx
    have hown : s'.owner = s.owner := by
      obtain ⟨_, _, hx⟩ := bind_eq_ok hx
      injection hx with hx; subst hx; rfl
    exact ⟨_, _, e, hown, ⟨fun hc => by simp [lineOf] at hc, fun _ => ⟨by simp [lineOf, h3], h3 ▸ h4⟩,
      by rw [h1]; simp [creditF, lineOf]⟩⟩
  all_goals (simp only [applyMig] at h; cases h)

/-! ## monitor state ↔ model state -/

/-- the monitor's ghost state describes the machine -/
def AgreeSt (m : Mon) : St → Prop
  | .ptok s => m.kind = .ptok ∧ m.paused = s.p.paused ∧ m.owner = s.owner
  | .pcnt s => m.kind = .pcnt ∧ m.paused = s.p.paused ∧ m.owner = s.owner
  | .alib s => m.kind = .alib ∧ m.ghost = s.listed
  | .blib s => m.kind = .blib ∧ m.ghost = s.listed
  | .aex s => m.kind = .aex ∧ m.ghost = s.t.listed ∧ s.isMgr = (fun a => a == m.mgr)
  | .bex s => m.kind = .bex ∧ m.ghost = s.t.listed ∧ s.isMgr = (fun a => a == m.mgr)
  | .cap s => m.kind = .cap ∧ s.cap = some m.cap ∧ m.sup = s.tok.supply
  | .mig s _ => m.kind = .mig ∧ m.credit = s.migrating ∧ m.owner = s.owner
  | .bad => False

/-- monitor state and model state describe the same point of a history -/
structure Agree (m : Mon) (x : MSt) : Prop where
  prev : m.prev = none ∨ m.prev = some (stableOf x)
  st : AgreeSt m x.st

/-- all gate checks are silent on observation `o` of the call `l`, and the monitor's new ghost state
describes the machine `st'` -/
def Quiet (m : Mon) (l : Line) (o : Obs) (st' : St) : Prop :=
  vPause m l o = none ∧ vList m l o = none ∧ vListEv m l o = none ∧ vCap m l o = none ∧ vMig m l o = none ∧
  AgreeSt (checkCore m l o).1 st'

/-- a call the model rejects: the gate checks are silent on the (unchanged) getters -/
theorem rejected_quiet {m : Mon} {st : St} (ha : AgreeSt m st) (l : Line) (now : Nat) (ev : List GEvent) :
    Quiet m l (modelObs ⟨st, now⟩ false ev) st := by
  have qe : vListEv m l (modelObs ⟨st, now⟩ false ev) = none := vListEv_rejected rfl
  cases st with
  | ptok s =>
    obtain ⟨hk, hp, ho⟩ := ha
    obtain ⟨q, hs⟩ := pause_rejected (m := m) (l := l) (o := modelObs ⟨.ptok s, now⟩ false ev) rfl hp.symm
    exact ⟨q, vList_off (by rw [hk]; rfl), qe, vCap_off (by rw [hk]; decide), vMig_off (by rw [hk]; decide),
      hk, hs.trans hp, ho⟩
  | pcnt s =>
    obtain ⟨hk, hp, ho⟩ := ha
    obtain ⟨q, hs⟩ := pause_rejected (m := m) (l := l) (o := modelObs ⟨.pcnt s, now⟩ false ev) rfl hp.symm
    exact ⟨q, vList_off (by rw [hk]; rfl), qe, vCap_off (by rw [hk]; decide), vMig_off (by rw [hk]; decide),
      hk, hs.trans hp, ho⟩
  | alib s =>
    obtain ⟨hk, hg⟩ := ha
    obtain ⟨q, hs⟩ := list_rejected (m := m) (l := l) (o := modelObs ⟨.alib s, now⟩ false ev) rfl (by rw [hg]; rfl)
    exact ⟨vPause_off (by rw [hk]; rfl), q, qe, vCap_off (by rw [hk]; decide), vMig_off (by rw [hk]; decide),
      hk, hs.trans hg⟩
  | blib s =>
    obtain ⟨hk, hg⟩ := ha
    obtain ⟨q, hs⟩ := list_rejected (m := m) (l := l) (o := modelObs ⟨.blib s, now⟩ false ev) rfl (by rw [hg]; rfl)
    exact ⟨vPause_off (by rw [hk]; rfl), q, qe, vCap_off (by rw [hk]; decide), vMig_off (by rw [hk]; decide),
      hk, hs.trans hg⟩
  | aex s =>
    obtain ⟨hk, hg, hm⟩ := ha
    obtain ⟨q, hs⟩ := list_rejected (m := m) (l := l) (o := modelObs ⟨.aex s, now⟩ false ev) rfl (by rw [hg]; rfl)
    exact ⟨vPause_off (by rw [hk]; rfl), q, qe, vCap_off (by rw [hk]; decide), vMig_off (by rw [hk]; decide),
      hk, hs.trans hg, hm⟩
  | bex s =>
    obtain ⟨hk, hg, hm⟩ := ha
    obtain ⟨q, hs⟩ := list_rejected (m := m) (l := l) (o := modelObs ⟨.bex s, now⟩ false ev) rfl (by rw [hg]; rfl)
    exact ⟨vPause_off (by rw [hk]; rfl), q, qe, vCap_off (by rw [hk]; decide), vMig_off (by rw [hk]; decide),
      hk, hs.trans hg, hm⟩
  | cap s =>
    obtain ⟨hk, hc, hs⟩ := ha
    refine ⟨vPause_off (by rw [hk]; rfl), vList_off (by rw [hk]; rfl), qe,
      vCap_none (o := modelObs ⟨.cap s, now⟩ false ev) (fun h => by cases h.1) hc ?_, vMig_off (by rw [hk]; decide), hk, ?_, rfl⟩
    · rintro ⟨h1, _⟩
      have : (modelObs ⟨.cap s, now⟩ false ev).st.sup = s.tok.supply := rfl
      rw [this, hs] at h1
      omega
    · show s.cap = some (capStep m l (modelObs ⟨.cap s, now⟩ false ev))
      unfold capStep
      rw [if_neg (fun h => by cases h.1)]
      exact hc
  | mig s v =>
    obtain ⟨hk, hc, ho⟩ := ha
    obtain ⟨q, hs⟩ := mig_rejected (m := m) (l := l) (o := modelObs ⟨.mig s v, now⟩ false ev) rfl hc.symm
    exact ⟨vPause_off (by rw [hk]; rfl), vList_off (by rw [hk]; rfl), qe, vCap_off (by rw [hk]; decide), q,
      hk, hs.trans hc, ho⟩
  | bad => exact ha.elim

/-- a call the model accepts: the gate checks are silent on the new getters and on the list events the
call emitted (`now0`, `hprev`: the previous observation the monitor remembers, if any, is the one of the
state before the call) -/
theorem accepted_quiet (cfg : Cfg) {m : Mon} {st : St} (ha : AgreeSt m st) (now0 : Nat)
    (hprev : m.prev = none ∨ m.prev = some (stableOf ⟨st, now0⟩)) (w : Bool) (auth : List Nat) (op : GOp)
    {st' : St} (hap : applyModel cfg st auth op = some st') (now : Nat) :
    Quiet m (lineOf w auth op) (modelObs ⟨st', now⟩ true (newEvents st st')) st' := by
  cases st with
  | ptok s =>
    obtain ⟨hk, hp, ho⟩ := ha
    obtain ⟨s', rfl, ho', F⟩ := ptok_facts cfg s w auth op hap
    obtain ⟨q, hs⟩ := pause_accepted (m := m) (o := modelObs ⟨.ptok s', now⟩ true (newEvents (.ptok s) (.ptok s')))
      (by rw [hk]; rfl) rfl rfl (by rw [hp, ho]; exact F)
    exact ⟨q, vList_off (by rw [hk]; rfl), vListEv_off (by rw [hk]; rfl), vCap_off (by rw [hk]; decide),
      vMig_off (by rw [hk]; decide), hk, hs, ho.trans ho'.symm⟩
  | pcnt s =>
    obtain ⟨hk, hp, ho⟩ := ha
    obtain ⟨s', rfl, ho', F⟩ := pcnt_facts s w auth op hap
    obtain ⟨q, hs⟩ := pause_accepted (m := m) (o := modelObs ⟨.pcnt s', now⟩ true (newEvents (.pcnt s) (.pcnt s')))
      (by rw [hk]; rfl) rfl rfl (by rw [hp, ho]; exact F)
    exact ⟨q, vList_off (by rw [hk]; rfl), vListEv_off (by rw [hk]; rfl), vCap_off (by rw [hk]; decide),
      vMig_off (by rw [hk]; decide), hk, hs, ho.trans ho'.symm⟩
  | alib s =>
    obtain ⟨hk, hg⟩ := ha
    obtain ⟨s', rfl, F, E⟩ := alib_facts cfg s m.mgr w auth op hap
    obtain ⟨q, hs⟩ := list_accepted (m := m) (o := modelObs ⟨.alib s', now⟩ true (newEvents (.alib s) (.alib s')))
      (by rw [hk]; rfl) rfl rfl (by rw [hk, hg]; exact F)
    have qe : vListEv m (lineOf w auth op) (modelObs ⟨.alib s', now⟩ true (newEvents (.alib s) (.alib s'))) = none :=
      listEv_accepted (unchanged := s' = s) (by rw [hk, hg]; exact E) (fun e => by rw [e]; exact hprev)
    exact ⟨vPause_off (by rw [hk]; rfl), q, qe, vCap_off (by rw [hk]; decide), vMig_off (by rw [hk]; decide), hk, hs⟩
  | blib s =>
    obtain ⟨hk, hg⟩ := ha
    obtain ⟨s', rfl, F, E⟩ := blib_facts cfg s m.mgr w auth op hap
    obtain ⟨q, hs⟩ := list_accepted (m := m) (o := modelObs ⟨.blib s', now⟩ true (newEvents (.blib s) (.blib s')))
      (by rw [hk]; rfl) rfl rfl (by rw [hk, hg]; exact F)
    have qe : vListEv m (lineOf w auth op) (modelObs ⟨.blib s', now⟩ true (newEvents (.blib s) (.blib s'))) = none :=
      listEv_accepted (unchanged := s' = s) (by rw [hk, hg]; exact E) (fun e => by rw [e]; exact hprev)
    exact ⟨vPause_off (by rw [hk]; rfl), q, qe, vCap_off (by rw [hk]; decide), vMig_off (by rw [hk]; decide), hk, hs⟩
  | aex s =>
    obtain ⟨hk, hg, hm⟩ := ha
    obtain ⟨s', rfl, hm', F, E⟩ := aex_facts cfg s m.mgr hm w auth op hap
    obtain ⟨q, hs⟩ := list_accepted (m := m) (o := modelObs ⟨.aex s', now⟩ true (newEvents (.aex s) (.aex s')))
      (by rw [hk]; rfl) rfl rfl (by rw [hk, hg]; exact F)
    have qe : vListEv m (lineOf w auth op) (modelObs ⟨.aex s', now⟩ true (newEvents (.aex s) (.aex s'))) = none :=
      listEv_accepted (unchanged := s' = s) (by rw [hk, hg]; exact E) (fun e => by rw [e]; exact hprev)
    exact ⟨vPause_off (by rw [hk]; rfl), q, qe, vCap_off (by rw [hk]; decide), vMig_off (by rw [hk]; decide), hk, hs,
      hm'.trans hm⟩
  | bex s =>
    obtain ⟨hk, hg, hm⟩ := ha
    obtain ⟨s', rfl, hm', F, E⟩ := bex_facts cfg s m.mgr hm w auth op hap
    obtain ⟨q, hs⟩ := list_accepted (m := m) (o := modelObs ⟨.bex s', now⟩ true (newEvents (.bex s) (.bex s')))
      (by rw [hk]; rfl) rfl rfl (by rw [hk, hg]; exact F)
    have qe : vListEv m (lineOf w auth op) (modelObs ⟨.bex s', now⟩ true (newEvents (.bex s) (.bex s'))) = none :=
      listEv_accepted (unchanged := s' = s) (by rw [hk, hg]; exact E) (fun e => by rw [e]; exact hprev)
    exact ⟨vPause_off (by rw [hk]; rfl), q, qe, vCap_off (by rw [hk]; decide), vMig_off (by rw [hk]; decide), hk, hs,
      hm'.trans hm⟩
  | cap s =>
    obtain ⟨hk, hc, hs⟩ := ha
    cases op with
    | tok o =>
      obtain ⟨s', rfl, hc', hs'⟩ := cap_facts cfg s m.cap hc auth o hap
      have hcall : ¬ ((modelObs ⟨.cap s', now⟩ true (newEvents (.cap s) (.cap s'))).ok ∧
          (lineOf w auth (.tok o)).call = .gate .setcap) := fun h => by cases h.2
      refine ⟨vPause_off (by rw [hk]; rfl), vList_off (by rw [hk]; rfl), vListEv_off (by rw [hk]; rfl),
        vCap_none (o := modelObs ⟨.cap s', now⟩ true (newEvents (.cap s) (.cap s'))) hcall hc' ?_, vMig_off (by rw [hk]; decide),
        hk, ?_, rfl⟩
      · rintro ⟨h1, h2⟩
        have e : (modelObs ⟨.cap s', now⟩ true (newEvents (.cap s) (.cap s'))).st.sup = s'.tok.supply := rfl
        rw [e] at h1 h2
        rcases hs' with h | h
        · rw [h, hs] at h1; omega
        · omega
      · show s'.cap = some (capStep m (lineOf w auth (.tok o)) (modelObs ⟨.cap s', now⟩ true (newEvents (.cap s) (.cap s'))))
        unfold capStep
        rw [if_neg hcall]
        exact hc'
    | setCap c =>
      obtain ⟨h0, rfl⟩ := setcap_facts cfg s auth c hap
      refine ⟨vPause_off (by rw [hk]; rfl), vList_off (by rw [hk]; rfl), vListEv_off (by rw [hk]; rfl),
        vCap_setcap rfl rfl c rfl h0, vMig_off (by rw [hk]; decide), hk, ?_, rfl⟩
      show some c = some (capStep m (lineOf w auth (.setCap c))
        (modelObs ⟨.cap { s with cap := some c }, now⟩ true (newEvents (.cap s) (.cap { s with cap := some c }))))
      unfold capStep
      rw [if_pos ⟨rfl, rfl⟩]
      rfl
    | pause _ => simp only [applyModel, applyCap] at hap; cases hap
    | unpause _ => simp only [applyModel, applyCap] at hap; cases hap
    | increment => simp only [applyModel, applyCap] at hap; cases hap
    | reset => simp only [applyModel, applyCap] at hap; cases hap
    | setList _ _ _ => simp only [applyModel, applyCap] at hap; cases hap
    | enable => simp only [applyModel, applyCap] at hap; cases hap
    | ensure => simp only [applyModel, applyCap] at hap; cases hap
    | complete => simp only [applyModel, applyCap] at hap; cases hap
    | migrate _ _ => simp only [applyModel, applyCap] at hap; cases hap
    | upgrade _ => simp only [applyModel, applyCap] at hap; cases hap
  | mig s v =>
    obtain ⟨hk, hc, ho⟩ := ha
    obtain ⟨s', v', rfl, ho', F⟩ := mig_facts s v w auth op hap
    obtain ⟨q, hs⟩ := mig_accepted (m := m) (o := modelObs ⟨.mig s' v', now⟩ true (newEvents (.mig s v) (.mig s' v')))
      rfl rfl (by rw [hc, ho]; exact F)
    exact ⟨vPause_off (by rw [hk]; rfl), vList_off (by rw [hk]; rfl), vListEv_off (by rw [hk]; rfl),
      vCap_off (by rw [hk]; decide), q, hk, hs, ho.trans ho'.symm⟩
  | bad => exact ha.elim

/-! ## soundness -/

/-- **the model never refuses the owner's unpause of a paused contract** (so the monitor's `vUnpause` is silent on a
call the model rejects), and an accepted call is no concern of that check -/
theorem vUnpause_rejected (cfg : Cfg) {m : Mon} {st : St} (ha : AgreeSt m st) (w : Bool) (auth : List Nat) (op : GOp)
    (hap : applyModel cfg st auth op = none) (o : Obs) : vUnpause m (lineOf w auth op) o = none := by
  unfold vUnpause
  rw [if_neg]
  rintro ⟨hk, -, hc, hp, ho, hau⟩
  cases op with
  | unpause c =>
    have hc1 : some c = some m.owner := by simpa [lineOf] using ho
    have hc2 : c = m.owner := Option.some.inj hc1
    have hmem : m.owner ∈ auth := by simpa [lineOf] using hau
    subst hc2
    cases st with
    | ptok s =>
      obtain ⟨_, hp', ho'⟩ := ha
      have hps : s.p.paused = true := by rw [← hp']; exact hp
      have hms : s.owner ∈ auth := by rw [← ho']; exact hmem
      simp [applyModel, applyPTok, PTok.apply, callerIsOwner, requireAuth, unpause, whenPaused, okSt, bind, Except.bind,
        pure, Except.pure, ho', hps, hms] at hap
    | pcnt s =>
      obtain ⟨_, hp', ho'⟩ := ha
      have hps : s.p.paused = true := by rw [← hp']; exact hp
      have hms : s.owner ∈ auth := by rw [← ho']; exact hmem
      simp [applyModel, applyPCnt, PCnt.apply, callerIsOwner, requireAuth, unpause, whenPaused, okSt, bind, Except.bind,
        pure, Except.pure, ho', hps, hms] at hap
    | alib s => obtain ⟨hk', _⟩ := ha; rw [hk'] at hk; exact absurd hk (by decide)
    | blib s => obtain ⟨hk', _⟩ := ha; rw [hk'] at hk; exact absurd hk (by decide)
    | aex s => obtain ⟨hk', _⟩ := ha; rw [hk'] at hk; exact absurd hk (by decide)
    | bex s => obtain ⟨hk', _⟩ := ha; rw [hk'] at hk; exact absurd hk (by decide)
    | cap s => obtain ⟨hk', _⟩ := ha; rw [hk'] at hk; exact absurd hk (by decide)
    | mig s v => obtain ⟨hk', _⟩ := ha; rw [hk'] at hk; exact absurd hk (by decide)
    | bad => exact ha.elim
  | setList u on o => cases o <;> cases on <;> cases w <;> simp [lineOf, setName] at hc
  | tok o => simp [lineOf] at hc
  | pause c => simp [lineOf] at hc
  | increment => simp [lineOf] at hc
  | reset => simp [lineOf] at hc
  | enable => simp [lineOf] at hc
  | ensure => simp [lineOf] at hc
  | complete => simp [lineOf] at hc
  | migrate d o => simp [lineOf] at hc
  | upgrade o => simp [lineOf] at hc
  | setCap c => simp [lineOf] at hc

theorem vUnpause_accepted {m : Mon} {l : Line} {o : Obs} (hok : o.ok = true) : vUnpause m l o = none := by
  unfold vUnpause
  rw [if_neg]
  rintro ⟨-, h, -⟩
  exact h hok

/-- **one call**: fed with the model's own observation of any call (accepted or rejected) of any of
the eight machines, the monitor reports nothing and its state keeps describing the model's -/
theorem monitor_sound_step (cfg : Cfg) {m : Mon} {x : MSt} (ha : Agree m x) (w : Bool) (auth : List Nat) (op : GOp) :
    (checkCore m (lineOf w auth op) (modelObs (stepM cfg x auth op).1 (stepM cfg x auth op).2
      (newEvents x.st (stepM cfg x auth op).1.st))).2 = none ∧
    Agree (checkCore m (lineOf w auth op) (modelObs (stepM cfg x auth op).1 (stepM cfg x auth op).2
      (newEvents x.st (stepM cfg x auth op).1.st))).1 (stepM cfg x auth op).1 := by
  obtain ⟨st, now⟩ := x
  cases hap : applyModel cfg st auth op with
  | none =>
    rw [stepM_none hap]
    obtain ⟨q1, q2, q2', q3, q4, q5⟩ := rejected_quiet ha.st (lineOf w auth op) now (newEvents st st)
    exact ⟨verdict_none (vRollback_none (fun _ => ha.prev)) q1 q2 q2' q3 q4 (vUnpause_rejected cfg ha.st w auth op hap _),
      ⟨Or.inr rfl, q5⟩⟩
  | some st' =>
    rw [stepM_some hap]
    obtain ⟨q1, q2, q2', q3, q4, q5⟩ := accepted_quiet cfg ha.st now ha.prev w auth op hap (nowStep now op)
    exact ⟨verdict_none (vRollback_none (fun h => by cases h)) q1 q2 q2' q3 q4 (vUnpause_accepted rfl), ⟨Or.inr rfl, q5⟩⟩

/-- one item of a history: the authorizing addresses, the call, and the wording of a list change on
the op line (`true`: `block` / `unblock`, `false`: `allow` / `disallow`) -/
abbrev Item := List Nat × GOp × Bool

/-- the monitor run over a whole history of model observations: first message, if any -/
def monitorRun (cfg : Cfg) : Mon → MSt → List Item → Option String
  | _, _, [] => none
  | m, x, a :: as =>
    match (checkCore m (lineOf a.2.2 a.1 a.2.1)
        (modelObs (stepM cfg x a.1 a.2.1).1 (stepM cfg x a.1 a.2.1).2
          (newEvents x.st (stepM cfg x a.1 a.2.1).1.st))).2 with
    | some msg => some msg
    | none => monitorRun cfg
        (checkCore m (lineOf a.2.2 a.1 a.2.1) (modelObs (stepM cfg x a.1 a.2.1).1 (stepM cfg x a.1 a.2.1).2
          (newEvents x.st (stepM cfg x a.1 a.2.1).1.st))).1
        (stepM cfg x a.1 a.2.1).1 as

/-- the states the driver's `minitM` and `initM` build from a label agree, whenever the model's
constructor accepts the label's parameters -/
theorem init_agree (p : Params) (h0 : initSt p ≠ .bad) : Agree (monInit p) (initM p) := by
  refine ⟨Or.inl rfl, ?_⟩
  show AgreeSt (monInit p) (initSt p)
  unfold initSt at h0 ⊢
  cases hk : p.kind with
  | ptok =>
    rw [hk] at h0
    simp only at h0 ⊢
    cases hc : PTok.construct p.start p.owner p.init with
    | error e => rw [hc] at h0; exact (h0 rfl).elim
    | ok s0 =>
      obtain ⟨t, _, h⟩ := bind_eq_ok hc
      injection h with h; subst h
      exact ⟨hk, rfl, rfl⟩
  | pcnt => exact ⟨hk, rfl, rfl⟩
  | alib =>
    refine ⟨hk, ?_⟩
    funext i
    simp [monInit, hk, LTok.empty, emptyList]
  | blib =>
    refine ⟨hk, ?_⟩
    funext i
    simp [monInit, hk, LTok.empty, emptyList]
  | aex =>
    rw [hk] at h0
    simp only at h0 ⊢
    cases hc : AEx.construct p.start p.owner p.mgr p.init with
    | error e => rw [hc] at h0; exact (h0 rfl).elim
    | ok s0 =>
      unfold AEx.construct at hc
      obtain ⟨t, _, h⟩ := bind_eq_ok hc
      injection h with h; subst h
      refine ⟨hk, ?_, rfl⟩
      funext i
      simp [monInit, hk, AllowList.allowUser, emptyList, upd]
  | bex =>
    rw [hk] at h0
    simp only at h0 ⊢
    cases hc : BEx.construct p.start p.owner p.mgr p.init with
    | error e => rw [hc] at h0; exact (h0 rfl).elim
    | ok s0 =>
      obtain ⟨t, _, h⟩ := bind_eq_ok hc
      injection h with h; subst h
      refine ⟨hk, ?_, rfl⟩
      funext i
      simp [monInit, hk, emptyList]
  | cap =>
    rw [hk] at h0
    simp only at h0 ⊢
    cases hc : CTok.construct p.start p.cap with
    | error e => rw [hc] at h0; exact (h0 rfl).elim
    | ok s0 =>
      unfold CTok.construct setCap at hc
      split at hc
      · cases hc
      · injection hc with hc; subst hc
        exact ⟨hk, rfl, by simp [monInit, Fungible.init]⟩
  | mig => exact ⟨hk, rfl, rfl⟩
  | other s => rw [hk] at h0; exact (h0 rfl).elim

/-- **monitor soundness**: for every host configuration, every sequence label (kind of contract,
owner, manager, initial supply, cap, executable version, start ledger) whose constructor the model
accepts, and every finite history — any entry points, any arguments, any callers, any authorizing
subsets, any accounts (inside or outside the observed universe), any ledger movement — the monitor
reports nothing on the model's observations -/
theorem monitor_accepts_every_model_trace (cfg : Cfg) (p : Params) (h0 : initSt p ≠ .bad) (ops : List Item) :
    monitorRun cfg (monInit p) (initM p) ops = none := by
  suffices ∀ m x, Agree m x → monitorRun cfg m x ops = none from this _ _ (init_agree p h0)
  induction ops with
  | nil => intro m x _; rfl
  | cons a as ih =>
    intro m x ha
    obtain ⟨h1, h2⟩ := monitor_sound_step cfg ha a.2.2 a.1 a.2.1
    unfold monitorRun
    rw [h1]
    exact ih _ _ h2

/-! ### finding about the monitor (kept as a regression)

Before this work item the ghost list was a `List Bool` of five entries: a list change for an
address ≥ 5 left it untouched (`setAt`) and the status of such a party read as `false`
(`getD p false`). For an ALLOW list that is "not allowed": on the model trace below — mint to
account 7, allow 7, allow 0, then 7 transfers to 0 with its own authorization, all accepted by the
model of the `AllowList` library type — the legacy condition of `site=list.bypass.alib.transfer`
holds, i.e. the legacy monitor raised a false alarm on a model trace. (Same for an `aex` label
whose `owner` is ≥ 5: the constructor allows the admin, the legacy initial ghost did not.) The
monitor now keeps the status of every address (`Mon.ghost : Nat → Bool`) and is silent on this
trace by `monitor_accepts_every_model_trace`; for parties 0..4 (all the harness uses) both
conditions coincide. For a BLOCK list the legacy condition was too weak outside the universe (a
blocked party ≥ 5 read as "not blocked"); the new one demands exactly the property there too. -/

def legacySetAt (l : List Bool) (i : Nat) (v : Bool) : List Bool := l.mapIdx (fun j x => if j = i then v else x)

/-- the legacy condition of `site=list.bypass.*` (ghost list of five entries, `ak`: allow list) -/
def legacyBypass (ghost : List Bool) (ak : Bool) (ps : List Nat) : Bool :=
  ps.any (fun p => (ghost.getD p false) ≠ ak)

def outsideParams : Params := ⟨.alib, 0, 1, 0, 0, 0, 100⟩

def outsideHist : List Item :=
  [([], .tok (.mint 7 100), false), ([], .setList 7 true none, false), ([], .setList 0 true none, false)]

def outsideCall : Item := ([7], .tok (.transfer 7 0 50), false)

theorem legacy_monitor_false_alarm_outside_universe :
    -- the model accepts the transfer 7 → 0 after the history
    (stepM demoCfg (outsideHist.foldl (fun x a => (stepM demoCfg x a.1 a.2.1).1) (initM outsideParams))
      outsideCall.1 outsideCall.2.1).2 = true ∧
    -- the legacy ghost list after the two accepted list changes, and the legacy condition on it
    legacySetAt (legacySetAt (List.replicate 5 false) 7 true) 0 true = [true, false, false, false, false] ∧
    legacyBypass [true, false, false, false, false] true
      (vettedOfCall (lineOf false [7] outsideCall.2.1).call (lineOf false [7] outsideCall.2.1).a) = true ∧
    -- the monitor as it is now
    monitorRun demoCfg (monInit outsideParams) (initM outsideParams) (outsideHist ++ [outsideCall]) = none := by
  refine ⟨by decide, by decide, by decide,
    monitor_accepts_every_model_trace _ _ (by simp [initSt, outsideParams]) _⟩

/-! ### non-vacuity (tests, labelled as such): the monitor is not trivially silent -/

/-- the observation of the repaired defect #5 (fungible-allowlist example burning through
`Base::burn`): the disallowed holder 2 burns — `site=list.bypass.aex.burn` -/
example :
    (checkCore { kind := .aex, owner := 0, mgr := 1, cap := 0, sup := 0, paused := false, ghost := fun i => i == 0,
                 credit := false, prev := none }
      ⟨.fungible .burn, [2], [2], 0⟩
      ⟨true, { sup := 960, bal := [900, 0, 60, 0, 0], allow := [], now := 100, paused := false, counter := 0,
               list := [true, false, false, false, false], cap := none, migrating := false, data := none,
               wasm := false }, []⟩).2.isSome = true := by
  simp [checkCore, verdict, orElse, vRollback, vPause, vList, MKind.hasPause, MKind.isList, MKind.allowKind,
    Line.idle, ghostStep, listStep, statusList, NU, List.range, List.range.loop, vettedOfCall, vettedOf]

/-- a transfer accepted while the ghost flag says paused — `site=pausable.bypass.ptok.transfer` -/
example :
    (checkCore { kind := .ptok, owner := 0, mgr := 0, cap := 0, sup := 0, paused := true, ghost := fun _ => false,
                 credit := false, prev := none }
      ⟨.fungible .transfer, [1, 3], [1], 0⟩
      ⟨true, { sup := 1500, bal := [1000, 490, 0, 10, 0], allow := [], now := 100, paused := true, counter := 0,
               list := [], cap := none, migrating := false, data := none, wasm := false }, []⟩).2.isSome = true := by
  simp [checkCore, verdict, orElse, vRollback, vPause, MKind.hasPause, isPausable]

/-- total supply one above the cap — `site=capped.exceeded` -/
example :
    (checkCore { kind := .cap, owner := 0, mgr := 0, cap := 1000, sup := 0, paused := false, ghost := fun _ => false,
                 credit := false, prev := none }
      ⟨.fungible .mint, [2], [], 0⟩
      ⟨true, { sup := 1001, bal := [0, 500, 501, 0, 0], allow := [], now := 100, paused := false, counter := 0,
               list := [], cap := some 1000, migrating := false, data := none, wasm := false }, []⟩).2.isSome = true := by
  simp [checkCore, verdict, orElse, vRollback, vPause, vList, vListEv, vCap, MKind.hasPause, MKind.isList, Line.idle]

/-- a migrate accepted with no enable / upgrade since the last completion —
`site=migration.without_upgrade.migrate` -/
example :
    (checkCore { kind := .mig, owner := 0, mgr := 0, cap := 0, sup := 0, paused := false, ghost := fun _ => false,
                 credit := false, prev := none }
      ⟨.gate .migrate, [0], [0], 0⟩
      ⟨true, { sup := 0, bal := [], allow := [], now := 100, paused := false, counter := 0, list := [], cap := none,
               migrating := false, data := some (1, 2), wasm := false }, []⟩).2.isSome = true := by
  simp [checkCore, verdict, orElse, vRollback, vPause, vList, vListEv, vCap, vMig, MKind.hasPause, MKind.isList]

/-- a rejected call after which `paused()` reads differently — `site=gates.rollback.pcnt` -/
example :
    (checkCore { kind := .pcnt, owner := 2, mgr := 0, cap := 0, sup := 0, paused := true, ghost := fun _ => false, credit := false,
                 prev := some { sup := 0, bal := [], allow := [], now := 100, paused := true, counter := 2, list := [],
                                cap := none, migrating := false, data := none, wasm := false } }
      ⟨.gate .increment, [], [], 0⟩
      ⟨false, { sup := 0, bal := [], allow := [], now := 100, paused := false, counter := 2, list := [], cap := none,
                migrating := false, data := none, wasm := false }, []⟩).2.isSome = true := by
  simp [checkCore, verdict, orElse, vRollback]

/-- the observation of the seeded change "a redundant allow-list change is announced again": account 2 is
already allowed, `allow 2` is accepted, leaves `allowed()` as it was and emits `allowed:2` once more —
`site=list.idempotent.alib` -/
example :
    (checkCore { kind := .alib, owner := 0, mgr := 1, cap := 0, sup := 0, paused := false, ghost := fun i => i == 2,
                 credit := false, prev := none }
      ⟨.gate .allow, [2], [], 0⟩
      ⟨true, { sup := 0, bal := [0, 0, 0, 0, 0], allow := [], now := 100, paused := false, counter := 0,
               list := [false, false, true, false, false], cap := none, migrating := false, data := none,
               wasm := false }, [.userAllowed 2]⟩).2.isSome = true := by
  simp [checkCore, verdict, orElse, vRollback, vPause, vList, vListEv, MKind.hasPause, MKind.isList, MKind.allowKind,
    MKind.isEx, Line.idle, ghostStep, listStep, statusList, NU, List.range, List.range.loop, vettedOfCall, upd,
    Call.isGate, noopF, setOf]

/-- a real change (`block 3` of a not-blocked account) that emits nothing — `site=list.event.blib` -/
example :
    (checkCore { kind := .blib, owner := 0, mgr := 1, cap := 0, sup := 0, paused := false, ghost := fun _ => false,
                 credit := false, prev := none }
      ⟨.gate .block, [3], [], 0⟩
      ⟨true, { sup := 0, bal := [0, 0, 0, 0, 0], allow := [], now := 100, paused := false, counter := 0,
               list := [false, false, false, true, false], cap := none, migrating := false, data := none,
               wasm := false }, []⟩).2.isSome = true := by
  simp [checkCore, verdict, orElse, vRollback, vPause, vList, vListEv, MKind.hasPause, MKind.isList, MKind.allowKind,
    MKind.isEx, Line.idle, ghostStep, listStep, statusList, NU, List.range, List.range.loop, vettedOfCall, upd,
    Call.isGate, noopF, setOf, expectedEvF]

end OZ.Gates.Mon
