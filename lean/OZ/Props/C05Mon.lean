import OZ.Lemmas.VaultMonOps
/-
C05 — soundness of the MONITOR that decides the property on implementation traces.

`./check C05` (and the also-runs of `./check C01`, `./check C02`) report a concrete violation
exactly when `OZ.Vault.Mon.checkConstruct` / `OZ.Vault.Mon.checkCore` (the driver's monitor on
parsed values, OZ/Model/VaultMon.lean; the driver only parses) return a message on the
implementation's observations. Here it is proved that on the observations of the MODEL the monitor
never returns a message, for every host configuration, start ledger, decimals offset and every
finite sequence of lines as the harness writes them (`monitor_accepts_every_model_trace`).
Consequences:

  * an implementation whose observations agree with the model's (the correspondence the check
    establishes by differential testing) can never raise a monitor alarm — a monitor failure is
    never a false alarm of the monitor itself;
  * every conclusion the monitor evaluates is a THEOREM about the model, in the monitor's own
    executable wording — ALL of its checks are covered, none remains trusted:
      - every line: Σ share balances = share supply, no negative share balance, a rejected call
        changes no balance / supply / allowance, the list-level replay of the vault contract's
        events from genesis gives the printed share balances, total_assets = the vault's asset
        balance, the rate (A+1)/(S+10^offset) did not fall over an accepted call
        (`site=vault.shares.sum|rollback|replay`, `vault.total_assets`, `vault.rate`);
      - query: it changes nothing and each of the ten answers (4 previews, 2 conversions, 4 max_*)
        is the exactly rounded formula on the printed totals, or fails exactly when the formula
        says so (`vault.query.state`, `vault.convert.*`, `vault.query.missing`);
      - accepted deposit / mint / withdraw / redeem: non-negative, returned = the preview observed
        on the line before, floor / ceiling by cross-multiplication, within max_withdraw /
        max_redeem, exactly (assets, shares) moved between payer|owner, receiver and vault and
        nothing else, the one allowance an operator ≠ payer|owner needs is spent exactly and no
        other allowance of either token moves, the event names these parties and amounts, the
        operator was asked to authorize (`vault.<op>.ret|negative|preview|round|max|move|
        allowance|event|auth`);
      - ledger movement changes no balance; share-token calls leave supply and assets alone,
        asset-token calls leave the shares alone (`vault.advance`, `vault.supply`);
      - constructor: accepted only with offset ≤ 10 (`vault.offset`).

The model observation `stepObs` / `obsConstruct` used here IS the data the driver's model side
prints (`Drv.C05.stepLine`: `showState` = A S sb ab asup sal aal, `now`, `ret` of a vault
operation, the ten `showQ` answers of a query, `showEvents`, `dem`), read back by the driver's
`parseObs`; `lineOf` is what `Drv.C05.parseLine` reads from the op line. Two fields are simplified
without affecting any check: `evsRaw` (only quoted inside one message) is empty, and `evs` keeps the
share-moving events of the vault's own stream only (the parser drops asset-token events `a.…` and
approvals, which no check reads).

Hypotheses of the theorem = the shape of a harness sequence + the assumptions of OZ/Props/C05:
  * the sequence starts with `vault construct` (the harness's `Sim::construct`; nothing follows a
    rejected constructor), then queries and calls;
  * every deposit / mint / withdraw / redeem line is preceded by the `query` line for the same
    amount (the harness's `vault_op` does exactly that);
  * query amounts are i128 values (they are arguments of real invocations);
  * all addresses lie in the observed universe 0..4 and nobody signs for the vault contract (4).
`preview_needs_query`, `rate_needs_vault_not_signing` and `sum_needs_closed_universe` show that the
last three cannot be dropped.

Property theorems only; helper facts come from OZ/Lemmas/VaultMon.lean and VaultMonOps.lean.
-/
namespace OZ.Vault.Mon
open OZ.Host OZ.Vault
open OZ.FungibleMon (orElse allowList orElse_none)

/-- the amount on the op line of a vault operation -/
def amountOf : Op → Int
  | .deposit _ x _ _ _ => x
  | .mint _ x _ _ _ => x
  | .withdraw x _ _ _ => x
  | .redeem x _ _ _ => x
  | _ => 0

/-- a line the harness can write after `pq` (the amount of the query on the line before, if that
line was a query) -/
def Adm (pq : Option Int) : Call → Prop
  | .query x _ => OZ.MulDiv.in128 x
  | .call auth op =>
    VAULT ∉ auth ∧ (∀ a ∈ op.addrs, a < N) ∧ (isVaultOp op = true → pq = some (amountOf op))

def nextPq : Call → Option Int
  | .query x _ => some x
  | .call _ _ => none

/-- monitor state and model state describe the same point of a sequence: the previous observation
shows the model state, the balances reconstructed from the events are the model's share balances,
and right after a query the remembered answers are the model's answers in this very state -/
structure Agree (m : Mon) (s : State) (pq : Option Int) : Prop where
  offset : m.offset = s.offset
  prev : ∃ p, m.prev = some p ∧ Shown p s
  replay : m.replay = (List.range N).map s.sh.bal
  lastQ : ∀ x, pq = some x → ∃ who qo, m.lastQ = some (x, who, qo) ∧ qo.q = answers s x who

/-- **one line**: fed with the model's own observation of any admissible line (a query, an accepted
or a rejected call of any kind), the monitor reports nothing, its state keeps describing the
model's, and the model state stays good -/
theorem monitor_sound_step (c : Cfg) {m : Mon} {s : State} {pq : Option Int} (hg : Good s)
    (ha : Agree m s pq) (cl : Call) (hadm : Adm pq cl) :
    (checkCore m (lineOf cl) (stepObs c s cl).2).2 = none ∧
    Agree (checkCore m (lineOf cl) (stepObs c s cl).2).1 (stepObs c s cl).1 (nextPq cl) ∧
    Good (stepObs c s cl).1 := by
  obtain ⟨hoff, ⟨p, hmp, hp⟩, hrep, hlq⟩ := ha
  have hprev : m.prev.getD zeroObs = p := by rw [hmp]; rfl
  cases cl with
  | query x who =>
    have ho : Shown (obsQuery s x who) s := stateObs_shown _ _ _ _ _ _
    refine ⟨?_, ⟨hoff, ⟨_, rfl, ho⟩, hrep, ?_⟩, hg⟩
    · show orElse (generic (m.prev.getD zeroObs) (10 ^ m.offset) m.replay (obsQuery s x who))
        (fun _ => specific m (lineOf (.query x who)) (m.prev.getD zeroObs) (obsQuery s x who)) = none
      rw [hprev, hoff]
      rw [orElse_none (generic_shown hg ho hrep (vRollback_none (fun h => by cases h))
        (vRate_none (fun _ => by rw [hp.A, hp.S, ho.A, ho.S])))]
      show specific m (lineOf (.query x who)) p (obsQuery s x who) = none
      unfold specific
      rw [if_neg (fun h => h rfl)]
      show vQuery (10 ^ m.offset) x who p (obsQuery s x who) = none
      rw [hoff]
      exact vQuery_none hg hp ho x who hadm rfl
    · intro x' hx'
      injection hx' with hx'; subst hx'
      exact ⟨who, obsQuery s x who, rfl, rfl⟩
  | call auth op =>
    obtain ⟨hv, hU, hpre⟩ := hadm
    have hv' : s.vault ∉ auth := by rw [hg.vault]; exact hv
    have hU' : ∀ a ∈ op.addrs, a ∈ List.range N := fun a h => List.mem_range.mpr (hU a h)
    cases hx : apply c s auth op with
    | error e =>
      have hs : stepObs c s (.call auth op) = (s, obsErr s) := by simp only [stepObs, hx]
      rw [hs]
      have ho : Shown (obsErr s) s := stateObs_shown _ _ _ _ _ _
      refine ⟨?_, ⟨hoff, ⟨_, rfl, ho⟩, hrep, fun x' h => by cases h⟩, hg⟩
      show orElse (generic (m.prev.getD zeroObs) (10 ^ m.offset) m.replay (obsErr s))
        (fun _ => specific m (lineOf (.call auth op)) (m.prev.getD zeroObs) (obsErr s)) = none
      rw [hprev]
      rw [orElse_none (generic_shown hg ho hrep
        (vRollback_none (fun _ => ⟨sameState_of_shown hp ho,
          by rw [hp.sal]; exact allowMoved_same (fun _ _ => rfl),
          by rw [hp.aal]; exact allowMoved_same (fun _ _ => rfl)⟩))
        (vRate_none (fun h => by cases h)))]
      show specific m (lineOf (.call auth op)) p (obsErr s) = none
      unfold specific
      rw [if_pos (fun h => by cases h)]
    | ok r =>
      obtain ⟨s', ret⟩ := r
      have hs : stepObs c s (.call auth op) = (s', obsOk s s' op ret) := by simp only [stepObs, hx]
      rw [hs]
      have ho : Shown (obsOk s s' op ret) s' := stateObs_shown _ _ _ _ _ _
      obtain ⟨hvault, hoffset⟩ := apply_static hx
      have hg' : Good s' :=
        ⟨apply_wf List.nodup_range c hg.wf auth op hU' hv' hx, by rw [hvault]; exact hg.vault,
          apply_replay auth op hg.replay hx⟩
      obtain ⟨evs, hev⟩ := apply_events hx
      have hrep' : (obsOk s s' op ret).evs.foldl replayEv m.replay = (List.range N).map s'.sh.bal := by
        rw [hrep]; exact replay_step hg.replay hg'.replay hev
      have hrate := rate_monotone List.nodup_range c hg.wf auth op hU' hv' hx
      refine ⟨?_, ⟨by rw [hoffset]; exact hoff, ⟨_, rfl, ho⟩, hrep', fun x' h => by cases h⟩, hg'⟩
      show orElse (generic (m.prev.getD zeroObs) (10 ^ m.offset)
          ((obsOk s s' op ret).evs.foldl replayEv m.replay) (obsOk s s' op ret))
        (fun _ => specific m (lineOf (.call auth op)) (m.prev.getD zeroObs) (obsOk s s' op ret)) = none
      rw [hprev]
      rw [orElse_none (generic_shown hg' ho hrep' (vRollback_none (fun h => by cases h))
        (vRate_none (fun _ => by
          rw [hp.A, hp.S, ho.A, ho.S, hoff]
          unfold RateLe at hrate; rw [hoffset] at hrate; exact hrate)))]
      show specific m (lineOf (.call auth op)) p (obsOk s s' op ret) = none
      unfold specific
      rw [if_neg (fun h => h rfl)]
      cases op with
      | deposit sub x r f o =>
        obtain ⟨who, qo, hq1, hq2⟩ := hlq x (hpre rfl)
        simp only [lineOf, vVault, lt3]
        show checkVaultOp m.offset m.lastQ .deposit x r f o p _ = none
        rw [hoff, hq1]
        exact checkVaultOp_deposit hg hx hp hq2
      | mint sub x r f o =>
        obtain ⟨who, qo, hq1, hq2⟩ := hlq x (hpre rfl)
        simp only [lineOf, vVault, lt3]
        show checkVaultOp m.offset m.lastQ .mint x r f o p _ = none
        rw [hoff, hq1]
        exact checkVaultOp_mint hg hx hp hq2
      | withdraw x r ow o =>
        obtain ⟨who, qo, hq1, hq2⟩ := hlq x (hpre rfl)
        simp only [lineOf, vVault, lt3]
        show checkVaultOp m.offset m.lastQ .withdraw x r ow o p _ = none
        rw [hoff, hq1]
        exact checkVaultOp_withdraw hg hx hp hq2
      | redeem x r ow o =>
        obtain ⟨who, qo, hq1, hq2⟩ := hlq x (hpre rfl)
        simp only [lineOf, vVault, lt3]
        show checkVaultOp m.offset m.lastQ .redeem x r ow o p _ = none
        rw [hoff, hq1]
        exact checkVaultOp_redeem hg hx hp hq2
      | share top =>
        obtain ⟨f1, f2, f3⟩ := share_frame hg.wf hU hx
        show vShareTok _ p _ = none
        apply vShareTok_none
        · rw [ho.S, hp.S, f1]
        · rw [ho.ab, hp.ab, f2]
        · rw [ho.A, hp.A]; unfold totalAssets; rw [f2, f3]
      | asset top =>
        have f1 := asset_frame hx
        show vAssetTok _ p _ = none
        apply vAssetTok_none
        · rw [ho.S, hp.S]; unfold totalShares; rw [f1]
        · rw [ho.sb, hp.sb, f1]
      | advance n =>
        simp only [apply] at hx
        injection hx with hx; injection hx with hx _; subst hx
        show vAdvance p _ = none
        exact vAdvance_none (sameState_of hp ho rfl rfl rfl rfl rfl)

/-- the monitor run over the lines after the constructor, on the model's observations: first
message, if any -/
def monitorRun (c : Cfg) : Mon → State → List Call → Option String
  | _, _, [] => none
  | m, s, cl :: cls =>
    match (checkCore m (lineOf cl) (stepObs c s cl).2).2 with
    | some msg => some msg
    | none => monitorRun c (checkCore m (lineOf cl) (stepObs c s cl).2).1 (stepObs c s cl).1 cls

/-- every line of the sequence is one the harness can write (see `Adm`) -/
def AdmAll : Option Int → List Call → Prop
  | _, [] => True
  | pq, cl :: cls => Adm pq cl ∧ AdmAll (nextPq cl) cls

/-- a whole sequence as the harness writes it: `vault construct offset=<offset>` at ledger `start`,
then — only if the constructor was accepted — the lines `cls`. The monitor starts in `monInit` (the
driver's `minit`); the model in `construct VAULT offset start` (the driver's `stepLine` on the
construct line, whose observation is `ok … <state>` resp. `err noinit`, which does not parse). -/
def traceRun (c : Cfg) (start offset : Nat) (cls : List Call) : Option String :=
  match construct VAULT offset start with
  | .ok s0 =>
    match (checkConstruct monInit offset true (some (obsConstruct s0))).2 with
    | some msg => some msg
    | none => monitorRun c (checkConstruct monInit offset true (some (obsConstruct s0))).1 s0 cls
  | .error _ => (checkConstruct monInit offset false none).2

/-- **monitor soundness**: for every host configuration, start ledger, decimals offset (also one
the constructor rejects) and every finite sequence of admissible lines — queries for any i128
amount and any account, the four vault operations by anybody for anybody with any amount (each
preceded by its query), share-token and asset-token calls (donations, mints, approvals, burns),
ledger movement, any authorizing sets without the vault contract, accepted or rejected — the
monitor reports nothing on the model's observations. -/
theorem monitor_accepts_every_model_trace (c : Cfg) (start offset : Nat) (cls : List Call)
    (hadm : AdmAll none cls) : traceRun c start offset cls = none := by
  unfold traceRun
  cases hc : construct VAULT offset start with
  | error e =>
    exact checkConstruct_none (fun h => by cases h)
  | ok s0 =>
    have hle : offset ≤ 10 := by
      unfold construct at hc
      split at hc
      · cases hc
      · rename_i h; unfold MAX_DECIMALS_OFFSET at h; omega
    have hs0 : s0 = ⟨OZ.Fungible.init start, OZ.Fungible.init start, VAULT, offset, []⟩ := by
      unfold construct at hc
      split at hc
      · cases hc
      · injection hc with hc; exact hc.symm
    have h1 : (checkConstruct monInit offset true (some (obsConstruct s0))).2 = none :=
      checkConstruct_none (fun _ => hle)
    simp only
    rw [h1]
    simp only
    have hrun : ∀ (cls : List Call) (m : Mon) (s : State) (pq : Option Int), Good s → Agree m s pq →
        AdmAll pq cls → monitorRun c m s cls = none := by
      intro cls
      induction cls with
      | nil => intro m s pq _ _ _; rfl
      | cons cl cls ih =>
        intro m s pq hg ha hadm
        obtain ⟨h1, h2, h3⟩ := monitor_sound_step c hg ha cl hadm.1
        unfold monitorRun
        rw [h1]
        exact ih _ _ _ h3 h2 hadm.2
    apply hrun cls _ s0 none
    · exact ⟨construct_wf (List.mem_range.mpr (by decide)) hc, by rw [hs0], by rw [hs0]; rfl⟩
    · refine ⟨by rw [hs0]; rfl, ⟨obsConstruct s0, rfl, stateObs_shown _ _ _ _ _ _⟩, ?_, fun x h => by cases h⟩
      show List.replicate N 0 = _
      rw [hs0]
      show List.replicate N 0 = (List.range N).map (fun _ => (0 : Int))
      decide
    · exact hadm

/-! ### the hypotheses are necessary (tests, labelled as such)

No model trace of the harness's shape makes the monitor fire (that is the theorem); outside that
shape the monitor does report, rightly from what it sees: -/

/-- an accepted vault operation whose line is NOT preceded by its query is reported
(`site=vault.deposit.preview no preview observed`): the "returned = previewed" conclusion is
decided from the preview observed on the line before -/
theorem preview_needs_query :
    (traceRun ⟨1, 200000⟩ 100 0 [.call [] (.asset (.mint 0 5)), .call [0] (.deposit true 1 0 0 0)]).isSome = true := by
  decide

/-- if somebody could sign for the vault contract, an asset transfer out of the vault lowers the
rate and the monitor reports `site=vault.rate` (assumption "nobody signs for the vault" of
OZ/Props/C05) -/
theorem rate_needs_vault_not_signing :
    (traceRun ⟨1, 200000⟩ 100 0
      [.call [] (.asset (.mint 4 5)), .call [4] (.asset (.transfer 4 0 5))]).isSome = true := by
  decide

/-- after a mint of assets to account 7 and a deposit for receiver 7, the printed share balances of
0..4 do not sum to the supply: the monitor reports `site=vault.shares.sum` -/
theorem sum_needs_closed_universe :
    (traceRun ⟨1, 200000⟩ 100 0
      [.call [] (.asset (.mint 0 5)), .query 1 0, .call [0] (.deposit true 1 7 0 0)]).isSome = true := by
  decide

/-! ### non-vacuity (tests, labelled as such): the demo history of OZ/Props/C05 (inflation attack
with a donation, operator ≠ owner redeem, a rejected call) written as harness lines is admissible,
so the theorem applies to it; and the monitor is not trivially silent -/

def demoLines : List Call :=
  [.call [] (.asset (.mint 0 2000000000000000007)), .call [] (.asset (.mint 1 1000000000000000001)),
   .query 1 0, .call [0] (.deposit true 1 0 0 0),
   .call [0] (.asset (.transfer 0 4 1000000000000000000)),
   .query 1000000000000000001 1, .call [1] (.deposit true 1000000000000000001 1 1 1),
   .call [0] (.share (.approve 0 2 1 500)),
   .query 1 0, .call [2] (.redeem 1 3 0 2),
   .query 666666666666666668 1, .call [1] (.withdraw 666666666666666668 1 1 1),
   .call [] (.advance 7),
   .query 1 1, .call [1] (.redeem 1 1 1 1)]

example : AdmAll none demoLines := by
  simp [demoLines, AdmAll, Adm, nextPq, isVaultOp, amountOf, Op.addrs, OZ.Fungible.Op.addrs, N, VAULT,
    OZ.MulDiv.in128, OZ.MulDiv.I128_MIN, OZ.MulDiv.I128_MAX]

example : traceRun ⟨1, 200000⟩ 100 0 demoLines = none :=
  monitor_accepts_every_model_trace _ _ _ _ (by
    simp [demoLines, AdmAll, Adm, nextPq, isVaultOp, amountOf, Op.addrs, OZ.Fungible.Op.addrs, N, VAULT,
      OZ.MulDiv.in128, OZ.MulDiv.I128_MIN, OZ.MulDiv.I128_MAX])

/-- a deposit that hands out one share too many (the floor is 0): reported -/
example :
    (checkCore
      { offset := 0, replay := [1, 0, 0, 0, 0],
        prev := some { zeroObs with A := 2, S := 1, sb := [1, 0, 0, 0, 0], ab := [5, 0, 0, 0, 2], asup := 7 },
        lastQ := some (1, 0, { zeroObs with q := { QA.none with pd := some (some 0) } }) }
      { kind := .vault .deposit, x := 1, a := [0, 0, 0], who := 0 }
      { zeroObs with ret := some 1, A := 3, S := 2, sb := [2, 0, 0, 0, 0], ab := [4, 0, 0, 0, 3], asup := 7,
                     evs := [.dep (some 0) (some 0) (some 0) (some 1) (some 1)], dem := [0] }).2.isSome = true := by
  decide

end OZ.Vault.Mon
