import OZ.Props.C18
import OZ.Lemmas.VerifiersMon
/-
C18 — soundness of the MONITOR that decides the property on implementation traces.

`./check C18` reports a concrete violation exactly when `OZ.Verifiers.Mon.checkCore` (the driver's
monitor on parsed values) returns a message on the implementation's answers. C18 is a property of
pure functions: a "trace" is a list of op lines, each answered independently, and the monitor has
no state. Proved here: for EVERY finite list of op lines — WebAuthn verify with any payload, key
length, client data, parser answer, authenticator data, flags and signature-oracle bit, through the
library or the example contract; Ed25519 verify; base64url encoding of ANY byte string into a
buffer of ANY length; any 256-group block — the monitor fed with the MODEL's own answer reports
nothing (`monitor_accepts_every_model_trace`). Consequences:

  * an implementation whose answers agree with the model's (the correspondence the check
    establishes by differential testing) can never raise a monitor alarm;
  * every conclusion the monitor evaluates is a THEOREM about the model in the monitor's own
    executable wording:
      wa      "accepted ⇔ `waDefect` finds no defect; never `ok false`" — the monitor's chain (own
              RFC 4648 encoder `rfc4648`, arithmetic flag tests, the oracle bits of the op line)
              is the model's acceptance condition: `webauthn_monitor_spec_eq_model_lib` / `_ex`,
              from `webauthn_accepts_iff`, `webauthn_example_accepts_iff`, `flag_bits`,
              `webauthn_never_false` of OZ/Props/C18.lean;
      ed      "accepted ⇔ the oracle bit; never `ok false`" — `ed25519_accepts_iff`, `ed25519_never_false`;
      enc     "destination buffer = rfc4648(src) ‖ untouched rest; panic iff too short" — the
              encoder MODEL equals the independent RFC 4648 §5 SPECIFICATION for every byte string
              (`base64url_eq_rfc4648`, `base64url_into_buffer`): `enc_monitor_spec_eq_model`;
      encblk  the same on 256 three-byte groups: `encblk_monitor_spec_eq_model`.

Cryptographic facts (SHA-256, P-256, Ed25519), JSON parsing and XDR decoding are ORACLES. They stay
explicit parameters: the per-call theorems (`webauthn_monitor_sound_lib`, `webauthn_monitor_sound_ex`,
`ed25519_monitor_sound`) hold for EVERY oracle behaviour `O` / `ed` and every call, provided the op
line states the oracles' answers for that call truthfully (`WaDescribes`, `sv = 1 ↔ …`); the driver's
constant oracles built from the op line (`driverOracles`, `driverEd`) are one instance
(`driver_describes`).

Not covered (string level, in the driver): `parseOp` with `ofHex`, and the `site=c18.parse` report for
a line that does not parse. Covered string-level fact: the three answer lines are read back as the
answers (`ofLine_line`); encoder lines are compared as whole lines, so nothing is read back there.

Property theorems only; helper facts come from OZ/Lemmas/VerifiersMon.lean.
-/
namespace OZ.Verifiers.Mon
open OZ.B64 OZ.Verifiers OZ.WebAuthn

/-- The structured observation of the model's answer to an op line: the driver's model side prints
`modelLine op` (`OZ.Drv.C18.evalOp`), and its monitor side reads an observation line with `readObs`
(`OZ.Drv.C18.monitor`) — the same two functions, composed. -/
def modelObs (op : Op) : Obs := readObs (modelLine op)

/-! ## WebAuthn: the monitor's chain is the model's acceptance condition, for every oracle -/

/-- the op line `w` truthfully describes the call `webauthn::verify(payload, key, sd)` under the
oracles `O`: its fields are the call's arguments and the oracles' answers for this call -/
structure WaDescribes (O : Oracles) (payload key : Bytes) (sd : SigData) (w : WaOp) : Prop where
  pl : w.pl = payload
  cd : w.cd = sd.clientData
  ad : w.ad = sd.authenticatorData
  /-- `parse= ty= ch=`: the JSON parser's answer on the client data -/
  parse : O.parse sd.clientData = if w.parseOk then some { challenge := w.ch, typeField := w.ty } else none
  /-- `sv=`: the curve oracle's answer on (key, sha256(ad ‖ sha256 cd), signature) -/
  sv : w.sv = 1 ↔ O.p256Verify key (O.sha256 (sd.authenticatorData ++ O.sha256 sd.clientData)) sd.signature = true

/-- **the monitor's arithmetic flag tests are the model's mask tests** on the flags byte of
authenticator data of at least 37 bytes -/
theorem monitor_flag_tests_eq_model (ad : Bytes) (h : 37 ≤ ad.length) :
    (∃ f, ad[32]? = some f ∧ flagSet f AUTH_DATA_FLAGS_UP = true ∧ flagSet f AUTH_DATA_FLAGS_UV = true ∧
      ¬ (flagSet f AUTH_DATA_FLAGS_BE = false ∧ flagSet f AUTH_DATA_FLAGS_BS = true)) ↔
    (flagsOf ad % 2 = 1 ∧ flagsOf ad / 4 % 2 = 1 ∧ ¬ (flagsOf ad / 8 % 2 = 0 ∧ flagsOf ad / 16 % 2 = 1)) := by
  obtain ⟨hup, huv, hbe, hbs⟩ := flag_bits (ad.getD 32 0)
  have hbe' : flagSet (ad.getD 32 0) AUTH_DATA_FLAGS_BE = false ↔ flagsOf ad / 8 % 2 = 0 := by
    unfold flagsOf
    constructor
    · intro h0
      have : ¬ (ad.getD 32 0).toNat / 8 % 2 = 1 := fun h1 => by rw [hbe.mpr h1] at h0; cases h0
      omega
    · intro h0
      cases hf : flagSet (ad.getD 32 0) AUTH_DATA_FLAGS_BE with
      | false => rfl
      | true => have := hbe.mp hf; omega
  constructor
  · rintro ⟨f, hf, h1, h2, h3⟩
    rw [flags_get ad h] at hf
    injection hf with hf
    subst hf
    exact ⟨hup.mp h1, huv.mp h2, fun ⟨a, b⟩ => h3 ⟨hbe'.mpr a, hbs.mpr b⟩⟩
  · rintro ⟨h1, h2, h3⟩
    exact ⟨_, flags_get ad h, hup.mpr h1, huv.mpr h2, fun ⟨a, b⟩ => h3 ⟨hbe'.mp a, hbs.mp b⟩⟩

/-- the conjunction the monitor evaluates after the example contract's two extra checks, on a
truthful op line, is the model's `verify = ok true` -/
theorem webauthn_monitor_conjunction_eq_model (O : Oracles) (payload key : Bytes) (sd : SigData) (w : WaOp)
    (hd : WaDescribes O payload key sd w) :
    (w.cd.length ≤ 1024 ∧ w.parseOk = true ∧ w.ty = webauthnGet ∧ w.pl.length = 32 ∧ w.ch = rfc4648 w.pl ∧
      37 ≤ w.ad.length ∧ flagsOf w.ad % 2 = 1 ∧ flagsOf w.ad / 4 % 2 = 1 ∧
      ¬ (flagsOf w.ad / 8 % 2 = 0 ∧ flagsOf w.ad / 16 % 2 = 1) ∧ w.sv = 1) ↔
    verify O payload key sd = .ok true := by
  obtain ⟨hpl, hcd, had, hparse, hsv⟩ := hd
  rw [webauthn_accepts_iff, ← hpl, ← hcd, ← had, webauthnGet_eq]
  rw [← hcd] at hparse
  rw [← hcd, ← had] at hsv
  constructor
  · rintro ⟨h1, h2, h3, h4, h5, h6, h7, h8, h9, h10⟩
    rw [h2, if_pos rfl] at hparse
    exact ⟨h1, ⟨_, hparse, h3, h5⟩, h4, h6, (monitor_flag_tests_eq_model w.ad h6).mpr ⟨h7, h8, h9⟩, hsv.mp h10⟩
  · rintro ⟨h1, ⟨j, hj, h3, h5⟩, h4, h6, hf, h10⟩
    obtain ⟨h7, h8, h9⟩ := (monitor_flag_tests_eq_model w.ad h6).mp hf
    cases hp : w.parseOk with
    | false =>
      rw [hp, hj] at hparse
      simp at hparse
    | true =>
      rw [hp, hj, if_pos rfl] at hparse
      injection hparse with hparse
      subst hparse
      exact ⟨h1, rfl, h3, h4, h5, h6, h7, h8, h9, hsv.mpr h10⟩

/-- **library verifier**: on a truthful op line the monitor finds no defect exactly when the model
accepts — for every parser / hash / curve oracle and every call -/
theorem webauthn_monitor_spec_eq_model_lib (O : Oracles) (payload key : Bytes) (sd : SigData) (w : WaOp)
    (hc : w.c = .lib) (hd : WaDescribes O payload key sd w) :
    waDefect w = none ↔ verify O payload key sd = .ok true := by
  rw [waDefect_none_iff, ← webauthn_monitor_conjunction_eq_model O payload key sd w hd]
  constructor
  · rintro ⟨-, h⟩; exact h
  · intro h; exact ⟨fun he => (by rw [hc] at he; cases he), h⟩

/-- **example verifier contract** `verify(payload, key_data, sig_data)`: `xdr=` states whether the
signature data decodes (to `sd`), `kl=` is the length of the key data, and the rest of the line
describes the inner call with the first 65 bytes of the key data -/
theorem webauthn_monitor_spec_eq_model_ex (O : Oracles) (payload keyData sigData : Bytes) (sd : SigData) (w : WaOp)
    (hc : w.c = .ex) (hkl : w.kl = keyData.length)
    (hx : O.fromXdr sigData = if w.xdr = 1 then some sd else none)
    (hd : w.xdr = 1 → WaDescribes O payload (keyData.take 65) sd w) :
    waDefect w = none ↔ exampleVerify O payload keyData sigData = .ok true := by
  rw [waDefect_none_iff, webauthn_example_accepts_iff]
  constructor
  · rintro ⟨hex, h⟩
    obtain ⟨hx1, hk⟩ := hex hc
    rw [if_pos hx1] at hx
    exact ⟨sd, hx, by omega, (webauthn_monitor_conjunction_eq_model O payload _ sd w (hd hx1)).mp h⟩
  · rintro ⟨sd', hsd, hk, hv⟩
    have hx1 : w.xdr = 1 := by
      apply Classical.not_not.mp
      intro hne
      rw [if_neg hne, hsd] at hx
      cases hx
    rw [if_pos hx1, hsd] at hx
    injection hx with hx
    subst hx
    exact ⟨fun _ => ⟨hx1, by omega⟩, (webauthn_monitor_conjunction_eq_model O payload _ sd' w (hd hx1)).mpr hv⟩

/-- **one call of the library verifier**: the monitor applied to the model's answer reports
nothing, for every oracle behaviour -/
theorem webauthn_monitor_sound_lib (O : Oracles) (payload key : Bytes) (sd : SigData) (w : WaOp)
    (hc : w.c = .lib) (hd : WaDescribes O payload key sd w) :
    verdictWa w (ansOf (verify O payload key sd)) = none :=
  verdictWa_quiet w _ (webauthn_monitor_spec_eq_model_lib O payload key sd w hc hd)
    (webauthn_never_false O payload key sd)

/-- the example contract never answers `false` either -/
theorem webauthn_example_never_false (O : Oracles) (payload keyData sigData : Bytes) :
    exampleVerify O payload keyData sigData ≠ .ok false := by
  unfold exampleVerify
  intro h
  simp only [bind_ok_iff] at h
  obtain ⟨_, _, _, _, h⟩ := h
  exact webauthn_never_false _ _ _ _ h

/-- **one call of the example verifier contract** -/
theorem webauthn_monitor_sound_ex (O : Oracles) (payload keyData sigData : Bytes) (sd : SigData) (w : WaOp)
    (hc : w.c = .ex) (hkl : w.kl = keyData.length)
    (hx : O.fromXdr sigData = if w.xdr = 1 then some sd else none)
    (hd : w.xdr = 1 → WaDescribes O payload (keyData.take 65) sd w) :
    verdictWa w (ansOf (exampleVerify O payload keyData sigData)) = none :=
  verdictWa_quiet w _ (webauthn_monitor_spec_eq_model_ex O payload keyData sigData sd w hc hkl hx hd)
    (webauthn_example_never_false O payload keyData sigData)

/-- the driver's oracles (constant functions built from the op line) with the driver's arguments
are described by the op line they were built from — whatever key is passed -/
theorem driver_describes (w : WaOp) (key : Bytes) : WaDescribes (driverOracles w) w.pl key (driverSig w) w where
  pl := rfl
  cd := rfl
  ad := rfl
  parse := rfl
  sv := by simp [driverOracles]

/-! ## Ed25519 -/

/-- **one call of the Ed25519 verifier** (library or example contract: the same function), for
every behaviour `ed` of the host verification whose answer for this call the op line states -/
theorem ed25519_monitor_sound (ed : Bytes → Bytes → Bytes → Bool) (payload key sig : Bytes) (d : EdOp)
    (hsv : d.sv = 1 ↔ ed key payload sig = true) :
    verdictEd d (ansOf (OZ.Ed25519Verifier.verify ed payload key sig)) = none :=
  verdictEd_quiet d _ (hsv.trans (OZ.Ed25519Verifier.ed25519_accepts_iff ed payload key sig).symm)
    (OZ.Ed25519Verifier.ed25519_never_false ed payload key sig)

/-! ## base64url: the encoder model equals the monitor's RFC 4648 specification -/

/-- **`enc` lines**: the line the monitor demands (computed from the RFC 4648 §5 specification
`rfc4648` alone) is the line the model prints (the coded encoder writing into a buffer of `n` bytes
0xAA) — for every byte string and every buffer length, the too-short buffers included -/
theorem enc_monitor_spec_eq_model (src : Bytes) (n : Nat) :
    encExpect src n = encLine (encodeInto (List.replicate n 0xAA) src) := by
  rw [base64url_into_buffer, List.length_replicate, ← base64url_length]
  unfold encExpect encExpectOf
  by_cases h : n < (rfc4648 src).length
  · rw [if_pos h, if_pos h]; rfl
  · rw [if_neg h, if_neg h, List.drop_replicate]; rfl

/-- **`encblk` lines**: the same for the text written for the 256 groups (a, b, 0) … (a, b, 255) -/
theorem encblk_monitor_spec_eq_model (a b : Nat) :
    encblkExpect a b = "ok " ++ toAscii (encode (blkSrc a b)) := by
  unfold encblkExpect
  rw [base64url_eq_rfc4648]

/-! ## every op line -/

/-- **one op line**: fed with the model's own answer, the monitor reports nothing -/
theorem monitor_sound_line (op : Op) (hv : op.valid) : checkCore op (modelObs op) = none := by
  cases op with
  | wa w =>
    have hv' : w.c ≠ .other := hv
    show verdictWa w (Ans.ofLine (ansLine (modelWa w))) = none
    unfold modelWa
    cases hc : w.c with
    | other => exact absurd hc hv'
    | lib =>
      show verdictWa w (Ans.ofLine (Ans.line _)) = none
      rw [ofLine_line]
      exact webauthn_monitor_sound_lib _ _ _ _ w hc (driver_describes w _)
    | ex =>
      show verdictWa w (Ans.ofLine (Ans.line _)) = none
      rw [ofLine_line]
      exact webauthn_monitor_sound_ex (driverOracles w) w.pl (driverKey w) [] (driverSig w) w hc
        (by simp [driverKey]) rfl (fun _ => driver_describes w _)
  | ed d =>
    obtain ⟨hc, hp⟩ : d.c ≠ .other ∧ d.pl ≠ none := hv
    show verdictEd d (Ans.ofLine (ansLine (modelEd d))) = none
    unfold modelEd
    cases hpl : d.pl with
    | none => exact absurd hpl hp
    | some pl =>
      cases hcc : d.c with
      | other => exact absurd hcc hc
      | lib =>
        show verdictEd d (Ans.ofLine (Ans.line _)) = none
        rw [ofLine_line]
        exact ed25519_monitor_sound (driverEd d) pl [] [] d (by simp [driverEd])
      | ex =>
        show verdictEd d (Ans.ofLine (Ans.line _)) = none
        rw [ofLine_line]
        exact ed25519_monitor_sound (driverEd d) pl [] [] d (by simp [driverEd])
  | enc src n =>
    show verdictEnc src n (encLine (encodeInto (List.replicate n 0xAA) src)) = none
    unfold verdictEnc
    rw [if_pos (enc_monitor_spec_eq_model src n).symm]
  | encblk a b =>
    show verdictEncblk a b ("ok " ++ toAscii (encode (blkSrc a b))) = none
    unfold verdictEncblk
    rw [if_pos (encblk_monitor_spec_eq_model a b).symm]

/-- the monitor run over a whole list of op lines answered by the model: first message, if any.
The monitor has no state: the driver's `minit` builds `()` from every label, and so does the model
side's `init`. -/
def monitorRun : List Op → Option String
  | [] => none
  | op :: ops =>
    match checkCore op (modelObs op) with
    | some msg => some msg
    | none => monitorRun ops

/-- **monitor soundness**: for every finite list of op lines denoting calls — WebAuthn and Ed25519
verifications through either contract with any arguments and any oracle answers, encodings of any
byte strings into buffers of any length — the monitor reports nothing on the model's answers -/
theorem monitor_accepts_every_model_trace (ops : List Op) (hv : ∀ op ∈ ops, Op.valid op) :
    monitorRun ops = none := by
  induction ops with
  | nil => rfl
  | cons op ops ih =>
    unfold monitorRun
    rw [monitor_sound_line op (hv op (List.mem_cons_self ..))]
    exact ih (fun o ho => hv o (List.mem_cons_of_mem _ ho))

/-! ### non-vacuity (tests, labelled as such): the monitor is not trivially silent -/

/-- a genuine assertion over `exPayload` as an op line (flags 0x1D, 37 bytes of authenticator data) -/
def exWa : WaOp :=
  { c := .lib, pl := exPayload, kl := 65, xdr := 1, cd := [], parseOk := true, ty := WEBAUTHN_GET,
    ch := exChallenge, ad := exAuthData, sv := 1 }

/-- it has no defect, is accepted by the model, and rejecting it is reported -/
example : waDefect exWa = none ∧ modelLine (.wa exWa) = "ok true" ∧
    checkCore (.wa exWa) (readObs "err") =
      some "site=webauthn.reject.genuine a genuine, well-formed assertion was rejected" := by
  decide

/-- the repaired defect (`legacy_accepts_long_payload_counterexample`): a 40-byte payload whose
challenge encodes the first 32 bytes, answered `ok true` as the code before the fix did -/
example : (checkCore (.wa { exWa with pl := exPayload ++ [32, 33, 34, 35, 36, 37, 38, 39] }) (readObs "ok true")).isSome = true
    ∧ waDefect { exWa with pl := exPayload ++ [32, 33, 34, 35, 36, 37, 38, 39] } = some "payload_len"
    ∧ checkCore (.wa { exWa with pl := exPayload ++ [32, 33, 34, 35, 36, 37, 38, 39] }) (readObs "err") = none := by
  decide

/-- UV cleared; BS without BE; key data of 64 bytes for the example contract; `false` as an answer -/
example : waDefect { exWa with ad := List.replicate 32 0 ++ [0x19, 0, 0, 0, 1] } = some "uv"
    ∧ waDefect { exWa with ad := List.replicate 32 0 ++ [0x15, 0, 0, 0, 1] } = some "backup_state"
    ∧ waDefect { exWa with c := .ex, kl := 64 } = some "key_data_len"
    ∧ (checkCore (.wa exWa) (readObs "ok false")).isSome = true
    ∧ (checkCore (.ed ⟨.lib, some [], 0⟩) (readObs "ok true")).isSome = true
    ∧ (checkCore (.ed ⟨.ex, some [], 1⟩) (readObs "err")).isSome = true := by
  decide

/-- the encoder: "foobar" into a buffer of 10 bytes; a wrong last character, a clobbered rest of the
buffer and a missing panic are reported -/
example : modelLine (.enc [102, 111, 111, 98, 97, 114] 10) = "ok 5a6d3976596d4679aaaa"
    ∧ checkCore (.enc [102, 111, 111, 98, 97, 114] 10) (readObs "ok 5a6d3976596d4679aaaa") = none
    ∧ (checkCore (.enc [102, 111, 111, 98, 97, 114] 10) (readObs "ok 5a6d3976596d4678aaaa")).isSome = true
    ∧ (checkCore (.enc [102, 111, 111, 98, 97, 114] 10) (readObs "ok 5a6d3976596d467900aa")).isSome = true
    ∧ modelLine (.enc [102, 111, 111, 98, 97, 114] 7) = "panic"
    ∧ (checkCore (.enc [102, 111, 111, 98, 97, 114] 7) (readObs "ok 5a6d3976596d46")).isSome = true := by
  decide

/-- the validity hypothesis is needed: a `wa` line with `c=` neither `lib` nor `ex` is not an op line
of the protocol — the model side prints `bad-op` for it (and no harness writes it), while the monitor
reads it as a library call -/
example : ¬ Op.valid (.wa { exWa with c := .other }) ∧ modelLine (.wa { exWa with c := .other }) = "bad-op"
    ∧ (checkCore (.wa { exWa with c := .other }) (modelObs (.wa { exWa with c := .other }))).isSome = true :=
  ⟨fun h => h rfl, by decide, by decide⟩

end OZ.Verifiers.Mon
