import OZ.Lemmas.PoliciesMonChecks
/-
C14 — soundness of the MONITOR that decides the property on implementation traces.

`./check C14` reports a concrete violation exactly when `OZ.Policies.Mon.checkCore` (the
driver's monitor on parsed values, OZ/Model/PoliciesMon.lean) returns a message on the
implementation's observations. Here it is proved that on the observations of the MODEL the
monitor never returns a message: for every start ledger (also ledger 0) and every finite
sequence of well-formed `>` lines — calls of the sixteen entry points with any thresholds,
weight pairs, signer lists, contexts, amounts, limits, periods and authorizing subsets, ledger
moves `pol adv` and long idle periods `pol idle` of any length
(`monitor_accepts_every_model_trace`). Consequences:

  * an implementation whose observations agree with the model's (the correspondence the check
    establishes by differential testing) can never raise a monitor alarm — a monitor failure is
    never a false alarm of the monitor itself;
  * every conclusion the monitor evaluates (simple / weighted policy accept and answer
    can_enforce exactly by the count / weight rule of the reported configuration; can_enforce
    never traps on a duplicate-free signer list; no stored threshold is 0, unreachable or
    overflowing, at every change and in every observed state; cached total = Σ history, history
    sorted, not from the future, ≤ 1000 entries, limit and period positive; the accepted amounts
    of a key with ledger in (now − period, now] never exceed the limit in force at an accepted
    spend — across limit changes and ledger gaps; only well-formed transfers with a signer are
    accepted; can_enforce asked immediately before an enforce agrees with it; every accepted
    change was authorized by the account, which is the authorization demanded; a rejected call
    and a query change nothing and emit nothing; ledger moves change nothing) is a THEOREM about
    the model, in the monitor's own executable wording.

What the statement ranges over: `>` lines are the parsed values (`Line`) exactly as the driver
hands them to the model (`mstep`) and to the monitor (`Line.mop`). `Valid` = the call names a
key of the observed universe (account < NA, rule id < NR: the observation line carries exactly
these keys) and the three readings of its context word agree (the model gets `ctx`; the monitor
reads "announces a transfer" and "its amount" off the same word: `t:<amt>` / `x:<amt>` are the
transfers, nothing else is). The model's observation is `modelObs` (OZ/Lemmas/PoliciesMon.lean):
field by field what the driver's `line` prints (`showS/W/L`, `stateStr`) and `parseObs` reads back.
NOT covered (string level, trusted): `parseOp`, `parseCtx`, `parseKind`, `parseObs`, `line` and
the two `site=policy.parse` alarms of the driver.

Property theorems only; helpers are in OZ/Lemmas/PoliciesMon.lean (observation, look-ups, weights),
OZ/Lemmas/PoliciesMonInv.lean (invariant with the ghost log) and OZ/Lemmas/PoliciesMonChecks.lean
(one lemma per check).
-/
namespace OZ.Policies.Mon
open OZ.Host OZ.Policies

/-- a well-formed `>` line -/
def Line.Valid : Line → Prop
  | .call p => Mon.Valid p
  | _ => True

/-- **one call**: fed with the model's own observation of any well-formed call (accepted,
rejected or a query), the monitor reports nothing and its state keeps describing the model's -/
theorem monitor_sound_call {mon : Mon} {m : M} (hA : Agree mon m) (p : POp) (hv : Mon.Valid p) :
    (checkCore mon (.call p) (modelObs (mstepCall m p).1 (mstepCall m p).2)).2 = none ∧
    Agree (checkCore mon (.call p) (modelObs (mstepCall m p).1 (mstepCall m p).2)).1 (mstepCall m p).1 := by
  have F := mstepCall_facts m p
  generalize modelObs (mstepCall m p).1 (mstepCall m p).2 = o at F
  generalize (mstepCall m p).1 = m' at F
  obtain ⟨hlog, hwin⟩ := call_log hA hv F
  constructor
  · show callVerdict mon p o = none
    have hinv' : Inv m' (monStep mon p o).log := hlog
    unfold callVerdict
    rw [stateChecks_quiet hinv' F.state F.now, chkRollback_quiet hA F, chkRollbackEvent_quiet F, chkAuth_quiet F,
      chkAuthDemand_quiet F, chkRule_quiet hA hv F, chkTrap_quiet hA.inv F, chkSimpleConfig_quiet F,
      chkSimpleReinstall_quiet hA hv F, chkWeightedInstall_quiet F, chkWeightedReinstall_quiet hA hv F,
      chkWeightedSetThr_quiet hA hv F, chkSpendLimit_quiet F, chkSpendInstall_quiet hA hv F,
      chkSpendCtx_quiet hA hv F, chkSpendCanCtx_quiet hA hv F, hwin, chkAgree_quiet hA F]
    rfl
  · show Agree (monStep mon p o) m'
    refine ⟨hlog, fun _ => F.state, ?_⟩
    intro k ans hl
    have hl' : (if p.kind.isCan then some (canKeyOf p, o.res) else none) = some (k, ans) := hl
    cases hc : p.kind.isCan with
    | false => rw [hc] at hl'; cases hl'
    | true =>
      rw [hc, if_pos rfl] at hl'
      injection hl' with hl'
      injection hl' with h1 h2
      subst h1; subst h2
      rw [(F.quiet (.inr hc)).1]
      exact ((F.can hc).1).trans (canM_true_iff m p)

/-- **one `>` line** (a call, a ledger move, a long idle period) -/
theorem monitor_sound_step {mon : Mon} {m : M} (hA : Agree mon m) (l : Line) (hv : l.Valid) :
    (checkCore mon l.mop (modelObs (mstep m l).1 (mstep m l).2)).2 = none ∧
    Agree (checkCore mon l.mop (modelObs (mstep m l).1 (mstep m l).2)).1 (mstep m l).1 := by
  cases l with
  | call p => exact monitor_sound_call hA p hv
  | idle k =>
    have hi := advance_inv hA.inv k
    have hs : StateOf (advance m k) (modelObs (advance m k) ⟨"ok", "-", "-", "-"⟩) := modelObs_stateOf _ _
    constructor
    · show idleVerdict (prevOf mon _) (modelObs (advance m k) ⟨"ok", "-", "-", "-"⟩) = none
      unfold idleVerdict
      rw [if_neg (by rw [(hA.prev _).str, hs.str]; exact fun h => h rfl)]
      exact stateChecks_quiet hi hs rfl
    · exact ⟨hi, fun _ => hs, fun k ans h => by cases h⟩
  | adv k =>
    have hi := advance_inv hA.inv k
    have hs : StateOf (advance m k) (modelObs (advance m k) ⟨"ok", "-", "-", "-"⟩) := modelObs_stateOf _ _
    constructor
    · show advVerdict (prevOf mon _) (modelObs (advance m k) ⟨"ok", "-", "-", "-"⟩) = none
      unfold advVerdict
      rw [if_neg (by rw [(hA.prev _).str, hs.str]; exact fun h => h rfl)]
      exact stateChecks_quiet hi hs rfl
    · exact ⟨hi, fun _ => hs, fun k ans h => by cases h⟩

/-- the monitor run over a whole history of model observations: first message, if any -/
def monitorRun : Mon → M → List Line → Option String
  | _, _, [] => none
  | mon, m, l :: ls =>
    match (checkCore mon l.mop (modelObs (mstep m l).1 (mstep m l).2)).2 with
    | some msg => some msg
    | none => monitorRun (checkCore mon l.mop (modelObs (mstep m l).1 (mstep m l).2)).1 (mstep m l).1 ls

/-- **monitor soundness**: for every start ledger (the only parameter of a sequence label the
driver reads; `monInit` is what its `minit` builds for every label, `M.init start` what its `init`
builds) and every finite history of well-formed `>` lines — any entry points, thresholds, weight
maps, signer lists, contexts, amounts, limits, periods, authorizing subsets, any number of calls
per ledger, any ledger movement — the monitor reports nothing on the model's observations -/
theorem monitor_accepts_every_model_trace (start : Nat) (ls : List Line) (hv : ∀ l ∈ ls, l.Valid) :
    monitorRun monInit (M.init start) ls = none := by
  suffices ∀ mon m, Agree mon m → monitorRun mon m ls = none from this _ _ (init_agree start)
  induction ls with
  | nil => intro mon m _; rfl
  | cons l ls ih =>
    intro mon m hA
    obtain ⟨h1, h2⟩ := monitor_sound_step hA l (hv l List.mem_cons_self)
    unfold monitorRun
    rw [h1]
    exact ih (fun y hy => hv y (List.mem_cons_of_mem _ hy)) _ _ h2

/-! ### a finding about the monitor: one false alarm of the OLD monitor, at ledger 0

Until this work the window check summed ALL logged spends of the key with ledger later than
`now − period`. The property speaks about ledgers ≥ 1 for a reason: `cutoff = now.saturating_sub(period)`
is 0 while `now ≤ period`, and the code evicts entries with `ledger ≤ cutoff`, so a spend made AT
ledger 0 is evicted by the next enforce, whatever the window. The model (like the code) then
grants the allowance again, and the old check counted the ledger-0 spend against it: a false alarm
on a model trace — of a sequence started at ledger 0, which no harness sequence is (the check
already skipped spends MADE at ledger 0, but not later spends whose window reaches back to it).
The check now leaves spends of ledger 0 out of the sum (`windowSum`), i.e. it demands exactly
what the property states; on every trace without a spend at ledger 0 it is the same check. -/

/-- the old wording of the window sum and of the check -/
def windowSumOld (log : List Spent) (e : Spent) : Int :=
  isum ((log.filter (fun x => x.a = e.a ∧ x.r = e.r ∧ e.ledger < x.ledger + e.period)).map (·.amount))

def chkWindowOld (entry : Option Spent) (log2 : List Spent) : Option String :=
  match entry with
  | some e =>
    if e.ledger ≥ 1 ∧ windowSumOld log2 e > e.limit then
      some s!"site=policy.spend.window accepted amounts in ({e.ledger}-{e.period}, {e.ledger}] sum to {windowSumOld log2 e} > limit {e.limit}"
    else none
  | none => none

def alarmInstall : POp :=
  { kind := .lInstall, a := 0, r := 0, rs := [0, 1], thr := 0, w := [], sgn := 0, wt := 0, lim := 10, per := 5,
    ctxS := "o:approve", ctx := .otherCall, isTransfer := false, amount := 0, sg := [], auth := [0] }

def alarmSpend : POp :=
  { kind := .lEnforce, a := 0, r := 0, rs := [0, 1], thr := 0, w := [], sgn := 0, wt := 0, lim := 0, per := 0,
    ctxS := "t:10", ctx := .transfer 10, isTransfer := true, amount := 10, sg := [1], auth := [0] }

/-- limit 10 per 5 ledgers installed at ledger 0; 10 spent at ledger 0; 10 spent again at ledger 3 -/
def alarmTrace : List Line := [.call alarmInstall, .call alarmSpend, .adv 3, .call alarmSpend]

/-- model and monitor after a history (the monitor fed with the model's observations) -/
def runBoth : Mon → M → List Line → Mon × M
  | mon, m, [] => (mon, m)
  | mon, m, l :: ls => runBoth (checkCore mon l.mop (modelObs (mstep m l).1 (mstep m l).2)).1 (mstep m l).1 ls

theorem alarmTrace_valid : ∀ l ∈ alarmTrace, l.Valid := by
  have h1 : Mon.Valid alarmInstall :=
    ⟨by decide, by decide, ⟨fun h => (by cases h), fun ⟨_, h⟩ => (by cases h)⟩, fun _ h => (by cases h)⟩
  have h2 : Mon.Valid alarmSpend :=
    ⟨by decide, by decide, ⟨fun _ => ⟨10, rfl⟩, fun _ => rfl⟩, fun _ h => by cases h; rfl⟩
  intro l hl
  simp only [alarmTrace, List.mem_cons, List.mem_nil_iff, or_false] at hl
  rcases hl with rfl | rfl | rfl | rfl
  · exact h1
  · exact h2
  · trivial
  · exact h2

/-- on this model trace (started at ledger 0) the model accepts the second spend, the old window
check reports it, the new one does not -/
theorem old_monitor_false_alarm :
    (∀ l ∈ alarmTrace, l.Valid) ∧
    (modelObs (mstepCall (runBoth monInit (M.init 0) (alarmTrace.take 3)).2 alarmSpend).1
      (mstepCall (runBoth monInit (M.init 0) (alarmTrace.take 3)).2 alarmSpend).2).ok = true ∧
    (monStep (runBoth monInit (M.init 0) (alarmTrace.take 3)).1 alarmSpend
      (modelObs (mstepCall (runBoth monInit (M.init 0) (alarmTrace.take 3)).2 alarmSpend).1
        (mstepCall (runBoth monInit (M.init 0) (alarmTrace.take 3)).2 alarmSpend).2)).log
      = [⟨0, 0, 10, 3, 10, 5⟩, ⟨0, 0, 10, 0, 10, 5⟩] ∧
    (chkWindowOld (some ⟨0, 0, 10, 3, 10, 5⟩) [⟨0, 0, 10, 3, 10, 5⟩, ⟨0, 0, 10, 0, 10, 5⟩]).isSome = true ∧
    chkWindow (some ⟨0, 0, 10, 3, 10, 5⟩) [⟨0, 0, 10, 3, 10, 5⟩, ⟨0, 0, 10, 0, 10, 5⟩] = none ∧
    monitorRun monInit (M.init 0) alarmTrace = none := by
  refine ⟨alarmTrace_valid, by decide, by decide, ?_, ?_, monitor_accepts_every_model_trace 0 _ alarmTrace_valid⟩
  · have : windowSumOld [⟨0, 0, 10, 3, 10, 5⟩, ⟨0, 0, 10, 0, 10, 5⟩] ⟨0, 0, 10, 3, 10, 5⟩ = 20 := by decide
    unfold chkWindowOld
    simp only [this]
    decide
  · have : windowSum [⟨0, 0, 10, 3, 10, 5⟩, ⟨0, 0, 10, 0, 10, 5⟩] ⟨0, 0, 10, 3, 10, 5⟩ = 10 := by decide
    unfold chkWindow
    simp only [this]
    decide

/-- without a spend at ledger 0 in the log the old and the new window check are the same check -/
theorem chkWindow_eq_old (entry : Option Spent) (log : List Spent) (h : ∀ x ∈ log, 1 ≤ x.ledger) :
    chkWindow entry log = chkWindowOld entry log := by
  have hs : ∀ e, windowSum log e = windowSumOld log e := by
    intro e
    unfold windowSum windowSumOld
    congr 2
    apply List.filter_congr
    intro x hx
    have := h x hx
    simp [this]
  cases entry with
  | none => rfl
  | some e =>
    unfold chkWindow chkWindowOld
    simp only [hs]

/-- the universe assumption of `Valid` is needed: the observation carries the keys with account
< NA only, so the monitor cannot see an installation of account 2 and would call its accepted
spend "no installation" -/
def outsideInstall : POp := { alarmInstall with a := 2, auth := [2] }
def outsideSpend : POp := { alarmSpend with a := 2, auth := [2] }

example :
    (modelObs (mstepCall (mstepCall (M.init 5) outsideInstall).1 outsideSpend).1
      (mstepCall (mstepCall (M.init 5) outsideInstall).1 outsideSpend).2).ok = true ∧
    (modelObs (mstepCall (mstepCall (M.init 5) outsideInstall).1 outsideSpend).1
      (mstepCall (mstepCall (M.init 5) outsideInstall).1 outsideSpend).2).L = [] := by decide

/-! ### non-vacuity (tests, labelled as such): the monitor is not trivially silent -/

/-- a well-formed history: install 2-of-3, a query, an enforce with one signer (rejected), an
enforce with two (accepted), a spending limit with spends at the window edge -/
def demoS (k : Kind) (sg auth : List Nat) : POp :=
  { kind := k, a := 1, r := 0, rs := [0, 1, 2], thr := 2, w := [], sgn := 0, wt := 0, lim := 0, per := 0,
    ctxS := "o:approve", ctx := .otherCall, isTransfer := false, amount := 0, sg := sg, auth := auth }

def demoL (k : Kind) (amt : Int) : POp :=
  { kind := k, a := 0, r := 1, rs := [0], thr := 0, w := [], sgn := 0, wt := 0, lim := 100, per := 10,
    ctxS := "t", ctx := .transfer amt, isTransfer := true, amount := amt, sg := [1], auth := [0] }

def demoTrace : List Line :=
  [.call (demoS .sInstall [] [1]), .call (demoS .sCan [0] []), .call (demoS .sEnforce [0] [1]),
   .call (demoS .sEnforce [0, 2] [1]), .call (demoL .lInstall 0), .call (demoL .lEnforce 60),
   .call (demoL .lEnforce 40), .adv 9, .call (demoL .lCan 1), .call (demoL .lEnforce 1), .idle 1,
   .call (demoL .lEnforce 100)]

def outcomes (m : M) : List Line → List String
  | [] => []
  | l :: ls => (mstep m l).2.tag :: outcomes (mstep m l).1 ls

example : outcomes (M.init 100) demoTrace =
    ["ok", "no", "err", "ok", "ok", "ok", "ok", "ok", "no", "err", "ok", "ok"] := by decide

example : ∀ l ∈ demoTrace, l.Valid := by
  have hS : ∀ k sg auth, Mon.Valid (demoS k sg auth) := fun k sg auth =>
    ⟨show (1 : Nat) < 2 by decide, show (0 : Nat) < 2 by decide, ⟨fun h => (by cases h), fun ⟨_, h⟩ => (by cases h)⟩, fun _ h => (by cases h)⟩
  have hL : ∀ k amt, Mon.Valid (demoL k amt) := fun k amt =>
    ⟨show (0 : Nat) < 2 by decide, show (1 : Nat) < 2 by decide, ⟨fun _ => ⟨amt, rfl⟩, fun _ => rfl⟩, fun _ h => by cases h; rfl⟩
  intro l hl
  simp only [demoTrace, List.mem_cons, List.mem_nil_iff, or_false] at hl
  rcases hl with rfl | rfl | rfl | rfl | rfl | rfl | rfl | rfl | rfl | rfl | rfl | rfl <;>
    first | exact hS _ _ _ | exact hL _ _ | trivial

/-- threshold 2 reported, enforce with ONE signer accepted: the monitor fires (`policy.s.enforce`) -/
def badPrev : Obs :=
  { ok := true, res := "-", S := [(1, 0, 2)], W := [], L := [], now := 100, ev := "-", dem := "1",
    stateStr := "S=1:0:2 W=- L=-" }

example : (checkCore { prev := some badPrev, lastCan := none, log := [] } (.call (demoS .sEnforce [0] [1]))
    { badPrev with ev := "S:1:0:1" }).2.isSome = true := by decide

/-- 60 + 41 accepted inside one window under limit 100: the monitor fires (`policy.spend.window`) -/
def badPrevL : Obs :=
  { ok := true, res := "-", S := [], W := [], L := [⟨0, 1, 100, 10, 60, [(60, 100)]⟩], now := 100, ev := "-",
    dem := "0", stateStr := "S=- W=- L=0:1:100:10:60:60@100" }

def badObsL : Obs :=
  { ok := true, res := "-", S := [], W := [], L := [⟨0, 1, 100, 10, 101, [(60, 100), (41, 100)]⟩], now := 100,
    ev := "L:0:1:41:101", dem := "0", stateStr := "S=- W=- L=0:1:100:10:101:60@100,41@100" }

example : (checkCore { prev := some badPrevL, lastCan := none, log := [⟨0, 1, 60, 100, 100, 10⟩] }
    (.call (demoL .lEnforce 41)) badObsL).2.isSome = true := by decide

end OZ.Policies.Mon
