import OZ.Lemmas.Merkle
/-
C17 — Merkle proofs verify only true membership and each leaf is claimed once.

Property theorems only (helper lemmas: OZ/Lemmas/Merkle.lean). `o : Ops α` packs the pair
hash `hp` and the comparison `gt`; everything is proved for EVERY hash function.

* completeness (any hash, any tree shape): every leaf with its extracted proof verifies, in
  the sorted-pair form and in the positional form with the leaf's index;
* soundness relative to collision resistance (any hash): two different accepted
  (leaf, proof) of equal length for the same root (and index) exhibit an explicit collision
  of the pair hash — on 64-byte inputs in the byte instance —, in the sorted form up to the
  node/sibling exchange that is inherent to sorted-pair trees;
* in the free-hash (symbolic) model, where the pair hash is a constructor: exactly the honest
  (leaf, proof[, index]) are accepted — so a non-member, every other proof (altered,
  reordered, truncated, extended), a wrong index and another root are all rejected;
* the distributor: an index is marked only by a claim that verified against the current
  root, stays marked forever, every further claim for it is refused, a failed claim marks
  nothing, a root change keeps the claims.
-/
namespace OZ.Merkle
variable {α : Type}

/-! ### completeness -/

/-- every leaf of every tree has a path, hence an extracted proof -/
theorem every_leaf_has_proof (comb : α → α → α) (t : Tree α) (v : α) (h : v ∈ t.leaves) :
    ∃ p π, t.proofWith comb p = some (v, π) :=
  mem_leaves_has_proof comb t v h

/-- **sorted-pair form**: every leaf of every tree (any shape) with the proof extracted for it
verifies against the tree's root — for any pair hash, and any comparison that orders two
different values one way round -/
theorem complete [DecidableEq α] (o : Ops α) (hgt : TotalGt o) (t : Tree α) (p : List Bool) (v : α)
    (π : List α) (h : t.proofWith (chp o) p = some (v, π)) : verify o π (t.rootS o) v = true := by
  unfold verify
  rw [foldSorted_proof o hgt t p v π h]
  simp

/-- the byte instance (`BytesN<32>` compared lexicographically) for any hash function `H` -/
theorem complete_bytes (H : List UInt8 → List UInt8) (t : Tree (List UInt8)) (p : List Bool)
    (v : List UInt8) (π : List (List UInt8))
    (h : t.proofWith (chp (bytesOps H)) p = some (v, π)) :
    verify (bytesOps H) π (t.rootS (bytesOps H)) v = true :=
  complete (bytesOps H) (bytesOps_total H) t p v π h

/-- **positional form**: every leaf of every tree of depth < 32 with its extracted proof and
the index of its path verifies — for any pair hash -/
theorem complete_indexed [DecidableEq α] (o : Ops α) (t : Tree α) (p : List Bool) (v : α) (π : List α)
    (h : t.proofWith o.hp p = some (v, π)) (hdepth : p.length < 32) :
    verifyWithIndex o π (t.rootI o) v (indexOf p) = .ok true := by
  have hl := proofWith_length _ _ _ _ _ h
  unfold verifyWithIndex
  rw [if_neg (by omega), if_neg (by rw [hl]; have := indexOf_lt p; omega), foldIndexed_proof o t p v π h]
  simp

/-! ### soundness relative to collision resistance -/

/-- **positional form**: two different (leaf, proof) of equal length accepted for the same
root and index yield an explicit collision of the pair hash (among values satisfying any
invariant `P` of the inputs that the hash preserves) -/
theorem sound_indexed [DecidableEq α] (o : Ops α) (P : α → Prop) (hP : ∀ a b, P a → P b → P (o.hp a b))
    (root : α) (i : Nat) (v₁ v₂ : α) (π₁ π₂ : List α)
    (hv₁ : P v₁) (hv₂ : P v₂) (hπ₁ : ∀ x ∈ π₁, P x) (hπ₂ : ∀ x ∈ π₂, P x)
    (hlen : π₁.length = π₂.length) (hne : (v₁, π₁) ≠ (v₂, π₂))
    (h₁ : verifyWithIndex o π₁ root v₁ i = .ok true) (h₂ : verifyWithIndex o π₂ root v₂ i = .ok true) :
    Collision o P := by
  unfold verifyWithIndex at h₁ h₂
  split at h₁; · cases h₁
  split at h₁; · cases h₁
  split at h₂; · cases h₂
  split at h₂; · cases h₂
  injection h₁ with h₁; injection h₂ with h₂
  have e₁ := of_decide_eq_true h₁
  have e₂ := of_decide_eq_true h₂
  exact sound_indexed_aux o P hP π₁ π₂ hlen v₁ v₂ i hv₁ hv₂ hπ₁ hπ₂ hne (e₁.trans e₂.symm)

/-- **sorted-pair form**: likewise, up to the node/sibling exchange inherent to sorted pairs -/
theorem sound_sorted [DecidableEq α] (o : Ops α) (P : α → Prop) (hP : ∀ a b, P a → P b → P (o.hp a b))
    (root : α) (v₁ v₂ : α) (π₁ π₂ : List α)
    (hv₁ : P v₁) (hv₂ : P v₂) (hπ₁ : ∀ x ∈ π₁, P x) (hπ₂ : ∀ x ∈ π₂, P x)
    (hlen : π₁.length = π₂.length) (hne : (v₁, π₁) ≠ (v₂, π₂))
    (h₁ : verify o π₁ root v₁ = true) (h₂ : verify o π₂ root v₂ = true) :
    Collision o P ∨ Exchange o v₁ π₁ v₂ π₂ := by
  unfold verify at h₁ h₂
  have e₁ := of_decide_eq_true h₁
  have e₂ := of_decide_eq_true h₂
  exact sound_sorted_aux o P hP π₁ π₂ hlen v₁ v₂ hv₁ hv₂ hπ₁ hπ₂ hne (e₁.trans e₂.symm)

/-- in the byte instance with a 32-byte hash, a collision of the pair hash among 32-byte
nodes is a collision of `H` on two different 64-byte inputs -/
theorem collision_bytes (H : List UInt8 → List UInt8)
    (h : Collision (bytesOps H) (fun x => x.length = 32)) :
    ∃ x y : List UInt8, x.length = 64 ∧ y.length = 64 ∧ x ≠ y ∧ H x = H y := by
  obtain ⟨a, b, c, d, ha, hb, hc, hd, hne, heq⟩ := h
  refine ⟨a ++ b, c ++ d, by simp [ha, hb], by simp [hc, hd], ?_, heq⟩
  intro e
  have := List.append_inj e (by rw [ha, hc])
  exact hne (by rw [this.1, this.2])

/-- **positional form, bytes**: for any `H` with 32-byte output, two different accepted
(leaf, proof) of 32-byte values give two different 64-byte inputs with the same hash -/
theorem sound_indexed_bytes (H : List UInt8 → List UInt8) (hH : ∀ x, (H x).length = 32)
    (root : List UInt8) (i : Nat) (v₁ v₂ : List UInt8) (π₁ π₂ : List (List UInt8))
    (hv₁ : v₁.length = 32) (hv₂ : v₂.length = 32)
    (hπ₁ : ∀ x ∈ π₁, x.length = 32) (hπ₂ : ∀ x ∈ π₂, x.length = 32)
    (hlen : π₁.length = π₂.length) (hne : (v₁, π₁) ≠ (v₂, π₂))
    (h₁ : verifyWithIndex (bytesOps H) π₁ root v₁ i = .ok true)
    (h₂ : verifyWithIndex (bytesOps H) π₂ root v₂ i = .ok true) :
    ∃ x y : List UInt8, x.length = 64 ∧ y.length = 64 ∧ x ≠ y ∧ H x = H y :=
  collision_bytes H (sound_indexed (bytesOps H) (fun x => x.length = 32) (fun a b _ _ => hH (a ++ b))
    root i v₁ v₂ π₁ π₂ hv₁ hv₂ hπ₁ hπ₂ hlen hne h₁ h₂)

theorem sound_sorted_bytes (H : List UInt8 → List UInt8) (hH : ∀ x, (H x).length = 32)
    (root : List UInt8) (v₁ v₂ : List UInt8) (π₁ π₂ : List (List UInt8))
    (hv₁ : v₁.length = 32) (hv₂ : v₂.length = 32)
    (hπ₁ : ∀ x ∈ π₁, x.length = 32) (hπ₂ : ∀ x ∈ π₂, x.length = 32)
    (hlen : π₁.length = π₂.length) (hne : (v₁, π₁) ≠ (v₂, π₂))
    (h₁ : verify (bytesOps H) π₁ root v₁ = true) (h₂ : verify (bytesOps H) π₂ root v₂ = true) :
    (∃ x y : List UInt8, x.length = 64 ∧ y.length = 64 ∧ x ≠ y ∧ H x = H y) ∨
      Exchange (bytesOps H) v₁ π₁ v₂ π₂ := by
  rcases sound_sorted (bytesOps H) (fun x => x.length = 32) (fun a b _ _ => hH (a ++ b))
    root v₁ v₂ π₁ π₂ hv₁ hv₂ hπ₁ hπ₂ hlen hne h₁ h₂ with h | h
  · exact Or.inl (collision_bytes H h)
  · exact Or.inr h

/-- another root is rejected: an honest (leaf, proof) verifies against the tree's root only -/
theorem reject_other_root [DecidableEq α] (o : Ops α) (hgt : TotalGt o) (t : Tree α) (p : List Bool) (v : α)
    (π : List α) (h : t.proofWith (chp o) p = some (v, π)) (root' : α) (hne : root' ≠ t.rootS o) :
    verify o π root' v = false := by
  unfold verify
  rw [foldSorted_proof o hgt t p v π h]
  simp [Ne.symm hne]

theorem reject_other_root_indexed [DecidableEq α] (o : Ops α) (t : Tree α) (p : List Bool) (v : α)
    (π : List α) (h : t.proofWith o.hp p = some (v, π)) (root' : α) (hne : root' ≠ t.rootI o) :
    verifyWithIndex o π root' v (indexOf p) ≠ .ok true := by
  unfold verifyWithIndex
  split; · intro e; cases e
  split; · intro e; cases e
  rw [foldIndexed_proof o t p v π h]
  intro e; injection e with e
  exact hne (of_decide_eq_true e).symm

/-! ### the free-hash (symbolic) model: only honest (leaf, proof[, index]) are accepted -/

/-- sorted form: accepted ⇔ honest, in a tree whose leaves are atoms -/
theorem sym_accept_iff_honest (gt : HTerm → HTerm → Bool) (hgt : TotalGt (freeOps gt)) (t : Tree HTerm)
    (hat : AtomLeaves t) (n : Nat) (π : List HTerm) :
    verify (freeOps gt) π (t.rootS (freeOps gt)) (HTerm.atom n) = true ↔
      ∃ p, t.proofWith (chp (freeOps gt)) p = some (HTerm.atom n, π) := by
  constructor
  · intro h
    exact sym_sorted_honest gt t hat n π (of_decide_eq_true h)
  · rintro ⟨p, hp⟩
    exact complete (freeOps gt) hgt t p _ π hp

/-- a value that is not in the tree is rejected with every proof -/
theorem reject_non_member (gt : HTerm → HTerm → Bool) (t : Tree HTerm) (hat : AtomLeaves t) (n : Nat)
    (hn : HTerm.atom n ∉ t.leaves) (π : List HTerm) :
    verify (freeOps gt) π (t.rootS (freeOps gt)) (HTerm.atom n) = false := by
  cases hv : verify (freeOps gt) π (t.rootS (freeOps gt)) (HTerm.atom n) with
  | false => rfl
  | true =>
    obtain ⟨p, hp⟩ := sym_sorted_honest gt t hat n π (of_decide_eq_true hv)
    exact absurd (proofWith_mem _ _ _ _ _ hp) hn

/-- with pairwise different leaves, EVERY proof other than the honest one is rejected —
whether altered, reordered, truncated or extended -/
theorem reject_other_proof (gt : HTerm → HTerm → Bool) (t : Tree HTerm) (hat : AtomLeaves t)
    (hnd : t.leaves.Nodup) (p : List Bool) (n : Nat) (π π' : List HTerm)
    (h : t.proofWith (chp (freeOps gt)) p = some (HTerm.atom n, π)) (hne : π' ≠ π) :
    verify (freeOps gt) π' (t.rootS (freeOps gt)) (HTerm.atom n) = false := by
  cases hv : verify (freeOps gt) π' (t.rootS (freeOps gt)) (HTerm.atom n) with
  | false => rfl
  | true =>
    obtain ⟨p', hp'⟩ := sym_sorted_honest gt t hat n π' (of_decide_eq_true hv)
    exact absurd (proofWith_unique _ t hnd p' p _ π' π hp' h).2 hne

theorem reject_altered_proof (gt : HTerm → HTerm → Bool) (t : Tree HTerm) (hat : AtomLeaves t)
    (hnd : t.leaves.Nodup) (p : List Bool) (n : Nat) (π : List HTerm)
    (h : t.proofWith (chp (freeOps gt)) p = some (HTerm.atom n, π))
    (k : Nat) (hk : k < π.length) (x : HTerm) (hx : x ≠ π[k]) :
    verify (freeOps gt) (π.set k x) (t.rootS (freeOps gt)) (HTerm.atom n) = false := by
  apply reject_other_proof gt t hat hnd p n π _ h
  intro e
  have : (π.set k x)[k]'(by simp [hk]) = π[k] := by simp [e]
  simp at this
  exact hx this

theorem reject_truncated_proof (gt : HTerm → HTerm → Bool) (t : Tree HTerm) (hat : AtomLeaves t)
    (hnd : t.leaves.Nodup) (p : List Bool) (n : Nat) (π : List HTerm)
    (h : t.proofWith (chp (freeOps gt)) p = some (HTerm.atom n, π)) (k : Nat) (hk : k < π.length) :
    verify (freeOps gt) (π.take k) (t.rootS (freeOps gt)) (HTerm.atom n) = false := by
  apply reject_other_proof gt t hat hnd p n π _ h
  intro e
  have := congrArg List.length e
  simp at this; omega

theorem reject_extended_proof (gt : HTerm → HTerm → Bool) (t : Tree HTerm) (hat : AtomLeaves t)
    (hnd : t.leaves.Nodup) (p : List Bool) (n : Nat) (π extra : List HTerm)
    (h : t.proofWith (chp (freeOps gt)) p = some (HTerm.atom n, π)) (hex : extra ≠ []) :
    verify (freeOps gt) (π ++ extra) (t.rootS (freeOps gt)) (HTerm.atom n) = false := by
  apply reject_other_proof gt t hat hnd p n π _ h
  intro e
  have := congrArg List.length e
  simp at this
  exact hex this

/-- positional form: accepted ⇒ honest proof at the path with exactly that index -/
theorem sym_indexed_accept_honest (gt : HTerm → HTerm → Bool) (t : Tree HTerm) (hat : AtomLeaves t) (n : Nat)
    (π : List HTerm) (i : Nat)
    (h : verifyWithIndex (freeOps gt) π (t.rootI (freeOps gt)) (HTerm.atom n) i = .ok true) :
    ∃ p, t.proofWith (freeOps gt).hp p = some (HTerm.atom n, π) ∧ i = indexOf p := by
  unfold verifyWithIndex at h
  split at h; · cases h
  split at h; · cases h
  next h1 h2 =>
  injection h with h
  exact sym_indexed_honest gt t hat n π i (by omega) (of_decide_eq_true h)

/-- a wrong index is rejected (returns false or fails) -/
theorem reject_wrong_index (gt : HTerm → HTerm → Bool) (t : Tree HTerm) (hat : AtomLeaves t)
    (hnd : t.leaves.Nodup) (p : List Bool) (n : Nat) (π : List HTerm)
    (h : t.proofWith (freeOps gt).hp p = some (HTerm.atom n, π)) (i : Nat) (hi : i ≠ indexOf p) :
    verifyWithIndex (freeOps gt) π (t.rootI (freeOps gt)) (HTerm.atom n) i ≠ .ok true := by
  intro hv
  obtain ⟨p', hp', hidx⟩ := sym_indexed_accept_honest gt t hat n π i hv
  have := (proofWith_unique _ t hnd p' p _ π π hp' h).1
  subst this
  exact hi hidx

/-- positional form: a non-member and every other proof are rejected as well -/
theorem reject_non_member_indexed (gt : HTerm → HTerm → Bool) (t : Tree HTerm) (hat : AtomLeaves t) (n : Nat)
    (hn : HTerm.atom n ∉ t.leaves) (π : List HTerm) (i : Nat) :
    verifyWithIndex (freeOps gt) π (t.rootI (freeOps gt)) (HTerm.atom n) i ≠ .ok true := by
  intro hv
  obtain ⟨p, hp, _⟩ := sym_indexed_accept_honest gt t hat n π i hv
  exact hn (proofWith_mem _ _ _ _ _ hp)

theorem reject_other_proof_indexed (gt : HTerm → HTerm → Bool) (t : Tree HTerm) (hat : AtomLeaves t)
    (hnd : t.leaves.Nodup) (p : List Bool) (n : Nat) (π π' : List HTerm)
    (h : t.proofWith (freeOps gt).hp p = some (HTerm.atom n, π)) (hne : π' ≠ π) (i : Nat) :
    verifyWithIndex (freeOps gt) π' (t.rootI (freeOps gt)) (HTerm.atom n) i ≠ .ok true := by
  intro hv
  obtain ⟨p', hp', _⟩ := sym_indexed_accept_honest gt t hat n π' i hv
  exact hne (proofWith_unique _ t hnd p' p _ π' π hp' h).2

/-! ### the distributor -/

/-- **an index is marked only after a valid proof against the current root**: over every
history, a set flag that was not set initially was set by a claim for exactly that index,
executed when the flag was clear, whose proof verified against the root of that moment -/
theorem claimed_only_after_valid_proof [DecidableEq α] (o : Ops α) (ops : List (DOp α)) (d : Dist α) (i : Nat)
    (h : (Dist.run o d ops).claimed i = true) :
    d.claimed i = true ∨
      ∃ pre op post, ops = pre ++ op :: post ∧ (Dist.run o d pre).claimed i = false ∧
        ClaimsIndex o (Dist.run o d pre) i op := by
  induction ops generalizing d with
  | nil => exact Or.inl h
  | cons op rest ih =>
    rcases ih (d.apply o op) h with h' | ⟨pre, op', post, e, h1, h2⟩
    · rcases apply_claimed o d op i h' with h'' | ⟨h1, h2⟩
      · exact Or.inl h''
      · exact Or.inr ⟨[], op, rest, rfl, h1, h2⟩
    · exact Or.inr ⟨op :: pre, op', post, by rw [e]; rfl, h1, h2⟩

/-- **claimed forever**: no operation — claim, failed claim, root change — clears a flag -/
theorem claimed_forever [DecidableEq α] (o : Ops α) (d : Dist α) (ops : List (DOp α)) (i : Nat)
    (h : d.claimed i = true) : (Dist.run o d ops).claimed i = true :=
  run_keeps_claimed o d ops i h

/-- **every further claim for a claimed index is refused**, after any history, with any leaf
and proof (valid or not), in both forms -/
theorem further_claims_refused [DecidableEq α] (o : Ops α) (d : Dist α) (ops : List (DOp α)) (i : Nat)
    (h : d.claimed i = true) (lh : α) (π : List α) :
    (∀ d', (Dist.run o d ops).verifyAndSetClaimed o lh i π ≠ .ok d') ∧
    (∀ d', (Dist.run o d ops).verifyWithIndexAndSetClaimed o lh i π ≠ .ok d') := by
  have hc := run_keeps_claimed o d ops i h
  constructor
  · intro d' e
    obtain ⟨_, _, h2, _⟩ := (claim_ok o _ d' lh i π).mp e
    rw [hc] at h2; cases h2
  · intro d' e
    obtain ⟨_, _, h2, _⟩ := (claimIndexed_ok o _ d' lh i π).mp e
    rw [hc] at h2; cases h2

/-- **a successful claim marks exactly its own index** and leaves the root alone -/
theorem claim_marks_only_its_index [DecidableEq α] (o : Ops α) (d d' : Dist α) (lh : α) (i : Nat) (π : List α)
    (h : d.verifyAndSetClaimed o lh i π = .ok d' ∨ d.verifyWithIndexAndSetClaimed o lh i π = .ok d') :
    d'.root = d.root ∧ d.claimed i = false ∧ ∀ j, d'.claimed j = (decide (j = i) || d.claimed j) := by
  rcases h with h | h
  · obtain ⟨_, _, h2, _, rfl⟩ := (claim_ok o d d' lh i π).mp h
    exact ⟨rfl, h2, fun j => setClaimed_claimed d i j⟩
  · obtain ⟨_, _, h2, _, rfl⟩ := (claimIndexed_ok o d d' lh i π).mp h
    exact ⟨rfl, h2, fun j => setClaimed_claimed d i j⟩

/-- **a failed claim marks nothing**: a claim whose proof does not verify against the current
root fails, and a failed operation leaves the root and every flag as they were -/
theorem failed_claim_marks_nothing [DecidableEq α] (o : Ops α) (d : Dist α) (lh : α) (i : Nat) (π : List α)
    (root : α) (hr : d.root = some root) (hv : verify o π root lh = false) :
    (∀ d', d.verifyAndSetClaimed o lh i π ≠ .ok d') ∧ d.apply o (.claim lh i π) = d := by
  have h1 : ∀ d', d.verifyAndSetClaimed o lh i π ≠ .ok d' := by
    intro d' e
    obtain ⟨root', hr', _, h3, _⟩ := (claim_ok o d d' lh i π).mp e
    rw [hr] at hr'; cases hr'
    rw [hv] at h3; cases h3
  refine ⟨h1, ?_⟩
  unfold Dist.apply
  split
  · next d' hs => exact absurd hs (h1 d')
  · rfl

theorem failed_indexed_claim_marks_nothing [DecidableEq α] (o : Ops α) (d : Dist α) (lh : α) (i : Nat)
    (π : List α) (root : α) (hr : d.root = some root) (hv : verifyWithIndex o π root lh i ≠ .ok true) :
    (∀ d', d.verifyWithIndexAndSetClaimed o lh i π ≠ .ok d') ∧ d.apply o (.claimIndexed lh i π) = d := by
  have h1 : ∀ d', d.verifyWithIndexAndSetClaimed o lh i π ≠ .ok d' := by
    intro d' e
    obtain ⟨root', hr', _, h3, _⟩ := (claimIndexed_ok o d d' lh i π).mp e
    rw [hr] at hr'; cases hr'
    exact hv h3
  refine ⟨h1, ?_⟩
  unfold Dist.apply
  split
  · next d' hs => exact absurd hs (h1 d')
  · rfl

/-- **a root change keeps the claims** (`set_root` writes the `Root` entry only) -/
theorem root_change_keeps_claims [DecidableEq α] (o : Ops α) (d : Dist α) (r : α) :
    (d.apply o (.setRoot r)).claimed = d.claimed ∧ (d.apply o (.setRoot r)).root = some r := by
  simp [Dist.apply, Dist.step, Dist.setRoot]

/-- the airdrop example: a successful `claim` marks the index, which was clear, its proof
verified against the root, and exactly `amount` moved from the contract to the receiver -/
theorem airdrop_claim_effect [DecidableEq α] (o : Ops α) (a a' : Airdrop α) (lh : α) (i rcv : Nat) (amount : Int)
    (π : List α) (h : a.claim o lh i rcv amount π = .ok a') :
    (∃ root, a.dist.root = some root ∧ verify o π root lh = true) ∧
    a.dist.claimed i = false ∧ a'.dist = a.dist.setClaimed i ∧
    0 ≤ amount ∧ amount ≤ a.pool ∧ a'.pool = a.pool - amount ∧ a'.bal rcv = a.bal rcv + amount ∧
    ∀ j, j ≠ rcv → a'.bal j = a.bal j := by
  unfold Airdrop.claim at h
  obtain ⟨d', h1, h2⟩ := bind_ok_iff.mp h
  obtain ⟨root, hr, hc, hv, rfl⟩ := (claim_ok o _ d' lh i π).mp h1
  unfold payOut at h2
  split at h2
  · cases h2
  · next hcond =>
    cases h2
    refine ⟨⟨root, hr, hv⟩, hc, rfl, by omega, by omega, rfl, by simp, fun j hj => by simp [hj]⟩

/-! ### non-vacuity: a concrete tree in the free-hash model -/

/-- comparison used in the examples: by size of the term, then … (any function works for the
rejection theorems; the examples only need a concrete one) -/
def exGt : HTerm → HTerm → Bool
  | .atom a, .atom b => decide (a > b)
  | .node _ _, .atom _ => true
  | .atom _, .node _ _ => false
  | .node a b, .node c d => exGt a c || (decide (a = c) && exGt b d)

/-- three leaves, unbalanced: ((1, 2), 3) -/
def exTree : Tree HTerm := .node (.node (.leaf (.atom 1)) (.leaf (.atom 2))) (.leaf (.atom 3))

example : exTree.proofWith (chp (freeOps exGt)) [false, true] = some (.atom 2, [.atom 1, .atom 3]) := by decide
example : verify (freeOps exGt) [.atom 1, .atom 3] (exTree.rootS (freeOps exGt)) (.atom 2) = true := by decide
example : verify (freeOps exGt) [.atom 3, .atom 1] (exTree.rootS (freeOps exGt)) (.atom 2) = false := by decide
example : verify (freeOps exGt) [.atom 1] (exTree.rootS (freeOps exGt)) (.atom 2) = false := by decide
example : verify (freeOps exGt) [.atom 1, .atom 3] (exTree.rootS (freeOps exGt)) (.atom 4) = false := by decide
example : verifyWithIndex (freeOps exGt) [.atom 1, .atom 3] (exTree.rootI (freeOps exGt)) (.atom 2) 1 = .ok true := by decide
example : verifyWithIndex (freeOps exGt) [.atom 1, .atom 3] (exTree.rootI (freeOps exGt)) (.atom 2) 0 = .ok false := by decide
example : verifyWithIndex (freeOps exGt) [.atom 1, .atom 3] (exTree.rootI (freeOps exGt)) (.atom 2) 4 =
    .error .merkleIndexOutOfBounds := by decide
example : exTree.leaves.Nodup ∧ AtomLeaves exTree := by
  refine ⟨by decide, ?_⟩
  intro x hx
  simp [exTree, Tree.leaves] at hx
  rcases hx with rfl | rfl | rfl <;> exact ⟨_, rfl⟩
/-- the two builders of the model produce trees over exactly the given leaves -/
example : (buildBalanced (HTerm.atom 0) 8 [.atom 1, .atom 2, .atom 3, .atom 4, .atom 5]).leaves =
    [.atom 1, .atom 2, .atom 3, .atom 4, .atom 5] := by decide
example : (buildComb (HTerm.atom 0) [.atom 1, .atom 2, .atom 3]).proofWith (chp (freeOps exGt)) [true, true] =
    some (.atom 3, [.atom 2, .atom 1]) := by decide
/-- a distributor history: claim index 1 (valid), claim it again (refused), change the root -/
example :
    let d0 : Dist HTerm := Dist.empty.setRoot (exTree.rootS (freeOps exGt))
    let ops : List (DOp HTerm) := [.claim (.atom 2) 1 [.atom 1, .atom 3], .claim (.atom 2) 1 [.atom 1, .atom 3],
      .claim (.atom 3) 2 [.atom 9], .setRoot (.atom 7)]
    (Dist.run (freeOps exGt) d0 ops).claimed 1 = true ∧ (Dist.run (freeOps exGt) d0 ops).claimed 2 = false := by
  decide

end OZ.Merkle
