import OZ.Lemmas.FungibleAuth
/-
C02 — Tokens move only with the holder's authorization or a live allowance.

Property theorems only (helper lemmas: OZ/Lemmas/FungibleAuth.lean). The model
(OZ/Model/Fungible.lean + OZ/Model/Host.lean) mirrors `impl Base` of
packages/tokens/src/fungible/storage.rs and extensions/burnable/storage.rs line by line,
including the temporary-entry TTL behaviour of the allowance entry.

Step theorems hold for EVERY state (not only reachable ones), every host configuration,
every operation with arbitrary `Int` amounts / `Nat` ledgers and every authorizing set
`auth`. History theorems hold for every finite list of operations from the empty token,
with arbitrary authorizing sets and arbitrary ledger advancement in between (also past the
storage TTL of the allowance entry).

`Unexpired s o sp` (Lemmas): the entry of (o, sp) is still kept by the host at `s.now` and
`s.now ≤ live_until_ledger` of the stored record.
-/
namespace OZ.Fungible
open OZ.Host

/-! ### (1) a balance goes down only with the holder's authorization or a live allowance -/

/-- **C02, debit**: if an accepted invocation lowers `h`'s balance then either `h`
authorized it and it is a `transfer` / `burn` naming `h` as `from`, or it is a
`transfer_from` / `burn_from` from `h` by a spender `sp ∈ auth` whose allowance entry is
unexpired, `allowance(h, sp) ≥ amount`, and afterwards `allowance(h, sp)` is exactly
`amount` less. (`mint`, `approve`, ledger movement never lower a balance.) -/
theorem debit_authorized (c : Cfg) (s s' : State) (auth : List Nat) (op : Op) (h : Nat)
    (hok : apply c s auth op = .ok s') (hdec : s'.bal h < s.bal h) :
    (h ∈ auth ∧ ((∃ t amt, op = .transfer h t amt) ∨ (∃ amt, op = .burn h amt))) ∨
    (∃ sp amt, ((∃ t, op = .transferFrom sp h t amt) ∨ op = .burnFrom sp h amt) ∧
      sp ∈ auth ∧ 0 < amt ∧ Unexpired s h sp ∧ amt ≤ allowance s h sp ∧
      allowance s' h sp = allowance s h sp - amt) := by
  rcases op_trichotomy op with ⟨o, sp, amt, lu, rfl⟩ | ⟨f, sp, amt, hs⟩ | ⟨hs, hap⟩
  · obtain ⟨_, _, _, _, _, hb⟩ := apply_approve hok
    rw [hb] at hdec
    exact absurd hdec (Int.lt_irrefl _)
  · obtain ⟨ha, s0, h0, hal, hnow, hb⟩ := apply_spend hok hs
    obtain ⟨rfl, hp⟩ := hb h hdec
    obtain ⟨hun, hle, hexact, _⟩ := spendAllowance_pos h0 hp
    obtain ⟨_, _, en, _, _⟩ := spendAllowance_ok h0
    refine .inr ⟨sp, amt, spend?_eq hs, ha, hp, hun, hle, ?_⟩
    rw [allowance_congr hal (by rw [hnow, en]), hexact]
  · obtain ⟨_, _, _, hb⟩ := apply_other hok hs hap
    exact .inl (hb h hdec)

/-- the other direction of "only `from` pays": a rejected invocation changes nothing at all
(host rollback; this is how `step` is defined and what the correspondence observes) -/
theorem rejected_no_debit (c : Cfg) (s : State) (auth : List Nat) (op : Op) (e : Err)
    (h : apply c s auth op = .error e) (a : Nat) : (step c s (auth, op)).bal a = s.bal a := by
  simp [step, h]

/-- **C02, spend**: an accepted `transfer_from` / `burn_from` of `amt` needs the spender's
authorization and `0 ≤ amt ≤ allowance(from, spender)`, lowers that allowance by exactly
`amt` and leaves every other allowance as it was. (For `amt = 0` the code does not rewrite
the entry; the equation still holds.) -/
theorem spend_exact (c : Cfg) (s s' : State) (auth : List Nat) (op : Op) (f sp : Nat) (amt : Int)
    (hop : (∃ t, op = .transferFrom sp f t amt) ∨ op = .burnFrom sp f amt)
    (hok : apply c s auth op = .ok s') :
    sp ∈ auth ∧ 0 ≤ amt ∧ amt ≤ allowance s f sp ∧
    allowance s' f sp = allowance s f sp - amt ∧
    ∀ o x, ¬ (o = f ∧ x = sp) → allowance s' o x = allowance s o x := by
  have hs : op.spend? = some (f, sp, amt) := by
    rcases hop with ⟨t, rfl⟩ | rfl <;> rfl
  obtain ⟨ha, s0, h0, hal, hnow, _⟩ := apply_spend hok hs
  obtain ⟨_, _, en, _, hother⟩ := spendAllowance_ok h0
  obtain ⟨hge, hle, hc⟩ := spendAllowance_cases h0
  have hcong : ∀ o x, allowance s' o x = allowance s0 o x :=
    fun o x => allowance_congr hal (by rw [hnow, en]) o x
  refine ⟨ha, hge, ?_, ?_, ?_⟩
  · exact hle
  · rcases hc with ⟨hp, _⟩ | ⟨hz, rfl⟩
    · rw [hcong, (spendAllowance_pos h0 hp).2.2.1]
    · rw [hcong, hz]; omega
  · intro o x hox
    rw [hcong]
    exact allowance_congr_entry (hother o x hox) en

/-! ### (2) an allowance is created / raised only by `approve` with the owner's authorization -/

/-- **C02, allowance write**: if an accepted invocation raises `allowance(o, sp)` then it is
`approve(o, sp, amt, lu)` authorized by the owner `o`, the new value is exactly `amt`, and
`lu` has not passed. The premise `0 ≤ allowance s o sp` holds in every reachable state
(`allowance_nonneg_reachable`); it only excludes artificial states holding a negative
stored amount, which "rise" to 0 by expiring. -/
theorem allowance_write_authorized (c : Cfg) (s s' : State) (auth : List Nat) (op : Op) (o sp : Nat)
    (hok : apply c s auth op = .ok s') (h0 : 0 ≤ allowance s o sp)
    (hup : allowance s o sp < allowance s' o sp) :
    ∃ amt lu, op = .approve o sp amt lu ∧ o ∈ auth ∧ allowance s' o sp = amt ∧ s.now ≤ lu := by
  rcases op_trichotomy op with ⟨o', sp', amt, lu, rfl⟩ | ⟨f, sp', amt, hs⟩ | ⟨hs, hap⟩
  · obtain ⟨ha, s0, hset, hal, hnow, _⟩ := apply_approve hok
    obtain ⟨_, _, en, _, hother⟩ := setAllowance_ok hset
    have hcong : ∀ a b, allowance s' a b = allowance s0 a b :=
      fun a b => allowance_congr hal (by rw [hnow, en]) a b
    by_cases hxy : o = o' ∧ sp = sp'
    · obtain ⟨rfl, rfl⟩ := hxy
      have hv : allowance s' o sp = amt := by rw [hcong, setAllowance_allowance hset]
      obtain ⟨_, _, hlu, _⟩ := setAllowance_entry hset
      exact ⟨amt, lu, rfl, ha, hv, hlu (by omega)⟩
    · rw [hcong, allowance_congr_entry (hother o sp hxy) en] at hup
      exact absurd hup (Int.lt_irrefl _)
  · obtain ⟨_, s0, hsp, hal, hnow, _⟩ := apply_spend hok hs
    obtain ⟨_, _, en, _, hother⟩ := spendAllowance_ok hsp
    have hcong : ∀ a b, allowance s' a b = allowance s0 a b :=
      fun a b => allowance_congr hal (by rw [hnow, en]) a b
    by_cases hxy : o = f ∧ sp = sp'
    · obtain ⟨rfl, rfl⟩ := hxy
      obtain ⟨hge, _, hc⟩ := spendAllowance_cases hsp
      rcases hc with ⟨hp, _⟩ | ⟨_, rfl⟩
      · rw [hcong, (spendAllowance_pos hsp hp).2.2.1] at hup
        omega
      · rw [hcong] at hup
        exact absurd hup (Int.lt_irrefl _)
    · rw [hcong, allowance_congr_entry (hother o sp hxy) en] at hup
      exact absurd hup (Int.lt_irrefl _)
  · obtain ⟨hal, hle, _, _⟩ := apply_other hok hs hap
    rcases allowance_later hal hle o sp with h | h <;> omega

/-- **C02, allowance entry write** (storage level, every state, no premise): the stored
allowance entry of `(o, sp)` changes only in an `approve(o, sp, …)` authorized by `o`, or
in a `transfer_from` / `burn_from` of a positive amount from `o` by `sp ∈ auth` that the
unexpired allowance covers (which lowers it, `spend_exact`). -/
theorem allowance_entry_write_authorized (c : Cfg) (s s' : State) (auth : List Nat) (op : Op)
    (o sp : Nat) (hok : apply c s auth op = .ok s') (hch : s'.allow o sp ≠ s.allow o sp) :
    (∃ amt lu, op = .approve o sp amt lu ∧ o ∈ auth) ∨
    (∃ amt, ((∃ t, op = .transferFrom sp o t amt) ∨ op = .burnFrom sp o amt) ∧ sp ∈ auth ∧
      0 < amt ∧ Unexpired s o sp ∧ amt ≤ allowance s o sp) := by
  rcases op_trichotomy op with ⟨o', sp', amt, lu, rfl⟩ | ⟨f, sp', amt, hs⟩ | ⟨hs, hap⟩
  · obtain ⟨ha, s0, hset, hal, _, _⟩ := apply_approve hok
    obtain ⟨_, _, _, _, hother⟩ := setAllowance_ok hset
    by_cases hxy : o = o' ∧ sp = sp'
    · obtain ⟨rfl, rfl⟩ := hxy
      exact .inl ⟨amt, lu, rfl, ha⟩
    · rw [hal, hother o sp hxy] at hch
      exact absurd rfl hch
  · obtain ⟨ha, s0, hsp, hal, _, _⟩ := apply_spend hok hs
    obtain ⟨_, _, _, _, hother⟩ := spendAllowance_ok hsp
    by_cases hxy : o = f ∧ sp = sp'
    · obtain ⟨rfl, rfl⟩ := hxy
      obtain ⟨_, _, hc⟩ := spendAllowance_cases hsp
      rcases hc with ⟨hp, _⟩ | ⟨_, rfl⟩
      · obtain ⟨hun, hle, _, _⟩ := spendAllowance_pos hsp hp
        exact .inr ⟨amt, spend?_eq hs, ha, hp, hun, hle⟩
      · rw [hal] at hch
        exact absurd rfl hch
    · rw [hal, hother o sp hxy] at hch
      exact absurd rfl hch
  · obtain ⟨hal, _, _, _⟩ := apply_other hok hs hap
    rw [hal] at hch
    exact absurd rfl hch

/-! ### (3) expiry: worth zero after `live_until_ledger`, usable up to and including it -/

/-- **C02, expiry**: once the ledger has passed the stored `live_until_ledger` the allowance
reads 0 — whether or not the host still keeps the storage entry alive (`e.liveUntil` is
unconstrained): this is the explicit comparison in `Base::allowance_data`. Hence a
`transfer_from` / `burn_from` of a positive amount is rejected then (`debit_authorized`). -/
theorem allowance_zero_after_expiry (s : State) (o sp : Nat) (e : Temp AllowanceData)
    (he : s.allow o sp = some e) (hx : e.val.liveUntilLedger < s.now) : allowance s o sp = 0 := by
  unfold allowance
  rw [allowanceData_expired he hx]

/-- an owner/spender pair without a storage entry has allowance 0 -/
theorem allowance_zero_without_entry (s : State) (o sp : Nat) (he : s.allow o sp = none) :
    allowance s o sp = 0 := by
  unfold allowance
  rw [allowanceData_none he]

/-- **C02, approve takes effect**: after an accepted `approve(o, sp, amt, lu)` the getter
reads exactly `amt` -/
theorem approve_sets_allowance (c : Cfg) (s s' : State) (auth : List Nat) (o sp : Nat) (amt : Int)
    (lu : Nat) (hok : apply c s auth (.approve o sp amt lu) = .ok s') : allowance s' o sp = amt := by
  obtain ⟨_, s0, hset, hal, hnow, _⟩ := apply_approve hok
  obtain ⟨_, _, en, _, _⟩ := setAllowance_ok hset
  rw [allowance_congr hal (by rw [hnow, en]), setAllowance_allowance hset]

/-- **C02, the other half of "live allowance"**: after an accepted `approve` of a positive
amount the host keeps the storage entry at least until `lu` (it never expires earlier than
the allowance), so the allowance stays readable with its full amount at every ledger up to
AND INCLUDING `lu`, and reads 0 at every later ledger. -/
theorem allowance_live_until (c : Cfg) (s s' : State) (auth : List Nat) (o sp : Nat) (amt : Int)
    (lu : Nat) (hok : apply c s auth (.approve o sp amt lu) = .ok s') (hp : 0 < amt) :
    (∃ e', s'.allow o sp = some e' ∧ e'.val = ⟨amt, lu⟩ ∧ lu ≤ e'.liveUntil) ∧
    ∀ n s'', apply c s' [] (.advance n) = .ok s'' →
      allowance s'' o sp = if s''.now ≤ lu then amt else 0 := by
  obtain ⟨_, s0, hset, hal, hnow, _⟩ := apply_approve hok
  obtain ⟨_, _, _, e', he', hv', hlu', _⟩ := setAllowance_entry hset
  rw [← hal] at he'
  refine ⟨⟨e', he', hv', hlu' hp⟩, ?_⟩
  intro n s'' hadv
  injection hadv with hadv; subst hadv
  have he'' : ({ s' with now := s'.now + n } : State).allow o sp = some e' := he'
  by_cases hn : s'.now + n ≤ lu
  · rw [if_pos hn]
    unfold allowance
    rw [allowanceData_live he'' (by have := hlu' hp; show s'.now + n ≤ _; omega)
      (by rw [hv']; exact hn), hv']
  · rw [if_neg hn]
    exact allowance_zero_after_expiry _ o sp e' he'' (by rw [hv']; show lu < s'.now + n; omega)

/-! ### (4) `approve` is rejected exactly when it must be -/

/-- the `extend_ttl` call inside `set_allowance` can never fail: the code's comment
"cannot revert because of the check above" is true -/
theorem setAllowance_extend_cannot_fail (c : Cfg) (s : State) (o sp : Nat) (amt : Int) (lu : Nat) :
    setAllowance c s o sp amt lu ≠ .error .hostError := by
  intro h
  by_cases h1 : amt < 0
  · unfold setAllowance at h; rw [if_pos h1] at h; cases h
  · by_cases h2 : lu > c.maxLiveUntil s.now ∨ (amt > 0 ∧ lu < s.now)
    · unfold setAllowance at h; rw [if_neg h1, if_pos h2] at h; cases h
    · obtain ⟨s', hs'⟩ := setAllowance_succeeds c s o sp amt lu h1 h2
      rw [hs'] at h; cases h

/-- **C02, approve bounds**: `approve(owner, spender, amount, live_until_ledger)` is rejected
if and only if the owner did not authorize it, or `amount < 0`, or `live_until_ledger`
exceeds `now + max_entry_ttl − 1`, or `amount > 0` and `live_until_ledger < now`. Nothing
else (no storage / TTL failure) can reject it. -/
theorem approve_bounds (c : Cfg) (s : State) (auth : List Nat) (o sp : Nat) (amt : Int) (lu : Nat) :
    (∃ e, apply c s auth (.approve o sp amt lu) = .error e) ↔
    (o ∉ auth ∨ amt < 0 ∨ lu > s.now + c.maxTtl - 1 ∨ (0 < amt ∧ lu < s.now)) := by
  show (∃ e, approve c s auth o sp amt lu = .error e) ↔ _
  constructor
  · intro ⟨e, he⟩
    by_cases ha : o ∈ auth
    · by_cases h1 : amt < 0
      · exact .inr (.inl h1)
      · by_cases h2 : lu > c.maxLiveUntil s.now ∨ (amt > 0 ∧ lu < s.now)
        · rcases h2 with h2 | h2
          · exact .inr (.inr (.inl h2))
          · exact .inr (.inr (.inr h2))
        · obtain ⟨s0, hs0⟩ := setAllowance_succeeds c s o sp amt lu h1 h2
          rw [approve_eq_of_auth ha, hs0] at he
          cases he
    · exact .inl ha
  · intro h
    by_cases ha : o ∈ auth
    · have h' : amt < 0 ∨ lu > c.maxLiveUntil s.now ∨ (amt > 0 ∧ lu < s.now) := by
        rcases h with h | h | h | h
        · exact absurd ha h
        · exact .inl h
        · exact .inr (.inl h)
        · exact .inr (.inr h)
      obtain ⟨e, he⟩ := setAllowance_fails_of (c := c) (s := s) (o := o) (sp := sp) h'
      exact ⟨e, by rw [approve_eq_of_auth ha, he]; rfl⟩
    · exact ⟨_, approve_err_of_not_auth ha⟩

/-! ### history level: ghost counters

`ghost c now ops o sp` (Lemmas) is computed from the history alone: `approved` = amount of
the last ACCEPTED `approve(o, sp, …)`, `lu` = its `live_until_ledger`, `spent` = sum of the
amounts of the ACCEPTED `transfer_from` / `burn_from` from `o` by `sp` since then. -/

/-- **C02, exact characterisation over histories**: after ANY history the allowance of every
pair equals (last approved − spent since) while the ledger has not passed the last
approval's `live_until_ledger`, and 0 afterwards. -/
theorem allowance_eq_ghost (c : Cfg) (now : Nat) (ops : List (List Nat × Op)) (o sp : Nat) :
    allowance (run c (init now) ops) o sp =
      if (run c (init now) ops).now ≤ (ghost c now ops o sp).lu
      then (ghost c now ops o sp).approved - (ghost c now ops o sp).spent else 0 := by
  have hi := ginv_grun c (init now, ghost0) ops (ginv_init now)
  have h := allowance_of_grel (hi o sp)
  rw [grun_fst] at h
  exact h

/-- **C02, allowance never exceeds what was approved minus what was spent**, after any
history; and it is never negative -/
theorem allowance_le_approved_minus_spent (c : Cfg) (now : Nat) (ops : List (List Nat × Op))
    (o sp : Nat) :
    0 ≤ allowance (run c (init now) ops) o sp ∧
    allowance (run c (init now) ops) o sp ≤
      (ghost c now ops o sp).approved - (ghost c now ops o sp).spent := by
  have hi := ginv_grun c (init now, ghost0) ops (ginv_init now)
  have h0 : 0 ≤ (ghost c now ops o sp).rem := (hi o sp).1
  simp only [Ghost.rem] at h0
  rw [allowance_eq_ghost]
  split <;> omega

/-- the premise of `allowance_write_authorized` holds in every reachable state -/
theorem allowance_nonneg_reachable (c : Cfg) (now : Nat) (ops : List (List Nat × Op)) (o sp : Nat) :
    0 ≤ allowance (run c (init now) ops) o sp :=
  (allowance_le_approved_minus_spent c now ops o sp).1

/-- **C02, expiry over histories**: once the ledger has passed the `live_until_ledger` of the
last accepted approval of `(o, sp)`, the allowance is 0, whatever happened in between and
however long the storage entry lives -/
theorem allowance_zero_after_last_approval_expired (c : Cfg) (now : Nat)
    (ops : List (List Nat × Op)) (o sp : Nat)
    (hx : (ghost c now ops o sp).lu < (run c (init now) ops).now) :
    allowance (run c (init now) ops) o sp = 0 := by
  rw [allowance_eq_ghost, if_neg (by omega)]

/-- **C02, liveness over histories**: until that ledger (inclusive) the full remainder
(last approved − spent since) is available, however far the ledger moved -/
theorem allowance_live_through_last_approval (c : Cfg) (now : Nat)
    (ops : List (List Nat × Op)) (o sp : Nat)
    (hx : (run c (init now) ops).now ≤ (ghost c now ops o sp).lu) :
    allowance (run c (init now) ops) o sp =
      (ghost c now ops o sp).approved - (ghost c now ops o sp).spent := by
  rw [allowance_eq_ghost, if_pos hx]

/-! ### non-vacuity (tests, labelled as such): concrete histories meet the hypotheses -/

/-- min_temp_entry_ttl = 16: approve 500 until 5000, replace by 400 until 120 (the storage
entry keeps living until 5000), spend 100 at the last live ledger, then one ledger later -/
def demoAuth : List (List Nat × Op) :=
  [([], .mint 0 1000), ([0], .approve 0 1 500 5000), ([0], .approve 0 1 400 120),
   ([], .advance 20), ([1], .transferFrom 1 0 2 100)]

-- debit through a live allowance at `now = live_until_ledger`: hypotheses of `debit_authorized`
example : (run ⟨16, 200000⟩ (init 100) demoAuth).bal 0 = 900 ∧
    allowance (run ⟨16, 200000⟩ (init 100) demoAuth) 0 1 = 300 ∧
    (run ⟨16, 200000⟩ (init 100) demoAuth).now = 120 := by decide

-- one ledger later: the storage entry is still alive (5000) but the allowance reads 0
example : ((run ⟨16, 200000⟩ (init 100) (demoAuth ++ [([], .advance 1)])).allow 0 1).map
      (fun e => (e.liveUntil, e.val.amount, e.val.liveUntilLedger)) = some (5000, 300, 120) ∧
    allowance (run ⟨16, 200000⟩ (init 100) (demoAuth ++ [([], .advance 1)])) 0 1 = 0 := by decide

-- the owner signing instead of the spender, or nobody, does not move tokens
example : (run ⟨16, 200000⟩ (init 100) (demoAuth ++ [([0], .transferFrom 1 0 2 100)])).bal 0 = 900 ∧
    (run ⟨16, 200000⟩ (init 100) (demoAuth ++ [([], .transfer 0 2 1)])).bal 0 = 900 ∧
    (run ⟨16, 200000⟩ (init 100) (demoAuth ++ [([1, 2], .burn 0 1)])).bal 0 = 900 := by decide

-- ghost counters of that history
example : ghost ⟨16, 200000⟩ 100 demoAuth 0 1 = ⟨400, 100, 120⟩ := by decide

-- approve bounds: lu = now accepted, lu = now - 1 rejected for a positive amount but
-- accepted for 0, lu = max accepted, max + 1 rejected
example : (run ⟨1, 200000⟩ (init 100) [([0], .approve 0 1 5 100)]).events.length = 1 ∧
    (run ⟨1, 200000⟩ (init 100) [([0], .approve 0 1 5 99)]).events.length = 0 ∧
    (run ⟨1, 200000⟩ (init 100) [([0], .approve 0 1 0 99)]).events.length = 1 ∧
    (run ⟨1, 200000⟩ (init 100) [([0], .approve 0 1 5 200099)]).events.length = 1 ∧
    (run ⟨1, 200000⟩ (init 100) [([0], .approve 0 1 5 200100)]).events.length = 0 ∧
    (run ⟨1, 200000⟩ (init 100) [([1], .approve 0 1 5 100)]).events.length = 0 := by decide

end OZ.Fungible
