import OZ.Lemmas.RegTopics
/-
C20 (b): the claim-topics-and-issuers registry (`ClaimTopics`, `TrustedIssuers`,
`IssuerClaimTopics(issuer)`, `ClaimTopicIssuers(topic)`) represents the plain sets of topics and
of trusted issuers and the plain relation
  rel s i t  :=  "trusted issuer i may emit topic t"
under ANY history of add/remove claim topic, add/remove trusted issuer and
`update_issuer_claim_topics` (arbitrary arguments, failed calls rolled back).
-/
namespace OZ.Props.C20b
open OZ.Reg OZ.RegTopics

/-- **topics_refines.** After any history every getter answers as the plain sets / relation do. -/
theorem topics_refines (ops : List Op) :
    let s := run init ops
    (getClaimTopics s).Nodup ∧ (getTrustedIssuers s).Nodup ∧
    (∀ i, isTrustedIssuer s i = true ↔ i ∈ getTrustedIssuers s) ∧
    (∀ t, (getClaimTopicIssuers s t = none ↔ t ∉ getClaimTopics s) ∧
          ∀ l, getClaimTopicIssuers s t = some l → l.Nodup ∧ ∀ i, i ∈ l ↔ rel s i t) ∧
    (∀ i, (getTrustedIssuerClaimTopics s i = none ↔ i ∉ getTrustedIssuers s) ∧
          ∀ l, getTrustedIssuerClaimTopics s i = some l → l.Nodup ∧ ∀ t, t ∈ l ↔ rel s i t) ∧
    (∀ i t, (hasClaimTopic s i t = none ↔ i ∉ getTrustedIssuers s) ∧
            ∀ b, hasClaimTopic s i t = some b → (b = true ↔ rel s i t)) ∧
    (∃ m, getClaimTopicsAndIssuers s = some m ∧ m.map (·.1) = getClaimTopics s ∧
          ∀ t l, (t, l) ∈ m → ∀ i, i ∈ l ↔ rel s i t) := by
  intro s
  have hI : Inv s := inv_run inv_init ops
  refine ⟨hI.tN, hI.iN, ?_, ?_, ?_, ?_, ?_⟩
  · intro i; simp [isTrustedIssuer, getTrustedIssuers]
  · intro t
    unfold getClaimTopicIssuers getClaimTopics
    constructor
    · rw [← not_congr (hI.tiDom t)]; simp
    · intro l hl
      refine ⟨hI.tiN t l hl, fun i => ?_⟩
      rw [rel_iff, hI.twoWay, hl, memO_some]
  · intro i
    unfold getTrustedIssuerClaimTopics getTrustedIssuers
    constructor
    · rw [← not_congr (hI.itDom i)]; simp
    · intro l hl
      refine ⟨hI.itN i l hl, fun t => ?_⟩
      rw [rel_iff, hl, memO_some]
  · intro i t
    unfold hasClaimTopic getTrustedIssuers
    constructor
    · rw [← not_congr (hI.itDom i)]; cases s.issuerTopics i <;> simp
    · intro b hb
      cases hl : s.issuerTopics i with
      | none => rw [hl] at hb; cases hb
      | some l =>
        rw [hl] at hb; simp at hb; subst hb
        rw [rel_iff, hl, memO_some]; simp
  · -- the map getter never hits a missing entry
    have key : ∀ (ts : List Nat), (∀ t, t ∈ ts → t ∈ s.topics) →
        ∃ m, ts.mapM (fun t => (s.topicIssuers t).map (fun l => (t, l))) = some m ∧ m.map (·.1) = ts ∧
          ∀ t l, (t, l) ∈ m → s.topicIssuers t = some l := by
      intro ts
      induction ts with
      | nil => intro _; exact ⟨[], rfl, rfl, by intro t l h; cases h⟩
      | cons a as ih =>
        intro hsub
        obtain ⟨m, hm, hmap, hall⟩ := ih (fun t ht => hsub t (List.mem_cons_of_mem _ ht))
        obtain ⟨l, hl⟩ := Option.isSome_iff_exists.1 ((hI.tiDom a).2 (hsub a (List.mem_cons_self ..)))
        refine ⟨(a, l) :: m, ?_, by simp [hmap], ?_⟩
        · simp [List.mapM_cons, hl, hm]
        · intro t l' h
          cases h with
          | head => exact hl
          | tail _ h => exact hall t l' h
    obtain ⟨m, hm, hmap, hall⟩ := key s.topics (fun _ h => h)
    refine ⟨m, hm, hmap, ?_⟩
    intro t l h i
    rw [rel_iff, hI.twoWay, hall t l h, memO_some]

/-- **topics_abs_step.** The represented sets and relation move exactly as plain sets do. -/
theorem topics_abs_step (s : State) (hI : Inv s) :
    (∀ t s', addClaimTopic s t = .ok s' →
      (∀ t', t' ∈ s'.topics ↔ (t' ∈ s.topics ∨ t' = t)) ∧ s'.issuers = s.issuers ∧
      ∀ i t', rel s' i t' ↔ rel s i t') ∧
    (∀ t s', removeClaimTopic s t = .ok s' →
      (∀ t', t' ∈ s'.topics ↔ (t' ∈ s.topics ∧ t' ≠ t)) ∧ s'.issuers = s.issuers ∧
      ∀ i t', rel s' i t' ↔ (rel s i t' ∧ t' ≠ t)) ∧
    (∀ i ts s', addTrustedIssuer s i ts = .ok s' →
      s'.topics = s.topics ∧ (∀ i', i' ∈ s'.issuers ↔ (i' ∈ s.issuers ∨ i' = i)) ∧
      ∀ i' t, rel s' i' t ↔ (rel s i' t ∨ (i' = i ∧ t ∈ ts))) ∧
    (∀ i s', removeTrustedIssuer s i = .ok s' →
      s'.topics = s.topics ∧ (∀ i', i' ∈ s'.issuers ↔ (i' ∈ s.issuers ∧ i' ≠ i)) ∧
      ∀ i' t, rel s' i' t ↔ (rel s i' t ∧ i' ≠ i)) ∧
    (∀ i ts s', updateIssuerClaimTopics s i ts = .ok s' →
      s'.topics = s.topics ∧ s'.issuers = s.issuers ∧
      ∀ i' t, rel s' i' t ↔ ((i' = i ∧ t ∈ ts) ∨ (i' ≠ i ∧ rel s i' t))) := by
  refine ⟨?_, ?_, ?_, ?_, ?_⟩
  · intro t s' h
    obtain ⟨_, rfl⟩ := (addClaimTopic_ok_iff s s' t).1 h
    exact ⟨fun t' => by simp [addTopic'], rfl, fun _ _ => Iff.rfl⟩
  · intro t s' h
    obtain ⟨_, rfl⟩ := (removeClaimTopic_ok_iff s s' t).1 h
    refine ⟨fun t' => ?_, rfl, fun i t' => ?_⟩
    · show t' ∈ s.topics.erase t ↔ _
      rw [hI.tN.mem_erase_iff]; exact And.comm
    · show memO (dropTopicFromIssuers s t i) t' ↔ _
      unfold dropTopicFromIssuers
      split
      · exact memO_map_erase (hI.itN i) t t'
      · rename_i hn
        have hnone : s.issuerTopics i = none := by
          have := (not_congr (hI.itDom i)).2 hn; simpa using this
        rw [rel_iff, hnone]
        exact ⟨fun h => absurd h (memO_none _), fun h => absurd h.1 (memO_none _)⟩
  · intro i ts s' h
    obtain ⟨⟨_, _, hn⟩, rfl⟩ := (addTrustedIssuer_ok_iff hI s' i ts).1 h
    refine ⟨rfl, fun i' => by simp [addIssuer'], fun i' t => ?_⟩
    show memO (updD s.issuerTopics i (some ts) i') t ↔ _
    have hnone : s.issuerTopics i = none := by
      have := (not_congr (hI.itDom i)).2 hn; simpa using this
    by_cases hi : i' = i
    · subst hi
      rw [updD_same, memO_some, rel_iff, hnone]
      exact ⟨fun h => Or.inr ⟨rfl, h⟩, fun h => h.elim (fun h => absurd h (memO_none _)) (fun h => h.2)⟩
    · rw [updD_other _ _ _ _ hi]
      exact ⟨fun h => Or.inl h, fun h => h.elim id (fun h => absurd h.1 hi)⟩
  · intro i s' h
    obtain ⟨_, its, _, rfl⟩ := (removeTrustedIssuer_ok_iff hI s' i).1 h
    refine ⟨rfl, fun i' => ?_, fun i' t => ?_⟩
    · show i' ∈ s.issuers.erase i ↔ _
      rw [hI.iN.mem_erase_iff]; exact And.comm
    · show memO (updD s.issuerTopics i none i') t ↔ _
      by_cases hi : i' = i
      · subst hi; rw [updD_same]
        exact ⟨fun h => absurd h (memO_none _), fun h => absurd rfl h.2⟩
      · rw [updD_other _ _ _ _ hi]
        exact ⟨fun h => ⟨h, hi⟩, fun h => h.1⟩
  · intro i ts s' h
    obtain ⟨_, old, _, rfl⟩ := (update_ok_iff hI s' i ts).1 h
    refine ⟨rfl, rfl, fun i' t => ?_⟩
    show memO (updD s.issuerTopics i (some ts) i') t ↔ _
    by_cases hi : i' = i
    · subst hi; rw [updD_same, memO_some]
      exact ⟨fun h => Or.inl ⟨rfl, h⟩, fun h => h.elim (fun h => h.2) (fun h => absurd rfl h.1)⟩
    · rw [updD_other _ _ _ _ hi]
      exact ⟨fun h => Or.inr ⟨hi, h⟩, fun h => h.elim (fun h => absurd h.1 hi) (fun h => h.2)⟩

/-- **topics_dup_refused.** A listed topic / issuer cannot be added again; a topic vector with a
repetition is refused. -/
theorem topics_dup_refused (s : State) (hs : Reachable s) :
    (∀ t, t ∈ s.topics → ∃ e, addClaimTopic s t = .error e) ∧
    (∀ i ts, i ∈ s.issuers → ∃ e, addTrustedIssuer s i ts = .error e) ∧
    (∀ i ts, ¬ ts.Nodup → (∃ e, addTrustedIssuer s i ts = .error e) ∧
                           ∃ e, updateIssuerClaimTopics s i ts = .error e) := by
  have hI := reachable_inv hs
  refine ⟨?_, ?_, ?_⟩
  · intro t ht
    exact err_of_not_ok (fun s' h => ((addClaimTopic_ok_iff s s' t).1 h).1.2 ht)
  · intro i ts hi
    exact err_of_not_ok (fun s' h => ((addTrustedIssuer_ok_iff hI s' i ts).1 h).1.2.2 hi)
  · intro i ts hnd
    exact ⟨err_of_not_ok (fun s' h => hnd ((addTrustedIssuer_ok_iff hI s' i ts).1 h).1.1.2.2.1),
           err_of_not_ok (fun s' h => hnd ((update_ok_iff hI s' i ts).1 h).1.1.2.2.1)⟩

/-- **topics_absent_refused.** Removing an unlisted topic or issuer, updating an unlisted issuer,
or naming an unlisted topic is refused. -/
theorem topics_absent_refused (s : State) (hs : Reachable s) :
    (∀ t, t ∉ s.topics → ∃ e, removeClaimTopic s t = .error e) ∧
    (∀ i, i ∉ s.issuers → ∃ e, removeTrustedIssuer s i = .error e) ∧
    (∀ i ts, i ∉ s.issuers → ∃ e, updateIssuerClaimTopics s i ts = .error e) ∧
    (∀ i ts t, t ∈ ts → t ∉ s.topics → (∃ e, addTrustedIssuer s i ts = .error e) ∧
                                        ∃ e, updateIssuerClaimTopics s i ts = .error e) := by
  have hI := reachable_inv hs
  refine ⟨?_, ?_, ?_, ?_⟩
  · intro t ht
    exact err_of_not_ok (fun s' h => ht ((removeClaimTopic_ok_iff s s' t).1 h).1)
  · intro i hi
    exact err_of_not_ok (fun s' h => hi ((removeTrustedIssuer_ok_iff hI s' i).1 h).1)
  · intro i ts hi
    exact err_of_not_ok (fun s' h => hi ((update_ok_iff hI s' i ts).1 h).1.2)
  · intro i ts t ht hn
    exact ⟨err_of_not_ok (fun s' h => hn (((addTrustedIssuer_ok_iff hI s' i ts).1 h).1.1.2.2.2 t ht)),
           err_of_not_ok (fun s' h => hn (((update_ok_iff hI s' i ts).1 h).1.1.2.2.2 t ht))⟩

/-- **topics_limit_exact.** In a reachable state a new topic is accepted exactly while fewer than
`MAX_CLAIM_TOPICS = 15` are listed (the 15th accepted, the 16th refused), and a new issuer with
a valid topic vector exactly while fewer than `MAX_ISSUERS = 50` are listed. -/
theorem topics_limit_exact (s : State) (hs : Reachable s) :
    (∀ t, t ∉ s.topics →
      ((∃ s', addClaimTopic s t = .ok s') ↔ s.topics.length < 15) ∧
      (s.topics.length = 14 → ∃ s', addClaimTopic s t = .ok s') ∧
      (s.topics.length = 15 → ∃ e, addClaimTopic s t = .error e)) ∧
    (∀ i ts, i ∉ s.issuers → ts ≠ [] → ts.Nodup → (∀ t, t ∈ ts → t ∈ s.topics) →
      ((∃ s', addTrustedIssuer s i ts = .ok s') ↔ s.issuers.length < 50) ∧
      (s.issuers.length = 49 → ∃ s', addTrustedIssuer s i ts = .ok s') ∧
      (s.issuers.length = 50 → ∃ e, addTrustedIssuer s i ts = .error e)) := by
  have hI := reachable_inv hs
  constructor
  · intro t ht
    have key : (∃ s', addClaimTopic s t = .ok s') ↔ s.topics.length < 15 := by
      constructor
      · rintro ⟨s', h⟩; exact ((addClaimTopic_ok_iff s s' t).1 h).1.1
      · intro hl; exact ⟨_, (addClaimTopic_ok_iff s _ t).2 ⟨⟨hl, ht⟩, rfl⟩⟩
    refine ⟨key, fun h => key.2 (by omega), fun h => ?_⟩
    exact err_of_not_ok (fun s' h' => by have := key.1 ⟨s', h'⟩; omega)
  · intro i ts hi hne hnd hsub
    have hlen : ts.length ≤ MAX_CLAIM_TOPICS := by
      -- a duplicate-free vector of listed topics is no longer than the list of topics
      exact Nat.le_trans (nodup_subset_length ts s.topics hnd hsub) hI.tLe
    have key : (∃ s', addTrustedIssuer s i ts = .ok s') ↔ s.issuers.length < 50 := by
      constructor
      · rintro ⟨s', h⟩; exact ((addTrustedIssuer_ok_iff hI s' i ts).1 h).1.2.1
      · intro hl
        exact ⟨_, (addTrustedIssuer_ok_iff hI _ i ts).2 ⟨⟨⟨hne, hlen, hnd, hsub⟩, hl, hi⟩, rfl⟩⟩
    refine ⟨key, fun h => key.2 (by omega), fun h => ?_⟩
    exact err_of_not_ok (fun s' h' => by have := key.1 ⟨s', h'⟩; omega)

/-- **topics_enumerates_once.** In a reachable state index access into each of the stored vectors
is a bijection between `0..len-1` and the set it represents: the topic list, the issuer list,
the issuers of a topic (= the issuers related to it) and the topics of an issuer. -/
theorem topics_enumerates_once (s : State) (hs : Reachable s) :
    (∀ (i j : Nat) t, s.topics[i]? = some t → s.topics[j]? = some t → i = j) ∧
    (∀ (i j : Nat) x, s.issuers[i]? = some x → s.issuers[j]? = some x → i = j) ∧
    (∀ t l, s.topicIssuers t = some l →
      (∀ x, rel s x t ↔ ∃ i : Nat, l[i]? = some x) ∧
      ∀ (i j : Nat) x, l[i]? = some x → l[j]? = some x → i = j) ∧
    (∀ x l, s.issuerTopics x = some l →
      (∀ t, rel s x t ↔ ∃ i : Nat, l[i]? = some t) ∧
      ∀ (i j : Nat) t, l[i]? = some t → l[j]? = some t → i = j) := by
  have hI := reachable_inv hs
  refine ⟨nodup_index_inj _ hI.tN, nodup_index_inj _ hI.iN, ?_, ?_⟩
  · intro t l hl
    refine ⟨fun x => ?_, nodup_index_inj _ (hI.tiN t l hl)⟩
    rw [rel_iff, hI.twoWay, hl, memO_some]; exact List.mem_iff_getElem?
  · intro x l hl
    refine ⟨fun t => ?_, nodup_index_inj _ (hI.itN x l hl)⟩
    rw [rel_iff, hl, memO_some]; exact List.mem_iff_getElem?

/-- **topics_two_way_consistent.** After any history: issuer ∈ `ClaimTopicIssuers(topic)` ⇔
topic ∈ `IssuerClaimTopics(issuer)`; every related topic is a listed topic and every related
issuer a trusted issuer. -/
theorem topics_two_way_consistent (ops : List Op) (i t : Nat) :
    let s := run init ops
    ((∃ l, s.topicIssuers t = some l ∧ i ∈ l) ↔ (∃ l, s.issuerTopics i = some l ∧ t ∈ l)) ∧
    (rel s i t → t ∈ s.topics ∧ i ∈ s.issuers) := by
  intro s
  have hI : Inv s := inv_run inv_init ops
  refine ⟨(hI.twoWay i t).symm, fun h => ⟨hI.itSub i t h, (hI.itDom i).1 (memO_isSome h)⟩⟩

/-! ### non-vacuity -/

def okB (r : Except RErr State) : Bool := match r with | .ok _ => true | .error _ => false

/-- fifteen topics are accepted, the sixteenth is not; an issuer for two of them is mirrored -/
example :
    let s := run init ((List.range 15).map Op.addTopic ++ [Op.addIssuer 7 [3, 1]])
    s.topics.length = 15 ∧ okB (addClaimTopic s 15) = false ∧
    s.topicIssuers 3 = some [7] ∧ s.issuerTopics 7 = some [3, 1] ∧
    (next s (.removeTopic 3)).issuerTopics 7 = some [1] := by decide +kernel

end OZ.Props.C20b
