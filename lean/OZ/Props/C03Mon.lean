import OZ.Lemmas.SmartAccountMonCheck
import OZ.Lemmas.SmartAccountMonFp
/-
C03 — soundness of the MONITOR that decides the property on implementation traces.

`./check C03` reports a concrete violation exactly when `OZ.SmartAccount.Mon.checkCore` (the
driver's monitor on parsed values, OZ/Model/SmartAccountMon.lean) returns a message on the
implementation's observations (or a line does not parse). Here it is proved that on the
observations of the MODEL the monitor never returns a message, for every sequence label (start
ledger, constructor signers and policies), and every finite history of op lines — any scripting
of the mock verifiers / policies, any ledger movement, any management operation (accepted or
rejected), any `check` / `e2e` with any signature map, delegated authorizations and context batch
(`monitor_accepts_every_model_trace`). Consequences:

  * an implementation whose observations agree with the model's (the correspondence the check
    establishes by differential testing) can never raise a monitor alarm — a monitor failure is
    never a false alarm of the monitor itself;
  * every conclusion the monitor evaluates is a THEOREM about the model in the monitor's own
    executable wording (its own rule list, candidates recomputed by filtering and SORTING):
      accepted check:  c03.sound.signature (every supplied signature verifies),
                       c03.sound.verified (the verifier was asked for exactly the supplied external signatures),
                       c03.sound.uncovered (every context has a first satisfied live candidate),
                       c03.foreign (a policy only ever sees rule signers ∩ supplied),
                       c03.sound.enforce (enforce calls = policies of the first satisfied rules, in order, once per context),
                       c03.precedence (can_enforce questions in precedence order, stopping at the first satisfied rule);
      rejected check:  c03.complete (rejected only if a signature fails, a context is uncovered, or a hook's budget refuses),
                       c03.foreign;
      every line:      c03.getters (get_context_rules per type, get_context_rule per id, count = the accepted management history),
                       c03.limits (15 rules / 15 signers / 5 policies / non-empty), c03.idle.changed (ledger moves change nothing);
      accepted management op: c03.fingerprint.duplicate (no two rules with the same type, signer set, policy set).

`modelObs` (OZ/Model/SmartAccountMon.lean) is the same data the model side of the driver prints
(`stepLine` = `obsLine` of `mstep`: ok / err, id, now, log, `showStore` = Count, the ids
0 .. NextId+1, `get_context_rules` of the seven types of the universe).

Not covered (string level, in the driver OZ/Drv/C03.lean): `parseMOp` / `parseObs` / `parseLabel`
(site c03.parse), the `flagged` bit for lines containing `!` / `?`, and the treatment of log entries
that are not in canonical form (`LEv.other`).

FINDING (`legacy_minit_false_alarm`): before this work the monitor's initial ghost list always
contained rule 0, also for a label whose constructor arguments the account rejects (no signer and
no policy, a duplicate signer, more than 15 signers / 5 policies); the model then starts from the
empty store and the old monitor reported `c03.getters` on the model's first observation. The
harness never writes such a label (the real constructor would trap), so no run of `./check C03`
was affected; `monInit` now starts from the empty list in that case (`ctorOk`).

Property theorems only; helper facts come from OZ/Lemmas/SmartAccountMon{,Check,Mgmt,Fp}.lean.
-/
namespace OZ.SmartAccount.Mon
open OZ.SmartAccount

/-- monitor state and model state describe the same point of a history: the monitor's own rule
list is the list of all stored rules by ascending id; the mock tables are the same -/
structure Agree (m : Mon) (st : St) : Prop where
  rules : m.rules = allRules st.s
  mocks : m.mocks = st.mocks

/-- the invariants of a reachable model state: the storage invariant of OZ/Props/C03.lean and the
fingerprint invariant -/
structure Good (st : St) : Prop where
  inv : Inv st.s
  fp : FpInv st.s

theorem mgmtRes_good {st : St} (hG : Good st) (r : Except Err Store) (id : Option Nat) (log : List LEv)
    (h : ∀ s', r = .ok s' → Inv s' ∧ FpInv s') : Good (mgmtRes st r id log).1 := by
  unfold mgmtRes
  cases r with
  | error e => exact hG
  | ok s' => exact ⟨(h s' rfl).1, (h s' rfl).2⟩

/-- every op line keeps the model state good -/
theorem mstep_good {st : St} (hG : Good st) (op : MOp) : Good (mstep st op).1 := by
  cases op with
  | setter u => exact ⟨hG.inv, hG.fp⟩
  | ledger seq => exact ⟨hG.inv, hG.fp⟩
  | add t vu sg pm =>
    show Good (addRes st _).1
    unfold addRes
    cases h : addContextRule st.s st.now t 0 vu sg pm (fun p => !(st.mocks.pol p).installTrap) with
    | error e => exact hG
    | ok p =>
      obtain ⟨s', r⟩ := p
      exact ⟨addContextRule_inv hG.inv h, addContextRule_fpInv hG.fp h⟩
  | rm id => exact mgmtRes_good hG _ _ _ (fun s' h => ⟨removeContextRule_inv hG.inv h, removeContextRule_fpInv hG.fp h⟩)
  | vu id vu => exact mgmtRes_good hG _ _ _ (fun s' h => ⟨updateValidUntil_inv hG.inv h, updateValidUntil_fpInv hG.fp h⟩)
  | name id => exact mgmtRes_good hG _ _ _ (fun s' h => ⟨updateName_inv hG.inv h, updateName_fpInv hG.fp h⟩)
  | adds id x => exact mgmtRes_good hG _ _ _ (fun s' h => ⟨addSigner_inv hG.inv h, addSigner_fpInv hG.fp h⟩)
  | rms id x => exact mgmtRes_good hG _ _ _ (fun s' h => ⟨removeSigner_inv hG.inv h, removeSigner_fpInv hG.fp h⟩)
  | addp id p => exact mgmtRes_good hG _ _ _ (fun s' h => ⟨addPolicy_inv hG.inv h, addPolicy_fpInv hG.fp h⟩)
  | rmp id p => exact mgmtRes_good hG _ _ _ (fun s' h => ⟨removePolicy_inv hG.inv h, removePolicy_fpInv hG.fp h⟩)
  | check sigs auth ctxs =>
    show Good (checkRes st _ _).1
    unfold checkRes
    cases doCheckAuth (oracleOf st.mocks auth) st.s st.now sigs ctxs with
    | error e => exact hG
    | ok calls => exact ⟨hG.inv, hG.fp⟩

/-- a management line (other than `add`): verdict none and agreement kept, given how the accepted
operation changes the ghost list -/
theorem mgmt_sound {m : Mon} {st : St} (hG : Good st) (ha : Agree m st) (op : MOp) (r : Except Err Store)
    (id : Option Nat) (log : List LEv)
    (hcore : ∀ o, checkCore m op o =
      ({ rules := if o.ok then ghostApply m.rules op o else m.rules, now := o.now, mocks := m.mocks },
       mgmtVerdict (if o.ok then ghostApply m.rules op o else m.rules) o))
    (hgood : ∀ s', r = .ok s' → Inv s' ∧ FpInv s')
    (hghost : ∀ s' o, r = .ok s' → o.id = id → ghostApply (allRules st.s) op o = allRules s') :
    (checkCore m op (modelObs (mgmtRes st r id log).1 (mgmtRes st r id log).2)).2 = none ∧
    Agree (checkCore m op (modelObs (mgmtRes st r id log).1 (mgmtRes st r id log).2)).1 (mgmtRes st r id log).1 := by
  rw [hcore]
  cases r with
  | error e =>
    have hok : (modelObs (mgmtRes st (.error e) id log).1 (mgmtRes st (.error e) id log).2).ok = false := rfl
    rw [hok]
    simp only [Bool.false_eq_true, if_false]
    refine ⟨?_, ha.rules, ha.mocks⟩
    unfold mgmtVerdict
    rw [ha.rules, hok]
    show firstSome (getterCheck (allRules st.s) (modelObs st _)) _ = none
    rw [getterCheck_quiet hG.inv]; rfl
  | ok s' =>
    have hok : (modelObs (mgmtRes st (.ok s') id log).1 (mgmtRes st (.ok s') id log).2).ok = true := rfl
    rw [hok]
    simp only [if_true]
    rw [ha.rules, hghost s' _ rfl rfl]
    refine ⟨?_, rfl, ha.mocks⟩
    unfold mgmtVerdict
    rw [hok]
    show firstSome (getterCheck (allRules s') (modelObs { st with s := s' } _)) _ = none
    rw [getterCheck_quiet (st := { st with s := s' }) (hgood s' rfl).1, if_pos rfl,
      fingerprintCheck_quiet (hgood s' rfl).2]
    rfl

/-- **one line**: fed with the model's own observation of any op line, the monitor reports nothing
and its state keeps describing the model's -/
theorem monitor_sound_step {m : Mon} {st : St} (hG : Good st) (ha : Agree m st) (op : MOp) :
    (checkCore m op (modelObs (mstep st op).1 (mstep st op).2)).2 = none ∧
    Agree (checkCore m op (modelObs (mstep st op).1 (mstep st op).2)).1 (mstep st op).1 := by
  cases op with
  | setter u =>
    refine ⟨?_, ha.rules, ?_⟩
    · show getterCheck m.rules (modelObs { st with mocks := applySetter st.mocks u } _) = none
      rw [ha.rules]; exact getterCheck_quiet (st := { st with mocks := applySetter st.mocks u }) hG.inv _
    · show applySetter m.mocks u = applySetter st.mocks u
      rw [ha.mocks]
  | ledger seq =>
    refine ⟨?_, ha.rules, ha.mocks⟩
    show idleMsg _ (getterCheck m.rules (modelObs { st with now := seq.getD st.now } _)) = none
    rw [ha.rules, getterCheck_quiet (st := { st with now := seq.getD st.now }) hG.inv]; rfl
  | check sigs auth ctxs =>
    have hI := hG.inv
    show (checkCore m (.check sigs auth ctxs) (modelObs (checkRes st _ _).1 (checkRes st _ _).2)).2 = none ∧
      Agree (checkCore m (.check sigs auth ctxs) (modelObs (checkRes st _ _).1 (checkRes st _ _).2)).1 (checkRes st _ _).1
    have hmon : ({ m with now := st.now } : Mon) = { rules := allRules st.s, now := st.now, mocks := st.mocks } := by
      rw [← ha.rules, ← ha.mocks]
    cases hd : doCheckAuth (oracleOf st.mocks auth) st.s st.now sigs ctxs with
    | error e =>
      unfold checkRes
      dsimp only
      refine ⟨?_, ha.rules, ?_⟩
      · show firstSome (checkAuthMon { m with now := st.now } sigs auth ctxs _) (getterCheck m.rules (modelObs st _)) = none
        rw [hmon, checkAuthMon_quiet hI st.now st.mocks sigs auth ctxs _ (by rw [hd]; rfl) rfl, ha.rules,
          getterCheck_quiet hI]
        rfl
      · show m.mocks.spend [] = st.mocks
        rw [ha.mocks]; rfl
    | ok calls =>
      unfold checkRes
      dsimp only
      refine ⟨?_, ha.rules, ?_⟩
      · show firstSome (checkAuthMon { m with now := st.now } sigs auth ctxs _)
          (getterCheck m.rules (modelObs { st with mocks := st.mocks.spend (calls.map (·.policy)) } _)) = none
        rw [hmon, checkAuthMon_quiet hI st.now st.mocks sigs auth ctxs _ (by rw [hd]; rfl) rfl, ha.rules,
          getterCheck_quiet (st := { st with mocks := st.mocks.spend (calls.map (·.policy)) }) hI]
        rfl
      · show m.mocks.spend (((((checkTrace (oracleOf st.mocks auth) st.s st.now sigs ctxs).1.filterMap toLEv).filter LEv.isE).filterMap polOfLEv))
          = st.mocks.spend (calls.map (·.policy))
        rw [log_enforce_ok hI hd, pols_of_enforce_log, ha.mocks]
  | add t vu sg pm =>
    show (checkCore m (.add t vu sg pm) (modelObs (addRes st _).1 (addRes st _).2)).2 = none ∧
      Agree (checkCore m (.add t vu sg pm) (modelObs (addRes st _).1 (addRes st _).2)).1 (addRes st _).1
    cases h : addContextRule st.s st.now t 0 vu sg pm (fun p => !(st.mocks.pol p).installTrap) with
    | error e => exact mgmt_sound hG ha _ (.error e) none [] (fun _ => rfl) (fun _ h => by cases h) (fun _ _ h => by cases h)
    | ok p =>
      obtain ⟨s', r⟩ := p
      exact mgmt_sound hG ha _ (.ok s') (some r.id) _ (fun _ => rfl)
        (fun s'' e => by injection e with e; subst e; exact ⟨addContextRule_inv hG.inv h, addContextRule_fpInv hG.fp h⟩)
        (fun s'' o e hid => by
          injection e with e; subst e
          -- the observation of an accepted `add` carries the new id
          show ghostAdd (allRules st.s) o.id t vu sg pm = allRules s'
          rw [hid]; exact (ghost_add h).symm)
  | rm id =>
    exact mgmt_sound hG ha _ _ _ _ (fun _ => rfl)
      (fun s' h => ⟨removeContextRule_inv hG.inv h, removeContextRule_fpInv hG.fp h⟩)
      (fun s' _ h _ => (ghost_rm h).symm)
  | vu id vu =>
    exact mgmt_sound hG ha _ _ _ _ (fun _ => rfl)
      (fun s' h => ⟨updateValidUntil_inv hG.inv h, updateValidUntil_fpInv hG.fp h⟩)
      (fun s' _ h _ => (ghost_vu h).symm)
  | name id =>
    exact mgmt_sound hG ha _ _ _ _ (fun _ => rfl)
      (fun s' h => ⟨updateName_inv hG.inv h, updateName_fpInv hG.fp h⟩)
      (fun s' _ h _ => (ghost_name h).symm)
  | adds id x =>
    exact mgmt_sound hG ha _ _ _ _ (fun _ => rfl)
      (fun s' h => ⟨addSigner_inv hG.inv h, addSigner_fpInv hG.fp h⟩)
      (fun s' _ h _ => (ghost_adds h).symm)
  | rms id x =>
    exact mgmt_sound hG ha _ _ _ _ (fun _ => rfl)
      (fun s' h => ⟨removeSigner_inv hG.inv h, removeSigner_fpInv hG.fp h⟩)
      (fun s' _ h _ => (ghost_rms hG.inv h).symm)
  | addp id p =>
    exact mgmt_sound hG ha _ _ _ _ (fun _ => rfl)
      (fun s' h => ⟨addPolicy_inv hG.inv h, addPolicy_fpInv hG.fp h⟩)
      (fun s' _ h _ => (ghost_addp h).symm)
  | rmp id p =>
    exact mgmt_sound hG ha _ _ _ _ (fun _ => rfl)
      (fun s' h => ⟨removePolicy_inv hG.inv h, removePolicy_fpInv hG.fp h⟩)
      (fun s' _ h _ => (ghost_rmp hG.inv h).symm)

/-! ### the start of a sequence -/

/-- the initial monitor state built by `minit` describes the initial model state built by `init` -/
theorem init_agree (start : Nat) (s0 : List Signer) (p0 : List Nat) :
    Good (initSt start s0 p0) ∧ Agree (monInit s0 p0) (initSt start s0 p0) := by
  obtain ⟨hok, herr⟩ := ctor_result start s0 p0
  have hrules : (monInit s0 p0).rules
      = if ctorOk s0 p0 = true then [⟨0, .default, none, s0, sortDedup p0⟩] else [] := rfl
  by_cases hc : ctorOk s0 p0 = true
  · obtain ⟨s', r, h, hid⟩ := hok hc
    have hst : initSt start s0 p0 = ⟨s', start, {}⟩ := by unfold initSt; rw [h]; rfl
    rw [hst]
    refine ⟨⟨addContextRule_inv inv_empty h, addContextRule_fpInv fpInv_empty h⟩, ?_, rfl⟩
    rw [hrules, if_pos hc]
    show _ = allRules s'
    rw [ghost_add h, hid, allRules_empty]
    rfl
  · have hc' : ctorOk s0 p0 = false := by simpa using hc
    obtain ⟨e, h⟩ := herr hc'
    have hst : initSt start s0 p0 = ⟨Store.empty, start, {}⟩ := by unfold initSt; rw [h]; rfl
    rw [hst]
    refine ⟨⟨inv_empty, fpInv_empty⟩, ?_, rfl⟩
    rw [hrules, if_neg hc]
    rfl

/-! ### whole traces -/

/-- the monitor run over a whole history of model observations: first message, if any -/
def monitorRun : Mon → St → List MOp → Option String
  | _, _, [] => none
  | m, st, op :: ops =>
    match (checkCore m op (modelObs (mstep st op).1 (mstep st op).2)).2 with
    | some msg => some msg
    | none => monitorRun (checkCore m op (modelObs (mstep st op).1 (mstep st op).2)).1 (mstep st op).1 ops

/-- **monitor soundness**: for every sequence label (start ledger, constructor signers and policies
— valid or not) and every finite history of op lines, the monitor reports nothing on the model's
observations -/
theorem monitor_accepts_every_model_trace (start : Nat) (s0 : List Signer) (p0 : List Nat) (ops : List MOp) :
    monitorRun (monInit s0 p0) (initSt start s0 p0) ops = none := by
  suffices ∀ m st, Good st → Agree m st → monitorRun m st ops = none from
    this _ _ (init_agree start s0 p0).1 (init_agree start s0 p0).2
  induction ops with
  | nil => intro m st _ _; rfl
  | cons op ops ih =>
    intro m st hG ha
    obtain ⟨h1, h2⟩ := monitor_sound_step hG ha op
    unfold monitorRun
    rw [h1]
    exact ih _ _ (mstep_good hG op) h2

/-- the same from any reachable point: any good model state and any monitor state agreeing with it -/
theorem monitor_accepts_from (m : Mon) (st : St) (hG : Good st) (ha : Agree m st) (ops : List MOp) :
    monitorRun m st ops = none := by
  induction ops generalizing m st with
  | nil => rfl
  | cons op ops ih =>
    obtain ⟨h1, h2⟩ := monitor_sound_step hG ha op
    unfold monitorRun
    rw [h1]
    exact ih _ _ (mstep_good hG op) h2

/-! ### FINDING: the monitor's initial state before this work

`legacyMonInit` always put rule 0 into the ghost list. For the label `s0=- p0=-` (a constructor
call the account rejects: no signer and no policy) the model starts from the empty store; on the
model's observation of the very first line (here `sa ledger`) the old monitor reports
`site=c03.idle.changed … was=c03.getters get_context_rules disagree with the accepted management
history` — a false alarm on a MODEL trace. The repaired `monInit` is silent. (Outside the harness
universe: every label the harness writes has a valid constructor call.) -/

theorem legacy_minit_false_alarm :
    (checkCore (legacyMonInit [] []) (.ledger none)
      (modelObs (mstep (initSt 100 [] []) (.ledger none)).1 (mstep (initSt 100 [] []) (.ledger none)).2)).2.isSome = true ∧
    (checkCore (monInit [] []) (.ledger none)
      (modelObs (mstep (initSt 100 [] []) (.ledger none)).1 (mstep (initSt 100 [] []) (.ledger none)).2)).2 = none := by
  have hobs : modelObs (mstep (initSt 100 [] []) (.ledger none)).1 (mstep (initSt 100 [] []) (.ledger none)).2
      = ⟨true, none, 100, [], 0, [], [], false⟩ := rfl
  rw [hobs]
  constructor
  · simp [checkCore, legacyMonInit, getterCheck, expectRules, typeUniverse, byIdAsc, sortDedup, idleMsg]
  · exact (monitor_sound_step (m := monInit [] []) (init_agree 100 [] []).1 (init_agree 100 [] []).2 (.ledger none)).1

/-! ### non-vacuity (tests, labelled as such): the monitor is not trivially silent -/

/-- rule 0 = Default {d0}; a check with d0's signature but WITHOUT d0's authorization is reported accepted -/
example :
    (checkCore (monInit [.delegated 0] []) (.check [(.delegated 0, 1)] [] [.call 0 0])
      ⟨true, none, 100, [], 1, [(0, .default)], [⟨0, .default, none, [.delegated 0], []⟩], false⟩).2.isSome = true := by
  simp [checkCore, firstSome, checkAuthMon, verdictOk, allValid, sigValid, monInit, ctorOk, hasDup, sortDedup]

/-- the same check with the authorization, but a stranger's signature set: no rule is satisfied -/
example :
    (checkCore (monInit [.delegated 0] []) (.check [(.delegated 1, 1)] [1] [.call 0 0])
      ⟨true, none, 100, [], 1, [(0, .default)], [⟨0, .default, none, [.delegated 0], []⟩], false⟩).2.isSome = true := by
  simp [checkCore, firstSome, checkAuthMon, verdictOk, allValid, sigValid, monInit, ctorOk, hasDup, sortDedup,
    expVerif, covered, chosenOf, candidates, byIdDesc, live, typeOf, satisfied]

/-- a rejected check although d0 signed and authorized and rule 0 covers the context -/
example :
    (checkCore (monInit [.delegated 0] []) (.check [(.delegated 0, 1)] [0] [.call 0 0])
      ⟨false, none, 100, [], 1, [(0, .default)], [⟨0, .default, none, [.delegated 0], []⟩], false⟩).2.isSome = true := by
  simp [checkCore, firstSome, checkAuthMon, verdictErr, allValid, sigValid, monInit, ctorOk, hasDup, sortDedup,
    covered, chosenOf, candidates, byIdDesc, live, typeOf, satisfied, enforceAllowed, expEnforcePols, polsOfOne]

/-- a getter that lost the rule -/
example :
    (checkCore (monInit [.delegated 0] []) (.ledger (some 101)) ⟨true, none, 101, [], 1, [(0, .default)], [], false⟩).2.isSome = true := by
  simp [checkCore, idleMsg, getterCheck, monInit, ctorOk, hasDup, sortDedup, expectRules, typeUniverse, byIdAsc]

end OZ.SmartAccount.Mon
