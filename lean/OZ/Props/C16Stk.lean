import OZ.Lemmas.GatesStk
/-
C16, machine `stk` — an entry point that stacks an authorization guard (`#[only_owner]`, `#[only_admin]`,
`#[only_role(caller, "op")]`) and a pause guard (`#[when_not_paused]`, `#[when_paused]`) is subject to BOTH,
whatever the order in which the two attributes are written.

Property theorems only (helper lemmas: OZ/Lemmas/GatesStk.lean). The model (OZ/Model/GatesStk.lean) mirrors
the expansions of the attribute macros of packages/macros (each re-emits the attributes still attached to
the function, so every guard is injected; the guard written below runs first) on the harness contract
`stk::Stacked`: `inc_a`/`inc_b`/`reset_a`/`reset_b` (owner), `inc_c`/`inc_d`/`reset_c`/`reset_d` (admin),
`inc_r`/`inc_r2`/`reset_r`/`reset_r2` (role "op"); `_a`, `_c`, `_r`: authorization guard on top, `_b`, `_d`,
`_r2`: pause guard on top. Every statement is for all states, all authorizing subsets, all callers, and —
where it speaks about histories — all finite operation lists.
-/
namespace OZ.Gates.Stk
open OZ.Host OZ.Fungible OZ.Gates

/-- **stacked_accepted_iff**: a guarded entry point is accepted exactly when the contract is in the pause
state its pause attribute names AND the principal of its authorization attribute authorized (and, for an
`inc_*`, the `i32` counter has room) — for all twelve entry points, i.e. for both orders of the attributes -/
theorem stacked_accepted_iff (s : Stk) (auth : List Nat) (f : Fn) (caller : Nat) :
    (∃ s', s.call auth f caller = .ok s') ↔
      s.p.paused = f.spec.needPaused ∧ Authorized s auth caller f.spec.who ∧
      (f.isInc = true → s.counter + 1 ≤ I32_MAX) := by
  constructor
  · rintro ⟨s', h⟩
    obtain ⟨h1, h2, hb⟩ := call_iff.1 h
    exact ⟨h1, h2, fun hf => ((body_inc hf).1 hb).1⟩
  · rintro ⟨h1, h2, h3⟩
    cases hf : f.isInc
    · exact ⟨_, call_iff.2 ⟨h1, h2, (body_reset hf).2 rfl⟩⟩
    · exact ⟨_, call_iff.2 ⟨h1, h2, (body_inc hf).2 ⟨h3 hf, rfl⟩⟩⟩

/-- **stacked_inc_needs_both**: an accepted `inc_*` implies NOT paused and the principal's authorization;
its only effect is counter + 1 -/
theorem stacked_inc_needs_both (s s' : Stk) (auth : List Nat) (f : Fn) (caller : Nat) (hf : f.isInc = true)
    (h : s.call auth f caller = .ok s') :
    s.p.paused = false ∧ Authorized s auth caller f.spec.who ∧ s' = { s with counter := s.counter + 1 } := by
  obtain ⟨h1, h2, hb⟩ := call_iff.1 h
  refine ⟨?_, h2, ((body_inc hf).1 hb).2⟩
  rw [h1, needPaused_eq, hf]; rfl

/-- **stacked_reset_needs_both**: an accepted `reset_*` implies paused and the principal's authorization;
its only effect is counter := 0 -/
theorem stacked_reset_needs_both (s s' : Stk) (auth : List Nat) (f : Fn) (caller : Nat) (hf : f.isInc = false)
    (h : s.call auth f caller = .ok s') :
    s.p.paused = true ∧ Authorized s auth caller f.spec.who ∧ s' = { s with counter := 0 } := by
  obtain ⟨h1, h2, hb⟩ := call_iff.1 h
  refine ⟨?_, h2, (body_reset hf).1 hb⟩
  rw [h1, needPaused_eq, hf]; rfl

/-- **stacked_paused_blocks**: while paused NO `inc_*` is accepted — whoever authorizes, whatever the order
of the attributes — and while not paused no `reset_*`; the refused call changes nothing -/
theorem stacked_paused_blocks (s : Stk) (auth : List Nat) (f : Fn) (caller : Nat) :
    (s.p.paused = true → f.isInc = true →
      (∀ s', s.call auth f caller ≠ .ok s') ∧ Stk.step s (auth, .call f caller) = s) ∧
    (s.p.paused = false → f.isInc = false →
      (∀ s', s.call auth f caller ≠ .ok s') ∧ Stk.step s (auth, .call f caller) = s) := by
  have key : s.p.paused ≠ f.spec.needPaused →
      (∀ s', s.call auth f caller ≠ .ok s') ∧ Stk.step s (auth, .call f caller) = s := by
    intro hne
    have h1 : ∀ s', s.call auth f caller ≠ .ok s' := fun s' h => hne (call_iff.1 h).1
    refine ⟨h1, ?_⟩
    unfold Stk.step
    simp only [Stk.apply]
    cases hc : s.call auth f caller with
    | error e => rfl
    | ok s' => exact (h1 s' hc).elim
  constructor
  · intro hp hf
    exact key (by rw [hp, needPaused_eq, hf]; decide)
  · intro hp hf
    exact key (by rw [hp, needPaused_eq, hf]; decide)

/-- **stacked_paused_blocks**, history form: while paused, NO sequence of `inc_*` calls (any of the six
entry points, any callers, any authorizations) changes anything -/
theorem stacked_paused_blocks_run (ops : List (List Nat × Fn × Nat)) (s : Stk) (hp : s.p.paused = true)
    (hinc : ∀ x ∈ ops, x.2.1.isInc = true) :
    Stk.run s (ops.map fun x => (x.1, Op.call x.2.1 x.2.2)) = s := by
  induction ops with
  | nil => rfl
  | cons x xs ih =>
    simp only [List.map_cons, Stk.run, List.foldl_cons]
    rw [((stacked_paused_blocks s x.1 x.2.1 x.2.2).1 hp (hinc x (by simp))).2]
    exact ih (fun y hy => hinc y (by simp [hy]))

/-- **stacked_order_irrelevant**: two entry points with the same principal, the same pause attribute and
the same body behave identically — the order of the attributes makes no difference (`inc_a` vs `inc_b`,
`reset_a` vs `reset_b`, `inc_c` vs `inc_d`, `inc_r` vs `inc_r2`, …) -/
theorem stacked_order_irrelevant (s s' : Stk) (auth : List Nat) (f g : Fn) (caller : Nat)
    (hw : f.spec.who = g.spec.who) (hp : f.spec.needPaused = g.spec.needPaused) (hb : f.isInc = g.isInc) :
    s.call auth f caller = .ok s' ↔ s.call auth g caller = .ok s' := by
  have hbody : s.body f = s.body g := by unfold Stk.body; rw [hb]
  rw [call_iff, call_iff, hw, hp, hbody]

/-- the six entry points of the work item, spelled out: `inc_a` = `#[only_owner]` above
`#[when_not_paused]`, `inc_b` the other way round, `reset_a` / `reset_b` with `#[when_paused]`, `inc_r` =
`#[only_role(caller, "op")]` above `#[when_not_paused]`, `inc_r2` the other way round -/
theorem stacked_named_entry_points (s : Stk) (auth : List Nat) (caller : Nat) :
    ((∃ s', s.call auth .incA caller = .ok s') ↔
      s.p.paused = false ∧ (∃ o, s.owner = some o ∧ o ∈ auth) ∧ s.counter + 1 ≤ I32_MAX) ∧
    ((∃ s', s.call auth .incB caller = .ok s') ↔
      s.p.paused = false ∧ (∃ o, s.owner = some o ∧ o ∈ auth) ∧ s.counter + 1 ≤ I32_MAX) ∧
    ((∃ s', s.call auth .resetA caller = .ok s') ↔ s.p.paused = true ∧ (∃ o, s.owner = some o ∧ o ∈ auth)) ∧
    ((∃ s', s.call auth .resetB caller = .ok s') ↔ s.p.paused = true ∧ (∃ o, s.owner = some o ∧ o ∈ auth)) ∧
    ((∃ s', s.call auth .incR caller = .ok s') ↔
      s.p.paused = false ∧ (s.isOp caller = true ∧ caller ∈ auth) ∧ s.counter + 1 ≤ I32_MAX) ∧
    ((∃ s', s.call auth .incR2 caller = .ok s') ↔
      s.p.paused = false ∧ (s.isOp caller = true ∧ caller ∈ auth) ∧ s.counter + 1 ≤ I32_MAX) := by
  refine ⟨?_, ?_, ?_, ?_, ?_, ?_⟩ <;> rw [stacked_accepted_iff] <;>
    simp [Fn.spec, Fn.isInc, Authorized]

/-- **stacked_pause_alternates**, one step: `pause` is accepted exactly while not paused, `unpause` exactly
while paused, either exactly when the caller is the owner and authorized; they flip the flag and nothing else -/
theorem stacked_pause_alternates_step (s s' : Stk) (auth : List Nat) (caller : Nat) :
    (s.apply auth (.pause caller) = .ok s' ↔
      s.p.paused = false ∧ s.owner = some caller ∧ caller ∈ auth ∧
      s' = { s with p := { paused := true, log := s.p.log ++ [.paused] } }) ∧
    (s.apply auth (.unpause caller) = .ok s' ↔
      s.p.paused = true ∧ s.owner = some caller ∧ caller ∈ auth ∧
      s' = { s with p := { paused := false, log := s.p.log ++ [.unpaused] } }) :=
  ⟨pause_iff, unpause_iff⟩

/-- **stacked_pause_alternates**, all histories: from deployment, the `paused` / `unpaused` events of ANY
operation list strictly alternate, starting with `paused`, and the flag is what the last of them says -/
theorem stacked_pause_alternates (owner admin opr : Nat) (ops : List (List Nat × Op)) :
    flagAfter (Stk.run (Stk.construct owner admin opr) ops).p.log =
      some (Stk.run (Stk.construct owner admin opr) ops).p.paused := by
  suffices ∀ s : Stk, flagAfter s.p.log = some s.p.paused →
      flagAfter (Stk.run s ops).p.log = some (Stk.run s ops).p.paused from this _ rfl
  induction ops with
  | nil => intro s hs; exact hs
  | cons x xs ih =>
    intro s hs
    simp only [Stk.run, List.foldl_cons]
    apply ih
    unfold Stk.step
    cases hx : s.apply x.1 x.2 with
    | error e => exact hs
    | ok s1 =>
      simp only
      rcases x with ⟨auth, o⟩
      cases o with
      | call f c =>
        obtain ⟨-, -, hb⟩ := call_iff.1 hx
        cases hf : f.isInc
        · rw [(body_reset hf).1 hb]; exact hs
        · rw [((body_inc hf).1 hb).2]; exact hs
      | pause c =>
        obtain ⟨hp, -, -, e⟩ := pause_iff.1 hx
        rw [e]
        exact pause_flag (p := s.p) (by simp only [pause, whenNotPaused_false hp]; rfl) hs
      | unpause c =>
        obtain ⟨hp, -, -, e⟩ := unpause_iff.1 hx
        rw [e]
        exact unpause_flag (p := s.p) (by simp only [unpause, whenPaused_true hp]; rfl) hs

/-- **stacked_unpause_restores**: an accepted `pause` followed by an accepted `unpause` gives back the same
counter, principals and flag (only the two events are added to the log), and every guarded entry point is
then accepted exactly when it was before the pause -/
theorem stacked_unpause_restores (s s1 s2 : Stk) (a1 a2 : List Nat) (c1 c2 : Nat)
    (h1 : s.apply a1 (.pause c1) = .ok s1) (h2 : s1.apply a2 (.unpause c2) = .ok s2) :
    s2.counter = s.counter ∧ s2.owner = s.owner ∧ s2.admin = s.admin ∧ s2.isOp = s.isOp ∧
    s2.p.paused = s.p.paused ∧ s2.p.log = s.p.log ++ [.paused, .unpaused] ∧
    ∀ auth f c, (∃ s', s2.call auth f c = .ok s') ↔ (∃ s', s.call auth f c = .ok s') := by
  obtain ⟨hp, -, -, e1⟩ := pause_iff.1 h1
  obtain ⟨-, -, -, e2⟩ := unpause_iff.1 h2
  subst e1; subst e2
  refine ⟨rfl, rfl, rfl, rfl, hp.symm, by simp, ?_⟩
  intro auth f c
  rw [stacked_accepted_iff, stacked_accepted_iff]
  cases f <;> simp [Fn.spec, Authorized, hp]

/-- **stacked_principals_fixed**: no history changes the owner, the admin or the holder of the role -/
theorem stacked_principals_fixed (ops : List (List Nat × Op)) (s : Stk) :
    (Stk.run s ops).owner = s.owner ∧ (Stk.run s ops).admin = s.admin ∧ (Stk.run s ops).isOp = s.isOp := by
  induction ops generalizing s with
  | nil => exact ⟨rfl, rfl, rfl⟩
  | cons x xs ih =>
    simp only [Stk.run, List.foldl_cons]
    have key : (Stk.step s x).owner = s.owner ∧ (Stk.step s x).admin = s.admin ∧ (Stk.step s x).isOp = s.isOp := by
      unfold Stk.step
      cases hx : s.apply x.1 x.2 with
      | error e => exact ⟨rfl, rfl, rfl⟩
      | ok s1 => exact apply_keeps hx
    obtain ⟨i1, i2, i3⟩ := ih (Stk.step s x)
    simp only [Stk.run] at i1 i2 i3
    exact ⟨i1.trans key.1, i2.trans key.2.1, i3.trans key.2.2⟩

/-! ## non-vacuity (tests, labelled as such) -/

def isOk {ε α} : Except ε α → Bool
  | .ok _ => true
  | .error _ => false

/-- owner 0, admin 2, role holder 1 -/
def demo : Stk := Stk.construct 0 2 1

/-- not paused: every `inc_*` is open to its principal and closed to everybody else, in both orders of the
attributes; every `reset_*` is closed even to its principal -/
example :
    isOk (demo.call [0] .incA 9) = true ∧ isOk (demo.call [0] .incB 9) = true ∧
    isOk (demo.call [2] .incA 9) = false ∧ isOk (demo.call [] .incB 9) = false ∧
    isOk (demo.call [2] .incC 9) = true ∧ isOk (demo.call [2] .incD 9) = true ∧
    isOk (demo.call [0] .incC 9) = false ∧
    isOk (demo.call [1] .incR 1) = true ∧ isOk (demo.call [1] .incR2 1) = true ∧
    isOk (demo.call [3] .incR 3) = false ∧ isOk (demo.call [0] .incR2 1) = false ∧
    isOk (demo.call [0] .resetA 9) = false ∧ isOk (demo.call [0] .resetB 9) = false ∧
    isOk (demo.call [1] .resetR 1) = false := by decide

/-- paused by the owner after three increments: the hypotheses of `stacked_paused_blocks` are met, the calls
would be accepted if the contract were not paused, and the resets are open to their principals only -/
def demoPaused : Stk :=
  Stk.run demo [([0], .call .incA 0), ([1], .call .incR 1), ([2], .call .incD 0), ([1], .pause 1), ([0], .pause 0)]

example :
    demoPaused.p.paused = true ∧ demoPaused.counter = 3 ∧
    isOk (demoPaused.call [0] .incA 9) = false ∧ isOk (demoPaused.call [0] .incB 9) = false ∧
    isOk (demoPaused.call [2] .incC 9) = false ∧ isOk (demoPaused.call [1] .incR 1) = false ∧
    isOk (demoPaused.call [1] .incR2 1) = false ∧
    isOk (demoPaused.call [0] .resetA 9) = true ∧ isOk (demoPaused.call [0] .resetB 9) = true ∧
    isOk (demoPaused.call [2] .resetA 9) = false ∧ isOk (demoPaused.call [] .resetB 9) = false ∧
    isOk (demoPaused.call [2] .resetD 9) = true ∧ isOk (demoPaused.call [1] .resetR2 1) = true ∧
    (Stk.step demoPaused ([0], .call .resetA 0)).counter = 0 ∧
    isOk (demoPaused.apply [0] (.pause 0)) = false ∧ isOk (demoPaused.apply [0] (.unpause 0)) = true ∧
    isOk (demoPaused.apply [2] (.unpause 2)) = false ∧
    (Stk.run demoPaused [([0], .unpause 0), ([0], .call .incB 0)]).counter = 4 := by decide

end OZ.Gates.Stk
