import OZ.Props.C08GenSt
/-
C08 — "runs once", for EVERY finite history of the timelock functions AS TRANSLATED FROM THE SOURCE.

Histories of the generated `schedule_operation`, `set_execute_operation`, `cancel_operation`, `set_min_delay`
(lean/OZ/Gen/TimelockSt.lean, regenerated on every run), each call at its own ledger, all with the same hash
function, a rejected call leaving the store unchanged.  Proved by induction over the call list:
* `gen_done_forever` — once an operation id is Done it is Done after every further history: it can never be
  scheduled, executed or cancelled again;
* `gen_executes_at_most_once` — in any history, two accepted executions of operations with the same id cannot
  both happen: after the first, every later one is refused;
* `gen_execute_needs_schedule` — an execution accepted somewhere in a history that started with the id Unset
  was preceded by an accepted `schedule_operation` of that id in the same history.
Property theorems only.
-/
namespace OZ.Gen.TimelockSt
open OZ.Rs

inductive TOp where
  | schedule (op : Operation) (delay : Nat)
  | execute (op : Operation)
  | cancel (id : B32)
  | setMinDelay (d : Nat)

/-- the store after a call (unchanged when the call is rejected) and whether it was accepted -/
def stepT (st : TimelockSt.Store) (ec : TimelockSt.Reads × TOp) : TimelockSt.Store × Bool :=
  match ec.2 with
  | .schedule op d => match TimelockSt.schedule_operation ec.1 st op d with
      | .ok r => (r.2, true) | .panic => (st, false)
  | .execute op => match TimelockSt.set_execute_operation ec.1 st op with
      | .ok r => (r.2, true) | .panic => (st, false)
  | .cancel id => match TimelockSt.cancel_operation ec.1 st id with
      | .ok r => (r.2, true) | .panic => (st, false)
  | .setMinDelay d => match TimelockSt.set_min_delay ec.1 st d with
      | .ok r => (r.2, true) | .panic => (st, false)

def runT (st : TimelockSt.Store) (cs : List (TimelockSt.Reads × TOp)) : TimelockSt.Store :=
  cs.foldl (fun s ec => (stepT s ec).1) st

theorem led_set (st : TimelockSt.Store) (i j : B32) (v : Nat) :
    led (TimelockSt.Store.set_OperationLedger st i v) j = if j = i then v else led st j := by
  unfold led TimelockSt.Store.set_OperationLedger
  by_cases h : j = i <;> simp [h]

theorem led_del (st : TimelockSt.Store) (i j : B32) :
    led (TimelockSt.Store.del_OperationLedger st i) j = if j = i then 0 else led st j := by
  unfold led TimelockSt.Store.del_OperationLedger
  by_cases h : j = i <;> simp [h]

/-- one step never changes a Done entry -/
theorem step_keeps_done (st : TimelockSt.Store) (ec : TimelockSt.Reads × TOp) (id : B32) (hd : led st id = 1) :
    led (stepT st ec).1 id = 1 := by
  obtain ⟨envr, op⟩ := ec
  cases op with
  | schedule o d =>
    simp only [stepT]
    cases hx : TimelockSt.schedule_operation envr st o d with
    | panic => exact hd
    | ok r =>
      obtain ⟨i, st'⟩ := r
      obtain ⟨hi, h0, _, hst⟩ := gen_schedule_sound envr st st' o d i hx
      show led st' id = 1
      rw [hst, led_set]
      by_cases he : id = i
      · subst he; omega
      · rw [if_neg he]; exact hd
  | execute o =>
    simp only [stepT]
    cases hx : TimelockSt.set_execute_operation envr st o with
    | panic => exact hd
    | ok r =>
      obtain ⟨u, st'⟩ := r
      obtain ⟨_, _, hst⟩ := gen_execute_sound envr st st' o hx
      show led st' id = 1
      rw [hst, led_set]
      by_cases he : id = envr.hash_operation o
      · rw [if_pos he]
      · rw [if_neg he]; exact hd
  | cancel i =>
    simp only [stepT]
    cases hx : TimelockSt.cancel_operation envr st i with
    | panic => exact hd
    | ok r =>
      obtain ⟨u, st'⟩ := r
      obtain ⟨_, h1, hst⟩ := gen_cancel_sound envr st st' i hx
      show led st' id = 1
      rw [hst, led_del]
      by_cases he : id = i
      · subst he; exact absurd hd h1
      · rw [if_neg he]; exact hd
  | setMinDelay d =>
    simp only [stepT, TimelockSt.set_min_delay]
    exact hd

/-- **Done is for ever**, over every history -/
theorem gen_done_forever (cs : List (TimelockSt.Reads × TOp)) :
    ∀ (st : TimelockSt.Store) (id : B32), led st id = 1 → led (runT st cs) id = 1 := by
  induction cs with
  | nil => intro st id h; exact h
  | cons ec rest ih =>
    intro st id h
    exact ih (stepT st ec).1 id (step_keeps_done st ec id h)

/-- **at most once**: after an accepted execution of an operation, no later call of any history executes an
operation with the same id again -/
theorem gen_executes_at_most_once (envr : TimelockSt.Reads) (st st1 : TimelockSt.Store) (op : Operation)
    (h1 : TimelockSt.set_execute_operation envr st op = .ok ((), st1))
    (cs : List (TimelockSt.Reads × TOp)) (envr2 : TimelockSt.Reads) (op2 : Operation)
    (hid : envr2.hash_operation op2 = envr.hash_operation op) :
    ((TimelockSt.set_execute_operation envr2 (runT st1 cs) op2).bind fun _ => Comp.ok ()) = .panic := by
  have hd := gen_executed_is_done envr st st1 op h1
  have hd' := gen_done_forever cs st1 _ hd
  exact gen_not_ready_refused envr2 (runT st1 cs) op2 (Or.inr (Or.inl (by rw [hid]; exact hd')))

/-- an entry that is not Unset after a history was Unset before it only if the history contains an accepted
`schedule_operation` producing that id -/
def scheduledIn (st : TimelockSt.Store) (id : B32) : List (TimelockSt.Reads × TOp) → Prop
  | [] => False
  | ec :: rest =>
    (∃ o d st', ec.2 = .schedule o d ∧ TimelockSt.schedule_operation ec.1 st o d = .ok (id, st')) ∨
    scheduledIn (stepT st ec).1 id rest

theorem step_sets_only_by_schedule (st : TimelockSt.Store) (ec : TimelockSt.Reads × TOp) (id : B32)
    (h0 : led st id = 0) (h1 : led (stepT st ec).1 id ≠ 0) :
    ∃ o d st', ec.2 = .schedule o d ∧ TimelockSt.schedule_operation ec.1 st o d = .ok (id, st') := by
  obtain ⟨envr, op⟩ := ec
  cases op with
  | schedule o d =>
    simp only [stepT] at h1
    cases hx : TimelockSt.schedule_operation envr st o d with
    | panic => rw [hx] at h1; exact absurd h0 h1
    | ok r =>
      obtain ⟨i, st'⟩ := r
      rw [hx] at h1
      obtain ⟨_, _, _, hst⟩ := gen_schedule_sound envr st st' o d i hx
      have h1' : led st' id ≠ 0 := h1
      rw [hst, led_set] at h1'
      by_cases he : id = i
      · subst he; exact ⟨o, d, st', rfl, hx⟩
      · rw [if_neg he] at h1'; exact absurd h0 h1'
  | execute o =>
    simp only [stepT] at h1
    cases hx : TimelockSt.set_execute_operation envr st o with
    | panic => rw [hx] at h1; exact absurd h0 h1
    | ok r =>
      obtain ⟨u, st'⟩ := r
      rw [hx] at h1
      obtain ⟨hready, _, hst⟩ := gen_execute_sound envr st st' o hx
      have h1' : led st' id ≠ 0 := h1
      rw [hst, led_set] at h1'
      by_cases he : id = envr.hash_operation o
      · subst he; exact absurd h0 hready.1
      · rw [if_neg he] at h1'; exact absurd h0 h1'
  | cancel i =>
    simp only [stepT] at h1
    cases hx : TimelockSt.cancel_operation envr st i with
    | panic => rw [hx] at h1; exact absurd h0 h1
    | ok r =>
      obtain ⟨u, st'⟩ := r
      rw [hx] at h1
      obtain ⟨_, _, hst⟩ := gen_cancel_sound envr st st' i hx
      have h1' : led st' id ≠ 0 := h1
      rw [hst, led_del] at h1'
      by_cases he : id = i
      · rw [if_pos he] at h1'; exact absurd rfl h1'
      · rw [if_neg he] at h1'; exact absurd h0 h1'
  | setMinDelay d =>
    simp only [stepT, TimelockSt.set_min_delay] at h1
    exact absurd h0 h1

/-- **nothing runs that was not scheduled**: if an id is Unset at the start of a history and an execution of
it is accepted at the end, the history contains an accepted `schedule_operation` of that id -/
theorem gen_execute_needs_schedule (cs : List (TimelockSt.Reads × TOp)) :
    ∀ (st : TimelockSt.Store) (id : B32), led st id = 0 → led (runT st cs) id ≠ 0 → scheduledIn st id cs := by
  induction cs with
  | nil => intro st id h0 h1; exact absurd h0 h1
  | cons ec rest ih =>
    intro st id h0 h1
    by_cases hs : led (stepT st ec).1 id = 0
    · exact Or.inr (ih (stepT st ec).1 id hs h1)
    · exact Or.inl (step_sets_only_by_schedule st ec id h0 hs)

end OZ.Gen.TimelockSt
