import OZ.Props.C17
import OZ.Lemmas.MerkleMon
/-
C17 — soundness of the MONITOR that decides the property on implementation traces.

`./check C17` reports a concrete violation exactly when the driver's monitor
(`OZ.Merkle.Mon.verdictVerify` / `distCore` / `airCore` on parsed values, plus the string-level
`hash` / `pair` comparison that stays in the driver) returns a message on the implementation's
observations. Here it is proved that on the observations of the MODEL the monitor returns nothing:

(a) VERIFIER part (pure; `verifier_monitor_accepts_every_model_answer`): for every `verify` /
    `verifyidx` line the monitor applied to the model's answer is silent. Its three conclusions:
      * answer = the monitor's own fold (`monitor_fold_eq_model`): big-endian number comparison =
        lexicographic comparison, bit tests = parity and halving. For the positional form on ALL
        inputs and every hash function; for the sorted form on 32-byte nodes (`BytesN<32>`) and a
        hash function with 32-byte output — hypotheses that are NEEDED (`sorted_needs_equal_lengths`)
        and that hold for the two functions of the driver (`hashOf_length`, used in the `_driver`
        corollaries);
      * `honest` ⇒ accepted (`honest_line_accepted`, every hash function): the tag means that
        (leaf, proof[, index]) was extracted from a tree with that root (`HonestLine`);
      * `c:<what>` ⇒ rejected. This conclusion is NOT a theorem about the model for an arbitrary
        hash function (with a constant hash every extension of a proof is accepted): it is sound
        only relative to collision-freeness of the concrete hash. It enters as the EXPLICIT
        hypothesis `TagOk` (a line tagged `c:` is one the model's verifier does not accept), and
        `corrupt_line_rejected_indexed` / `corrupt_line_rejected_sorted` derive that hypothesis, for
        every hash function without a collision on 64-byte inputs, for the corruption classes that
        keep the proof length (c:leaf, c:proof, c:reorder, c:otherproof of equal length).
(b) DISTRIBUTOR part (`dist_monitor_accepts_every_model_trace`): ghost {root, flags of the observed
    universe, far claims}; for every label (hash function, universe `w`), every finite history of
    advance / setroot / claim lines — any index (inside or outside the observed universe), any
    leaf, proof, mode — the monitor is silent on the model's observations. Same two explicit
    hypotheses per claim line (`LineOk`): 32-byte nodes for the sorted form; a `c:`-tagged
    (leaf, proof, index) does not verify against the root current at that moment.
(c) AIRDROP part (`airdrop_monitor_accepts_every_model_trace`): the same with pool and balances.

Not covered: the `hash` / `pair` lines (the library's hash must equal the `want` computed by the
harness with the sha2 / sha3 crates: no conclusion about the model is involved), lines that do
not parse, and the string-level facts `ofHex (toHex x) = some x` etc. of the line format.

FINDING (`legacy_monitor_false_alarm`): before this work the monitor took "was this index claimed
before" and "which flags are new" from the OBSERVED flags only. For a claim whose index lies outside
the observed universe (`index ≥ w`, not one of the two top u32 values) the model's accepted claim
shows no new flag and a repeated claim is refused: the old monitor reported `distributor.marks`
and then `distributor.reject.honest` on this MODEL trace. The harness never claims such an index,
so no run of `./check C17` was affected; the monitor now keeps a ghost log of accepted far claims
and expects exactly the flags that are observed.

Property theorems only; helper facts come from OZ/Lemmas/MerkleMon.lean.
-/
namespace OZ.Merkle.Mon
open OZ.Merkle

/-! ## (a) the verifier part -/

/-- the model's answer to a `verify` / `verifyidx` line: the same data the model side of the driver
prints (`stepOp`: `if verify … then "ok true" else "ok false"` resp. `showBoolRes (verifyWithIndex …)`) -/
def modelAns (H : Node → Node) (op : VOp) : Ans :=
  if op.indexed then
    match verifyWithIndex (bytesOps H) op.proof op.root op.leaf op.index with
    | .ok true => .accept
    | .ok false => .reject
    | .error _ => .fail
  else if verify (bytesOps H) op.proof op.root op.leaf then .accept else .reject

/-- the structured observation of the model's answer (the driver reads the line `Ans.line a` back as
`⟨some a, line⟩`: `parseAns`) -/
def modelVObs (H : Node → Node) (op : VOp) : VObs := ⟨some (modelAns H op), (modelAns H op).line⟩

/-- a sorted-form line denotes a call of the real function: leaf and proof elements are `BytesN<32>` -/
def VOp.Wf (op : VOp) : Prop := op.indexed = false → Nodes32 op.leaf op.proof

/-- meaning of `exp=honest`: (leaf, proof[, index]) was extracted from a tree (any shape) with that
root; positional form: depth < 32 and the index of the path -/
def HonestLine (H : Node → Node) (op : VOp) : Prop :=
  if op.indexed then
    ∃ (t : Tree Node) (p : List Bool), t.proofWith (bytesOps H).hp p = some (op.leaf, op.proof) ∧
      op.root = t.rootI (bytesOps H) ∧ op.index = indexOf p ∧ p.length < 32
  else
    ∃ (t : Tree Node) (p : List Bool), t.proofWith (chp (bytesOps H)) p = some (op.leaf, op.proof) ∧
      op.root = t.rootS (bytesOps H)

/-- what the tags of a line claim. `c:`: the EXPLICIT hypothesis under which the monitor's
"corrupted ⇒ rejected" conclusion is sound (it follows from collision-freeness for the classes
covered by `corrupt_line_rejected_*`, and holds outright in the free-hash model: Props/C17
`reject_*`) -/
def TagOk (H : Node → Node) (op : VOp) : Prop :=
  match op.tag with
  | .honest => HonestLine H op
  | .corrupt _ => modelAns H op ≠ .accept
  | .other => True

/-- **the monitor's own fold is the model's verifier**: what the monitor demands as the answer is
the model's answer — positional form: all inputs, every hash; sorted form: 32-byte nodes, 32-byte hash -/
theorem monitor_fold_eq_model (H : Node → Node) (hH : ∀ x, (H x).length = 32) (op : VOp) (hwf : op.Wf) :
    wantOf H op = modelAns H op := by
  unfold wantOf modelAns
  cases hi : op.indexed with
  | true =>
    rw [monVerify_indexed, if_pos rfl]
    cases verifyWithIndex (bytesOps H) op.proof op.root op.leaf op.index with
    | error e => rfl
    | ok b => cases b <;> rfl
  | false =>
    rw [monVerify_sorted32 H hH _ _ _ _ (hwf hi), if_neg (by simp)]
    cases verify (bytesOps H) op.proof op.root op.leaf <;> rfl

/-- the positional form needs no hypothesis at all -/
theorem monitor_fold_eq_model_indexed (H : Node → Node) (op : VOp) (hi : op.indexed = true) :
    wantOf H op = modelAns H op := by
  unfold wantOf modelAns
  rw [hi, monVerify_indexed, if_pos rfl]
  cases verifyWithIndex (bytesOps H) op.proof op.root op.leaf op.index with
  | error e => rfl
  | ok b => cases b <;> rfl

/-- **an honest line is accepted by the model** — every hash function, every tree shape -/
theorem honest_line_accepted (H : Node → Node) (op : VOp) (h : HonestLine H op) : modelAns H op = .accept := by
  unfold HonestLine at h
  unfold modelAns
  cases hi : op.indexed with
  | true =>
    rw [hi, if_pos rfl] at h
    obtain ⟨t, p, hp, hr, hidx, hd⟩ := h
    rw [if_pos rfl, hr, hidx, complete_indexed (bytesOps H) t p _ _ hp hd]
  | false =>
    rw [hi, if_neg (by simp)] at h
    obtain ⟨t, p, hp, hr⟩ := h
    rw [if_neg (by simp), hr, complete_bytes H t p _ _ hp, if_pos rfl]

/-- **a junk line** (`verifyj`: the proof vector holds an element that is not a 32-byte string): the
model's answer is a failure (the element cannot be read), on which the monitor reports nothing -/
theorem junk_monitor_sound_line (indexed : Bool) : verdictJunk indexed ⟨some .fail, Ans.fail.line⟩ = none := by
  unfold verdictJunk
  simp

/-- **one verifier line**: the monitor applied to the model's answer reports nothing -/
theorem verifier_monitor_sound_line (H : Node → Node) (hH : ∀ x, (H x).length = 32) (op : VOp)
    (hwf : op.Wf) (htag : TagOk H op) : verdictVerify H op (modelVObs H op) = none := by
  unfold verdictVerify
  rw [monitor_fold_eq_model H hH op hwf, if_neg (by simp [modelVObs])]
  unfold TagOk at htag
  unfold tagCheck
  cases ht : op.tag with
  | other => rfl
  | honest =>
    rw [ht] at htag
    have := honest_line_accepted H op htag
    simp [modelVObs, this]
  | corrupt c =>
    rw [ht] at htag
    have : (some (modelAns H op) == some Ans.accept) = false := by
      cases hm : modelAns H op with
      | accept => exact absurd hm htag
      | reject => rfl
      | fail => rfl
    simp [modelVObs, this]

/-- a line of a stateless sequence: `alg=` and the parsed op -/
abbrev VLine := String × VOp

/-- the monitor run over the verifier lines of a sequence answered by the model (the monitor has no
state in a stateless sequence): first message, if any -/
def verifierRun : List VLine → Option String
  | [] => none
  | (alg, op) :: rest =>
    match verdictVerify (hashOf alg) op (modelVObs (hashOf alg) op) with
    | some msg => some msg
    | none => verifierRun rest

/-- **verifier part, the driver's hash functions**: for every finite list of `verify` / `verifyidx`
lines — either hash function per line, any root, leaf, index, proof of any length — whose sorted-form
lines carry 32-byte values and whose tags say what they mean, the monitor reports nothing on the
model's answers. (No hypothesis on the hash function is left: SHA-256 / Keccak-256 as implemented in
Lean return 32 bytes.) -/
theorem verifier_monitor_accepts_every_model_answer (ls : List VLine)
    (hwf : ∀ l ∈ ls, l.2.Wf) (htag : ∀ l ∈ ls, TagOk (hashOf l.1) l.2) : verifierRun ls = none := by
  induction ls with
  | nil => rfl
  | cons l rest ih =>
    obtain ⟨alg, op⟩ := l
    unfold verifierRun
    rw [verifier_monitor_sound_line (hashOf alg) (hashOf_length alg) op (hwf _ (List.mem_cons_self ..))
      (htag _ (List.mem_cons_self ..))]
    exact ih (fun l hl => hwf l (List.mem_cons_of_mem _ hl)) (fun l hl => htag l (List.mem_cons_of_mem _ hl))

/-! ### the `c:` hypothesis from collision-freeness, for corruptions that keep the proof length -/

/-- `H` has no collision on 64-byte inputs -/
def NoCollision64 (H : Node → Node) : Prop :=
  ¬ ∃ x y : Node, x.length = 64 ∧ y.length = 64 ∧ x ≠ y ∧ H x = H y

/-- positional form: a line that differs from an ACCEPTED line with the same root and index in leaf
or proof (same proof length, 32-byte values) is not accepted, unless `H` has a collision -/
theorem corrupt_line_rejected_indexed (H : Node → Node) (hH : ∀ x, (H x).length = 32) (hnc : NoCollision64 H)
    (good bad : VOp) (hgi : good.indexed = true) (hbi : bad.indexed = true)
    (hroot : bad.root = good.root) (hidx : bad.index = good.index)
    (hg32 : Nodes32 good.leaf good.proof) (hb32 : Nodes32 bad.leaf bad.proof)
    (hlen : bad.proof.length = good.proof.length) (hne : (bad.leaf, bad.proof) ≠ (good.leaf, good.proof))
    (hacc : modelAns H good = .accept) : modelAns H bad ≠ .accept := by
  intro hb
  have e1 : verifyWithIndex (bytesOps H) good.proof good.root good.leaf good.index = .ok true := by
    unfold modelAns at hacc
    rw [hgi, if_pos rfl] at hacc
    split at hacc <;> first | assumption | cases hacc
  have e2 : verifyWithIndex (bytesOps H) bad.proof good.root bad.leaf good.index = .ok true := by
    unfold modelAns at hb
    rw [hbi, if_pos rfl, hroot, hidx] at hb
    split at hb <;> first | assumption | cases hb
  exact hnc (sound_indexed_bytes H hH good.root good.index bad.leaf good.leaf bad.proof good.proof
    hb32.1 hg32.1 hb32.2 hg32.2 hlen hne e2 e1)

/-- sorted form: likewise, up to the node/sibling exchange inherent to sorted pairs -/
theorem corrupt_line_rejected_sorted (H : Node → Node) (hH : ∀ x, (H x).length = 32) (hnc : NoCollision64 H)
    (good bad : VOp) (hgi : good.indexed = false) (hbi : bad.indexed = false)
    (hroot : bad.root = good.root)
    (hg32 : Nodes32 good.leaf good.proof) (hb32 : Nodes32 bad.leaf bad.proof)
    (hlen : bad.proof.length = good.proof.length) (hne : (bad.leaf, bad.proof) ≠ (good.leaf, good.proof))
    (hnx : ¬ Exchange (bytesOps H) bad.leaf bad.proof good.leaf good.proof)
    (hacc : modelAns H good = .accept) : modelAns H bad ≠ .accept := by
  intro hb
  have e1 : verify (bytesOps H) good.proof good.root good.leaf = true := by
    unfold modelAns at hacc
    rw [hgi, if_neg (by simp)] at hacc
    split at hacc <;> first | assumption | cases hacc
  have e2 : verify (bytesOps H) bad.proof good.root bad.leaf = true := by
    unfold modelAns at hb
    rw [hbi, if_neg (by simp), hroot] at hb
    split at hb <;> first | assumption | cases hb
  rcases sound_sorted_bytes H hH good.root bad.leaf good.leaf bad.proof good.proof
    hb32.1 hg32.1 hb32.2 hg32.2 hlen hne e2 e1 with h | h
  · exact hnc h
  · exact hnx h

/-! ## (b) the distributor part -/

/-- the model side of a `dist` sequence on parsed lines: the same data the driver's `stepOp` prints
(`advance`: time changes nothing, `look=0` prints `ok now=<n>` which reads as ⟨true, none, []⟩;
`setroot`: `Dist.apply … (.setRoot r)`, `showDist true`; `claim`: `Dist.step` with `.claim` /
`.claimIndexed` by mode, `showDist true d'` / `showDist false d`; `showDist` prints the root and
`claimedList d w`) -/
def distModel (H : Node → Node) (w : Nat) (d : Dist Node) : DLine → Dist Node × DObs
  | .blind => (d, ⟨true, none, []⟩)
  | .look => (d, ⟨true, d.root, claimedList d w⟩)
  | .setRoot r => (d.apply (bytesOps H) (.setRoot r),
      ⟨true, (d.apply (bytesOps H) (.setRoot r)).root, claimedList (d.apply (bytesOps H) (.setRoot r)) w⟩)
  | .claim indexed leaf index proof _ =>
    match d.step (bytesOps H) (claimOp indexed leaf index proof) with
    | .ok d' => (d', ⟨true, d'.root, claimedList d' w⟩)
    | .error _ => (d, ⟨false, d.root, claimedList d w⟩)

/-- monitor state and model state describe the same point of a history -/
structure Agree (w : Nat) (m : Mon) (d : Dist Node) : Prop where
  univ : m.w = w
  root : m.root = d.root
  claimed : m.claimed = claimedList d w
  far : FarOk w m.far d

/-- the hypotheses on one line in the state it is executed in: a sorted-form claim carries 32-byte
values; a `c:`-tagged (leaf, proof, index) does not verify against the current root (EXPLICIT: this
is where collision-freeness of the concrete hash enters, as in `TagOk`) -/
def LineOk (H : Node → Node) (d : Dist Node) : DLine → Prop
  | .claim indexed leaf index proof tag =>
    (indexed = false → Nodes32 leaf proof) ∧
    (∀ c, tag = .corrupt c → ∀ root, d.root = some root → accepts H indexed root leaf index proof = false)
  | _ => True

/-- **one line of a `dist` sequence**: fed with the model's own observation (accepted or refused),
the monitor reports nothing and its state keeps describing the model's -/
theorem dist_monitor_sound_step (H : Node → Node) (hH : ∀ x, (H x).length = 32) (w : Nat) (hw : w ≤ 4294967294)
    {m : Mon} {d : Dist Node} (ha : Agree w m d) (op : DLine) (hop : LineOk H d op) :
    (distCore H m op (distModel H w d op).2).2 = none ∧
    Agree w (distCore H m op (distModel H w d op).2).1 (distModel H w d op).1 := by
  obtain ⟨hmw, hr, hc, hf⟩ := ha
  subst hmw
  have hnd := univ_nodup m.w hw
  cases op with
  | blind => exact ⟨rfl, ⟨rfl, hr, hc, hf⟩⟩
  | look =>
    refine ⟨?_, ⟨rfl, rfl, rfl, hf⟩⟩
    show (if unmarked m.claimed (claimedList d m.w) then some unmarkedMsg
      else verdictLook m ⟨true, d.root, claimedList d m.w⟩) = none
    have hun : unmarked m.claimed (claimedList d m.w) = false := by
      rw [hc]; unfold claimedList
      exact unmarked_filter _ _ _ (fun _ h => h)
    rw [hun, if_neg (by simp)]
    unfold verdictLook
    rw [if_neg (by simp [hc]), if_neg (by simp [hr])]
  | setRoot r =>
    have hcl : (d.apply (bytesOps H) (.setRoot r)).claimed = d.claimed := (root_change_keeps_claims _ d r).1
    have hrt : (d.apply (bytesOps H) (.setRoot r)).root = some r := (root_change_keeps_claims _ d r).2
    have hsame : claimedList (d.apply (bytesOps H) (.setRoot r)) m.w = claimedList d m.w := by
      unfold claimedList; rw [hcl]
    refine ⟨?_, ⟨rfl, rfl, rfl, ?_⟩⟩
    · show (if unmarked m.claimed (claimedList (d.apply (bytesOps H) (.setRoot r)) m.w) then some unmarkedMsg
        else verdictSetRoot m r ⟨true, (d.apply (bytesOps H) (.setRoot r)).root,
          claimedList (d.apply (bytesOps H) (.setRoot r)) m.w⟩) = none
      rw [hsame, hrt]
      have hun : unmarked m.claimed (claimedList d m.w) = false := by
        rw [hc]; unfold claimedList
        exact unmarked_filter _ _ _ (fun _ h => h)
      rw [hun, if_neg (by simp)]
      unfold verdictSetRoot
      rw [if_neg (by simp), if_neg (by simp), if_neg (by simp [hc])]
    · intro i
      show m.far.contains i = (!inU m.w i && (d.apply (bytesOps H) (.setRoot r)).claimed i)
      rw [hcl]; exact hf i
  | claim indexed leaf index proof tag =>
    obtain ⟨h32, hcor⟩ := hop
    have hwas := wasClaimed_eq m d hc hf index
    cases hs : d.step (bytesOps H) (claimOp indexed leaf index proof) with
    | ok d' =>
      obtain ⟨root, hroot, hclr, hacc, rfl⟩ := (step_claim_ok H d d' indexed leaf index proof).mp hs
      have hm : distModel H m.w d (.claim indexed leaf index proof tag) =
          (d.setClaimed index, ⟨true, (d.setClaimed index).root, claimedList (d.setClaimed index) m.w⟩) := by
        simp only [distModel, hs]
      rw [hm]
      refine ⟨?_, ⟨rfl, rfl, rfl, farStep_ok m d hf index hclr⟩⟩
      show (if unmarked m.claimed (claimedList (d.setClaimed index) m.w) then some unmarkedMsg
        else verdictClaim m (validAgainst H m.root indexed leaf index proof) index tag _) = none
      have hg : ∀ i, (d.setClaimed index).claimed i = (decide (i = index) || d.claimed i) :=
        setClaimed_claimed d index
      have hun : unmarked m.claimed (claimedList (d.setClaimed index) m.w) = false := by
        rw [hc]; unfold claimedList
        exact unmarked_filter _ _ _ (fun i h => by rw [hg i, h]; simp)
      rw [hun, if_neg (by simp), hr, hroot, validAgainst_some H hH indexed root leaf index proof h32, hacc]
      apply verdictClaim_accepted_quiet m index tag _ rfl
      · show spurious m.claimed (claimedList (d.setClaimed index) m.w) (some index) = []
        rw [hc]; unfold claimedList
        apply spurious_filter
        intro i hi
        rw [hg i] at hi
        by_cases hii : i = index
        · exact Or.inr (by rw [hii])
        · left; simpa [hii] using hi
      · rw [hwas, hclr]
      · intro c hcc
        have := hcor c hcc root hroot
        rw [hacc] at this; cases this
      · show newFlags m.claimed (claimedList (d.setClaimed index) m.w) = expectNew m.w index
        rw [hc, expectNew_eq]; unfold claimedList
        exact newFlags_set _ hnd _ _ index hclr hg
      · show (d.setClaimed index).root = m.root
        rw [hr]; rfl
    | error e =>
      have hm : distModel H m.w d (.claim indexed leaf index proof tag) =
          (d, ⟨false, d.root, claimedList d m.w⟩) := by
        simp only [distModel, hs]
      rw [hm]
      refine ⟨?_, ⟨rfl, rfl, rfl, by show FarOk m.w (farStep m index false) d; rw [farStep_err]; exact hf⟩⟩
      show (if unmarked m.claimed (claimedList d m.w) then some unmarkedMsg
        else verdictClaim m (validAgainst H m.root indexed leaf index proof) index tag _) = none
      have hun : unmarked m.claimed (claimedList d m.w) = false := by
        rw [hc]; unfold claimedList
        exact unmarked_filter _ _ _ (fun _ h => h)
      rw [hun, if_neg (by simp)]
      apply verdictClaim_refused_quiet m _ index tag _ rfl
      · show spurious m.claimed (claimedList d m.w) none = []
        rw [hc]; unfold claimedList
        exact spurious_filter _ _ _ _ (fun _ h => Or.inl h)
      · show newFlags m.claimed (claimedList d m.w) = []
        rw [hc]; unfold claimedList
        exact newFlags_same _ _
      · exact hr.symm
      · intro hv
        rw [hwas]
        rw [hr] at hv
        cases hroot : d.root with
        | none => rw [hroot, validAgainst_none] at hv; cases hv
        | some root =>
          rw [hroot, validAgainst_some H hH indexed root leaf index proof h32] at hv
          cases hcl : d.claimed index with
          | true => rfl
          | false =>
            have := (step_claim_ok H d (d.setClaimed index) indexed leaf index proof).mpr ⟨root, hroot, hcl, hv, rfl⟩
            rw [hs] at this; cases this

/-- the monitor run over a whole `dist` history of model observations: first message, if any -/
def distRun (H : Node → Node) (w : Nat) : Mon → Dist Node → List DLine → Option String
  | _, _, [] => none
  | m, d, op :: ops =>
    match (distCore H m op (distModel H w d op).2).2 with
    | some msg => some msg
    | none => distRun H w (distCore H m op (distModel H w d op).2).1 (distModel H w d op).1 ops

/-- `LineOk` for every line of a history, each in the state the model executes it in -/
def LinesOk (H : Node → Node) (w : Nat) : Dist Node → List DLine → Prop
  | _, [] => True
  | d, op :: ops => LineOk H d op ∧ LinesOk H w (distModel H w d op).1 ops

/-- the monitor's initial state for a `# dist alg=<alg> w=<w>` sequence (the driver's `initMon`);
the model's is `Dist.empty` (the driver's `initSt`) -/
def distMonInit (alg : String) (w : Nat) : Mon := { kind := "dist", alg := alg, w := w }

theorem dist_monitor_run_quiet (H : Node → Node) (hH : ∀ x, (H x).length = 32) (w : Nat) (hw : w ≤ 4294967294)
    (ops : List DLine) : ∀ (m : Mon) (d : Dist Node), Agree w m d → LinesOk H w d ops → distRun H w m d ops = none := by
  induction ops with
  | nil => intro m d _ _; rfl
  | cons op ops ih =>
    intro m d ha hl
    obtain ⟨h1, h2⟩ := dist_monitor_sound_step H hH w hw ha op hl.1
    unfold distRun
    rw [h1]
    exact ih _ _ h2 hl.2

/-- **monitor soundness, distributor**: for every label (hash function `alg`, observed universe `w`
within the u32 index space) and every finite history of advance / setroot / claim lines — any
index inside or outside the observed universe, any leaf, proof, mode, any root changes — satisfying
`LinesOk`, the monitor reports nothing on the model's observations -/
theorem dist_monitor_accepts_every_model_trace (alg : String) (w : Nat) (hw : w ≤ 4294967294) (ops : List DLine)
    (hl : LinesOk (hashOf alg) w Dist.empty ops) :
    distRun (hashOf alg) w (distMonInit alg w) Dist.empty ops = none :=
  dist_monitor_run_quiet (hashOf alg) (hashOf_length alg) w hw ops _ _
    ⟨rfl, rfl, (claimedList_empty none w).symm, fun i => by simp [distMonInit, Dist.empty]⟩ hl

/-! ## (c) the airdrop part -/

/-- model state of an `airdrop` sequence as the driver keeps it (`St.dist`, `St.pool`, `St.bal`) -/
structure ASt where
  dist : Dist Node
  pool : Int
  bal : List Int

/-- the `Airdrop` the driver builds from its state for an `aclaim` line -/
def ASt.air (s : ASt) : Airdrop Node := { dist := s.dist, pool := s.pool, bal := fun j => s.bal.getD j 0 }

/-- the model side of an `airdrop` sequence on parsed lines: the same data the driver's `stepOp`
prints for `aclaim` (`Airdrop.claim`, `showAir true s'` / `showAir false s`; `showAir` prints
`claimedList s.dist s.w`, the pool and the balances) and for `advance look=0` (`ok now=<n>`) -/
def airModel (H : Node → Node) (w : Nat) (s : ASt) : ALine → ASt × AObs
  | .blind => (s, ⟨true, [], 0, []⟩)
  | .claim leaf index rcv amount proof _ =>
    match s.air.claim (bytesOps H) leaf index rcv amount proof with
    | .ok a' => (⟨a'.dist, a'.pool, (List.range s.bal.length).map a'.bal⟩,
        ⟨true, claimedList a'.dist w, a'.pool, (List.range s.bal.length).map a'.bal⟩)
    | .error _ => (s, ⟨false, claimedList s.dist w, s.pool, s.bal⟩)

structure AgreeA (w : Nat) (m : Mon) (s : ASt) : Prop where
  dist : Agree w m s.dist
  pool : m.pool = s.pool
  bal : m.bal = s.bal

def ALineOk (H : Node → Node) (s : ASt) : ALine → Prop
  | .claim leaf index _ _ proof tag =>
    Nodes32 leaf proof ∧
    (∀ c, tag = .corrupt c → ∀ root, s.dist.root = some root → accepts H false root leaf index proof = false)
  | .blind => True

/-- **one line of an `airdrop` sequence** -/
theorem airdrop_monitor_sound_step (H : Node → Node) (hH : ∀ x, (H x).length = 32) (w : Nat) (hw : w ≤ 4294967294)
    {m : Mon} {s : ASt} (ha : AgreeA w m s) (op : ALine) (hop : ALineOk H s op) :
    (airCore H m op (airModel H w s op).2).2 = none ∧
    AgreeA w (airCore H m op (airModel H w s op).2).1 (airModel H w s op).1 := by
  obtain ⟨⟨hmw, hr, hc, hf⟩, hpool, hbal⟩ := ha
  subst hmw
  have hnd := univ_nodup m.w hw
  cases op with
  | blind => exact ⟨rfl, ⟨⟨rfl, hr, hc, hf⟩, hpool, hbal⟩⟩
  | claim leaf index rcv amount proof tag =>
    obtain ⟨h32, hcor⟩ := hop
    have hwas := wasClaimed_eq m s.dist hc hf index
    cases hs : s.air.claim (bytesOps H) leaf index rcv amount proof with
    | ok a' =>
      obtain ⟨⟨root, hroot, hver⟩, hclr, hd', h0, hle, hp', -, -⟩ :=
        airdrop_claim_effect (bytesOps H) s.air a' leaf index rcv amount proof hs
      have hroot' : s.dist.root = some root := hroot
      have hclr' : s.dist.claimed index = false := hclr
      have hd'' : a'.dist = s.dist.setClaimed index := hd'
      have hp'' : a'.pool = s.pool - amount := hp'
      have hb' : (List.range s.bal.length).map a'.bal = paidOut s.bal rcv amount := by
        rw [← paidOut_eq]
        apply List.map_congr_left
        intro j _
        unfold Airdrop.claim at hs
        obtain ⟨dd, _, h2⟩ := bind_ok_iff.mp hs
        unfold payOut at h2
        split at h2
        · cases h2
        · cases h2; rfl
      have hm : airModel H m.w s (.claim leaf index rcv amount proof tag) =
          (⟨a'.dist, a'.pool, (List.range s.bal.length).map a'.bal⟩,
            ⟨true, claimedList a'.dist m.w, a'.pool, (List.range s.bal.length).map a'.bal⟩) := by
        simp only [airModel, hs]
      rw [hm, hd'']
      refine ⟨?_, ⟨⟨rfl, hr, rfl, farStep_ok m s.dist hf index hclr'⟩, rfl, rfl⟩⟩
      show (if unmarked m.claimed (claimedList (s.dist.setClaimed index) m.w) then some unmarkedMsg
        else verdictAirClaim m (validAgainst H m.root false leaf index proof) index rcv amount tag _) = none
      have hg : ∀ i, (s.dist.setClaimed index).claimed i = (decide (i = index) || s.dist.claimed i) :=
        setClaimed_claimed s.dist index
      have hun : unmarked m.claimed (claimedList (s.dist.setClaimed index) m.w) = false := by
        rw [hc]; unfold claimedList
        exact unmarked_filter _ _ _ (fun i h => by rw [hg i, h]; simp)
      have hacc : accepts H false root leaf index proof = true := by
        unfold accepts; rw [if_neg (by simp)]; exact hver
      rw [hun, if_neg (by simp), hr, hroot', validAgainst_some H hH false root leaf index proof (fun _ => h32), hacc]
      apply verdictAir_accepted_quiet m index rcv amount tag _ rfl
      · show spurious m.claimed (claimedList (s.dist.setClaimed index) m.w) (some index) = []
        rw [hc]; unfold claimedList
        apply spurious_filter
        intro i hi
        rw [hg i] at hi
        by_cases hii : i = index
        · exact Or.inr (by rw [hii])
        · left; simpa [hii] using hi
      · rw [hwas, hclr']
      · intro c hcc
        have := hcor c hcc root hroot'
        rw [hacc] at this; cases this
      · show newFlags m.claimed (claimedList (s.dist.setClaimed index) m.w) = expectNew m.w index
        rw [hc, expectNew_eq]; unfold claimedList
        exact newFlags_set _ hnd _ _ index hclr' hg
      · show a'.pool = m.pool - amount
        rw [hp'', hpool]
      · show (List.range s.bal.length).map a'.bal = paidOut m.bal rcv amount
        rw [hb', hbal]
    | error e =>
      have hm : airModel H m.w s (.claim leaf index rcv amount proof tag) =
          (s, ⟨false, claimedList s.dist m.w, s.pool, s.bal⟩) := by
        simp only [airModel, hs]
      rw [hm]
      refine ⟨?_, ⟨⟨rfl, hr, rfl, by show FarOk m.w (farStep m index false) s.dist; rw [farStep_err]; exact hf⟩, rfl, rfl⟩⟩
      show (if unmarked m.claimed (claimedList s.dist m.w) then some unmarkedMsg
        else verdictAirClaim m (validAgainst H m.root false leaf index proof) index rcv amount tag _) = none
      have hun : unmarked m.claimed (claimedList s.dist m.w) = false := by
        rw [hc]; unfold claimedList
        exact unmarked_filter _ _ _ (fun _ h => h)
      rw [hun, if_neg (by simp)]
      apply verdictAir_refused_quiet m _ index rcv amount tag _ rfl
      · show spurious m.claimed (claimedList s.dist m.w) none = []
        rw [hc]; unfold claimedList
        exact spurious_filter _ _ _ _ (fun _ h => Or.inl h)
      · show newFlags m.claimed (claimedList s.dist m.w) = []
        rw [hc]; unfold claimedList
        exact newFlags_same _ _
      · exact hpool.symm
      · exact hbal.symm
      · intro hv hw0 hge hle
        rw [hwas] at hw0
        rw [hr] at hv
        cases hroot : s.dist.root with
        | none => rw [hroot, validAgainst_none] at hv; cases hv
        | some root =>
          rw [hroot, validAgainst_some H hH false root leaf index proof (fun _ => h32)] at hv
          have hv' : verify (bytesOps H) proof root leaf = true := by
            unfold accepts at hv; rw [if_neg (by simp)] at hv; exact hv
          have h1 : s.air.dist.verifyAndSetClaimed (bytesOps H) leaf index proof = .ok (s.dist.setClaimed index) :=
            (claim_ok (bytesOps H) s.dist _ leaf index proof).mpr ⟨root, hroot, hw0, hv', rfl⟩
          have : s.air.claim (bytesOps H) leaf index rcv amount proof ≠ .error e := by
            unfold Airdrop.claim
            rw [h1]
            show payOut s.air (s.dist.setClaimed index) rcv amount ≠ .error e
            unfold payOut
            rw [if_neg (by
              have : s.air.pool = m.pool := hpool.symm
              rw [this]; omega)]
            intro h; cases h
          exact this hs

def airRun (H : Node → Node) (w : Nat) : Mon → ASt → List ALine → Option String
  | _, _, [] => none
  | m, s, op :: ops =>
    match (airCore H m op (airModel H w s op).2).2 with
    | some msg => some msg
    | none => airRun H w (airCore H m op (airModel H w s op).2).1 (airModel H w s op).1 ops

def ALinesOk (H : Node → Node) (w : Nat) : ASt → List ALine → Prop
  | _, [] => True
  | s, op :: ops => ALineOk H s op ∧ ALinesOk H w (airModel H w s op).1 ops

/-- the monitor's / the model's initial state for a
`# airdrop alg=<alg> w=<w> root=<root> pool=<pool> nrcv=<nrcv>` sequence (`initMon` / `initSt`) -/
def airMonInit (alg : String) (w : Nat) (root : Option Node) (pool : Int) (nrcv : Nat) : Mon :=
  { kind := "airdrop", alg := alg, w := w, root := root, pool := pool, bal := List.replicate nrcv 0 }

def airInit (root : Option Node) (pool : Int) (nrcv : Nat) : ASt :=
  ⟨{ root := root, claimed := fun _ => false }, pool, List.replicate nrcv 0⟩

theorem airdrop_monitor_run_quiet (H : Node → Node) (hH : ∀ x, (H x).length = 32) (w : Nat) (hw : w ≤ 4294967294)
    (ops : List ALine) : ∀ (m : Mon) (s : ASt), AgreeA w m s → ALinesOk H w s ops → airRun H w m s ops = none := by
  induction ops with
  | nil => intro m s _ _; rfl
  | cons op ops ih =>
    intro m s ha hl
    obtain ⟨h1, h2⟩ := airdrop_monitor_sound_step H hH w hw ha op hl.1
    unfold airRun
    rw [h1]
    exact ih _ _ h2 hl.2

/-- **monitor soundness, airdrop example**: for every label (universe, root or none, funding, number
of receivers) and every finite history of `aclaim` / `advance look=0` lines — any index, receiver
(also outside the observed ones), amount (also negative or above the pool), leaf, proof —
satisfying `ALinesOk`, the monitor reports nothing on the model's observations -/
theorem airdrop_monitor_accepts_every_model_trace (alg : String) (w : Nat) (hw : w ≤ 4294967294)
    (root : Option Node) (pool : Int) (nrcv : Nat) (ops : List ALine)
    (hl : ALinesOk (hashOf alg) w (airInit root pool nrcv) ops) :
    airRun (hashOf alg) w (airMonInit alg w root pool nrcv) (airInit root pool nrcv) ops = none :=
  airdrop_monitor_run_quiet (hashOf alg) (hashOf_length alg) w hw ops _ _
    ⟨⟨rfl, rfl, (claimedList_empty root w).symm, fun i => by simp [airMonInit, airInit]⟩, rfl, rfl⟩ hl

/-! ## the old monitor raised a false alarm on a model trace -/

/-- the claim verdict as it was before this work: "claimed before" and "newly marked" read off the
observed flags only -/
def Legacy.verdictClaim (m : Mon) (valid : Bool) (index : Nat) (o : DObs) : Option String :=
  if o.ok ∧ m.claimed.contains index then some "site=distributor.double_claim"
  else if o.ok ∧ ¬ valid then some "site=distributor.claimed_without_valid_proof"
  else if o.ok ∧ newFlags m.claimed o.claimed ≠ [index] then some "site=distributor.marks"
  else if ¬ o.ok ∧ valid ∧ ¬ m.claimed.contains index then some "site=distributor.reject.honest"
  else none

/-- model history, universe `w = 4`: `setroot R; claim index=10 leaf=R proof=[]` (accepted by the
model: the empty proof folds the leaf to the root; no observed flag changes because 10 is outside
the universe), then the same claim again (refused by the model: already claimed). On the model's
observations the old verdict reports `marks` for the first claim and `reject.honest` for the second;
the new monitor is silent on the whole history. -/
theorem legacy_monitor_false_alarm (H : Node → Node) (hH : ∀ x, (H x).length = 32) (R : Node) (hR : R.length = 32) :
    distModel H 4 Dist.empty (.setRoot R) = (Dist.empty.setRoot R, ⟨true, some R, []⟩) ∧
    distModel H 4 (Dist.empty.setRoot R) (.claim false R 10 [] .other) =
      ((Dist.empty.setRoot R).setClaimed 10, ⟨true, some R, []⟩) ∧
    distModel H 4 ((Dist.empty.setRoot R).setClaimed 10) (.claim false R 10 [] .other) =
      ((Dist.empty.setRoot R).setClaimed 10, ⟨false, some R, []⟩) ∧
    Legacy.verdictClaim { w := 4, root := some R } (validAgainst H (some R) false R 10 []) 10 ⟨true, some R, []⟩ =
      some "site=distributor.marks" ∧
    Legacy.verdictClaim { w := 4, root := some R } (validAgainst H (some R) false R 10 []) 10 ⟨false, some R, []⟩ =
      some "site=distributor.reject.honest" ∧
    distRun H 4 (distMonInit "sha" 4) Dist.empty
      [.setRoot R, .claim false R 10 [] .other, .claim false R 10 [] .other] = none := by
  have hacc : accepts H false R R 10 [] = true := by simp [accepts, verify, foldSorted]
  have hva : validAgainst H (some R) false R 10 [] = true := by
    rw [validAgainst_some H hH false R R 10 [] (fun _ => ⟨hR, by simp⟩), hacc]
  have hcl : ∀ d : Dist Node, (∀ i, inU 4 i = true → d.claimed i = false) → claimedList d 4 = [] := by
    intro d hd
    unfold claimedList
    rw [List.filter_eq_nil_iff]
    intro i hi
    rw [hd i ((mem_univ 4 i).mp hi)]; simp
  have hc1 : claimedList (Dist.empty.setRoot R : Dist Node) 4 = [] := hcl _ (fun _ _ => rfl)
  have hc2 : claimedList ((Dist.empty.setRoot R : Dist Node).setClaimed 10) 4 = [] := by
    apply hcl
    intro i hi
    rw [setClaimed_claimed]
    have : i ≠ 10 := by
      intro e; subst e; revert hi; decide
    simp [this, Dist.empty, Dist.setRoot]
  have hs2 : (Dist.empty.setRoot R : Dist Node).step (bytesOps H) (claimOp false R 10 []) =
      .ok ((Dist.empty.setRoot R).setClaimed 10) :=
    (step_claim_ok H _ _ false R 10 []).mpr ⟨R, rfl, rfl, hacc, rfl⟩
  have hs3 : ∃ e, ((Dist.empty.setRoot R : Dist Node).setClaimed 10).step (bytesOps H) (claimOp false R 10 []) =
      .error e := by
    cases h : ((Dist.empty.setRoot R : Dist Node).setClaimed 10).step (bytesOps H) (claimOp false R 10 []) with
    | error e => exact ⟨e, rfl⟩
    | ok d' =>
      obtain ⟨_, _, h2, _⟩ := (step_claim_ok H _ d' false R 10 []).mp h
      rw [setClaimed_claimed] at h2
      simp at h2
  obtain ⟨e3, hs3⟩ := hs3
  refine ⟨?_, ?_, ?_, ?_, ?_, ?_⟩
  · show ((Dist.empty.setRoot R : Dist Node), (⟨true, some R, claimedList (Dist.empty.setRoot R) 4⟩ : DObs)) = _
    rw [hc1]
  · simp only [distModel, hs2]
    rw [hc2]; rfl
  · simp only [distModel, hs3]
    rw [hc2]; rfl
  · rw [hva]
    simp [Legacy.verdictClaim, newFlags]
  · rw [hva]
    simp [Legacy.verdictClaim, newFlags]
  · apply dist_monitor_run_quiet H hH 4 (by omega) _ _ _
      ⟨rfl, rfl, (claimedList_empty none 4).symm, fun i => by simp [distMonInit, Dist.empty]⟩
    refine ⟨trivial, ⟨fun _ => ⟨hR, by simp⟩, fun c hc => by cases hc⟩, ⟨fun _ => ⟨hR, by simp⟩, fun c hc => by cases hc⟩, trivial⟩

/-! ## non-vacuity (tests, labelled as such): the monitor is not trivially silent -/

/-- a verifier that answers `ok true` where the fold says `ok false` -/
example : (verdictVerify (fun x => x) ⟨false, [1], [2], 0, [], .other⟩ ⟨some .accept, "ok true"⟩).isSome = true := by
  simp [verdictVerify, wantOf, monVerify, monFoldSorted, wantAns]
/-- an honest line answered `ok false` by verifier and fold alike (cannot happen for the model:
`honest_line_accepted`) is reported through the tag -/
example : (verdictVerify (fun x => x) ⟨false, [1], [2], 0, [], .honest⟩ ⟨some .reject, "ok false"⟩).isSome = true := by
  simp [verdictVerify, wantOf, monVerify, monFoldSorted, wantAns, tagCheck]
/-- a flag that disappears -/
example : (distCore (fun x => x) { w := 4, claimed := [1, 2] } .look ⟨true, none, [2]⟩).2 = some unmarkedMsg := by
  simp [distCore, distVerdict, unmarked]
/-- a second accepted claim for the same index (the seeded change "already-claimed check removed") -/
example : (distCore (fun x => x) { w := 4, root := some [7], claimed := [1] } (.claim false [7] 1 [] .other)
    ⟨true, some [7], [1]⟩).2.isSome = true := by
  simp [distCore, distVerdict, unmarked, verdictSeen, verdictClaim, spurious, verdictClaimAccepted, wasClaimed]
/-- a claim for index 8 that also sets flag 72 (the seeded bitmap aliasing) -/
example : (distCore (fun x => x) { w := 100, root := some [7] } (.claim false [7] 8 [] .other)
    ⟨true, some [7], [8, 72]⟩).2.isSome = true := by
  simp [distCore, distVerdict, unmarked, verdictSeen, verdictClaim, spurious]
/-- a second accepted claim for a FAR index is reported through the ghost log -/
example : (distCore (fun x => x) { w := 4, root := some [7], far := [10] } (.claim false [7] 10 [] .other)
    ⟨true, some [7], []⟩).2.isSome = true := by
  simp [distCore, distVerdict, unmarked, verdictSeen, verdictClaim, spurious, verdictClaimAccepted, wasClaimed]
/-- an airdrop claim that pays one unit too much -/
example : (airCore (fun x => x) { w := 4, root := some [7], pool := 10, bal := [0, 0] } (.claim [7] 1 0 3 [] .other)
    ⟨true, [1], 6, [4, 0]⟩).2.isSome = true := by
  simp [airCore, airVerdict, unmarked, verdictAirClaim, spurious, verdictAirAccepted, wasClaimed, corruptAlarm,
    firstSome, airAcceptedTail, validAgainst, monVerify, monFoldSorted, newFlags, expectNew, inU]

/-- the `c:` conclusion is not a theorem about the model for an arbitrary hash function: with a
constant hash the model accepts an EXTENDED proof (root = H(..), honest proof [x], extended [x, y]) —
hence `TagOk` / `LineOk` state it as a hypothesis instead of assuming it silently -/
example :
    modelAns (fun _ => [0]) ⟨false, [0], [5], 0, [[1]], .honest⟩ = .accept ∧
    modelAns (fun _ => [0]) ⟨false, [0], [5], 0, [[1], [2]], .corrupt "ext"⟩ = .accept := by
  decide

/-- the 32-byte hypothesis of the sorted form is needed: on byte strings of different lengths (not
`BytesN<32>` values; no harness writes them) the big-endian number order is not the lexicographic
order — [1] > [0, 2] lexicographically although 1 < 2 — so the monitor's fold and the model's differ -/
theorem sorted_needs_equal_lengths :
    monPairSorted (fun x => x) [1] [0, 2] = [1, 0, 2] ∧ chp (bytesOps (fun x => x)) [1] [0, 2] = [0, 2, 1] := by
  decide

end OZ.Merkle.Mon
