import OZ.Lemmas.Vault
/-
C05 — Vault share accounting always rounds in the vault's favour.

Property theorems only (helper lemmas, the invariant `WF` and the statement vocabulary
`MovedIn / MovedOut / RateLe / roundedOrOverflow / CanSpend / CanPull` live in
OZ/Lemmas/Vault.lean; the allowance lemmas of C02, OZ/Lemmas/FungibleAuth.lean, are reused). The model
(OZ/Model/Vault.lean) mirrors `impl Vault` of packages/tokens/src/vault/storage.rs as wired by
examples/fungible-vault: a share token and an asset token that are both the library's `Base`
token (OZ/Model/Fungible.lean, C01), and conversions that call the C12 mul-div model with
exactly the coded operands.

Notation in the comments: `A = total_assets` (the asset token's balance of the vault),
`S = total share supply`, `V = 10^offset`.

All statements hold for every decimals offset `≤ 10`, every ledger configuration, all `Int`
amounts (negative, zero, up to and beyond i128), all parties and all authorizing sets; the
history theorems quantify over ALL finite lists of operations (the four vault operations by
anybody for anybody, share transfers / approvals / transfer_from, asset transfers — i.e.
donations —, asset mints, approvals, burns, ledger movement; failed calls included). The
only side condition is that nobody signs for the vault contract itself (`s.vault ∉ auth`):
the contract has no `__check_auth`, so it authorizes only as the direct invoker.
`WF U s` = both tokens satisfy the C01 invariant over the duplicate-free universe `U`,
`offset ≤ 10`, and the vault has approved nobody on the asset token; it holds after the
constructor and is preserved by every operation (`rate_monotone_run`, `shares_inv_reachable`).
-/
namespace OZ.Vault
open OZ.Host

/-! ## 1. conversions are the exactly rounded rational formula -/

/-- **convert_exact (assets → shares).** For every state, amount and rounding mode
`convert_to_shares_with_rounding` is: an error for a negative amount, `0` for `0`, an overflow
error if `S + 10^offset` or `A + 1` leaves i128, and otherwise the exactly rounded quotient
`a·(S + 10^offset) / (A + 1)` when that fits in i128 — also when the intermediate product
does not (phantom overflow) — and an overflow error exactly otherwise. (Corollary of C12.) -/
theorem convert_to_shares_exact (s : State) (a : Int) (rd : Rounding) (ha : OZ.MulDiv.in128 a)
    (hoff : s.offset ≤ 10) (hA : 0 ≤ totalAssets s) :
    convertToShares s a rd =
      if a < 0 then .error .invalidAssets
      else if a = 0 then .ok 0
      else if ¬ OZ.MulDiv.in128 (totalShares s + 10 ^ s.offset) ∨ ¬ OZ.MulDiv.in128 (totalAssets s + 1) then
        .error .mathOverflow
      else roundedOrOverflow rd a (totalShares s + 10 ^ s.offset) (totalAssets s + 1) :=
  convertToShares_eq s a rd ha hoff hA

/-- **convert_exact (shares → assets)**: `x·(A + 1) / (S + 10^offset)`, same shape. -/
theorem convert_to_assets_exact (s : State) (x : Int) (rd : Rounding) (hx : OZ.MulDiv.in128 x)
    (hoff : s.offset ≤ 10) (hS : 0 ≤ totalShares s) :
    convertToAssets s x rd =
      if x < 0 then .error .invalidShares
      else if x = 0 then .ok 0
      else if ¬ OZ.MulDiv.in128 (totalAssets s + 1) ∨ ¬ OZ.MulDiv.in128 (totalShares s + 10 ^ s.offset) then
        .error .mathOverflow
      else roundedOrOverflow rd x (totalAssets s + 1) (totalShares s + 10 ^ s.offset) :=
  convertToAssets_eq s x rd hx hoff hS

/-- the rounded quotient in `roundedOrOverflow` is the mathematical floor resp. ceiling:
`d·q ≤ x·y < d·(q+1)` resp. `d·(q-1) < x·y ≤ d·q` -/
theorem rounded_is_floor_or_ceil (x y d : Int) (hd : 0 < d) :
    (d * OZ.MulDiv.exactQ .floor x y d ≤ x * y ∧ x * y < d * (OZ.MulDiv.exactQ .floor x y d + 1)) ∧
    (d * (OZ.MulDiv.exactQ .ceil x y d - 1) < x * y ∧ x * y ≤ d * OZ.MulDiv.exactQ .ceil x y d) := by
  obtain ⟨f1, f2⟩ := exactQ_floor_bounds x y d hd
  obtain ⟨c1, c2⟩ := exactQ_ceil_bounds x y d hd
  refine ⟨⟨f1, by linarith⟩, ⟨by linarith, c1⟩⟩

/-! ## 2. rounding directions of the four operations -/

/-- **deposit hands out the floor**: `shares·(A+1) ≤ assets·(S+V) < (shares+1)·(A+1)` -/
theorem deposit_rounds_down {U : List Nat} {c : Cfg} {s s' : State} (hw : WF U s) {auth : List Nat}
    {sub : Bool} {a v : Int} {r f o : Nat} (h : deposit c s auth sub a r f o = .ok (s', v)) :
    v * (totalAssets s + 1) ≤ a * (totalShares s + 10 ^ s.offset) ∧
    a * (totalShares s + 10 ^ s.offset) < (v + 1) * (totalAssets s + 1) := by
  obtain ⟨-, hmax, hp, hin, -⟩ := deposit_ok h
  obtain ⟨hA, hS, hV, -⟩ := wf_pos hw
  have ha : OZ.MulDiv.in128 a := by
    have := hin.a0
    unfold OZ.MulDiv.in128 OZ.MulDiv.I128_MIN OZ.MulDiv.I128_MAX; unfold I128_MAX at hmax; omega
  obtain ⟨-, hv, -⟩ := convertToShares_ok ha hw.off hA hp
  obtain ⟨b1, b2⟩ := exactQ_floor_bounds a (totalShares s + 10 ^ s.offset) (totalAssets s + 1) (by omega)
  rw [← hv] at b1 b2
  constructor <;> linarith

/-- **mint charges the ceiling**: `shares·(A+1) ≤ assets·(S+V) < shares·(A+1) + (S+V)` -/
theorem mint_rounds_up {U : List Nat} {c : Cfg} {s s' : State} (hw : WF U s) {auth : List Nat}
    {sub : Bool} {x a : Int} {r f o : Nat} (h : mint c s auth sub x r f o = .ok (s', a)) :
    x * (totalAssets s + 1) ≤ a * (totalShares s + 10 ^ s.offset) ∧
    a * (totalShares s + 10 ^ s.offset) < x * (totalAssets s + 1) + (totalShares s + 10 ^ s.offset) := by
  obtain ⟨-, hmax, hp, hin, -⟩ := mint_ok h
  obtain ⟨hA, hS, hV, -⟩ := wf_pos hw
  have hx : OZ.MulDiv.in128 x := by
    have := hin.v0
    unfold OZ.MulDiv.in128 OZ.MulDiv.I128_MIN OZ.MulDiv.I128_MAX; unfold I128_MAX at hmax; omega
  obtain ⟨-, hv, -⟩ := convertToAssets_ok hx hw.off hS hp
  obtain ⟨b1, b2⟩ := exactQ_ceil_bounds x (totalAssets s + 1) (totalShares s + 10 ^ s.offset) (by omega)
  rw [← hv] at b1 b2
  constructor <;> linarith

/-- **withdraw charges the ceiling**: `assets·(S+V) ≤ shares·(A+1) < assets·(S+V) + (A+1)` -/
theorem withdraw_rounds_up {U : List Nat} (hn : U.Nodup) {c : Cfg} {s s' : State} (hw : WF U s)
    {auth : List Nat} {a v : Int} {r ow o : Nat} (h : withdraw c s auth a r ow o = .ok (s', v)) :
    a * (totalShares s + 10 ^ s.offset) ≤ v * (totalAssets s + 1) ∧
    v * (totalAssets s + 1) < a * (totalShares s + 10 ^ s.offset) + (totalAssets s + 1) := by
  obtain ⟨-, ⟨m, hm, hle⟩, hp, hout, -⟩ := withdraw_ok h
  obtain ⟨hA, hS, hV, -⟩ := wf_pos hw
  have hb : OZ.MulDiv.in128 (s.sh.bal ow) := shares_in128 hn hw (hw.sh.nonneg ow) (Int.le_refl _)
  obtain ⟨-, -, hmin⟩ := convertToAssets_ok hb hw.off hS hm
  have ha : OZ.MulDiv.in128 a := by
    have := hout.a0
    unfold OZ.MulDiv.in128 OZ.MulDiv.I128_MIN OZ.MulDiv.I128_MAX at *; omega
  obtain ⟨-, hv, -⟩ := convertToShares_ok ha hw.off hA hp
  obtain ⟨b1, b2⟩ := exactQ_ceil_bounds a (totalShares s + 10 ^ s.offset) (totalAssets s + 1) (by omega)
  rw [← hv] at b1 b2
  constructor <;> linarith

/-- **redeem hands out the floor**: `assets·(S+V) ≤ shares·(A+1) < (assets+1)·(S+V)` -/
theorem redeem_rounds_down {U : List Nat} (hn : U.Nodup) {c : Cfg} {s s' : State} (hw : WF U s)
    {auth : List Nat} {x a : Int} {r ow o : Nat} (h : redeem c s auth x r ow o = .ok (s', a)) :
    a * (totalShares s + 10 ^ s.offset) ≤ x * (totalAssets s + 1) ∧
    x * (totalAssets s + 1) < (a + 1) * (totalShares s + 10 ^ s.offset) := by
  obtain ⟨-, hle, hp, hout, -⟩ := redeem_ok h
  obtain ⟨hA, hS, hV, -⟩ := wf_pos hw
  have hx : OZ.MulDiv.in128 x := shares_in128 hn hw hout.v0 hle
  obtain ⟨-, hv, -⟩ := convertToAssets_ok hx hw.off hS hp
  obtain ⟨b1, b2⟩ := exactQ_floor_bounds x (totalAssets s + 1) (totalShares s + 10 ^ s.offset) (by omega)
  rw [← hv] at b1 b2
  constructor <;> linarith


/-! ## 3. every operation returns its preview and moves exactly the returned amounts -/

/-- **preview_eq_operation, deposit**: authorized by the operator, returns exactly
`preview_deposit(assets)` of the pre-state, moves exactly `(assets, shares)`, one event -/
theorem deposit_eq_preview {c : Cfg} {s s' : State} {auth : List Nat} {sub : Bool} {a v : Int}
    {r f o : Nat} (h : deposit c s auth sub a r f o = .ok (s', v)) :
    o ∈ auth ∧ previewDeposit s a = .ok v ∧ MovedIn s s' r f o a v ∧
    s'.events = s.events ++ [.deposit o f r a v] := by
  obtain ⟨h1, -, h3, h4, h5⟩ := deposit_ok h
  exact ⟨h1, h3, inflow_movedIn h4, h5⟩

/-- **preview_eq_operation, mint**: returns exactly `preview_mint(shares)` and charges it -/
theorem mint_eq_preview {c : Cfg} {s s' : State} {auth : List Nat} {sub : Bool} {x a : Int}
    {r f o : Nat} (h : mint c s auth sub x r f o = .ok (s', a)) :
    o ∈ auth ∧ previewMint s x = .ok a ∧ MovedIn s s' r f o a x ∧
    s'.events = s.events ++ [.deposit o f r a x] := by
  obtain ⟨h1, -, h3, h4, h5⟩ := mint_ok h
  exact ⟨h1, h3, inflow_movedIn h4, h5⟩

/-- **preview_eq_operation, withdraw**: within `max_withdraw(owner)`, burns exactly
`preview_withdraw(assets)` -/
theorem withdraw_eq_preview {c : Cfg} {s s' : State} {auth : List Nat} {a v : Int}
    {r ow o : Nat} (h : withdraw c s auth a r ow o = .ok (s', v)) :
    o ∈ auth ∧ (∃ m, maxWithdraw s ow = .ok m ∧ a ≤ m) ∧ previewWithdraw s a = .ok v ∧
    MovedOut s s' r ow o a v ∧ s'.events = s.events ++ [.withdraw o r ow a v] := by
  obtain ⟨h1, h2, h3, h4, h5⟩ := withdraw_ok h
  exact ⟨h1, h2, h3, outflow_movedOut h4, h5⟩

/-- **preview_eq_operation, redeem**: within `max_redeem(owner)` (the owner's share balance),
pays exactly `preview_redeem(shares)` -/
theorem redeem_eq_preview {c : Cfg} {s s' : State} {auth : List Nat} {x a : Int}
    {r ow o : Nat} (h : redeem c s auth x r ow o = .ok (s', a)) :
    o ∈ auth ∧ x ≤ maxRedeem s ow ∧ previewRedeem s x = .ok a ∧
    MovedOut s s' r ow o a x ∧ s'.events = s.events ++ [.withdraw o r ow a x] := by
  obtain ⟨h1, h2, h3, h4, h5⟩ := redeem_ok h
  exact ⟨h1, h2, h3, outflow_movedOut h4, h5⟩

/-! ## 4. the rate never decreases -/

/-- **rate_monotone (one step)**: every successful operation of any kind — deposit, mint,
withdraw, redeem by anybody for anybody, share transfers and approvals, asset transfers
(donations), mints and approvals — leaves `(total_assets + 1) / (total_shares + 10^offset)`
unchanged or higher. Nobody can sign for the vault contract itself. -/
theorem rate_monotone {U : List Nat} (hn : U.Nodup) (c : Cfg) {s s' : State} {ret : Int}
    (hw : WF U s) (auth : List Nat) (op : Op) (hU : ∀ a ∈ op.addrs, a ∈ U) (hv : s.vault ∉ auth)
    (h : apply c s auth op = .ok (s', ret)) : RateLe s s' := by
  obtain ⟨hA, hS, hV, -⟩ := wf_pos hw
  obtain ⟨-, hoff⟩ := apply_static h
  unfold RateLe
  rw [hoff]
  cases op with
  | deposit sub a r f o =>
    obtain ⟨b1, -⟩ := deposit_rounds_down hw h
    obtain ⟨ho, -, -, hin, -⟩ := deposit_ok h
    have e1 := inflow_assets hw ho hv hin
    have e2 : totalShares s' = totalShares s + ret := hin.shSup
    rw [e1, e2]; nlinarith
  | mint sub x r f o =>
    obtain ⟨b1, -⟩ := mint_rounds_up hw h
    obtain ⟨ho, -, -, hin, -⟩ := mint_ok h
    have e1 := inflow_assets hw ho hv hin
    have e2 : totalShares s' = totalShares s + x := hin.shSup
    rw [e1, e2]; nlinarith
  | withdraw a r ow o =>
    obtain ⟨b1, -⟩ := withdraw_rounds_up hn hw h
    obtain ⟨-, -, -, hout, -⟩ := withdraw_ok h
    have e1 := outflow_assets hout
    have e2 : totalShares s' = totalShares s - ret := hout.shSup
    have := hout.v0
    rw [e1, e2]
    split
    · nlinarith [Int.mul_nonneg (show 0 ≤ totalAssets s + 1 by omega) this]
    · nlinarith
  | redeem x r ow o =>
    obtain ⟨b1, -⟩ := redeem_rounds_down hn hw h
    obtain ⟨-, -, -, hout, -⟩ := redeem_ok h
    have e1 := outflow_assets hout
    have e2 : totalShares s' = totalShares s - x := hout.shSup
    have := hout.v0
    rw [e1, e2]
    split
    · nlinarith [Int.mul_nonneg (show 0 ≤ totalAssets s + 1 by omega) this]
    · nlinarith
  | share op =>
    simp only [apply, withRet] at h
    split at h
    · rename_i s1 h1
      injection h with h; injection h with h _; subst h
      obtain ⟨hal, sh, hsh, rfl⟩ := shareOp_ok h1
      obtain ⟨e1, e2, e3, -⟩ := emitOpt_fields { s with sh := sh } (shareEvent op)
      have hd := (OZ.Fungible.apply_inv hn c hw.sh auth op hU hsh).2
      have e4 : totalShares (emitOpt { s with sh := sh } (shareEvent op)) = totalShares s := by
        unfold totalShares; rw [e1]; show sh.supply = _; rw [hd]
        cases op <;> simp [shareOpAllowed] at hal <;> simp [OZ.Fungible.supplyDelta]
      have e5 : totalAssets (emitOpt { s with sh := sh } (shareEvent op)) = totalAssets s := by
        unfold totalAssets; rw [e2, e3]
      rw [e4, e5]
    · cases h
  | asset op =>
    simp only [apply, withRet] at h
    split at h
    · rename_i s1 h1
      injection h with h; injection h with h _; subst h
      obtain ⟨a, ha, rfl⟩ := assetOp_ok h1
      have hb := apply_bal_frame ha s.vault hv hw.noVaultAllow
      have e4 : totalShares { s with ast := a } = totalShares s := rfl
      have e5 : totalAssets s ≤ totalAssets { s with ast := a } := hb
      rw [e4]; nlinarith
    · cases h
  | advance n =>
    simp only [apply] at h
    injection h with h; injection h with h _; subst h
    exact Int.le_refl _

/-! ## 5. histories -/

/-- a failed invocation leaves everything as it was (the host's rollback; observed on the
implementation after every failed call by the correspondence check) -/
theorem failed_no_effect (c : Cfg) (s : State) (auth : List Nat) (op : Op) (e : Err)
    (h : apply c s auth op = .error e) : step c s (auth, op) = s := by
  simp [step, h]

/-- one step of a history: well-formedness, the rate order, and the static data -/
theorem step_wf_rate {U : List Nat} (hn : U.Nodup) (c : Cfg) {s : State} (hw : WF U s)
    (x : List Nat × Op) (hv : s.vault ∉ x.1) (hU : ∀ a ∈ x.2.addrs, a ∈ U) :
    WF U (step c s x) ∧ RateLe s (step c s x) ∧ (step c s x).vault = s.vault ∧
    (step c s x).offset = s.offset := by
  unfold step
  cases hx : apply c s x.1 x.2 with
  | error e => exact ⟨hw, rateLe_refl s, rfl, rfl⟩
  | ok r =>
    obtain ⟨s', ret⟩ := r
    obtain ⟨e1, e2⟩ := apply_static hx
    exact ⟨apply_wf hn c hw x.1 x.2 hU hv hx, rate_monotone hn c hw x.1 x.2 hU hv hx, e1, e2⟩

/-- **rate_monotone (all histories)** and **share-token invariant in every reachable state**:
after ANY finite list of operations (arbitrary amounts, parties and signers other than the
vault contract itself, failed calls included) the state is well formed — in particular
total share supply = Σ share balances, no share balance is negative, both supplies are
valid i128 — and the rate `(A+1)/(S+V)` is at least what it was at the start. -/
theorem rate_monotone_run {U : List Nat} (hn : U.Nodup) (c : Cfg) (ops : List (List Nat × Op))
    {s : State} (hw : WF U s)
    (hadm : ∀ x ∈ ops, s.vault ∉ x.1 ∧ ∀ a ∈ x.2.addrs, a ∈ U) :
    WF U (run c s ops) ∧ RateLe s (run c s ops) ∧ (run c s ops).vault = s.vault ∧
    (run c s ops).offset = s.offset := by
  induction ops generalizing s with
  | nil => exact ⟨hw, rateLe_refl s, rfl, rfl⟩
  | cons x xs ih =>
    obtain ⟨hv, hU⟩ := hadm x List.mem_cons_self
    obtain ⟨w1, r1, v1, o1⟩ := step_wf_rate hn c hw x hv hU
    have hadm' : ∀ y ∈ xs, (step c s x).vault ∉ y.1 ∧ ∀ a ∈ y.2.addrs, a ∈ U := by
      intro y hy; rw [v1]; exact hadm y (List.mem_cons_of_mem _ hy)
    obtain ⟨w2, r2, v2, o2⟩ := ih w1 hadm'
    simp only [run, List.foldl_cons] at *
    exact ⟨w2, rateLe_trans hw w1 w2 o1 o2 r1 r2, by rw [v2, v1], by rw [o2, o1]⟩

/-- the same from genesis: the share token of every reachable vault satisfies the C01
invariant (supply = Σ balances, balances ≥ 0) -/
theorem shares_inv_reachable {U : List Nat} (hn : U.Nodup) (c : Cfg) (vault offset now : Nat)
    {s0 : State} (hv : vault ∈ U) (h0 : construct vault offset now = .ok s0)
    (ops : List (List Nat × Op)) (hadm : ∀ x ∈ ops, vault ∉ x.1 ∧ ∀ a ∈ x.2.addrs, a ∈ U) :
    OZ.Fungible.total U (run c s0 ops).sh.bal = (run c s0 ops).sh.supply ∧
    (∀ a, 0 ≤ (run c s0 ops).sh.bal a) ∧ WF U (run c s0 ops) := by
  have hw := construct_wf (U := U) hv h0
  have hvs : s0.vault = vault := by
    unfold construct at h0; split at h0
    · cases h0
    · injection h0 with h0; subst h0; rfl
  obtain ⟨w, -, -, -⟩ := rate_monotone_run hn c ops hw (by rw [hvs]; exact hadm)
  exact ⟨w.sh.sum, w.sh.nonneg, w⟩

/-- **no_extraction**: over any history, if the share supply ends at least where it started
(e.g. a coalition that entered and left with zero shares while all other holders kept their
balances), the vault holds at least the assets it held at the start: whatever the
participants took out in total is covered by what they put in (donations included on the
"in" side; they only raise the rate). With everybody else passive this is
`assets_out ≤ assets_in` for the acting coalition. -/
theorem no_extraction {U : List Nat} (hn : U.Nodup) (c : Cfg) (ops : List (List Nat × Op))
    {s : State} (hw : WF U s)
    (hadm : ∀ x ∈ ops, s.vault ∉ x.1 ∧ ∀ a ∈ x.2.addrs, a ∈ U)
    (hS : totalShares s ≤ totalShares (run c s ops)) :
    totalAssets s ≤ totalAssets (run c s ops) := by
  obtain ⟨w, r, -, o⟩ := rate_monotone_run hn c ops hw hadm
  obtain ⟨a1, t1, v1, -⟩ := wf_pos hw
  obtain ⟨a2, t2, -, -⟩ := wf_pos w
  unfold RateLe at r
  rw [o] at r
  generalize (10 : Int) ^ s.offset = V at *
  by_contra hlt
  have : totalAssets (run c s ops) + 1 ≤ totalAssets s := by omega
  nlinarith

/-! ## 6. round trips never profit -/

/-- **redeem (deposit a) ≤ a**: redeeming the shares a deposit has just minted returns at
most the deposited assets -/
theorem deposit_then_redeem_no_profit {U : List Nat} (hn : U.Nodup) {c : Cfg} {s s1 s2 : State}
    (hw : WF U s) {auth auth' : List Nat} {sub : Bool} {a v a' : Int} {r f o r' ow o' : Nat}
    (hr : r ∈ U) (hf : f ∈ U) (ho : o ∈ U) (hv : s.vault ∉ auth)
    (h1 : deposit c s auth sub a r f o = .ok (s1, v))
    (h2 : redeem c s1 auth' v r' ow o' = .ok (s2, a')) : a' ≤ a := by
  have hap : apply c s auth (.deposit sub a r f o) = .ok (s1, v) := h1
  have hw1 := apply_wf hn c hw auth _ (by intro x hx; simp [Op.addrs] at hx; rcases hx with rfl | rfl | rfl <;> assumption) hv hap
  obtain ⟨b1, -⟩ := deposit_rounds_down hw h1
  obtain ⟨b2, -⟩ := redeem_rounds_down hn hw1 h2
  obtain ⟨hoa, -, -, hin, -⟩ := deposit_ok h1
  have e1 := inflow_assets hw hoa hv hin
  have e2 : totalShares s1 = totalShares s + v := hin.shSup
  have e3 : s1.offset = s.offset := hin.offset
  obtain ⟨hA, hS, hV, -⟩ := wf_pos hw
  have hv0 := hin.v0
  rw [e1, e2, e3] at b2
  generalize (10 : Int) ^ s.offset = V at *
  by_contra hlt
  have : a + 1 ≤ a' := by omega
  nlinarith

/-- **mint s then redeem s**: the assets a mint charges are at least what redeeming the same
shares right afterwards returns -/
theorem mint_then_redeem_no_profit {U : List Nat} (hn : U.Nodup) {c : Cfg} {s s1 s2 : State}
    (hw : WF U s) {auth auth' : List Nat} {sub : Bool} {x a a' : Int} {r f o r' ow o' : Nat}
    (hr : r ∈ U) (hf : f ∈ U) (ho : o ∈ U) (hv : s.vault ∉ auth)
    (h1 : mint c s auth sub x r f o = .ok (s1, a))
    (h2 : redeem c s1 auth' x r' ow o' = .ok (s2, a')) : a' ≤ a := by
  have hap : apply c s auth (.mint sub x r f o) = .ok (s1, a) := h1
  have hw1 := apply_wf hn c hw auth _ (by intro y hy; simp [Op.addrs] at hy; rcases hy with rfl | rfl | rfl <;> assumption) hv hap
  obtain ⟨b1, -⟩ := mint_rounds_up hw h1
  obtain ⟨b2, -⟩ := redeem_rounds_down hn hw1 h2
  obtain ⟨hoa, -, -, hin, -⟩ := mint_ok h1
  have e1 := inflow_assets hw hoa hv hin
  have e2 : totalShares s1 = totalShares s + x := hin.shSup
  have e3 : s1.offset = s.offset := hin.offset
  obtain ⟨hA, hS, hV, -⟩ := wf_pos hw
  have hx0 := hin.v0
  rw [e1, e2, e3] at b2
  generalize (10 : Int) ^ s.offset = V at *
  by_contra hlt
  have : a + 1 ≤ a' := by omega
  nlinarith

/-- **withdraw a then deposit a**: depositing the withdrawn assets straight back mints at most
the shares the withdrawal burned -/
theorem withdraw_then_deposit_no_profit {U : List Nat} (hn : U.Nodup) {c : Cfg} {s s1 s2 : State}
    (hw : WF U s) {auth auth' : List Nat} {sub : Bool} {a v v' : Int} {r ow o r' f o' : Nat}
    (hr : r ∈ U) (how : ow ∈ U) (ho : o ∈ U) (hv : s.vault ∉ auth)
    (h1 : withdraw c s auth a r ow o = .ok (s1, v))
    (h2 : deposit c s1 auth' sub a r' f o' = .ok (s2, v')) : v' ≤ v := by
  have hap : apply c s auth (.withdraw a r ow o) = .ok (s1, v) := h1
  have hw1 := apply_wf hn c hw auth _ (by intro y hy; simp [Op.addrs] at hy; rcases hy with rfl | rfl | rfl <;> assumption) hv hap
  obtain ⟨b1, -⟩ := withdraw_rounds_up hn hw h1
  obtain ⟨b2, -⟩ := deposit_rounds_down hw1 h2
  obtain ⟨-, -, -, hout, -⟩ := withdraw_ok h1
  have e1 := outflow_assets hout
  have e2 : totalShares s1 = totalShares s - v := hout.shSup
  have e3 : s1.offset = s.offset := hout.offset
  obtain ⟨hA, hS, hV, -⟩ := wf_pos hw
  have hv0 := hout.v0
  have ha0 := hout.a0
  have hle : a ≤ totalAssets s := hout.hasAssets
  rw [e1, e2, e3] at b2
  generalize (10 : Int) ^ s.offset = V at *
  by_contra hlt
  have h' : v + 1 ≤ v' := by omega
  split at b2
  · nlinarith [Int.mul_nonneg ha0 hv0]
  · nlinarith [Int.mul_nonneg ha0 hv0]

/-- in one and the same state a buyer of `x` shares pays at least what a seller of `x` shares
gets, and a withdrawer of `a` assets burns at least the shares a depositor of `a` gets -/
theorem previews_ordered {U : List Nat} {s : State} (hw : WF U s) {x p q : Int}
    (hx : OZ.MulDiv.in128 x) :
    (previewMint s x = .ok p → previewRedeem s x = .ok q → q ≤ p) ∧
    (previewWithdraw s x = .ok p → previewDeposit s x = .ok q → q ≤ p) := by
  obtain ⟨hA, hS, hV, -⟩ := wf_pos hw
  constructor
  · intro h1 h2
    obtain ⟨-, e1, -⟩ := convertToAssets_ok hx hw.off hS h1
    obtain ⟨-, e2, -⟩ := convertToAssets_ok hx hw.off hS h2
    obtain ⟨c1, -⟩ := exactQ_ceil_bounds x (totalAssets s + 1) (totalShares s + 10 ^ s.offset) (by omega)
    obtain ⟨f1, -⟩ := exactQ_floor_bounds x (totalAssets s + 1) (totalShares s + 10 ^ s.offset) (by omega)
    rw [← e1] at c1; rw [← e2] at f1
    by_contra hlt
    have : p + 1 ≤ q := by omega
    nlinarith
  · intro h1 h2
    obtain ⟨-, e1, -⟩ := convertToShares_ok hx hw.off hA h1
    obtain ⟨-, e2, -⟩ := convertToShares_ok hx hw.off hA h2
    obtain ⟨c1, -⟩ := exactQ_ceil_bounds x (totalShares s + 10 ^ s.offset) (totalAssets s + 1) (by omega)
    obtain ⟨f1, -⟩ := exactQ_floor_bounds x (totalShares s + 10 ^ s.offset) (totalAssets s + 1) (by omega)
    rw [← e1] at c1; rw [← e2] at f1
    by_contra hlt
    have : p + 1 ≤ q := by omega
    nlinarith

/-! ## 7. solvency and limits -/

/-- **solvent**: in every well-formed (hence every reachable) state the vault can pay all
holders at once: the sum over all holders of what `redeem(balance)` would pay,
`Σ_u ⌊bal_u·(A+1)/(S+V)⌋`, is at most `total_assets` -/
theorem solvent {U : List Nat} {s : State} (hw : WF U s) :
    OZ.Fungible.total U (fun u => OZ.MulDiv.exactQ .floor (s.sh.bal u) (totalAssets s + 1)
      (totalShares s + 10 ^ s.offset)) ≤ totalAssets s := by
  obtain ⟨hA, hS, hV, -⟩ := wf_pos hw
  have h := sum_floor_le U s.sh.bal (totalAssets s + 1) (totalShares s + 10 ^ s.offset) (by omega)
  rw [hw.sh.sum] at h
  have hs : s.sh.supply = totalShares s := rfl
  rw [hs] at h
  generalize OZ.Fungible.total U _ = T at *
  generalize (10 : Int) ^ s.offset = V at *
  by_contra hlt
  have : totalAssets s + 1 ≤ T := by omega
  nlinarith

/-- **max_withdraw_within_balance**: `max_withdraw(owner)` never exceeds the vault's assets,
and withdrawing exactly that much burns at most the owner's balance (so the documented
maximum is always within reach of the owner's own shares) -/
theorem max_withdraw_within_balance {U : List Nat} (hn : U.Nodup) {s : State} (hw : WF U s)
    {ow : Nat} {m v : Int} (hm : maxWithdraw s ow = .ok m) (hp : previewWithdraw s m = .ok v) :
    m ≤ totalAssets s ∧ v ≤ s.sh.bal ow := by
  obtain ⟨hA, hS, hV, -⟩ := wf_pos hw
  have hb0 := hw.sh.nonneg ow
  have hbs : s.sh.bal ow ≤ totalShares s := OZ.Fungible.bal_le_supply hn hw.sh ow
  have hb : OZ.MulDiv.in128 (s.sh.bal ow) := shares_in128 hn hw hb0 (Int.le_refl _)
  obtain ⟨-, e1, hmin⟩ := convertToAssets_ok hb hw.off hS hm
  obtain ⟨-, e2, -⟩ := convertToShares_ok hmin hw.off hA hp
  obtain ⟨f1, -⟩ := exactQ_floor_bounds (s.sh.bal ow) (totalAssets s + 1) (totalShares s + 10 ^ s.offset) (by omega)
  obtain ⟨-, c2⟩ := exactQ_ceil_bounds m (totalShares s + 10 ^ s.offset) (totalAssets s + 1) (by omega)
  rw [← e1] at f1; rw [← e2] at c2
  generalize (10 : Int) ^ s.offset = V at *
  generalize s.sh.bal ow = b at *
  constructor
  · by_contra hlt
    have : totalAssets s + 1 ≤ m := by omega
    nlinarith
  · by_contra hlt
    have : b + 1 ≤ v := by omega
    nlinarith

/-- **an operator who is not the owner needs (and spends) share allowance; the operator always
has to authorize**: for `withdraw` and `redeem` -/
theorem operator_needs_allowance {c : Cfg} {s s' : State} {auth : List Nat} {x ret : Int}
    {r ow o : Nat} :
    (withdraw c s auth x r ow o = .ok (s', ret) →
      o ∈ auth ∧ (o ≠ ow → ret ≤ OZ.Fungible.allowance s.sh ow o)) ∧
    (redeem c s auth x r ow o = .ok (s', ret) →
      o ∈ auth ∧ (o ≠ ow → x ≤ OZ.Fungible.allowance s.sh ow o)) := by
  constructor
  · intro h; obtain ⟨h1, -, -, h4, -⟩ := withdraw_ok h; exact ⟨h1, fun hne => (h4.spent hne).1⟩
  · intro h; obtain ⟨h1, -, -, h4, -⟩ := redeem_ok h; exact ⟨h1, fun hne => (h4.spent hne).1⟩

/-! ## 8. the vault's events reproduce every share balance -/

/-- one successful invocation keeps "replaying the vault contract's events gives the share
balances" -/
theorem apply_replay {c : Cfg} {s s' : State} {ret : Int} (auth : List Nat) (op : Op)
    (hr : replay s.events = s.sh.bal) (h : apply c s auth op = .ok (s', ret)) :
    replay s'.events = s'.sh.bal := by
  cases op with
  | deposit sub a r f o =>
    obtain ⟨-, -, -, hin, hev⟩ := deposit_ok h
    rw [hev, replay_append, hr, hin.shBal]; rfl
  | mint sub x r f o =>
    obtain ⟨-, -, -, hin, hev⟩ := mint_ok h
    rw [hev, replay_append, hr, hin.shBal]; rfl
  | withdraw a r ow o =>
    obtain ⟨-, -, -, hout, hev⟩ := withdraw_ok h
    rw [hev, replay_append, hr, hout.shBal]; rfl
  | redeem x r ow o =>
    obtain ⟨-, -, -, hout, hev⟩ := redeem_ok h
    rw [hev, replay_append, hr, hout.shBal]; rfl
  | share op =>
    simp only [apply, withRet] at h
    split at h
    · rename_i s1 h1
      injection h with h; injection h with h _; subst h
      obtain ⟨hal, sh, hsh, rfl⟩ := shareOp_ok h1
      cases op with
      | transfer f dst amt =>
        obtain ⟨-, -, -, -, -, -, t7⟩ := transfer_ok hsh
        show replay (s.events ++ [_]) = sh.bal
        rw [replay_append, hr, t7]; rfl
      | transferFrom sp f dst amt =>
        obtain ⟨-, -, -, -, -, -, t7, -, -⟩ := transferFrom_ok hsh
        show replay (s.events ++ [_]) = sh.bal
        rw [replay_append, hr, t7]; rfl
      | approve ow sp amt lu =>
        obtain ⟨_, _, hsh⟩ := OZ.Fungible.bind_eq_ok hsh
        obtain ⟨s0, h0, h2⟩ := OZ.Fungible.bind_eq_ok hsh
        injection h2 with h2; subst h2
        obtain ⟨-, e2, -, -, -⟩ := OZ.Fungible.setAllowance_ok h0
        show replay (s.events ++ [_]) = s0.bal
        rw [replay_append, hr, e2]; rfl
      | mint dst amt => simp [shareOpAllowed] at hal
      | burn f amt => simp [shareOpAllowed] at hal
      | burnFrom sp f amt => simp [shareOpAllowed] at hal
      | advance n => simp [shareOpAllowed] at hal
    · cases h
  | asset op =>
    simp only [apply, withRet] at h
    split at h
    · rename_i s1 h1
      injection h with h; injection h with h _; subst h
      obtain ⟨a, -, rfl⟩ := assetOp_ok h1
      exact hr
    · cases h
  | advance n =>
    simp only [apply] at h
    injection h with h; injection h with h _; subst h
    exact hr

/-- **events**: after any history from genesis, replaying the vault contract's event stream
(Deposit: shares minted to the receiver; Withdraw: shares burned from the owner; share
transfers) reproduces every share balance -/
theorem replay_events (c : Cfg) (vault offset now : Nat) {s0 : State}
    (h0 : construct vault offset now = .ok s0) (ops : List (List Nat × Op)) :
    replay (run c s0 ops).events = (run c s0 ops).sh.bal := by
  have hinit : replay s0.events = s0.sh.bal := by
    unfold construct at h0; split at h0
    · cases h0
    · injection h0 with h0; subst h0; rfl
  suffices ∀ s, replay s.events = s.sh.bal → replay (run c s ops).events = (run c s ops).sh.bal from
    this _ hinit
  induction ops with
  | nil => intro s hs; exact hs
  | cons x xs ih =>
    intro s hs
    simp only [run, List.foldl_cons]
    apply ih
    unfold step
    cases hx : apply c s x.1 x.2 with
    | error e => exact hs
    | ok r => obtain ⟨s', ret⟩ := r; exact apply_replay x.1 x.2 hs hx

/-! ## non-vacuity (tests, labelled as such): a concrete history on an offset-0 vault with a
donation in between — the classic inflation attack — meets every hypothesis above -/

def demoOps : List (List Nat × Op) :=
  [([], .asset (.mint 0 2000000000000000007)), ([], .asset (.mint 1 1000000000000000001)),
   ([0], .deposit true 1 0 0 0),
   ([0], .asset (.transfer 0 4 1000000000000000000)),             -- donation
   ([1], .deposit true 1000000000000000001 1 1 1),                 -- victim gets floor(..) = 1 share
   ([0], .share (.approve 0 2 1 500)),
   ([2], .redeem 1 3 0 2),                                         -- operator 2 ≠ owner 0
   ([1], .withdraw 666666666666666668 1 1 1),
   ([1], .redeem 1 1 1 1)]                                          -- fails: nothing left

def demoStart : State :=
  { sh := OZ.Fungible.init 100, ast := OZ.Fungible.init 100, vault := 4, offset := 0, events := [] }

example : construct 4 0 100 = .ok demoStart := rfl

example :
    totalAssets (run ⟨1, 1000⟩ demoStart demoOps) = 666666666666666667 ∧
    totalShares (run ⟨1, 1000⟩ demoStart demoOps) = 0 ∧
    (run ⟨1, 1000⟩ demoStart demoOps).ast.bal 3 = 666666666666666667 ∧
    (run ⟨1, 1000⟩ demoStart demoOps).ast.bal 1 = 666666666666666668 ∧
    OZ.Fungible.allowance (run ⟨1, 1000⟩ demoStart demoOps).sh 0 2 = 0 := by decide

example : ∀ x ∈ demoOps, (4 : Nat) ∉ x.1 ∧ ∀ a ∈ x.2.addrs, a ∈ [0, 1, 2, 3, 4] := by decide

/-- the demo history satisfies the hypotheses of the history theorems, so their conclusions
hold for it: the final state is well formed and the rate did not fall -/
example : WF [0, 1, 2, 3, 4] (run ⟨1, 1000⟩ demoStart demoOps) ∧
    RateLe demoStart (run ⟨1, 1000⟩ demoStart demoOps) := by
  have h := rate_monotone_run (U := [0, 1, 2, 3, 4]) (by decide) ⟨1, 1000⟩ demoOps
    (construct_wf (U := [0, 1, 2, 3, 4]) (by decide) (rfl : construct 4 0 100 = .ok demoStart))
    (by decide)
  exact ⟨h.1, h.2.1⟩

/-- the rate strictly rose over the demo history (rounding and the donation stay in the vault) -/
example : (totalAssets demoStart + 1) * (totalShares (run ⟨1, 1000⟩ demoStart demoOps) + 1) <
    (totalAssets (run ⟨1, 1000⟩ demoStart demoOps) + 1) * (totalShares demoStart + 1) := by decide


def phantomState : State :=
  { sh := { OZ.Fungible.init 100 with supply := 100000000000000000003 },
    ast := { OZ.Fungible.init 100 with bal := fun a => if a = 4 then 10000000000000000000006 else 0 },
    vault := 4, offset := 10, events := [] }

/-- phantom overflow: `(10^30+7) · (S + 10^10)` leaves i128, the quotient fits and is exact;
a quotient that does not fit is an error -/
example :
    previewDeposit phantomState 1000000000000000000000000000007 = .ok 10000000001000000000293000000 ∧
    previewWithdraw phantomState 1000000000000000000000000000007 = .ok 10000000001000000000293000001 ∧
    previewMint phantomState 10000000000000000000000000000000000000 = .error .fixedPoint := by decide

/-! ## 9. allowances are spent exactly (as the `allowance` getter reads them, expiry included) -/

/-- **exits**: after a successful `withdraw` / `redeem` by an operator who is not the owner,
`allowance(owner, operator)` on the share token reads exactly the burned shares less; every
other share allowance — and, when the operator IS the owner, every share allowance — and
every asset allowance reads exactly what it read before -/
theorem exit_allowance_exact {c : Cfg} {s s' : State} {auth : List Nat} {x ret : Int} {r ow o : Nat} :
    (withdraw c s auth x r ow o = .ok (s', ret) →
      (o ≠ ow → OZ.Fungible.allowance s'.sh ow o = OZ.Fungible.allowance s.sh ow o - ret) ∧
      (∀ p q, ¬ (p = ow ∧ q = o ∧ o ≠ ow) → OZ.Fungible.allowance s'.sh p q = OZ.Fungible.allowance s.sh p q) ∧
      (∀ p q, OZ.Fungible.allowance s'.ast p q = OZ.Fungible.allowance s.ast p q)) ∧
    (redeem c s auth x r ow o = .ok (s', ret) →
      (o ≠ ow → OZ.Fungible.allowance s'.sh ow o = OZ.Fungible.allowance s.sh ow o - x) ∧
      (∀ p q, ¬ (p = ow ∧ q = o ∧ o ≠ ow) → OZ.Fungible.allowance s'.sh p q = OZ.Fungible.allowance s.sh p q) ∧
      (∀ p q, OZ.Fungible.allowance s'.ast p q = OZ.Fungible.allowance s.ast p q)) := by
  constructor
  · intro h
    obtain ⟨_, -, h⟩ := bind_eq_ok h
    obtain ⟨m, -, h⟩ := bind_eq_ok h
    obtain ⟨_, -, h⟩ := bind_eq_ok h
    obtain ⟨v', -, h⟩ := bind_eq_ok h
    obtain ⟨s1, h4, h5⟩ := bind_eq_ok h
    injection h5 with h5; injection h5 with h5 h6; subst h5; subst h6
    obtain ⟨a1, a2, a3, -⟩ := withdrawInternal_allowances h4
    exact ⟨a1, a2, a3⟩
  · intro h
    obtain ⟨_, -, h⟩ := bind_eq_ok h
    obtain ⟨_, -, h⟩ := bind_eq_ok h
    obtain ⟨a', -, h⟩ := bind_eq_ok h
    obtain ⟨s1, h4, h5⟩ := bind_eq_ok h
    injection h5 with h5; injection h5 with h5 h6; subst h5; subst h6
    obtain ⟨a1, a2, a3, -⟩ := withdrawInternal_allowances h4
    exact ⟨a1, a2, a3⟩

/-- **entries**: after a successful `deposit` / `mint` by an operator who is not the payer the
ASSET allowance `payer → operator` (the one `transfer_from` consumes) reads exactly the
transferred assets less; every other asset allowance and every share allowance is unchanged -/
theorem entry_allowance_exact {c : Cfg} {s s' : State} {auth : List Nat} {sub : Bool} {x ret : Int}
    {r f o : Nat} :
    (deposit c s auth sub x r f o = .ok (s', ret) →
      (o ≠ f → OZ.Fungible.allowance s'.ast f o = OZ.Fungible.allowance s.ast f o - x) ∧
      (∀ p q, ¬ (p = f ∧ q = o ∧ o ≠ f) → OZ.Fungible.allowance s'.ast p q = OZ.Fungible.allowance s.ast p q) ∧
      (∀ p q, OZ.Fungible.allowance s'.sh p q = OZ.Fungible.allowance s.sh p q)) ∧
    (mint c s auth sub x r f o = .ok (s', ret) →
      (o ≠ f → OZ.Fungible.allowance s'.ast f o = OZ.Fungible.allowance s.ast f o - ret) ∧
      (∀ p q, ¬ (p = f ∧ q = o ∧ o ≠ f) → OZ.Fungible.allowance s'.ast p q = OZ.Fungible.allowance s.ast p q) ∧
      (∀ p q, OZ.Fungible.allowance s'.sh p q = OZ.Fungible.allowance s.sh p q)) := by
  constructor
  · intro h
    obtain ⟨_, -, h⟩ := bind_eq_ok h
    obtain ⟨_, -, h⟩ := bind_eq_ok h
    obtain ⟨v', -, h⟩ := bind_eq_ok h
    obtain ⟨s1, h4, h5⟩ := bind_eq_ok h
    injection h5 with h5; injection h5 with h5 h6; subst h5; subst h6
    obtain ⟨a1, a2, a3⟩ := depositInternal_allowances h4
    exact ⟨a1, a2, a3⟩
  · intro h
    obtain ⟨_, -, h⟩ := bind_eq_ok h
    obtain ⟨_, -, h⟩ := bind_eq_ok h
    obtain ⟨a', -, h⟩ := bind_eq_ok h
    obtain ⟨s1, h4, h5⟩ := bind_eq_ok h
    injection h5 with h5; injection h5 with h5 h6; subst h5; subst h6
    obtain ⟨a1, a2, a3⟩ := depositInternal_allowances h4
    exact ⟨a1, a2, a3⟩

/-! ## 10. the operations fail only when they must

`CanSpend c t owner spender amt` (Lemmas) is `spend_allowance`'s exact success condition:
`0 ≤ amt ≤ allowance` and, for `amt > 0`, the stored `live_until_ledger` passes
`set_allowance`'s bound `≤ now + max_entry_ttl − 1`. `CanPull` is `deposit_internal`'s asset
leg: `0 ≤ assets ≤ balance(payer)`, and either the payer is the operator and authorized the
nested `transfer`, or the operator authorized the nested `transfer_from` and `CanSpend` on
the asset token. No storage, TTL or overflow failure exists beyond the listed conditions:
under the C01 invariant the unchecked additions cannot overflow, and the vault never lacks
the assets for an exit within `max_withdraw` / `max_redeem`. -/

/-- **deposit succeeds iff** the operator authorized it, `assets ≤ max_deposit`, the
conversion does not fail (`convert_to_shares_exact` says exactly when), the assets can be
pulled, and the share supply stays within i128 -/
theorem deposit_succeeds_iff {U : List Nat} (hn : U.Nodup) {c : Cfg} {s : State} (hw : WF U s)
    (auth : List Nat) (sub : Bool) (a : Int) (r f o : Nat) :
    (∃ s' v, deposit c s auth sub a r f o = .ok (s', v)) ↔
      o ∈ auth ∧ a ≤ I128_MAX ∧ ∃ v, previewDeposit s a = .ok v ∧
        CanPull c s (tokenAuth s auth sub) f o a ∧ s.sh.supply + v ≤ I128_MAX := by
  obtain ⟨hA, hS, hV, -⟩ := wf_pos hw
  constructor
  · rintro ⟨s', v, h⟩
    obtain ⟨h1, h2, h3, -, -⟩ := deposit_ok h
    obtain ⟨_, -, h⟩ := bind_eq_ok h
    obtain ⟨_, -, h⟩ := bind_eq_ok h
    obtain ⟨v', h3', h⟩ := bind_eq_ok h
    obtain ⟨s1, h4, h5⟩ := bind_eq_ok h
    injection h5 with h5; injection h5 with h5 h6; subst h6
    obtain ⟨k1, -, k3⟩ := (depositInternal_succeeds_iff hn hw _ r f o a v').1 ⟨s1, h4⟩
    exact ⟨h1, h2, v', h3, k1, k3⟩
  · rintro ⟨h1, h2, v, h3, k1, k3⟩
    have hain : OZ.MulDiv.in128 a := by
      have := k1.1
      unfold OZ.MulDiv.in128 OZ.MulDiv.I128_MIN OZ.MulDiv.I128_MAX; unfold I128_MAX at h2; omega
    obtain ⟨-, e, -⟩ := convertToShares_ok hain hw.off hA h3
    have hv0 : 0 ≤ v := by
      rw [e]; exact exactQ_nonneg .floor a _ _ k1.1 (by omega) (by omega) (by decide)
    obtain ⟨s1, hs1⟩ := (depositInternal_succeeds_iff hn hw (tokenAuth s auth sub) r f o a v).2 ⟨k1, hv0, k3⟩
    unfold deposit requireAuth
    rw [(guard_ok_iff _ _).2 h1, ok_bind, (guard_ok_iff _ _).2 (show a ≤ maxDeposit from h2), ok_bind,
      h3, ok_bind, hs1]
    exact ⟨_, _, rfl⟩

/-- **mint succeeds iff** the operator authorized it, `shares ≤ max_mint`, the conversion does
not fail, the previewed assets can be pulled, and the share supply stays within i128 -/
theorem mint_succeeds_iff {U : List Nat} (hn : U.Nodup) {c : Cfg} {s : State} (hw : WF U s)
    (auth : List Nat) (sub : Bool) (x : Int) (r f o : Nat) :
    (∃ s' a, mint c s auth sub x r f o = .ok (s', a)) ↔
      o ∈ auth ∧ x ≤ I128_MAX ∧ ∃ a, previewMint s x = .ok a ∧
        CanPull c s (tokenAuth s auth sub) f o a ∧ s.sh.supply + x ≤ I128_MAX := by
  constructor
  · rintro ⟨s', a, h⟩
    obtain ⟨h1, h2, h3, -, -⟩ := mint_ok h
    obtain ⟨_, -, h⟩ := bind_eq_ok h
    obtain ⟨_, -, h⟩ := bind_eq_ok h
    obtain ⟨a', h3', h⟩ := bind_eq_ok h
    obtain ⟨s1, h4, h5⟩ := bind_eq_ok h
    injection h5 with h5; injection h5 with h5 h6; subst h6
    obtain ⟨k1, -, k3⟩ := (depositInternal_succeeds_iff hn hw _ r f o a' x).1 ⟨s1, h4⟩
    exact ⟨h1, h2, a', h3, k1, k3⟩
  · rintro ⟨h1, h2, a, h3, k1, k3⟩
    have hx0 : 0 ≤ x := by
      unfold previewMint convertToAssets at h3
      by_contra hneg
      rw [if_pos (by omega)] at h3; cases h3
    obtain ⟨s1, hs1⟩ := (depositInternal_succeeds_iff hn hw (tokenAuth s auth sub) r f o a x).2 ⟨k1, hx0, k3⟩
    unfold mint requireAuth
    rw [(guard_ok_iff _ _).2 h1, ok_bind, (guard_ok_iff _ _).2 (show x ≤ maxMint from h2), ok_bind,
      h3, ok_bind, hs1]
    exact ⟨_, _, rfl⟩

/-- **withdraw succeeds iff** the operator authorized it, `max_withdraw(owner)` can be
computed and covers `assets`, the conversion does not fail, and — only when the operator is
not the owner — the share allowance can be spent. It never fails for lack of the owner's
shares or of the vault's assets. -/
theorem withdraw_succeeds_iff {U : List Nat} (hn : U.Nodup) {c : Cfg} {s : State} (hw : WF U s)
    (auth : List Nat) (a : Int) (r ow o : Nat) :
    (∃ s' v, withdraw c s auth a r ow o = .ok (s', v)) ↔
      o ∈ auth ∧ ∃ m, maxWithdraw s ow = .ok m ∧ a ≤ m ∧ ∃ v, previewWithdraw s a = .ok v ∧
        (o ≠ ow → CanSpend c s.sh ow o v) := by
  constructor
  · rintro ⟨s', v, h⟩
    obtain ⟨h1, ⟨m, hm, hle⟩, h3, -, -⟩ := withdraw_ok h
    obtain ⟨_, -, h⟩ := bind_eq_ok h
    obtain ⟨m', -, h⟩ := bind_eq_ok h
    obtain ⟨_, -, h⟩ := bind_eq_ok h
    obtain ⟨v', h3', h⟩ := bind_eq_ok h
    obtain ⟨s1, h4, h5⟩ := bind_eq_ok h
    injection h5 with h5; injection h5 with h5 h6; subst h6
    obtain ⟨k1, -⟩ := (withdrawInternal_succeeds_iff hn hw r ow o a v').1 ⟨s1, h4⟩
    exact ⟨h1, m, hm, hle, v', h3, k1⟩
  · rintro ⟨h1, m, hm, hle, v, h3, k1⟩
    obtain ⟨f1, f2, f3, f4⟩ := withdraw_feasible hn hw hm hle h3
    obtain ⟨s1, hs1⟩ := (withdrawInternal_succeeds_iff hn hw r ow o a v).2 ⟨k1, f3, f1, f4, f2⟩
    unfold withdraw requireAuth
    rw [(guard_ok_iff _ _).2 h1, ok_bind, hm, ok_bind, (guard_ok_iff _ _).2 hle, ok_bind, h3, ok_bind, hs1]
    exact ⟨_, _, rfl⟩

/-- **redeem succeeds iff** the operator authorized it, `shares ≤ max_redeem(owner)` (the
owner's balance), the conversion does not fail, and — only when the operator is not the
owner — the share allowance can be spent -/
theorem redeem_succeeds_iff {U : List Nat} (hn : U.Nodup) {c : Cfg} {s : State} (hw : WF U s)
    (auth : List Nat) (x : Int) (r ow o : Nat) :
    (∃ s' a, redeem c s auth x r ow o = .ok (s', a)) ↔
      o ∈ auth ∧ x ≤ s.sh.bal ow ∧ ∃ a, previewRedeem s x = .ok a ∧
        (o ≠ ow → CanSpend c s.sh ow o x) := by
  constructor
  · rintro ⟨s', a, h⟩
    obtain ⟨h1, h2, h3, -, -⟩ := redeem_ok h
    obtain ⟨_, -, h⟩ := bind_eq_ok h
    obtain ⟨_, -, h⟩ := bind_eq_ok h
    obtain ⟨a', h3', h⟩ := bind_eq_ok h
    obtain ⟨s1, h4, h5⟩ := bind_eq_ok h
    injection h5 with h5; injection h5 with h5 h6; subst h6
    obtain ⟨k1, -⟩ := (withdrawInternal_succeeds_iff hn hw r ow o a' x).1 ⟨s1, h4⟩
    exact ⟨h1, h2, a', h3, k1⟩
  · rintro ⟨h1, h2, a, h3, k1⟩
    obtain ⟨f1, f2, f3⟩ := redeem_feasible hn hw h2 h3
    obtain ⟨s1, hs1⟩ := (withdrawInternal_succeeds_iff hn hw r ow o a x).2 ⟨k1, f3, h2, f2, f1⟩
    unfold redeem requireAuth
    rw [(guard_ok_iff _ _).2 h1, ok_bind, (guard_ok_iff _ _).2 (show x ≤ maxRedeem s ow from h2), ok_bind,
      h3, ok_bind, hs1]
    exact ⟨_, _, rfl⟩

/-! ## 11. every holder's claim only grows through other people's operations -/

/-- **per-user solvency over histories**: over any history in which `u`'s share balance does
not end lower than it started, what `u` could redeem, `⌊bal_u·(A+1)/(S+V)⌋`, does not end
lower either (corollary of `rate_monotone_run`) -/
theorem claim_monotone_run {U : List Nat} (hn : U.Nodup) (c : Cfg) (ops : List (List Nat × Op))
    {s : State} (hw : WF U s)
    (hadm : ∀ x ∈ ops, s.vault ∉ x.1 ∧ ∀ a ∈ x.2.addrs, a ∈ U) (u : Nat)
    (hb : s.sh.bal u ≤ (run c s ops).sh.bal u) :
    OZ.MulDiv.exactQ .floor (s.sh.bal u) (totalAssets s + 1) (totalShares s + 10 ^ s.offset) ≤
    OZ.MulDiv.exactQ .floor ((run c s ops).sh.bal u) (totalAssets (run c s ops) + 1)
      (totalShares (run c s ops) + 10 ^ (run c s ops).offset) := by
  obtain ⟨w, r, -, -⟩ := rate_monotone_run hn c ops hw hadm
  obtain ⟨a1, t1, v1, -⟩ := wf_pos hw
  obtain ⟨a2, t2, v2, -⟩ := wf_pos w
  exact floor_claim_mono _ _ _ _ _ _ (hw.sh.nonneg u) hb (by omega) (by omega) (by omega) r

/-- a user who signs nothing and has approved nobody on the share token keeps (at least) his
shares through any history, and still has approved nobody -/
theorem passive_user_keeps_shares (c : Cfg) (ops : List (List Nat × Op)) {s : State} (u : Nat)
    (hu : ∀ x ∈ ops, u ∉ x.1) (hnone : ∀ sp, s.sh.allow u sp = none) :
    s.sh.bal u ≤ (run c s ops).sh.bal u ∧ ∀ sp, (run c s ops).sh.allow u sp = none := by
  induction ops generalizing s with
  | nil => exact ⟨Int.le_refl _, hnone⟩
  | cons x xs ih =>
    have hstep : s.sh.bal u ≤ (step c s x).sh.bal u ∧ ∀ sp, (step c s x).sh.allow u sp = none := by
      unfold step
      cases hx : apply c s x.1 x.2 with
      | error e => exact ⟨Int.le_refl _, hnone⟩
      | ok rr => obtain ⟨s', ret⟩ := rr; exact apply_passive x.1 x.2 u (hu x List.mem_cons_self) hnone hx
    obtain ⟨i1, i2⟩ := ih (s := step c s x) (fun y hy => hu y (List.mem_cons_of_mem _ hy)) hstep.2
    simp only [run, List.foldl_cons] at *
    exact ⟨Int.le_trans hstep.1 i1, i2⟩

/-- **through other users' operations a holder's redeemable assets never decrease**: for a
user who signs nothing and has approved nobody, over every history -/
theorem passive_claim_never_decreases {U : List Nat} (hn : U.Nodup) (c : Cfg)
    (ops : List (List Nat × Op)) {s : State} (hw : WF U s)
    (hadm : ∀ x ∈ ops, s.vault ∉ x.1 ∧ ∀ a ∈ x.2.addrs, a ∈ U) (u : Nat)
    (hu : ∀ x ∈ ops, u ∉ x.1) (hnone : ∀ sp, s.sh.allow u sp = none) :
    OZ.MulDiv.exactQ .floor (s.sh.bal u) (totalAssets s + 1) (totalShares s + 10 ^ s.offset) ≤
    OZ.MulDiv.exactQ .floor ((run c s ops).sh.bal u) (totalAssets (run c s ops) + 1)
      (totalShares (run c s ops) + 10 ^ (run c s ops).offset) :=
  claim_monotone_run hn c ops hw hadm u (passive_user_keeps_shares c ops u hu hnone).1

/-! ### non-vacuity (tests): the state of the demo history after the approval `0 → 2` of one
share: operator 2 redeems owner 0's share (allowance 1 → 0), operator 1 cannot; the passive
victim 1's claim rises from 666666666666666667 to 666666666666666668 -/

def demoMid : State := run ⟨1, 1000⟩ demoStart (demoOps.take 6)

example : OZ.Fungible.allowance demoMid.sh 0 2 = 1 ∧ demoMid.sh.bal 0 = 1 ∧ demoMid.sh.bal 1 = 1 := by
  decide

example :
    okAnd (redeem ⟨1, 1000⟩ demoMid [2] 1 3 0 2) (fun s' a =>
      decide (OZ.Fungible.allowance s'.sh 0 2 = 0 ∧ a = 666666666666666667 ∧
        OZ.MulDiv.exactQ .floor (s'.sh.bal 1) (totalAssets s' + 1) (totalShares s' + 1) =
          666666666666666668)) = true ∧
    OZ.MulDiv.exactQ .floor (demoMid.sh.bal 1) (totalAssets demoMid + 1) (totalShares demoMid + 1) =
      666666666666666667 := by decide

/-- the same call by operator 1, who holds no allowance from owner 0, a redeem of more than
the balance, and a call the operator did not sign are rejected for exactly the reasons the
iff theorems name -/
example :
    errIs (redeem ⟨1, 1000⟩ demoMid [1] 1 3 0 1) (.share .insufficientAllowance) = true ∧
    errIs (redeem ⟨1, 1000⟩ demoMid [0] 2 3 0 0) .exceededMaxRedeem = true ∧
    errIs (redeem ⟨1, 1000⟩ demoMid [1] 1 3 0 0) .auth = true := by decide

example : CanSpend ⟨1, 1000⟩ demoMid.sh 0 2 1 ∧ ¬ CanSpend ⟨1, 1000⟩ demoMid.sh 0 1 1 := by
  unfold CanSpend; decide

end OZ.Vault
