import OZ.Lemmas.RegBinderMon
/-
C20 (c) — soundness of the `binder` MONITOR that decides the property on implementation traces.

`./check C20` reports a concrete violation in a `binder` sequence exactly when
`OZ.RegBinder.Mon.checkCore` (the sub-driver's monitor on parsed values, OZ/Model/RegBinderMon.lean)
returns a message on the implementation's observations. Here it is proved that on the observations
of the MODEL the monitor never returns a message, for every label parameter `u` and every finite
history of `bind_token` / `bind_tokens` / `unbind_token` with arbitrary arguments and of state
injections `preload n` (`n ≤ 10 000`: the state `bind_tokens` leaves after binding tokens 0..n-1 to
an empty binder exists only up to the capacity) — `monitor_accepts_every_model_trace`.
Consequences: a monitor failure is never a false alarm of the monitor itself, and every conclusion
it evaluates (duplicates, repeated batch entries, absent tokens refused; the 10 000th token accepted
and the next refused, alone and in batches; batches of 200 accepted and of 201 refused; the count,
`TotalCount`, the order-independent sums, the printed list, `is_token_bound`, `get_token_index`,
`get_token_by_index` over the probes answer as the plain set; index access round trip) is a THEOREM
about the model, in the monitor's own executable wording.

`modelObs s u c ok` is the data the model driver prints for state `s` after command `c`
(`stepLine` / `showState` of OZ/Drv/C20Binder.lean): the tag, `n=` the length of `linkedTokens`,
`cnt=` `linkedTokenCount`, `sum=` / `sq=` the two sums of `linkedTokens`, `list=` `linkedTokens` in
full when it has at most 16 entries (a digest otherwise, which the monitor does not read), and
`b=` / `ix=` / `at=` the graphs of `isTokenBound` (as 1 / 0), `getTokenIndex`, `getTokenByIndex` over
the probe tokens / indices `probes u c n`.

Property theorems only; helper facts come from OZ/Lemmas/RegBinderMon.lean.
-/
namespace OZ.RegBinder.Mon
open OZ.Reg OZ.RegMon OZ.RegBinder

/-- the observation the harness / the model driver print for a state -/
def modelObs (s : State) (u : Nat) (c : Cmd) (ok : Bool) : Obs :=
  { ok := ok,
    n := (linkedTokens s).length,
    cnt := linkedTokenCount s,
    sum := sum1 (linkedTokens s),
    sq := sumSq (linkedTokens s),
    full := if (linkedTokens s).length ≤ 16 then some (linkedTokens s) else none,
    b := (probes u c (linkedTokens s).length).1.map (fun t => (t, some (if isTokenBound s t then 1 else 0))),
    ix := (probes u c (linkedTokens s).length).1.map (fun t => (t, getTokenIndex s t)),
    atL := (probes u c (linkedTokens s).length).2.map (fun i => (i, getTokenByIndex s i)) }

/-- the model's transition for a command (a preload injects the state after binding 0..n-1) -/
def stepC (s : State) : Cmd → Except RErr State
  | .op o => step s o
  | .preload n => .ok ((List.range n).foldl push init)

def nextC (s : State) (c : Cmd) : State :=
  match stepC s c with
  | .ok s' => s'
  | .error _ => s

/-- whether the model accepts the command -/
def accepted (s : State) (c : Cmd) : Bool :=
  match stepC s c with
  | .ok _ => true
  | .error _ => false

/-- a command the harness can issue: a preload stays within the capacity -/
def CmdOk : Cmd → Prop
  | .op _ => True
  | .preload n => n ≤ MAX_TOKENS

/-- the getter part of the monitor never fires on the observation of a state the plain set
describes -/
theorem getters_quiet {g : Mon} {s : State} {u : Nat} (ha : Agree g s u) (c : Cmd) (ok : Bool) :
    firstFail (getters g (modelObs s u c ok)) = none := by
  obtain ⟨l, hl⟩ := ha.list
  have hlt : linkedTokens s = l := rep_linkedTokens hl.rep
  have hlen : l.length = g.set.length := hl.len.symm
  apply firstFail_all_none
  intro x hx
  simp only [getters, List.mem_cons, List.not_mem_nil, or_false] at hx
  rcases hx with rfl | rfl | rfl | rfl | rfl | rfl | rfl | rfl
  · exact chk_decide (by show (linkedTokens s).length = _; rw [hlt, hlen]) _
  · exact chk_decide (by show linkedTokenCount s = _; unfold linkedTokenCount; rw [hl.rep.count, hlen]) _
  · refine chk_decide ?_ _
    show sum1 (linkedTokens s) = _ ∧ sumSq (linkedTokens s) = _
    rw [hlt]
    exact ⟨(sum1_perm hl.perm).symm, (sumSq_perm hl.perm).symm⟩
  · show (match (if (linkedTokens s).length ≤ 16 then some (linkedTokens s) else none) with
      | some l => chk (fullOk g l) _
      | none => none) = none
    split
    · rename_i l' hl'
      split at hl'
      · injection hl' with hl'; subst hl'
        refine chk_of ?_ _
        unfold fullOk
        rw [hlt]
        simp only [decide_eq_true_eq]
        exact ⟨(nodupB_iff _).2 hl.rep.nodup, (sameSet_iff _ _).2 (fun x => (hl.mem x).symm)⟩
      · cases hl'
    · rfl
  · exact chk_of (all_graph _ _ _ (fun t _ => bOk_model hl t)) _
  · refine chk_of ?_ _
    show ((probes u c (linkedTokens s).length).1.map (fun t => (t, getTokenIndex s t))).all (ixOk g (linkedTokens s).length) = true
    rw [hlt]
    exact all_graph _ _ _ (fun t _ => ixOk_model hl t)
  · refine chk_of ?_ _
    show ((probes u c (linkedTokens s).length).2.map (fun i => (i, getTokenByIndex s i))).all (atOk g (linkedTokens s).length) = true
    rw [hlt]
    exact all_graph _ _ _ (fun i _ => atOk_model hl i)
  · refine chk_of ?_ _
    refine all_graph _ _ _ (fun t _ => roundOk_model hl.rep _ _ ?_ t)
    intro l' hl'
    change (if (linkedTokens s).length ≤ 16 then some (linkedTokens s) else none) = some l' at hl'
    split at hl'
    · injection hl' with hl'; rw [← hl', hlt]
    · cases hl'

/-- **one call**: fed with the model's own observation of any command (accepted or refused op, or a
preload), the monitor reports nothing and its plain set keeps describing the model's state -/
theorem monitor_sound_step {g : Mon} {s : State} {u : Nat} (ha : Agree g s u) (c : Cmd) (hc : CmdOk c) :
    (checkCore g c (modelObs (nextC s c) u c (accepted s c))).2 = none ∧
    Agree (checkCore g c (modelObs (nextC s c) u c (accepted s c))).1 (nextC s c) u := by
  cases c with
  | preload n =>
    refine ⟨rfl, ha.u, List.range n, ?_, List.nodup_range, fun x => Iff.rfl⟩
    have hn : n ≤ MAX_TOKENS := hc
    have := rep_foldl_push rep_init (List.range n) List.nodup_range (fun t _ h => by cases h)
      (by simpa using hn)
    show Rep ((List.range n).foldl push init) (List.range n)
    simpa using this
  | op op =>
    obtain ⟨l, hl⟩ := ha.list
    have key : ∃ g', decide2 "binder" g (plain g op) (accepted s (.op op)) (near g op) = (g', none) ∧
        Agree g' (nextC s (.op op)) u := by
      unfold nextC accepted
      show ∃ g', decide2 "binder" g (plain g op) (match step s op with | .ok _ => true | .error _ => false) (near g op) = (g', none) ∧
        Agree g' (match step s op with | .ok s' => s' | .error _ => s) u
      cases hs : step s op with
      | ok s' =>
        obtain ⟨g', l', hp, hu, ha'⟩ := plain_ok hl hs
        exact ⟨g', by rw [hp]; rfl, by rw [← ha.u, ← hu]; exact ⟨rfl, l', ha'⟩⟩
      | error e =>
        obtain ⟨w, hp⟩ := plain_err hl hs
        exact ⟨g, by rw [hp]; rfl, ha⟩
    obtain ⟨g', hd, ha'⟩ := key
    have q := getters_quiet ha' (.op op) (accepted s (.op op))
    simp only [checkCore]
    rw [show (modelObs (nextC s (.op op)) u (.op op) (accepted s (.op op))).ok = accepted s (.op op) from rfl, hd]
    exact ⟨by rw [firstFail_none_cons]; exact q, ha'⟩

/-- the monitor run over a whole history of model observations: first message, if any -/
def monitorRun (u : Nat) : Mon → State → List Cmd → Option String
  | _, _, [] => none
  | g, s, c :: cs =>
    match (checkCore g c (modelObs (nextC s c) u c (accepted s c))).2 with
    | some msg => some msg
    | none => monitorRun u (checkCore g c (modelObs (nextC s c) u c (accepted s c))).1 (nextC s c) cs

/-- the monitor's initial state for a sequence (what `minit` builds from the label) -/
def monInit (u : Nat) : Mon := { set := [], u := u }

/-- **monitor soundness**: for every label parameter `u` and every finite history of
`bind_token` / `bind_tokens` / `unbind_token` — any tokens, any batches, accepted or refused — and
of preloads within the capacity, the monitor that the sub-driver's `minit` builds reports nothing
on the observations of the model that the sub-driver's `initM` builds -/
theorem monitor_accepts_every_model_trace (u : Nat) (cs : List Cmd) (hcs : ∀ c, c ∈ cs → CmdOk c) :
    monitorRun u (monInit u) init cs = none := by
  suffices ∀ g s, Agree g s u → monitorRun u g s cs = none from
    this _ _ ⟨rfl, [], rep_init, List.nodup_nil, fun x => Iff.rfl⟩
  induction cs with
  | nil => intro g s _; rfl
  | cons c cs ih =>
    intro g s ha
    obtain ⟨h1, h2⟩ := monitor_sound_step ha c (hcs c (List.mem_cons_self ..))
    unfold monitorRun
    rw [h1]
    exact ih (fun c' hc' => hcs c' (List.mem_cons_of_mem _ hc')) _ _ h2

/-! ### non-vacuity (tests, labelled as such): the monitor is not trivially silent -/

/-- an accepted duplicate, a refused fresh token, a wrong count, a token listed twice, a membership
bit, an index beyond the count and a broken index round trip are reported -/
example :
    (checkCore { set := [5], u := 1 } (.op (.bind 5)) ⟨true, 1, 1, 6, 36, some [5], [], [], []⟩).2.isSome = true ∧
    (checkCore { set := [5], u := 1 } (.op (.bind 6)) ⟨false, 1, 1, 6, 36, some [5], [], [], []⟩).2.isSome = true ∧
    (checkCore { set := [5], u := 1 } (.op (.bind 6)) ⟨true, 1, 2, 13, 85, some [5, 6], [], [], []⟩).2.isSome = true ∧
    fullOk { set := [5], u := 1 } [5, 5] = false ∧
    bOk { set := [5], u := 1 } (5, some 0) = false ∧
    ixOk { set := [5], u := 1 } 1 (5, some 1) = false ∧
    roundOk [(0, some 7)] none (5, some 0) = false := by
  refine ⟨by decide, by decide, by decide, by decide, by decide, by decide, by decide⟩

end OZ.RegBinder.Mon
