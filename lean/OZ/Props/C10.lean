import OZ.Lemmas.NftEnumerable
import OZ.Lemmas.NftBits
import OZ.Lemmas.NftLayers
import OZ.Lemmas.NftLive
/-
C10 — Every NFT has exactly one owner and the enumerations mirror ownership.

Property theorems only. Models: OZ/Model/Nft.lean (`Base`: owner map + balances + sequential
counter), OZ/Model/NftEnumerable.lean (the two swap-and-pop enumerations as storage maps),
OZ/Model/NftConsecutive.lean (the contract logic once, over an abstract ownership-bit set;
instantiated at the set level and at the bit level = buckets of 100 u32 items, MSB first).

The specification is a PLAIN ownership map `Id → Option Addr` that follows only the accepted
operations: a mint gives the issued id(s) to the recipient, a transfer moves the named id, a
burn removes it; nothing else changes. All statements are for every configuration, every
start ledger, every finite history of operations with arbitrary arguments and authorizing
sets, and every token id (no bound on batch sizes beyond the code's own limit, none on the
number of steps).
-/
namespace OZ.C10
open OZ.Host OZ.Nft

/-! ## base flavour (sequential and explicit ids) -/

/-- the fresh-id hypothesis of the property along a history: whenever a mint is attempted, the
id it would issue (the explicit one, or the counter) has no owner at that moment -/
def FreshRun (cfg : Cfg) : Nft.State → List (List Nat × Op) → Prop
  | _, [] => True
  | s, x :: xs => FreshOp s x.2 ∧ FreshRun cfg (Nft.step cfg s x) xs

/-- the plain ownership map driven by the accepted operations of a history -/
def specRun (cfg : Cfg) : Nft.State → (Nat → Option Nat) → List (List Nat × Op) → (Nat → Option Nat)
  | _, spec, [] => spec
  | s, spec, x :: xs =>
    match Nft.apply cfg s x.1 x.2 with
    | .ok (s', r) => specRun cfg s' (specStep spec x.2 r) xs
    | .error _ => specRun cfg s spec xs

/-- the stored owner map IS the plain map, after every history (no fresh-id hypothesis needed
for this part: an explicit mint over an existing token simply overwrites the entry) -/
theorem base_refines_map (cfg : Cfg) (ops : List (List Nat × Op)) (s : Nft.State) :
    (Nft.run cfg s ops).owner = specRun cfg s s.owner ops := by
  induction ops generalizing s with
  | nil => rfl
  | cons x xs ih =>
    show (Nft.run cfg (Nft.step cfg s x) xs).owner = _
    unfold specRun Nft.step
    cases h : Nft.apply cfg s x.1 x.2 with
    | error e => exact ih s
    | ok p =>
      obtain ⟨s', r⟩ := p
      have := (apply_owner cfg h).1
      simp only
      rw [ih s', this]

/-- an accepted transfer or burn names the token's current owner as `from`, i.e. it moves
exactly the named token out of exactly its owner's hands -/
theorem base_moves_named_token (cfg : Cfg) {s s' : Nft.State} {auth : List Nat} {op : Op} {r : Option Nat}
    (h : Nft.apply cfg s auth op = .ok (s', r)) {f id : Nat} (hm : op.moves = some (f, id)) :
    s.owner id = some f ∧
    s'.owner id = (match op with | .burn _ _ => none | .burnFrom _ _ _ => none
                                 | .transfer _ t _ => some t | .transferFrom _ _ t _ => some t | _ => s.owner id) := by
  obtain ⟨hown, hmv, _⟩ := apply_owner cfg h
  refine ⟨hmv f id hm, ?_⟩
  rw [hown]
  cases op <;> simp only [Op.moves] at hm <;> try cases hm
  all_goals (simp only [specStep]; exact upd_same _ _ _)

/-- the token an operation can touch: the named one, or the id a sequential mint returns -/
def touched (op : Op) (r : Option Nat) : Option Nat :=
  match op with
  | .mintSeq _ => r
  | op => op.token

/-- frame: whatever happens to one token never changes the owner of another -/
theorem base_frame (cfg : Cfg) {s s' : Nft.State} {auth : List Nat} {op : Op} {r : Option Nat}
    (h : Nft.apply cfg s auth op = .ok (s', r)) (t' : Nat) (hne : touched op r ≠ some t') :
    s'.owner t' = s.owner t' := by
  rw [(apply_owner cfg h).1]
  cases op with
  | mintSeq to =>
    cases r with
    | none => rfl
    | some id =>
      have : t' ≠ id := fun e => hne (by rw [e]; rfl)
      exact upd_other _ _ _ _ this
  | mint to id => exact upd_other _ _ _ _ (fun e => hne (by rw [e]; rfl))
  | transfer f t id => exact upd_other _ _ _ _ (fun e => hne (by rw [e]; rfl))
  | transferFrom sp f t id => exact upd_other _ _ _ _ (fun e => hne (by rw [e]; rfl))
  | burn f id => exact upd_other _ _ _ _ (fun e => hne (by rw [e]; rfl))
  | burnFrom sp f id => exact upd_other _ _ _ _ (fun e => hne (by rw [e]; rfl))
  | batchMint to n => rfl
  | approve ap a id lu => rfl
  | approveForAll o p lu => rfl
  | advance n => rfl

theorem run_inv (cfg : Cfg) (ops : List (List Nat × Op)) {L : List Nat} {s : Nft.State}
    (hi : Inv L s) (hf : FreshRun cfg s ops) : ∃ L', Inv L' (Nft.run cfg s ops) := by
  induction ops generalizing L s with
  | nil => exact ⟨L, hi⟩
  | cons x xs ih =>
    obtain ⟨hf1, hf2⟩ := hf
    show ∃ L', Inv L' (Nft.run cfg (Nft.step cfg s x) xs)
    unfold Nft.step at hf2 ⊢
    cases h : Nft.apply cfg s x.1 x.2 with
    | error e => rw [h] at hf2; exact ih hi hf2
    | ok p =>
      obtain ⟨s', r⟩ := p
      rw [h] at hf2
      exact ih (apply_inv cfg hi hf1 h).1 hf2

/-- balance(a) is the number of tokens whose owner is a: after every history that respects the
fresh-id hypothesis there is a duplicate-free list of exactly a's tokens whose length is a's
stored balance; in particular every existing token has exactly one owner -/
theorem base_balance_counts (cfg : Cfg) (now : Nat) (ops : List (List Nat × Op))
    (hf : FreshRun cfg (Nft.init now) ops) (a : Nat) :
    ∃ l : List Nat, l.Nodup ∧ (∀ t, t ∈ l ↔ (Nft.run cfg (Nft.init now) ops).owner t = some a) ∧
      l.length = (Nft.run cfg (Nft.init now) ops).bal a := by
  obtain ⟨L, hi⟩ := run_inv cfg ops (init_inv now) hf
  refine ⟨ownedBy L (Nft.run cfg (Nft.init now) ops).owner a, ownedBy_nodup hi.nodup _ a, ?_, ?_⟩
  · intro t
    rw [mem_ownedBy]
    constructor
    · exact fun h => h.2
    · intro h; exact ⟨(hi.mem t).mpr (by rw [h]; rfl), h⟩
  · rw [ownedBy_length, hi.bal a]

/-- histories without explicit-id mints satisfy the fresh-id hypothesis by themselves: the
sequential counter never points at an owned id -/
theorem sequential_histories_are_fresh (cfg : Cfg) (ops : List (List Nat × Op)) (s : Nft.State)
    (hn : NoneAbove s) (hx : ∀ x ∈ ops, x.2.isExplicitMint = false) : FreshRun cfg s ops := by
  induction ops generalizing s with
  | nil => trivial
  | cons x xs ih =>
    have hx1 := hx x (by simp)
    refine ⟨freshOp_of_noneAbove hn hx1, ?_⟩
    apply ih
    · unfold Nft.step
      cases h : Nft.apply cfg s x.1 x.2 with
      | error e => exact hn
      | ok p => obtain ⟨s', r⟩ := p; exact apply_noneAbove cfg hn hx1 h
    · intro y hy; exact hx y (by simp [hy])

/-- the ids issued by the accepted sequential mints of a history, in order -/
def issued (cfg : Cfg) : Nft.State → List (List Nat × Op) → List Nat
  | _, [] => []
  | s, x :: xs =>
    match Nft.apply cfg s x.1 x.2 with
    | .ok (s', r) => (match x.2, r with | .mintSeq _, some id => [id] | _, _ => []) ++ issued cfg s' xs
    | .error _ => issued cfg s xs

/-- sequential ids are never reused: the issued ids are strictly increasing, each is at least
the counter at the start and below the counter at the end (so also burned ids never come back) -/
theorem sequential_ids_never_reused (cfg : Cfg) (ops : List (List Nat × Op)) (s : Nft.State) :
    (issued cfg s ops).Pairwise (· < ·) ∧
    (∀ id ∈ issued cfg s ops, s.nextId ≤ id ∧ id < (Nft.run cfg s ops).nextId) ∧
    s.nextId ≤ (Nft.run cfg s ops).nextId := by
  induction ops generalizing s with
  | nil =>
    refine ⟨List.Pairwise.nil, ?_, Nat.le_refl _⟩
    intro id h; cases h
  | cons x xs ih =>
    show (issued cfg s (x :: xs)).Pairwise (· < ·) ∧
      (∀ id ∈ issued cfg s (x :: xs), s.nextId ≤ id ∧ id < (Nft.run cfg (Nft.step cfg s x) xs).nextId) ∧
      s.nextId ≤ (Nft.run cfg (Nft.step cfg s x) xs).nextId
    unfold issued Nft.step
    cases h : Nft.apply cfg s x.1 x.2 with
    | error e => exact ih s
    | ok p =>
      obtain ⟨s', r⟩ := p
      obtain ⟨_, _, hseq, hother⟩ := apply_owner cfg h
      obtain ⟨ih1, ih2, ih3⟩ := ih s'
      simp only
      cases hop : x.2 with
      | mintSeq to =>
        obtain ⟨hr, hnx⟩ := hseq to hop
        subst hr
        simp only [List.singleton_append]
        refine ⟨List.pairwise_cons.mpr ⟨?_, ih1⟩, ?_, by omega⟩
        · intro id hid; have := (ih2 id hid).1; omega
        · intro id hid
          rcases List.mem_cons.mp hid with e | hid
          · subst e; exact ⟨Nat.le_refl _, by omega⟩
          · have := ih2 id hid; omega
      | _ =>
        have hnx := hother (fun to e => by rw [hop] at e; cases e)
        simp only [List.nil_append]
        refine ⟨ih1, ?_, by omega⟩
        intro id hid; have := ih2 id hid; omega

/-! ## enumerable flavour -/

open OZ.NftEnum in
def FreshRunE (cfg : Cfg) : NftEnum.State → List (List Nat × Op) → Prop
  | _, [] => True
  | s, x :: xs => FreshOp s.toState x.2 ∧ FreshRunE cfg (NftEnum.step cfg s x) xs

open OZ.NftEnum in
theorem run_einv (cfg : Cfg) (ops : List (List Nat × Op)) {L : List Nat} {s : NftEnum.State}
    (hi : EInv s) (hb : Inv L s.toState) (hf : FreshRunE cfg s ops) :
    EInv (NftEnum.run cfg s ops) ∧ ∃ L', Inv L' (NftEnum.run cfg s ops).toState := by
  induction ops generalizing L s with
  | nil => exact ⟨hi, L, hb⟩
  | cons x xs ih =>
    obtain ⟨hf1, hf2⟩ := hf
    show EInv (NftEnum.run cfg (NftEnum.step cfg s x) xs) ∧
      ∃ L', Inv L' (NftEnum.run cfg (NftEnum.step cfg s x) xs).toState
    unfold NftEnum.step at hf2 ⊢
    cases h : NftEnum.apply cfg s x.1 x.2 with
    | error e => rw [h] at hf2; exact ih hi hb hf2
    | ok p =>
      obtain ⟨s', r⟩ := p
      rw [h] at hf2
      obtain ⟨hi', hbase⟩ := apply_step cfg hi hf1 h
      exact ih hi' (apply_inv cfg hb hf1 hbase).1 hf2

open OZ.NftEnum in
/-- after every history: `total_supply` is the length of the global list, the global list has no
duplicates and contains exactly the existing tokens; each owner's list has length balance(owner),
no duplicates and contains exactly that owner's tokens -/
theorem enumerable_refines (cfg : Cfg) (now : Nat) (ops : List (List Nat × Op))
    (hf : FreshRunE cfg (NftEnum.init now) ops) (s : NftEnum.State)
    (hs : s = NftEnum.run cfg (NftEnum.init now) ops) :
    ((listOf s.gTok s.total).length = s.total ∧ (listOf s.gTok s.total).Nodup ∧
      ∀ t, t ∈ listOf s.gTok s.total ↔ (s.owner t).isSome = true) ∧
    (∀ a, (listOf (s.oTok a) (s.bal a)).length = s.bal a ∧ (listOf (s.oTok a) (s.bal a)).Nodup ∧
      ∀ t, t ∈ listOf (s.oTok a) (s.bal a) ↔ s.owner t = some a) := by
  subst hs
  obtain ⟨hi, _⟩ := run_einv cfg ops (init_einv now) (init_inv now) hf
  exact ⟨LOK_list hi.glob, fun a => LOK_list (hi.own a)⟩

open OZ.NftEnum in
/-- both index maps are the inverse functions of their lists: slot `i < total_supply` holds a token
whose global index is `i` and every existing token sits at its global index; likewise per owner -/
theorem enumerable_index_maps_inverse (cfg : Cfg) (now : Nat) (ops : List (List Nat × Op))
    (hf : FreshRunE cfg (NftEnum.init now) ops) (s : NftEnum.State)
    (hs : s = NftEnum.run cfg (NftEnum.init now) ops) :
    (∀ i, i < s.total → ∃ t, s.gTok i = some t ∧ s.gIdx t = some i ∧ (s.owner t).isSome = true) ∧
    (∀ t, (s.owner t).isSome = true → ∃ i, i < s.total ∧ s.gIdx t = some i ∧ s.gTok i = some t) ∧
    (∀ i, s.total ≤ i → s.gTok i = none) ∧
    (∀ a i, i < s.bal a → ∃ t, s.oTok a i = some t ∧ s.oIdx t = some i ∧ s.owner t = some a) ∧
    (∀ a t, s.owner t = some a → ∃ i, i < s.bal a ∧ s.oIdx t = some i ∧ s.oTok a i = some t) ∧
    (∀ a i, s.bal a ≤ i → s.oTok a i = none) := by
  subst hs
  obtain ⟨hi, _⟩ := run_einv cfg ops (init_einv now) (init_inv now) hf
  exact ⟨hi.glob.1, hi.glob.2.1, hi.glob.2.2, fun a => (hi.own a).1, fun a => (hi.own a).2.1,
    fun a => (hi.own a).2.2⟩

open OZ.NftEnum in
/-- the base facts carry over: balances count owned tokens in the enumerable flavour too -/
theorem enumerable_balance_counts (cfg : Cfg) (now : Nat) (ops : List (List Nat × Op))
    (hf : FreshRunE cfg (NftEnum.init now) ops) (a : Nat) :
    ∃ l : List Nat, l.Nodup ∧ (∀ t, t ∈ l ↔ (NftEnum.run cfg (NftEnum.init now) ops).owner t = some a) ∧
      l.length = (NftEnum.run cfg (NftEnum.init now) ops).bal a := by
  obtain ⟨_, L, hi⟩ := run_einv cfg ops (init_einv now) (init_inv now) hf
  refine ⟨ownedBy L (NftEnum.run cfg (NftEnum.init now) ops).owner a, ownedBy_nodup hi.nodup _ a, ?_, ?_⟩
  · intro t
    rw [mem_ownedBy]
    constructor
    · exact fun h => h.2
    · intro h; exact ⟨(hi.mem t).mpr (by rw [h]; rfl), h⟩
  · rw [ownedBy_length]; exact (hi.bal a).symm

open OZ.NftEnum in
/-- the enumerable flavour moves ownership exactly like the base flavour: every accepted call
acts on the base state as the same call on `Base` (so `base_moves_named_token`, `base_frame`
and `sequential_ids_never_reused` apply to it verbatim) -/
theorem enumerable_acts_as_base (cfg : Cfg) {s s' : NftEnum.State} {auth : List Nat} {op : Op} {r : Option Nat}
    (hi : EInv s) (hf : FreshOp s.toState op) (h : NftEnum.apply cfg s auth op = .ok (s', r)) :
    Nft.apply cfg s.toState auth op = .ok (s'.toState, r) := (apply_step cfg hi hf h).2

/-! ## consecutive flavour -/

open OZ.NftCons

/-- the plain ownership map driven by the accepted operations of a history -/
def specRunC {β : Type} (B : BitOps β) (cfg : Cfg) :
    NftCons.State β → (Nat → Option Nat) → List (List Nat × Op) → (Nat → Option Nat)
  | _, spec, [] => spec
  | s, spec, x :: xs =>
    match NftCons.apply B cfg s x.1 x.2 with
    | .ok (s', _) => specRunC B cfg s' (NftCons.specStep spec s.nextId x.2) xs
    | .error _ => specRunC B cfg s spec xs

theorem run_ginv {β : Type} {B : BitOps β} {g : β → Nat → Bool} {W : β → Prop} (hI : Impl B g W)
    (cfg : Cfg) (ops : List (List Nat × Op)) {s : NftCons.State β} {spec : Nat → Option Nat}
    (hi : GInv g W s spec) : GInv g W (NftCons.run B cfg s ops) (specRunC B cfg s spec ops) := by
  induction ops generalizing s spec with
  | nil => exact hi
  | cons x xs ih =>
    show GInv g W (NftCons.run B cfg (NftCons.step B cfg s x) xs) _
    unfold NftCons.step specRunC
    cases h : NftCons.apply B cfg s x.1 x.2 with
    | error e => exact ih hi
    | ok p =>
      obtain ⟨s', r⟩ := p
      exact ih (apply_impl_step hI cfg hi h).1

/-- for EVERY id and EVERY history of batch_mint / transfer / transfer_from / burn / burn_from /
approve / approve_for_all / ledger movement, the bit-level `owner_of` (bucket scan + sparse
marks + burned set, exactly as coded) answers the plain ownership map: the owner for every
minted and not burned id, failure for every other id -/
theorem consecutive_owner_of (cfg : Cfg) (now : Nat) (ops : List (List Nat × Op)) (id : Nat) :
    (NftCons.ownerOf bitOps (NftCons.run bitOps cfg (NftCons.init noBuckets now) ops) id).toOption
      = specRunC bitOps cfg (NftCons.init noBuckets now) (fun _ => none) ops id := by
  have h0 : GInv bitOf WFB (NftCons.init noBuckets now) (fun _ => none) :=
    ⟨CI_init, fun _ => rfl, WFB_empty⟩
  exact ownerOf_impl_spec bitOps_impl (run_ginv bitOps_impl cfg ops h0) id

/-- the same at the set level -/
theorem consecutive_owner_of_set (cfg : Cfg) (now : Nat) (ops : List (List Nat × Op)) (id : Nat) :
    (NftCons.ownerOf setOps (NftCons.run setOps cfg (NftCons.init (fun _ => false) now) ops) id).toOption
      = specRunC setOps cfg (NftCons.init (fun _ => false) now) (fun _ => none) ops id := by
  have h0 : GInv (fun b => b) (fun _ => True) (NftCons.init (fun _ => false) now) (fun _ => none) :=
    ⟨CI_init, fun _ => rfl, trivial⟩
  exact ownerOf_impl_spec setOps_impl (run_ginv setOps_impl cfg ops h0) id

/-- balance(a) = number of ids below the counter that the plain map gives to a -/
theorem consecutive_balance_counts (cfg : Cfg) (now : Nat) (ops : List (List Nat × Op)) (a : Nat) :
    (NftCons.run bitOps cfg (NftCons.init noBuckets now) ops).bal a
      = cnt (List.range (NftCons.run bitOps cfg (NftCons.init noBuckets now) ops).nextId)
          (specRunC bitOps cfg (NftCons.init noBuckets now) (fun _ => none) ops) a := by
  have h0 : GInv bitOf WFB (NftCons.init noBuckets now) (fun _ => none) :=
    ⟨CI_init, fun _ => rfl, WFB_empty⟩
  exact (run_ginv bitOps_impl cfg ops h0).bal a

/-- one accepted call on a reachable state: the plain map changes by the plain rule only
(`specStep`: the batch interval, or the one named id), an accepted transfer / burn names the
current owner, and a batch of `n` issues exactly `[nextId, nextId + n)` and returns its last id -/
theorem consecutive_step (cfg : Cfg) {s s' : BState} {spec : Nat → Option Nat} {auth : List Nat} {op : Op}
    {r : Option Nat} (hi : GInv bitOf WFB s spec) (h : NftCons.apply bitOps cfg s auth op = .ok (s', r)) :
    GInv bitOf WFB s' (NftCons.specStep spec s.nextId op) ∧
    (∀ f id, op.moves = some (f, id) → spec id = some f) ∧
    (∀ to n, op = .batchMint to n → 1 ≤ n ∧ r = some (s.nextId + n - 1) ∧ s'.nextId = s.nextId + n) ∧
    ((∀ to n, op ≠ .batchMint to n) → s'.nextId = s.nextId) :=
  apply_impl_step bitOps_impl cfg hi h

/-- frame for the consecutive flavour: an accepted call on token `t` leaves the answer of
`owner_of` unchanged for every other id (and a batch only adds its own interval) -/
theorem consecutive_frame (cfg : Cfg) {s s' : BState} {spec : Nat → Option Nat} {auth : List Nat} {op : Op}
    {r : Option Nat} (hi : GInv bitOf WFB s spec) (h : NftCons.apply bitOps cfg s auth op = .ok (s', r))
    (t' : Nat) (hne : op.token ≠ some t') (hb : ∀ to n, op = .batchMint to n → t' < s.nextId) :
    (NftCons.ownerOf bitOps s' t').toOption = (NftCons.ownerOf bitOps s t').toOption := by
  obtain ⟨hi', _⟩ := apply_impl_step bitOps_impl cfg hi h
  rw [ownerOf_impl_spec bitOps_impl hi', ownerOf_impl_spec bitOps_impl hi]
  cases op with
  | batchMint to n =>
    have := hb to n rfl
    show (if s.nextId ≤ t' ∧ t' < s.nextId + n then some to else spec t') = spec t'
    rw [if_neg (by omega)]
  | transfer f t id => exact upd_other _ _ _ _ (fun e => hne (by rw [e]; rfl))
  | transferFrom sp f t id => exact upd_other _ _ _ _ (fun e => hne (by rw [e]; rfl))
  | burn f id => exact upd_other _ _ _ _ (fun e => hne (by rw [e]; rfl))
  | burnFrom sp f id => exact upd_other _ _ _ _ (fun e => hne (by rw [e]; rfl))
  | mintSeq to => rfl
  | mint to id => rfl
  | approve ap a id lu => rfl
  | approveForAll o p lu => rfl
  | advance n => rfl

/-- the id ranges `[first, last]` issued by the accepted batch mints of a history, in order -/
def issuedRanges {β : Type} (B : BitOps β) (cfg : Cfg) : NftCons.State β → List (List Nat × Op) → List (Nat × Nat)
  | _, [] => []
  | s, x :: xs =>
    match NftCons.apply B cfg s x.1 x.2 with
    | .ok (s', r) =>
      (match x.2, r with | .batchMint _ _, some last => [(s.nextId, last)] | _, _ => []) ++ issuedRanges B cfg s' xs
    | .error _ => issuedRanges B cfg s xs

/-- batch ids are never reused: every batch starts exactly at the counter, ends below the next
batch's start, and the counter only grows (so burned ids never come back) -/
theorem batch_ids_never_reused (cfg : Cfg) (ops : List (List Nat × Op)) (s : BState) (spec : Nat → Option Nat)
    (hi : GInv bitOf WFB s spec) :
    (issuedRanges bitOps cfg s ops).Pairwise (fun a b => a.2 < b.1) ∧
    (∀ p ∈ issuedRanges bitOps cfg s ops, s.nextId ≤ p.1 ∧ p.1 ≤ p.2 ∧
      p.2 < (NftCons.run bitOps cfg s ops).nextId) ∧
    s.nextId ≤ (NftCons.run bitOps cfg s ops).nextId := by
  induction ops generalizing s spec with
  | nil =>
    refine ⟨List.Pairwise.nil, ?_, Nat.le_refl _⟩
    intro id h; cases h
  | cons x xs ih =>
    show (issuedRanges bitOps cfg s (x :: xs)).Pairwise (fun a b => a.2 < b.1) ∧
      (∀ p ∈ issuedRanges bitOps cfg s (x :: xs), s.nextId ≤ p.1 ∧ p.1 ≤ p.2 ∧
        p.2 < (NftCons.run bitOps cfg (NftCons.step bitOps cfg s x) xs).nextId) ∧
      s.nextId ≤ (NftCons.run bitOps cfg (NftCons.step bitOps cfg s x) xs).nextId
    unfold issuedRanges NftCons.step
    cases h : NftCons.apply bitOps cfg s x.1 x.2 with
    | error e => exact ih s spec hi
    | ok p =>
      obtain ⟨s', r⟩ := p
      obtain ⟨hi', _, hbatch, hother⟩ := apply_impl_step bitOps_impl cfg hi h
      obtain ⟨ih1, ih2, ih3⟩ := ih s' _ hi'
      simp only
      cases hop : x.2 with
      | batchMint to n =>
        obtain ⟨hn, hr, hnx⟩ := hbatch to n hop
        subst hr
        simp only [List.singleton_append]
        refine ⟨List.pairwise_cons.mpr ⟨?_, ih1⟩, ?_, by omega⟩
        · intro q hq; have := (ih2 q hq).1; show s.nextId + n - 1 < q.1; omega
        · intro q hq
          rcases List.mem_cons.mp hq with e | hq
          · subst e; exact ⟨Nat.le_refl _, by show s.nextId ≤ s.nextId + n - 1; omega,
              by show s.nextId + n - 1 < _; omega⟩
          · have := ih2 q hq; omega
      | _ =>
        have hnx := hother (fun to n e => by rw [hop] at e; cases e)
        simp only [List.nil_append]
        refine ⟨ih1, ?_, by omega⟩
        intro q hq; have := ih2 q hq; omega

/-! ## bit level -/

/-- `find_bit_in_item` returns the least position `≥ start` (counted from the most significant
bit) whose bit is set, and `None` exactly when there is none -/
theorem find_bit_in_item_correct (num start : Nat) :
    (∀ p, findBitInItem (some num) start = some p ↔
      (start ≤ p ∧ p ≤ 31 ∧ num.testBit (31 - p) = true ∧
        ∀ q, start ≤ q → q < p → num.testBit (31 - q) = false)) ∧
    (findBitInItem (some num) start = none ↔ ∀ q, start ≤ q → q ≤ 31 → num.testBit (31 - q) = false) :=
  ⟨fun _ => findBitInItem_some, findBitInItem_none⟩

/-- `find_bit_in_bucket` returns the least set position `≥ start` across the items of a bucket -/
theorem find_bit_in_bucket_correct (b : List Nat) (start : Nat) :
    (∀ p, findBitInBucket b start = some p ↔
      (start ≤ p ∧ p < b.length * 32 ∧ bitB b p = true ∧ ∀ q, start ≤ q → q < p → bitB b q = false)) ∧
    (findBitInBucket b start = none ↔ ∀ q, start ≤ q → q < b.length * 32 → bitB b q = false) :=
  ⟨fun _ => findBitInBucket_some, findBitInBucket_none⟩

/-- the whole scan of `owner_of` (start bucket from the token's relative position, later
buckets from 0, missing buckets skipped) returns the least set ownership bit at or above
`token_id` up to the end of the last bucket — the same answer as the set-level scan -/
theorem find_bit_correct (bk : Buckets) (hw : WFB bk) (id last : Nat) (hle : id ≤ last) :
    findInBuckets bk id last = findFrom (bitOf bk) id ((last / 3200 + 1) * 3200) := by
  cases hff : findFrom (bitOf bk) id ((last / 3200 + 1) * 3200) with
  | none => exact (findInBuckets_none hw hle).mpr (findFrom_none.mp hff)
  | some j => exact (findInBuckets_some hw hle).mpr (findFrom_some.mp hff)

/-- the bit layer refines the set layer: on well-formed buckets (100 items each) the coded scan
equals the set-level scan over `[token_id, nextId)` whenever no bit is set at or above the
counter, and the coded `set_ownership_in_bucket` never hits its `expect`, keeps the buckets
well-formed and adds exactly the bit of `token_id` to the abstract set. Since the contract
logic is ONE definition over these two operations, every set-level theorem above holds at the
bit level (`consecutive_owner_of` is stated for the bit level). -/
theorem bit_layer_refines_set_layer :
    (∀ bk id n, WFB bk → id < n → (∀ i, bitOf bk i = true → i < n) →
      bitOps.find bk id (n - 1) = setOps.find (bitOf bk) id (n - 1)) ∧
    (∀ bk id, WFB bk → ∃ bk', bitOps.set bk id = some bk' ∧ WFB bk' ∧
      setOps.set (bitOf bk) id = some (bitOf bk')) := by
  refine ⟨?_, ?_⟩
  · intro bk id n hw hlt hbl
    rw [bitOps_impl.find bk id n hw hlt hbl]
    show findFrom (bitOf bk) id n = findFrom (bitOf bk) id (n - 1 + 1)
    rw [show n - 1 + 1 = n by omega]
  · intro bk id hw
    obtain ⟨bk', h1, h2, h3⟩ := bitOps_impl.set bk id hw
    refine ⟨bk', h1, h2, ?_⟩
    show some (upd (bitOf bk) id true) = some (bitOf bk')
    rw [funext h3]

/-- run-level refinement: for EVERY history the bit-level contract and the set-level contract
accept and reject exactly the same calls and stay related — same balances, approvals,
operators, counter and ledger, same owner marks, same burned set, and the set-level bits are
the abstraction `bitOf` of the buckets (which stay well-formed, with no bit at or above the
counter). Hence every getter answers the same at both levels. -/
theorem bit_layer_run_refines_set_layer (cfg : Cfg) (now : Nat) (ops : List (List Nat × Op))
    (sB : BState) (sS : SState)
    (hB : sB = NftCons.run bitOps cfg (NftCons.init noBuckets now) ops)
    (hS : sS = NftCons.run setOps cfg (NftCons.init (fun _ => false) now) ops) :
    sS.toCore = sB.toCore ∧ sS.mark = sB.mark ∧ sS.burned = sB.burned ∧ sS.bits = bitOf sB.bits ∧
    WFB sB.bits ∧ (∀ i, bitOf sB.bits i = true → i < sB.nextId) ∧
    (∀ id, NftCons.ownerOf bitOps sB id = NftCons.ownerOf setOps sS id) := by
  subst hB; subst hS
  have h0 : SR bitOf WFB (NftCons.init noBuckets now) (NftCons.init (fun _ => false) now) :=
    ⟨rfl, rfl, rfl, rfl, WFB_empty, fun i hi => by cases hi⟩
  have h := run_sim bitOps_impl cfg ops h0
  exact ⟨h.core, h.mark, h.burned, h.bits, h.wf, h.lt, fun id => ownerOf_sim bitOps_impl h id⟩

/-- one call: both layers accept / reject together and return the same value -/
theorem bit_layer_call_refines_set_layer (cfg : Cfg) {sB : BState} {sS : SState}
    (h : SR bitOf WFB sB sS) (auth : List Nat) (op : Op) :
    RelE (fun p p' => SR bitOf WFB p.1 p'.1 ∧ p.2 = p'.2)
      (NftCons.apply bitOps cfg sB auth op) (NftCons.apply setOps cfg sS auth op) :=
  apply_sim bitOps_impl cfg h auth op

/-! ## no spurious failures: an operation succeeds EXACTLY when the property's conditions hold -/

/-- base flavour, any state whose balances count owned tokens (`Inv`, every reachable state under
the fresh-id hypothesis): transfer / transfer_from / burn / burn_from succeed iff `MoveOK` —
authorization, `from` is the owner, approval for a spender, and (transfers) the recipient's
balance `checked_add`; the `checked_sub` on the sender's balance can never fire -/
theorem base_op_succeeds_iff (cfg : Cfg) {L : List Nat} {s : Nft.State} {auth : List Nat} {op : Op}
    (hi : Inv L s) (hm : op.moves.isSome = true) :
    (∃ p, Nft.apply cfg s auth op = .ok p) ↔ MoveOK s.toCore s.owner auth op :=
  Nft.apply_move_iff cfg hi.owner_pos hm

/-- enumerable flavour, any state with well-formed lists (`EInv`, every reachable state):
`remove_from_owner_enumeration`, `remove_from_global_enumeration`, `add_to_owner_enumeration`
and the total-supply decrement never hit their error branches, so the call succeeds iff the
same `Base`-level conditions hold -/
theorem enumerable_op_succeeds_iff (cfg : Cfg) {s : NftEnum.State} {auth : List Nat} {op : Op}
    (hi : NftEnum.EInv s) (hm : op.moves.isSome = true) :
    (∃ p, NftEnum.apply cfg s auth op = .ok p) ↔ MoveOK s.toCore s.owner auth op :=
  (NftEnum.apply_move_iff_base cfg hi hm).trans (Nft.apply_move_iff cfg hi.owner_pos hm)

/-- consecutive flavour (bit level), any state related to a plain map (`GInv`, every reachable
state): the owner scan finds the owner of every minted, unburned id, previous-token marking and
the bucket updates never fail, so the call succeeds iff the conditions hold over the plain map -/
theorem consecutive_op_succeeds_iff (cfg : Cfg) {s : BState} {spec : Nat → Option Nat} {auth : List Nat}
    {op : Op} (hi : GInv bitOf WFB s spec) (hm : op.moves.isSome = true) :
    (∃ p, NftCons.apply bitOps cfg s auth op = .ok p) ↔ MoveOK s.toCore spec auth op :=
  NftCons.apply_move_iff bitOps_impl cfg hi hm

/-- minting fails only where the code's u32 `checked_add`s say so -/
theorem mint_succeeds_iff :
    (∀ (s : Nft.State) (to : Nat), (∃ p, Nft.sequentialMint s to = .ok p) ↔
      (s.nextId + 1 ≤ U32_MAX ∧ s.bal to + 1 ≤ U32_MAX)) ∧
    (∀ (s : NftEnum.State) (to : Nat), (∃ p, NftEnum.sequentialMint s to = .ok p) ↔
      (s.nextId + 1 ≤ U32_MAX ∧ s.bal to + 1 ≤ U32_MAX ∧ s.total + 1 ≤ U32_MAX)) ∧
    (∀ (s : BState) (to n : Nat), WFB s.bits → ((∃ p, NftCons.batchMint bitOps s to n = .ok p) ↔
      (1 ≤ n ∧ n ≤ MAX_TOKENS_IN_BATCH ∧ s.nextId + n ≤ U32_MAX ∧ s.bal to + n ≤ U32_MAX))) :=
  ⟨fun _ _ => Nft.sequentialMint_iff, fun _ _ => NftEnum.sequentialMint_iff,
   fun _ _ _ hw => NftCons.batchMint_iff bitOps_impl hw⟩

/-- the invariants used above hold on every reachable state of each flavour -/
theorem reachable_states_satisfy_invariants (cfg : Cfg) (now : Nat) (ops : List (List Nat × Op)) :
    (FreshRun cfg (Nft.init now) ops → ∃ L, Inv L (Nft.run cfg (Nft.init now) ops)) ∧
    (FreshRunE cfg (NftEnum.init now) ops → NftEnum.EInv (NftEnum.run cfg (NftEnum.init now) ops)) ∧
    GInv bitOf WFB (NftCons.run bitOps cfg (NftCons.init noBuckets now) ops)
      (specRunC bitOps cfg (NftCons.init noBuckets now) (fun _ => none) ops) :=
  ⟨fun hf => run_inv cfg ops (init_inv now) hf,
   fun hf => (run_einv cfg ops (NftEnum.init_einv now) (init_inv now) hf).1,
   run_ginv bitOps_impl cfg ops ⟨CI_init, fun _ => rfl, WFB_empty⟩⟩

/-! ## non-vacuity -/

/-- a concrete history reaches a non-trivial state in which every hypothesis used above holds -/
example : (Nft.run ⟨1, 1000⟩ (Nft.init 10)
    [([], .mintSeq 1), ([], .mint 2 77), ([1], .transfer 1 3 0), ([2], .burn 2 77)]).owner 0 = some 3 := by
  decide

example : FreshRun ⟨1, 1000⟩ (Nft.init 10)
    [([], .mintSeq 1), ([], .mint 2 77), ([1], .transfer 1 3 0), ([2], .burn 2 77)] := by
  refine ⟨by decide, by decide, by decide, by decide, trivial⟩

example : (NftEnum.run ⟨1, 1000⟩ (NftEnum.init 10)
    [([], .mintSeq 1), ([], .mintSeq 1), ([], .mintSeq 2), ([1], .burn 1 0)]).gTok 0 = some 2 := by
  decide

example : (NftCons.ownerOf bitOps (NftCons.run bitOps ⟨1, 1000⟩ (NftCons.init noBuckets 10)
    [([], .batchMint 1 40), ([1], .transfer 1 2 33), ([1], .burn 1 31)]) 32).toOption = some 1 := by
  decide

example : (NftCons.ownerOf bitOps (NftCons.run bitOps ⟨1, 1000⟩ (NftCons.init noBuckets 10)
    [([], .batchMint 1 40), ([1], .transfer 1 2 33), ([1], .burn 1 31)]) 31).toOption = none := by
  decide

example : findBitInItem (some 0b00010100) 28 = some 29 := by decide

/-- a third-party burn_from on the enumerable flavour (spender 2 approved for token 0, owner 1
holding three tokens) succeeds and compacts the OWNER's list -/
example : ((NftEnum.run ⟨1, 1000⟩ (NftEnum.init 10)
    [([], .mintSeq 1), ([], .mintSeq 1), ([], .mintSeq 1), ([1], .approve 1 2 0 50),
     ([2], .burnFrom 2 1 0)]).oTok 1 0,
   (NftEnum.run ⟨1, 1000⟩ (NftEnum.init 10)
    [([], .mintSeq 1), ([], .mintSeq 1), ([], .mintSeq 1), ([1], .approve 1 2 0 50),
     ([2], .burnFrom 2 1 0)]).bal 1) = (some 2, 2) := by decide

/-- the conditions of `MoveOK` on a concrete reachable state: owner 1 may transfer token 0, a
stranger may not -/
example : MoveOK (Nft.run ⟨1, 1000⟩ (Nft.init 10) [([], .mintSeq 1)]).toCore
    (Nft.run ⟨1, 1000⟩ (Nft.init 10) [([], .mintSeq 1)]).owner [1] (.transfer 1 3 0) := by
  refine ⟨by decide, by decide, by decide⟩

example : ¬ MoveOK (Nft.run ⟨1, 1000⟩ (Nft.init 10) [([], .mintSeq 1)]).toCore
    (Nft.run ⟨1, 1000⟩ (Nft.init 10) [([], .mintSeq 1)]).owner [4] (.transfer 1 3 0) := by
  rintro ⟨h, _⟩; revert h; decide

end OZ.C10
