import OZ.Props.C12
import OZ.Model.MulDivMon
/-
C12 — soundness of the MONITOR that decides the property on implementation traces.

`./check C12` reports a concrete violation exactly when `OZ.MulDiv.Mon.checkCore` (the driver's
monitor on parsed values) returns an alarm on the implementation's answers. C12 is a property of
pure functions: a "trace" is a list of operation lines, each answered independently, and the only
monitor state is the ghost "answer to the latest `cpow` line, with its operands".

Proved here: for EVERY finite list of operation lines — every op kind, rounding, plain / checked
variant, every operand (i128 operands anywhere in the i128 range, I256 operands arbitrary, any
exponent) — the monitor fed with the MODEL's own answers reports nothing
(`monitor_accepts_every_model_trace`). Consequences:

  * an implementation whose answers agree with the model's (the correspondence the check
    establishes by differential testing) can never raise a monitor alarm;
  * every conclusion the monitor evaluates is a THEOREM about the model in the monitor's own
    executable wording (`monitor_spec_eq_model`): the specification it compares with and the
    model agree on all inputs.

What the monitor's conclusions are, per op kind (and hence what the theorem says beyond "silent"):

  md128 plain/checked   answer = `spec128 .panic/.none rd x y d`        — by `mul_div_i128_spec`,
                                                                           `checked_mul_div_i128_spec`
  md256 plain           product fits 256 bits → exact quotient / panic  — by `mul_div_i256_spec`
  md256 checked         same, nothing demanded when the quotient does not fit
                                                                        — by `checked_mul_div_i256_spec`
  wad mul / div / ratio answer = `spec128` (truncation, scale 10^18)    — by `wad_checked_mul_exact`,
                                                                           `wad_checked_div_exact`,
                                                                           `wad_from_ratio_exact`
  wad pow               answer = (the `cpow` answer for the same operands).orPanic
                        — for the model this is the definition of `wadPow`; its meaning (pow panics
                        iff checked_pow is None, same value otherwise) is `wad_pow_iff_checked_pow`
  wad fromint / mulint / divint / add / sub / cpow
                        the monitor has NO specification for these lines (`specOf = none`): the
                        theorem covers them only in the sense that the monitor is silent whatever
                        the answer. In particular the NUMERIC VALUE of `checked_pow` (iterated
                        truncation, no closed form) is not a monitor conclusion and not proved
                        anywhere; those answers are tied to the implementation by the correspondence
                        diff only.

Property theorems only; everything needed comes from OZ/Props/C12.lean.
-/
namespace OZ.MulDiv.Mon
open OZ.MulDiv

/-- The structured observation of the model's answer to an op line. This is the same data the
model side of the driver prints (`OZ.Drv.C12.machine.op` prints `(run op).toString`, and
`parseObs` reads that line back as `⟨some (run op), true⟩` — the latter being the string-level
fact `String.toInt? (toString v) = some v`, outside this theorem). -/
def modelObs (op : Op) : Obs := ⟨some (run op), true⟩

/- `Op.valid` (OZ/Model/MulDivOps.lean): the op line denotes a call of the real function — every
operand the Rust signature types as `i128` lies in the i128 range. Nothing is required of I256
operands (the monitor itself restricts its I256 conclusions to products that fit in 256 bits)
nor of the exponent. -/

/-- **the monitor's specification and the model agree on all inputs**: whenever the monitor
demands an answer `want` for an op line, that is the model's answer -/
theorem monitor_spec_eq_model (op : Op) (hv : op.valid) (want : Res) (h : specOf op = some want) :
    run op = want := by
  cases op with
  | md128 c rd x y d =>
    obtain ⟨hx, hy, hd⟩ := hv
    cases c with
    | false =>
      have h' : some (spec128 .panic rd x y d) = some want := h
      injection h' with h'
      rw [← h']; exact mul_div_i128_spec rd x y d hx hy hd
    | true =>
      have h' : some (spec128 .none rd x y d) = some want := h
      injection h' with h'
      rw [← h']; exact checked_mul_div_i128_spec rd x y d hx hy hd
  | md256 c rd x y d =>
    have h' : specMd256 c rd x y d = some want := h
    unfold specMd256 at h'
    by_cases hp : in256 (x * y)
    · rw [if_neg (by simpa using hp)] at h'
      cases c with
      | false =>
        rw [if_neg (by simp)] at h'
        injection h' with h'
        rw [← h']; exact mul_div_i256_spec rd x y d hp
      | true =>
        rw [if_pos rfl] at h'
        show checkedMulDiv256 rd x y d = want
        rw [checked_mul_div_i256_spec rd x y d hp]
        by_cases hd0 : d = 0
        · rw [if_pos hd0] at h' ⊢
          injection h'
        · rw [if_neg hd0] at h' ⊢
          by_cases hq : in256 (exactQ rd x y d)
          · rw [if_pos hq] at h' ⊢
            injection h'
          · rw [if_neg hq] at h'; cases h'
    · rw [if_pos (by simpa using hp)] at h'; cases h'
  | wad f a b =>
    obtain ⟨ha, hb⟩ := hv
    cases f with
    | mul =>
      have h' : some (spec128 .none .trunc a b WAD) = some want := h
      injection h' with h'
      rw [← h']; exact wad_checked_mul_exact a b ha hb
    | div =>
      have h' : some (spec128 .none .trunc a WAD b) = some want := h
      injection h' with h'
      rw [← h']; exact wad_checked_div_exact a b ha hb
    | ratio =>
      have h' : some (spec128 .panic .trunc a WAD b) = some want := h
      injection h' with h'
      rw [← h']; exact wad_from_ratio_exact a b ha hb
    | fromint => cases h
    | mulint => cases h
    | divint => cases h
    | add => cases h
    | sub => cases h
    | cpow => cases h
    | pow => cases h

/-- the exact-specification part of the monitor is silent on the model's answer -/
theorem verdictSpec_quiet (op : Op) (hv : op.valid) : verdictSpec op (modelObs op) = none := by
  unfold verdictSpec
  cases h : specOf op with
  | none => rfl
  | some want =>
    have := monitor_spec_eq_model op hv want h
    simp [modelObs, Obs.is, this]

/-- the ghost describes the model: it is the model's `checked_pow` answer for its operands -/
def GhostOk (g : Option Ghost) : Prop :=
  ∀ gh, g = some gh → gh.r = wadCheckedPow gh.a gh.b.toNat

/-- the pow part of the monitor is silent on the model's answer, given a ghost that holds the
model's `checked_pow` answer for the operands it records -/
theorem verdictPow_quiet (g : Option Ghost) (hg : GhostOk g) (op : Op) :
    verdictPow g op (modelObs op) = none := by
  unfold verdictPow
  split
  · rename_i a b
    cases hgg : g with
    | none => rfl
    | some gh =>
      show verdictPowAgainst gh a b _ = none
      unfold verdictPowAgainst
      by_cases hab : gh.a = a ∧ gh.b = b
      · rw [if_pos hab]
        have hr := hg gh hgg
        obtain ⟨h1, h2⟩ := hab
        have : run (.wad .pow a b) = gh.r.orPanic := by
          rw [hr, h1, h2]; rfl
        simp [modelObs, Obs.is, this]
      · rw [if_neg hab]
  · rfl

/-- **one op line**: fed with the model's own answer, the monitor reports nothing and its ghost
keeps describing the model -/
theorem monitor_sound_step (g : Option Ghost) (hg : GhostOk g) (op : Op) (hv : op.valid) :
    (checkCore g op (modelObs op)).2 = none ∧ GhostOk (checkCore g op (modelObs op)).1 := by
  refine ⟨?_, ?_⟩
  · show firstSome (verdictSpec op (modelObs op)) (verdictPow g op (modelObs op)) = none
    rw [verdictSpec_quiet op hv, verdictPow_quiet g hg op]; rfl
  · show GhostOk (ghostStep g op (modelObs op))
    unfold ghostStep
    split
    · rename_i a b
      intro gh hgh
      have : gh = ⟨a, b, run (.wad .cpow a b)⟩ := by
        simp [modelObs] at hgh; exact hgh.symm
      rw [this]; rfl
    · exact hg

/-- the monitor run over a whole list of op lines answered by the model: first alarm, if any -/
def monitorRun : Option Ghost → List Op → Option Alarm
  | _, [] => none
  | g, op :: ops =>
    match (checkCore g op (modelObs op)).2 with
    | some a => some a
    | none => monitorRun (checkCore g op (modelObs op)).1 ops

/-- the monitor's initial state for a sequence: the driver's `minit` builds `none` from every
label (the model side has no state: `init` builds `()`) -/
def monInit : Option Ghost := none

/-- **monitor soundness**: for every finite list of op lines denoting calls — any op kinds in any
order, any rounding, plain or checked, any operands, any exponents — the monitor reports nothing
on the model's answers -/
theorem monitor_accepts_every_model_trace (ops : List Op) (hv : ∀ op ∈ ops, Op.valid op) :
    monitorRun monInit ops = none := by
  suffices ∀ g, GhostOk g → monitorRun g ops = none from
    this _ (by intro gh h; cases h)
  induction ops with
  | nil => intro g _; rfl
  | cons op ops ih =>
    intro g hg
    obtain ⟨h1, h2⟩ := monitor_sound_step g hg op (hv op (List.mem_cons_self ..))
    unfold monitorRun
    rw [h1]
    exact ih (fun o ho => hv o (List.mem_cons_of_mem _ ho)) _ h2

/-! ### the old monitor raised a false alarm on a model trace

Before this work the ghost was the bare answer of the latest `cpow` line and EVERY later `pow`
line was compared with it. On the model history `cpow(2.0, 2); pow(3.0, 2)` (both lines valid,
both answered by the model: 4.0 and 9.0) it reports `pow=ok 9·10^18 but checked_pow=ok 4·10^18`.
The harness never writes such a trace (it always writes `cpow a n` directly followed by
`pow a n`), so no run of `./check C12` was affected; the monitor now records the operands and
compares only equal ones, which is what the property states. -/

/-- the old monitor run on the model's answers -/
def Legacy.monitorRun : Option Res → List Op → Option Alarm
  | _, [] => none
  | g, op :: ops =>
    match (Legacy.checkCore g op (modelObs op)).2 with
    | some a => some a
    | none => Legacy.monitorRun (Legacy.checkCore g op (modelObs op)).1 ops

theorem legacy_monitor_false_alarm :
    Legacy.monitorRun none [.wad .cpow (2 * WAD) 2, .wad .pow (3 * WAD) 2] = some (.pow (.ok (4 * WAD))) ∧
    Op.valid (.wad .cpow (2 * WAD) 2) ∧ Op.valid (.wad .pow (3 * WAD) 2) ∧
    run (.wad .pow (3 * WAD) 2) = .ok (9 * WAD) := by
  decide

/-- on every trace in which each `pow` line directly follows the `cpow` line with the same operands
(the shape the harness writes) old and new monitor give the same verdict for that pair -/
theorem legacy_agrees_on_harness_pairs (a b : Int) (o1 o2 : Obs) (g : Option Ghost) (g' : Option Res) :
    (checkCore (checkCore g (.wad .cpow a b) o1).1 (.wad .pow a b) o2).2 =
    (Legacy.checkCore (Legacy.checkCore g' (.wad .cpow a b) o1).1 (.wad .pow a b) o2).2 := by
  cases hr : o1.r with
  | none => simp [checkCore, Legacy.checkCore, ghostStep, Legacy.ghostStep, verdictPow, Legacy.verdictPow, hr]
  | some r =>
    simp [checkCore, Legacy.checkCore, ghostStep, Legacy.ghostStep, verdictPow, Legacy.verdictPow,
      verdictPowAgainst, hr]

/-! ### non-vacuity (tests, labelled as such): the monitor is not trivially silent -/

/-- floor of -1/2 answered with 0 (the seeded change C12-1): alarm with the exact value -/
example : (checkCore none (.md128 false .floor (-1) 1 2) ⟨some (.ok 0), true⟩).2 = some (.spec (.ok (-1))) := by
  decide
/-- a checked variant that panics on a zero denominator -/
example : (checkCore none (.md128 true .ceil 5 7 0) ⟨some .panic, true⟩).2 = some (.spec .none) := by
  decide
/-- the right value in a non-canonical rendering is not accepted -/
example : (checkCore none (.md128 false .trunc 6 7 2) ⟨some (.ok 21), false⟩).2 = some (.spec (.ok 21)) := by
  decide
/-- Wad::checked_div(MIN, -1.0) answered with a panic (the seeded change C12-r3-2) -/
example : (checkCore none (.wad .div I128_MIN (-WAD)) ⟨some .panic, true⟩).2 = some (.spec .none) := by
  decide
/-- pow returning a value although checked_pow of the same operands returned None -/
example : (checkCore (some ⟨5, 3, .none⟩) (.wad .pow 5 3) ⟨some (.ok 0), true⟩).2 = some (.pow .none) := by
  decide
/-- and the hypotheses of the soundness theorem are met by ops at the edge of the range -/
example : Op.valid (.md128 true .floor I128_MIN I128_MIN I128_MAX) ∧ Op.valid (.wad .pow I128_MAX 4294967295) := by
  decide

/-- the validity hypothesis is needed: on an `md128` line whose operands are not i128 values (not a
call of the real function; no harness writes it) model and specification differ — the model's
256-bit product traps although the quotient 2^100 would fit -/
example : ¬ Op.valid (.md128 false .trunc (2 ^ 200) (2 ^ 200) (2 ^ 150 * 2 ^ 150)) ∧
    run (.md128 false .trunc (2 ^ 200) (2 ^ 200) (2 ^ 150 * 2 ^ 150)) = .panic ∧
    specOf (.md128 false .trunc (2 ^ 200) (2 ^ 200) (2 ^ 150 * 2 ^ 150)) = some (.ok (2 ^ 100)) := by
  decide

end OZ.MulDiv.Mon
