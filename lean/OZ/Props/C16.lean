import OZ.Lemmas.Gates
/-
C16 — Pause, allow / block lists, supply cap and migration flags cannot be bypassed.

Property theorems only. The model (OZ/Model/Gates.lean) mirrors pausable/storage.rs, the
`when_not_paused` / `when_paused` / `only_role` macro expansions, AllowList / BlockList,
capped/storage.rs, upgradeable/storage.rs, the derived `upgrade` / `migrate`, and the entry
points of the example contracts (fungible-pausable, pausable, fungible-allowlist after the
`fix:` commit, fungible-blocklist, fungible-capped, upgradeable). Every statement is for all
states, all authorizing subsets, all `Int` amounts, and — where it speaks about histories —
all finite operation lists.
-/
namespace OZ.Gates
open OZ.Host OZ.Fungible

/-! ## Pause -/

/-- **paused_blocks** (fungible-pausable): while paused, every entry point declared pausable
(mint, transfer, transfer_from, burn, burn_from) fails — whatever the arguments and whoever
authorizes — and the call leaves the whole contract state unchanged -/
theorem paused_blocks (c : Cfg) (s : PTok) (auth : List Nat) (o : Fungible.Op)
    (hp : s.p.paused = true) (ho : pausableOp o = true) :
    PTok.apply c s auth (.tok o) = .error .gate ∧ PTok.step c s (auth, .tok o) = s := by
  have h : PTok.apply c s auth (.tok o) = .error .gate := by
    cases o <;> simp [pausableOp] at ho <;>
      simp only [PTok.apply, PTok.applyTok, whenNotPaused_true hp, bind_error]
  exact ⟨h, by simp only [PTok.step, h]⟩

/-- **paused_blocks**, history form: while paused, NO sequence of token calls (any entry
points, any arguments, any authorizations) moves a balance or the supply, and the contract
stays paused (only `approve`, which the example does not declare pausable, and the ledger
can change anything) -/
theorem paused_blocks_run (c : Cfg) (ops : List (List Nat × Fungible.Op)) (s : PTok)
    (hp : s.p.paused = true) :
    let s' := PTok.run c s (ops.map (fun x => (x.1, PTok.Op.tok x.2)))
    s'.tok.bal = s.tok.bal ∧ s'.tok.supply = s.tok.supply ∧ s'.p = s.p ∧ s'.owner = s.owner := by
  induction ops generalizing s with
  | nil => exact ⟨rfl, rfl, rfl, rfl⟩
  | cons x xs ih =>
    simp only [List.map_cons, PTok.run, List.foldl_cons]
    have key : (PTok.step c s (x.1, .tok x.2)).tok.bal = s.tok.bal ∧
        (PTok.step c s (x.1, .tok x.2)).tok.supply = s.tok.supply ∧
        (PTok.step c s (x.1, .tok x.2)).p = s.p ∧ (PTok.step c s (x.1, .tok x.2)).owner = s.owner := by
      by_cases ho : pausableOp x.2 = true
      · rw [(paused_blocks c s x.1 x.2 hp ho).2]; exact ⟨rfl, rfl, rfl, rfl⟩
      · unfold PTok.step
        cases hx : PTok.apply c s x.1 (.tok x.2) with
        | error e => exact ⟨rfl, rfl, rfl, rfl⟩
        | ok s1 =>
          simp only
          obtain ⟨t, ht, h2⟩ := bind_eq_ok hx
          injection h2 with h2; subst h2
          rcases x with ⟨auth, o⟩
          cases o <;> simp [pausableOp] at ho
          · -- approve
            obtain ⟨_, _, h⟩ := bind_eq_ok ht
            obtain ⟨s0, h0, h2⟩ := bind_eq_ok h
            injection h2 with h2; subst h2
            obtain ⟨e1, e2, -, -, -⟩ := setAllowance_ok h0
            exact ⟨by simp [emit]; exact e2, by simp [emit]; exact e1, rfl, rfl⟩
          · -- advance
            injection ht with ht; subst ht
            exact ⟨rfl, rfl, rfl, rfl⟩
    obtain ⟨k1, k2, k3, k4⟩ := key
    have hp' : (PTok.step c s (x.1, .tok x.2)).p.paused = true := by rw [k3]; exact hp
    obtain ⟨i1, i2, i3, i4⟩ := ih (PTok.step c s (x.1, .tok x.2)) hp'
    simp only [PTok.run] at i1 i2 i3 i4
    exact ⟨by rw [i1, k1], by rw [i2, k2], by rw [i3, k3], by rw [i4, k4]⟩

/-- **paused_blocks** (pausable counter): `increment` fails while paused, `emergency_reset`
(declared `when_paused`) fails while not paused; both without effect -/
theorem paused_blocks_counter (s : PCnt) (auth : List Nat) :
    (s.p.paused = true → PCnt.apply s auth .increment = .error .gate ∧ PCnt.step s (auth, .increment) = s) ∧
    (s.p.paused = false → PCnt.apply s auth .emergencyReset = .error .gate ∧
      PCnt.step s (auth, .emergencyReset) = s) := by
  constructor
  · intro hp
    have h : PCnt.apply s auth .increment = .error .gate := by
      simp only [PCnt.apply, PCnt.increment, whenNotPaused_true hp, bind_error]
    exact ⟨h, by simp only [PCnt.step, h]⟩
  · intro hp
    have h : PCnt.apply s auth .emergencyReset = .error .gate := by
      simp only [PCnt.apply, PCnt.emergencyReset, whenPaused_false hp, bind_error]
    exact ⟨h, by simp only [PCnt.step, h]⟩

/-- **unpause_restores**: an accepted `pause` followed by an accepted `unpause` gives back the
same token state, owner and flag (only the two events are added to the log), and every
fungible entry point then behaves exactly as it did before the pause -/
theorem unpause_restores (c : Cfg) (s s1 s2 : PTok) (a1 a2 : List Nat) (c1 c2 : Nat)
    (h1 : PTok.apply c s a1 (.pause c1) = .ok s1) (h2 : PTok.apply c s1 a2 (.unpause c2) = .ok s2) :
    s2.tok = s.tok ∧ s2.owner = s.owner ∧ s2.p.paused = s.p.paused ∧
    s2.p.log = s.p.log ++ [.paused, .unpaused] ∧
    ∀ auth o, PTok.applyTok c s2 auth o = PTok.applyTok c s auth o := by
  obtain ⟨_, _, h1⟩ := bind_eq_ok h1
  obtain ⟨p1, hp1, h1⟩ := bind_eq_ok h1
  injection h1 with h1; subst h1
  obtain ⟨_, _, h2⟩ := bind_eq_ok h2
  obtain ⟨p2, hp2, h2⟩ := bind_eq_ok h2
  injection h2 with h2; subst h2
  obtain ⟨e1, e2⟩ := pause_ok hp1
  obtain ⟨e3, e4⟩ := unpause_ok hp2
  subst e2; subst e4
  refine ⟨rfl, rfl, e1.symm, by simp, ?_⟩
  intro auth o
  cases o <;> simp only [PTok.applyTok, whenNotPaused, e1]

/-- **unpause_restores** for the counter -/
theorem unpause_restores_counter (s s1 s2 : PCnt) (a1 a2 : List Nat) (c1 c2 : Nat)
    (h1 : PCnt.apply s a1 (.pause c1) = .ok s1) (h2 : PCnt.apply s1 a2 (.unpause c2) = .ok s2) :
    s2.counter = s.counter ∧ s2.owner = s.owner ∧ s2.p.paused = s.p.paused ∧
    s2.p.log = s.p.log ++ [.paused, .unpaused] := by
  obtain ⟨_, _, h1⟩ := bind_eq_ok h1
  obtain ⟨p1, hp1, h1⟩ := bind_eq_ok h1
  injection h1 with h1; subst h1
  obtain ⟨_, _, h2⟩ := bind_eq_ok h2
  obtain ⟨p2, hp2, h2⟩ := bind_eq_ok h2
  injection h2 with h2; subst h2
  obtain ⟨e1, e2⟩ := pause_ok hp1
  obtain ⟨e3, e4⟩ := unpause_ok hp2
  subst e2; subst e4
  exact ⟨rfl, rfl, e1.symm, by simp⟩

/-- **pause_alternates**, one step: `pause` is refused while paused, `unpause` while not
paused, and either is accepted only from the owner with the owner's authorization -/
theorem pause_alternates_step (c : Cfg) (s s' : PTok) (auth : List Nat) (caller : Nat) :
    (PTok.apply c s auth (.pause caller) = .ok s' →
      s.p.paused = false ∧ s'.p.paused = true ∧ caller = s.owner ∧ s.owner ∈ auth) ∧
    (PTok.apply c s auth (.unpause caller) = .ok s' →
      s.p.paused = true ∧ s'.p.paused = false ∧ caller = s.owner ∧ s.owner ∈ auth) := by
  constructor
  · intro h
    obtain ⟨_, ha, h⟩ := bind_eq_ok h
    obtain ⟨p1, hp1, h⟩ := bind_eq_ok h
    injection h with h; subst h
    obtain ⟨e1, e2⟩ := pause_ok hp1
    obtain ⟨m, eq⟩ := callerIsOwner_ok ha
    subst e2
    exact ⟨e1, rfl, eq.symm, eq ▸ m⟩
  · intro h
    obtain ⟨_, ha, h⟩ := bind_eq_ok h
    obtain ⟨p1, hp1, h⟩ := bind_eq_ok h
    injection h with h; subst h
    obtain ⟨e1, e2⟩ := unpause_ok hp1
    obtain ⟨m, eq⟩ := callerIsOwner_ok ha
    subst e2
    exact ⟨e1, rfl, eq.symm, eq ▸ m⟩

/-- **pause_alternates**, all histories of the pausable token: from deployment, the `paused` /
`unpaused` events of ANY operation list strictly alternate, starting with `paused`
(`flagAfter` replays them and is defined only on alternating logs), and the flag is what
the last of them says -/
theorem pause_alternates (c : Cfg) (now owner : Nat) (initial : Int) (s0 : PTok)
    (h0 : PTok.construct now owner initial = .ok s0) (ops : List (List Nat × PTok.Op)) :
    flagAfter (PTok.run c s0 ops).p.log = some (PTok.run c s0 ops).p.paused := by
  have hinit : flagAfter s0.p.log = some s0.p.paused := by
    obtain ⟨t, _, h⟩ := bind_eq_ok h0
    injection h with h; subst h; rfl
  clear h0
  induction ops generalizing s0 with
  | nil => exact hinit
  | cons x xs ih =>
    simp only [PTok.run, List.foldl_cons]
    apply ih
    unfold PTok.step
    cases hx : PTok.apply c s0 x.1 x.2 with
    | error e => exact hinit
    | ok s1 =>
      simp only
      rcases x with ⟨auth, o⟩
      cases o with
      | tok o =>
        obtain ⟨t, _, h⟩ := bind_eq_ok hx
        injection h with h; subst h; exact hinit
      | pause caller =>
        obtain ⟨_, _, h⟩ := bind_eq_ok hx
        obtain ⟨p1, hp1, h⟩ := bind_eq_ok h
        injection h with h; subst h
        exact pause_flag hp1 hinit
      | unpause caller =>
        obtain ⟨_, _, h⟩ := bind_eq_ok hx
        obtain ⟨p1, hp1, h⟩ := bind_eq_ok h
        injection h with h; subst h
        exact unpause_flag hp1 hinit

/-- **pause_alternates** for the counter example, all histories -/
theorem pause_alternates_counter (owner : Nat) (ops : List (List Nat × PCnt.Op)) :
    flagAfter (PCnt.run (PCnt.construct owner) ops).p.log =
      some (PCnt.run (PCnt.construct owner) ops).p.paused := by
  suffices ∀ s : PCnt, flagAfter s.p.log = some s.p.paused →
      flagAfter (PCnt.run s ops).p.log = some (PCnt.run s ops).p.paused from this _ rfl
  induction ops with
  | nil => intro s hs; exact hs
  | cons x xs ih =>
    intro s hs
    simp only [PCnt.run, List.foldl_cons]
    apply ih
    unfold PCnt.step
    cases hx : PCnt.apply s x.1 x.2 with
    | error e => exact hs
    | ok s1 =>
      simp only
      rcases x with ⟨auth, o⟩
      cases o with
      | increment =>
        obtain ⟨_, _, h⟩ := bind_eq_ok hx
        split at h
        · cases h
        · injection h with h; subst h; exact hs
      | emergencyReset =>
        obtain ⟨_, _, h⟩ := bind_eq_ok hx
        injection h with h; subst h; exact hs
      | pause caller =>
        obtain ⟨_, _, h⟩ := bind_eq_ok hx
        obtain ⟨p1, hp1, h⟩ := bind_eq_ok h
        injection h with h; subst h
        exact pause_flag hp1 hs
      | unpause caller =>
        obtain ⟨_, _, h⟩ := bind_eq_ok hx
        obtain ⟨p1, hp1, h⟩ := bind_eq_ok h
        injection h with h; subst h
        exact unpause_flag hp1 hs

/-! ## Allow list / block list -/

/-- **allowlist_gates**, library type: no `transfer`, `transfer_from`, `approve`, `burn`,
`burn_from` of `AllowList` succeeds unless every party it must vet (`from` and `to`; the
`owner` of an approval; the `from` of a burn) is allowed -/
theorem allowlist_gates (c : Cfg) (s s' : LTok) (auth : List Nat) (o : Fungible.Op)
    (h : ALib.apply c s auth (.tok o) = .ok s') : ∀ a ∈ vetted o, AllowList.allowed s a = true := by
  cases o <;> simp only [ALib.apply, AllowList.transfer, AllowList.transferFrom, AllowList.approve,
    AllowList.burn, AllowList.burnFrom] at h <;> simp only [vetted]
  case mint => intro a ha; cases ha
  case advance => intro a ha; cases ha
  all_goals
    split at h
    · cases h
    · rename_i hg
      simp at hg
      intro a ha
      simp at ha
      first
        | (rcases ha with rfl | rfl; exact hg.1; exact hg.2)
        | (subst ha; exact hg)

/-- **allowlist_gates**, the example contract's exposed entry points (after the `fix:` commit
that routes `burn` / `burn_from` through `AllowList`) -/
theorem allowlist_gates_example (c : Cfg) (s s' : LEx) (auth : List Nat) (o : Fungible.Op)
    (h : AEx.apply c s auth (.tok o) = .ok s') : ∀ a ∈ vetted o, AllowList.allowed s.t a = true := by
  cases o <;> simp only [AEx.apply] at h
  case mint => cases h
  case advance => intro a ha; cases ha
  all_goals
    obtain ⟨t, ht, -⟩ := withT_ok h
  · exact allowlist_gates c s.t t auth (.transfer _ _ _) ht
  · exact allowlist_gates c s.t t auth (.transferFrom _ _ _ _) ht
  · exact allowlist_gates c s.t t auth (.approve _ _ _ _) ht
  · exact allowlist_gates c s.t t auth (.burn _ _) ht
  · exact allowlist_gates c s.t t auth (.burnFrom _ _ _) ht

/-- **blocklist_gates**, library type: no `transfer`, `transfer_from`, `approve`, `burn`,
`burn_from` of `BlockList` succeeds if a party it must vet is blocked -/
theorem blocklist_gates (c : Cfg) (s s' : LTok) (auth : List Nat) (o : Fungible.Op)
    (h : BLib.apply c s auth (.tok o) = .ok s') : ∀ a ∈ vetted o, BlockList.blocked s a = false := by
  cases o <;> simp only [BLib.apply, BlockList.transfer, BlockList.transferFrom, BlockList.approve,
    BlockList.burn, BlockList.burnFrom] at h <;> simp only [vetted]
  case mint => intro a ha; cases ha
  case advance => intro a ha; cases ha
  all_goals
    split at h
    · cases h
    · rename_i hg
      simp at hg
      intro a ha
      simp at ha
      first
        | (rcases ha with rfl | rfl; exact hg.1; exact hg.2)
        | (subst ha; exact hg)

/-- **blocklist_gates**, the example contract's exposed entry points (it exposes no burn) -/
theorem blocklist_gates_example (c : Cfg) (s s' : LEx) (auth : List Nat) (o : Fungible.Op)
    (h : BEx.apply c s auth (.tok o) = .ok s') : ∀ a ∈ vetted o, BlockList.blocked s.t a = false := by
  cases o <;> simp only [BEx.apply] at h
  case mint => cases h
  case burn => cases h
  case burnFrom => cases h
  case advance => intro a ha; cases ha
  all_goals
    obtain ⟨t, ht, -⟩ := withT_ok h
  · exact blocklist_gates c s.t t auth (.transfer _ _ _) ht
  · exact blocklist_gates c s.t t auth (.transferFrom _ _ _ _) ht
  · exact blocklist_gates c s.t t auth (.approve _ _ _ _) ht

/-- the lists can only be changed by an account holding the manager role that authorizes
the call (examples' `#[only_role(operator, "manager")]`) -/
theorem list_change_needs_manager (c : Cfg) (s s' : LEx) (auth : List Nat) (u operator : Nat) (on : Bool) :
    (AEx.apply c s auth (.setList u on operator) = .ok s' → s.isMgr operator = true ∧ operator ∈ auth) ∧
    (BEx.apply c s auth (.setList u on operator) = .ok s' → s.isMgr operator = true ∧ operator ∈ auth) := by
  have key : ∀ {x : Unit}, onlyRole s auth operator = .ok x → s.isMgr operator = true ∧ operator ∈ auth := by
    intro x h
    unfold onlyRole at h
    obtain ⟨_, h1, h2⟩ := bind_eq_ok h
    refine ⟨?_, requireAuth_ok h2⟩
    unfold ensureRole at h1
    split at h1
    · cases h1
    · rename_i hm; simpa using hm
  constructor <;> intro h <;> cases on <;> simp only [AEx.apply, BEx.apply] at h <;>
    (obtain ⟨_, h1, -⟩ := bind_eq_ok h; exact key h1)

/-- **list_change_immediate_idempotent**: allowing / disallowing (blocking / unblocking) a
user changes exactly that user's status, at once (the very next check sees it), touches no
token state, and doing it a second time changes nothing at all (no second event either) -/
theorem list_change_immediate_idempotent (s : LTok) (u : Nat) :
    AllowList.allowed (AllowList.allowUser s u) u = true ∧
    AllowList.allowed (AllowList.disallowUser s u) u = false ∧
    BlockList.blocked (BlockList.blockUser s u) u = true ∧
    BlockList.blocked (BlockList.unblockUser s u) u = false ∧
    (∀ a, a ≠ u → (AllowList.allowUser s u).listed a = s.listed a ∧
      (AllowList.disallowUser s u).listed a = s.listed a ∧
      (BlockList.blockUser s u).listed a = s.listed a ∧
      (BlockList.unblockUser s u).listed a = s.listed a) ∧
    ((AllowList.allowUser s u).tok = s.tok ∧ (AllowList.disallowUser s u).tok = s.tok ∧
      (BlockList.blockUser s u).tok = s.tok ∧ (BlockList.unblockUser s u).tok = s.tok) ∧
    AllowList.allowUser (AllowList.allowUser s u) u = AllowList.allowUser s u ∧
    AllowList.disallowUser (AllowList.disallowUser s u) u = AllowList.disallowUser s u ∧
    BlockList.blockUser (BlockList.blockUser s u) u = BlockList.blockUser s u ∧
    BlockList.unblockUser (BlockList.unblockUser s u) u = BlockList.unblockUser s u := by
  unfold AllowList.allowed BlockList.blocked AllowList.allowUser AllowList.disallowUser
    BlockList.blockUser BlockList.unblockUser
  cases hl : s.listed u <;> simp [hl, upd] <;> intro a ha <;> simp [ha]

/-- immediacy seen from the entry points: right after an accepted `disallow_user(u)` resp.
`block_user(u)`, every call of the example that must vet `u` is refused; right after
`allow_user` / `unblock_user` the list no longer stands in the way of `u` -/
theorem list_change_immediate_example (c : Cfg) (s s1 : LEx) (a1 a2 : List Nat) (u operator : Nat)
    (o : Fungible.Op) (hu : u ∈ vetted o) :
    (AEx.apply c s a1 (.setList u false operator) = .ok s1 → ∀ s2, AEx.apply c s1 a2 (.tok o) ≠ .ok s2) ∧
    (BEx.apply c s a1 (.setList u true operator) = .ok s1 → ∀ s2, BEx.apply c s1 a2 (.tok o) ≠ .ok s2) ∧
    (AEx.apply c s a1 (.setList u true operator) = .ok s1 → AllowList.allowed s1.t u = true) ∧
    (BEx.apply c s a1 (.setList u false operator) = .ok s1 → BlockList.blocked s1.t u = false) := by
  have li := list_change_immediate_idempotent s.t u
  refine ⟨?_, ?_, ?_, ?_⟩
  · intro h s2 h2
    obtain ⟨_, _, h⟩ := bind_eq_ok h
    injection h with h; subst h
    have := allowlist_gates_example c _ s2 a2 o h2 u hu
    rw [li.2.1] at this; cases this
  · intro h s2 h2
    obtain ⟨_, _, h⟩ := bind_eq_ok h
    injection h with h; subst h
    have := blocklist_gates_example c _ s2 a2 o h2 u hu
    rw [li.2.2.1] at this; cases this
  · intro h
    obtain ⟨_, _, h⟩ := bind_eq_ok h
    injection h with h; subst h
    exact li.1
  · intro h
    obtain ⟨_, _, h⟩ := bind_eq_ok h
    injection h with h; subst h
    exact li.2.2.2.1

/-! ### the defect of the unfixed example (DESIGN.md section 8, #5), kept as a regression -/

def demoCfg : Cfg := ⟨1, 200000⟩

/-- admin 0 (allowed by the constructor) holds 1000; manager 1 allows user 2; 2 receives 100 and
approves 3 for 50; the manager disallows 2 -/
def demoAllowOps : List (List Nat × LOp) :=
  [([1], .setList 2 true 1), ([0], .tok (.transfer 0 2 100)), ([2], .tok (.approve 2 3 50 5000)),
   ([1], .setList 2 false 1)]

def isOk {ε α} : Except ε α → Bool
  | .ok _ => true
  | .error _ => false

def demoAllowState : Option LEx :=
  match AEx.construct 100 0 1 1000 with
  | .ok s => some (runWith (AEx.apply demoCfg) s demoAllowOps)
  | .error _ => none

/-- with the legacy wiring (`impl FungibleBurnable for ExampleContract {}` = `Base::burn*`) the
statement of `allowlist_gates_example` is FALSE: after the history above the disallowed
holder 2 burns, and spender 3 burns from 2 -/
theorem allowlist_gates_example_counterexample :
    ∃ s : LEx, demoAllowState = some s ∧ AllowList.allowed s.t 2 = false ∧ s.t.tok.bal 2 = 100 ∧
      2 ∈ vetted (.burn 2 40) ∧ 2 ∈ vetted (.burnFrom 3 2 30) ∧
      isOk (AEx.applyLegacy demoCfg s [2] (.tok (.burn 2 40))) = true ∧
      isOk (AEx.applyLegacy demoCfg s [3] (.tok (.burnFrom 3 2 30))) = true ∧
      -- the fixed wiring refuses both
      isOk (AEx.apply demoCfg s [2] (.tok (.burn 2 40))) = false ∧
      isOk (AEx.apply demoCfg s [3] (.tok (.burnFrom 3 2 30))) = false := by
  refine ⟨(demoAllowState.get (by decide)), by simp, ?_⟩
  decide

/-! ## Cap -/

/-- **cap_never_exceeded**, one step: a mint that passed `check_cap` leaves the supply at or
below the cap, and `check_cap` refuses any amount whose sum with the supply leaves i128 -/
theorem check_cap_then_mint (s : CTok) (cap : Int) (hc : s.cap = some cap) (to : Nat) (amt : Int)
    (t' : Fungible.State) (h1 : checkCap s amt = .ok ()) (h2 : Fungible.mint s.tok to amt = .ok t') :
    t'.supply = s.tok.supply + amt ∧ t'.supply ≤ cap ∧ in128 (s.tok.supply + amt) := by
  unfold checkCap queryCap at h1
  rw [hc] at h1
  simp only [bind_ok] at h1
  unfold checkAgainst at h1
  split at h1
  · cases h1
  · rename_i hin
    split at h1
    · cases h1
    · rename_i hle
      obtain ⟨s1, hu, h⟩ := bind_eq_ok h2
      injection h with h; subst h
      obtain ⟨-, hs, -⟩ := update_supply hu
      simp at hs
      simp only [emit]
      exact ⟨hs, by omega, Decidable.of_not_not hin⟩

/-- overflow is refused before anything is written -/
theorem check_cap_overflow_refused (s : CTok) (amt : Int) (h : ¬ in128 (s.tok.supply + amt)) :
    checkCap s amt ≠ .ok () := by
  intro hc
  obtain ⟨cap, _, h2⟩ := bind_eq_ok hc
  unfold checkAgainst at h2
  rw [if_pos h] at h2
  cases h2

/-- `set_cap` refuses a negative cap; `check_cap` refuses when no cap was set -/
theorem cap_must_be_set (s : CTok) (cap amt : Int) :
    (cap < 0 → setCap s cap = .error .gate) ∧ (s.cap = none → checkCap s amt = .error .gate) := by
  constructor
  · intro h; simp [setCap, h]
  · intro h; simp [checkCap, queryCap, h, bind_error]

/-- **cap_never_exceeded**, all histories: on the capped example contract, deployed with any
cap, after ANY finite list of calls (mints of arbitrary amounts to anybody, transfers,
approvals, allowance transfers, ledger movement, arbitrary authorizations) the cap is still
the one set at deployment and `total_supply ≤ cap` -/
theorem cap_never_exceeded (c : Cfg) (now : Nat) (cap : Int) (s0 : CTok)
    (h0 : CTok.construct now cap = .ok s0) (ops : List (List Nat × Fungible.Op)) :
    (runWith (CTok.apply c) s0 ops).cap = some cap ∧
    (runWith (CTok.apply c) s0 ops).tok.supply ≤ cap := by
  have hinit : s0.cap = some cap ∧ s0.tok.supply ≤ cap := by
    unfold CTok.construct setCap at h0
    split at h0
    · cases h0
    · injection h0 with h0; subst h0; exact ⟨rfl, by simp [Fungible.init]; omega⟩
  clear h0
  induction ops generalizing s0 with
  | nil => exact hinit
  | cons x xs ih =>
    simp only [runWith, List.foldl_cons]
    apply ih
    unfold stepWith
    cases hx : CTok.apply c s0 x.1 x.2 with
    | error e => exact hinit
    | ok s1 =>
      simp only
      rcases x with ⟨auth, o⟩
      cases o with
      | mint to amt =>
        simp only [CTok.apply] at hx
        obtain ⟨u, hcc, h⟩ := bind_eq_ok hx
        obtain ⟨t, ht, e⟩ := ctok_withTok_ok h
        subst e
        exact ⟨hinit.1, (check_cap_then_mint s0 cap hinit.1 to amt t hcc ht).2.1⟩
      | burn f amt => simp only [CTok.apply] at hx; cases hx
      | burnFrom sp f amt => simp only [CTok.apply] at hx; cases hx
      | transfer f t amt =>
        simp only [CTok.apply] at hx
        obtain ⟨t', ht, e⟩ := ctok_withTok_ok hx
        subst e
        exact ⟨hinit.1, by simp only; rw [apply_supply_nonmint (by trivial) ht]; exact hinit.2⟩
      | transferFrom sp f t amt =>
        simp only [CTok.apply] at hx
        obtain ⟨t', ht, e⟩ := ctok_withTok_ok hx
        subst e
        exact ⟨hinit.1, by simp only; rw [apply_supply_nonmint (by trivial) ht]; exact hinit.2⟩
      | approve ow sp amt lu =>
        simp only [CTok.apply] at hx
        obtain ⟨t', ht, e⟩ := ctok_withTok_ok hx
        subst e
        exact ⟨hinit.1, by simp only; rw [apply_supply_nonmint (by trivial) ht]; exact hinit.2⟩
      | advance n =>
        simp only [CTok.apply] at hx
        obtain ⟨t', ht, e⟩ := ctok_withTok_ok hx
        subst e
        exact ⟨hinit.1, by simp only; rw [apply_supply_nonmint (by trivial) ht]; exact hinit.2⟩

/-! ## Migration flag -/

/-- operations that arm the flag: `enable_migration` itself and the derived `upgrade` -/
def Mig.Op.arms : Mig.Op → Bool
  | .enable => true
  | .upgrade _ _ => true
  | _ => false

/-- one accepted `migrate`: the flag was set, the operator is the authorizing owner, and the
flag is cleared afterwards — so a second `migrate` right after it is refused, whoever calls -/
theorem migrate_consumes_flag (s s' : Mig) (auth : List Nat) (d : Nat × Nat) (operator : Nat)
    (h : Mig.migrate s auth d operator = .ok s') :
    s.migrating = true ∧ s'.migrating = false ∧ operator = s.owner ∧ operator ∈ auth ∧
    s'.data = some d ∧ ∀ a2 d2 o2 s2, Mig.migrate s' a2 d2 o2 ≠ .ok s2 := by
  obtain ⟨_, ha, h⟩ := bind_eq_ok h
  obtain ⟨_, he, h⟩ := bind_eq_ok h
  injection h with h; subst h
  obtain ⟨_, hr, ho⟩ := bind_eq_ok ha
  have hm : s.migrating = true := by
    unfold ensureCanCompleteMigration canCompleteMigration at he
    split at he
    · cases he
    · rename_i hn; simpa using hn
  have hop : operator = s.owner := by
    split at ho
    · cases ho
    · rename_i hne; exact Decidable.of_not_not hne
  refine ⟨hm, rfl, hop, requireAuth_ok hr, rfl, ?_⟩
  intro a2 d2 o2 s2 h2
  obtain ⟨_, _, h2⟩ := bind_eq_ok h2
  obtain ⟨_, he2, _⟩ := bind_eq_ok h2
  simp [ensureCanCompleteMigration, canCompleteMigration, completeMigration, Mig.userMigrate] at he2

/-- an accepted `upgrade` (owner-authorized) arms the flag, and the owner's `migrate` is then
accepted — exactly once by `migrate_consumes_flag` -/
theorem upgrade_enables_one_migration (s s' : Mig) (auth : List Nat) (hash operator : Nat)
    (h : Mig.upgrade s auth hash operator = .ok s') :
    s'.migrating = true ∧ operator = s.owner ∧ operator ∈ auth ∧
    ∀ d, ∃ s2, Mig.migrate s' [s'.owner] d s'.owner = .ok s2 := by
  obtain ⟨_, ha, h⟩ := bind_eq_ok h
  injection h with h; subst h
  obtain ⟨_, hr, ho⟩ := bind_eq_ok ha
  have hop : operator = s.owner := by
    split at ho
    · cases ho
    · rename_i hne; exact Decidable.of_not_not hne
  refine ⟨rfl, hop, requireAuth_ok hr, ?_⟩
  intro d
  exact ⟨_, migrate_by_owner _ rfl d⟩

/-- number of accepted `migrate` calls and of accepted arming calls (`enable_migration`,
`upgrade`) along a history, with the final state -/
def Mig.tally (s : Mig) : List (List Nat × Mig.Op) → Mig × Nat × Nat
  | [] => (s, 0, 0)
  | x :: xs =>
    match Mig.apply s x.1 x.2 with
    | .error _ => Mig.tally s xs
    | .ok s' =>
      let r := Mig.tally s' xs
      (r.1, r.2.1 + (match x.2 with | .migrate _ _ => 1 | _ => 0), r.2.2 + (if x.2.arms then 1 else 0))

/-- **migrate_once_per_upgrade**, all histories: from a state whose flag is clear (a freshly
deployed contract), for ANY finite list of calls, with any arguments and authorizations,

    #accepted migrate  +  (1 if the flag is still set)  ≤  #accepted enable/upgrade

i.e. every completed migration consumed its own upgrade, never more than one per upgrade and
never without one. -/
theorem migrate_once_per_upgrade (ops : List (List Nat × Mig.Op)) (s : Mig) (hs : s.migrating = false) :
    (Mig.tally s ops).2.1 + (if (Mig.tally s ops).1.migrating then 1 else 0) ≤ (Mig.tally s ops).2.2 := by
  -- generalized: starting flag counted on the right
  suffices ∀ s : Mig, (Mig.tally s ops).2.1 + (if (Mig.tally s ops).1.migrating then 1 else 0) ≤
      (Mig.tally s ops).2.2 + (if s.migrating then 1 else 0) by
    have := this s; rw [hs] at this; simpa using this
  clear hs s
  induction ops with
  | nil => intro s; simp only [Mig.tally]; by_cases h : s.migrating = true <;> simp [h]
  | cons x xs ih =>
    intro s
    rw [Mig.tally]
    cases hx : Mig.apply s x.1 x.2 with
    | error e => exact ih s
    | ok s' =>
      simp only
      have := ih s'
      rcases x with ⟨auth, o⟩
      cases o with
      | enable =>
        injection hx with hx; subst hx
        simp only [Mig.Op.arms, enableMigration] at this ⊢
        by_cases hm : s.migrating = true <;> simp [hm] at this ⊢ <;> omega
      | ensure =>
        obtain ⟨_, _, h⟩ := bind_eq_ok hx
        injection h with h; subst h
        simp only [Mig.Op.arms] at this ⊢
        simp at this ⊢; exact this
      | complete =>
        injection hx with hx; subst hx
        simp only [Mig.Op.arms, completeMigration] at this ⊢
        by_cases hm : s.migrating = true <;> simp [hm] at this ⊢ <;> omega
      | migrate d operator =>
        obtain ⟨h1, h2, -⟩ := migrate_consumes_flag s s' auth d operator hx
        rw [h2] at this
        rw [h1]
        simp [Mig.Op.arms] at this ⊢
        omega
      | upgrade hsh operator =>
        obtain ⟨h1, -⟩ := upgrade_enables_one_migration s s' auth hsh operator hx
        rw [h1] at this
        simp only [Mig.Op.arms] at this ⊢
        by_cases hm : s.migrating = true <;> simp [hm] at this ⊢ <;> omega

/-- **never without an upgrade**: from a clear flag, a history that contains no accepted arming
call (no `enable_migration`, no `upgrade`) completes no migration at all: the flag stays
clear and `_migrate` never runs (the stored data is untouched) -/
theorem no_migration_without_upgrade (ops : List (List Nat × Mig.Op)) (s : Mig)
    (hs : s.migrating = false) (hno : ∀ x ∈ ops, x.2.arms = false) :
    (runWith Mig.apply s ops).migrating = false ∧ (runWith Mig.apply s ops).data = s.data ∧
    (Mig.tally s ops).2.1 = 0 := by
  induction ops generalizing s with
  | nil => exact ⟨hs, rfl, rfl⟩
  | cons x xs ih =>
    have hx0 := hno x (by simp)
    have hxs : ∀ y ∈ xs, y.2.arms = false := fun y hy => hno y (by simp [hy])
    have hrun : runWith Mig.apply s (x :: xs) = runWith Mig.apply (stepWith Mig.apply s x) xs := rfl
    rw [hrun, Mig.tally]
    cases hx : Mig.apply s x.1 x.2 with
    | error e =>
      have h1 : stepWith Mig.apply s x = s := by simp only [stepWith, hx]
      rw [h1]; exact ih s hs hxs
    | ok s' =>
      have h1 : stepWith Mig.apply s x = s' := by simp only [stepWith, hx]
      rw [h1]
      simp only
      rcases x with ⟨auth, o⟩
      cases o with
      | enable => simp [Mig.Op.arms] at hx0
      | upgrade _ _ => simp [Mig.Op.arms] at hx0
      | ensure =>
        obtain ⟨_, he, _⟩ := bind_eq_ok hx
        simp [ensureCanCompleteMigration, canCompleteMigration, hs] at he
      | complete =>
        injection hx with hx; subst hx
        have := ih (completeMigration s) rfl hxs
        exact ⟨this.1, this.2.1, by simp only [Nat.add_zero]; exact this.2.2⟩
      | migrate d operator =>
        have := (migrate_consumes_flag s s' auth d operator hx).1
        rw [hs] at this; cases this

/-! ## non-vacuity (tests, labelled as such) -/

/-- a paused token with balances: the hypotheses of `paused_blocks` are met and the calls would
succeed if the contract were not paused -/
def demoPTok : Option PTok :=
  match PTok.construct 100 0 1000 with
  | .ok s => some (PTok.run demoCfg s [([0], .tok (.mint 1 500)), ([1], .tok (.approve 1 2 300 5000)),
      ([0], .pause 0)])
  | .error _ => none

example : ∃ s, demoPTok = some s ∧ s.p.paused = true ∧ s.tok.bal 1 = 500 ∧
    isOk (PTok.apply demoCfg s [1] (.tok (.transfer 1 3 10))) = false ∧
    isOk (PTok.apply demoCfg { s with p := { s.p with paused := false } } [1] (.tok (.transfer 1 3 10))) = true ∧
    isOk (PTok.apply demoCfg s [1] (.tok (.approve 1 2 5 5000))) = true ∧
    isOk (PTok.apply demoCfg s [0] (.unpause 0)) = true ∧
    isOk (PTok.apply demoCfg s [1] (.unpause 1)) = false := by
  refine ⟨demoPTok.get (by decide), by simp, ?_⟩
  decide

/-- list matrix on the library types: an allowed pair transfers, a disallowed / blocked party
is refused in each vetted position -/
example :
    let s : LTok := runWith (ALib.apply demoCfg) (LTok.empty 100)
      [([], .tok (.mint 0 1000)), ([], .setList 0 true 9), ([], .setList 1 true 9), ([0], .tok (.approve 0 2 50 5000))]
    isOk (ALib.apply demoCfg s [0] (.tok (.transfer 0 1 10))) = true ∧
    isOk (ALib.apply demoCfg s [0] (.tok (.transfer 0 2 10))) = false ∧
    isOk (ALib.apply demoCfg s [2] (.tok (.transferFrom 2 0 1 10))) = true ∧
    isOk (ALib.apply demoCfg s [2] (.tok (.transferFrom 2 0 2 10))) = false ∧
    isOk (ALib.apply demoCfg s [0] (.tok (.burn 0 10))) = true ∧
    isOk (ALib.apply demoCfg (AllowList.disallowUser s 0) [0] (.tok (.burn 0 10))) = false ∧
    isOk (ALib.apply demoCfg (AllowList.disallowUser s 0) [2] (.tok (.burnFrom 2 0 10))) = false := by
  decide

example :
    let s : LTok := runWith (BLib.apply demoCfg) (LTok.empty 100)
      [([], .tok (.mint 0 1000)), ([], .setList 3 true 9), ([0], .tok (.approve 0 2 50 5000))]
    isOk (BLib.apply demoCfg s [0] (.tok (.transfer 0 1 10))) = true ∧
    isOk (BLib.apply demoCfg s [0] (.tok (.transfer 0 3 10))) = false ∧
    isOk (BLib.apply demoCfg s [2] (.tok (.transferFrom 2 0 3 10))) = false ∧
    isOk (BLib.apply demoCfg (BlockList.blockUser s 0) [0] (.tok (.approve 0 1 10 5000))) = false ∧
    isOk (BLib.apply demoCfg (BlockList.blockUser s 0) [2] (.tok (.burnFrom 2 0 10))) = false ∧
    isOk (BLib.apply demoCfg (BlockList.unblockUser (BlockList.blockUser s 0) 0) [2] (.tok (.burnFrom 2 0 10))) = true := by
  decide

/-- cap 1000: 600 + 400 reaches the cap exactly, one more unit is refused, as is an amount
that would overflow i128; the hypotheses of `cap_never_exceeded` are met -/
example : ∃ s0, CTok.construct 100 1000 = .ok s0 ∧
    (runWith (CTok.apply demoCfg) s0 [([], .mint 1 600), ([], .mint 2 401), ([], .mint 2 400),
      ([], .mint 3 1), ([], .mint 3 I128_MAX), ([1], .transfer 1 4 100)]).tok.supply = 1000 := by
  refine ⟨_, rfl, ?_⟩
  decide

/-- enable → migrate (accepted) → migrate (refused) → upgrade → migrate (accepted): tally 2 ≤ 2 -/
example : (Mig.tally (Mig.init 0)
    [([0], .migrate (1, 2) 0), ([], .enable), ([1], .migrate (1, 2) 1), ([0], .migrate (3, 4) 0),
     ([0], .migrate (5, 6) 0), ([0], .upgrade 7 0), ([0], .upgrade 7 0), ([0], .migrate (7, 8) 0),
     ([0], .migrate (9, 10) 0)]).2 = (2, 3) := by decide

end OZ.Gates
