import OZ.Lemmas.FeeForwarder
/-
C19 — Fee forwarding charges at most the authorized fee for the authorized call only.

Property theorems only. The model (OZ/Model/FeeForwarder.lean) mirrors
packages/fee-abstraction/src/storage.rs and the `forward` entry points of the two
fee-forwarder examples; the fee token is the library `Base` token (OZ/Model/Fungible.lean).

All statements are universally quantified over the configuration (`Params`: ledger
parameters, forwarder address, role members), the state (any allow-list, any token states,
any ledger), the call (`Call`: token, fee, max fee, expiration, target, function,
arguments — arbitrary `Int`/`Nat`), the user, the fee recipient, the approval strategy, the
target's behaviour and the authorization presented; the allow-list theorems over all finite
histories of allow / disallow operations.
-/
namespace OZ.FeeForwarder
open OZ.Host

/-! ### 1. a forward succeeds only with the user's authorization of exactly this call -/

/-- **success ⇒ the user authorized exactly that tuple** (fee token, maximum fee,
expiration ledger, target contract, function, arguments), and — whenever the forwarder
approves on the user's behalf / the target demands it — the nested `approve(user, forwarder,
max, expiration)` resp. the nested target call -/
theorem forward_requires_exact_user_auth {p : Params} {s s' : State} {au : Auth} {c : Call}
    {user rcp : Nat} {ap : Approval} {tgt : Target}
    (h : collectFeeAndInvoke p s au c user rcp ap tgt = .ok s') :
    ∃ ua, au.user = some ua ∧ ua.signer = user ∧
      ua.tuple = ⟨c.token, c.maxFee, c.expiration, c.target, c.fn, c.args⟩ ∧
      ((ap = .eager ∨ OZ.Fungible.allowance (tokAt s c.token) user p.self < c.maxFee) →
        approveInv p c.token user c.maxFee c.expiration ∈ ua.subs) ∧
      (tgt = .needsUser → targetInv c ∈ ua.subs) := by
  obtain ⟨hu, s1, h1, _, ht, _⟩ := collectFeeAndInvoke_ok h
  obtain ⟨ua, hua, hs, htp⟩ := (userSigned_iff _ _ _).mp hu
  refine ⟨ua, hua, hs, htp, ?_, ?_⟩
  · intro hap
    obtain ⟨hsub, _⟩ := (collectFee_ok h1).2.2.2.2.2.1 hap
    obtain ⟨ua', hua', _, hm⟩ := (subSigned_iff _ _ _).mp hsub
    rw [hua] at hua'; injection hua' with e; subst e; exact hm
  · intro hn
    obtain ⟨ua', hua', _, hm⟩ := (subSigned_iff _ _ _).mp (ht hn)
    rw [hua] at hua'; injection hua' with e; subst e; exact hm

/-- contrapositive, component by component: an authorization that differs from the call in
the signer or in ANY of the six components makes the forward fail -/
theorem forward_rejects_other_authorization {p : Params} {s : State} {au : Auth} {c : Call}
    {user rcp : Nat} {ap : Approval} {tgt : Target}
    (hd : ∀ ua, au.user = some ua →
      ua.signer ≠ user ∨ ua.tuple.token ≠ c.token ∨ ua.tuple.maxFee ≠ c.maxFee ∨
      ua.tuple.expiration ≠ c.expiration ∨ ua.tuple.target ≠ c.target ∨ ua.tuple.fn ≠ c.fn ∨
      ua.tuple.args ≠ c.args) :
    ∃ e, collectFeeAndInvoke p s au c user rcp ap tgt = .error e := by
  cases hr : collectFeeAndInvoke p s au c user rcp ap tgt with
  | error e => exact ⟨e, rfl⟩
  | ok s' =>
    obtain ⟨ua, hua, hs, htp, _, _⟩ := forward_requires_exact_user_auth hr
    have := hd ua hua
    rw [htp] at this
    simp [hs] at this

/-- the permissionless example: additionally the relayer's own authorization; the relayer
is the fee recipient and the strategy is eager -/
theorem forwardPL_requires {p : Params} {s s' : State} {au : Auth} {c : Call} {user relayer : Nat}
    {tgt : Target} (h : forwardPermissionless p s au c user relayer tgt = .ok s') :
    relayer ∈ au.plain ∧ collectFeeAndInvoke p s au c user relayer .eager tgt = .ok s' := by
  obtain ⟨_, h1, h⟩ := bind_ok h
  exact ⟨requireAuth_mem h1, h⟩

/-- the permissioned example: additionally the executor role and the relayer's own
authorization; the contract itself is the fee recipient and the strategy is lazy -/
theorem forwardPD_requires {p : Params} {s s' : State} {au : Auth} {c : Call} {user relayer : Nat}
    {tgt : Target} (h : forwardPermissioned p s au c user relayer tgt = .ok s') :
    relayer ∈ p.executors ∧ relayer ∈ au.plain ∧
    collectFeeAndInvoke p s au c user p.self .lazy tgt = .ok s' := by
  obtain ⟨_, h0, h⟩ := bind_ok h
  obtain ⟨_, h1, h⟩ := bind_ok h
  exact ⟨ensureRole_mem h0, requireAuth_mem h1, h⟩

/-! ### 2. it charges exactly the fee, which is positive and at most the maximum -/

/-- **success ⇒** `0 < fee ≤ max`, the user is not the forwarder, the fee token's balances
are the old ones with `fee` debited from the user and then credited to the recipient, its
supply is unchanged, no other token is touched, the only allowance that may change is
user → forwarder, the allow-list and the ledger are unchanged -/
theorem charges_exactly_fee {p : Params} {s s' : State} {au : Auth} {c : Call}
    {user rcp : Nat} {ap : Approval} {tgt : Target}
    (h : collectFeeAndInvoke p s au c user rcp ap tgt = .ok s') :
    0 < c.fee ∧ c.fee ≤ c.maxFee ∧ user ≠ p.self ∧ c.fee ≤ (s.toks c.token).bal user ∧
    (s'.toks c.token).bal =
      upd (upd (s.toks c.token).bal user ((s.toks c.token).bal user - c.fee)) rcp
        ((upd (s.toks c.token).bal user ((s.toks c.token).bal user - c.fee)) rcp + c.fee) ∧
    (s'.toks c.token).supply = (s.toks c.token).supply ∧
    (∀ t, t ≠ c.token → s'.toks t = s.toks t) ∧
    (∀ x y, ¬ (x = user ∧ y = p.self) → (s'.toks c.token).allow x y = (s.toks c.token).allow x y) ∧
    s'.al = s.al ∧ s'.now = s.now := by
  obtain ⟨_, s1, h1, _, _, e⟩ := collectFeeAndInvoke_ok h
  subst e
  obtain ⟨_, hu, f0, fm, _, _, a1, a2, _, _, a5, a6, a7, a8, a9⟩ := collectFee_ok h1
  exact ⟨f0, fm, fun e => hu e.symm, a7, a8, a6, a5, a9, a1, a2⟩

/-- the usual case, user ≠ recipient: the user loses exactly `fee`, the recipient gains
exactly `fee`, nobody else's balance moves -/
theorem charge_distinct {p : Params} {s s' : State} {au : Auth} {c : Call}
    {user rcp : Nat} {ap : Approval} {tgt : Target} (hne : user ≠ rcp)
    (h : collectFeeAndInvoke p s au c user rcp ap tgt = .ok s') :
    (s'.toks c.token).bal user = (s.toks c.token).bal user - c.fee ∧
    (s'.toks c.token).bal rcp = (s.toks c.token).bal rcp + c.fee ∧
    (∀ x, x ≠ user → x ≠ rcp → (s'.toks c.token).bal x = (s.toks c.token).bal x) := by
  obtain ⟨_, _, _, _, hb, _⟩ := charges_exactly_fee h
  rw [hb]
  refine ⟨?_, ?_, ?_⟩
  · rw [upd_other _ _ _ _ hne, upd_same]
  · rw [upd_same, upd_other _ _ _ _ (Ne.symm hne)]
  · intro x hx hr; rw [upd_other _ _ _ _ hr, upd_other _ _ _ _ hx]

/-- user = recipient (possible in the permissionless example when the user relays for
himself): debit and credit cancel, no balance moves at all -/
theorem charge_self_recipient {p : Params} {s s' : State} {au : Auth} {c : Call}
    {user : Nat} {ap : Approval} {tgt : Target}
    (h : collectFeeAndInvoke p s au c user user ap tgt = .ok s') :
    ∀ x, (s'.toks c.token).bal x = (s.toks c.token).bal x := by
  obtain ⟨_, _, _, _, hb, _⟩ := charges_exactly_fee h
  intro x
  rw [hb]
  by_cases hx : x = user
  · subst hx; rw [upd_same, upd_same]; omega
  · rw [upd_other _ _ _ _ hx, upd_other _ _ _ _ hx]

/-- the collected fee is announced: exactly one `FeeCollected(user, recipient, token, fee)`
followed by one `ForwardExecuted(user, target, fn, args)` -/
theorem forward_events {p : Params} {s s' : State} {au : Auth} {c : Call}
    {user rcp : Nat} {ap : Approval} {tgt : Target}
    (h : collectFeeAndInvoke p s au c user rcp ap tgt = .ok s') :
    s'.events = s.events ++ [.feeCollected user rcp c.token c.fee,
                             .forwardExecuted user c.target c.fn c.args] := by
  obtain ⟨_, s1, h1, _, _, e⟩ := collectFeeAndInvoke_ok h
  subst e
  have := (collectFee_ok h1).2.2.2.2.2.2.2.2.2.1
  simp [emit, logCall, this]

/-! ### 3. it invokes exactly that target call once -/

theorem target_invoked_once {p : Params} {s s' : State} {au : Auth} {c : Call}
    {user rcp : Nat} {ap : Approval} {tgt : Target}
    (h : collectFeeAndInvoke p s au c user rcp ap tgt = .ok s') :
    s'.calls = s.calls ++ [⟨c.target, c.fn, c.args⟩] ∧ tgt ≠ .fail := by
  obtain ⟨_, s1, h1, hf, _, e⟩ := collectFeeAndInvoke_ok h
  subst e
  have := (collectFee_ok h1).2.2.2.2.2.2.2.2.1
  exact ⟨by simp [emit, logCall, this, targetInv], hf⟩

/-! ### 4. atomicity: if any step fails nothing persists -/

/-- a failing invocation leaves the whole world (every token, the allow-list, the target's
call log, the events) exactly as it was: this is how `step` is defined (host rollback); the
correspondence check observes it on the real host after every failed call -/
theorem atomic (p : Params) (s : State) (au : Auth) (op : Op) (e : Err)
    (h : apply p s au op = .error e) : step p s (au, op) = s := by
  simp [step, h]

/-- a failing target makes the whole forward fail — so by `atomic` the fee that was already
transferred and the allowance that was already set do not persist -/
theorem target_failure_fails_forward (p : Params) (s : State) (au : Auth) (c : Call)
    (user rcp : Nat) (ap : Approval) :
    ∃ e, collectFeeAndInvoke p s au c user rcp ap .fail = .error e := by
  cases hr : collectFeeAndInvoke p s au c user rcp ap .fail with
  | error e => exact ⟨e, rfl⟩
  | ok s' => exact absurd rfl (target_invoked_once hr).2

theorem target_failure_reverts_fee (p : Params) (s : State) (au : Auth) (c : Call)
    (user relayer : Nat) :
    step p s (au, .forwardPL c user relayer .fail) = s ∧
    step p s (au, .forwardPD c user relayer .fail) = s := by
  constructor
  · cases hr : apply p s au (.forwardPL c user relayer .fail) with
    | error e => exact atomic _ _ _ _ _ hr
    | ok s' => exact absurd rfl (target_invoked_once (forwardPL_requires hr).2).2
  · cases hr : apply p s au (.forwardPD c user relayer .fail) with
    | error e => exact atomic _ _ _ _ _ hr
    | ok s' => exact absurd rfl (target_invoked_once (forwardPD_requires hr).2.2).2

/-- all or nothing: after a forward through either example the world is either untouched
or the fee is charged AND the target call is logged AND the user had authorized it -/
theorem forward_all_or_nothing (p : Params) (s : State) (au : Auth) (c : Call)
    (user rcp : Nat) (ap : Approval) (tgt : Target) :
    step p s (au, .forwardLib c user rcp ap tgt) = s ∨
    (let s' := step p s (au, .forwardLib c user rcp ap tgt)
     s'.calls = s.calls ++ [⟨c.target, c.fn, c.args⟩] ∧
     (s'.toks c.token).bal =
        upd (upd (s.toks c.token).bal user ((s.toks c.token).bal user - c.fee)) rcp
          ((upd (s.toks c.token).bal user ((s.toks c.token).bal user - c.fee)) rcp + c.fee) ∧
     userSigned au user (tupleOf c) = true) := by
  cases hr : apply p s au (.forwardLib c user rcp ap tgt) with
  | error e => exact .inl (atomic _ _ _ _ _ hr)
  | ok s' =>
    right
    have hs : step p s (au, .forwardLib c user rcp ap tgt) = s' := by simp [step, hr]
    rw [hs]
    exact ⟨(target_invoked_once hr).1, (charges_exactly_fee hr).2.2.2.2.1, (collectFeeAndInvoke_ok hr).1⟩

/-! ### 5. a fee token is accepted only if the allow-list is empty or contains it -/

/-- the code's exact rule -/
theorem token_accepted_iff (al : AllowList) (t : Nat) :
    isAllowedFeeToken al t = true ↔ al.count = 0 ∨ (al.indexOf t).isSome = true := by
  unfold isAllowedFeeToken
  by_cases hc : al.count > 0
  · rw [if_pos hc]; constructor
    · intro h; exact .inr h
    · rintro (h | h)
      · omega
      · exact h
  · rw [if_neg hc]; simp; omega

/-- … in terms of the enumeration, for every well-formed (= every reachable) allow-list -/
theorem token_accepted_iff_enumerated {al : AllowList} (w : WF al) (t : Nat) :
    isAllowedFeeToken al t = true ↔ enumerate al = [] ∨ t ∈ enumerate al := by
  rw [token_accepted_iff, enumerate_nil_iff w, mem_enumerate w]

theorem forward_only_accepted_token {p : Params} {s s' : State} {au : Auth} {c : Call}
    {user rcp : Nat} {ap : Approval} {tgt : Target} (w : WF s.al)
    (h : collectFeeAndInvoke p s au c user rcp ap tgt = .ok s') :
    enumerate s.al = [] ∨ c.token ∈ enumerate s.al := by
  obtain ⟨_, s1, h1, _⟩ := collectFeeAndInvoke_ok h
  exact (token_accepted_iff_enumerated w _).mp (collectFee_ok h1).1

/-! ### 6. the allow-list's enumeration is the set of tokens allowed and not since removed -/

/-- under the invariant the `count - 1` and the `.expect("last token to be present")` of the
swap-and-pop can never panic -/
theorem disallow_never_panics {al : AllowList} (w : WF al) (t : Nat) :
    disallowToken al t ≠ .error .panic := by
  cases hi : al.indexOf t with
  | none => unfold disallowToken; rw [hi]; simp
  | some ri => rw [disallow_spec w hi]; simp

/-- allowing is accepted iff the token is not yet in the list (duplicates refused) -/
theorem allow_accepted_iff {al : AllowList} (w : WF al) (hb : al.count < U32_MAX) (t : Nat) :
    (∃ al', allowToken al t = .ok al') ↔ t ∉ enumerate al := by
  rw [mem_enumerate w]
  constructor
  · rintro ⟨al', h⟩
    rw [(allowToken_ok h).1]; simp
  · intro h
    have hn : al.indexOf t = none := by
      cases hi : al.indexOf t with
      | none => rfl
      | some _ => rw [hi] at h; simp at h
    exact ⟨_, allowToken_spec hn (by omega)⟩

/-- disallowing is accepted iff the token is in the list (absent refused) -/
theorem disallow_accepted_iff {al : AllowList} (w : WF al) (t : Nat) :
    (∃ al', disallowToken al t = .ok al') ↔ t ∈ enumerate al := by
  rw [mem_enumerate w]
  constructor
  · rintro ⟨al', h⟩
    obtain ⟨ri, hi⟩ := disallowToken_ok h
    rw [hi]; rfl
  · intro h
    cases hi : al.indexOf t with
    | none => rw [hi] at h; cases h
    | some ri => exact ⟨_, disallow_spec w hi⟩

/-- one step of the allow-list machine refines one step of the plain set -/
theorem alStep_refines {al : AllowList} {S : Nat → Bool} (w : WF al)
    (hS : ∀ t, (al.indexOf t).isSome = true ↔ S t = true) (x : Nat × Bool)
    (hb : al.count + 1 ≤ U32_MAX) :
    WF (alStep al x) ∧ (alStep al x).count ≤ al.count + 1 ∧
    (∀ t, ((alStep al x).indexOf t).isSome = true ↔ specStep S x t = true) := by
  obtain ⟨t, a⟩ := x
  cases a with
  | true =>
    cases hi : al.indexOf t with
    | none =>
      have hsp := allowToken_spec hi hb
      have : alStep al (t, true) = { count := al.count + 1, tokenAt := upd al.tokenAt al.count (some t),
                                     indexOf := upd al.indexOf t (some al.count) } := by
        simp only [alStep, setAllowed, if_true]; rw [hsp]
      rw [this]
      refine ⟨allow_wf w hi hb, Nat.le_refl _, ?_⟩
      intro x
      dsimp only [specStep]
      by_cases hx : x = t
      · subst hx; rw [upd_same, if_pos rfl]; simp
      · rw [upd_other _ _ _ _ hx, if_neg hx]; exact hS x
    | some i =>
      have : alStep al (t, true) = al := by
        simp only [alStep, setAllowed, if_true, allowToken, hi, Option.isSome_some]
      rw [this]
      refine ⟨w, by omega, ?_⟩
      intro x
      dsimp only [specStep]
      by_cases hx : x = t
      · subst hx; rw [if_pos rfl, hi]; simp
      · rw [if_neg hx]; exact hS x
  | false =>
    cases hi : al.indexOf t with
    | some ri =>
      have hsp := disallow_spec w hi
      have : alStep al (t, false) = removed al t ri := by
        simp only [alStep, setAllowed]; rw [hsp]; rfl
      rw [this]
      obtain ⟨w', hc, hm⟩ := removed_wf w hi
      refine ⟨w', by omega, ?_⟩
      intro x
      dsimp only [specStep]
      rw [hm x]
      by_cases hx : x = t
      · subst hx; rw [if_pos rfl]; simp
      · rw [if_neg hx]; exact ⟨fun h => (hS x).mp h.2, fun h => ⟨hx, (hS x).mpr h⟩⟩
    | none =>
      have : alStep al (t, false) = al := by
        simp only [alStep, setAllowed, disallowToken, hi]; rfl
      rw [this]
      refine ⟨w, by omega, ?_⟩
      intro x
      dsimp only [specStep]
      by_cases hx : x = t
      · subst hx; rw [if_pos rfl, hi]; simp
      · rw [if_neg hx]; exact hS x

theorem alRun_refines (ops : List (Nat × Bool)) : ∀ (al : AllowList) (S : Nat → Bool), WF al →
    (∀ t, (al.indexOf t).isSome = true ↔ S t = true) → al.count + ops.length ≤ U32_MAX →
    WF (alRun al ops) ∧ (∀ t, ((alRun al ops).indexOf t).isSome = true ↔ specRun S ops t = true) := by
  induction ops with
  | nil => intro al S w hS _; exact ⟨w, hS⟩
  | cons x xs ih =>
    intro al S w hS hb
    simp only [List.length_cons] at hb
    obtain ⟨w', hc, hS'⟩ := alStep_refines w hS x (by omega)
    simp only [alRun, specRun, List.foldl_cons]
    exact ih _ _ w' hS' (by omega)

/-- **after any allow / disallow history** (from the empty list; fewer than 2³² operations):
the enumeration `Token(0) … Token(count-1)` has no duplicates, has exactly `count` entries,
contains exactly the tokens allowed and not since removed, `Token` and `TokenIndex` are
mutually inverse, and exactly the indices below `count` are occupied (no gaps, no stale
entries) -/
theorem allowlist_refines_set (ops : List (Nat × Bool)) (hlen : ops.length ≤ U32_MAX) :
    (enumerate (alRun AllowList.empty ops)).Nodup ∧
    (enumerate (alRun AllowList.empty ops)).length = (alRun AllowList.empty ops).count ∧
    (∀ t, t ∈ enumerate (alRun AllowList.empty ops) ↔ specRun (fun _ => false) ops t = true) ∧
    (∀ i t, (alRun AllowList.empty ops).tokenAt i = some t ↔ (alRun AllowList.empty ops).indexOf t = some i) ∧
    (∀ i, i < (alRun AllowList.empty ops).count ↔ ((alRun AllowList.empty ops).tokenAt i).isSome = true) := by
  obtain ⟨w, hS⟩ := alRun_refines ops AllowList.empty (fun _ => false) wf_empty
    (by intro t; simp [AllowList.empty]) (by simpa [AllowList.empty] using hlen)
  refine ⟨enumerate_nodup w, enumerate_length w, ?_, ?_, ?_⟩
  · intro t; rw [mem_enumerate w]; exact hS t
  · intro i t; exact ⟨fun h => (w.fwd i t h).2, fun h => (w.bwd t i h).2⟩
  · intro i
    constructor
    · intro h; obtain ⟨t, ht⟩ := w.full i h; rw [ht]; rfl
    · intro h
      cases ht : (alRun AllowList.empty ops).tokenAt i with
      | none => rw [ht] at h; cases h
      | some t => exact (w.fwd i t ht).1

/-- in the whole world machine (forwards, sweeps, token operations, ledger movement
interleaved in any way, any authorizations) the allow-list stays well-formed, so
`token_accepted_iff_enumerated` and `disallow_never_panics` apply in every reachable state -/
theorem allowlist_wf_reachable (p : Params) (now : Nat) (ops : List (Auth × Op)) :
    WF (run p (init now) ops).al := by
  suffices ∀ s, WF s.al → WF (run p s ops).al from this _ wf_empty
  induction ops with
  | nil => intro s hs; exact hs
  | cons x xs ih =>
    intro s hs
    simp only [run, List.foldl_cons]
    apply ih
    unfold step
    cases hx : apply p s x.1 x.2 with
    | error e => exact hs
    | ok s' =>
      rcases apply_al hx with h | ⟨t, a, h⟩
      · dsimp only; rw [h]; exact hs
      · exact setAllowed_wf hs h

/-! ### 7. fee and expiry bounds are exact -/

theorem fee_bounds_exact (fee max : Int) :
    validateFeeBounds fee max = .ok () ↔ (0 < fee ∧ fee ≤ max) := by
  unfold validateFeeBounds
  constructor
  · intro h; split at h
    · cases h
    · omega
  · intro h; rw [if_neg (by omega)]

theorem expiry_check_exact (now exp : Nat) :
    validateExpirationLedger now exp = .ok () ↔ now ≤ exp := by
  unfold validateExpirationLedger
  constructor
  · intro h; split at h
    · cases h
    · omega
  · intro h; rw [if_neg (by omega)]

/-- a forward never succeeds with an expiration ledger in the past, whichever strategy and
whichever branch (token `approve` or the explicit check of the lazy no-approve branch); on
the approve branch the expiration is also bounded by the host's maximum lifetime -/
theorem forward_not_expired {p : Params} {s s' : State} {au : Auth} {c : Call}
    {user rcp : Nat} {ap : Approval} {tgt : Target}
    (h : collectFeeAndInvoke p s au c user rcp ap tgt = .ok s') :
    s.now ≤ c.expiration ∧
    ((ap = .eager ∨ OZ.Fungible.allowance (tokAt s c.token) user p.self < c.maxFee) →
      c.expiration ≤ p.cfg.maxLiveUntil s.now) := by
  obtain ⟨_, s1, h1, _⟩ := collectFeeAndInvoke_ok h
  obtain ⟨_, _, _, _, he, hap, _⟩ := collectFee_ok h1
  exact ⟨he, fun ha => (hap ha).2⟩


/-! ### 8. the allowance the code leaves behind, exactly -/

/-- **the stored allowance record user → forwarder after a successful forward, for both
strategies, exactly as the code leaves it**: if the forwarder approved (Eager always; Lazy when
the old allowance was below the maximum) the record is `{max_fee − fee, live_until = the quoted
expiration}`; otherwise (Lazy with a sufficient old allowance) it is the old record lowered by
`fee` with its old `live_until_ledger`. Every other allowance of the fee token reads as before,
and every other token is untouched. -/
theorem allowance_after_forward {p : Params} {s s' : State} {au : Auth} {c : Call}
    {user rcp : Nat} {ap : Approval} {tgt : Target}
    (h : collectFeeAndInvoke p s au c user rcp ap tgt = .ok s') :
    OZ.Fungible.allowanceData (tokAt s' c.token) user p.self =
      (if ap = .eager ∨ OZ.Fungible.allowance (tokAt s c.token) user p.self < c.maxFee
       then ⟨c.maxFee - c.fee, c.expiration⟩
       else ⟨(OZ.Fungible.allowanceData (tokAt s c.token) user p.self).amount - c.fee,
             (OZ.Fungible.allowanceData (tokAt s c.token) user p.self).liveUntilLedger⟩) ∧
    (∀ x y, ¬ (x = user ∧ y = p.self) →
      OZ.Fungible.allowanceData (tokAt s' c.token) x y = OZ.Fungible.allowanceData (tokAt s c.token) x y) ∧
    (∀ t, t ≠ c.token → tokAt s' t = tokAt s t) := by
  obtain ⟨_, s1, h1, _, _, e⟩ := collectFeeAndInvoke_ok h
  subst e
  obtain ⟨d1, _, _⟩ := collectFee_allowanceData h1
  obtain ⟨_, _, _, _, _, _, _, a2, _, _, a5, _, _, _, a9⟩ := collectFee_ok h1
  refine ⟨d1, ?_, ?_⟩
  · intro x y hxy
    exact OZ.Fungible.allowanceData_congr_entry (s := tokAt s c.token) (s' := tokAt s1 c.token)
      (a9 x y hxy) a2
  · intro t ht
    show ({ s1.toks t with now := s1.now } : OZ.Fungible.State) = { s.toks t with now := s.now }
    rw [a5 t ht, a2]

/-- the getter `allowance(user, forwarder)` after a successful forward -/
theorem allowance_getter_after_forward {p : Params} {s s' : State} {au : Auth} {c : Call}
    {user rcp : Nat} {ap : Approval} {tgt : Target}
    (h : collectFeeAndInvoke p s au c user rcp ap tgt = .ok s') :
    OZ.Fungible.allowance (tokAt s' c.token) user p.self =
      (if ap = .eager ∨ OZ.Fungible.allowance (tokAt s c.token) user p.self < c.maxFee
       then c.maxFee else OZ.Fungible.allowance (tokAt s c.token) user p.self) - c.fee ∧
    0 ≤ OZ.Fungible.allowance (tokAt s' c.token) user p.self := by
  obtain ⟨d, _, _⟩ := allowance_after_forward h
  obtain ⟨f0, fm, _⟩ := charges_exactly_fee h
  unfold OZ.Fungible.allowance at *
  rw [d]
  split
  · exact ⟨rfl, by dsimp only; omega⟩
  · rename_i hn
    refine ⟨rfl, ?_⟩
    have : ¬ (OZ.Fungible.allowanceData (tokAt s c.token) user p.self).amount < c.maxFee :=
      fun h' => hn (.inr h')
    dsimp only; omega

/-- Eager (the permissionless example): always `max_fee − fee`, live until the quoted expiration -/
theorem eager_allowance_after {p : Params} {s s' : State} {au : Auth} {c : Call}
    {user rcp : Nat} {tgt : Target}
    (h : collectFeeAndInvoke p s au c user rcp .eager tgt = .ok s') :
    OZ.Fungible.allowanceData (tokAt s' c.token) user p.self = ⟨c.maxFee - c.fee, c.expiration⟩ := by
  have := (allowance_after_forward h).1
  rw [if_pos (.inl rfl)] at this
  exact this

/-- Lazy (the permissioned example): `old − fee` with the old expiry when the old allowance
sufficed (`old ≥ max`), else `max_fee − fee` with the quoted expiration -/
theorem lazy_allowance_after {p : Params} {s s' : State} {au : Auth} {c : Call}
    {user rcp : Nat} {tgt : Target}
    (h : collectFeeAndInvoke p s au c user rcp .lazy tgt = .ok s') :
    (c.maxFee ≤ OZ.Fungible.allowance (tokAt s c.token) user p.self →
      OZ.Fungible.allowanceData (tokAt s' c.token) user p.self =
        ⟨OZ.Fungible.allowance (tokAt s c.token) user p.self - c.fee,
         (OZ.Fungible.allowanceData (tokAt s c.token) user p.self).liveUntilLedger⟩) ∧
    (OZ.Fungible.allowance (tokAt s c.token) user p.self < c.maxFee →
      OZ.Fungible.allowanceData (tokAt s' c.token) user p.self = ⟨c.maxFee - c.fee, c.expiration⟩) := by
  have := (allowance_after_forward h).1
  constructor
  · intro hge
    rw [if_neg (by rintro (h' | h'); cases h'; omega)] at this
    exact this
  · intro hlt
    rw [if_pos (.inr hlt)] at this
    exact this

/-! ### 9. completeness: a forward fails only when it must -/

/-- **a forward succeeds IF AND ONLY IF** every one of these holds (`ForwardConditions`,
`FeeConditions` in Lemmas/FeeForwarder.lean):
the user signed exactly (token, max fee, expiration, target, fn, args); the token is accepted
by the allow-list; user ≠ forwarder; `0 < fee ≤ max`; `now ≤ expiration`; when the forwarder
approves (Eager, or Lazy with allowance < max) the user signed the nested
`approve(user, forwarder, max, expiration)` and the token accepts the expiration
(`≤ max live until`); otherwise the existing allowance record is rewritable (its expiry
`≤ max live until` — true in every reachable state with a fixed ledger configuration); the
user's balance covers the fee; the recipient's credit stays in i128 (automatic under the
token's supply invariant, `forward_credit_never_overflows`); the target call goes through
(and the user signed it if the target demands that). The allowance is then always
sufficient (`fee ≤ max ≤` effective allowance), so it is not a separate condition. -/
theorem forward_succeeds_iff (p : Params) (s : State) (au : Auth) (c : Call) (user rcp : Nat)
    (ap : Approval) (tgt : Target) :
    (∃ s', collectFeeAndInvoke p s au c user rcp ap tgt = .ok s') ↔
      ForwardConditions p s au c user rcp ap tgt :=
  ⟨fun ⟨_, h⟩ => collectFeeAndInvoke_conditions h, collectFeeAndInvoke_succeeds⟩

/-- the same, spelled out as one flat conjunction -/
theorem forward_succeeds_iff_flat (p : Params) (s : State) (au : Auth) (c : Call) (user rcp : Nat)
    (ap : Approval) (tgt : Target) :
    (∃ s', collectFeeAndInvoke p s au c user rcp ap tgt = .ok s') ↔
      ((∃ ua, au.user = some ua ∧ ua.signer = user ∧
          ua.tuple = ⟨c.token, c.maxFee, c.expiration, c.target, c.fn, c.args⟩) ∧
       (s.al.count = 0 ∨ (s.al.indexOf c.token).isSome = true) ∧
       p.self ≠ user ∧ 0 < c.fee ∧ c.fee ≤ c.maxFee ∧ s.now ≤ c.expiration ∧
       ((ap = .eager ∨ OZ.Fungible.allowance (tokAt s c.token) user p.self < c.maxFee) →
          subSigned au user (approveInv p c.token user c.maxFee c.expiration) = true ∧
          c.expiration ≤ p.cfg.maxLiveUntil s.now) ∧
       (¬ (ap = .eager ∨ OZ.Fungible.allowance (tokAt s c.token) user p.self < c.maxFee) →
          (OZ.Fungible.allowanceData (tokAt s c.token) user p.self).liveUntilLedger ≤ p.cfg.maxLiveUntil s.now) ∧
       c.fee ≤ (s.toks c.token).bal user ∧
       in128 ((upd (s.toks c.token).bal user ((s.toks c.token).bal user - c.fee)) rcp + c.fee) ∧
       (tgt = .ok ∨ (tgt = .needsUser ∧ subSigned au user (targetInv c) = true))) := by
  rw [forward_succeeds_iff]
  constructor
  · intro ⟨h1, ⟨f1, f2, f3, f4, f5, f6, f7, f8, f9⟩, h3⟩
    exact ⟨(userSigned_iff _ _ _).mp h1, (token_accepted_iff _ _).mp f1, f2, f3, f4, f5, f6, f7, f8, f9, h3⟩
  · intro ⟨h1, f1, f2, f3, f4, f5, f6, f7, f8, f9, h3⟩
    exact ⟨(userSigned_iff _ _ _).mpr h1, ⟨(token_accepted_iff _ _).mpr f1, f2, f3, f4, f5, f6, f7, f8, f9⟩, h3⟩

/-- the permissionless example: additionally (and only) the relayer's authorization -/
theorem forwardPL_succeeds_iff (p : Params) (s : State) (au : Auth) (c : Call) (user relayer : Nat)
    (tgt : Target) :
    (∃ s', forwardPermissionless p s au c user relayer tgt = .ok s') ↔
      (relayer ∈ au.plain ∧ ForwardConditions p s au c user relayer .eager tgt) := by
  constructor
  · rintro ⟨s', h⟩
    obtain ⟨h1, h2⟩ := forwardPL_requires h
    exact ⟨h1, collectFeeAndInvoke_conditions h2⟩
  · rintro ⟨h1, h2⟩
    obtain ⟨s', hs⟩ := collectFeeAndInvoke_succeeds h2
    exact ⟨s', by unfold forwardPermissionless; rw [requireAuth_of_mem h1, ok_bind]; exact hs⟩

/-- the permissioned example: additionally (and only) the executor role and the relayer's
authorization -/
theorem forwardPD_succeeds_iff (p : Params) (s : State) (au : Auth) (c : Call) (user relayer : Nat)
    (tgt : Target) :
    (∃ s', forwardPermissioned p s au c user relayer tgt = .ok s') ↔
      (relayer ∈ p.executors ∧ relayer ∈ au.plain ∧ ForwardConditions p s au c user p.self .lazy tgt) := by
  constructor
  · rintro ⟨s', h⟩
    obtain ⟨h0, h1, h2⟩ := forwardPD_requires h
    exact ⟨h0, h1, collectFeeAndInvoke_conditions h2⟩
  · rintro ⟨h0, h1, h2⟩
    obtain ⟨s', hs⟩ := collectFeeAndInvoke_succeeds h2
    exact ⟨s', by
      unfold forwardPermissioned
      rw [ensureRole_of_mem h0, ok_bind, requireAuth_of_mem h1, ok_bind]; exact hs⟩

/-- the overflow condition of `forward_succeeds_iff` is automatic whenever the fee token
satisfies the supply invariant of C01 (every reachable token state does) -/
theorem forward_credit_never_overflows {U : List Nat} (hn : U.Nodup) {ts : OZ.Fungible.State}
    (hi : OZ.Fungible.Inv U ts) (user rcp : Nat) (fee : Int) (h0 : 0 < fee) (hb : fee ≤ ts.bal user) :
    in128 ((upd ts.bal user (ts.bal user - fee)) rcp + fee) :=
  credit_in128_of_inv hn hi user rcp fee (by omega) hb

/-- under the conditions the effective allowance always covers the fee -/
theorem forward_allowance_suffices {p : Params} {s : State} {au : Auth} {c : Call} {user rcp : Nat}
    {ap : Approval} {tgt : Target} (hc : ForwardConditions p s au c user rcp ap tgt) :
    c.fee ≤ (if ap = .eager ∨ OZ.Fungible.allowance (tokAt s c.token) user p.self < c.maxFee
              then c.maxFee else OZ.Fungible.allowance (tokAt s c.token) user p.self) := by
  have := hc.fee.feeMax
  split
  · exact this
  · rename_i hn
    have : ¬ OZ.Fungible.allowance (tokAt s c.token) user p.self < c.maxFee := fun h => hn (.inr h)
    omega

/-! ### non-vacuity (tests, labelled as such): concrete successful and failing forwards
through both examples -/

def p0 : Params := { cfg := ⟨16, 200000⟩, self := 6, managers := [1], executors := [2, 3] }
def c0 : Call := { token := 8, fee := 5, maxFee := 10, expiration := 120, target := 7, fn := 2, args := [.i128 7] }
def ua0 : UserAuth := { signer := 4, tuple := tupleOf c0, subs := [approveInv p0 8 4 10 120] }
def au0 : Auth := { plain := [2], user := some ua0 }

def demoOps : List (Auth × Op) :=
  [ (⟨[], none⟩, .mint 8 4 1000),
    (au0, .forwardPL c0 4 2 .ok),                                           -- accepted
    (au0, .forwardPL { c0 with maxFee := 11 } 4 2 .ok),                     -- user signed max = 10
    (au0, .forwardPL { c0 with fee := 11 } 4 2 .ok),                        -- fee > max
    (au0, .forwardPL c0 4 2 .fail),                                         -- target fails
    (⟨[], some ua0⟩, .forwardPL c0 4 2 .ok),                                -- relayer did not sign
    (au0, .forwardPD c0 4 2 .ok) ]                                          -- accepted (lazy, allowance 5 < 10)

example : ((run p0 (init 100) demoOps).toks 8).bal 4 = 990 ∧
    ((run p0 (init 100) demoOps).toks 8).bal 2 = 5 ∧
    ((run p0 (init 100) demoOps).toks 8).bal 6 = 5 ∧
    (run p0 (init 100) demoOps).calls.length = 2 ∧
    OZ.Fungible.allowance (tokAt (run p0 (init 100) demoOps) 8) 4 6 = 5 := by decide

/-- swap-and-pop: allow 8, 9, 10, 11, remove 8 (11 moves to slot 0), remove 11, re-add 8 -/
def demoAl : List (Nat × Bool) :=
  [(8, true), (9, true), (10, true), (11, true), (8, false), (8, false), (11, false), (9, true), (8, true)]

example : enumerate (alRun AllowList.empty demoAl) = [10, 9, 8] ∧
    (alRun AllowList.empty demoAl).indexOf 10 = some 0 ∧
    (alRun AllowList.empty demoAl).indexOf 11 = none ∧
    specRun (fun _ => false) demoAl 11 = false ∧ specRun (fun _ => false) demoAl 8 = true := by decide

example : demoAl.length ≤ U32_MAX := by decide

/-- the conditions of `forward_succeeds_iff` are met by the first demo forward (and not by the
one whose signed maximum differs), and the allowance left behind is `max − fee = 5` until 120 -/
example : ForwardConditions p0 (step p0 (init 100) (⟨[], none⟩, .mint 8 4 1000)) au0 c0 4 2 .eager .ok :=
  (forward_succeeds_iff _ _ _ _ _ _ _ _).mp (by
    have h : (collectFeeAndInvoke p0 (step p0 (init 100) (⟨[], none⟩, .mint 8 4 1000)) au0 c0 4 2
        .eager .ok).toBool = true := by decide
    cases hr : collectFeeAndInvoke p0 (step p0 (init 100) (⟨[], none⟩, .mint 8 4 1000)) au0 c0 4 2
        .eager .ok with
    | ok s' => exact ⟨s', rfl⟩
    | error e => rw [hr] at h; cases h)

example : ¬ ForwardConditions p0 (step p0 (init 100) (⟨[], none⟩, .mint 8 4 1000)) au0
    { c0 with maxFee := 11 } 4 2 .eager .ok := by
  intro h; have := h.signed; revert this; decide

example : OZ.Fungible.allowanceData (tokAt (run p0 (init 100) (demoOps.take 2)) 8) 4 6 = ⟨5, 120⟩ := by decide

/-- lazy with a sufficient old allowance (50 until ledger 150): `50 − 5`, the old expiry is kept -/
example : OZ.Fungible.allowanceData (tokAt (run p0 (init 100)
    [(⟨[], none⟩, .mint 8 4 1000), (⟨[4], none⟩, .approve 8 4 6 50 150),
     (⟨[2], some { ua0 with subs := [] }⟩, .forwardPD c0 4 2 .ok)]) 8) 4 6 = ⟨45, 150⟩ := by decide

end OZ.FeeForwarder
