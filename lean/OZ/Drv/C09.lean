import OZ.DrvUtil
import OZ.Model.TimelockControllerMon
/-
Driver for C09 (self-administered timelock controller). `op` runs the model
OZ.TimelockController on the op lines of harness/src/bin/c09.rs and prints the model's
observation in the harness's format.

`mon` is the monitor: it never calls the model. Here it only PARSES the op line and the
implementation's observation (`parseLine`, `parseObs`) and calls
`OZ.TimelockController.Mon.checkCore` (OZ/Model/TimelockControllerMon.lean), which is proved sound in
OZ/Props/C09Mon.lean (`monitor_accepts_every_model_trace`). On every implementation observation
the core checks the property's conclusion directly:
  * an accepted admin-only call on a self-administered controller (reported admin = the
    controller) carried a descriptor, the operation (controller, fn, args,
    predecessor, salt) of exactly that call was reported Ready before and is reported Done after,
    and, when executors are configured, the named executor holds the role and signed the execute
    tuple;
  * an accepted `__check_auth` has at least as many descriptors as contexts, every context is a call on the
    controller, and each denoted operation went Ready → Done (executors as above);
  * accepted schedule / cancel / execute calls were made by a proposer / canceller / (when
    configured) executor who signed the call;
  * the monitor keeps its own ghost log of accepted schedule / cancel / execution calls: the
    operation consumed by an admin call or by `__check_auth` must have been scheduled (ledger `l`,
    delay `d`) with `l + d` — saturating at u32::MAX — `≤ now`, not cancelled or executed since;
    every reported operation state and ready ledger must be the one this log prescribes;
  * nothing stored changes while the ledger advances (idle gaps of up to 100 days): only
    Waiting → Ready by time;
  * the minimum delay, role membership and admin change only through an accepted call of the
    corresponding kind; a rejected call changes nothing; Done stays Done.
-/
namespace OZ.Drv.C09
open OZ.Drv OZ.Timelock OZ.TimelockController OZ.TimelockController.Mon OZ.Host

def MAX_TTL : Nat := 6312000

/-- "1.2.3" / "-" -/
def dotList (s : String) : List Nat :=
  if s = "" ∨ s = "-" then [] else (s.splitOn ".").filterMap String.toNat?

/-- typed argument tokens `u5`, `a3`, `s1` → the model's coding of `Val`s -/
def encArg (tok : String) : Option Nat :=
  match (tok.drop 1).toString.toNat? with
  | none => none
  | some n =>
    if tok.startsWith "u" then some (vU32 n)
    else if tok.startsWith "a" then some (vAddr n)
    else if tok.startsWith "s" then some (vSym n)
    else none

def encArgs (a : String) : List Nat :=
  if a = "" ∨ a = "-" then [] else (a.splitOn ".").filterMap encArg

structure M where
  c : CState
  defs : List Operation

def initM (label : String) : M :=
  let ws := words label
  let start := (kvNat? ws "start").getD 100
  let min := (kvNat? ws "min").getD 0
  let prop := dotList ((kv? ws "prop").getD "-")
  let exec := dotList ((kv? ws "exec").getD "-")
  let admin := (kv? ws "admin").bind String.toNat?
  { c := construct start MAX_TTL 0 min prop exec admin, defs := [] }

def parseRef (defs : List Operation) (r : String) : Option Id :=
  if r = "z" then some Id.zero
  else if r.startsWith "r" then (r.drop 1).toString.toNat?.map Id.raw
  else if r.startsWith "o" then
    match (r.drop 1).toString.toNat? with
    | some k => (defs[k]?).map Operation.id
    | none => none
  else none

def parseMeta (defs : List Operation) (s : String) : Option Meta :=
  match s.splitOn ":" with
  | [p, sa, e] => do
    let pred ← parseRef defs p
    let salt ← sa.toNat?
    pure { pred, salt, executor := e.toNat? }
  | _ => none

/-- `none` | `e` (empty vector) | `p:s:e;p:s:e` -/
def parseSig (defs : List Operation) (s : String) : Option (List Meta) :=
  if s = "none" then none
  else if s = "e" then some []
  else (s.splitOn ";").mapM (parseMeta defs)

def parseCtx (defs : List Operation) (s : String) : Option Context :=
  if s = "create" then some .createContract
  else if s.startsWith "k" then
    match (s.drop 1).toString.toNat? with
    | some k => (defs[k]?).map (fun d => .contract d.target d.fn d.args)
    | none => none
  else
    match s.splitOn ":" with
    | ["c", t, f, a] => do pure (.contract (← t.toNat?) (← f.toNat?) (encArgs a))
    | _ => none

def parseCtxs (defs : List Operation) (s : String) : List Context :=
  if s = "e" then [] else (s.splitOn ";").filterMap (parseCtx defs)

/-- auth tokens: `c<i>`; `x<i>@<j>` = account i signed the execute tuple of context j with
descriptor j (only for calls on the controller) -/
def parseToks (_self : Nat) (s : String) (metas : List Meta) (ctxs : List Context) : List AuthTok :=
  if s = "" ∨ s = "-" then [] else
  (s.splitOn ",").filterMap (fun t =>
    if t.startsWith "c" then (t.drop 1).toString.toNat?.map AuthTok.call
    else if t.startsWith "x" then
      match (t.drop 1).toString.splitOn "@" with
      | [i, j] =>
        match i.toNat?, j.toNat? with
        | some i, some j =>
          match ctxs[j]?, metas[j]? with
          | some (.contract addr fn args), some m => some (.exec i addr fn args m.pred m.salt)
          | _, _ => none
        | _, _ => none
      | _ => none
    else none)

-- `sortNat`, `showDots`, `showSt`, `showRoles`, `showRadm`, `showStates`, `showCalls`, `showRaw` are
-- defined in OZ/Model/TimelockControllerMon.lean (shared with `modelObs`)

def showState (m : M) : String := s!"now={m.c.tl.now} {showRaw m.c m.defs}"

/-- decode typed argument tokens of an admin entry point -/
def argNums (a : String) : List Nat :=
  if a = "" ∨ a = "-" then [] else (a.splitOn ".").filterMap (fun t => (t.drop 1).toString.toNat?)

def stepLine (m : M) (line : String) : M × String :=
  let ws := words line
  let self := m.c.self
  match ws with
  | "tc" :: "def" :: rest =>
    match kvNat? rest "t", kvNat? rest "f", kv? rest "a", (kv? rest "p").bind (parseRef m.defs), kvNat? rest "s" with
    | some t, some f, some a, some p, some s =>
      let op : Operation := ⟨t, f, encArgs a, p, s⟩
      let eq := (List.range m.defs.length).filter (fun j => (m.defs[j]?).map Operation.id = some op.id)
      let m' := { m with defs := m.defs ++ [op] }
      (m', s!"ok eq={showList toString eq} {showState m'}")
    | _, _, _, _, _ => (m, "bad-op")
  | "tc" :: kind :: rest =>
    let sig := (kv? rest "sig").bind (parseSig m.defs)
    let authS := (kv? rest "auth").getD "-"
    let nums := argNums ((kv? rest "a").getD "-")
    let parsed : Option (Entry × List AuthTok) :=
      match kind with
      | "sched" => do
        let op ← m.defs[(← kvNat? rest "k")]?
        pure (.scheduleOp op (← kvNat? rest "d") (← kvNat? rest "by"), parseToks self authS [] [])
      | "cancel" => do
        let id ← (kv? rest "i").bind (parseRef m.defs)
        pure (.cancelOp id (← kvNat? rest "by"), parseToks self authS [] [])
      | "exec" => do
        let op ← m.defs[(← kvNat? rest "k")]?
        let ok ← kvNat? rest "callok"
        pure (.executeOp op ((kv? rest "ex").bind String.toNat?) (ok = 1), parseToks self authS [] [])
      | "update" =>
        match nums with
        | [d] => some (.updateDelay d, parseToks self authS (sig.getD []) [.contract self FN_UPDATE_DELAY [vU32 d]])
        | _ => none
      | "grant" =>
        match nums with
        | [a, r, k] => some (.grantRole a r k,
            parseToks self authS (sig.getD []) [.contract self FN_GRANT_ROLE [vAddr a, vSym r, vAddr k]])
        | _ => none
      | "revoke" =>
        match nums with
        | [a, r, k] => some (.revokeRole a r k,
            parseToks self authS (sig.getD []) [.contract self FN_REVOKE_ROLE [vAddr a, vSym r, vAddr k]])
        | _ => none
      | "transfer" =>
        match nums with
        | [a, lu] => some (.transferAdmin a lu,
            parseToks self authS (sig.getD []) [.contract self FN_TRANSFER_ADMIN [vAddr a, vU32 lu]])
        | _ => none
      | "renounce" => some (.renounceAdmin, parseToks self authS (sig.getD []) [.contract self FN_RENOUNCE_ADMIN []])
      | "setradm" =>
        match nums with
        | [r, ar] => some (.setRoleAdmin r ar,
            parseToks self authS (sig.getD []) [.contract self FN_SET_ROLE_ADMIN [vSym r, vSym ar]])
        | _ => none
      | "renrole" =>
        match nums with
        | [r, k] => some (.renounceRole r k,
            parseToks self authS (sig.getD []) [.contract self FN_RENOUNCE_ROLE [vSym r, vAddr k]])
        | _ => none
      | "accept" => some (.acceptAdmin, parseToks self authS [] [])
      | "check" =>
        let metas := ((kv? rest "metas").bind (parseSig m.defs)).getD []
        let ctxs := parseCtxs m.defs ((kv? rest "ctxs").getD "e")
        some (.checkAuth metas ctxs, parseToks self authS metas ctxs)
      | "advance" => (kvNat? rest "n").map (fun n => (.advance n, []))
      | _ => none
    match parsed with
    | none => (m, "bad-op")
    | some (entry, auth) =>
      match applyE m.c auth sig entry with
      | .ok c' => let m' := { m with c := c' }; (m', s!"ok {showState m'}")
      | .error _ => (m, s!"err {showState m}")
  | _ => (m, "bad-op")

/-! ### the monitor (implementation side only): parsing, then `OZ.TimelockController.Mon.checkCore`

Not covered by the soundness theorem (string level, this file): `parseLine` and its helpers
(`parseRefM`, `parseMetasM`, `parseCtxM`, `parseAuthM`, `parseCallM`), `parseObs`, and the alarm
`site=controller.parse unparsable observation`. Everything else the monitor does is `checkCore`. -/

def parseRefM (r : String) : Ref :=
  if r = "z" then .z
  else if r.startsWith "r" then
    match (r.drop 1).toString.toNat? with
    | some n => .raw n
    | none => .bad
  else if r.startsWith "o" then
    match (r.drop 1).toString.toNat? with
    | some k => .op k
    | none => .bad
  else .bad

/-- `none` | `e` (empty vector) | `p:s:e;p:s:e` -/
def parseMetasM (s : String) : Option (List MetaM) :=
  if s = "none" then none
  else if s = "e" then some []
  else (s.splitOn ";").mapM (fun t =>
    match t.splitOn ":" with
    | [p, sa, e] => do pure { p := parseRefM p, s := (← sa.toNat?), e := e.toNat? }
    | _ => none)

def parseCtxM (s : String) : CtxM :=
  if s = "create" then .create
  else if s.startsWith "k" then
    match (s.drop 1).toString.toNat? with
    | some k => .defk k
    | none => .bad
  else
    match s.splitOn ":" with
    | ["c", t, f, a] =>
      match t.toNat?, f.toNat? with
      | some t, some f => .call t f (encArgs a)
      | _, _ => .bad
    | _ => .bad

def parseCtxsM (s : String) : List CtxM := if s = "e" then [] else (s.splitOn ";").map parseCtxM

def parseAuthM (s : String) : List AuthM :=
  if s = "" ∨ s = "-" then [] else
  (s.splitOn ",").filterMap (fun t =>
    if t.startsWith "c" then (t.drop 1).toString.toNat?.map AuthM.call
    else if t.startsWith "x" then
      match (t.drop 1).toString.splitOn "@" with
      | [i, j] =>
        match i.toNat?, j.toNat? with
        | some i, some j => some (.exec i j)
        | _, _ => none
      | _ => none
    else none)

def parseCallM (kind : String) (rest : List String) : Mon.Call :=
  let nums := argNums ((kv? rest "a").getD "-")
  match kind with
  | "sched" => .sched ((kvNat? rest "k").getD 9999) ((kvNat? rest "d").getD 0) ((kvNat? rest "by").getD 99)
  | "cancel" => .cancel (parseRefM ((kv? rest "i").getD "?")) ((kvNat? rest "by").getD 99)
  | "exec" => .exec ((kvNat? rest "k").getD 9999) ((kv? rest "ex").bind String.toNat?) ((kvNat? rest "callok").getD 0)
  | "update" => match nums with | [d] => .update d | _ => .other kind
  | "grant" => match nums with | [a, r, k] => .grant a r k | _ => .other kind
  | "revoke" => match nums with | [a, r, k] => .revoke a r k | _ => .other kind
  | "renrole" => match nums with | [r, k] => .renrole r k | _ => .other kind
  | "setradm" => match nums with | [r, ar] => .setradm r ar | _ => .other kind
  | "transfer" => match nums with | [a, lu] => .transfer a lu | _ => .other kind
  | "renounce" => .renounce
  | "accept" => .accept
  | "check" => .check ((parseMetasM ((kv? rest "metas").getD "e")).getD []) (parseCtxsM ((kv? rest "ctxs").getD "e"))
  | "advance" => .advance ((kvNat? rest "n").getD 0)
  | other => .other other

def parseLine (ws : List String) : Line :=
  let kind := (ws.drop 1).head?.getD ""
  let rest := ws.drop 2
  if kind = "def" then
    match kvNat? rest "t", kvNat? rest "f", kv? rest "a", kv? rest "p", kvNat? rest "s" with
    | some t, some f, some a, some p, some s => .defn t f (encArgs a) (parseRefM p) s
    | _, _, _, _, _ => .badDef
  else
    .call { call := parseCallM kind rest,
            sig := parseMetasM ((kv? rest "sig").getD "none"),
            auth := parseAuthM ((kv? rest "auth").getD "-") }

def parseObs (line : String) : Option Obs :=
  match words line with
  | tag :: rest => do
    let now ← kvNat? rest "now"
    let minS ← kv? rest "min"
    let adminS ← kv? rest "admin"
    let rolesS ← kv? rest "roles"
    let radmS ← kv? rest "radm"
    let stS ← kv? rest "st"
    let calls ← kv? rest "calls"
    let st ← if stS = "-" then some [] else (stS.splitOn ",").mapM (fun t =>
      match t.splitOn ":" with
      | [c, l] => do pure (c, (← l.toNat?))
      | _ => none)
    pure { ok := tag = "ok", eq := (kv? rest "eq").map natList, now, min := minS.toNat?,
           admin := adminS.toNat?, roles := (rolesS.splitOn "/").map dotList,
           radm := (radmS.splitOn "/").map String.toNat?, st,
           raw := s!"min={minS} admin={adminS} roles={rolesS} radm={radmS} st={stS} calls={calls}", calls }
  | _ => none

def check (m : Mon) (opl obs : String) : Mon × Option String :=
  match parseObs obs with
  | none => (m, some s!"site=controller.parse unparsable observation {obs}")
  | some o => checkCore m (parseLine (words opl)) o

def machine : Machine where
  σ := M
  init := initM
  op := stepLine
  μ := Mon
  minit := fun _ => monInit
  mon := check

end OZ.Drv.C09

def main : IO Unit := OZ.Drv.run OZ.Drv.C09.machine
