import OZ.DrvUtil
import OZ.Model.TimelockController
/-
Driver for C09 (self-administered timelock controller). `op` runs the model
OZ.TimelockController on the op lines of harness/src/bin/c09.rs and prints the model's
observation in the harness's format.

`mon` is the monitor; it never calls the model. On every implementation observation it checks
the property's conclusion directly:
  * an accepted admin-only call on a self-administered controller (reported admin = the
    controller) carried a descriptor, the operation (controller, fn, args,
    predecessor, salt) of exactly that call was reported Ready before and is reported Done after,
    and, when executors are configured, the named executor holds the role and signed the execute
    tuple;
  * an accepted `__check_auth` has at least as many descriptors as contexts, every context is a call on the
    controller, and each denoted operation went Ready → Done (executors as above);
  * accepted schedule / cancel / execute calls were made by a proposer / canceller / (when
    configured) executor who signed the call;
  * the monitor keeps its own ghost log of accepted schedule / cancel / execution calls: the
    operation consumed by an admin call or by `__check_auth` must have been scheduled (ledger `l`,
    delay `d`) with `l + d` — saturating at u32::MAX — `≤ now`, not cancelled or executed since;
    every reported operation state and ready ledger must be the one this log prescribes;
  * nothing stored changes while the ledger advances (idle gaps of up to 100 days): only
    Waiting → Ready by time;
  * the minimum delay, role membership and admin change only through an accepted call of the
    corresponding kind; a rejected call changes nothing; Done stays Done.
-/
namespace OZ.Drv.C09
open OZ.Drv OZ.Timelock OZ.TimelockController OZ.Host

def MAX_TTL : Nat := 6312000
def NACC : Nat := 5

/-- "1.2.3" / "-" -/
def dotList (s : String) : List Nat :=
  if s = "" ∨ s = "-" then [] else (s.splitOn ".").filterMap String.toNat?

/-- typed argument tokens `u5`, `a3`, `s1` → the model's coding of `Val`s -/
def encArg (tok : String) : Option Nat :=
  match (tok.drop 1).toString.toNat? with
  | none => none
  | some n =>
    if tok.startsWith "u" then some (vU32 n)
    else if tok.startsWith "a" then some (vAddr n)
    else if tok.startsWith "s" then some (vSym n)
    else none

def encArgs (a : String) : List Nat :=
  if a = "" ∨ a = "-" then [] else (a.splitOn ".").filterMap encArg

structure M where
  c : CState
  defs : List Operation

def initM (label : String) : M :=
  let ws := words label
  let start := (kvNat? ws "start").getD 100
  let min := (kvNat? ws "min").getD 0
  let prop := dotList ((kv? ws "prop").getD "-")
  let exec := dotList ((kv? ws "exec").getD "-")
  let admin := (kv? ws "admin").bind String.toNat?
  { c := construct start MAX_TTL 0 min prop exec admin, defs := [] }

def parseRef (defs : List Operation) (r : String) : Option Id :=
  if r = "z" then some Id.zero
  else if r.startsWith "r" then (r.drop 1).toString.toNat?.map Id.raw
  else if r.startsWith "o" then
    match (r.drop 1).toString.toNat? with
    | some k => (defs[k]?).map Operation.id
    | none => none
  else none

def parseMeta (defs : List Operation) (s : String) : Option Meta :=
  match s.splitOn ":" with
  | [p, sa, e] => do
    let pred ← parseRef defs p
    let salt ← sa.toNat?
    pure { pred, salt, executor := e.toNat? }
  | _ => none

/-- `none` | `e` (empty vector) | `p:s:e;p:s:e` -/
def parseSig (defs : List Operation) (s : String) : Option (List Meta) :=
  if s = "none" then none
  else if s = "e" then some []
  else (s.splitOn ";").mapM (parseMeta defs)

def parseCtx (defs : List Operation) (s : String) : Option Context :=
  if s = "create" then some .createContract
  else if s.startsWith "k" then
    match (s.drop 1).toString.toNat? with
    | some k => (defs[k]?).map (fun d => .contract d.target d.fn d.args)
    | none => none
  else
    match s.splitOn ":" with
    | ["c", t, f, a] => do pure (.contract (← t.toNat?) (← f.toNat?) (encArgs a))
    | _ => none

def parseCtxs (defs : List Operation) (s : String) : List Context :=
  if s = "e" then [] else (s.splitOn ";").filterMap (parseCtx defs)

/-- auth tokens: `c<i>`; `x<i>@<j>` = account i signed the execute tuple of context j with
descriptor j (only for calls on the controller) -/
def parseToks (_self : Nat) (s : String) (metas : List Meta) (ctxs : List Context) : List AuthTok :=
  if s = "" ∨ s = "-" then [] else
  (s.splitOn ",").filterMap (fun t =>
    if t.startsWith "c" then (t.drop 1).toString.toNat?.map AuthTok.call
    else if t.startsWith "x" then
      match (t.drop 1).toString.splitOn "@" with
      | [i, j] =>
        match i.toNat?, j.toNat? with
        | some i, some j =>
          match ctxs[j]?, metas[j]? with
          | some (.contract addr fn args), some m => some (.exec i addr fn args m.pred m.salt)
          | _, _ => none
        | _, _ => none
      | _ => none
    else none)

def sortNat (l : List Nat) : List Nat := l.mergeSort (· ≤ ·)

def showDots (l : List Nat) : String :=
  if l.isEmpty then "-" else ".".intercalate ((sortNat l).map toString)

def showSt (s : Timelock.State) (id : Id) : String :=
  let c := match getOperationState s id with
    | .unset => "U" | .waiting => "W" | .ready => "R" | .done => "D"
  s!"{c}:{getOperationLedger s id}"

def showState (m : M) : String :=
  let c := m.c
  let min := match c.tl.minDelay with | some d => toString d | none => "-"
  let admin := match c.admin with | some a => toString a | none => "-"
  let roles := "/".intercalate ((List.range 4).map (fun r =>
    showDots ((List.range (NACC + 1)).filter (fun a => c.hasRole r a))))
  let radm := "/".intercalate ((List.range 4).map (fun r =>
    match OZ.Access.getRoleAdmin c.ac r with | some ar => toString ar | none => "-"))
  let st := if m.defs.isEmpty then "-" else ",".intercalate (m.defs.map (fun d => showSt c.tl d.id))
  let cs := c.tl.calls.filter (fun x => x.1 = 9)
  let calls := match cs with
    | [] => "0:-:-"
    | (_, f, a) :: _ => s!"{cs.length}:{f}:{(a.headD 0) / 3}"
  s!"now={c.tl.now} min={min} admin={admin} roles={roles} radm={radm} st={st} calls={calls}"

/-- decode typed argument tokens of an admin entry point -/
def argNums (a : String) : List Nat :=
  if a = "" ∨ a = "-" then [] else (a.splitOn ".").filterMap (fun t => (t.drop 1).toString.toNat?)

def stepLine (m : M) (line : String) : M × String :=
  let ws := words line
  let self := m.c.self
  match ws with
  | "tc" :: "def" :: rest =>
    match kvNat? rest "t", kvNat? rest "f", kv? rest "a", (kv? rest "p").bind (parseRef m.defs), kvNat? rest "s" with
    | some t, some f, some a, some p, some s =>
      let op : Operation := ⟨t, f, encArgs a, p, s⟩
      let eq := (List.range m.defs.length).filter (fun j => (m.defs[j]?).map Operation.id = some op.id)
      let m' := { m with defs := m.defs ++ [op] }
      (m', s!"ok eq={showList toString eq} {showState m'}")
    | _, _, _, _, _ => (m, "bad-op")
  | "tc" :: kind :: rest =>
    let sig := (kv? rest "sig").bind (parseSig m.defs)
    let authS := (kv? rest "auth").getD "-"
    let nums := argNums ((kv? rest "a").getD "-")
    let parsed : Option (Entry × List AuthTok) :=
      match kind with
      | "sched" => do
        let op ← m.defs[(← kvNat? rest "k")]?
        pure (.scheduleOp op (← kvNat? rest "d") (← kvNat? rest "by"), parseToks self authS [] [])
      | "cancel" => do
        let id ← (kv? rest "i").bind (parseRef m.defs)
        pure (.cancelOp id (← kvNat? rest "by"), parseToks self authS [] [])
      | "exec" => do
        let op ← m.defs[(← kvNat? rest "k")]?
        let ok ← kvNat? rest "callok"
        pure (.executeOp op ((kv? rest "ex").bind String.toNat?) (ok = 1), parseToks self authS [] [])
      | "update" =>
        match nums with
        | [d] => some (.updateDelay d, parseToks self authS (sig.getD []) [.contract self FN_UPDATE_DELAY [vU32 d]])
        | _ => none
      | "grant" =>
        match nums with
        | [a, r, k] => some (.grantRole a r k,
            parseToks self authS (sig.getD []) [.contract self FN_GRANT_ROLE [vAddr a, vSym r, vAddr k]])
        | _ => none
      | "revoke" =>
        match nums with
        | [a, r, k] => some (.revokeRole a r k,
            parseToks self authS (sig.getD []) [.contract self FN_REVOKE_ROLE [vAddr a, vSym r, vAddr k]])
        | _ => none
      | "transfer" =>
        match nums with
        | [a, lu] => some (.transferAdmin a lu,
            parseToks self authS (sig.getD []) [.contract self FN_TRANSFER_ADMIN [vAddr a, vU32 lu]])
        | _ => none
      | "renounce" => some (.renounceAdmin, parseToks self authS (sig.getD []) [.contract self FN_RENOUNCE_ADMIN []])
      | "setradm" =>
        match nums with
        | [r, ar] => some (.setRoleAdmin r ar,
            parseToks self authS (sig.getD []) [.contract self FN_SET_ROLE_ADMIN [vSym r, vSym ar]])
        | _ => none
      | "renrole" =>
        match nums with
        | [r, k] => some (.renounceRole r k,
            parseToks self authS (sig.getD []) [.contract self FN_RENOUNCE_ROLE [vSym r, vAddr k]])
        | _ => none
      | "accept" => some (.acceptAdmin, parseToks self authS [] [])
      | "check" =>
        let metas := ((kv? rest "metas").bind (parseSig m.defs)).getD []
        let ctxs := parseCtxs m.defs ((kv? rest "ctxs").getD "e")
        some (.checkAuth metas ctxs, parseToks self authS metas ctxs)
      | "advance" => (kvNat? rest "n").map (fun n => (.advance n, []))
      | _ => none
    match parsed with
    | none => (m, "bad-op")
    | some (entry, auth) =>
      match applyE m.c auth sig entry with
      | .ok c' => let m' := { m with c := c' }; (m', s!"ok {showState m'}")
      | .error _ => (m, s!"err {showState m}")
  | _ => (m, "bad-op")

/-! ### the monitor (implementation side only) -/

structure Obs where
  ok : Bool
  eq : Option (List Nat)
  now : Nat
  min : Option Nat
  admin : Option Nat
  roles : List (List Nat)
  radm : List (Option Nat)
  st : List (String × Nat)
  raw : String                -- everything after the tag (and `eq=`), for "nothing changed"
  calls : String

def parseObs (line : String) : Option Obs :=
  match words line with
  | tag :: rest => do
    let now ← kvNat? rest "now"
    let minS ← kv? rest "min"
    let adminS ← kv? rest "admin"
    let rolesS ← kv? rest "roles"
    let radmS ← kv? rest "radm"
    let stS ← kv? rest "st"
    let calls ← kv? rest "calls"
    let st ← if stS = "-" then some [] else (stS.splitOn ",").mapM (fun t =>
      match t.splitOn ":" with
      | [c, l] => do pure (c, (← l.toNat?))
      | _ => none)
    pure { ok := tag = "ok", eq := (kv? rest "eq").map natList, now, min := minS.toNat?,
           admin := adminS.toNat?, roles := (rolesS.splitOn "/").map dotList,
           radm := (radmS.splitOn "/").map String.toNat?, st,
           raw := s!"min={minS} admin={adminS} roles={rolesS} radm={radmS} st={stS} calls={calls}", calls }
  | _ => none

/-- a defined operation as the monitor sees it: target, fn, argument text, predecessor key, salt -/
structure DefM where
  t : Nat
  f : Nat
  a : String
  p : String
  s : Nat
  key : String

/-- what the accepted calls seen so far say about an operation (the monitor's own ghost log) -/
inductive G where
  | unset
  | pending (l d : Nat)      -- accepted schedule at ledger `l` with delay `d`, nothing since
  | done
  deriving DecidableEq

structure Mon where
  defs : List DefM
  prev : Option Obs
  ghost : List (String × G)  -- keyed by the canonical tuple text, newest binding first

def Mon.get (m : Mon) (k : String) : G :=
  match m.ghost.find? (fun p => p.1 = k) with
  | some (_, g) => g
  | none => .unset

def Mon.set (m : Mon) (k : String) (g : G) : Mon := { m with ghost := (k, g) :: m.ghost }

/-- "the scheduled delay has fully elapsed": `l + d ≤ now`, or the saturated corner -/
def elapsedM (l d now : Nat) : Bool :=
  decide (l + d ≤ now) || (decide (l + d > 4294967295) && decide (now = 4294967295))

def satU32 (a b : Nat) : Nat := if a + b > 4294967295 then 4294967295 else a + b

/-- state and ledger value the accepted history prescribes at ledger `now` -/
def expectedSt (g : G) (now : Nat) : String × Nat :=
  match g with
  | .unset => ("U", 0)
  | .done => ("D", 1)
  | .pending l d => if elapsedM l d now then ("R", satU32 l d) else ("W", satU32 l d)

def refKey (defs : List DefM) (r : String) : String :=
  if r = "z" then "raw0"
  else if r.startsWith "r" then "raw" ++ (r.drop 1).toString
  else match (r.drop 1).toString.toNat? with
    | some k => match defs[k]? with | some d => d.key | none => "?"
    | none => "?"

structure MetaM where
  p : String      -- predecessor key
  s : Nat
  e : Option Nat

def parseMetasM (defs : List DefM) (s : String) : Option (List MetaM) :=
  if s = "none" then none
  else if s = "e" then some []
  else (s.splitOn ";").mapM (fun t =>
    match t.splitOn ":" with
    | [p, sa, e] => do pure { p := refKey defs p, s := (← sa.toNat?), e := e.toNat? }
    | _ => none)

/-- index of a defined operation with this tuple -/
def findDef (defs : List DefM) (t f : Nat) (a p : String) (s : Nat) : Option Nat :=
  (List.range defs.length).find? (fun k =>
    match defs[k]? with
    | some d => d.t = t ∧ d.f = f ∧ d.a = a ∧ d.p = p ∧ d.s = s
    | none => false)

def stCode (o : Obs) (k : Nat) : String := match o.st[k]? with | some (c, _) => c | none => "?"

/-- the consumption the property demands for one authorized call `(fn, args)` on the controller
with descriptor `m` (index `j` in the payload): a defined operation with exactly this tuple,
reported Ready before and Done after; executors as configured before the call -/
def consumed (m : Mon) (prev o : Obs) (f : Nat) (a : String) (md : MetaM) (j : Nat) (auth : List String) : Option String :=
  match findDef m.defs 0 f a md.p md.s with
  | none => some s!"no operation (controller, fn {f}, {a}, {md.p}, salt {md.s}) was ever scheduled"
  | some k =>
    let key := match m.defs[k]? with | some d => d.key | none => "?"
    let early : Option String :=
      match m.get key with
      | .pending l d =>
        if elapsedM l d prev.now then none
        else some s!"operation {k} for this call was scheduled at ledger {l} with delay {d}: that delay has not elapsed at ledger {prev.now}"
      | .unset => some s!"operation {k} for this call is not scheduled (or was cancelled) according to the accepted history"
      | .done => some s!"operation {k} for this call was already executed according to the accepted history"
    if early.isSome then early
    else if stCode prev k ≠ "R" then some s!"operation {k} for this call was {stCode prev k}, not Ready, before the call"
    else if stCode o k ≠ "D" then some s!"operation {k} for this call is {stCode o k}, not Done, after the call"
    else
      let execs := prev.roles[1]?.getD []
      if execs.isEmpty then none
      else match md.e with
        | none => some "executors are configured but no executor was named"
        | some x =>
          if ¬ execs.contains x then some s!"named executor {x} does not hold the executor role"
          else if ¬ auth.contains s!"x{x}@{j}" then some s!"executor {x} did not authorize the execute tuple"
          else none

def ctxCall (defs : List DefM) (s : String) : Option (Nat × Nat × String) :=
  if s.startsWith "k" then
    match (s.drop 1).toString.toNat? with
    | some k => (defs[k]?).map (fun d => (d.t, d.f, d.a))
    | none => none
  else match s.splitOn ":" with
    | ["c", t, f, a] => do pure ((← t.toNat?), (← f.toNat?), a)
    | _ => none

/-- every reported operation state and ledger value against the monitor's ghost log -/
def checkStates (m : Mon) (o : Obs) : Option String :=
  let bad := (List.range o.st.length).filterMap (fun k =>
    match m.defs[k]?, o.st[k]? with
    | some d, some (c, l) =>
      let ex := expectedSt (m.get d.key) o.now
      if c = "X" then
        some s!"site=controller.views operation {k} {d.key}: the controller's operation_exists / is_operation_pending / is_operation_ready / is_operation_done views disagree with get_operation_state"
      else if ex ≠ (c, l) then
        some s!"site=controller.state operation {k} {d.key}: reported {c}:{l} but the accepted history prescribes {ex.1}:{ex.2} at ledger {o.now}"
      else none
    | _, _ => none)
  bad.head?

/-- the operations the accepted call `(kind, …)` consumed, as far as the op line identifies them -/
def consumedKeys (m : Mon) (kind : String) (rest : List String) : List String :=
  let keyOf := fun (f : Nat) (a : String) (md : MetaM) =>
    (findDef m.defs 0 f a md.p md.s).bind (fun k => (m.defs[k]?).map (·.key))
  if kind = "check" then
    let metas := (parseMetasM m.defs ((kv? rest "metas").getD "e")).getD []
    let ctxS := (kv? rest "ctxs").getD "e"
    let ctxs := if ctxS = "e" then [] else ctxS.splitOn ";"
    (List.range ctxs.length).filterMap (fun j =>
      match ctxCall m.defs (ctxs[j]?.getD "?"), metas[j]? with
      | some (0, f, a), some md => keyOf f a md
      | _, _ => none)
  else
    let f := if kind = "update" then 0 else if kind = "grant" then 1 else if kind = "revoke" then 2
      else if kind = "transfer" then 3 else if kind = "setradm" then 5 else if kind = "renrole" then 6 else 4
    match parseMetasM m.defs ((kv? rest "sig").getD "none") with
    | some (md :: _) => (keyOf f ((kv? rest "a").getD "-") md).toList
    | _ => []

/-- admin-only entry points (`enforce_admin_auth`): the admin authorizes -/
def isAdminKind' (kind : String) : Bool :=
  kind = "update" || kind = "transfer" || kind = "renounce" || kind = "setradm"

/-- entry points authorized by a caller named in the arguments -/
def isCallerKind (kind : String) : Bool := kind = "grant" || kind = "revoke" || kind = "renrole"

/-- the caller argument of `grant a.r.k` / `revoke a.r.k` / `renrole r.k` -/
def callerOf (kind : String) (rest : List String) : Option Nat :=
  let nums := argNums ((kv? rest "a").getD "-")
  if kind = "renrole" then nums[1]? else nums[2]?

/-- the monitor's ghost log after an ACCEPTED call at ledger `now` -/
def ghostStep (m : Mon) (kind : String) (rest : List String) (now : Nat) (prevAdmin : Option Nat) : Mon :=
  if kind = "sched" then
    match m.defs[(kvNat? rest "k").getD 9999]? with
    | some d => m.set d.key (.pending now ((kvNat? rest "d").getD 0))
    | none => m
  else if kind = "cancel" then m.set (refKey m.defs ((kv? rest "i").getD "?")) .unset
  else if kind = "exec" then
    match m.defs[(kvNat? rest "k").getD 9999]? with
    | some d => m.set d.key .done
    | none => m
  else if kind = "check" ∨ (isAdminKind' kind ∧ prevAdmin = some 0) ∨
      (isCallerKind kind ∧ callerOf kind rest = some 0) then
    (consumedKeys m kind rest).foldl (fun acc k => acc.set k .done) m
  else m

def fnOfKind (kind : String) : Nat :=
  if kind = "update" then 0 else if kind = "grant" then 1 else if kind = "revoke" then 2
  else if kind = "transfer" then 3 else if kind = "setradm" then 5 else if kind = "renrole" then 6 else 4

def isAdminKind (kind : String) : Bool := isAdminKind' kind

def check (m : Mon) (opl obs : String) : Mon × Option String :=
  match parseObs obs with
  | none => (m, some s!"site=controller.parse unparsable observation {obs}")
  | some o =>
    let ws := words opl
    let kind := (ws.drop 1).head?.getD ""
    let rest := ws.drop 2
    let auth := ((kv? rest "auth").getD "-").splitOn ","
    let prevAdmin := m.prev.bind (·.admin)
    let fin (m' : Mon) (f : Option String) : Mon × Option String :=
      let mg := if o.ok then ghostStep m' kind rest o.now prevAdmin else m'
      ({ mg with prev := some o }, f.orElse (fun _ => checkStates mg o))
    if kind = "def" then
      match kvNat? rest "t", kvNat? rest "f", kv? rest "a", kv? rest "p", kvNat? rest "s" with
      | some t, some f, some a, some p, some s =>
        let pk := refKey m.defs p
        let key := s!"op({t},{f},{a},{pk},{s})"
        let same := (List.range m.defs.length).filter (fun j => (m.defs[j]?).map (·.key) = some key)
        let m' := { m with defs := m.defs ++ [{ t, f, a, p := pk, s, key }] }
        fin m' (if o.eq ≠ some same then
          some s!"site=controller.id operation {key}: ids equal to those of definitions {o.eq.getD []}, tuples equal to {same}"
          else none)
      | _, _, _, _, _ => fin m (some "site=controller.parse bad def line")
    else
    match m.prev with
    | none => fin m none
    | some prev =>
      -- Done stays Done, whatever happens
      -- across an idle gap nothing stored may change: only Waiting → Ready, by time
      let idle : Option String :=
        if kind ≠ "advance" then none
        else
          let n := (kvNat? rest "n").getD 0
          if o.min ≠ prev.min then some s!"site=controller.idle.lost the minimum delay changed over an idle gap of {n} ledgers"
          else if o.admin ≠ prev.admin then some s!"site=controller.idle.lost the admin changed over an idle gap of {n} ledgers"
          else if o.roles ≠ prev.roles then some s!"site=controller.idle.lost role membership changed over an idle gap of {n} ledgers"
          else if o.radm ≠ prev.radm then some s!"site=controller.idle.lost a role admin changed over an idle gap of {n} ledgers"
          else if o.calls ≠ prev.calls then some s!"site=controller.idle.lost the target was called during an idle gap"
          else
            ((List.range prev.st.length).filterMap (fun k =>
              match prev.st[k]?, o.st[k]? with
              | some (a, la), some (b, lb) =>
                if a = b ∧ la = lb then none
                else if a = "W" ∧ b = "R" ∧ la = lb ∧ lb ≤ o.now then none
                else some s!"site=controller.idle.lost operation {k}: {a}:{la} before an idle gap of {n} ledgers, {b}:{lb} after it"
              | _, _ => none)).head?
      if idle.isSome then fin m idle else
      let undone := (List.range prev.st.length).find? (fun k => stCode prev k = "D" ∧ stCode o k ≠ "D")
      if undone.isSome then fin m (some s!"site=controller.done operation {undone.getD 0} was Done and is {stCode o (undone.getD 0)}") else
      if ¬ o.ok then
        fin m (if o.raw ≠ prev.raw ∨ o.now ≠ prev.now then some "site=controller.rollback a rejected call changed the observable state" else none)
      else
      -- effects need a cause
      let effect : Option String :=
        if o.min ≠ prev.min ∧ kind ≠ "update" then some s!"site=controller.effect.min minimum delay changed by `{kind}`"
        else if o.roles ≠ prev.roles ∧ ¬ isCallerKind kind then some s!"site=controller.effect.roles role membership changed by `{kind}`"
        else if o.radm ≠ prev.radm ∧ kind ≠ "setradm" then some s!"site=controller.effect.radm a role admin changed by `{kind}`"
        else if o.admin ≠ prev.admin ∧ kind ≠ "accept" ∧ kind ≠ "renounce" then some s!"site=controller.effect.admin admin changed by `{kind}`"
        else
          -- operations are consumed (→ Done) only by admin calls, `__check_auth` and execute_op
          let newlyDone := (List.range o.st.length).find? (fun k => stCode prev k ≠ "D" ∧ stCode o k = "D")
          if newlyDone.isSome ∧ ¬ isAdminKind kind ∧ ¬ isCallerKind kind ∧ kind ≠ "check" ∧ kind ≠ "exec" then
            some s!"site=controller.effect.done an operation became Done by `{kind}`"
          else none
      if effect.isSome then fin m effect else
      -- the controller's own authorization: a descriptor whose operation for exactly this call was consumed
      let selfAuth (a : String) (f : Nat) : Option String :=
        match parseMetasM m.defs ((kv? rest "sig").getD "none") with
        | none => some s!"site=controller.admin.unconsumed `{kind} {a}` accepted on the controller's own authority without any payload for the controller"
        | some (md :: _) =>
          (consumed m prev o f a md 0 auth).map (fun why =>
            s!"site=controller.admin.unconsumed `{kind} {a}` accepted on the controller's own authority but {why}")
        | some [] => some s!"site=controller.admin.unconsumed `{kind} {a}` accepted on the controller's own authority with 0 operation descriptors for 1 authorized call: no ready operation for exactly that call was consumed"
      if isCallerKind kind then
        let a := (kv? rest "a").getD "-"
        let nums := argNums a
        let f := fnOfKind kind
        let (acct, role, caller) :=
          if kind = "renrole" then (nums[1]?.getD 99, nums[0]?.getD 99, nums[1]?.getD 99)
          else (nums[0]?.getD 99, nums[1]?.getD 99, nums[2]?.getD 99)
        let members := fun (r : Nat) => prev.roles[r]?.getD []
        -- who authorized
        let fa : Option String :=
          if caller = 0 then selfAuth a f
          else if ¬ auth.contains s!"c{caller}" then some s!"site=controller.role.auth `{kind} {a}` accepted without {caller}'s authorization"
          else none
        -- who may
        let fp : Option String :=
          if kind = "renrole" then
            (if ¬ (members role).contains caller then some s!"site=controller.role.renounce {caller} renounced role {role} which it did not hold" else none)
          else
            let isAdm : Bool := decide (prev.admin = some caller)
            let viaRole : Bool := match (prev.radm[role]?).join with
              | some ar => (members ar).contains caller
              | none => false
            if !isAdm && !viaRole then some s!"site=controller.role.permission `{kind} {a}`: {caller} is neither the admin nor a holder of the admin role of role {role}" else none
        -- what changed: exactly that membership
        let expd := (List.range prev.roles.length).map (fun r =>
          let l := members r
          if r ≠ role then l
          else if kind = "grant" then (if l.contains acct then l else sortNat (acct :: l))
          else l.erase acct)
        let fe : Option String :=
          if o.roles ≠ expd then some s!"site=controller.role.effect `{kind} {a}`: membership is {o.roles}, expected {expd}" else none
        fin m (fa.orElse (fun _ => fp.orElse (fun _ => fe)))
      else
      if isAdminKind kind then
        let a := (kv? rest "a").getD "-"
        let f := fnOfKind kind
        let fe : Option String :=
          if kind = "setradm" then
            let nums := argNums a
            if (o.radm[nums[0]?.getD 99]?).join ≠ nums[1]? then some s!"site=controller.role.effect `setradm {a}` did not store the admin role" else none
          else none
        if fe.isSome then fin m fe else
        match prev.admin with
        | none => fin m (some s!"site=controller.admin.noadmin `{kind}` accepted although no admin is set")
        | some 0 =>
          -- self-administered: exactly this call must have consumed a ready operation
          match parseMetasM m.defs ((kv? rest "sig").getD "none") with
          | none => fin m (some s!"site=controller.admin.unconsumed `{kind} {a}` accepted on a self-administered controller without any payload for the controller")
          | some (md :: _) =>
            -- the descriptor matched with the (single) authorized call is the first one
            match consumed m prev o f a md 0 auth with
            | some why => fin m (some s!"site=controller.admin.unconsumed `{kind} {a}` accepted on a self-administered controller but {why}")
            | none => fin m none
          | some [] =>
            fin m (some s!"site=controller.admin.unconsumed `{kind} {a}` accepted on a self-administered controller with 0 operation descriptors for 1 authorized call: no ready operation for exactly that call was consumed")
        | some ad =>
          fin m (if ¬ auth.contains s!"c{ad}" then some s!"site=controller.admin.auth `{kind}` accepted without the admin {ad}'s authorization" else none)
      else if kind = "check" then
        let metas := (parseMetasM m.defs ((kv? rest "metas").getD "e")).getD []
        let ctxS := (kv? rest "ctxs").getD "e"
        let ctxs := if ctxS = "e" then [] else ctxS.splitOn ";"
        if metas.length < ctxs.length then
          fin m (some s!"site=controller.checkauth.length __check_auth returned Ok for {ctxs.length} contexts with only {metas.length} operation descriptors")
        else
          let bad := (List.range ctxs.length).filterMap (fun j =>
            match ctxCall m.defs (ctxs[j]?.getD "?"), metas[j]? with
            | some (t, f, a), some md =>
              if t ≠ 0 then some s!"context {j} is a call on another contract ({t})"
              else (consumed m prev o f a md j auth).map (fun w => s!"context {j}: {w}")
            | _, _ => some s!"context {j} is not a contract call")
          fin m (match bad with
            | [] => none
            | w :: _ => some s!"site=controller.checkauth.unconsumed __check_auth returned Ok but {w}")
      else if kind = "sched" then
        let byy := (kvNat? rest "by").getD 99
        let d := (kvNat? rest "d").getD 0
        fin m (if (match prev.min with | some mn => decide (d < mn) | none => true) then some s!"site=controller.schedule.delay scheduled with delay {d} below the minimum delay in force"
               else if ¬ (prev.roles[0]?.getD []).contains byy then some s!"site=controller.schedule.role {byy} scheduled without the proposer role"
               else if ¬ auth.contains s!"c{byy}" then some s!"site=controller.schedule.auth scheduled without {byy}'s authorization" else none)
      else if kind = "cancel" then
        let byy := (kvNat? rest "by").getD 99
        fin m (if ¬ (prev.roles[2]?.getD []).contains byy then some s!"site=controller.cancel.role {byy} cancelled without the canceller role"
               else if ¬ auth.contains s!"c{byy}" then some s!"site=controller.cancel.auth cancelled without {byy}'s authorization" else none)
      else if kind = "exec" then
        let execs := prev.roles[1]?.getD []
        let k := (kvNat? rest "k").getD 99
        let f1 : Option String :=
          if stCode prev k ≠ "R" ∨ stCode o k ≠ "D" then some s!"site=controller.execute.state executed operation {k} was {stCode prev k} and is {stCode o k}"
          else none
        if execs.isEmpty then fin m f1
        else match (kv? rest "ex").bind String.toNat? with
          | none => fin m (some "site=controller.execute.role executed without naming an executor although executors are configured")
          | some x =>
            fin m (if ¬ execs.contains x then some s!"site=controller.execute.role {x} executed without the executor role"
                   else if ¬ auth.contains s!"c{x}" then some s!"site=controller.execute.auth executed without {x}'s authorization" else f1)
      else if kind = "accept" then
        fin m (match o.admin with
          | some a => if ¬ auth.contains s!"c{a}" then some s!"site=controller.accept.auth {a} became admin without its authorization" else none
          | none => some "site=controller.accept.admin accept left no admin")
      else fin m none

def machine : Machine where
  σ := M
  init := initM
  op := stepLine
  μ := Mon
  minit := fun _ => { defs := [], prev := none, ghost := [] }
  mon := check

end OZ.Drv.C09

def main : IO Unit := OZ.Drv.run OZ.Drv.C09.machine
