import OZ.Drv.C20Util
import OZ.Model.RegHooks
/-
`hooks ...` sub-driver of C20: compliance hook module lists. Hooks 0..4, modules 0..nm-1.
-/
namespace OZ.Drv.C20.Hooks
open OZ.Drv OZ.Drv.C20 OZ.RegHooks

def NH : Nat := 5

structure M where
  s : State
  nm : Nat

def initM (ws : List String) : M := { s := init, nm := (kvNat? ws "nm").getD 4 }

def showState (m : M) : String :=
  let s := m.s
  let H := (List.range NH).map (fun h => s!"{h}:{nats (getModulesForHook s h)}")
  let reg := (List.range NH).flatMap (fun h => (List.range m.nm).map (fun x => isModuleRegistered s h x))
  s!"H={sepBy ";" H} reg={bits reg}"

def parseOp (ws : List String) : Option Op :=
  match ws with
  | "hooks" :: kind :: rest =>
    match kind with
    | "add" => some (.add (kvN rest "h") (kvN rest "m"))
    | "remove" => some (.remove (kvN rest "h") (kvN rest "m"))
    | _ => none
  | _ => none

def stepLine (m : M) (line : String) : M × String :=
  match parseOp (words line) with
  | none => (m, "bad-op")
  | some op =>
    match step m.s op with
    | .ok s' => let m' := { m with s := s' }; (m', "ok " ++ showState m')
    | .error _ => (m, "err " ++ showState m)

structure Mon where
  rel : List (Nat × Nat)      -- (hook, module)
  nm : Nat

def minit (ws : List String) : Mon := { rel := [], nm := (kvNat? ws "nm").getD 4 }

def check (g : Mon) (opl obs : String) : Mon × Option String :=
  let ws := words obs
  let ok := ws.head? == some "ok"
  match parseOp (words opl) with
  | none => (g, some s!"site=hooks.parse bad op {opl}")
  | some op =>
    let cnt (h : Nat) : Nat := (g.rel.filter (fun p => p.1 == h)).length
    let plain : Except String Mon := match op with
      | .add h m => if g.rel.contains (h, m) then .error "dup" else if cnt h ≥ 20 then .error "limit.add_module_to.modules"
                    else .ok { g with rel := g.rel ++ [(h, m)] }
      | .remove h m => if g.rel.contains (h, m) then .ok { g with rel := g.rel.erase (h, m) } else .error "absent"
    let (g2, accept) : Mon × Option String :=
      match plain, ok with
      | .ok g', true => (g', none)
      | .error _, false => (g, none)
      | .ok _, false => (g, some (
          let near := match op with
            | .add h _ => if cnt h = 19 then "limit.add_module_to.modules" else "valid"
            | _ => "valid"
          refusedSite "hooks" near))
      | .error why, true => (g, some (acceptedSite "hooks" why))
    let H := (parts ";" (kvS ws "H")).map (fun e => match e.splitOn ":" with
      | [h, l] => (h.toNat?.getD 99, natList l)
      | _ => (99, []))
    let hOk := (List.range NH).all (fun h =>
      let want := (g2.rel.filter (fun p => p.1 == h)).map (·.2)
      match H.find? (fun x => x.1 == h) with
      | some (_, l) => nodupB l && sameSet l want
      | none => false)
    let regWant := (List.range NH).flatMap (fun h => (List.range g2.nm).map (fun x => g2.rel.contains (h, x)))
    let fail := firstFail [accept,
      chk hOk s!"site=hooks.enumerates_once get_modules_for_hook = {kvS ws "H"} does not list the plain sets once each",
      chk (kvS ws "reg" = bits regWant) "site=hooks.member is_module_registered differs from membership in the plain set"]
    (g2, fail)

end OZ.Drv.C20.Hooks
