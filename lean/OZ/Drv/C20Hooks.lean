import OZ.Drv.C20Util
import OZ.Model.RegHooksMon
/-
`hooks ...` sub-driver of C20: compliance hook module lists. Hooks 0..4, modules 0..nm-1.
-/
namespace OZ.Drv.C20.Hooks
open OZ.Drv OZ.Drv.C20 OZ.RegHooks OZ.RegHooks.Mon

structure M where
  s : State
  nm : Nat

def initM (ws : List String) : M := { s := init, nm := (kvNat? ws "nm").getD 4 }

def showState (m : M) : String :=
  let s := m.s
  let H := (List.range NH).map (fun h => s!"{h}:{nats (getModulesForHook s h)}")
  let reg := (List.range NH).flatMap (fun h => (List.range m.nm).map (fun x => isModuleRegistered s h x))
  s!"H={sepBy ";" H} reg={bits reg}"

def parseOp (ws : List String) : Option Op :=
  match ws with
  | "hooks" :: kind :: rest =>
    match kind with
    | "add" => some (.add (kvN rest "h") (kvN rest "m"))
    | "remove" => some (.remove (kvN rest "h") (kvN rest "m"))
    | _ => none
  | _ => none

def stepLine (m : M) (line : String) : M × String :=
  match parseOp (words line) with
  | none => (m, "bad-op")
  | some op =>
    match step m.s op with
    | .ok s' => let m' := { m with s := s' }; (m', "ok " ++ showState m')
    | .error _ => (m, "err " ++ showState m)

/-! ### monitor: parsing only; the checks are `OZ.RegHooks.Mon.checkCore` (OZ/Model/RegHooksMon.lean),
proved sound in OZ/Props/C20hMon.lean -/

def minit (ws : List String) : Mon := { rel := [], nm := (kvNat? ws "nm").getD 4 }

def parseObs (obs : String) : Obs :=
  let ws := words obs
  { ok := ws.head? == some "ok",
    H := (parts ";" (kvS ws "H")).map (fun e => match e.splitOn ":" with
      | [h, l] => (h.toNat?.getD 99, natList l)
      | _ => (99, [])),
    Hraw := kvS ws "H",
    reg := kvS ws "reg" }

def check (g : Mon) (opl obs : String) : Mon × Option String :=
  match parseOp (words opl) with
  | none => (g, some s!"site=hooks.parse bad op {opl}")
  | some op => checkCore g op (parseObs obs)

/-- the monitor state type, as the dispatcher OZ/Drv/C20.lean names it -/
abbrev MonT := OZ.RegHooks.Mon.Mon

end OZ.Drv.C20.Hooks
