import OZ.DrvUtil
import OZ.Model.SmartAccountMon
/-
Driver for C03 (smart-account authorization is sound and follows rule precedence).

This file only PARSES the lines written by harness/src/bin/c03.rs (`parseMOp`, `parseObs`, the
sequence label) and prints the model's answer; everything else lives in
OZ/Model/SmartAccountMon.lean on parsed values:

`op`  : the MODEL (OZ.SmartAccount) run on the op lines: `OZ.SmartAccount.Mon.mstep`; the mock
        verifier / policy contracts of the harness are the model's oracles and are mirrored from
        the `vset` / `pset` lines (`Mocks`, `applySetter`).
`mon` : the MONITOR: `OZ.SmartAccount.Mon.checkCore`. It never calls the model. From the accepted
        management ops it keeps its own plain list of rules (cross-checked against the
        implementation's getters), recomputes for every context the candidate rules in
        precedence order (type-specific by descending id, then Default by descending id,
        unexpired) and evaluates the property's conclusion on the implementation's observation
        of every `check` / `e2e`. OZ/Props/C03Mon.lean proves `checkCore` silent on every model
        trace (`monitor_accepts_every_model_trace`).

String-level parts that stay here and are NOT covered by that theorem:
  * `parseMOp` / `parseObs` / `parseLabel` and the renderers `obsLine` / `showStore` (the model's
    line is `obsLine` of the same data `modelObs` of OZ/Props/C03Mon.lean is built from);
  * `site=c03.parse` (an op or observation line that does not parse);
  * `Obs.flagged` (a `!` or `?` anywhere in the line, or a getter dump that does not parse);
  * log entries that are not in canonical form become `LEv.other` (the monitor then reports
    c03.foreign / c03.sound.verified for them).
-/
namespace OZ.Drv.C03
open OZ.Drv OZ.SmartAccount OZ.SmartAccount.Mon

/-! ### shared syntax -/

def dropS (s : String) (n : Nat) : String := (s.drop n).toString

def splitList (sep : String) (s : String) : List String :=
  if s = "" ∨ s = "-" then [] else s.splitOn sep

def parseSigner (s : String) : Option Signer :=
  if s.startsWith "d" then (dropS s 1).toNat?.map Signer.delegated
  else if s.startsWith "x" then
    match (dropS s 1).splitOn "." with
    | [v, k] => do pure (Signer.external (← v.toNat?) (← k.toNat?))
    | _ => none
  else none

def parseType (s : String) : Option RuleType :=
  if s = "D" then some .default
  else if s.startsWith "C" then (dropS s 1).toNat?.map RuleType.call
  else if s.startsWith "K" then (dropS s 1).toNat?.map RuleType.create
  else none

def parseCtx (s : String) : Option Ctx :=
  match (dropS s 1).splitOn "." with
  | [a, t] =>
    if s.startsWith "C" then do pure (Ctx.call (← a.toNat?) (← t.toNat?))
    else if s.startsWith "K" then do pure (Ctx.create (← a.toNat?) (← t.toNat?))
    else none
  | _ => none

def parseOptNat (s : String) : Option Nat := if s = "-" then none else s.toNat?

def parseSigs (s : String) : List (Signer × Nat) :=
  (splitList "," s).filterMap (fun t =>
    match t.splitOn ":" with
    | [a, g] => do pure ((← parseSigner a), (← g.toNat?))
    | _ => none)

def parseSigners (s : String) : List Signer := (splitList "+" s).filterMap parseSigner
def parseNats (s : String) : List Nat := (splitList "+" s).filterMap String.toNat?

/-! ### op lines -/

def two (s : String) : Option (Nat × Nat) :=
  match s.splitOn ":" with
  | [a, b] => do pure ((← a.toNat?), (← b.toNat?))
  | _ => none

def parsePSet (rest : List String) : PSet :=
  match kv? rest "thr", kv? rest "dflt", kv? rest "denyfn", kv? rest "denycreate", kv? rest "budget",
        kv? rest "install", kv? rest "uninst" with
  | some x, _, _, _, _, _, _ => match two x with
    | some (r, k) => .thr r k
    | none => .nop
  | _, some x, _, _, _, _, _ => .dflt (x.toNat?.getD 0)
  | _, _, some x, _, _, _, _ => match two x with
    | some (f, on) => .denyFn f on
    | none => .nop
  | _, _, _, some x, _, _, _ => .denyCreate (x != "0")
  | _, _, _, _, some x, _, _ => .budget (parseOptNat x)
  | _, _, _, _, _, some x, _ => .install (x != "0")
  | _, _, _, _, _, _, some x => .uninst (x != "0")
  | _, _, _, _, _, _, _ => .nop

def parseSetter (ws : List String) : Setter :=
  match ws with
  | "sa" :: "vset" :: rest =>
    match kvNat? rest "v", kvNat? rest "k", kvNat? rest "mode" with
    | some v, some k, some mode => .vset v k mode
    | _, _, _ => .nop
  | "sa" :: "pset" :: rest =>
    match kvNat? rest "p" with
    | none => .nop
    | some p => .pset p (parsePSet rest)
  | _ => .nop

def parseMOp (ws : List String) : Option MOp :=
  match ws with
  | "sa" :: "vset" :: _ | "sa" :: "pset" :: _ => some (.setter (parseSetter ws))
  | "sa" :: "ledger" :: rest => some (.ledger (kvNat? rest "seq"))
  | "sa" :: "add" :: rest =>
    match (kv? rest "t").bind parseType with
    | none => none
    | some t =>
      some (.add t (parseOptNat ((kv? rest "vu").getD "-")) (parseSigners ((kv? rest "s").getD "-"))
        (parseNats ((kv? rest "p").getD "-")))
  | "sa" :: "rm" :: rest => some (.rm ((kvNat? rest "id").getD 0))
  | "sa" :: "vu" :: rest => some (.vu ((kvNat? rest "id").getD 0) (parseOptNat ((kv? rest "vu").getD "-")))
  | "sa" :: "name" :: rest => some (.name ((kvNat? rest "id").getD 0))
  | "sa" :: "adds" :: rest => ((kv? rest "s").bind parseSigner).map (MOp.adds ((kvNat? rest "id").getD 0))
  | "sa" :: "rms" :: rest => ((kv? rest "s").bind parseSigner).map (MOp.rms ((kvNat? rest "id").getD 0))
  | "sa" :: "addp" :: rest => some (.addp ((kvNat? rest "id").getD 0) ((kvNat? rest "p").getD 0))
  | "sa" :: "rmp" :: rest => some (.rmp ((kvNat? rest "id").getD 0) ((kvNat? rest "p").getD 0))
  | "sa" :: kind :: rest =>
    if kind = "check" ∨ kind = "e2e" then
      some (.check (parseSigs ((kv? rest "sigs").getD "-")) (natList ((kv? rest "auth").getD "-"))
        ((splitList "," ((kv? rest "ctx").getD "-")).filterMap parseCtx))
    else none
  | _ => none

/-- sequence label: `... start=<ledger> s0=<signers> p0=<policies>` -/
def parseLabel (label : String) : Nat × List Signer × List Nat :=
  let ws := words label
  ((kvNat? ws "start").getD 100, parseSigners ((kv? ws "s0").getD "-"), parseNats ((kv? ws "p0").getD "-"))

/-! ### model side: render the model's answer -/

def showRule (r : Rule) : String :=
  s!"{r.id}~{showOptNat r.validUntil}~{plus (r.signers.map showSigner)}~{plus (r.policies.map toString)}"

/-- every getter over the type universe and all ids (the parsed form of this dump is `modelObs`
in OZ/Props/C03Mon.lean) -/
def showStore (s : Store) : String :=
  let parts := typeUniverse.map (fun t =>
    match getContextRules s (s.ids t) with
    | .ok rs => s!"{showType t}:{commas (rs.map showRule)}"
    | .error _ => s!"{showType t}:?")
  let ids := (List.range (s.nextId + 2)).filterMap (fun id =>
    match getContextRule s id with
    | .ok r => some s!"{id}{showType r.ctype}"
    | .error _ => none)
  s!"cnt={s.count} ids={commas ids} {"|".intercalate parts}"

def showLog (l : List String) : String := if l.isEmpty then "-" else ";".intercalate l

def obsLine (st : St) (ok : Bool) (id : Option Nat) (log : List String) : String :=
  s!"{if ok then "ok" else "err"} id={showOptNat id} now={st.now} log={showLog log} {showStore st.s}"

def initM (label : String) : St :=
  let p := parseLabel label
  initSt p.1 p.2.1 p.2.2

def stepLine (st : St) (line : String) : St × String :=
  match parseMOp (words line) with
  | none => (st, "bad-op")
  | some op =>
    let r := mstep st op
    (r.1, obsLine r.1 r.2.ok r.2.id (r.2.log.map showLEv))

/-! ### monitor side: parse the implementation's observation -/

/-- `id~vu~signers~policies` -/
def parseGRule (ty : RuleType) (s : String) : Option GRule :=
  match s.splitOn "~" with
  | [id, vu, sg, ps] => do
    let sgs ← (splitList "+" sg).mapM parseSigner
    let pls ← (splitList "+" ps).mapM String.toNat?
    if vu != "-" ∧ vu.toNat?.isNone then none
    else pure { id := (← id.toNat?), ty := ty, vu := parseOptNat vu, signers := sgs, policies := pls }
  | _ => none

/-- one `T:rule,rule,..` part of the getter dump; `none` = it does not parse (e.g. `T:?`) -/
def parsePart (part : String) : Option (List GRule) :=
  match part.splitOn ":" with
  | [ty, body] => do
    let t ← parseType ty
    (splitList "," body).mapM (parseGRule t)
  | _ => none

/-- `<id><type>` e.g. `12C0` -/
def parseIdTy (s : String) : Option (Nat × RuleType) :=
  match s.splitOn "D", s.splitOn "C", s.splitOn "K" with
  | [a, ""], _, _ => a.toNat?.map (fun id => (id, RuleType.default))
  | _, [a, b], _ => do pure ((← a.toNat?), RuleType.call (← b.toNat?))
  | _, _, [a, b] => do pure ((← a.toNat?), RuleType.create (← b.toNat?))
  | _, _, _ => none

def parseSgList (s : String) : Option (List Signer) := (splitList "+" s).mapM parseSigner

def kindOf (s : String) : Nat :=
  if s.startsWith "v" then 0 else if s.startsWith "c" then 1 else if s.startsWith "e" then 2 else 3

def parseLEvRaw (s : String) : Option LEv :=
  if s.startsWith "v" then
    match (dropS s 1).splitOn "." with
    | [v, k, g] => do pure (LEv.v (← v.toNat?) (← k.toNat?) (← g.toNat?))
    | _ => none
  else if s.startsWith "c" ∨ s.startsWith "e" then
    match (dropS s 1).splitOn "/" with
    | [p, rid, c, sg] => do
      let p ← p.toNat?
      let rid ← rid.toNat?
      let c ← parseCtx c
      let sg ← parseSgList sg
      pure (if s.startsWith "c" then LEv.c p rid c sg else LEv.e p rid c sg)
    | _ => none
  else if s.startsWith "i" ∨ s.startsWith "u" then
    match (dropS s 1).splitOn "/" with
    | [p, id] => do
      let p ← p.toNat?
      let id ← id.toNat?
      pure (if s.startsWith "i" then LEv.i p id else LEv.u p id)
    | _ => none
  else none

/-- a log entry; anything that is not exactly the canonical rendering of a call becomes `other` -/
def parseLEv (s : String) : LEv :=
  match parseLEvRaw s with
  | some ev => if showLEv ev = s then ev else .other (kindOf s) (((dropS s 1).splitOn "/").head?.bind String.toNat?) s
  | none => .other (kindOf s) (((dropS s 1).splitOn "/").head?.bind String.toNat?) s

def parseObs (line : String) : Option Obs :=
  match words line with
  | tag :: rest => do
    let now ← kvNat? rest "now"
    let cnt ← kvNat? rest "cnt"
    let log := (splitList ";" ((kv? rest "log").getD "-")).map parseLEv
    let ids := (splitList "," ((kv? rest "ids").getD "-")).map parseIdTy
    let dump ← rest.getLast?
    let parts := (dump.splitOn "|").map parsePart
    pure { ok := tag = "ok", id := (kv? rest "id").bind String.toNat?, now, cnt, log,
           ids := ids.filterMap id, rules := (parts.filterMap id).flatten,
           flagged := line.contains '!' || line.contains '?' || ids.any Option.isNone || parts.any Option.isNone }
  | [] => none

def minit (label : String) : Mon :=
  let p := parseLabel label
  monInit p.2.1 p.2.2

def monStep (mn : Mon) (opl obs : String) : Mon × Option String :=
  match parseObs obs with
  | none => (mn, some s!"site=c03.parse unparsable observation {obs}")
  | some o =>
    match parseMOp (words opl) with
    | none => (mn, some s!"site=c03.parse unparsable op {opl}")
    | some op => checkCore mn op o

def machine : Machine where
  σ := St
  init := initM
  op := stepLine
  μ := Mon
  minit := minit
  mon := monStep

end OZ.Drv.C03

def main : IO Unit := OZ.Drv.run OZ.Drv.C03.machine
