import OZ.DrvUtil
import OZ.Model.SmartAccount
/-
Driver for C03 (smart-account authorization is sound and follows rule precedence).

`op`  : the MODEL (OZ.SmartAccount) run on the op lines written by harness/src/bin/c03.rs;
        the mock verifier / policy contracts of the harness are the model's oracles and are
        mirrored here from the `vset` / `pset` lines.
`mon` : the MONITOR. It never calls the model. From the accepted management ops it keeps its
        own plain list of rules (cross-checked against the implementation's getters), recomputes
        for every context the candidate rules in precedence order (type-specific by descending
        id, then Default by descending id, unexpired) and evaluates the property's conclusion on
        the implementation's observation of every `check` / `e2e`.
-/
namespace OZ.Drv.C03
open OZ.Drv OZ.SmartAccount

/-! ### shared syntax -/

def dropS (s : String) (n : Nat) : String := (s.drop n).toString

def splitList (sep : String) (s : String) : List String :=
  if s = "" ∨ s = "-" then [] else s.splitOn sep

def parseSigner (s : String) : Option Signer :=
  if s.startsWith "d" then (dropS s 1).toNat?.map Signer.delegated
  else if s.startsWith "x" then
    match (dropS s 1).splitOn "." with
    | [v, k] => do pure (Signer.external (← v.toNat?) (← k.toNat?))
    | _ => none
  else none

def showSigner : Signer → String
  | .delegated a => s!"d{a}"
  | .external v k => s!"x{v}.{k}"

def parseType (s : String) : Option RuleType :=
  if s = "D" then some .default
  else if s.startsWith "C" then (dropS s 1).toNat?.map RuleType.call
  else if s.startsWith "K" then (dropS s 1).toNat?.map RuleType.create
  else none

def showType : RuleType → String
  | .default => "D"
  | .call a => s!"C{a}"
  | .create h => s!"K{h}"

def parseCtx (s : String) : Option Ctx :=
  match (dropS s 1).splitOn "." with
  | [a, t] =>
    if s.startsWith "C" then do pure (Ctx.call (← a.toNat?) (← t.toNat?))
    else if s.startsWith "K" then do pure (Ctx.create (← a.toNat?) (← t.toNat?))
    else none
  | _ => none

def showCtx : Ctx → String
  | .call a t => s!"C{a}.{t}"
  | .create h t => s!"K{h}.{t}"

def plus (l : List String) : String := if l.isEmpty then "-" else "+".intercalate l
def commas (l : List String) : String := if l.isEmpty then "-" else ",".intercalate l

def parseOptNat (s : String) : Option Nat := if s = "-" then none else s.toNat?
def showOptNat : Option Nat → String
  | some n => toString n
  | none => "-"

def parseSigs (s : String) : List (Signer × Nat) :=
  (splitList "," s).filterMap (fun t =>
    match t.splitOn ":" with
    | [a, g] => do pure ((← parseSigner a), (← g.toNat?))
    | _ => none)

/-! ### the mocks of the harness as oracle tables (used by model side and, separately, by the monitor) -/

structure PolCfg where
  thr : List (Nat × Nat) := []
  dflt : Nat := 0
  denyFn : List Nat := []
  denyCreate : Bool := false
  budget : Option Nat := none
  installTrap : Bool := false
  uninstTrap : Bool := false

structure Mocks where
  vmode : List ((Nat × Nat) × Nat) := []
  pols : List (Nat × PolCfg) := []

def lookup {α β} [BEq α] (l : List (α × β)) (k : α) : Option β := (l.find? (fun p => p.1 == k)).map (·.2)
def setKey {α β} [BEq α] (l : List (α × β)) (k : α) (v : β) : List (α × β) := (k, v) :: l.filter (fun p => !(p.1 == k))

def Mocks.pol (m : Mocks) (p : Nat) : PolCfg := (lookup m.pols p).getD {}

/-- MockVerifier::verify; verifier index ≥ 2 is an address without a contract (the call traps) -/
def Mocks.verify (m : Mocks) (v k g : Nat) : Bool :=
  if v ≥ 2 then false
  else match (lookup m.vmode (v, k)).getD 0 with
    | 0 => g == 1
    | 1 => true
    | _ => false

/-- MockPolicy::can_enforce -/
def Mocks.can (m : Mocks) (p : Nat) (ctx : Ctx) (n : Nat) (ruleId : Nat) : Bool :=
  let c := m.pol p
  let thr := (lookup c.thr ruleId).getD c.dflt
  let denied := match ctx with
    | .call _ t => c.denyFn.contains t
    | .create _ _ => c.denyCreate
  decide (n ≥ thr) && !denied

/-- MockPolicy::enforce does not trap after `before` earlier enforce calls on the same policy -/
def Mocks.enfOk (m : Mocks) (p : Nat) (before : Nat) : Bool :=
  match (m.pol p).budget with
  | none => true
  | some b => decide (before < b)

def Mocks.spend (m : Mocks) (ps : List Nat) : Mocks :=
  ps.foldl (fun m p =>
    match (m.pol p).budget with
    | none => m
    | some b => { m with pols := setKey m.pols p { m.pol p with budget := some (b - 1) } }) m

def applySetter (m : Mocks) (ws : List String) : Mocks :=
  match ws with
  | "sa" :: "vset" :: rest =>
    match kvNat? rest "v", kvNat? rest "k", kvNat? rest "mode" with
    | some v, some k, some mode => { m with vmode := setKey m.vmode (v, k) mode }
    | _, _, _ => m
  | "sa" :: "pset" :: rest =>
    match kvNat? rest "p" with
    | none => m
    | some p =>
      let c := m.pol p
      let two (s : String) : Option (Nat × Nat) := match s.splitOn ":" with
        | [a, b] => do pure ((← a.toNat?), (← b.toNat?))
        | _ => none
      let c' : PolCfg :=
        match kv? rest "thr", kv? rest "dflt", kv? rest "denyfn", kv? rest "denycreate", kv? rest "budget",
              kv? rest "install", kv? rest "uninst" with
        | some x, _, _, _, _, _, _ => match two x with
          | some (r, k) => { c with thr := setKey c.thr r k }
          | none => c
        | _, some x, _, _, _, _, _ => { c with dflt := x.toNat?.getD 0 }
        | _, _, some x, _, _, _, _ => match two x with
          | some (f, on) => { c with denyFn := if on = 0 then c.denyFn.filter (· != f) else f :: c.denyFn.filter (· != f) }
          | none => c
        | _, _, _, some x, _, _, _ => { c with denyCreate := x != "0" }
        | _, _, _, _, some x, _, _ => { c with budget := parseOptNat x }
        | _, _, _, _, _, some x, _ => { c with installTrap := x != "0" }
        | _, _, _, _, _, _, some x => { c with uninstTrap := x != "0" }
        | _, _, _, _, _, _, _ => c
      { m with pols := setKey m.pols p c' }
  | _ => m

/-! ### model side -/

structure St where
  s : Store
  now : Nat
  mocks : Mocks

def oracleOf (m : Mocks) (auth : List Nat) : Oracle :=
  { verify := m.verify
    auth := fun a => auth.contains a
    can := fun p ctx matched rule => m.can p ctx matched.length rule.id
    enf := fun hist c => m.enfOk c.policy (hist.filter (fun h => h.policy == c.policy)).length }

def showRule (r : Rule) : String :=
  s!"{r.id}~{showOptNat r.validUntil}~{plus (r.signers.map showSigner)}~{plus (r.policies.map toString)}"

def typeUniverse : List RuleType :=
  [.default, .call 0, .call 1, .call 2, .create 0, .create 1, .create 2]

def showStore (s : Store) : String :=
  let parts := typeUniverse.map (fun t =>
    match getContextRules s (s.ids t) with
    | .ok rs => s!"{showType t}:{commas (rs.map showRule)}"
    | .error _ => s!"{showType t}:?")
  let ids := (List.range (s.nextId + 2)).filterMap (fun id =>
    match getContextRule s id with
    | .ok r => some s!"{id}{showType r.ctype}"
    | .error _ => none)
  s!"cnt={s.count} ids={commas ids} {"|".intercalate parts}"

def showEvent : Event → Option String
  | .verify v k g => if v ≥ 2 then none else some s!"v{v}.{k}.{g}"
  | .can p r c m => some s!"c{p}/{r.id}/{showCtx c}/{plus (m.map showSigner)}"
  | .enforce p r c m => some s!"e{p}/{r.id}/{showCtx c}/{plus (m.map showSigner)}"

def showLog (l : List String) : String := if l.isEmpty then "-" else ";".intercalate l

def obsLine (st : St) (ok : Bool) (id : Option Nat) (log : List String) : String :=
  s!"{if ok then "ok" else "err"} id={showOptNat id} now={st.now} log={showLog log} {showStore st.s}"

def initSt (label : String) : St :=
  let ws := words label
  let start := (kvNat? ws "start").getD 100
  let s0 := (splitList "+" ((kv? ws "s0").getD "-")).filterMap parseSigner
  let p0 := (splitList "+" ((kv? ws "p0").getD "-")).filterMap String.toNat?
  let s := match addContextRule Store.empty start .default 0 none s0 p0 (fun _ => true) with
    | .ok (s, _) => s
    | .error _ => Store.empty
  { s := s, now := start, mocks := {} }

def mgmt (st : St) (r : Except Err Store) (id : Option Nat) (log : List String) : St × String :=
  match r with
  | .ok s' => let st' := { st with s := s' }; (st', obsLine st' true id log)
  | .error _ => (st, obsLine st false none [])

def stepLine (st : St) (line : String) : St × String :=
  let ws := words line
  match ws with
  | "sa" :: "vset" :: _ | "sa" :: "pset" :: _ =>
    let st' := { st with mocks := applySetter st.mocks ws }
    (st', obsLine st' true none [])
  | "sa" :: "ledger" :: rest =>
    let st' := { st with now := (kvNat? rest "seq").getD st.now }
    (st', obsLine st' true none [])
  | "sa" :: "add" :: rest =>
    match (kv? rest "t").bind parseType with
    | none => (st, "bad-op")
    | some t =>
      let vu := parseOptNat ((kv? rest "vu").getD "-")
      let sg := (splitList "+" ((kv? rest "s").getD "-")).filterMap parseSigner
      let pm := (splitList "+" ((kv? rest "p").getD "-")).filterMap String.toNat?
      match addContextRule st.s st.now t 0 vu sg pm (fun p => !(st.mocks.pol p).installTrap) with
      | .ok (s', r) => mgmt st (.ok s') (some r.id) (r.policies.map (fun p => s!"i{p}/{r.id}"))
      | .error e => mgmt st (.error e) none []
  | "sa" :: "rm" :: rest =>
    let id := (kvNat? rest "id").getD 0
    let pols := match getContextRule st.s id with
      | .ok r => r.policies
      | .error _ => []
    mgmt st (removeContextRule st.s id) none (pols.map (fun p => s!"u{p}/{id}"))
  | "sa" :: "vu" :: rest =>
    let id := (kvNat? rest "id").getD 0
    mgmt st (updateValidUntil st.s st.now id (parseOptNat ((kv? rest "vu").getD "-"))) (some id) []
  | "sa" :: "name" :: rest =>
    let id := (kvNat? rest "id").getD 0
    mgmt st (updateName st.s id 1) (some id) []
  | "sa" :: "adds" :: rest =>
    match (kv? rest "s").bind parseSigner with
    | none => (st, "bad-op")
    | some x => mgmt st (addSigner st.s ((kvNat? rest "id").getD 0) x) none []
  | "sa" :: "rms" :: rest =>
    match (kv? rest "s").bind parseSigner with
    | none => (st, "bad-op")
    | some x => mgmt st (removeSigner st.s ((kvNat? rest "id").getD 0) x) none []
  | "sa" :: "addp" :: rest =>
    let id := (kvNat? rest "id").getD 0
    let p := (kvNat? rest "p").getD 0
    mgmt st (addPolicy st.s id p (!(st.mocks.pol p).installTrap)) none [s!"i{p}/{id}"]
  | "sa" :: "rmp" :: rest =>
    let id := (kvNat? rest "id").getD 0
    let p := (kvNat? rest "p").getD 0
    mgmt st (removePolicy st.s id p) none [s!"u{p}/{id}"]
  | "sa" :: kind :: rest =>
    if kind = "check" ∨ kind = "e2e" then
      let sigs := parseSigs ((kv? rest "sigs").getD "-")
      let auth := natList ((kv? rest "auth").getD "-")
      let ctxs := (splitList "," ((kv? rest "ctx").getD "-")).filterMap parseCtx
      let O := oracleOf st.mocks auth
      let tr := checkTrace O st.s st.now sigs ctxs
      let log := tr.1.filterMap showEvent
      match doCheckAuth O st.s st.now sigs ctxs with
      | .ok calls =>
        let st' := { st with mocks := st.mocks.spend (calls.map (·.policy)) }
        (st', obsLine st' true none log)
      | .error _ => (st, obsLine st false none log)
    else (st, "bad-op")
  | _ => (st, "bad-op")

/-! ### monitor (independent of OZ.SmartAccount's transition functions) -/

structure GRule where
  id : Nat
  ty : String
  vu : Option Nat
  signers : List String
  policies : List Nat
  deriving BEq, Repr

structure Mon where
  rules : List GRule := []
  now : Nat := 0
  mocks : Mocks := {}

/-- `id~vu~signers~policies` -/
def parseGRule (ty : String) (s : String) : Option GRule :=
  match s.splitOn "~" with
  | [id, vu, sg, ps] => do
    pure { id := (← id.toNat?), ty := ty, vu := parseOptNat vu, signers := splitList "+" sg,
           policies := (splitList "+" ps).filterMap String.toNat? }
  | _ => none

structure Obs where
  ok : Bool
  id : Option Nat
  now : Nat
  log : List String
  cnt : Nat
  ids : List String
  rules : List GRule        -- in getter order: type universe order, then list order
  flagged : Bool            -- a `!` or `?` anywhere (getter inconsistency flagged by the harness)

def parseObs (line : String) : Option Obs :=
  match words line with
  | tag :: rest => do
    let now ← kvNat? rest "now"
    let cnt ← kvNat? rest "cnt"
    let log := splitList ";" ((kv? rest "log").getD "-")
    let ids := splitList "," ((kv? rest "ids").getD "-")
    let dump ← rest.getLast?
    let rules := (dump.splitOn "|").flatMap (fun part =>
      match part.splitOn ":" with
      | [ty, body] => (splitList "," body).filterMap (parseGRule ty)
      | _ => [])
    pure { ok := tag = "ok", id := (kv? rest "id").bind String.toNat?, now, cnt, log, ids, rules,
           flagged := line.contains '!' || line.contains '?' }
  | [] => none

def insertSorted (x : Nat) : List Nat → List Nat
  | [] => [x]
  | y :: ys => if x < y then x :: y :: ys else if x == y then y :: ys else y :: insertSorted x ys

def sortDedup (l : List Nat) : List Nat := l.foldr insertSorted []

/-- the monitor's plain view: apply an ACCEPTED management op to the list of rules -/
def ghostApply (rules : List GRule) (ws : List String) (o : Obs) : List GRule :=
  let idOf := fun (rest : List String) => (kvNat? rest "id").getD 0
  let modify := fun (id : Nat) (f : GRule → GRule) => rules.map (fun r => if r.id == id then f r else r)
  match ws with
  | "sa" :: "add" :: rest =>
    match o.id with
    | some id => rules ++ [{ id := id, ty := (kv? rest "t").getD "?", vu := parseOptNat ((kv? rest "vu").getD "-"),
                             signers := splitList "+" ((kv? rest "s").getD "-"),
                             policies := sortDedup ((splitList "+" ((kv? rest "p").getD "-")).filterMap String.toNat?) }]
    | none => rules
  | "sa" :: "rm" :: rest => rules.filter (fun r => r.id != idOf rest)
  | "sa" :: "vu" :: rest => modify (idOf rest) (fun r => { r with vu := parseOptNat ((kv? rest "vu").getD "-") })
  | "sa" :: "adds" :: rest => modify (idOf rest) (fun r => { r with signers := r.signers ++ [(kv? rest "s").getD "?"] })
  | "sa" :: "rms" :: rest => modify (idOf rest) (fun r => { r with signers := r.signers.filter (· != (kv? rest "s").getD "?") })
  | "sa" :: "addp" :: rest => modify (idOf rest) (fun r => { r with policies := r.policies ++ [(kvNat? rest "p").getD 0] })
  | "sa" :: "rmp" :: rest => modify (idOf rest) (fun r => { r with policies := r.policies.filter (· != (kvNat? rest "p").getD 0) })
  | _ => rules

def byIdAsc (l : List GRule) : List GRule := l.mergeSort (fun a b => a.id ≤ b.id)
def byIdDesc (l : List GRule) : List GRule := l.mergeSort (fun a b => a.id ≥ b.id)

def ctxType (c : String) : String := (c.splitOn ".").headD "?"
def ctxIsCreate (c : String) : Bool := c.startsWith "K"
def ctxTag (c : String) : Nat := (((c.splitOn ".").drop 1).headD "0").toNat?.getD 0

def live (now : Nat) (r : GRule) : Bool :=
  match r.vu with
  | some v => decide (now ≤ v)
  | none => true

/-- precedence order of the property: newest first, type-specific before Default, unexpired only -/
def candidates (rules : List GRule) (now : Nat) (c : String) : List GRule :=
  byIdDesc (rules.filter (fun r => r.ty == ctxType c && live now r)) ++
  byIdDesc (rules.filter (fun r => r.ty == "D" && live now r))

def monCan (m : Mocks) (p : Nat) (c : String) (n : Nat) (rid : Nat) : Bool :=
  let cfg := m.pol p
  let thr := (lookup cfg.thr rid).getD cfg.dflt
  let denied := if ctxIsCreate c then cfg.denyCreate else cfg.denyFn.contains (ctxTag c)
  decide (thr ≤ n) && !denied

/-- the rule's own signers that were supplied, in rule order -/
def counted (r : GRule) (supplied : List String) : List String := r.signers.filter (supplied.contains ·)

def satisfied (m : Mocks) (c : String) (supplied : List String) (r : GRule) : Bool :=
  if r.policies.isEmpty then r.signers.all (supplied.contains ·)
  else r.policies.all (fun p => monCan m p c (counted r supplied).length r.id)

/-- can_enforce questions a precedence-respecting evaluation asks for one context -/
def expectedCans (m : Mocks) (c : String) (supplied : List String) : List GRule → List String
  | [] => []
  | r :: rs =>
    let cs := counted r supplied
    let asked : List Nat := (r.policies.foldl (fun (acc : List Nat × Bool) p =>
        if acc.2 then acc else (acc.1 ++ [p], !(monCan m p c cs.length r.id))) ([], false)).1
    let evs := asked.map (fun p => s!"c{p}/{r.id}/{c}/{plus cs}")
    if satisfied m c supplied r then evs else evs ++ expectedCans m c supplied rs

def sigValid (m : Mocks) (auth : List Nat) (sg : String) (g : Nat) : Bool :=
  match parseSigner sg with
  | some (.external v k) => m.verify v k g
  | some (.delegated a) => auth.contains a
  | none => false

def countBefore (l : List Nat) (p : Nat) : Nat := (l.filter (· == p)).length

/-- does the ghost budget let every expected enforce call through? -/
def enforceAllowed (m : Mocks) : List Nat → List Nat → Bool
  | _, [] => true
  | seen, p :: ps => m.enfOk p (countBefore seen p) && enforceAllowed m (seen ++ [p]) ps

def checkAuthMon (mn : Mon) (rest : List String) (o : Obs) : Option String :=
  let sigs : List (String × Nat) := (splitList "," ((kv? rest "sigs").getD "-")).filterMap (fun t =>
    match t.splitOn ":" with
    | [a, g] => g.toNat?.map (fun g => (a, g))
    | _ => none)
  let auth := natList ((kv? rest "auth").getD "-")
  let ctxs := splitList "," ((kv? rest "ctx").getD "-")
  let supplied := sigs.map (·.1)
  let allValid := sigs.all (fun (a, g) => sigValid mn.mocks auth a g)
  let chosen : List (String × Option GRule) :=
    ctxs.map (fun c => (c, (candidates mn.rules mn.now c).find? (satisfied mn.mocks c supplied)))
  let covered := chosen.all (fun p => p.2.isSome)
  let expEnforce : List String := chosen.flatMap (fun (c, r) =>
    match r with
    | some r => r.policies.map (fun p => s!"e{p}/{r.id}/{c}/{plus (counted r supplied)}")
    | none => [])
  let expEnforcePols : List Nat := chosen.flatMap (fun (_, r) => match r with | some r => r.policies | none => [])
  let expCans : List String := ctxs.flatMap (fun c => expectedCans mn.mocks c supplied (candidates mn.rules mn.now c))
  let logV := o.log.filter (·.startsWith "v")
  let logC := o.log.filter (·.startsWith "c")
  let logE := o.log.filter (·.startsWith "e")
  -- foreign signers: every signer list handed to a policy is exactly (rule signers ∩ supplied)
  let foreign : Option String := (logC ++ logE).findSome? (fun ev =>
    match (dropS ev 1).splitOn "/" with
    | [_, rid, _, sg] =>
      match mn.rules.find? (fun r => some r.id == rid.toNat?) with
      | some r => if plus (counted r supplied) == sg then none else some ev
      | none => some ev
    | _ => some ev)
  if o.ok then
    if !allValid then some s!"site=c03.sound.signature accepted although a supplied signature does not verify"
    else if logV != (sigs.filterMap (fun (a, g) => match parseSigner a with
        | some (.external v k) => if v ≥ 2 then none else some s!"v{v}.{k}.{g}"
        | _ => none)) then
      some s!"site=c03.sound.verified verifier calls {o.log} do not cover every supplied external signature"
    else if !covered then
      some s!"site=c03.sound.uncovered accepted although some context has no satisfied live rule; chosen={chosen.map (fun p => (p.1, p.2.map (·.id)))}"
    else if foreign.isSome then
      some s!"site=c03.foreign a policy received signers other than (rule signers ∩ supplied): {foreign.getD ""}"
    else if logE != expEnforce then
      some s!"site=c03.sound.enforce enforce calls {logE} but the first satisfied rules require {expEnforce}"
    else if logC != expCans then
      some s!"site=c03.precedence can_enforce calls {logC} but precedence order asks {expCans}"
    else none
  else
    if allValid && covered && enforceAllowed mn.mocks [] expEnforcePols then
      some s!"site=c03.complete rejected although all signatures verify, every context has a satisfied live rule (chosen={chosen.map (fun p => (p.1, p.2.map (·.id)))}) and no enforce hook refuses"
    else if foreign.isSome then
      some s!"site=c03.foreign a policy received signers other than (rule signers ∩ supplied): {foreign.getD ""}"
    else none

def getterCheck (rules : List GRule) (o : Obs) : Option String :=
  -- getters list each type's rules in insertion order = ascending id (ids are handed out increasingly)
  let expect := ["D", "C0", "C1", "C2", "K0", "K1", "K2"].flatMap (fun t => byIdAsc (rules.filter (·.ty == t)))
  let expIds := (byIdAsc rules).map (fun r => s!"{r.id}{r.ty}")
  if o.flagged then some "site=c03.getters the harness flagged an inconsistent getter / rule handed to a policy"
  else if o.rules != expect then some s!"site=c03.getters get_context_rules disagree with the accepted management history"
  else if o.ids != expIds then some s!"site=c03.getters get_context_rule by id {o.ids} disagrees with {expIds}"
  else if o.cnt != rules.length then some s!"site=c03.getters count {o.cnt} but {rules.length} rules"
  else if rules.length > 15 ∨ rules.any (fun r => r.signers.length > 15 ∨ r.policies.length > 5 ∨ (r.signers.isEmpty && r.policies.isEmpty)) then
    some "site=c03.limits a documented limit (15 rules / 15 signers / 5 policies / non-empty) is exceeded"
  else none

def sameSet {α} [BEq α] (a b : List α) : Bool := a.all (b.contains ·) && b.all (a.contains ·)

/-- no two stored rules may have the same type, signer set and policy set (duplicate fingerprint) -/
def fingerprintCheck (rules : List GRule) : Option String :=
  let rec go : List GRule → Option String
    | [] => none
    | r :: rest =>
      match rest.find? (fun q => q.ty == r.ty && sameSet q.signers r.signers && sameSet q.policies r.policies) with
      | some q => some s!"site=c03.fingerprint.duplicate rules {r.id} and {q.id} have identical type, signers and policies"
      | none => go rest
  go rules

def monStep (mn : Mon) (opl obs : String) : Mon × Option String :=
  match parseObs obs with
  | none => (mn, some s!"site=c03.parse unparsable observation {obs}")
  | some o =>
    let ws := words opl
    let mn := { mn with now := o.now }
    match ws with
    | "sa" :: kind :: rest =>
      if kind = "check" ∨ kind = "e2e" then
        let verdict := checkAuthMon mn rest o
        -- ghost budgets move only on an accepted check
        let spent : List Nat := if o.ok then (o.log.filter (·.startsWith "e")).filterMap (fun ev =>
            ((dropS ev 1).splitOn "/").head?.bind String.toNat?) else []
        let mn' := { mn with mocks := mn.mocks.spend spent }
        match verdict with
        | some v => (mn', some v)
        | none => (mn', getterCheck mn'.rules o)
      else if kind = "vset" ∨ kind = "pset" then
        let mn' := { mn with mocks := applySetter mn.mocks ws }
        (mn', getterCheck mn'.rules o)
      else if kind = "ledger" then
        -- pure passage of time: nothing may happen to the rule store
        match getterCheck mn.rules o with
        | some msg => (mn, some s!"site=c03.idle.changed the rule store changed by the mere passage of time (ledger {o.now}): {msg.replace "site=" "was="}")
        | none => (mn, none)
      else
        let mn' := if o.ok then { mn with rules := ghostApply mn.rules ws o } else mn
        match getterCheck mn'.rules o with
        | some msg => (mn', some msg)
        | none => (mn', if o.ok then fingerprintCheck mn'.rules else none)
    | _ => (mn, getterCheck mn.rules o)

def machine : Machine where
  σ := St
  init := initSt
  op := stepLine
  μ := Mon
  minit := fun label =>
    -- the constructor installs rule 0: Default, no expiry, signers s0, policies p0
    let ws := words label
    { rules := [{ id := 0, ty := "D", vu := none, signers := splitList "+" ((kv? ws "s0").getD "-"),
                  policies := sortDedup ((splitList "+" ((kv? ws "p0").getD "-")).filterMap String.toNat?) }] }
  mon := monStep

end OZ.Drv.C03

def main : IO Unit := OZ.Drv.run OZ.Drv.C03.machine
