import OZ.Drv.C20Util
import OZ.Model.RegDocsMon
/-
`docs ...` sub-driver of C20: the document manager (buckets of 50, index map, swap-and-pop).
`docs fill a=<from> b=<to> u= h= ts=` performs `set_document` for the names from..to-1 as
separate invocations and is `ok` iff all of them were accepted.
-/
namespace OZ.Drv.C20.Docs
open OZ.Drv OZ.Drv.C20 OZ.RegDocs OZ.RegDocs.Mon OZ.Reg

structure M where
  s : State
  u : Nat

def initM (ws : List String) : M := { s := init, u := (kvNat? ws "u").getD 0 }

def parseCmd (ws : List String) : Option Cmd :=
  match ws with
  | "docs" :: kind :: rest =>
    match kind with
    | "set" => some (.one (.set (kvN rest "n") (kvN rest "u") (kvN rest "h") (kvN rest "ts")))
    | "remove" => some (.one (.remove (kvN rest "n")))
    | "fill" => some (.fill (kvN rest "a") (kvN rest "b") (kvN rest "u") (kvN rest "h") (kvN rest "ts"))
    | "preload" => some (.preload (kvN rest "n") (kvN rest "u") (kvN rest "h") (kvN rest "ts"))
    | _ => none
  | _ => none

def showDoc (d : Doc) : String := s!"{d.uri}.{d.hash}.{d.ts}"
def showEntry (e : Entry) : String := s!"{e.1}:{showDoc e.2}"

def showState (m : M) (c : Cmd) : String :=
  let s := m.s
  let n := getDocumentCount s
  let l := (List.range (nBuckets n)).flatMap (getDocuments s)
  let names := l.map (·.1)
  let (pn, pi) := probes m.u c n
  let listS := if l.length ≤ 16 then sepBy "," (l.map showEntry)
    else s!"#{digest (l.flatMap (fun e => [e.1, e.2.uri, e.2.hash, e.2.ts]))}"
  let g := pn.map (fun nm => match getDocument s nm with
    | some d => s!"{nm}:{showDoc d}"
    | none => s!"{nm}:x")
  let atL := pi.map (fun i => s!"{i}:{showOpt ((getDocumentByIndex s i).map (·.1))}")
  let bk := (List.range (nBuckets n + 1)).map (fun b => (getDocuments s b).length)
  s!"n={n} list={listS} sum={sum1 names} sq={sumSq names} g={sepBy "," g} at={sepBy "," atL} bk={nats bk}"

def stepLine (m : M) (line : String) : M × String :=
  match parseCmd (words line) with
  | none => (m, "bad-op")
  | some c =>
    let (s', allOk) := (cmdOps c).foldl (fun (acc : State × Bool) op =>
      match step acc.1 op with
      | .ok s2 => (s2, acc.2)
      | .error _ => (acc.1, false)) (m.s, true)
    let m' := { m with s := s' }
    ((m', (if allOk then "ok " else "err ") ++ showState m' c))

/-! ### monitor: parsing only; the checks are `OZ.RegDocs.Mon.checkCore` (OZ/Model/RegDocsMon.lean),
proved sound in OZ/Props/C20eMon.lean -/

def minit (ws : List String) : Mon := { map := [], u := (kvNat? ws "u").getD 0 }

def parseDoc (s : String) : Option Doc :=
  match s.splitOn "." with
  | [a, b, c] => do pure ⟨(← a.toNat?), (← b.toNat?), (← c.toNat?)⟩
  | _ => none

/-- "name:u.h.ts" or "name:x" -/
def parseG (s : String) : List (Nat × Option Doc) :=
  (parts "," s).filterMap (fun e =>
    match e.splitOn ":" with
    | [a, b] => do pure ((← a.toNat?), parseDoc b)
    | _ => none)

def parseAt (s : String) : List (Nat × Option Nat) :=
  (parts "," s).filterMap (fun e =>
    match e.splitOn ":" with
    | [a, b] => do pure ((← a.toNat?), b.toNat?)
    | _ => none)

def parseObs (obs : String) : Obs :=
  let ws := words obs
  let listS := kvS ws "list"
  { ok := ws.head? == some "ok",
    n := kvN ws "n",
    sum := kvN ws "sum",
    sq := kvN ws "sq",
    full := if listS.startsWith "#" then none else some (parseG listS),
    gp := parseG (kvS ws "g"),
    atL := parseAt (kvS ws "at"),
    bk := natList (kvS ws "bk") }

def check (g : Mon) (opl obs : String) : Mon × Option String :=
  match parseCmd (words opl) with
  | none => (g, some s!"site=docs.parse bad op {opl}")
  | some c => checkCore g c (parseObs obs)

/-- the monitor state type, as the dispatcher OZ/Drv/C20.lean names it -/
abbrev MonT := OZ.RegDocs.Mon.Mon

end OZ.Drv.C20.Docs
