import OZ.Drv.C20Util
import OZ.Model.RegDocs
/-
`docs ...` sub-driver of C20: the document manager (buckets of 50, index map, swap-and-pop).
`docs fill a=<from> b=<to> u= h= ts=` performs `set_document` for the names from..to-1 as
separate invocations and is `ok` iff all of them were accepted.
-/
namespace OZ.Drv.C20.Docs
open OZ.Drv OZ.Drv.C20 OZ.RegDocs OZ.Reg

structure M where
  s : State
  u : Nat

def initM (ws : List String) : M := { s := init, u := (kvNat? ws "u").getD 0 }

inductive Cmd where
  | one (op : Op)
  | fill (a b uri hash ts : Nat)
  /-- quick tier's state injection: the state `set_document` leaves for the names 0..n-1 -/
  | preload (n uri hash ts : Nat)

def parseCmd (ws : List String) : Option Cmd :=
  match ws with
  | "docs" :: kind :: rest =>
    match kind with
    | "set" => some (.one (.set (kvN rest "n") (kvN rest "u") (kvN rest "h") (kvN rest "ts")))
    | "remove" => some (.one (.remove (kvN rest "n")))
    | "fill" => some (.fill (kvN rest "a") (kvN rest "b") (kvN rest "u") (kvN rest "h") (kvN rest "ts"))
    | "preload" => some (.preload (kvN rest "n") (kvN rest "u") (kvN rest "h") (kvN rest "ts"))
    | _ => none
  | _ => none

def cmdOps : Cmd → List Op
  | .one op => [op]
  | .fill a b u h ts => (List.range (b - a)).map (fun i => .set (a + i) u h ts)
  | .preload n u h ts => (List.range n).map (fun i => .set i u h ts)

def cmdNames : Cmd → List Nat
  | .one (.set n _ _ _) => [n]
  | .one (.remove n) => [n]
  | .fill a b _ _ _ => [a, b - 1]
  | .preload .. => []

def dedupKeep (l : List Nat) : List Nat := l.foldl (fun acc x => if acc.contains x then acc else acc ++ [x]) []

def probes (u : Nat) (c : Cmd) (n : Nat) : List Nat × List Nat :=
  if u > 0 then (List.range u, List.range (u + 1))
  else (dedupKeep (cmdNames c ++ [0, 1, 49, 50, 51, 4999, 5000]),
        dedupKeep [0, 49, 50, 51, 99, 100, n - 2, n - 1, n])

def showDoc (d : Doc) : String := s!"{d.uri}.{d.hash}.{d.ts}"
def showEntry (e : Entry) : String := s!"{e.1}:{showDoc e.2}"

def nBuckets (n : Nat) : Nat := if n = 0 then 0 else (n - 1) / BUCKET_SIZE + 1

def showState (m : M) (c : Cmd) : String :=
  let s := m.s
  let n := getDocumentCount s
  let l := (List.range (nBuckets n)).flatMap (getDocuments s)
  let names := l.map (·.1)
  let (pn, pi) := probes m.u c n
  let listS := if l.length ≤ 16 then sepBy "," (l.map showEntry)
    else s!"#{digest (l.flatMap (fun e => [e.1, e.2.uri, e.2.hash, e.2.ts]))}"
  let g := pn.map (fun nm => match getDocument s nm with
    | some d => s!"{nm}:{showDoc d}"
    | none => s!"{nm}:x")
  let atL := pi.map (fun i => s!"{i}:{showOpt ((getDocumentByIndex s i).map (·.1))}")
  let bk := (List.range (nBuckets n + 1)).map (fun b => (getDocuments s b).length)
  s!"n={n} list={listS} sum={sum1 names} sq={sumSq names} g={sepBy "," g} at={sepBy "," atL} bk={nats bk}"

def stepLine (m : M) (line : String) : M × String :=
  match parseCmd (words line) with
  | none => (m, "bad-op")
  | some c =>
    let (s', allOk) := (cmdOps c).foldl (fun (acc : State × Bool) op =>
      match step acc.1 op with
      | .ok s2 => (s2, acc.2)
      | .error _ => (acc.1, false)) (m.s, true)
    let m' := { m with s := s' }
    ((m', (if allOk then "ok " else "err ") ++ showState m' c))

/-! ### monitor: the plain map name -> document -/

structure Mon where
  map : List (Nat × Doc)
  u : Nat

def minit (ws : List String) : Mon := { map := [], u := (kvNat? ws "u").getD 0 }

def lookup (g : Mon) (n : Nat) : Option Doc := (g.map.find? (fun e => e.1 == n)).map (·.2)

def plainOne (g : Mon) (op : Op) : Except String Mon :=
  match op with
  | .set n u h ts =>
    if u > 200 then .error "limit.set_document.uri"
    else if (lookup g n).isSome then .ok { g with map := g.map.map (fun e => if e.1 == n then (n, ⟨u, h, ts⟩) else e) }
    else if g.map.length ≥ 5000 then .error "limit.set_document.documents"
    else .ok { g with map := g.map ++ [(n, ⟨u, h, ts⟩)] }
  | .remove n => if (lookup g n).isSome then .ok { g with map := g.map.filter (fun e => e.1 ≠ n) } else .error "absent"

def parseDoc (s : String) : Option Doc :=
  match s.splitOn "." with
  | [a, b, c] => do pure ⟨(← a.toNat?), (← b.toNat?), (← c.toNat?)⟩
  | _ => none

/-- "name:u.h.ts" or "name:x" -/
def parseG (s : String) : List (Nat × Option Doc) :=
  (parts "," s).filterMap (fun e =>
    match e.splitOn ":" with
    | [a, b] => do pure ((← a.toNat?), parseDoc b)
    | _ => none)

def parseAt (s : String) : List (Nat × Option Nat) :=
  (parts "," s).filterMap (fun e =>
    match e.splitOn ":" with
    | [a, b] => do pure ((← a.toNat?), b.toNat?)
    | _ => none)

def check (g : Mon) (opl obs : String) : Mon × Option String :=
  let ws := words obs
  let ok := ws.head? == some "ok"
  match parseCmd (words opl) with
  | none => (g, some s!"site=docs.parse bad op {opl}")
  | some c =>
    -- a `fill` commits the accepted prefix ops one by one
    let (gP, allOk, firstWhy, nearLimit) := (cmdOps c).foldl (fun (acc : Mon × Bool × String × Bool) op =>
      match plainOne acc.1 op with
      | .ok g' => (g', acc.2.1, acc.2.2.1, acc.2.2.2 || (acc.1.map.length = 4999 ∧ g'.map.length = 5000))
      | .error why => (acc.1, false, (if acc.2.1 then why else acc.2.2.1), acc.2.2.2)) (g, true, "", false)
    let accept : Option String :=
      if ok = allOk then none
      else if ok then some (acceptedSite "docs" firstWhy)
      else some (refusedSite "docs" (if nearLimit then "limit.set_document.documents"
                                    else if (cmdOps c).any (fun o => match o with | .set _ u _ _ => u = 200 | _ => false)
                                    then "limit.set_document.uri" else "valid"))
    let g2 := gP
    let n := kvN ws "n"
    let listS := kvS ws "list"
    let full : Option (List (Nat × Option Doc)) := if listS.startsWith "#" then none else some (parseG listS)
    let gp := parseG (kvS ws "g")
    let atL := parseAt (kvS ws "at")
    let bk := natList (kvS ws "bk")
    let names := g2.map.map (·.1)
    let bkWant := (List.range (nBuckets n + 1)).map (fun b => min 50 (n - 50 * b))
    let fail := firstFail [accept,
      chk (n = g2.map.length) s!"site=docs.count get_document_count = {n} but the plain map has {g2.map.length} entries",
      chk (kvN ws "sum" = sum1 names ∧ kvN ws "sq" = sumSq names) "site=docs.enumerates_once the buckets do not enumerate the plain map's names once each (sums differ)",
      (match full with
        | some l => chk (nodupB (l.map (·.1)) ∧ sameSet (l.map (·.1)) names ∧ l.all (fun e => e.2 == lookup g2 e.1))
            s!"site=docs.enumerates_once the enumeration by index differs from the plain map"
        | none => none),
      chk (gp.all (fun (nm, d) => d == lookup g2 nm)) "site=docs.map get_document differs from the plain map",
      chk (atL.all (fun (i, v) => (v.isSome == decide (i < n)) && (match v with | some nm => (lookup g2 nm).isSome | none => true)))
        "site=docs.index get_document_by_index succeeds exactly below the count, and yields a stored name",
      chk (bk = bkWant) s!"site=docs.buckets bucket lengths {bk} are not {bkWant}"]
    (g2, fail)

end OZ.Drv.C20.Docs
