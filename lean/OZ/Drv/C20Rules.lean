import OZ.Drv.C20Util
import OZ.Model.RegRulesMon
/-
`rules ...` sub-driver of C20: the context rules of a smart account (the real
`examples/multisig-smart-account/account` contract, whose constructor installs rule 0).
Universe: context types 0..3, signers 0..17, policies 0..6 (policy 5's `uninstall` panics, which
the account swallows; policy 6's `install` panics). Label: `now=<ledger> s0=<signers> p0=<policies>`.
The universe constants, the oracle `installOk` and the printing helpers `showVu`, `showRule`,
`liveRules` live in OZ/Model/RegRulesMon.lean (shared with the monitor core and its soundness proof).
-/
namespace OZ.Drv.C20.Rules
open OZ.Drv OZ.Drv.C20 OZ.RegRules OZ.RegRules.Mon

-- the dispatcher OZ/Drv/C20.lean names the oracle `Rules.installOk`
export OZ.RegRules.Mon (installOk)

structure M where
  s : State

def dedupSort (l : List Nat) : List Nat := (sortN l).eraseDups

def initM (ws : List String) : M :=
  let s0 := init ((kvNat? ws "now").getD 100)
  match addContextRule installOk s0 0 0 none (kvL ws "s0") (dedupSort (kvL ws "p0")) with
  | .ok s => { s := s }
  | .error _ => { s := s0 }

def parseVu (s : String) : Option Nat := s.toNat?

def showState (m : M) : String :=
  let s := m.s
  let R := (liveRules s).map showRule
  let T := (List.range NC).map (fun c => match getContextRules s c with
    | some l => s!"{c}:{nats (l.map (·.id))}"
    | none => s!"{c}:x")
  let fpsLive := (liveRules s).filterMap (fun r => match computeFp r.ctx r.signers r.policies with
    | .ok fp => some fp
    | .error _ => none)
  let fpok := fpsLive.length = (liveRules s).length ∧ fpsLive.all s.fps.contains
  s!"n={getContextRulesCount s} R={sepBy ";" R} T={sepBy ";" T} nfp={s.fps.length} fpd={fpsLive.eraseDups.length} fpok={bit fpok}"

def parseOp (ws : List String) : Option Op :=
  match ws with
  | "rules" :: kind :: rest =>
    let id := kvN rest "id"
    match kind with
    | "add" => some (.add (kvN rest "c") (kvN rest "n") (parseVu (kvS rest "vu")) (kvL rest "sg") (dedupSort (kvL rest "ps")))
    | "rename" => some (.rename id (kvN rest "n"))
    | "revalid" => some (.revalid id (parseVu (kvS rest "vu")))
    | "remove" => some (.remove id)
    | "add_signer" => some (.addSigner id (kvN rest "sg"))
    | "remove_signer" => some (.removeSigner id (kvN rest "sg"))
    | "add_policy" => some (.addPolicy id (kvN rest "p"))
    | "remove_policy" => some (.removePolicy id (kvN rest "p"))
    | _ => none
  | _ => none

def stepLine (m : M) (line : String) : M × String :=
  match parseOp (words line) with
  | none => (m, "bad-op")
  | some op =>
    match step installOk m.s op with
    | .ok s' =>
      let ret := match op with
        | .add .. => toString m.s.nextId
        | _ => "-"
      let m' : M := { s := s' }
      (m', s!"ok ret={ret} " ++ showState m')
    | .error _ => (m, "err ret=- " ++ showState m)

/-! ### monitor: parsing only; the checks are `OZ.RegRules.Mon.checkCore` (OZ/Model/RegRulesMon.lean),
proved sound in OZ/Props/C20dMon.lean -/

def minit (ws : List String) : Mon :=
  { rules := [⟨0, 0, 0, none, kvL ws "s0", dedupSort (kvL ws "p0")⟩], maxId := 0, now := (kvNat? ws "now").getD 100 }

def parseObs (obs : String) : Obs :=
  let ws := words obs
  { ok := ws.head? == some "ok",
    ret := (kvS ws "ret").toNat?,
    n := kvN ws "n",
    R := kvS ws "R",
    T := kvS ws "T",
    nfp := kvN ws "nfp",
    fpd := kvN ws "fpd",
    fpok := kvS ws "fpok" }

def check (g : Mon) (opl obs : String) : Mon × Option String :=
  match parseOp (words opl) with
  | none => (g, some s!"site=rules.parse bad op {opl}")
  | some op => checkCore g op (parseObs obs)

/-- the monitor state type, as the dispatcher OZ/Drv/C20.lean names it -/
abbrev MonT := OZ.RegRules.Mon.Mon

end OZ.Drv.C20.Rules
