import OZ.Drv.C20Util
import OZ.Model.RegRules
/-
`rules ...` sub-driver of C20: the context rules of a smart account (the real
`examples/multisig-smart-account/account` contract, whose constructor installs rule 0).
Universe: context types 0..3, signers 0..17, policies 0..6 (policy 5's `uninstall` panics, which
the account swallows; policy 6's `install` panics). Label: `now=<ledger> s0=<signers> p0=<policies>`.
-/
namespace OZ.Drv.C20.Rules
open OZ.Drv OZ.Drv.C20 OZ.RegRules

def NC : Nat := 4
def installOk (p : Nat) : Bool := p ≠ 6

structure M where
  s : State

def dedupSort (l : List Nat) : List Nat := (sortN l).eraseDups

def initM (ws : List String) : M :=
  let s0 := init ((kvNat? ws "now").getD 100)
  match addContextRule installOk s0 0 0 none (kvL ws "s0") (dedupSort (kvL ws "p0")) with
  | .ok s => { s := s }
  | .error _ => { s := s0 }

def showVu (v : Option Nat) : String := match v with | some x => toString x | none => "none"
def parseVu (s : String) : Option Nat := s.toNat?

def showRule (r : Rule) : String :=
  s!"{r.id}:{r.ctx}:{r.name}:{showVu r.validUntil}:{nats r.signers}:{nats r.policies}"

def liveRules (s : State) : List Rule := (List.range (s.nextId + 1)).filterMap (getContextRule s)

def showState (m : M) : String :=
  let s := m.s
  let R := (liveRules s).map showRule
  let T := (List.range NC).map (fun c => match getContextRules s c with
    | some l => s!"{c}:{nats (l.map (·.id))}"
    | none => s!"{c}:x")
  let fpsLive := (liveRules s).filterMap (fun r => match computeFp r.ctx r.signers r.policies with
    | .ok fp => some fp
    | .error _ => none)
  let fpok := fpsLive.length = (liveRules s).length ∧ fpsLive.all s.fps.contains
  s!"n={getContextRulesCount s} R={sepBy ";" R} T={sepBy ";" T} nfp={s.fps.length} fpd={fpsLive.eraseDups.length} fpok={bit fpok}"

def parseOp (ws : List String) : Option Op :=
  match ws with
  | "rules" :: kind :: rest =>
    let id := kvN rest "id"
    match kind with
    | "add" => some (.add (kvN rest "c") (kvN rest "n") (parseVu (kvS rest "vu")) (kvL rest "sg") (dedupSort (kvL rest "ps")))
    | "rename" => some (.rename id (kvN rest "n"))
    | "revalid" => some (.revalid id (parseVu (kvS rest "vu")))
    | "remove" => some (.remove id)
    | "add_signer" => some (.addSigner id (kvN rest "sg"))
    | "remove_signer" => some (.removeSigner id (kvN rest "sg"))
    | "add_policy" => some (.addPolicy id (kvN rest "p"))
    | "remove_policy" => some (.removePolicy id (kvN rest "p"))
    | _ => none
  | _ => none

def stepLine (m : M) (line : String) : M × String :=
  match parseOp (words line) with
  | none => (m, "bad-op")
  | some op =>
    match step installOk m.s op with
    | .ok s' =>
      let ret := match op with
        | .add .. => toString m.s.nextId
        | _ => "-"
      let m' : M := { s := s' }
      (m', s!"ok ret={ret} " ++ showState m')
    | .error _ => (m, "err ret=- " ++ showState m)

/-! ### monitor: the plain list of rules, their ids, and the set of their fingerprints -/

structure GR where
  id : Nat
  ctx : Nat
  name : Nat
  vu : Option Nat
  sg : List Nat
  ps : List Nat

structure Mon where
  rules : List GR
  maxId : Nat            -- highest id ever handed out
  now : Nat

def minit (ws : List String) : Mon :=
  { rules := [⟨0, 0, 0, none, kvL ws "s0", dedupSort (kvL ws "p0")⟩], maxId := 0, now := (kvNat? ws "now").getD 100 }

def find (g : Mon) (id : Nat) : Option GR := g.rules.find? (fun r => r.id == id)
def put (g : Mon) (r : GR) : Mon := { g with rules := g.rules.map (fun x => if x.id == r.id then r else x) }
/-- the fingerprint as a plain triple of sets -/
def sameFp (c : Nat) (sg ps : List Nat) (r : GR) : Bool := r.ctx == c && sameSet r.sg sg && sameSet r.ps ps
def past (g : Mon) (vu : Option Nat) : Bool := match vu with | some v => v < g.now | none => false
def showGR (r : GR) : String := s!"{r.id}:{r.ctx}:{r.name}:{showVu r.vu}:{nats r.sg}:{nats r.ps}"

def plain (g : Mon) (op : Op) : Except String Mon :=
  match op with
  | .add c n vu sg ps =>
    if g.rules.length ≥ 15 then .error "limit.add_context_rule.rules"
    else if !nodupB sg then .error "dup_signer"
    else if past g vu then .error "past_valid_until"
    else if sg.length > 15 then .error "limit.add_context_rule.signers"
    else if ps.length > 5 then .error "limit.add_context_rule.policies"
    else if sg = [] ∧ ps = [] then .error "empty"
    else if g.rules.any (sameFp c sg ps) then .error "dup_fingerprint"
    else if !ps.all installOk then .error "install_refused"
    else .ok { g with rules := g.rules ++ [⟨g.maxId + 1, c, n, vu, sg, ps⟩], maxId := g.maxId + 1 }
  | .rename id n => match find g id with
    | some r => .ok (put g { r with name := n })
    | none => .error "absent"
  | .revalid id vu => match find g id with
    | some r => if past g vu then .error "past_valid_until" else .ok (put g { r with vu := vu })
    | none => .error "absent"
  | .remove id => if (find g id).isSome then .ok { g with rules := g.rules.filter (fun r => r.id ≠ id) } else .error "absent"
  | .addSigner id s => match find g id with
    | none => .error "absent"
    | some r =>
      if r.sg.contains s then .error "dup"
      else if r.sg.length + 1 > 15 then .error "limit.add_signer.signers"
      else if g.rules.any (sameFp r.ctx (r.sg ++ [s]) r.ps) then .error "dup_fingerprint"
      else .ok (put g { r with sg := r.sg ++ [s] })
  | .removeSigner id s => match find g id with
    | none => .error "absent"
    | some r =>
      if !r.sg.contains s then .error "absent"
      else if r.sg.erase s = [] ∧ r.ps = [] then .error "empty"
      else if g.rules.any (sameFp r.ctx (r.sg.erase s) r.ps) then .error "dup_fingerprint"
      else .ok (put g { r with sg := r.sg.erase s })
  | .addPolicy id p => match find g id with
    | none => .error "absent"
    | some r =>
      if r.ps.contains p then .error "dup"
      else if !installOk p then .error "install_refused"
      else if r.ps.length + 1 > 5 then .error "limit.add_policy.policies"
      else if g.rules.any (sameFp r.ctx r.sg (r.ps ++ [p])) then .error "dup_fingerprint"
      else .ok (put g { r with ps := r.ps ++ [p] })
  | .advance n => .ok { g with now := g.now + n }
  | .removePolicy id p => match find g id with
    | none => .error "absent"
    | some r =>
      if !r.ps.contains p then .error "absent"
      else if r.sg = [] ∧ r.ps.erase p = [] then .error "empty"
      else if g.rules.any (sameFp r.ctx r.sg (r.ps.erase p)) then .error "dup_fingerprint"
      else .ok (put g { r with ps := r.ps.erase p })

def check (g : Mon) (opl obs : String) : Mon × Option String :=
  let ws := words obs
  let ok := ws.head? == some "ok"
  match parseOp (words opl) with
  | none => (g, some s!"site=rules.parse bad op {opl}")
  | some op =>
    let (g1, accept) : Mon × Option String :=
      match plain g op, ok with
      | .ok g', true => (g', none)
      | .error _, false => (g, none)
      | .ok _, false => (g, some (
          let near := match op with
            | .add _ _ _ sg ps => if g.rules.length = 14 then "limit.add_context_rule.rules"
                                  else if sg.length = 15 then "limit.add_context_rule.signers"
                                  else if ps.length = 5 then "limit.add_context_rule.policies" else "valid"
            | .addSigner id _ => (match find g id with
                | some r => if r.sg.length = 14 then "limit.add_signer.signers" else "valid"
                | none => "valid")
            | .addPolicy id _ => (match find g id with
                | some r => if r.ps.length = 4 then "limit.add_policy.policies" else "valid"
                | none => "valid")
            | _ => "valid"
          refusedSite "rules" near))
      | .error why, true => (g, some (acceptedSite "rules" why))
    -- ids are handed out once: the id returned by an accepted `add` is above every earlier one
    let ret := (kvS ws "ret").toNat?
    let (g2, idFail) : Mon × Option String := match op, ok with
      | .add c n vu sg ps, true =>
        (match ret with
        | some id =>
          if id ≤ g.maxId then (g1, some s!"site=rules.id_reused add_context_rule returned id {id}, not above the highest id handed out so far ({g.maxId})")
          else if accept.isNone then
            -- follow the implementation's id (the plain set only requires freshness)
            ({ g1 with rules := g.rules ++ [⟨id, c, n, vu, sg, ps⟩], maxId := id }, none)
          else (g1, none)
        | none => (g1, some "site=rules.id_reused an accepted add_context_rule returned no id"))
      | _, _ => (g1, none)
    let rWant := sepBy ";" (g2.rules.map showGR)
    let tWant := sepBy ";" ((List.range NC).map (fun c => s!"{c}:{nats ((g2.rules.filter (fun r => r.ctx == c)).map (·.id))}"))
    let n := g2.rules.length
    let fail := firstFail [accept, idFail,
      chk (kvN ws "n" = n) s!"site=rules.count get_context_rules_count = {kvN ws "n"} but the plain rule set has {n}",
      chk (kvS ws "R" = rWant) s!"site=rules.map get_context_rule over all ids = {kvS ws "R"} but the plain rule set is {rWant}",
      chk (kvS ws "T" = tWant) s!"site=rules.enumerates_once get_context_rules per type = {kvS ws "T"} but the plain rule set gives {tWant}",
      chk (kvN ws "nfp" = n ∧ kvN ws "fpd" = n ∧ kvS ws "fpok" = "1")
        s!"site=rules.fingerprints stored fingerprints {kvN ws "nfp"}, distinct fingerprints of the live rules {kvN ws "fpd"}, all present {kvS ws "fpok"}: not the image of the {n} rules"]
    (g2, fail)

end OZ.Drv.C20.Rules
