import OZ.DrvUtil
import OZ.Model.RegUtil
/-
Printing / parsing helpers shared by the eight sub-drivers of C20, and the tiny "plain set"
vocabulary of the monitors (lists used as sets; the monitors never call a model function).
-/
namespace OZ.Drv.C20
open OZ.Drv

def bit (b : Bool) : String := if b then "1" else "0"
def bits (l : List Bool) : String := if l.isEmpty then "-" else "".intercalate (l.map bit)

def nats (l : List Nat) : String := showList toString l
def sepBy (sep : String) (l : List String) : String := if l.isEmpty then "-" else sep.intercalate l

def kvS (ws : List String) (k : String) : String := (kv? ws k).getD "-"
def kvN (ws : List String) (k : String) : Nat := (kvNat? ws k).getD 0
def kvL (ws : List String) (k : String) : List Nat := natList (kvS ws k)

/-- split "a;b;c" (or "-" = nothing) -/
def parts (sep : String) (s : String) : List String := if s = "-" ∨ s = "" then [] else s.splitOn sep

def optNat (s : String) : Option Nat := s.toNat?
def showOpt (o : Option Nat) : String := match o with | some v => toString v | none => "x"

/-- "none" / "x" / number -/
def parseOptNat (s : String) : Option Nat := s.toNat?

/-! plain-set helpers for monitors -/
def sameSet [BEq α] (a b : List α) : Bool := a.all (b.contains ·) && b.all (a.contains ·)
def nodupB [BEq α] : List α → Bool
  | [] => true
  | x :: xs => !xs.contains x && nodupB xs
def sortN (l : List Nat) : List Nat := l.mergeSort (fun a b => decide (a ≤ b))
def sortP (l : List (Nat × Nat)) : List (Nat × Nat) :=
  l.mergeSort (fun a b => decide (a.1 < b.1 ∨ (a.1 = b.1 ∧ a.2 ≤ b.2)))

/-- a failed monitor check: the first `some` wins -/
def firstFail (l : List (Option String)) : Option String := l.findSome? id

def chk (c : Bool) (msg : String) : Option String := if c then none else some msg

/-- verdict sites. A capacity limit is named per ENTRY POINT: `limit.<entry point>.<capacity>`;
`..._exact_refused` = the implementation refused an operation that lands exactly on the documented
capacity, `..._over_accepted` = it accepted one that goes past it. -/
def refusedSite (reg near : String) : String :=
  if near.startsWith "limit." then
    s!"site={reg}.{near}_exact_refused the implementation refused an operation that reaches the documented capacity exactly (the plain structure with its documented limits accepts it)"
  else s!"site={reg}.{near}_refused the implementation refused an operation the plain structure (with its documented limits) accepts"

def acceptedSite (reg why : String) : String :=
  if why.startsWith "limit." then
    s!"site={reg}.{why}_over_accepted the implementation accepted an operation that exceeds the documented capacity ({why})"
  else s!"site={reg}.{why}_accepted the implementation accepted an operation the plain structure refuses ({why})"

/-- `a..b` (half open) or a comma list -/
def rangeOrList (s : String) : List Nat :=
  match s.splitOn ".." with
  | [a, b] => match a.toNat?, b.toNat? with
    | some a, some b => (List.range (b - a)).map (· + a)
    | _, _ => []
  | _ => natList s

end OZ.Drv.C20
