import OZ.DrvUtil
import OZ.Model.RegUtil
import OZ.Model.RegMonUtil
/-
Printing / parsing helpers shared by the eight sub-drivers of C20. The printing helpers the monitors
compare with, the tiny "plain set" vocabulary of the monitors (lists used as sets; the monitors never
call a model function) and the verdict sites live in OZ/Model/RegMonUtil.lean (re-exported here).
-/
namespace OZ.Drv.C20
open OZ.Drv

export OZ.RegMon (bit bits nats sepBy showOpt sameSet nodupB firstFail chk refusedSite acceptedSite decide2)

def kvS (ws : List String) (k : String) : String := (kv? ws k).getD "-"
def kvN (ws : List String) (k : String) : Nat := (kvNat? ws k).getD 0
def kvL (ws : List String) (k : String) : List Nat := natList (kvS ws k)

/-- split "a;b;c" (or "-" = nothing) -/
def parts (sep : String) (s : String) : List String := if s = "-" ∨ s = "" then [] else s.splitOn sep

def optNat (s : String) : Option Nat := s.toNat?

/-- "none" / "x" / number -/
def parseOptNat (s : String) : Option Nat := s.toNat?

def sortN (l : List Nat) : List Nat := l.mergeSort (fun a b => decide (a ≤ b))
def sortP (l : List (Nat × Nat)) : List (Nat × Nat) :=
  l.mergeSort (fun a b => decide (a.1 < b.1 ∨ (a.1 = b.1 ∧ a.2 ≤ b.2)))

/-- `a..b` (half open) or a comma list -/
def rangeOrList (s : String) : List Nat :=
  match s.splitOn ".." with
  | [a, b] => match a.toNat?, b.toNat? with
    | some a, some b => (List.range (b - a)).map (· + a)
    | _, _ => []
  | _ => natList s

end OZ.Drv.C20
