import OZ.Drv.FungibleIO
import OZ.Model.GatesMon
import OZ.Model.GatesStkMon
/-
Driver for C16 (pause, allow / block lists, cap, migration flag).

`op` runs the model (OZ.Gates, through `OZ.Gates.Mon.stepM`) of the contract named by `kind=` in the
sequence label and prints its observation (`obsLine` prints the fields of `OZ.Gates.Mon.stableOf`).
`mon` evaluates the property's conclusion directly on the IMPLEMENTATION's observations (it never
calls the model's transition functions):
  * an entry point declared pausable is rejected while the ghost `paused` flag is set,
    `emergency_reset` is rejected while it is not, pause / unpause alternate, the flag only
    moves through an accepted pause / unpause by the owner;
  * every accepted transfer / transfer_from / approve / burn / burn_from had all its vetted
    parties allowed (not blocked) according to the monitor's own ghost list, which is built
    from the accepted allow / disallow / block / unblock calls and cross-checked against the
    `allowed` / `blocked` getters after every call; a list change that does not flip the status of
    the account emits no list event and changes nothing, one that does emits exactly the matching event;
  * total supply <= cap after every call of the capped token;
  * a migration completes only if an enable / upgrade happened since the last completion;
  * a rejected call changes nothing that is observed.

This file only parses (`parseLabel`, `parseLine`, `parseObs`, `minitM`) and calls the monitor core
`OZ.Gates.Mon.checkCore` (OZ/Model/GatesMon.lean), which OZ/Props/C16Mon.lean proves sound (it
reports nothing on any observation sequence of the model, for all eight machines).

Ninth machine `stk` (label `kind=stk`, also written `m=stk`; harness contract `stk::Stacked`: entry points
stacking an authorization guard and a pause guard in both orders of the attributes): it has its own small
model side and monitor core, `OZ.Gates.Stk.Mon.stepM` / `checkCore` (OZ/Model/GatesStkMon.lean, proved sound
in OZ/Props/C16StkMon.lean); `machine` dispatches on the label (`Sigma`/`MonSt`), this file only parses
(`parseStkOp`, `parseStkLine`, `parseStkObs`) and prints (`stkObsLine`) for it. The lines and `site=` tokens
of the other eight machines are unchanged.
Not covered by that theorem (string level, kept here): the parsers themselves (an absent or
malformed field of an observation reads as its default; a rejected call is compared with the
previous observation on the PARSED getters, i.e. every word of the line but the tag, `ev=`, `dem=`
and `ret=`), and the skip of `harness-panic` lines in `check`.
-/
namespace OZ.Drv.C16
open OZ.Drv OZ.Drv.FungibleIO OZ.Fungible OZ.Host OZ.Gates OZ.Gates.Mon

structure M where
  cfg : Cfg
  x : MSt

structure Label where
  kind : String
  owner : Nat
  mgr : Nat
  init : Int
  cap : Int
  ver : Nat
  minTemp : Nat
  start : Nat
  maxTtl : Nat
  adm : Nat := 0        -- machine `stk` only

def parseLabel (label : String) : Label :=
  let ws := words label
  { kind := (kv? ws "kind").getD "", owner := (kvNat? ws "owner").getD 0, mgr := (kvNat? ws "mgr").getD 0,
    init := (kvInt? ws "init").getD 0, cap := (kvInt? ws "cap").getD 0, ver := (kvNat? ws "ver").getD 0,
    minTemp := (kvNat? ws "min_temp").getD 1, start := (kvNat? ws "start").getD 100,
    maxTtl := (kvNat? ws "max_ttl").getD MAX_TTL, adm := (kvNat? ws "adm").getD 0 }

def parseMKind (s : String) : MKind :=
  match s with
  | "ptok" => .ptok
  | "pcnt" => .pcnt
  | "alib" => .alib
  | "blib" => .blib
  | "aex" => .aex
  | "bex" => .bex
  | "cap" => .cap
  | "mig" => .mig
  | s => .other s

/-- the parameters of a sequence, as both the model side (`initM`) and the monitor (`minitM`) read them -/
def paramsOf (l : Label) : Params :=
  { kind := parseMKind l.kind, owner := l.owner, mgr := l.mgr, init := l.init, cap := l.cap, ver := l.ver,
    start := l.start }

def initM (label : String) : M :=
  let l := parseLabel label
  { cfg := ⟨l.minTemp, l.maxTtl⟩, x := OZ.Gates.Mon.initM (paramsOf l) }

/-! ### op lines -/

def parseGate (ws : List String) : Option (List Nat × GOp) :=
  match ws with
  | "gate" :: name :: rest =>
    let a := natList ((kv? rest "a").getD "-")
    let d := natList ((kv? rest "d").getD "-")
    let auth := natList ((kv? rest "auth").getD "-")
    let lst (on : Bool) : Option (List Nat × GOp) :=
      match a with
      | [u] => some (auth, .setList u on none)
      | [u, o] => some (auth, .setList u on (some o))
      | _ => none
    match name, a, d with
    | "pause", [c], _ => some (auth, .pause c)
    | "unpause", [c], _ => some (auth, .unpause c)
    | "increment", _, _ => some (auth, .increment)
    | "reset", _, _ => some (auth, .reset)
    | "allow", _, _ => lst true
    | "block", _, _ => lst true
    | "disallow", _, _ => lst false
    | "unblock", _, _ => lst false
    | "enable", _, _ => some (auth, .enable)
    | "ensure", _, _ => some (auth, .ensure)
    | "complete", _, _ => some (auth, .complete)
    | "migrate", [o], [d1, d2] => some (auth, .migrate (d1, d2) o)
    | "upgrade", [o], _ => some (auth, .upgrade o)
    | "setcap", _, _ => (kvInt? rest "c").map (fun c => (auth, .setCap c))
    | _, _, _ => none
  | _ => none

def parseAny (line : String) : Option (List Nat × GOp) :=
  let ws := words line
  match parseOp ws with
  | some (auth, o) => some (auth, .tok o)
  | none => parseGate ws

/-! ### printing -/

def showG : GEvent → String
  | .paused => "paused"
  | .unpaused => "unpaused"
  | .userAllowed u => s!"allowed:{u}"
  | .userDisallowed u => s!"disallowed:{u}"
  | .userBlocked u => s!"blocked:{u}"
  | .userUnblocked u => s!"unblocked:{u}"

def b01 (b : Bool) : String := if b then "1" else "0"

/-- the getters of the machine, taken from the structured observation `o = stableOf x` -/
def extra (st : St) (o : Stable) : String :=
  match st with
  | .ptok _ => s!"paused={b01 o.paused}"
  | .pcnt _ => s!"counter={o.counter} paused={b01 o.paused}"
  | .alib _ => s!"list={String.join (o.list.map b01)}"
  | .blib _ => s!"list={String.join (o.list.map b01)}"
  | .aex _ => s!"list={String.join (o.list.map b01)}"
  | .bex _ => s!"list={String.join (o.list.map b01)}"
  | .cap _ => s!"cap={showCap o.cap}"
  | .mig _ _ =>
    let d := match o.data with | some (a, b) => s!"{a}:{b}" | none => "-"
    s!"migrating={b01 o.migrating} data={d} wasm={b01 o.wasm}"
  | .bad => "bad"

/-- the observation line of model state `x`: every printed getter is a field of
`OZ.Gates.Mon.stableOf x`, the structured observation of the monitor-soundness theorem -/
def obsLine (tag : String) (x : MSt) (ret ev dem : String) : String :=
  let o := stableOf x
  match tokOf x.st with
  | some _ => s!"{tag} {showSBA o.sup o.bal o.allow} now={o.now} ev={ev} dem={dem} {extra x.st o}"
  | none => s!"{tag} ret={ret} now={o.now} ev={ev} dem={dem} {extra x.st o}"

/-- one op line through the model (`OZ.Gates.Mon.stepM`); this function only parses the op and
prints the observation -/
def stepLine (m : M) (line : String) : M × String :=
  match parseAny line with
  | none => (m, "bad-op")
  | some (auth, op) =>
    let r := stepM m.cfg m.x auth op
    if r.2 then
      let fev := match tokOf m.x.st, tokOf r.1.st with
        | some t, some t' => (t'.events.drop t.events.length).map showEvent
        | _, _ => []
      let gev := (newEvents m.x.st r.1.st).map showG
      let evs := fev ++ gev
      let dem := match op with
        | .tok (.advance _) => "-"
        | _ => showList toString ((demandedBy m.x.st op).mergeSort (· ≤ ·))
      ({ m with x := r.1 },
        obsLine "ok" r.1 (retOf r.1.st op) (if evs.isEmpty then "-" else ";".intercalate evs) dem)
    else (m, obsLine "err" m.x "-" "-" "-")

/-! ### the monitor (implementation side): parsing only -/

def minitM (label : String) : Mon := monInit (paramsOf (parseLabel label))

def parseGName (s : String) : GName :=
  match s with
  | "pause" => .pause
  | "unpause" => .unpause
  | "increment" => .increment
  | "reset" => .reset
  | "allow" => .allow
  | "block" => .block
  | "disallow" => .disallow
  | "unblock" => .unblock
  | "enable" => .enable
  | "ensure" => .ensure
  | "complete" => .complete
  | "migrate" => .migrate
  | "upgrade" => .upgrade
  | "setcap" => .setcap
  | s => .other s

def parseCall (ws : List String) : Call :=
  match ws.head?.getD "" with
  | "fungible" => .fungible (parseKind ((ws.drop 1).head?.getD ""))
  | "gate" => .gate (parseGName ((ws.drop 1).head?.getD ""))
  | _ => .other

/-- the op line as the monitor reads it (never fails: absent fields read as empty / 0) -/
def parseLine (opl : String) : Line :=
  let ws := words opl
  { call := parseCall ws,
    a := natList ((kv? ws "a").getD "-"),
    auth := natList ((kv? ws "auth").getD "-"),
    n := (kvNat? ws "n").getD 0 }

def parseData (s : String) : Option (Nat × Nat) :=
  match s.splitOn ":" with
  | [a, b] => do pure ((← a.toNat?), (← b.toNat?))
  | _ => none

/-- the list-change events of the `ev=` word (`allowed:<u>`, `disallowed:<u>`, `blocked:<u>`, `unblocked:<u>`;
everything else — token events, `paused` / `unpaused` — is not a list event) -/
def parseLev (s : String) : List GEvent :=
  (s.splitOn ";").filterMap fun t =>
    match t.splitOn ":" with
    | ["allowed", u] => u.toNat?.map GEvent.userAllowed
    | ["disallowed", u] => u.toNat?.map GEvent.userDisallowed
    | ["blocked", u] => u.toNat?.map GEvent.userBlocked
    | ["unblocked", u] => u.toNat?.map GEvent.userUnblocked
    | _ => none

/-- the observation line as the monitor reads it (never fails: absent fields read as defaults) -/
def parseObs (obs : String) : Obs :=
  let ows := words obs
  let alS := (kv? ows "allow").getD "-"
  { ok := ows.head? = some "ok",
    st := {
      sup := (kvInt? ows "sup").getD 0,
      bal := intList ((kv? ows "bal").getD "-"),
      allow := if alS = "-" then [] else (alS.splitOn ";").filterMap (fun t =>
        match t.splitOn ":" with
        | [o, s, a] => do pure ((← o.toNat?), (← s.toNat?), (← a.toInt?))
        | _ => none),
      now := (kvNat? ows "now").getD 0,
      paused := (kv? ows "paused") == some "1",
      counter := (kvInt? ows "counter").getD 0,
      list := ((kv? ows "list").getD "").toList.map (· == '1'),
      cap := (kv? ows "cap").bind String.toInt?,
      migrating := (kv? ows "migrating") == some "1",
      data := ((kv? ows "data").bind parseData),
      wasm := (kv? ows "wasm") == some "1" },
    lev := parseLev ((kv? ows "ev").getD "-") }

def check (m : Mon) (opl obs : String) : Mon × Option String :=
  -- a sequence the harness could not run (e.g. the constructor trapped): no observation to judge;
  -- the line still breaks the correspondence because the model has no such answer
  if (words obs).any (· == "harness-panic") then (m, none) else
  checkCore m (parseLine opl) (parseObs obs)

/-! ### machine `stk` (stacked guards): parsing and printing only -/

namespace StkIO
open OZ.Gates.Stk OZ.Gates.Stk.Mon

def parseFn (s : String) : Option Fn :=
  match s with
  | "inc_a" => some .incA | "inc_b" => some .incB | "reset_a" => some .resetA | "reset_b" => some .resetB
  | "inc_c" => some .incC | "inc_d" => some .incD | "reset_c" => some .resetC | "reset_d" => some .resetD
  | "inc_r" => some .incR | "inc_r2" => some .incR2 | "reset_r" => some .resetR | "reset_r2" => some .resetR2
  | _ => none

/-- the parameters of a `kind=stk` label (`mgr=`: the holder of the role "op") -/
def paramsOf (l : Label) : Stk.Mon.Params := { owner := l.owner, admin := l.adm, opr := l.mgr, start := l.start }

/-- the op line as the model side reads it -/
def parseOp (line : String) : Option (List Nat × SOp) :=
  match words line with
  | "fungible" :: "advance" :: rest => some ([], .advance ((kvNat? rest "n").getD 0))
  | "gate" :: name :: rest =>
    let a := natList ((kv? rest "a").getD "-")
    let auth := natList ((kv? rest "auth").getD "-")
    match name, a with
    | "pause", [c] => some (auth, .op (.pause c))
    | "unpause", [c] => some (auth, .op (.unpause c))
    | _, _ =>
      match parseFn name with
      | none => none
      | some f =>
        match f.spec.who, a with
        | .role, [c] => some (auth, .op (.call f c))
        | .role, _ => none
        | _, [] => some (auth, .op (.call f 0))
        | _, _ => none
  | _ => none

/-- the observation line of model state `x`: the fields of `OZ.Gates.Stk.Mon.modelObs` -/
def obsLine (tag : String) (o : Stk.Mon.Obs) (ev dem : String) : String :=
  let ret := match o.ret with | some r => toString r | none => "-"
  s!"{tag} ret={ret} now={o.st.now} ev={ev} dem={dem} counter={o.st.counter} paused={b01 o.st.paused}"

def stepLine (x : Stk.Mon.MSt) (line : String) : Stk.Mon.MSt × String :=
  match parseOp line with
  | none => (x, "bad-op")
  | some (auth, op) =>
    let r := stepM x auth op
    if r.2 then
      let evs := ((r.1.s.p.log).drop x.s.p.log.length).map showG
      let dem := showList toString ((demandedBy x.s op).mergeSort (· ≤ ·))
      (r.1, obsLine "ok" (modelObs r.1 true op) (if evs.isEmpty then "-" else ";".intercalate evs) dem)
    else (x, obsLine "err" (modelObs x false op) "-" "-")

/-- the op line as the monitor reads it (never fails) -/
def parseLine (opl : String) : Stk.Mon.Line :=
  let ws := words opl
  let name := (ws.drop 1).head?.getD ""
  let call : Stk.Mon.Call :=
    match ws.head?.getD "" with
    | "fungible" => if name = "advance" then .advance else .other
    | "gate" =>
      match name with
      | "pause" => .pause
      | "unpause" => .unpause
      | _ => match parseFn name with | some f => .fn f | none => .other
    | _ => .other
  { call := call, a := natList ((kv? ws "a").getD "-"), auth := natList ((kv? ws "auth").getD "-"),
    n := (kvNat? ws "n").getD 0 }

/-- the observation line as the monitor reads it (never fails: absent fields read as defaults) -/
def parseObs (obs : String) : Stk.Mon.Obs :=
  let ows := words obs
  { ok := ows.head? = some "ok",
    ret := kvInt? ows "ret",
    st := { now := (kvNat? ows "now").getD 0, counter := (kvInt? ows "counter").getD 0,
            paused := (kv? ows "paused") == some "1" } }

def check (m : Stk.Mon.Mon) (opl obs : String) : Stk.Mon.Mon × Option String :=
  if (words obs).any (· == "harness-panic") then (m, none) else
  checkCore m (parseLine opl) (parseObs obs)

end StkIO

/-! ### dispatch on the label -/

/-- the model state of a sequence: one of the eight gate machines, or the machine `stk` -/
inductive Sigma where
  | gates (m : M)
  | stk (x : OZ.Gates.Stk.Mon.MSt)

inductive MonSt where
  | gates (m : Mon)
  | stk (m : OZ.Gates.Stk.Mon.Mon)

def isStk (label : String) : Bool := (parseLabel label).kind == "stk"

def initAny (label : String) : Sigma :=
  if isStk label then .stk (OZ.Gates.Stk.Mon.initM (StkIO.paramsOf (parseLabel label))) else .gates (initM label)

def opAny : Sigma → String → Sigma × String
  | .gates m, line => let r := stepLine m line; (.gates r.1, r.2)
  | .stk x, line => let r := StkIO.stepLine x line; (.stk r.1, r.2)

def minitAny (label : String) : MonSt :=
  if isStk label then .stk (OZ.Gates.Stk.Mon.monInit (StkIO.paramsOf (parseLabel label))) else .gates (minitM label)

def monAny : MonSt → String → String → MonSt × Option String
  | .gates m, opl, obs => let r := check m opl obs; (.gates r.1, r.2)
  | .stk m, opl, obs => let r := StkIO.check m opl obs; (.stk r.1, r.2)

def machine : Machine where
  σ := Sigma
  init := initAny
  op := opAny
  μ := MonSt
  minit := minitAny
  mon := monAny

end OZ.Drv.C16

def main : IO Unit := OZ.Drv.run OZ.Drv.C16.machine
