import OZ.Drv.FungibleIO
import OZ.Model.Gates
/-
Driver for C16 (pause, allow / block lists, cap, migration flag).

`op` runs the model (OZ.Gates) of the contract named by `kind=` in the sequence label and
prints its observation. `mon` evaluates the property's conclusion directly on the
IMPLEMENTATION's observations (it never calls the model's transition functions):
  * an entry point declared pausable is rejected while the observed `paused` flag is set,
    `emergency_reset` is rejected while it is not, pause / unpause alternate, the flag only
    moves through an accepted pause / unpause by the owner;
  * every accepted transfer / transfer_from / approve / burn / burn_from had all its vetted
    parties allowed (not blocked) according to the monitor's own ghost list, which is built
    from the accepted allow / disallow / block / unblock calls and cross-checked against the
    `allowed` / `blocked` getters after every call;
  * total supply <= cap after every call of the capped token;
  * a migration completes only if an enable / upgrade happened since the last completion;
  * a rejected call changes nothing that is observed.
-/
namespace OZ.Drv.C16
open OZ.Drv OZ.Drv.FungibleIO OZ.Fungible OZ.Host OZ.Gates

inductive St where
  | ptok (s : PTok)
  | pcnt (s : PCnt)
  | alib (s : LTok)
  | blib (s : LTok)
  | aex (s : LEx)
  | bex (s : LEx)
  | cap (s : CTok)
  | mig (s : Mig) (ver : Nat)     -- ver: 0 harness contract, 1 v1 example, 2 prebuilt v2 wasm
  | bad

structure M where
  cfg : Cfg
  st : St
  now : Nat

structure Label where
  kind : String
  owner : Nat
  mgr : Nat
  init : Int
  cap : Int
  ver : Nat
  minTemp : Nat
  start : Nat
  maxTtl : Nat

def parseLabel (label : String) : Label :=
  let ws := words label
  { kind := (kv? ws "kind").getD "", owner := (kvNat? ws "owner").getD 0, mgr := (kvNat? ws "mgr").getD 0,
    init := (kvInt? ws "init").getD 0, cap := (kvInt? ws "cap").getD 0, ver := (kvNat? ws "ver").getD 0,
    minTemp := (kvNat? ws "min_temp").getD 1, start := (kvNat? ws "start").getD 100,
    maxTtl := (kvNat? ws "max_ttl").getD MAX_TTL }

def ofExcept {α} (f : α → St) : Except Err α → St
  | .ok a => f a
  | .error _ => .bad

def initM (label : String) : M :=
  let l := parseLabel label
  let st : St :=
    if l.kind = "ptok" then ofExcept .ptok (PTok.construct l.start l.owner l.init)
    else if l.kind = "pcnt" then .pcnt (PCnt.construct l.owner)
    else if l.kind = "alib" then .alib (LTok.empty l.start)
    else if l.kind = "blib" then .blib (LTok.empty l.start)
    else if l.kind = "aex" then ofExcept .aex (AEx.construct l.start l.owner l.mgr l.init)
    else if l.kind = "bex" then ofExcept .bex (BEx.construct l.start l.owner l.mgr l.init)
    else if l.kind = "cap" then ofExcept .cap (CTok.construct l.start l.cap)
    else if l.kind = "mig" then .mig (Mig.init l.owner) l.ver
    else .bad
  { cfg := ⟨l.minTemp, l.maxTtl⟩, st := st, now := l.start }

/-! ### op lines -/

inductive GOp where
  | tok (o : Fungible.Op)
  | pause (c : Nat) | unpause (c : Nat) | increment | reset
  | setList (u : Nat) (on : Bool) (operator : Option Nat)
  | enable | ensure | complete
  | migrate (d : Nat × Nat) (operator : Nat)
  | upgrade (operator : Nat)

def parseGate (ws : List String) : Option (List Nat × GOp) :=
  match ws with
  | "gate" :: name :: rest =>
    let a := natList ((kv? rest "a").getD "-")
    let d := natList ((kv? rest "d").getD "-")
    let auth := natList ((kv? rest "auth").getD "-")
    let lst (on : Bool) : Option (List Nat × GOp) :=
      match a with
      | [u] => some (auth, .setList u on none)
      | [u, o] => some (auth, .setList u on (some o))
      | _ => none
    match name, a, d with
    | "pause", [c], _ => some (auth, .pause c)
    | "unpause", [c], _ => some (auth, .unpause c)
    | "increment", _, _ => some (auth, .increment)
    | "reset", _, _ => some (auth, .reset)
    | "allow", _, _ => lst true
    | "block", _, _ => lst true
    | "disallow", _, _ => lst false
    | "unblock", _, _ => lst false
    | "enable", _, _ => some (auth, .enable)
    | "ensure", _, _ => some (auth, .ensure)
    | "complete", _, _ => some (auth, .complete)
    | "migrate", [o], [d1, d2] => some (auth, .migrate (d1, d2) o)
    | "upgrade", [o], _ => some (auth, .upgrade o)
    | _, _, _ => none
  | _ => none

def parseAny (line : String) : Option (List Nat × GOp) :=
  let ws := words line
  match parseOp ws with
  | some (auth, o) => some (auth, .tok o)
  | none => parseGate ws

/-! ### printing -/

def showG : GEvent → String
  | .paused => "paused"
  | .unpaused => "unpaused"
  | .userAllowed u => s!"allowed:{u}"
  | .userDisallowed u => s!"disallowed:{u}"
  | .userBlocked u => s!"blocked:{u}"
  | .userUnblocked u => s!"unblocked:{u}"

def b01 (b : Bool) : String := if b then "1" else "0"

def tokOf : St → Option Fungible.State
  | .ptok s => some s.tok
  | .alib s => some s.tok
  | .blib s => some s.tok
  | .aex s => some s.t.tok
  | .bex s => some s.t.tok
  | .cap s => some s.tok
  | _ => none

def logOf : St → List GEvent
  | .ptok s => s.p.log
  | .pcnt s => s.p.log
  | .alib s => s.log
  | .blib s => s.log
  | .aex s => s.t.log
  | .bex s => s.t.log
  | _ => []

def listStr (f : Nat → Bool) : String := String.join ((List.range N).map (fun i => b01 (f i)))

def extra : St → String
  | .ptok s => s!"paused={b01 s.p.paused}"
  | .pcnt s => s!"counter={s.counter} paused={b01 s.p.paused}"
  | .alib s => s!"list={listStr s.listed}"
  | .blib s => s!"list={listStr s.listed}"
  | .aex s => s!"list={listStr s.t.listed}"
  | .bex s => s!"list={listStr s.t.listed}"
  | .cap s => s!"cap={match s.cap with | some c => toString c | none => "?"}"
  | .mig s ver =>
    let d := match s.data with | some (a, b) => s!"{a}:{b}" | none => "-"
    s!"migrating={b01 s.migrating} data={d} wasm={b01 (ver == 2)}"
  | .bad => "bad"

/-- who must authorize an accepted call -/
def demandedBy (st : St) : GOp → List Nat
  | .tok (.mint _ _) => match st with | .ptok s => [s.owner] | _ => []
  | .tok o => o.required
  | .pause c => [c]
  | .unpause c => [c]
  | .setList _ _ (some o) => [o]
  | .migrate _ o => [o]
  | .upgrade o => [o]
  | _ => []

/-- the model's transition for one parsed op; `none` = rejected -/
def applyModel (cfg : Cfg) (st : St) (auth : List Nat) (op : GOp) : Option St :=
  let ok {α} (f : α → St) (r : Except Err α) : Option St :=
    match r with | .ok a => some (f a) | .error _ => none
  match st, op with
  | .ptok s, .tok o => ok .ptok (PTok.apply cfg s auth (.tok o))
  | .ptok s, .pause c => ok .ptok (PTok.apply cfg s auth (.pause c))
  | .ptok s, .unpause c => ok .ptok (PTok.apply cfg s auth (.unpause c))
  | .pcnt s, .tok (.advance _) => some (.pcnt s)
  | .mig s v, .tok (.advance _) => some (.mig s v)
  | .pcnt s, .increment => ok .pcnt (PCnt.apply s auth .increment)
  | .pcnt s, .reset => ok .pcnt (PCnt.apply s auth .emergencyReset)
  | .pcnt s, .pause c => ok .pcnt (PCnt.apply s auth (.pause c))
  | .pcnt s, .unpause c => ok .pcnt (PCnt.apply s auth (.unpause c))
  | .alib s, .tok o => ok .alib (ALib.apply cfg s auth (.tok o))
  | .alib s, .setList u on _ => ok .alib (ALib.apply cfg s auth (.setList u on 0))
  | .blib s, .tok o => ok .blib (BLib.apply cfg s auth (.tok o))
  | .blib s, .setList u on _ => ok .blib (BLib.apply cfg s auth (.setList u on 0))
  | .aex s, .tok o => ok .aex (AEx.apply cfg s auth (.tok o))
  | .aex s, .setList u on (some o) => ok .aex (AEx.apply cfg s auth (.setList u on o))
  | .bex s, .tok o => ok .bex (BEx.apply cfg s auth (.tok o))
  | .bex s, .setList u on (some o) => ok .bex (BEx.apply cfg s auth (.setList u on o))
  | .cap s, .tok o => ok .cap (CTok.apply cfg s auth o)
  -- migration: which entry points the installed executable exposes
  | .mig s 0, .enable => ok (.mig · 0) (Mig.apply s auth .enable)
  | .mig s 0, .ensure => ok (.mig · 0) (Mig.apply s auth .ensure)
  | .mig s 0, .complete => ok (.mig · 0) (Mig.apply s auth .complete)
  | .mig _ 1, .migrate _ _ => none
  | .mig s v, .migrate d o => ok (.mig · v) (Mig.apply s auth (.migrate d o))
  | .mig s _, .upgrade o => ok (.mig · 2) (Mig.apply s auth (.upgrade 1 o))
  | _, _ => none

def retOf (st : St) (op : GOp) : String :=
  match st, op with
  | .pcnt s, .increment => toString s.counter
  | _, _ => "-"

def obsLine (tag : String) (st : St) (now : Nat) (ret ev dem : String) : String :=
  match tokOf st with
  | some t => s!"{tag} {showState t} now={t.now} ev={ev} dem={dem} {extra st}"
  | none => s!"{tag} ret={ret} now={now} ev={ev} dem={dem} {extra st}"

def stepLine (m : M) (line : String) : M × String :=
  match parseAny line with
  | none => (m, "bad-op")
  | some (auth, op) =>
    match applyModel m.cfg m.st auth op with
    | some st' =>
      let fev := match tokOf m.st, tokOf st' with
        | some t, some t' => (t'.events.drop t.events.length).map showEvent
        | _, _ => []
      let gev := ((logOf st').drop (logOf m.st).length).map showG
      let evs := fev ++ gev
      let dem := match op with
        | .tok (.advance _) => "-"
        | _ => showList toString ((demandedBy m.st op).mergeSort (· ≤ ·))
      let now' := match op with
        | .tok (.advance n) => m.now + n
        | _ => m.now
      ({ m with st := st', now := now' },
        obsLine "ok" st' now' (retOf st' op) (if evs.isEmpty then "-" else ";".intercalate evs) dem)
    | none => (m, obsLine "err" m.st m.now "-" "-" "-")

/-! ### the monitor (implementation side) -/

structure Mon where
  l : Label
  paused : Bool               -- ghost flag: moved only by accepted pause / unpause calls
  ghost : List Bool           -- list status per party, from accepted list changes only
  credit : Bool               -- an enable / upgrade happened since the last completed migration
  prev : Option String        -- previous observation minus tag, `ev=`, `dem=` and `ret=`

def minitM (label : String) : Mon :=
  let l := parseLabel label
  let g : List Bool := (List.range N).map (fun i => decide (l.kind = "aex" ∧ i = l.owner))
  { l := l, paused := false, ghost := g, credit := false, prev := none }

/-- the part of an observation that a rejected call must leave unchanged -/
def stable (obs : String) : String :=
  " ".intercalate (((words obs).drop 1).filter (fun w => ¬ (w.startsWith "ev=" ∨ w.startsWith "dem=" ∨ w.startsWith "ret=")))

def setAt (l : List Bool) (i : Nat) (v : Bool) : List Bool := l.mapIdx (fun j x => if j = i then v else x)

def isPausableName (line : List String) : Bool :=
  match line with
  | "fungible" :: k :: _ => k = "mint" ∨ k = "transfer" ∨ k = "transfer_from" ∨ k = "burn" ∨ k = "burn_from"
  | "gate" :: "increment" :: _ => true
  | _ => false

/-- the vetted parties of a fungible op line: from/to of transfers, owner of approve, from of burns -/
def vettedOf (kind : String) (a : List Nat) : List Nat :=
  match kind, a with
  | "transfer", [f, t] => [f, t]
  | "transfer_from", [_, f, t] => [f, t]
  | "approve", [o, _] => [o]
  | "burn", [f] => [f]
  | "burn_from", [_, f] => [f]
  | _, _ => []

def check (m : Mon) (opl obs : String) : Mon × Option String :=
  -- a sequence the harness could not run (e.g. the constructor trapped): no observation to judge;
  -- the line still breaks the correspondence because the model has no such answer
  if (words obs).any (· == "harness-panic") then (m, none) else
  let ws := words opl
  let ows := words obs
  let ok := ows.head? = some "ok"
  let kind := m.l.kind
  let fam := ws.head?.getD ""
  let name := (ws.drop 1).head?.getD ""
  let a := natList ((kv? ws "a").getD "-")
  let auth := natList ((kv? ws "auth").getD "-")
  let pausedNow : Bool := (kv? ows "paused") == some "1"
  let hasPause := kind = "ptok" ∨ kind = "pcnt"
  let isList := kind = "alib" ∨ kind = "aex" ∨ kind = "blib" ∨ kind = "bex"
  let allowKind := kind = "alib" ∨ kind = "aex"
  let listNow : List Bool := ((kv? ows "list").getD "").toList.map (· == '1')
  -- ghost list after this call
  let ghost' : List Bool :=
    if ok ∧ fam = "gate" ∧ isList then
      match name, a.head? with
      | "allow", some u => setAt m.ghost u true
      | "block", some u => setAt m.ghost u true
      | "disallow", some u => setAt m.ghost u false
      | "unblock", some u => setAt m.ghost u false
      | _, _ => m.ghost
    else m.ghost
  let credit' : Bool :=
    if ok ∧ fam = "gate" ∧ (name = "enable" ∨ name = "upgrade") then true
    else if ok ∧ fam = "gate" ∧ (name = "migrate" ∨ name = "complete") then false
    else m.credit
  let paused' : Bool :=
    if ok ∧ hasPause ∧ fam = "gate" ∧ name = "pause" then true
    else if ok ∧ hasPause ∧ fam = "gate" ∧ name = "unpause" then false
    else m.paused
  let idle : Bool := fam = "fungible" ∧ name = "advance"
  let m' : Mon := { m with paused := paused', ghost := ghost', credit := credit',
                           prev := some (stable obs) }
  let sup := (kvInt? ows "sup").getD 0
  let capv := (kv? ows "cap").getD "?"
  let migratingNow : Bool := (kv? ows "migrating") == some "1"
  let fail : Option String :=
    -- a rejected call has no observable effect
    if ¬ ok ∧ m.prev.isSome ∧ m.prev ≠ some (stable obs) then
      some s!"site=gates.rollback.{kind} a rejected call changed the observed state"
    -- pause
    else if hasPause ∧ ok ∧ m.paused ∧ isPausableName ws then
      some s!"site=pausable.bypass.{kind}.{name} a pausable entry point was accepted while paused"
    else if hasPause ∧ ok ∧ ¬ m.paused ∧ fam = "gate" ∧ name = "reset" then
      some "site=pausable.when_paused.reset emergency_reset accepted while not paused"
    else if hasPause ∧ ok ∧ fam = "gate" ∧ name = "pause" ∧ m.paused then
      some s!"site=pausable.alternate.{kind}.pause pause accepted while paused"
    else if hasPause ∧ ok ∧ fam = "gate" ∧ name = "unpause" ∧ ¬ m.paused then
      some s!"site=pausable.alternate.{kind}.unpause unpause accepted while not paused"
    else if hasPause ∧ ok ∧ fam = "gate" ∧ (name = "pause" ∨ name = "unpause")
        ∧ (a.head? ≠ some m.l.owner ∨ ¬ auth.contains m.l.owner) then
      some s!"site=pausable.owner.{kind}.{name} accepted without the owner's authorization"
    else if hasPause ∧ idle ∧ pausedNow ≠ paused' then
      some s!"site=pause.idle.changed.{kind} paused() went from {m.paused} to {pausedNow} while nothing was called (ledger moved by {(kvNat? ws "n").getD 0})"
    else if hasPause ∧ pausedNow ≠ paused' then
      some s!"site=pausable.flag.{kind} paused() does not follow the accepted pause / unpause calls"
    -- lists
    else if isList ∧ idle ∧ listNow ≠ ghost' then
      some s!"site=list.idle.changed.{kind} allowed()/blocked() went from {m.ghost} to {listNow} while nothing was called (ledger moved by {(kvNat? ws "n").getD 0})"
    else if isList ∧ listNow ≠ ghost' then
      some s!"site=list.getter.{kind} allowed()/blocked() = {listNow} but accepted list changes give {ghost'}"
    else if isList ∧ ok ∧ fam = "fungible" ∧
        (vettedOf name a).any (fun p => (m.ghost.getD p false) ≠ allowKind) then
      some s!"site=list.bypass.{kind}.{name} accepted although a vetted party is {if allowKind then "not allowed" else "blocked"}"
    else if isList ∧ ok ∧ fam = "gate" ∧ (kind = "aex" ∨ kind = "bex")
        ∧ (a.getD 1 99 ≠ m.l.mgr ∨ ¬ auth.contains m.l.mgr) then
      some s!"site=list.role.{kind}.{name} list changed without the manager's authorization"
    -- cap
    else if kind = "cap" ∧ idle ∧ capv ≠ toString m.l.cap then
      some s!"site=cap.idle.changed the cap went from {m.l.cap} to {capv} while nothing was called (ledger moved by {(kvNat? ws "n").getD 0})"
    else if kind = "cap" ∧ capv ≠ toString m.l.cap then
      some s!"site=capped.cap the cap moved from {m.l.cap} to {capv}"
    else if kind = "cap" ∧ sup > m.l.cap then
      some s!"site=capped.exceeded total_supply {sup} > cap {m.l.cap}"
    -- migration
    else if kind = "mig" ∧ ok ∧ fam = "gate" ∧ (name = "migrate" ∨ name = "ensure") ∧ ¬ m.credit then
      some s!"site=migration.without_upgrade.{name} accepted with no enable / upgrade since the last completion"
    else if kind = "mig" ∧ idle ∧ migratingNow ≠ credit' then
      some s!"site=migration.idle.changed Migrating went from {m.credit} to {migratingNow} while nothing was called (ledger moved by {(kvNat? ws "n").getD 0})"
    else if kind = "mig" ∧ migratingNow ≠ credit' then
      some s!"site=migration.flag Migrating = {migratingNow} but the accepted calls give {credit'}"
    else if kind = "mig" ∧ ok ∧ fam = "gate" ∧ (name = "migrate" ∨ name = "upgrade")
        ∧ (a.head? ≠ some m.l.owner ∨ ¬ auth.contains m.l.owner) then
      some s!"site=migration.owner.{name} accepted without the owner's authorization"
    else none
  (m', fail)

def machine : Machine where
  σ := M
  init := initM
  op := stepLine
  μ := Mon
  minit := minitM
  mon := check

end OZ.Drv.C16

def main : IO Unit := OZ.Drv.run OZ.Drv.C16.machine
