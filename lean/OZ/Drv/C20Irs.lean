import OZ.Drv.C20Util
import OZ.Model.RegIrsMon
/-
`irs ...` sub-driver of C20: identity registry storage (identity, profile with country data,
`RecoveredTo`). Universe: accounts 0..na-1. A country data entry prints as `code/m/len`.
-/
namespace OZ.Drv.C20.Irs
open OZ.Drv OZ.Drv.C20 OZ.RegIrs OZ.RegIrs.Mon

structure M where
  s : State
  na : Nat

def initM (ws : List String) : M := { s := init, na := (kvNat? ws "na").getD 4 }

def parseCD (s : String) : Option CD :=
  match s.splitOn "/" with
  | [a, b, c] => do pure ⟨(← a.toNat?), (← b.toNat?), (← c.toNat?)⟩
  | _ => none
def parseCDs (s : String) : List CD := (parts "+" s).filterMap parseCD
/-- op lines separate country data with `,` -/
def parseCDsOp (s : String) : List CD := (parts "," s).filterMap parseCD

def showState (m : M) : String :=
  let s := m.s
  let as := List.range m.na
  let ID := as.map (fun a => s!"{a}:{showOpt (storedIdentity s a)}")
  let PR := as.map (fun a => match getIdentityProfile s a with
    | some p => s!"{a}:{p.ty}:{showCDs p.countries}"
    | none => s!"{a}:x")
  let CE := as.map (fun a => s!"{a}:{showCDs (getCountryDataEntries s a)}")
  let RT := as.map (fun a => s!"{a}:{showOpt (getRecoveredTo s a)}")
  let CDp := as.map (fun a =>
    let n := (getCountryDataEntries s a).length
    s!"{a}:{sepBy "+" ((List.range (n + 1)).map (fun i => match getCountryData s a i with
      | some c => showCD c
      | none => "x"))}")
  s!"ID={sepBy "," ID} PR={sepBy "," PR} CE={sepBy "," CE} RT={sepBy "," RT} CD={sepBy "," CDp}"

def parseOp (ws : List String) : Option Op :=
  match ws with
  | "irs" :: kind :: rest =>
    match kind with
    | "add" => some (.add (kvN rest "a") (kvN rest "id") (kvN rest "ty") (parseCDsOp (kvS rest "cs")))
    | "modify" => some (.modify (kvN rest "a") (kvN rest "id"))
    | "remove" => some (.remove (kvN rest "a"))
    | "recover" => some (.recover (kvN rest "old") (kvN rest "new"))
    | "add_countries" => some (.addCountries (kvN rest "a") (parseCDsOp (kvS rest "cs")))
    | "modify_country" => (parseCD (kvS rest "c")).map (fun c => .modifyCountry (kvN rest "a") (kvN rest "i") c)
    | "delete_country" => some (.deleteCountry (kvN rest "a") (kvN rest "i"))
    | _ => none
  | _ => none

def stepLine (m : M) (line : String) : M × String :=
  match parseOp (words line) with
  | none => (m, "bad-op")
  | some op =>
    match step m.s op with
    | .ok s' => let m' := { m with s := s' }; (m', "ok " ++ showState m')
    | .error _ => (m, "err " ++ showState m)

/-! ### monitor: parsing only; the checks are `OZ.RegIrs.Mon.checkCore` (OZ/Model/RegIrsMon.lean),
proved sound in OZ/Props/C20fMon.lean. `showCD` / `showCDs` (used by `showState` above) live there too. -/

def minit (ws : List String) : Mon := { recs := [], recovered := [], na := (kvNat? ws "na").getD 4 }

def entries (s : String) : List (List String) := (parts "," s).map (·.splitOn ":")

def parseObs (obs : String) : Obs :=
  let ws := words obs
  { ok := ws.head? == some "ok",
    ID := kvS ws "ID",
    PR := kvS ws "PR",
    CE := kvS ws "CE",
    RT := kvS ws "RT",
    CD := kvS ws "CD",
    RTe := entries (kvS ws "RT"),
    IDe := entries (kvS ws "ID") }

def check (g : Mon) (opl obs : String) : Mon × Option String :=
  match parseOp (words opl) with
  | none => (g, some s!"site=irs.parse bad op {opl}")
  | some op => checkCore g op (parseObs obs)

/-- the monitor state type, as the dispatcher OZ/Drv/C20.lean names it -/
abbrev MonT := OZ.RegIrs.Mon.Mon

end OZ.Drv.C20.Irs
