import OZ.Drv.C20Util
import OZ.Model.RegIrs
/-
`irs ...` sub-driver of C20: identity registry storage (identity, profile with country data,
`RecoveredTo`). Universe: accounts 0..na-1. A country data entry prints as `code/m/len`.
-/
namespace OZ.Drv.C20.Irs
open OZ.Drv OZ.Drv.C20 OZ.RegIrs

structure M where
  s : State
  na : Nat

def initM (ws : List String) : M := { s := init, na := (kvNat? ws "na").getD 4 }

def showCD (c : CD) : String := s!"{c.code}/{c.metaN}/{c.metaLen}"
def showCDs (l : List CD) : String := sepBy "+" (l.map showCD)

def parseCD (s : String) : Option CD :=
  match s.splitOn "/" with
  | [a, b, c] => do pure ⟨(← a.toNat?), (← b.toNat?), (← c.toNat?)⟩
  | _ => none
def parseCDs (s : String) : List CD := (parts "+" s).filterMap parseCD
/-- op lines separate country data with `,` -/
def parseCDsOp (s : String) : List CD := (parts "," s).filterMap parseCD

def showState (m : M) : String :=
  let s := m.s
  let as := List.range m.na
  let ID := as.map (fun a => s!"{a}:{showOpt (storedIdentity s a)}")
  let PR := as.map (fun a => match getIdentityProfile s a with
    | some p => s!"{a}:{p.ty}:{showCDs p.countries}"
    | none => s!"{a}:x")
  let CE := as.map (fun a => s!"{a}:{showCDs (getCountryDataEntries s a)}")
  let RT := as.map (fun a => s!"{a}:{showOpt (getRecoveredTo s a)}")
  let CDp := as.map (fun a =>
    let n := (getCountryDataEntries s a).length
    s!"{a}:{sepBy "+" ((List.range (n + 1)).map (fun i => match getCountryData s a i with
      | some c => showCD c
      | none => "x"))}")
  s!"ID={sepBy "," ID} PR={sepBy "," PR} CE={sepBy "," CE} RT={sepBy "," RT} CD={sepBy "," CDp}"

def parseOp (ws : List String) : Option Op :=
  match ws with
  | "irs" :: kind :: rest =>
    match kind with
    | "add" => some (.add (kvN rest "a") (kvN rest "id") (kvN rest "ty") (parseCDsOp (kvS rest "cs")))
    | "modify" => some (.modify (kvN rest "a") (kvN rest "id"))
    | "remove" => some (.remove (kvN rest "a"))
    | "recover" => some (.recover (kvN rest "old") (kvN rest "new"))
    | "add_countries" => some (.addCountries (kvN rest "a") (parseCDsOp (kvS rest "cs")))
    | "modify_country" => (parseCD (kvS rest "c")).map (fun c => .modifyCountry (kvN rest "a") (kvN rest "i") c)
    | "delete_country" => some (.deleteCountry (kvN rest "a") (kvN rest "i"))
    | _ => none
  | _ => none

def stepLine (m : M) (line : String) : M × String :=
  match parseOp (words line) with
  | none => (m, "bad-op")
  | some op =>
    match step m.s op with
    | .ok s' => let m' := { m with s := s' }; (m', "ok " ++ showState m')
    | .error _ => (m, "err " ++ showState m)

/-! ### monitor: plain maps account -> (identity, type, countries) and old -> new -/

structure Rec where
  acct : Nat
  ident : Nat
  ty : Nat
  cs : List CD
  deriving BEq

structure Mon where
  recs : List Rec
  recovered : List (Nat × Nat)
  na : Nat

def minit (ws : List String) : Mon := { recs := [], recovered := [], na := (kvNat? ws "na").getD 4 }

def find (g : Mon) (a : Nat) : Option Rec := g.recs.find? (fun r => r.acct == a)
def put (g : Mon) (r : Rec) : Mon := { g with recs := g.recs.filter (fun x => x.acct ≠ r.acct) ++ [r] }
def del (g : Mon) (a : Nat) : Mon := { g with recs := g.recs.filter (fun x => x.acct ≠ a) }
def okCD (c : CD) : Bool := c.metaN ≤ 10 ∧ (c.metaN = 0 ∨ c.metaLen ≤ 100)
/-- an entry sitting exactly on a metadata limit -/
def edgeCD (c : CD) : Bool := c.metaN = 10 ∨ (c.metaN > 0 ∧ c.metaLen = 100)

def plain (g : Mon) (op : Op) : Except String Mon :=
  match op with
  | .add a i ty cs =>
    if (g.recovered.find? (fun p => p.1 == a)).isSome then .error "recovered_registered_again"
    else if cs = [] then .error "empty" else if cs.length > 15 then .error "limit.add_identity.countries"
    else if !cs.all okCD then .error "limit.add_identity.metadata"
    else if (find g a).isSome then .error "dup"
    else .ok (put g ⟨a, i, ty, cs⟩)
  | .modify a i => match find g a with
    | some r => .ok (put g { r with ident := i })
    | none => .error "absent"
  | .remove a => if (find g a).isSome then .ok (del g a) else .error "absent"
  | .recover o n =>
    if (g.recovered.find? (fun p => p.1 == n)).isSome then .error "recovered_registered_again"
    else match find g o with
      | none => .error "absent"
      | some r =>
        if (find g n).isSome then .error "dup"
        else .ok { (put (del g o) { r with acct := n }) with recovered := g.recovered ++ [(o, n)] }
  | .addCountries a cs =>
    if cs = [] then .error "empty" else if !cs.all okCD then .error "limit.add_country_data_entries.metadata"
    else match find g a with
      | none => .error "absent"
      | some r => if (r.cs ++ cs).length > 15 then .error "limit.add_country_data_entries.countries" else .ok (put g { r with cs := r.cs ++ cs })
  | .modifyCountry a i c =>
    if !okCD c then .error "limit.modify_country_data.metadata"
    else match find g a with
      | none => .error "absent"
      | some r => if i ≥ r.cs.length then .error "absent" else .ok (put g { r with cs := r.cs.set i c })
  | .deleteCountry a i => match find g a with
    | none => .error "absent"
    | some r => if r.cs.length = 1 then .error "empty" else if i ≥ r.cs.length then .error "absent"
                else .ok (put g { r with cs := r.cs.eraseIdx i })

def entries (s : String) : List (List String) := (parts "," s).map (·.splitOn ":")

def check (g : Mon) (opl obs : String) : Mon × Option String :=
  let ws := words obs
  let ok := ws.head? == some "ok"
  match parseOp (words opl) with
  | none => (g, some s!"site=irs.parse bad op {opl}")
  | some op =>
    let (g2, accept) : Mon × Option String :=
      match plain g op, ok with
      | .ok g', true => (g', none)
      | .error _, false => (g, none)
      | .ok _, false => (g, some (
          let near := match op with
            | .add _ _ _ cs => if cs.length = 15 then "limit.add_identity.countries"
                                else if cs.any edgeCD then "limit.add_identity.metadata" else "valid"
            | .addCountries a cs => (match find g a with
                | some r => if (r.cs ++ cs).length = 15 then "limit.add_country_data_entries.countries"
                            else if cs.any edgeCD then "limit.add_country_data_entries.metadata" else "valid"
                | none => "valid")
            | .modifyCountry _ _ c => if edgeCD c then "limit.modify_country_data.metadata" else "valid"
            | _ => "valid"
          refusedSite "irs" near))
      | .error why, true => (g, some (acceptedSite "irs" why))
    let as := List.range g2.na
    let idWant := as.map (fun a => s!"{a}:{showOpt ((find g2 a).map (·.ident))}")
    let prWant := as.map (fun a => match find g2 a with
      | some r => s!"{a}:{r.ty}:{showCDs r.cs}"
      | none => s!"{a}:x")
    let ceWant := as.map (fun a => s!"{a}:{showCDs (((find g2 a).map (·.cs)).getD [])}")
    let rtWant := as.map (fun a => s!"{a}:{showOpt ((g2.recovered.find? (fun p => p.1 == a)).map (·.2))}")
    let cdWant := as.map (fun a =>
      let cs := ((find g2 a).map (·.cs)).getD []
      s!"{a}:{sepBy "+" (cs.map showCD ++ ["x"])}")
    let fail := firstFail [accept,
      chk (kvS ws "ID" = sepBy "," idWant) s!"site=irs.map stored_identity = {kvS ws "ID"} but the plain map gives {sepBy "," idWant}",
      chk (kvS ws "PR" = sepBy "," prWant) s!"site=irs.map get_identity_profile = {kvS ws "PR"} but the plain map gives {sepBy "," prWant}",
      chk (kvS ws "CE" = sepBy "," ceWant) s!"site=irs.map get_country_data_entries differs from the plain map",
      chk (kvS ws "RT" = sepBy "," rtWant) s!"site=irs.recovered get_recovered_to = {kvS ws "RT"} but the plain map gives {sepBy "," rtWant}",
      chk (kvS ws "CD" = sepBy "," cdWant) s!"site=irs.enumerates_once get_country_data by index differs from the plain list",
      chk ((entries (kvS ws "RT")).all (fun e => match e with
          | [a, v] => v = "x" ∨ (entries (kvS ws "ID")).contains [a, "x"]
          | _ => false)) "site=irs.recovered_registered_again a recovered account holds an identity"]
    (g2, fail)

end OZ.Drv.C20.Irs
