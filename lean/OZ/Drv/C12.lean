import OZ.DrvUtil
import OZ.Model.MulDivMon
/-
Driver for C12. Ops:
  md128 v=<plain|checked> r=<floor|ceil|trunc> x=.. y=.. d=..
  md256 v=<plain|checked> r=<..> x=.. y=.. d=..
  wad f=<mul|div|ratio|fromint|mulint|divint|add|sub|cpow|pow> a=.. b=..
Observation: `ok <v>` | `none` | `panic`.

`op` runs the model (`OZ.MulDiv.run` on the parsed op line). `mon` never does: it only parses
(`parseOp`, `parseObs`), calls the monitor core `OZ.MulDiv.Mon.checkCore` (model-independent: the
implementation's answer must equal the exact specification `spec128`; for I256 whenever the
product fits in 256 bits; `pow` must agree with the implementation's own `checked_pow` answer for
the same operands) and renders the alarm. The core is proved sound in OZ/Props/C12Mon.lean.

String-level parts that stay here and are NOT covered by the soundness theorem: `parseOp`,
`parseObs` (in particular `(parseObs r.toString) = ⟨some r, true⟩` relies on
`String.toInt? (toString v) = some v`) and `render`. An op line that does not parse is ignored by
the monitor (the model side prints `bad-op` for it, which the correspondence diff reports).
-/
namespace OZ.Drv.C12
open OZ.MulDiv OZ.MulDiv.Mon OZ.Drv

def rounding? : Option String → Option Rounding
  | some "floor" => some .floor
  | some "ceil" => some .ceil
  | some "trunc" => some .trunc
  | _ => none

def checked? : Option String → Option Bool
  | some "plain" => some false
  | some "checked" => some true
  | _ => none

def wadFn? : Option String → Option WadFn
  | some "mul" => some .mul
  | some "div" => some .div
  | some "ratio" => some .ratio
  | some "fromint" => some .fromint
  | some "mulint" => some .mulint
  | some "divint" => some .divint
  | some "add" => some .add
  | some "sub" => some .sub
  | some "cpow" => some .cpow
  | some "pow" => some .pow
  | _ => none

def parseOp (ws : List String) : Option Op :=
  match ws with
  | "md128" :: rest => do
    let rd ← rounding? (kv? rest "r")
    let x ← kvInt? rest "x"; let y ← kvInt? rest "y"; let d ← kvInt? rest "d"
    let c ← checked? (kv? rest "v")
    pure (.md128 c rd x y d)
  | "md256" :: rest => do
    let rd ← rounding? (kv? rest "r")
    let x ← kvInt? rest "x"; let y ← kvInt? rest "y"; let d ← kvInt? rest "d"
    let c ← checked? (kv? rest "v")
    pure (.md256 c rd x y d)
  | "wad" :: rest => do
    let a ← kvInt? rest "a"; let b ← kvInt? rest "b"
    let f ← wadFn? (kv? rest "f")
    pure (.wad f a b)
  | _ => none

/-- model side: the model's answer to an op line -/
def evalOp (ws : List String) : Option Res := (parseOp ws).map OZ.MulDiv.run

/-! ### monitor -/

/-- lenient reading of an observation line plus the flag "the line is exactly the canonical
rendering of that reading" -/
def parseObs (obs : String) : Obs :=
  let r : Option Res :=
    match words obs with
    | ["ok", v] => v.toInt?.map Res.ok
    | ["none"] => some Res.none
    | _ => some Res.panic
  { r := r, canon := match r with | some x => decide (x.toString = obs) | none => false }

def render (opl obs : String) : Alarm → String
  | .spec want => s!"spec={want.toString} impl={obs} op={opl}"
  | .pow cpow => s!"pow={obs} but checked_pow={cpow.toString} op={opl}"

def check (g : Option Ghost) (opl obs : String) : Option Ghost × Option String :=
  match parseOp (words opl) with
  | some op =>
    let res := checkCore g op (parseObs obs)
    (res.1, res.2.map (render opl obs))
  | none => (g, none)

def machine : Machine where
  σ := Unit
  init := fun _ => ()
  op := fun _ line =>
    match evalOp (words line) with
    | some r => ((), r.toString)
    | none => ((), "bad-op")
  μ := Option Ghost   -- the implementation's answer to the latest `wad cpow` line, with operands
  minit := fun _ => none
  mon := check

end OZ.Drv.C12

def main : IO Unit := OZ.Drv.run OZ.Drv.C12.machine
