import OZ.DrvUtil
import OZ.Model.MulDiv
/-
Driver for C12. Ops:
  md128 v=<plain|checked> r=<floor|ceil|trunc> x=.. y=.. d=..
  md256 v=<plain|checked> r=<..> x=.. y=.. d=..
  wad f=<mul|div|ratio|fromint|mulint|divint|add|sub|cpow|pow> a=.. b=..
Observation: `ok <v>` | `none` | `panic`.
Monitor (model-independent): the implementation's answer must equal the exact
specification `spec128` (for I256: whenever the product fits in 256 bits).
-/
namespace OZ.Drv.C12
open OZ.MulDiv OZ.Drv

def rounding? : Option String → Option Rounding
  | some "floor" => some .floor
  | some "ceil" => some .ceil
  | some "trunc" => some .trunc
  | _ => none

def specWadPow (a : Int) (n : Nat) : Res := wadCheckedPow a n

def evalOp (ws : List String) : Option Res :=
  match ws with
  | "md128" :: rest => do
    let rd ← rounding? (kv? rest "r")
    let x ← kvInt? rest "x"; let y ← kvInt? rest "y"; let d ← kvInt? rest "d"
    match kv? rest "v" with
    | some "plain" => some (mulDiv128 rd x y d)
    | some "checked" => some (checkedMulDiv128 rd x y d)
    | _ => none
  | "md256" :: rest => do
    let rd ← rounding? (kv? rest "r")
    let x ← kvInt? rest "x"; let y ← kvInt? rest "y"; let d ← kvInt? rest "d"
    match kv? rest "v" with
    | some "plain" => some (mulDiv256 rd x y d)
    | some "checked" => some (checkedMulDiv256 rd x y d)
    | _ => none
  | "wad" :: rest => do
    let a ← kvInt? rest "a"; let b ← kvInt? rest "b"
    match kv? rest "f" with
    | some "mul" => some (wadCheckedMul a b)
    | some "div" => some (wadCheckedDiv a b)
    | some "ratio" => some (wadFromRatio a b)
    | some "fromint" => some (wadFromInteger a)
    | some "mulint" => some (wadCheckedMulInt a b)
    | some "divint" => some (wadCheckedDivInt a b)
    | some "add" => some (wadCheckedAdd a b)
    | some "sub" => some (wadCheckedSub a b)
    | some "cpow" => some (wadCheckedPow a b.toNat)
    | some "pow" => some (wadPow a b.toNat)
    | _ => none
  | _ => none

/-- The specification answer for an op, independent of the coded algorithm; `none` when
the property does not constrain the outcome (I256 with a product outside 256 bits). -/
def specOp (ws : List String) : Option Res :=
  match ws with
  | "md128" :: rest => do
    let rd ← rounding? (kv? rest "r")
    let x ← kvInt? rest "x"; let y ← kvInt? rest "y"; let d ← kvInt? rest "d"
    match kv? rest "v" with
    | some "plain" => some (spec128 .panic rd x y d)
    | some "checked" => some (spec128 .none rd x y d)
    | _ => none
  | "md256" :: rest => do
    let rd ← rounding? (kv? rest "r")
    let x ← kvInt? rest "x"; let y ← kvInt? rest "y"; let d ← kvInt? rest "d"
    if ¬ in256 (x * y) then none else
    let q := exactQ rd x y d
    match kv? rest "v" with
    | some "plain" => some (if d = 0 then .panic else if in256 q then .ok q else .panic)
    | some "checked" => if d = 0 then some .none else if in256 q then some (.ok q) else none
    | _ => none
  | "wad" :: rest => do
    let a ← kvInt? rest "a"; let b ← kvInt? rest "b"
    match kv? rest "f" with
    | some "mul" => some (spec128 .none .trunc a b WAD)
    | some "div" => some (spec128 .none .trunc a WAD b)
    | some "ratio" => some (spec128 .panic .trunc a WAD b)
    | _ => none
  | _ => none

def machine : Machine where
  σ := Unit
  init := fun _ => ()
  op := fun _ line =>
    match evalOp (words line) with
    | some r => ((), r.toString)
    | none => ((), "bad-op")
  μ := Option Res   -- last `wad cpow` answer of the implementation, for pow ⇔ checked_pow
  minit := fun _ => none
  mon := fun st opl obs =>
    let ws := words opl
    let st' : Option Res :=
      if ws.head? = some "wad" ∧ kv? ws "f" = some "cpow" then
        (match words obs with
         | ["ok", v] => v.toInt?.map Res.ok
         | ["none"] => some Res.none
         | _ => some Res.panic)
      else st
    let fail1 : Option String :=
      match specOp ws with
      | some r => if r.toString = obs then none else some s!"spec={r.toString} impl={obs} op={opl}"
      | none => none
    -- pow fails exactly when checked_pow returns no value (the harness issues cpow then pow
    -- on the same operands)
    let fail2 : Option String :=
      if ws.head? = some "wad" ∧ kv? ws "f" = some "pow" then
        match st with
        | some r => if r.orPanic.toString = obs then none
                    else some s!"pow={obs} but checked_pow={r.toString} op={opl}"
        | none => none
      else none
    (st', fail1.orElse (fun _ => fail2))

end OZ.Drv.C12

def main : IO Unit := OZ.Drv.run OZ.Drv.C12.machine
