import OZ.DrvUtil
import OZ.Drv.FungibleIO
import OZ.Model.Vault
/-
Driver for C05 (vault share accounting). Model = OZ.Vault (share token + asset token +
conversions through the C12 mul-div model).

The monitor never calls the model: it evaluates the property's conclusion on the
IMPLEMENTATION's observation lines with exact integer arithmetic:
  * every preview / conversion / max_* answer equals the exactly rounded rational formula on
    the observed (total_assets, total_supply) or is an error exactly when it does not fit;
  * an accepted deposit / mint / withdraw / redeem returns what its preview (observed
    immediately before) returned, the value satisfies the floor / ceiling inequalities by
    cross-multiplication, exactly (assets, shares) moved between exactly the named parties
    and the vault, the share allowance is spent iff operator ≠ owner;
  * the rate (A+1)/(S+V) never decreases over any accepted operation;
  * share supply = Σ share balances, no negative balance, failed calls change nothing,
    replaying the vault contract's events from genesis reproduces every share balance.
-/
namespace OZ.Drv.C05
open OZ.Drv OZ.Vault OZ.Host

def N : Nat := 5
def VAULT : Nat := 4
def MAX_TTL : Nat := 200000

/-! ### model side -/

structure M where
  cfg : Cfg
  start : Nat
  st : Option State

def initM (label : String) : M :=
  let ws := words label
  let mt := (kvNat? ws "min_temp").getD 1
  let st := (kvNat? ws "start").getD 100
  { cfg := ⟨mt, MAX_TTL⟩, start := st, st := none }

def showAllow (t : Tok) : String :=
  let al := (List.range N).flatMap (fun o => (List.range N).filterMap (fun sp =>
    let a := OZ.Fungible.allowance t o sp
    if a = 0 then none else some s!"{o}:{sp}:{a}"))
  if al.isEmpty then "-" else ";".intercalate al

def showState (s : State) : String :=
  let sb := (List.range N).map (fun i => toString (s.sh.bal i))
  let ab := (List.range N).map (fun i => toString (s.ast.bal i))
  s!"A={totalAssets s} S={totalShares s} sb={",".intercalate sb} ab={",".intercalate ab} asup={s.ast.supply} sal={showAllow s.sh} aal={showAllow s.ast}"

def showVEvent : Event → String
  | .deposit o f r a sh => s!"dep:{o}:{f}:{r}:{a}:{sh}"
  | .withdraw o r ow a sh => s!"wd:{o}:{r}:{ow}:{a}:{sh}"
  | .token ev => OZ.Drv.FungibleIO.showEvent ev

def showEvents (old new : State) : String :=
  let a := (new.ast.events.drop old.ast.events.length).map (fun e => "a." ++ OZ.Drv.FungibleIO.showEvent e)
  let v := (new.events.drop old.events.length).map showVEvent
  let all := a ++ v
  if all.isEmpty then "-" else ";".intercalate all

def showQ (r : Except Err Int) : String :=
  match r with
  | .ok v => toString v
  | .error _ => "e"

def parseTokenOp (kind : String) (a : List Nat) (x : Int) (lu : Nat) : Option OZ.Fungible.Op :=
  match kind, a with
  | "mint", [t] => some (.mint t x)
  | "transfer", [f, t] => some (.transfer f t x)
  | "transfer_from", [sp, f, t] => some (.transferFrom sp f t x)
  | "approve", [o, sp] => some (.approve o sp x lu)
  | _, _ => none

def parseOp (ws : List String) : Option (List Nat × Op) :=
  match ws with
  | "vault" :: "advance" :: rest => do
    let n ← kvNat? rest "n"
    pure ([], .advance n)
  | "vault" :: kind :: rest => do
    let x ← kvInt? rest "x"
    let a := natList ((kv? rest "a").getD "-")
    let auth := natList ((kv? rest "auth").getD "-")
    let sub := (kvNat? rest "sub").getD 1 == 1
    let lu := (kvNat? rest "lu").getD 0
    match kind, a with
    | "deposit", [r, f, o] => pure (auth, .deposit sub x r f o)
    | "mint", [r, f, o] => pure (auth, .mint sub x r f o)
    | "withdraw", [r, ow, o] => pure (auth, .withdraw x r ow o)
    | "redeem", [r, ow, o] => pure (auth, .redeem x r ow o)
    | _, _ =>
      if kind.startsWith "s_" then do
        let op ← parseTokenOp (kind.drop 2).toString a x lu
        pure (auth, .share op)
      else if kind.startsWith "a_" then do
        let op ← parseTokenOp (kind.drop 2).toString a x lu
        pure (auth, .asset op)
      else none
  | _ => none

def isVaultOp : Op → Bool
  | .deposit .. => true
  | .mint .. => true
  | .withdraw .. => true
  | .redeem .. => true
  | _ => false

def stepLine (m : M) (line : String) : M × String :=
  let ws := words line
  match ws with
  | "vault" :: "construct" :: rest =>
    match construct VAULT ((kvNat? rest "offset").getD 0) m.start with
    | .ok s => ({ m with st := some s }, s!"ok ret=- {showState s} now={s.sh.now} ev=- dem=-")
    | .error _ => (m, "err noinit")
  | "vault" :: "query" :: rest =>
    match m.st with
    | none => (m, "err noinit")
    | some s =>
      let x := (kvInt? rest "x").getD 0
      let who := (kvNat? rest "who").getD 0
      let q := s!"pd={showQ (previewDeposit s x)} pm={showQ (previewMint s x)} pw={showQ (previewWithdraw s x)} pr={showQ (previewRedeem s x)} cs={showQ (convertToSharesQ s x)} ca={showQ (convertToAssetsQ s x)} mw={showQ (maxWithdraw s who)} mr={maxRedeem s who} md={maxDeposit} mm={maxMint}"
      (m, s!"ok ret=- {q} {showState s} now={s.sh.now} ev=- dem=-")
  | _ =>
    match m.st, parseOp ws with
    | none, _ => (m, "err noinit")
    | _, none => (m, "bad-op")
    | some s, some (auth, op) =>
      match apply m.cfg s auth op with
      | .ok (s', ret) =>
        let dem := match op with
          | .advance _ => "-"
          | _ => showList toString ((op.required).mergeSort (· ≤ ·))
        let r := if isVaultOp op then toString ret else "-"
        ({ m with st := some s' },
          s!"ok ret={r} {showState s'} now={s'.sh.now} ev={showEvents s s'} dem={dem}")
      | .error _ => (m, s!"err ret=- {showState s} now={s.sh.now} ev=- dem=-")

/-! ### monitor side: observations of the implementation -/

structure Obs where
  ok : Bool
  ret : Option Int
  A : Int
  S : Int
  sb : List Int
  ab : List Int
  asup : Int
  sal : List (Nat × Nat × Int)
  aal : List (Nat × Nat × Int)
  now : Nat
  evs : List (List String)
  dem : List Nat
  q : List (String × Option Int)      -- answers of a `query` op (`none` = the call failed)
  deriving Repr

def parseAllow (s : String) : List (Nat × Nat × Int) :=
  if s = "-" then [] else (s.splitOn ";").filterMap (fun t =>
    match t.splitOn ":" with
    | [o, sp, a] => do pure ((← o.toNat?), (← sp.toNat?), (← a.toInt?))
    | _ => none)

def qKeys : List String := ["pd", "pm", "pw", "pr", "cs", "ca", "mw", "mr", "md", "mm"]

def parseObs (line : String) : Option Obs :=
  match words line with
  | tag :: rest => do
    let A ← kvInt? rest "A"
    let S ← kvInt? rest "S"
    let asup ← kvInt? rest "asup"
    let now ← kvNat? rest "now"
    let evS := (kv? rest "ev").getD "-"
    let evs := if evS = "-" then [] else (evS.splitOn ";").map (·.splitOn ":")
    let q := qKeys.filterMap (fun k => (kv? rest k).map (fun v => (k, v.toInt?)))
    pure { ok := tag = "ok", ret := kvInt? rest "ret", A, S,
           sb := intList ((kv? rest "sb").getD "-"), ab := intList ((kv? rest "ab").getD "-"),
           asup, sal := parseAllow ((kv? rest "sal").getD "-"), aal := parseAllow ((kv? rest "aal").getD "-"),
           now, evs, dem := natList ((kv? rest "dem").getD "-"), q }
  | _ => none

def allowOf (l : List (Nat × Nat × Int)) (ow sp : Nat) : Int :=
  match l.find? (fun (a, b, _) => a = ow ∧ b = sp) with
  | some (_, _, v) => v
  | none => 0

def Obs.qv (o : Obs) (k : String) : Option (Option Int) := (o.q.find? (·.1 = k)).map (·.2)

def I128MAX : Int := 170141183460469231731687303715884105727

/-- the property's formula: `x·y/d` rounded down (`up = false`) or up, `none` = must fail -/
def specConv (x y d : Int) (up : Bool) : Option Int :=
  if x < 0 then none
  else if x = 0 then some 0
  else if y > I128MAX ∨ d > I128MAX ∨ d ≤ 0 then none
  else
    let n := x * y
    let q := if up then (n + d - 1) / d else n / d
    if q > I128MAX then none else some q

def addAt (l : List Int) (i : Nat) (d : Int) : List Int := l.mapIdx (fun j x => if j = i then x + d else x)

/-- all pairs of the universe agree between two allowance tables, except `(ow, sp)` which
must have moved by exactly `-d` -/
def allowMoved (pre post : List (Nat × Nat × Int)) (chg : Option (Nat × Nat × Int)) : Bool :=
  (List.range N).all (fun o => (List.range N).all (fun sp =>
    let exp := match chg with
      | some (ow, s, d) => if o = ow ∧ sp = s then allowOf pre o sp - d else allowOf pre o sp
      | none => allowOf pre o sp
    allowOf post o sp == exp))

structure Mon where
  offset : Nat
  prev : Option Obs
  lastQ : Option (Int × Nat × Obs)     -- x, who, the query's observation
  replay : List Int                     -- share balances reconstructed from events

def zeroObs : Obs :=
  { ok := true, ret := none, A := 0, S := 0, sb := List.replicate N 0, ab := List.replicate N 0, asup := 0,
    sal := [], aal := [], now := 0, evs := [], dem := [], q := [] }

def replayEv (b : List Int) (ev : List String) : List Int :=
  match ev with
  | ["dep", _, _, r, _, sh] => match r.toNat?, sh.toInt? with | some r, some sh => addAt b r sh | _, _ => b
  | ["wd", _, _, ow, _, sh] => match ow.toNat?, sh.toInt? with | some ow, some sh => addAt b ow (-sh) | _, _ => b
  | ["mint", t, a] => match t.toNat?, a.toInt? with | some t, some a => addAt b t a | _, _ => b
  | ["burn", f, a] => match f.toNat?, a.toInt? with | some f, some a => addAt b f (-a) | _, _ => b
  | ["transfer", f, t, a] =>
    match f.toNat?, t.toNat?, a.toInt? with
    | some f, some t, some a => addAt (addAt b f (-a)) t a
    | _, _, _ => b
  | _ => b

def first (l : List (Option String)) : Option String := l.findSome? id

/-- checks of a `query` observation against the exact formulas on the observed state -/
def checkQuery (V : Int) (x : Int) (who : Nat) (o : Obs) : Option String :=
  let y := o.S + V
  let d := o.A + 1
  let bal := o.sb.getD who 0
  let want : List (String × Option Int) :=
    [("pd", specConv x y d false), ("pm", specConv x d y true), ("pw", specConv x y d true),
     ("pr", specConv x d y false), ("cs", specConv x y d false), ("ca", specConv x d y false),
     ("mw", specConv bal d y false), ("mr", some bal), ("md", some I128MAX), ("mm", some I128MAX)]
  first (want.map (fun (k, w) =>
    match o.qv k with
    | none => some s!"site=vault.query.missing {k}"
    | some got => if got = w then none else some s!"site=vault.convert.{k} x={x} A={o.A} S={o.S} V={V}: got {got} but the exactly rounded formula gives {w}"))

def lt3 (a : List Nat) : Option (Nat × Nat × Nat) :=
  match a with
  | [x, y, z] => some (x, y, z)
  | _ => none

/-- checks of an accepted deposit / mint / withdraw / redeem -/
def checkVaultOp (m : Mon) (kind : String) (x : Int) (r p op : Nat) (pre o : Obs) : Option String :=
  let V : Int := 10 ^ m.offset
  let y := pre.S + V
  let d := pre.A + 1
  match o.ret with
  | none => some s!"site=vault.{kind}.ret no return value"
  | some ret =>
    -- 1. preview observed immediately before == returned amount
    let qk := match kind with | "deposit" => "pd" | "mint" => "pm" | "withdraw" => "pw" | _ => "pr"
    let pv : Option String := match m.lastQ with
      | some (qx, _, qo) =>
        if qx ≠ x then some s!"site=vault.{kind}.preview no preview for x={x}"
        else match qo.qv qk with
          | some (some v) => if v = ret then none else some s!"site=vault.{kind}.preview preview said {v}, operation returned {ret}"
          | _ => some s!"site=vault.{kind}.preview preview failed but the operation returned {ret}"
      | none => some s!"site=vault.{kind}.preview no preview observed"
    -- 2. rounding direction by cross-multiplication (floor for what the user gets, ceil for what he pays)
    let rnd : Option String := match kind with
      | "deposit" => if ret * d ≤ x * y ∧ x * y < (ret + 1) * d then none
          else some s!"site=vault.deposit.round shares={ret} is not floor({x}*{y}/{d})"
      | "mint" => if (ret - 1) * y < x * d ∧ x * d ≤ ret * y then none
          else some s!"site=vault.mint.round assets={ret} is not ceil({x}*{d}/{y})"
      | "withdraw" => if (ret - 1) * d < x * y ∧ x * y ≤ ret * d then none
          else some s!"site=vault.withdraw.round shares={ret} is not ceil({x}*{y}/{d})"
      | _ => if ret * y ≤ x * d ∧ x * d < (ret + 1) * y then none
          else some s!"site=vault.redeem.round assets={ret} is not floor({x}*{d}/{y})"
    let neg : Option String := if x < 0 ∨ ret < 0 then some s!"site=vault.{kind}.negative x={x} ret={ret}" else none
    -- 3. limits
    let bal := pre.sb.getD p 0
    let lim : Option String := match kind with
      | "withdraw" => match specConv bal d y false with
          | some mw => if x ≤ mw then none else some s!"site=vault.withdraw.max {x} > max_withdraw {mw}"
          | none => some "site=vault.withdraw.max max_withdraw must fail"
      | "redeem" => if x ≤ bal then none else some s!"site=vault.redeem.max {x} > max_redeem {bal}"
      | _ => none
    -- 4. exactly (assets, shares) moved between exactly the named parties and the vault
    let inflow := kind = "deposit" ∨ kind = "mint"
    let assets := if kind = "deposit" ∨ kind = "withdraw" then x else ret
    let shares := if kind = "deposit" ∨ kind = "withdraw" then ret else x
    let abExp := if inflow then addAt (addAt pre.ab p (-assets)) VAULT assets
                 else addAt (addAt pre.ab VAULT (-assets)) r assets
    let sbExp := if inflow then addAt pre.sb r shares else addAt pre.sb p (-shares)
    let sExp := if inflow then pre.S + shares else pre.S - shares
    let mv : Option String :=
      if o.ab ≠ abExp then some s!"site=vault.{kind}.move asset balances {o.ab}, expected {abExp}"
      else if o.sb ≠ sbExp then some s!"site=vault.{kind}.move share balances {o.sb}, expected {sbExp}"
      else if o.S ≠ sExp then some s!"site=vault.{kind}.move share supply {o.S}, expected {sExp}"
      else if o.A ≠ o.ab.getD VAULT 0 then some s!"site=vault.{kind}.move total_assets {o.A} is not the vault's asset balance"
      else if o.asup ≠ pre.asup then some s!"site=vault.{kind}.move asset supply changed"
      else none
    -- 5. allowances: the operator of somebody else's funds spends exactly the amount
    let al : Option String :=
      if inflow then
        if ¬ allowMoved pre.aal o.aal (if op ≠ p then some (p, op, assets) else none) then
          some s!"site=vault.{kind}.allowance asset allowance not spent exactly"
        else if ¬ allowMoved pre.sal o.sal none then some s!"site=vault.{kind}.allowance share allowance changed"
        else none
      else
        if ¬ allowMoved pre.sal o.sal (if op ≠ p then some (p, op, shares) else none) then
          some s!"site=vault.{kind}.allowance operator {op} != owner {p}: share allowance {allowOf pre.sal p op} -> {allowOf o.sal p op}, shares burned {shares}"
        else if ¬ allowMoved pre.aal o.aal none then some s!"site=vault.{kind}.allowance asset allowance changed"
        else none
    -- 6. the event names the same parties and amounts, the operator authorized
    let evName := if inflow then "dep" else "wd"
    let evExp : List String := if inflow then [evName, toString op, toString p, toString r, toString assets, toString shares]
                               else [evName, toString op, toString r, toString p, toString assets, toString shares]
    let ev : Option String :=
      if o.evs.contains evExp then none else some s!"site=vault.{kind}.event expected event {evExp}, got {o.evs}"
    let au : Option String :=
      if o.dem.contains op then none else some s!"site=vault.{kind}.auth operator {op} was not asked to authorize"
    first [neg, pv, rnd, lim, mv, al, ev, au]

def check (m : Mon) (opl obs : String) : Mon × Option String :=
  let ws := words opl
  let kind := (ws.drop 1).head?.getD ""
  if kind = "construct" then
    let off := (kvNat? ws "offset").getD 0
    let okc := (words obs).head? = some "ok"
    let m' := { m with offset := off, prev := if okc then parseObs obs else none }
    if okc ∧ off > 10 then (m', some s!"site=vault.offset vault constructed with decimals offset {off} > 10")
    else (m', none)
  else
  match parseObs obs with
  | none => (m, some s!"site=vault.parse unparsable observation {obs}")
  | some o =>
    let prev := m.prev.getD zeroObs
    let V : Int := 10 ^ m.offset
    let x := (kvInt? ws "x").getD 0
    let a := natList ((kv? ws "a").getD "-")
    let replay' := o.evs.foldl replayEv m.replay
    let lastQ' := if kind = "query" then some (x, (kvNat? ws "who").getD 0, o) else none
    let m' : Mon := { m with prev := some o, replay := replay', lastQ := lastQ' }
    let sameState := o.A = prev.A ∧ o.S = prev.S ∧ o.sb = prev.sb ∧ o.ab = prev.ab ∧ o.asup = prev.asup
    let generic : Option String :=
      if o.sb.sum ≠ o.S then some s!"site=vault.shares.sum total share supply={o.S} but share balances sum to {o.sb.sum}"
      else if o.sb.any (· < 0) then some "site=vault.shares.sum a share balance is negative"
      else if ¬ o.ok ∧ ¬ (sameState ∧ allowMoved prev.sal o.sal none ∧ allowMoved prev.aal o.aal none) then
        some "site=vault.shares.rollback a failed call changed a balance, an allowance or a supply"
      else if replay' ≠ o.sb then some s!"site=vault.shares.replay event replay gives {replay'} but share balances are {o.sb}"
      else if o.A ≠ o.ab.getD VAULT 0 then some s!"site=vault.total_assets {o.A} is not the vault's asset balance"
      else if o.ok ∧ (o.A + 1) * (prev.S + V) < (prev.A + 1) * (o.S + V) then
        some s!"site=vault.rate rate decreased: (A,S) {prev.A},{prev.S} -> {o.A},{o.S} with V={V}"
      else none
    let specific : Option String :=
      if ¬ o.ok then none
      else if kind = "query" then
        if ¬ sameState then some "site=vault.query.state a query changed the state"
        else checkQuery V x ((kvNat? ws "who").getD 0) o
      else if kind = "deposit" ∨ kind = "mint" ∨ kind = "withdraw" ∨ kind = "redeem" then
        match lt3 a with
        | some (r, p, op) => checkVaultOp m kind x r p op prev o
        | none => some "site=vault.parse bad op line"
      else if kind = "advance" then
        if sameState then none else some "site=vault.advance balances changed"
      else if kind.startsWith "s_" then
        if o.S ≠ prev.S ∨ o.ab ≠ prev.ab ∨ o.A ≠ prev.A then some s!"site=vault.supply a share-token {kind} changed the share supply or an asset balance"
        else none
      else if kind.startsWith "a_" then
        if o.S ≠ prev.S ∨ o.sb ≠ prev.sb then some s!"site=vault.supply an asset-token {kind} changed shares"
        else none
      else none
    (m', first [generic, specific])

def machine : Machine where
  σ := M
  init := initM
  op := stepLine
  μ := Mon
  minit := fun _ => { offset := 0, prev := none, lastQ := none, replay := List.replicate N 0 }
  mon := check

end OZ.Drv.C05

def main : IO Unit := OZ.Drv.run OZ.Drv.C05.machine
