import OZ.DrvUtil
import OZ.Drv.FungibleIO
import OZ.Model.VaultMon
/-
Driver for C05 (vault share accounting). Model = OZ.Vault (share token + asset token +
conversions through the C12 mul-div model).

The monitor (OZ/Model/VaultMon.lean: `checkConstruct`, `checkCore`; this file only PARSES the op
line and the observation line and calls them) never calls the model: it evaluates the property's
conclusion on the IMPLEMENTATION's observation lines with exact integer arithmetic:
  * every preview / conversion / max_* answer equals the exactly rounded rational formula on
    the observed (total_assets, total_supply) or is an error exactly when it does not fit;
  * an accepted deposit / mint / withdraw / redeem returns what its preview (observed
    immediately before) returned, the value satisfies the floor / ceiling inequalities by
    cross-multiplication, exactly (assets, shares) moved between exactly the named parties
    and the vault, the share allowance is spent iff operator ≠ owner;
  * the rate (A+1)/(S+V) never decreases over any accepted operation;
  * share supply = Σ share balances, no negative balance, failed calls change nothing,
    replaying the vault contract's events from genesis reproduces every share balance.

OZ/Props/C05Mon.lean proves the monitor core SOUND (silent on every model trace). The model
observation used there (`OZ.Vault.Mon.stepObs` / `obsConstruct`) is the data `stepLine` below
prints, read back by `parseObs`. NOT covered by that theorem (string level, trusted): `parseObs`,
`parseLine`, `parseEv`, the printing in `stepLine`, and the two alarms raised here for lines that
do not parse: `site=vault.parse unparsable observation` (`check`) — `site=vault.parse bad op line`
is part of the core.
-/
namespace OZ.Drv.C05
open OZ.Drv OZ.Vault OZ.Host
open OZ.Vault.Mon (N VAULT Obs Ev QA Kind VKind Line Mon checkCore checkConstruct monInit)

def MAX_TTL : Nat := 200000

/-! ### model side -/

structure M where
  cfg : Cfg
  start : Nat
  st : Option State

def initM (label : String) : M :=
  let ws := words label
  let mt := (kvNat? ws "min_temp").getD 1
  let st := (kvNat? ws "start").getD 100
  { cfg := ⟨mt, MAX_TTL⟩, start := st, st := none }

def showAllow (t : Tok) : String :=
  let al := (List.range N).flatMap (fun o => (List.range N).filterMap (fun sp =>
    let a := OZ.Fungible.allowance t o sp
    if a = 0 then none else some s!"{o}:{sp}:{a}"))
  if al.isEmpty then "-" else ";".intercalate al

def showState (s : State) : String :=
  let sb := (List.range N).map (fun i => toString (s.sh.bal i))
  let ab := (List.range N).map (fun i => toString (s.ast.bal i))
  s!"A={totalAssets s} S={totalShares s} sb={",".intercalate sb} ab={",".intercalate ab} asup={s.ast.supply} sal={showAllow s.sh} aal={showAllow s.ast}"

def showVEvent : Event → String
  | .deposit o f r a sh => s!"dep:{o}:{f}:{r}:{a}:{sh}"
  | .withdraw o r ow a sh => s!"wd:{o}:{r}:{ow}:{a}:{sh}"
  | .token ev => OZ.Drv.FungibleIO.showEvent ev

def showEvents (old new : State) : String :=
  let a := (new.ast.events.drop old.ast.events.length).map (fun e => "a." ++ OZ.Drv.FungibleIO.showEvent e)
  let v := (new.events.drop old.events.length).map showVEvent
  let all := a ++ v
  if all.isEmpty then "-" else ";".intercalate all

def showQ (r : Except Err Int) : String :=
  match r with
  | .ok v => toString v
  | .error _ => "e"

def parseTokenOp (kind : String) (a : List Nat) (x : Int) (lu : Nat) : Option OZ.Fungible.Op :=
  match kind, a with
  | "mint", [t] => some (.mint t x)
  | "transfer", [f, t] => some (.transfer f t x)
  | "transfer_from", [sp, f, t] => some (.transferFrom sp f t x)
  | "approve", [o, sp] => some (.approve o sp x lu)
  | _, _ => none

def parseOp (ws : List String) : Option (List Nat × Op) :=
  match ws with
  | "vault" :: "advance" :: rest => do
    let n ← kvNat? rest "n"
    pure ([], .advance n)
  | "vault" :: kind :: rest => do
    let x ← kvInt? rest "x"
    let a := natList ((kv? rest "a").getD "-")
    let auth := natList ((kv? rest "auth").getD "-")
    let sub := (kvNat? rest "sub").getD 1 == 1
    let lu := (kvNat? rest "lu").getD 0
    match kind, a with
    | "deposit", [r, f, o] => pure (auth, .deposit sub x r f o)
    | "mint", [r, f, o] => pure (auth, .mint sub x r f o)
    | "withdraw", [r, ow, o] => pure (auth, .withdraw x r ow o)
    | "redeem", [r, ow, o] => pure (auth, .redeem x r ow o)
    | _, _ =>
      if kind.startsWith "s_" then do
        let op ← parseTokenOp (kind.drop 2).toString a x lu
        pure (auth, .share op)
      else if kind.startsWith "a_" then do
        let op ← parseTokenOp (kind.drop 2).toString a x lu
        pure (auth, .asset op)
      else none
  | _ => none

open OZ.Vault.Mon (isVaultOp)

def stepLine (m : M) (line : String) : M × String :=
  let ws := words line
  match ws with
  | "vault" :: "construct" :: rest =>
    match construct VAULT ((kvNat? rest "offset").getD 0) m.start with
    | .ok s => ({ m with st := some s }, s!"ok ret=- {showState s} now={s.sh.now} ev=- dem=-")
    | .error _ => (m, "err noinit")
  | "vault" :: "query" :: rest =>
    match m.st with
    | none => (m, "err noinit")
    | some s =>
      let x := (kvInt? rest "x").getD 0
      let who := (kvNat? rest "who").getD 0
      let q := s!"pd={showQ (previewDeposit s x)} pm={showQ (previewMint s x)} pw={showQ (previewWithdraw s x)} pr={showQ (previewRedeem s x)} cs={showQ (convertToSharesQ s x)} ca={showQ (convertToAssetsQ s x)} mw={showQ (maxWithdraw s who)} mr={maxRedeem s who} md={maxDeposit} mm={maxMint}"
      (m, s!"ok ret=- {q} {showState s} now={s.sh.now} ev=- dem=-")
  | _ =>
    match m.st, parseOp ws with
    | none, _ => (m, "err noinit")
    | _, none => (m, "bad-op")
    | some s, some (auth, op) =>
      match apply m.cfg s auth op with
      | .ok (s', ret) =>
        let dem := match op with
          | .advance _ => "-"
          | _ => showList toString ((op.required).mergeSort (· ≤ ·))
        let r := if isVaultOp op then toString ret else "-"
        ({ m with st := some s' },
          s!"ok ret={r} {showState s'} now={s'.sh.now} ev={showEvents s s'} dem={dem}")
      | .error _ => (m, s!"err ret=- {showState s} now={s.sh.now} ev=- dem=-")

/-! ### monitor side: parsing only (the checks are OZ.Vault.Mon.checkConstruct / checkCore) -/

def parseAllow (s : String) : List (Nat × Nat × Int) :=
  if s = "-" then [] else (s.splitOn ";").filterMap (fun t =>
    match t.splitOn ":" with
    | [o, sp, a] => do pure ((← o.toNat?), (← sp.toNat?), (← a.toInt?))
    | _ => none)

/-- a printed event, split at `:`; only the share-moving events of the vault contract's own stream
are kept (asset-token events carry the prefix `a.`) -/
def parseEv (ev : List String) : Option Ev :=
  match ev with
  | ["dep", o, f, r, a, sh] => some (.dep o.toNat? f.toNat? r.toNat? a.toInt? sh.toInt?)
  | ["wd", o, r, ow, a, sh] => some (.wd o.toNat? r.toNat? ow.toNat? a.toInt? sh.toInt?)
  | ["mint", t, a] => some (.mint t.toNat? a.toInt?)
  | ["burn", f, a] => some (.burn f.toNat? a.toInt?)
  | ["transfer", f, t, a] => some (.transfer f.toNat? t.toNat? a.toInt?)
  | _ => none

/-- answer of a `query` key: absent / `e` (the call failed) / a number -/
def qv (rest : List String) (k : String) : Option (Option Int) := (kv? rest k).map (·.toInt?)

def parseObs (line : String) : Option Obs :=
  match words line with
  | tag :: rest => do
    let A ← kvInt? rest "A"
    let S ← kvInt? rest "S"
    let asup ← kvInt? rest "asup"
    let now ← kvNat? rest "now"
    let evS := (kv? rest "ev").getD "-"
    let evsRaw := if evS = "-" then [] else (evS.splitOn ";").map (·.splitOn ":")
    let q : QA := { pd := qv rest "pd", pm := qv rest "pm", pw := qv rest "pw", pr := qv rest "pr",
                    cs := qv rest "cs", ca := qv rest "ca", mw := qv rest "mw", mr := qv rest "mr",
                    md := qv rest "md", mm := qv rest "mm" }
    pure { ok := tag = "ok", ret := kvInt? rest "ret", A, S,
           sb := intList ((kv? rest "sb").getD "-"), ab := intList ((kv? rest "ab").getD "-"),
           asup, sal := parseAllow ((kv? rest "sal").getD "-"), aal := parseAllow ((kv? rest "aal").getD "-"),
           now, evs := evsRaw.filterMap parseEv, evsRaw, dem := natList ((kv? rest "dem").getD "-"), q }
  | _ => none

def parseKind (kind : String) : Kind :=
  if kind = "query" then .query
  else if kind = "deposit" then .vault .deposit
  else if kind = "mint" then .vault .mint
  else if kind = "withdraw" then .vault .withdraw
  else if kind = "redeem" then .vault .redeem
  else if kind = "advance" then .advance
  else if kind.startsWith "s_" then .shareTok kind
  else if kind.startsWith "a_" then .assetTok kind
  else .other

/-- the fields of an op line the monitor reads -/
def parseLine (ws : List String) (kind : String) : Line :=
  { kind := parseKind kind, x := (kvInt? ws "x").getD 0, a := natList ((kv? ws "a").getD "-"),
    who := (kvNat? ws "who").getD 0 }

def check (m : Mon) (opl obs : String) : Mon × Option String :=
  let ws := words opl
  let kind := (ws.drop 1).head?.getD ""
  if kind = "construct" then
    let okc := (words obs).head? = some "ok"
    checkConstruct m ((kvNat? ws "offset").getD 0) okc (parseObs obs)
  else
  match parseObs obs with
  | none => (m, some s!"site=vault.parse unparsable observation {obs}")
  | some o => checkCore m (parseLine ws kind) o

def machine : Machine where
  σ := M
  init := initM
  op := stepLine
  μ := Mon
  minit := fun _ => monInit
  mon := check

end OZ.Drv.C05

def main : IO Unit := OZ.Drv.run OZ.Drv.C05.machine
