import OZ.DrvUtil
import OZ.Model.Nft
import OZ.Model.NftEnumerable
import OZ.Model.NftConsecutive
/-
Parsing of `nft ...` op lines, running the three NFT models, printing of model observations,
and parsing of observation lines for the monitors (shared by the C10 and C11 drivers).

op line  : nft <kind> a=<addr,..> id=<u32> n=<u32> lu=<u32> auth=<addr,..> q=<lo-hi,..> qa=<id,..>
obs line : ok|err ret=<id|-> own=<lo-hi:owner|x,..> oq=<id:owner|x,..> bal=<b0,..> uri=<ids>
           appr=<id:addr,..> opr=<owner:operator,..> ts=<n|-> gl=<..> ol=<..> now=<ledger> dem=<addr,..>
-/
namespace OZ.Drv.NftIO
open OZ.Drv OZ.Host OZ.Nft

def N : Nat := 6
def MAX_TTL : Nat := 200000

inductive MState where
  | base (s : Nft.State)
  | enum (s : NftEnum.State)
  | cons (s : NftCons.BState)

structure M where
  cfg : Cfg
  flavour : String
  s : MState

def initM (label : String) : M :=
  let ws := words label
  let mt := (kvNat? ws "min_temp").getD 1
  let st := (kvNat? ws "start").getD 100
  let fl := (kv? ws "flavour").getD "seq"
  let mx := (kvNat? ws "max_ttl").getD MAX_TTL
  { cfg := ⟨mt, mx⟩, flavour := fl,
    s := if fl = "enum" then .enum (NftEnum.init st)
         else if fl = "cons" then .cons (NftCons.init NftCons.noBuckets st)
         else .base (Nft.init st) }

def MState.core : MState → Core
  | .base s => s.toCore
  | .enum s => s.toCore
  | .cons s => s.toCore

def MState.ownerOf : MState → Nat → Option Nat
  | .base s, id => (Nft.ownerOf s id).toOption
  | .enum s, id => (Nft.ownerOf s.toState id).toOption
  | .cons s, id => (NftCons.ownerOf NftCons.bitOps s id).toOption

def MState.uri : MState → Nat → Bool
  | .base s, id => Nft.tokenUriExists s id
  | .enum s, id => Nft.tokenUriExists s.toState id
  | .cons s, id => NftCons.tokenUriExists s id

def MState.apply (cfg : Cfg) (auth : List Nat) (op : Op) : MState → Except Err (MState × Option Nat)
  | .base s => (Nft.apply cfg s auth op).map (fun (s', r) => (.base s', r))
  | .enum s => (NftEnum.apply cfg s auth op).map (fun (s', r) => (.enum s', r))
  | .cons s => (NftCons.apply NftCons.bitOps cfg s auth op).map (fun (s', r) => (.cons s', r))

/-- "3-7,9-9" → [(3,7),(9,9)] -/
def parseRanges (s : String) : List (Nat × Nat) :=
  if s = "" ∨ s = "-" then [] else (s.splitOn ",").filterMap (fun r =>
    match r.splitOn "-" with
    | [a, b] => do pure ((← a.toNat?), (← b.toNat?))
    | _ => none)

structure OpLine where
  kind : String
  a : List Nat
  id : Nat
  n : Nat
  lu : Nat
  auth : List Nat
  q : List (Nat × Nat)
  qa : List Nat

def parseOpLine (line : String) : Option OpLine :=
  match words line with
  | "nft" :: kind :: rest => do
    let id ← kvNat? rest "id"
    let n ← kvNat? rest "n"
    let lu ← kvNat? rest "lu"
    pure { kind, a := natList ((kv? rest "a").getD "-"), id, n, lu,
           auth := natList ((kv? rest "auth").getD "-"),
           q := parseRanges ((kv? rest "q").getD "-"), qa := natList ((kv? rest "qa").getD "-") }
  | _ => none

def OpLine.op (o : OpLine) : Option Op :=
  match o.kind, o.a with
  | "mint", [t] => some (.mintSeq t)
  | "mint_id", [t] => some (.mint t o.id)
  | "batch_mint", [t] => some (.batchMint t o.n)
  | "transfer", [f, t] => some (.transfer f t o.id)
  | "transfer_from", [sp, f, t] => some (.transferFrom sp f t o.id)
  | "approve", [ap, a] => some (.approve ap a o.id o.lu)
  | "approve_for_all", [ow, p] => some (.approveForAll ow p o.lu)
  | "burn", [f] => some (.burn f o.id)
  | "burn_from", [sp, f] => some (.burnFrom sp f o.id)
  | "advance", _ => some (.advance o.n)
  | _, _ => none

def showOpt (x : Option Nat) : String := match x with | some v => toString v | none => "x"

/-- run-length encoding of `f` over `lo..=hi`, as "lo-hi:v" runs (appended to `acc` in reverse) -/
partial def rleRange (f : Nat → Option Nat) (hi : Nat) (start : Nat) (cur : Option Nat) (id : Nat)
    (acc : List String) : List String :=
  if id ≥ hi then s!"{start}-{hi}:{showOpt cur}" :: acc
  else
    let o := f (id + 1)
    if o != cur then rleRange f hi (id + 1) o (id + 1) (s!"{start}-{id}:{showOpt cur}" :: acc)
    else rleRange f hi start cur (id + 1) acc

def rle (f : Nat → Option Nat) (q : List (Nat × Nat)) : String :=
  let runs := q.foldl (fun acc (lo, hi) => rleRange f hi lo (f lo) lo acc) []
  if runs.isEmpty then "-" else ",".intercalate runs.reverse

def joinS (l : List String) (sep : String) : String := if l.isEmpty then "-" else sep.intercalate l

def showEnum (s : MState) (probe : List Nat) : String :=
  match s with
  | .enum e =>
    let ts := e.total
    let gl := (List.range (ts + 1)).map (fun i => showOpt (NftEnum.getTokenId e i).toOption)
    let ol := (List.range N).map (fun a =>
      let b := if probe.contains a then e.bal a + 1 else e.bal a
      joinS ((List.range b).map (fun i => showOpt (NftEnum.getOwnerTokenId e a i).toOption)) ",")
    s!"ts={ts} gl={",".intercalate gl} ol={"|".intercalate ol}"
  | _ => "ts=- gl=- ol=-"

def showState (s : MState) (q : List (Nat × Nat)) (qa : List Nat) (probe : List Nat) : String :=
  let c := s.core
  let bals := (List.range N).map (fun i => toString (c.bal i))
  let oq := qa.map (fun id => s!"{id}:{showOpt (s.ownerOf id)}")
  let uri := (qa.filter (fun id => s.uri id)).map toString
  let appr := qa.filterMap (fun id => (getApproved c id).map (fun a => s!"{id}:{a}"))
  let opr := (List.range N).flatMap (fun o => (List.range N).filterMap (fun p =>
    if isApprovedForAll c o p then some s!"{o}:{p}" else none))
  s!"own={rle s.ownerOf q} oq={joinS oq ","} bal={",".intercalate bals} uri={joinS uri ","} appr={joinS appr ","} opr={joinS opr ","} {showEnum s probe}"

/-- one op line through the model: new state and the observation line -/
def stepLine (m : M) (line : String) : M × String :=
  match parseOpLine line with
  | none => (m, "bad-op")
  | some ol =>
    match ol.op with
    | none => (m, "bad-op")
    | some op =>
      let probe := match op with | .advance _ => [] | _ => ol.a
      match m.s.apply m.cfg ol.auth op with
      | .ok (s', ret) =>
        let dem := match op with
          | .advance _ => "-"
          | _ => showList toString ((op.required).mergeSort (· ≤ ·))
        let r := match ret with | some v => toString v | none => "-"
        ({ m with s := s' }, s!"ok ret={r} {showState s' ol.q ol.qa probe} now={s'.core.now} dem={dem}")
      | .error _ => (m, s!"err ret=- {showState m.s ol.q ol.qa probe} now={m.s.core.now} dem=-")

/-! ### parsing of observations (implementation side) for the monitors -/

structure Obs where
  ok : Bool
  ret : Option Nat
  own : List (Nat × Nat × Option Nat)        -- runs lo, hi, owner
  oq : List (Nat × Option Nat)
  bal : List Nat
  uri : List Nat
  appr : List (Nat × Nat)
  opr : List (Nat × Nat)
  ts : Option Nat
  gl : List (Option Nat)
  ol : List (List (Option Nat))
  now : Nat
  dem : List Nat
  deriving Repr, BEq

def parseOptNat (s : String) : Option (Option Nat) :=
  if s = "x" then some none else s.toNat?.map some

def parsePairs (s : String) : List (Nat × Nat) :=
  if s = "" ∨ s = "-" then [] else (s.splitOn ",").filterMap (fun t =>
    match t.splitOn ":" with
    | [a, b] => do pure ((← a.toNat?), (← b.toNat?))
    | _ => none)

def parseOptList (s : String) : List (Option Nat) :=
  if s = "" ∨ s = "-" then [] else (s.splitOn ",").filterMap parseOptNat

def parseObs (line : String) : Option Obs :=
  match words line with
  | tag :: rest => do
    let ownS := (kv? rest "own").getD "-"
    let own := if ownS = "-" then [] else (ownS.splitOn ",").filterMap (fun r =>
      match r.splitOn ":" with
      | [rg, o] =>
        match rg.splitOn "-" with
        | [a, b] => do pure ((← a.toNat?), (← b.toNat?), (← parseOptNat o))
        | _ => none
      | _ => none)
    let oqS := (kv? rest "oq").getD "-"
    let oq := if oqS = "-" then [] else (oqS.splitOn ",").filterMap (fun r =>
      match r.splitOn ":" with
      | [a, o] => do pure ((← a.toNat?), (← parseOptNat o))
      | _ => none)
    let now ← kvNat? rest "now"
    let glS := (kv? rest "gl").getD "-"
    let olS := (kv? rest "ol").getD "-"
    pure { ok := tag = "ok", ret := kvNat? rest "ret", own, oq,
           bal := natList ((kv? rest "bal").getD "-"), uri := natList ((kv? rest "uri").getD "-"),
           appr := parsePairs ((kv? rest "appr").getD "-"), opr := parsePairs ((kv? rest "opr").getD "-"),
           ts := kvNat? rest "ts", gl := parseOptList glS,
           ol := if olS = "-" then [] else (olS.splitOn "|").map parseOptList,
           now, dem := natList ((kv? rest "dem").getD "-") }
  | _ => none

end OZ.Drv.NftIO
