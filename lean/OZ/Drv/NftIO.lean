import OZ.DrvUtil
import OZ.Model.NftMon
/-
Parsing of `nft ...` op lines, printing of model observations, and parsing of observation lines
for the monitors (shared by the C10 and C11 drivers). The three NFT models behind one interface
(`MState`), the structured observation (`Obs`, `stepObs`) and both monitor cores live in
OZ/Model/NftMon.lean; this file only converts between trace text and those values.

op line  : nft <kind> a=<addr,..> id=<u32> n=<u32> lu=<u32> auth=<addr,..> q=<lo-hi,..> qa=<id,..>
obs line : ok|err ret=<id|-> own=<lo-hi:owner|x,..> oq=<id:owner|x,..> bal=<b0,..> uri=<ids>
           appr=<id:addr,..> opr=<owner:operator,..> ts=<n|-> gl=<..> ol=<..> now=<ledger> dem=<addr,..>
-/
namespace OZ.Drv.NftIO
open OZ.Drv OZ.Host OZ.Nft OZ.NftMon

structure M where
  cfg : Cfg
  flavour : String
  s : MState

/-- `flavour=` of the sequence label (default `seq`): selects the model (`NftMon.initState`) and is
what the C10 monitor is initialised with -/
def labelFlavour (label : String) : String := (kv? (words label) "flavour").getD "seq"

def initM (label : String) : M :=
  let ws := words label
  let mt := (kvNat? ws "min_temp").getD 1
  let st := (kvNat? ws "start").getD 100
  let mx := (kvNat? ws "max_ttl").getD MAX_TTL
  { cfg := ⟨mt, mx⟩, flavour := labelFlavour label, s := initState (labelFlavour label) st }

/-- "3-7,9-9" → [(3,7),(9,9)] -/
def parseRanges (s : String) : List (Nat × Nat) :=
  if s = "" ∨ s = "-" then [] else (s.splitOn ",").filterMap (fun r =>
    match r.splitOn "-" with
    | [a, b] => do pure ((← a.toNat?), (← b.toNat?))
    | _ => none)

def parseKind (s : String) : Kind :=
  match s with
  | "mint" => .mint
  | "mint_id" => .mintId
  | "batch_mint" => .batchMint
  | "transfer" => .transfer
  | "transfer_from" => .transferFrom
  | "approve" => .approve
  | "approve_for_all" => .approveForAll
  | "burn" => .burn
  | "burn_from" => .burnFrom
  | "advance" => .advance
  | _ => .other

/-- the op line as the model side and both monitors read it -/
def parseLine (line : String) : Option Line :=
  match words line with
  | "nft" :: kind :: rest => do
    let id ← kvNat? rest "id"
    let n ← kvNat? rest "n"
    let lu ← kvNat? rest "lu"
    pure { kind := parseKind kind, a := natList ((kv? rest "a").getD "-"), id, n, lu,
           auth := natList ((kv? rest "auth").getD "-"),
           q := parseRanges ((kv? rest "q").getD "-"), qa := natList ((kv? rest "qa").getD "-") }
  | _ => none

def joinS (l : List String) (sep : String) : String := if l.isEmpty then "-" else sep.intercalate l

def showRet (x : Option Nat) : String := match x with | some v => toString v | none => "-"

/-- an observation as a line of the trace -/
def showObs (o : Obs) : String :=
  let own := o.own.map (fun r => s!"{r.1}-{r.2.1}:{showOpt r.2.2}")
  let oq := o.oq.map (fun p => s!"{p.1}:{showOpt p.2}")
  let appr := o.appr.map (fun p => s!"{p.1}:{p.2}")
  let opr := o.opr.map (fun p => s!"{p.1}:{p.2}")
  let ol := if o.ol.isEmpty then "-" else "|".intercalate (o.ol.map (fun l => joinS (l.map showOpt) ","))
  s!"{if o.ok then "ok" else "err"} ret={showRet o.ret} own={joinS own ","} oq={joinS oq ","} bal={",".intercalate (o.bal.map toString)} uri={joinS (o.uri.map toString) ","} appr={joinS appr ","} opr={joinS opr ","} ts={showRet o.ts} gl={joinS (o.gl.map showOpt) ","} ol={ol} now={o.now} dem={showList toString o.dem}"

/-- one op line through the model: new state and the observation line. The model's structured
observation is `OZ.NftMon.stepObs` (the object of the monitor-soundness theorems
OZ/Props/C10Mon.lean, OZ/Props/C11Mon.lean); this function only parses the op and prints it. -/
def stepLine (m : M) (line : String) : M × String :=
  match parseLine line with
  | none => (m, "bad-op")
  | some l =>
    match l.op with
    | none => (m, "bad-op")
    | some op =>
      let r := stepObs m.cfg m.s l op
      ({ m with s := r.1 }, showObs r.2)

/-! ### parsing of observations (implementation side) for the monitors -/

def parseOptNat (s : String) : Option (Option Nat) :=
  if s = "x" then some none else s.toNat?.map some

def parsePairs (s : String) : List (Nat × Nat) :=
  if s = "" ∨ s = "-" then [] else (s.splitOn ",").filterMap (fun t =>
    match t.splitOn ":" with
    | [a, b] => do pure ((← a.toNat?), (← b.toNat?))
    | _ => none)

def parseOptList (s : String) : List (Option Nat) :=
  if s = "" ∨ s = "-" then [] else (s.splitOn ",").filterMap parseOptNat

def parseObs (line : String) : Option Obs :=
  match words line with
  | tag :: rest => do
    let ownS := (kv? rest "own").getD "-"
    let own := if ownS = "-" then [] else (ownS.splitOn ",").filterMap (fun r =>
      match r.splitOn ":" with
      | [rg, o] =>
        match rg.splitOn "-" with
        | [a, b] => do pure ((← a.toNat?), (← b.toNat?), (← parseOptNat o))
        | _ => none
      | _ => none)
    let oqS := (kv? rest "oq").getD "-"
    let oq := if oqS = "-" then [] else (oqS.splitOn ",").filterMap (fun r =>
      match r.splitOn ":" with
      | [a, o] => do pure ((← a.toNat?), (← parseOptNat o))
      | _ => none)
    let now ← kvNat? rest "now"
    let glS := (kv? rest "gl").getD "-"
    let olS := (kv? rest "ol").getD "-"
    pure { ok := tag = "ok", ret := kvNat? rest "ret", own, oq,
           bal := natList ((kv? rest "bal").getD "-"), uri := natList ((kv? rest "uri").getD "-"),
           appr := parsePairs ((kv? rest "appr").getD "-"), opr := parsePairs ((kv? rest "opr").getD "-"),
           ts := kvNat? rest "ts", gl := parseOptList glS,
           ol := if olS = "-" then [] else (olS.splitOn "|").map parseOptList,
           now, dem := natList ((kv? rest "dem").getD "-") }
  | _ => none

end OZ.Drv.NftIO
