import OZ.Drv.C20Util
import OZ.Model.RegBinderMon
/-
`binder ...` sub-driver of C20: the token binder (buckets of 100, swap-and-pop, batches).
Small sequences (`u=<n>` in the label) probe every getter over tokens 0..u-1 and indices 0..u;
long ones print the length, the `TotalCount` entry, a digest of `linked_tokens`, two
order-independent sums and windows of probes around the bucket boundaries.
-/
namespace OZ.Drv.C20.Binder
open OZ.Drv OZ.Drv.C20 OZ.RegBinder OZ.RegBinder.Mon OZ.Reg

structure M where
  s : State
  u : Nat            -- 0 = long registry

def initM (ws : List String) : M := { s := init, u := (kvNat? ws "u").getD 0 }

def parseCmd (ws : List String) : Option Cmd :=
  match ws with
  | "binder" :: kind :: rest =>
    match kind with
    | "bind" => some (.op (.bind (kvN rest "t")))
    | "bind_many" => some (.op (.bindMany (rangeOrList (kvS rest "ts"))))
    | "unbind" => some (.op (.unbind (kvN rest "t")))
    | "preload" => some (.preload (kvN rest "n"))
    | _ => none
  | _ => none

def showList (l : List Nat) : String := if l.length ≤ 16 then nats l else s!"#{digest l}"

def showState (m : M) (op : Cmd) : String :=
  let s := m.s
  let l := linkedTokens s
  let (pt, pi) := probes m.u op l.length
  let b := pt.map (fun t => s!"{t}:{bit (isTokenBound s t)}")
  let ix := pt.map (fun t => s!"{t}:{showOpt (getTokenIndex s t)}")
  let atL := pi.map (fun i => s!"{i}:{showOpt (getTokenByIndex s i)}")
  s!"n={l.length} cnt={linkedTokenCount s} list={showList l} sum={sum1 l} sq={sumSq l} b={sepBy "," b} ix={sepBy "," ix} at={sepBy "," atL}"

def stepLine (m : M) (line : String) : M × String :=
  match parseCmd (words line) with
  | none => (m, "bad-op")
  | some (.preload n) =>
    let m' := { m with s := (List.range n).foldl push init }
    (m', "ok " ++ showState m' (.preload n))
  | some (.op op) =>
    match step m.s op with
    | .ok s' => let m' := { m with s := s' }; (m', "ok " ++ showState m' (.op op))
    | .error _ => (m, "err " ++ showState m (.op op))

/-! ### monitor: parsing only; the checks are `OZ.RegBinder.Mon.checkCore` (OZ/Model/RegBinderMon.lean),
proved sound in OZ/Props/C20cMon.lean -/

def minit (ws : List String) : Mon := { set := [], u := (kvNat? ws "u").getD 0 }

def parsePairs (s : String) : List (Nat × Option Nat) :=
  (parts "," s).filterMap (fun e =>
    match e.splitOn ":" with
    | [a, b] => do pure ((← a.toNat?), b.toNat?)
    | _ => none)

def parseObs (obs : String) : Obs :=
  let ws := words obs
  let listS := kvS ws "list"
  { ok := ws.head? == some "ok",
    n := kvN ws "n",
    cnt := kvN ws "cnt",
    sum := kvN ws "sum",
    sq := kvN ws "sq",
    full := if listS.startsWith "#" then none else some (natList listS),
    b := parsePairs (kvS ws "b"),
    ix := parsePairs (kvS ws "ix"),
    atL := parsePairs (kvS ws "at") }

def check (g : Mon) (opl obs : String) : Mon × Option String :=
  match parseCmd (words opl) with
  | none => (g, some s!"site=binder.parse bad op {opl}")
  | some c => checkCore g c (parseObs obs)

/-- the monitor state type, as the dispatcher OZ/Drv/C20.lean names it -/
abbrev MonT := OZ.RegBinder.Mon.Mon

end OZ.Drv.C20.Binder
