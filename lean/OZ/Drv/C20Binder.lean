import OZ.Drv.C20Util
import OZ.Model.RegBinder
/-
`binder ...` sub-driver of C20: the token binder (buckets of 100, swap-and-pop, batches).
Small sequences (`u=<n>` in the label) probe every getter over tokens 0..u-1 and indices 0..u;
long ones print the length, the `TotalCount` entry, a digest of `linked_tokens`, two
order-independent sums and windows of probes around the bucket boundaries.
-/
namespace OZ.Drv.C20.Binder
open OZ.Drv OZ.Drv.C20 OZ.RegBinder OZ.Reg

structure M where
  s : State
  u : Nat            -- 0 = long registry

def initM (ws : List String) : M := { s := init, u := (kvNat? ws "u").getD 0 }

/-- an op of the library, or the quick tier's state injection `binder preload n=<k>`: the state
`bind_tokens` leaves after binding tokens 0..k-1 in order to an empty binder -/
inductive Cmd where
  | op (o : Op)
  | preload (n : Nat)

def parseCmd (ws : List String) : Option Cmd :=
  match ws with
  | "binder" :: kind :: rest =>
    match kind with
    | "bind" => some (.op (.bind (kvN rest "t")))
    | "bind_many" => some (.op (.bindMany (rangeOrList (kvS rest "ts"))))
    | "unbind" => some (.op (.unbind (kvN rest "t")))
    | "preload" => some (.preload (kvN rest "n"))
    | _ => none
  | _ => none

def dedupKeep (l : List Nat) : List Nat := l.foldl (fun acc x => if acc.contains x then acc else acc ++ [x]) []

def opTokens : Cmd → List Nat
  | .op (.bind t) => [t]
  | .op (.unbind t) => [t]
  | .op (.bindMany ts) => (match ts.head?, ts.getLast? with
    | some a, some b => [a, b]
    | _, _ => [])
  | .preload _ => []

/-- probe tokens and probe indices, a function of the op and of the observed length only -/
def probes (u : Nat) (op : Cmd) (n : Nat) : List Nat × List Nat :=
  if u > 0 then (List.range u, List.range (u + 1))
  else (dedupKeep (opTokens op ++ [0, 1, 99, 100, 101, 199, 200, 201, 9999, 10000]),
        dedupKeep [0, 1, 98, 99, 100, 101, 198, 199, 200, 201, n - 2, n - 1, n])

def showList (l : List Nat) : String := if l.length ≤ 16 then nats l else s!"#{digest l}"

def showState (m : M) (op : Cmd) : String :=
  let s := m.s
  let l := linkedTokens s
  let (pt, pi) := probes m.u op l.length
  let b := pt.map (fun t => s!"{t}:{bit (isTokenBound s t)}")
  let ix := pt.map (fun t => s!"{t}:{showOpt (getTokenIndex s t)}")
  let atL := pi.map (fun i => s!"{i}:{showOpt (getTokenByIndex s i)}")
  s!"n={l.length} cnt={linkedTokenCount s} list={showList l} sum={sum1 l} sq={sumSq l} b={sepBy "," b} ix={sepBy "," ix} at={sepBy "," atL}"

def stepLine (m : M) (line : String) : M × String :=
  match parseCmd (words line) with
  | none => (m, "bad-op")
  | some (.preload n) =>
    let m' := { m with s := (List.range n).foldl push init }
    (m', "ok " ++ showState m' (.preload n))
  | some (.op op) =>
    match step m.s op with
    | .ok s' => let m' := { m with s := s' }; (m', "ok " ++ showState m' (.op op))
    | .error _ => (m, "err " ++ showState m (.op op))

/-! ### monitor: the plain set of bound tokens -/

structure Mon where
  set : List Nat
  u : Nat

def minit (ws : List String) : Mon := { set := [], u := (kvNat? ws "u").getD 0 }

def parsePairs (s : String) : List (Nat × Option Nat) :=
  (parts "," s).filterMap (fun e =>
    match e.splitOn ":" with
    | [a, b] => do pure ((← a.toNat?), b.toNat?)
    | _ => none)

def plain (g : Mon) (op : Op) : Except String Mon :=
  match op with
  | .bind t =>
    if g.set.contains t then .error "dup"
    else if g.set.length ≥ 10000 then .error "limit.bind_token.tokens"
    else .ok { g with set := g.set ++ [t] }
  | .bindMany ts =>
    if ts.length > 200 then .error "limit.bind_tokens.batch_size"
    else if g.set.length + ts.length > 10000 then .error "limit.bind_tokens.tokens"
    else if !nodupB ts then .error "dup_arg"
    else if ts.any g.set.contains then .error "dup"
    else .ok { g with set := g.set ++ ts }
  | .unbind t => if g.set.contains t then .ok { g with set := g.set.erase t } else .error "absent"

def check (g : Mon) (opl obs : String) : Mon × Option String :=
  let ws := words obs
  let ok := ws.head? == some "ok"
  match parseCmd (words opl) with
  | none => (g, some s!"site=binder.parse bad op {opl}")
  | some (.preload n) => ({ g with set := List.range n }, none)
  | some (.op op) =>
    let (g2, accept) : Mon × Option String :=
      match plain g op, ok with
      | .ok g', true => (g', none)
      | .error _, false => (g, none)
      | .ok _, false => (g, some (
          let near := match op with
            | .bind _ => if g.set.length = 9999 then "limit.bind_token.tokens" else "valid"
            | .bindMany ts => if g.set.length + ts.length = 10000 then "limit.bind_tokens.tokens"
                              else if ts.length = 200 then "limit.bind_tokens.batch_size" else "valid"
            | _ => "valid"
          refusedSite "binder" near))
      | .error why, true => (g, some (acceptedSite "binder" why))
    let n := kvN ws "n"
    let listS := kvS ws "list"
    let full := if listS.startsWith "#" then none else some (natList listS)
    let b := parsePairs (kvS ws "b")
    let ix := parsePairs (kvS ws "ix")
    let atL := parsePairs (kvS ws "at")
    let fail := firstFail [accept,
      chk (n = g2.set.length) s!"site=binder.count linked_tokens has {n} entries but the plain set has {g2.set.length}",
      chk (kvN ws "cnt" = g2.set.length) s!"site=binder.count TotalCount = {kvN ws "cnt"} but the plain set has {g2.set.length}",
      chk (kvN ws "sum" = sum1 g2.set ∧ kvN ws "sq" = sumSq g2.set) "site=binder.enumerates_once linked_tokens is not a permutation of the plain set (sums differ)",
      (match full with
        | some l => chk (nodupB l ∧ sameSet l g2.set) s!"site=binder.enumerates_once linked_tokens = {l} but the plain set is {g2.set}"
        | none => none),
      chk (b.all (fun (t, v) => v == some (if g2.set.contains t then 1 else 0))) "site=binder.member is_token_bound differs from membership in the plain set",
      chk (ix.all (fun (t, v) => (v.isSome == g2.set.contains t) && (match v with | some i => decide (i < n) | none => true)))
        "site=binder.index get_token_index succeeds exactly on members, with an index below the count",
      chk (atL.all (fun (i, v) => (v.isSome == decide (i < n)) && (match v with | some t => g2.set.contains t | none => true)))
        "site=binder.index get_token_by_index succeeds exactly below the count, and yields a member",
      chk (ix.all (fun (t, v) => match v with
          | some i => (match atL.find? (fun x => x.1 == i) with | some (_, some t') => t' == t | _ => true) &&
                      (match full with | some l => l[i]? == some t | none => true)
          | none => true)) "site=binder.enumerates_once get_token_by_index(get_token_index(t)) is not t"]
    (g2, fail)

end OZ.Drv.C20.Binder
