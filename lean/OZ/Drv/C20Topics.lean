import OZ.Drv.C20Util
import OZ.Model.RegTopicsMon
/-
`topics ...` sub-driver of C20: the claim-topics-and-issuers registry.
Universe: topics 0..nt-1, issuers 0..ni-1; `has_claim_topic` is probed for topics 0..ht-1.
-/
namespace OZ.Drv.C20.Topics
open OZ.Drv OZ.Drv.C20 OZ.RegTopics OZ.RegTopics.Mon

structure M where
  s : State
  nt : Nat
  ni : Nat
  ht : Nat

def initM (ws : List String) : M :=
  let nt := (kvNat? ws "nt").getD 4
  { s := init, nt := nt, ni := (kvNat? ws "ni").getD 4, ht := (kvNat? ws "ht").getD nt }

def showState (m : M) : String :=
  let s := m.s
  let TI := (List.range m.nt).filterMap (fun t => (getClaimTopicIssuers s t).map (entry t))
  let IT := (List.range m.ni).filterMap (fun i => (getTrustedIssuerClaimTopics s i).map (entry i))
  let Mp := match getClaimTopicsAndIssuers s with
    | none => "x"
    | some l => sepBy ";" ((l.mergeSort (fun (a b : Nat × List Nat) => decide (a.1 ≤ b.1))).map (fun (p : Nat × List Nat) => entry p.1 p.2))
  let tr := (List.range m.ni).map (isTrustedIssuer s)
  let h := (List.range m.ni).flatMap (fun i => (List.range m.ht).map (fun t =>
    match hasClaimTopic s i t with
    | none => "x"
    | some b => bit b))
  s!"T={nats (getClaimTopics s)} I={nats (getTrustedIssuers s)} TI={sepBy ";" TI} IT={sepBy ";" IT} M={Mp} tr={bits tr} h={if h.isEmpty then "-" else "".intercalate h}"

def parseOp (ws : List String) : Option Op :=
  match ws with
  | "topics" :: kind :: rest =>
    match kind with
    | "add_topic" => some (.addTopic (kvN rest "t"))
    | "remove_topic" => some (.removeTopic (kvN rest "t"))
    | "add_issuer" => some (.addIssuer (kvN rest "i") (kvL rest "ts"))
    | "remove_issuer" => some (.removeIssuer (kvN rest "i"))
    | "update" => some (.update (kvN rest "i") (kvL rest "ts"))
    | _ => none
  | _ => none

def stepLine (m : M) (line : String) : M × String :=
  match parseOp (words line) with
  | none => (m, "bad-op")
  | some op =>
    match step m.s op with
    | .ok s' => let m' := { m with s := s' }; (m', "ok " ++ showState m')
    | .error _ => (m, "err " ++ showState m)

/-! ### monitor: parsing only; the checks are `OZ.RegTopics.Mon.checkCore` (OZ/Model/RegTopicsMon.lean),
proved sound in OZ/Props/C20bMon.lean -/

def minit (ws : List String) : Mon :=
  let nt := (kvNat? ws "nt").getD 4
  { topics := [], issuers := [], rel := [], nt := nt, ni := (kvNat? ws "ni").getD 4, ht := (kvNat? ws "ht").getD nt }

def parseEntries (s : String) : List (Nat × List Nat) :=
  (parts ";" s).filterMap (fun e =>
    match e.splitOn ":" with
    | [k, l] => do pure ((← k.toNat?), natList l)
    | _ => none)

def parseObs (obs : String) : Obs :=
  let ws := words obs
  { ok := ws.head? == some "ok",
    T := natList (kvS ws "T"),
    I := natList (kvS ws "I"),
    TI := parseEntries (kvS ws "TI"),
    IT := parseEntries (kvS ws "IT"),
    Mraw := kvS ws "M",
    M := parseEntries (kvS ws "M"),
    tr := kvS ws "tr",
    h := kvS ws "h" }

def check (g : Mon) (opl obs : String) : Mon × Option String :=
  match parseOp (words opl) with
  | none => (g, some s!"site=topics.parse bad op {opl}")
  | some op => checkCore g op (parseObs obs)

/-- the monitor state type, as the dispatcher OZ/Drv/C20.lean names it -/
abbrev MonT := OZ.RegTopics.Mon.Mon

end OZ.Drv.C20.Topics
