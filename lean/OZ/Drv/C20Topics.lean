import OZ.Drv.C20Util
import OZ.Model.RegTopics
/-
`topics ...` sub-driver of C20: the claim-topics-and-issuers registry.
Universe: topics 0..nt-1, issuers 0..ni-1; `has_claim_topic` is probed for topics 0..ht-1.
-/
namespace OZ.Drv.C20.Topics
open OZ.Drv OZ.Drv.C20 OZ.RegTopics

structure M where
  s : State
  nt : Nat
  ni : Nat
  ht : Nat

def initM (ws : List String) : M :=
  let nt := (kvNat? ws "nt").getD 4
  { s := init, nt := nt, ni := (kvNat? ws "ni").getD 4, ht := (kvNat? ws "ht").getD nt }

def entry (k : Nat) (l : List Nat) : String := s!"{k}:{nats l}"

def showState (m : M) : String :=
  let s := m.s
  let TI := (List.range m.nt).filterMap (fun t => (getClaimTopicIssuers s t).map (entry t))
  let IT := (List.range m.ni).filterMap (fun i => (getTrustedIssuerClaimTopics s i).map (entry i))
  let Mp := match getClaimTopicsAndIssuers s with
    | none => "x"
    | some l => sepBy ";" ((l.mergeSort (fun (a b : Nat × List Nat) => decide (a.1 ≤ b.1))).map (fun (p : Nat × List Nat) => entry p.1 p.2))
  let tr := (List.range m.ni).map (isTrustedIssuer s)
  let h := (List.range m.ni).flatMap (fun i => (List.range m.ht).map (fun t =>
    match hasClaimTopic s i t with
    | none => "x"
    | some b => bit b))
  s!"T={nats (getClaimTopics s)} I={nats (getTrustedIssuers s)} TI={sepBy ";" TI} IT={sepBy ";" IT} M={Mp} tr={bits tr} h={if h.isEmpty then "-" else "".intercalate h}"

def parseOp (ws : List String) : Option Op :=
  match ws with
  | "topics" :: kind :: rest =>
    match kind with
    | "add_topic" => some (.addTopic (kvN rest "t"))
    | "remove_topic" => some (.removeTopic (kvN rest "t"))
    | "add_issuer" => some (.addIssuer (kvN rest "i") (kvL rest "ts"))
    | "remove_issuer" => some (.removeIssuer (kvN rest "i"))
    | "update" => some (.update (kvN rest "i") (kvL rest "ts"))
    | _ => none
  | _ => none

def stepLine (m : M) (line : String) : M × String :=
  match parseOp (words line) with
  | none => (m, "bad-op")
  | some op =>
    match step m.s op with
    | .ok s' => let m' := { m with s := s' }; (m', "ok " ++ showState m')
    | .error _ => (m, "err " ++ showState m)

/-! ### monitor: plain sets of topics and issuers and the plain relation issuer -> topic -/

structure Mon where
  topics : List Nat
  issuers : List Nat
  rel : List (Nat × Nat)     -- (issuer, topic)
  nt : Nat
  ni : Nat
  ht : Nat

def minit (ws : List String) : Mon :=
  let nt := (kvNat? ws "nt").getD 4
  { topics := [], issuers := [], rel := [], nt := nt, ni := (kvNat? ws "ni").getD 4, ht := (kvNat? ws "ht").getD nt }

def parseEntries (s : String) : List (Nat × List Nat) :=
  (parts ";" s).filterMap (fun e =>
    match e.splitOn ":" with
    | [k, l] => do pure ((← k.toNat?), natList l)
    | _ => none)

/-- the plain-set transition: `none` = refused, with the reason -/
def plain (g : Mon) (op : Op) : Except String Mon :=
  let validTs (entry : String) (ts : List Nat) : Except String Unit :=
    if ts = [] then .error "empty" else if ts.length > 15 then .error s!"limit.{entry}.topics_arg"
    else if !nodupB ts then .error "dup_arg" else if !ts.all g.topics.contains then .error "absent_topic" else .ok ()
  match op with
  | .addTopic t =>
    if g.topics.contains t then .error "dup"
    else if g.topics.length ≥ 15 then .error "limit.add_claim_topic.topics"
    else .ok { g with topics := g.topics ++ [t] }
  | .removeTopic t =>
    if !g.topics.contains t then .error "absent"
    else .ok { g with topics := g.topics.erase t, rel := g.rel.filter (fun p => p.2 ≠ t) }
  | .addIssuer i ts => do
    validTs "add_trusted_issuer" ts
    if g.issuers.contains i then .error "dup"
    else if g.issuers.length ≥ 50 then .error "limit.add_trusted_issuer.issuers"
    else .ok { g with issuers := g.issuers ++ [i], rel := g.rel ++ ts.map (fun t => (i, t)) }
  | .removeIssuer i =>
    if !g.issuers.contains i then .error "absent"
    else .ok { g with issuers := g.issuers.erase i, rel := g.rel.filter (fun p => p.1 ≠ i) }
  | .update i ts => do
    validTs "update_issuer_claim_topics" ts
    if !g.issuers.contains i then .error "absent"
    else .ok { g with rel := g.rel.filter (fun p => p.1 ≠ i) ++ ts.map (fun t => (i, t)) }

def check (g : Mon) (opl obs : String) : Mon × Option String :=
  let ws := words obs
  let ok := ws.head? == some "ok"
  match parseOp (words opl) with
  | none => (g, some s!"site=topics.parse bad op {opl}")
  | some op =>
    let (g2, accept) : Mon × Option String :=
      match plain g op, ok with
      | .ok g', true => (g', none)
      | .error _, false => (g, none)
      | .ok _, false => (g, some (
          let near := match op with
            | .addTopic _ => if g.topics.length = 14 then "limit.add_claim_topic.topics" else "valid"
            | .addIssuer _ ts => if g.issuers.length = 49 then "limit.add_trusted_issuer.issuers"
                                 else if ts.length = 15 then "limit.add_trusted_issuer.topics_arg" else "valid"
            | .update _ ts => if ts.length = 15 then "limit.update_issuer_claim_topics.topics_arg" else "valid"
            | _ => "valid"
          refusedSite "topics" near))
      | .error why, true => (g, some (acceptedSite "topics" why))
    let T := natList (kvS ws "T")
    let I := natList (kvS ws "I")
    let TI := parseEntries (kvS ws "TI")
    let IT := parseEntries (kvS ws "IT")
    let Mraw := kvS ws "M"
    let Mp := parseEntries Mraw
    let tiChecks := (List.range g2.nt).map (fun t =>
      let want := (g2.rel.filter (fun p => p.2 == t)).map (·.1)
      match TI.find? (fun x => x.1 == t) with
      | some (_, l) => chk (g2.topics.contains t ∧ nodupB l ∧ sameSet l want)
          s!"site=topics.two_way get_claim_topic_issuers({t}) = {l} but the plain relation gives {want} (topic listed: {g2.topics.contains t})"
      | none => chk (!g2.topics.contains t) s!"site=topics.two_way get_claim_topic_issuers({t}) fails for a listed topic")
    let itChecks := (List.range g2.ni).map (fun i =>
      let want := (g2.rel.filter (fun p => p.1 == i)).map (·.2)
      match IT.find? (fun x => x.1 == i) with
      | some (_, l) => chk (g2.issuers.contains i ∧ nodupB l ∧ sameSet l want)
          s!"site=topics.two_way get_trusted_issuer_claim_topics({i}) = {l} but the plain relation gives {want} (issuer listed: {g2.issuers.contains i})"
      | none => chk (!g2.issuers.contains i) s!"site=topics.two_way get_trusted_issuer_claim_topics({i}) fails for a listed issuer")
    let mWant := (sortN g2.topics).map (fun t => (t, (g2.rel.filter (fun p => p.2 == t)).map (·.1)))
    let mOk := Mraw ≠ "x" ∧ Mp.map (·.1) = mWant.map (·.1) ∧
      (List.zip Mp mWant).all (fun (a, b) => sameSet a.2 b.2 ∧ nodupB a.2)
    let trWant := (List.range g2.ni).map g2.issuers.contains
    let hWant := (List.range g2.ni).flatMap (fun i => (List.range g2.ht).map (fun t =>
      if g2.issuers.contains i then bit (g2.rel.contains (i, t)) else "x"))
    let fail := firstFail ([accept,
      chk (nodupB T ∧ sameSet T g2.topics) s!"site=topics.set get_claim_topics = {T} but the plain set is {g2.topics}",
      chk (nodupB I ∧ sameSet I g2.issuers) s!"site=topics.set get_trusted_issuers = {I} but the plain set is {g2.issuers}"]
      ++ tiChecks ++ itChecks ++
      [chk mOk s!"site=topics.map get_claim_topics_and_issuers = {Mraw} differs from the plain map",
       chk (kvS ws "tr" = bits trWant) "site=topics.set is_trusted_issuer differs from membership in the plain set",
       chk (kvS ws "h" = (if hWant.isEmpty then "-" else "".intercalate hWant)) "site=topics.two_way has_claim_topic differs from the plain relation"])
    (g2, fail)

end OZ.Drv.C20.Topics
