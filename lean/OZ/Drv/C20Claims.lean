import OZ.Drv.C20Util
import OZ.Model.RegClaimsMon
/-
`claims ...` sub-driver of C20: identity claims (claim by id, ids by topic).
Universe: issuers 0..2 (mock claim issuers rejecting exactly the claims with empty data, `d=0`),
topics 0..3. A claim id prints as `issuer.topic` (the harness decodes the real keccak ids
through `generate_claim_id` over the universe; an id outside it prints as `?`).
-/
namespace OZ.Drv.C20.Claims
open OZ.Drv OZ.Drv.C20 OZ.RegClaims OZ.RegClaims.Mon


structure M where
  s : State

def initM (_ws : List String) : M := { s := init }


def showState (m : M) : String :=
  let s := m.s
  let C := ids.filterMap (fun id => (getClaim s id).map (fun c => s!"{showId id}:{showClaim c}"))
  let BT := (List.range NT).map (fun t => s!"{t}:{sepBy "+" ((getClaimIdsByTopic s t).map showId)}")
  s!"C={sepBy "," C} BT={sepBy "," BT}"

def parseCmd (ws : List String) : Option Cmd :=
  match ws with
  | "claims" :: kind :: rest =>
    match kind with
    | "add" => some (.op (.add (kvN rest "t") (kvN rest "sc") (kvN rest "i") (kvN rest "sg") (kvN rest "d") (kvN rest "u")))
    | "remove" => some (.op (.remove (kvN rest "i", kvN rest "t")))
    | "remove_raw" => some .removeRaw
    | _ => none
  | _ => none

def stepLine (m : M) (line : String) : M × String :=
  match parseCmd (words line) with
  | none => (m, "bad-op")
  | some .removeRaw => (m, "err ret=- " ++ showState m)
  | some (.op op) =>
    match step valid m.s op with
    | .ok s' =>
      let m' : M := { s := s' }
      let ret := match op with
        | .add t _ i _ _ _ => showId (i, t)
        | .remove _ => "-"
      (m', s!"ok ret={ret} " ++ showState m')
    | .error _ => (m, "err ret=- " ++ showState m)

/-! ### monitor: parsing only; the checks are `OZ.RegClaims.Mon.checkCore` (OZ/Model/RegClaimsMon.lean),
proved sound in OZ/Props/C20gMon.lean -/

def minit (_ws : List String) : Mon := { map := [] }

def parseObs (obs : String) : Obs :=
  let ws := words obs
  { ok := ws.head? == some "ok",
    ret := kvS ws "ret",
    C := kvS ws "C",
    BT := (parts "," (kvS ws "BT")).map (fun e => match e.splitOn ":" with
      | [t, l] => (t.toNat?.getD 99, parts "+" l)
      | _ => (99, [])),
    BTraw := kvS ws "BT" }

def check (g : Mon) (opl obs : String) : Mon × Option String :=
  match parseCmd (words opl) with
  | none => (g, some s!"site=claims.parse bad op {opl}")
  | some c => checkCore g c (parseObs obs)

/-- the monitor state type, as the dispatcher OZ/Drv/C20.lean names it -/
abbrev MonT := OZ.RegClaims.Mon.Mon

end OZ.Drv.C20.Claims
