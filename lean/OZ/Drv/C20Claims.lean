import OZ.Drv.C20Util
import OZ.Model.RegClaims
/-
`claims ...` sub-driver of C20: identity claims (claim by id, ids by topic).
Universe: issuers 0..2 (mock claim issuers rejecting exactly the claims with empty data, `d=0`),
topics 0..3. A claim id prints as `issuer.topic` (the harness decodes the real keccak ids
through `generate_claim_id` over the universe; an id outside it prints as `?`).
-/
namespace OZ.Drv.C20.Claims
open OZ.Drv OZ.Drv.C20 OZ.RegClaims

def NI : Nat := 3
def NT : Nat := 4
def valid (_i _t _sc _sg d : Nat) : Bool := d ≠ 0

structure M where
  s : State

def initM (_ws : List String) : M := { s := init }

def showId (id : Id) : String := s!"{id.1}.{id.2}"
def showClaim (c : Claim) : String := s!"{c.topic}.{c.scheme}.{c.issuer}.{c.sig}.{c.data}.{c.uri}"
def ids : List Id := (List.range NI).flatMap (fun i => (List.range NT).map (fun t => (i, t)))

def showState (m : M) : String :=
  let s := m.s
  let C := ids.filterMap (fun id => (getClaim s id).map (fun c => s!"{showId id}:{showClaim c}"))
  let BT := (List.range NT).map (fun t => s!"{t}:{sepBy "+" ((getClaimIdsByTopic s t).map showId)}")
  s!"C={sepBy "," C} BT={sepBy "," BT}"

inductive Cmd where
  | op (o : Op)
  | removeRaw                -- an id that was never produced

def parseCmd (ws : List String) : Option Cmd :=
  match ws with
  | "claims" :: kind :: rest =>
    match kind with
    | "add" => some (.op (.add (kvN rest "t") (kvN rest "sc") (kvN rest "i") (kvN rest "sg") (kvN rest "d") (kvN rest "u")))
    | "remove" => some (.op (.remove (kvN rest "i", kvN rest "t")))
    | "remove_raw" => some .removeRaw
    | _ => none
  | _ => none

def stepLine (m : M) (line : String) : M × String :=
  match parseCmd (words line) with
  | none => (m, "bad-op")
  | some .removeRaw => (m, "err ret=- " ++ showState m)
  | some (.op op) =>
    match step valid m.s op with
    | .ok s' =>
      let m' : M := { s := s' }
      let ret := match op with
        | .add t _ i _ _ _ => showId (i, t)
        | .remove _ => "-"
      (m', s!"ok ret={ret} " ++ showState m')
    | .error _ => (m, "err ret=- " ++ showState m)

/-! ### monitor: the plain map (issuer, topic) -> claim -/

structure Mon where
  map : List (Id × String)      -- id -> printed claim

def minit (_ws : List String) : Mon := { map := [] }

def check (g : Mon) (opl obs : String) : Mon × Option String :=
  let ws := words obs
  let ok := ws.head? == some "ok"
  match parseCmd (words opl) with
  | none => (g, some s!"site=claims.parse bad op {opl}")
  | some c =>
    let plain : Except String Mon := match c with
      | .removeRaw => .error "absent"
      | .op (.add t sc i sg d u) =>
        if d = 0 then .error "invalid_claim"
        else .ok { map := g.map.filter (fun e => e.1 ≠ (i, t)) ++ [((i, t), showClaim ⟨t, sc, i, sg, d, u⟩)] }
      | .op (.remove id) =>
        if (g.map.find? (fun e => e.1 == id)).isSome then .ok { map := g.map.filter (fun e => e.1 ≠ id) } else .error "absent"
    let (g2, accept) : Mon × Option String :=
      match plain, ok with
      | .ok g', true => (g', none)
      | .error _, false => (g, none)
      | .ok _, false => (g, some (refusedSite "claims" "valid"))
      | .error why, true => (g, some (acceptedSite "claims" why))
    let retWant := match c, ok with
      | .op (.add t _ i _ _ _), true => showId (i, t)
      | _, _ => "-"
    let cWant := ids.filterMap (fun id => (g2.map.find? (fun e => e.1 == id)).map (fun e => s!"{showId id}:{e.2}"))
    -- by-topic index: each topic lists exactly the ids of the stored claims with that topic, once
    let bt := (parts "," (kvS ws "BT")).map (fun e => match e.splitOn ":" with
      | [t, l] => (t.toNat?.getD 99, parts "+" l)
      | _ => (99, []))
    let btOk := (List.range NT).all (fun t =>
      let want := (g2.map.filter (fun e => e.1.2 == t)).map (fun e => showId e.1)
      match bt.find? (fun x => x.1 == t) with
      | some (_, l) => nodupB l && sameSet l want
      | none => false)
    let fail := firstFail [accept,
      chk (kvS ws "ret" = retWant) s!"site=claims.id add_claim returned {kvS ws "ret"}, expected the id of {retWant}",
      chk (kvS ws "C" = sepBy "," cWant) s!"site=claims.map get_claim = {kvS ws "C"} but the plain map gives {sepBy "," cWant}",
      chk btOk s!"site=claims.enumerates_once get_claim_ids_by_topic = {kvS ws "BT"} does not list the stored claims of each topic once"]
    (g2, fail)

end OZ.Drv.C20.Claims
