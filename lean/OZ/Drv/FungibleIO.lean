import OZ.DrvUtil
import OZ.Model.Fungible
/-
Parsing of `fungible ...` op lines, printing of model observations, and parsing of
observation lines for the monitors (shared by the C01 and C02 drivers).
-/
namespace OZ.Drv.FungibleIO
open OZ.Drv OZ.Fungible OZ.Host

def N : Nat := 5
def MAX_TTL : Nat := 200000

/-- size of the observed account universe of a sequence: `n=<k>` in the sequence label,
default `N` (C01 labels carry no `n=`, so C01 is unaffected) -/
def labelN (label : String) : Nat := (kvNat? (words label) "n").getD N

structure M where
  cfg : Cfg
  s : State
  n : Nat := N

def initM (label : String) : M :=
  let ws := words label
  let mt := (kvNat? ws "min_temp").getD 1
  let st := (kvNat? ws "start").getD 100
  -- `max_ttl=<k>` in the label: the host's max_entry_ttl of this sequence (default MAX_TTL)
  let mx := (kvNat? ws "max_ttl").getD MAX_TTL
  { cfg := ⟨mt, mx⟩, s := init st, n := labelN label }

def parseOp (ws : List String) : Option (List Nat × Op) :=
  match ws with
  | "fungible" :: "advance" :: rest => do
    let n ← kvNat? rest "n"
    pure ([], .advance n)
  | "fungible" :: kind :: rest => do
    let a := natList ((kv? rest "a").getD "-")
    let amt ← kvInt? rest "amt"
    let lu ← kvNat? rest "lu"
    let auth := natList ((kv? rest "auth").getD "-")
    match kind, a with
    | "mint", [t] => pure (auth, .mint t amt)
    | "transfer", [f, t] => pure (auth, .transfer f t amt)
    | "transfer_from", [sp, f, t] => pure (auth, .transferFrom sp f t amt)
    | "approve", [o, sp] => pure (auth, .approve o sp amt lu)
    | "burn", [f] => pure (auth, .burn f amt)
    | "burn_from", [sp, f] => pure (auth, .burnFrom sp f amt)
    | _, _ => none
  | _ => none

def showEvent : Event → String
  | .mint t a => s!"mint:{t}:{a}"
  | .burn f a => s!"burn:{f}:{a}"
  | .transfer f t a => s!"transfer:{f}:{t}:{a}"
  | .approve o s a lu => s!"approve:{o}:{s}:{a}:{lu}"

def showStateN (n : Nat) (s : State) : String :=
  let bals := (List.range n).map (fun i => toString (s.bal i))
  let al := (List.range n).flatMap (fun o => (List.range n).filterMap (fun sp =>
    let a := allowance s o sp
    if a = 0 then none else some s!"{o}:{sp}:{a}"))
  s!"sup={s.supply} bal={",".intercalate bals} allow={if al.isEmpty then "-" else ";".intercalate al}"

def showState (s : State) : String := showStateN N s

/-- one op line through the model: new state and the observation line -/
def stepLine (m : M) (line : String) : M × String :=
  match parseOp (words line) with
  | none => (m, "bad-op")
  | some (auth, op) =>
    -- `mauth=<i>` on a mint: the contract wraps `Base::mint` in an owner-only guard
    -- (wiring of the example contracts, not of the library)
    let mauth : Option Nat := match op with
      | .mint _ _ => kvNat? (words line) "mauth"
      | _ => none
    let guarded : Except Err State := match mauth with
      | some g => if g ∈ auth then apply m.cfg m.s auth op else .error .auth
      | none => apply m.cfg m.s auth op
    match guarded with
    | .ok s' =>
      let evs := s'.events.drop m.s.events.length
      let dem := match op with
        | .advance _ => "-"
        | _ => showList toString ((op.required ++ mauth.toList).mergeSort (· ≤ ·))
      ({ m with s := s' },
        s!"ok {showStateN m.n s'} now={s'.now} ev={if evs.isEmpty then "-" else ";".intercalate (evs.map showEvent)} dem={dem}")
    | .error _ => (m, s!"err {showStateN m.n m.s} now={m.s.now} ev=- dem=-")

/-! ### parsing of observations (implementation side) for the monitors -/

structure Obs where
  ok : Bool
  sup : Int
  bal : List Int
  allow : List (Nat × Nat × Int)
  now : Nat
  evs : List (List String)
  dem : List Nat
  deriving Repr

def parseObs (line : String) : Option Obs :=
  match words line with
  | tag :: rest => do
    let sup ← kvInt? rest "sup"
    let bal := intList ((kv? rest "bal").getD "-")
    let alS := (kv? rest "allow").getD "-"
    let allow := if alS = "-" then [] else (alS.splitOn ";").filterMap (fun t =>
      match t.splitOn ":" with
      | [o, s, a] => do pure ((← o.toNat?), (← s.toNat?), (← a.toInt?))
      | _ => none)
    let now ← kvNat? rest "now"
    let evS := (kv? rest "ev").getD "-"
    let evs := if evS = "-" then [] else (evS.splitOn ";").map (·.splitOn ":")
    let dem := natList ((kv? rest "dem").getD "-")
    pure { ok := tag = "ok", sup, bal, allow, now, evs, dem }
  | _ => none

def Obs.allowOf (o : Obs) (ow sp : Nat) : Int :=
  match o.allow.find? (fun (a, b, _) => a = ow ∧ b = sp) with
  | some (_, _, v) => v
  | none => 0

end OZ.Drv.FungibleIO
