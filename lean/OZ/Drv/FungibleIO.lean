import OZ.DrvUtil
import OZ.Model.FungibleMon
/-
Parsing of `fungible ...` op lines, printing of model observations, and parsing of
observation lines for the monitors (shared by the C01 and C02 drivers).
-/
namespace OZ.Drv.FungibleIO
open OZ.Drv OZ.Fungible OZ.Host OZ.FungibleMon

def N : Nat := 5
def MAX_TTL : Nat := 200000

/-- size of the observed account universe of a sequence: `n=<k>` in the sequence label,
default `N` (C01 labels carry no `n=`, so C01 is unaffected) -/
def labelN (label : String) : Nat := (kvNat? (words label) "n").getD N

structure M where
  cfg : Cfg
  s : State
  n : Nat := N

def initM (label : String) : M :=
  let ws := words label
  let mt := (kvNat? ws "min_temp").getD 1
  let st := (kvNat? ws "start").getD 100
  -- `max_ttl=<k>` in the label: the host's max_entry_ttl of this sequence (default MAX_TTL)
  let mx := (kvNat? ws "max_ttl").getD MAX_TTL
  { cfg := ⟨mt, mx⟩, s := init st, n := labelN label }

def parseOp (ws : List String) : Option (List Nat × Op) :=
  match ws with
  | "fungible" :: "advance" :: rest => do
    let n ← kvNat? rest "n"
    pure ([], .advance n)
  | "fungible" :: kind :: rest => do
    let a := natList ((kv? rest "a").getD "-")
    let amt ← kvInt? rest "amt"
    let lu ← kvNat? rest "lu"
    let auth := natList ((kv? rest "auth").getD "-")
    match kind, a with
    | "mint", [t] => pure (auth, .mint t amt)
    | "transfer", [f, t] => pure (auth, .transfer f t amt)
    | "transfer_from", [sp, f, t] => pure (auth, .transferFrom sp f t amt)
    | "approve", [o, sp] => pure (auth, .approve o sp amt lu)
    | "burn", [f] => pure (auth, .burn f amt)
    | "burn_from", [sp, f] => pure (auth, .burnFrom sp f amt)
    | _, _ => none
  | _ => none

def showEvent : Event → String
  | .mint t a => s!"mint:{t}:{a}"
  | .burn f a => s!"burn:{f}:{a}"
  | .transfer f t a => s!"transfer:{f}:{t}:{a}"
  | .approve o s a lu => s!"approve:{o}:{s}:{a}:{lu}"

/-- the `sup= bal= allow=` part of an observation line -/
def showSBA (sup : Int) (bal : List Int) (allow : List (Nat × Nat × Int)) : String :=
  let bals := bal.map (fun b => toString b)
  let al := allow.map (fun x => s!"{x.1}:{x.2.1}:{x.2.2}")
  s!"sup={sup} bal={",".intercalate bals} allow={if al.isEmpty then "-" else ";".intercalate al}"

def showStateN (n : Nat) (s : State) : String := showSBA s.supply (balList n s) (allowList n s)

def showState (s : State) : String := showStateN N s

/-- an observation as a line of the trace -/
def showObs (o : Obs) : String :=
  s!"{if o.ok then "ok" else "err"} {showSBA o.sup o.bal o.allow} now={o.now} ev={if o.evs.isEmpty then "-" else ";".intercalate (o.evs.map showEvent)} dem={showList toString o.dem}"

/-- one op line through the model: new state and the observation line. The model's structured
observation is `OZ.FungibleMon.stepObs` (the object of the monitor-soundness theorems
OZ/Props/C01Mon.lean, OZ/Props/C02Mon.lean); this function only parses the op and prints it. -/
def stepLine (m : M) (line : String) : M × String :=
  match parseOp (words line) with
  | none => (m, "bad-op")
  | some (auth, op) =>
    -- `mauth=<i>` on a mint: the contract wraps `Base::mint` in an owner-only guard
    -- (wiring of the example contracts, not of the library); `stepObs` ignores it on other ops
    let r := stepObs m.cfg m.n m.s auth op (kvNat? (words line) "mauth")
    ({ m with s := r.1 }, showObs r.2)

/-! ### parsing of op and observation lines (implementation side) for the monitors -/

def parseEvent (ws : List String) : Option Event :=
  match ws with
  | ["mint", t, a] => do pure (.mint (← t.toNat?) (← a.toInt?))
  | ["burn", f, a] => do pure (.burn (← f.toNat?) (← a.toInt?))
  | ["transfer", f, t, a] => do pure (.transfer (← f.toNat?) (← t.toNat?) (← a.toInt?))
  | ["approve", o, s, a, lu] => do pure (.approve (← o.toNat?) (← s.toNat?) (← a.toInt?) (← lu.toNat?))
  | _ => none

/-- events that do not parse are dropped: neither monitor looks at anything but well-formed
mint / burn / transfer events (the correspondence diff compares the raw text) -/
def parseObs (line : String) : Option Obs :=
  match words line with
  | tag :: rest => do
    let sup ← kvInt? rest "sup"
    let bal := intList ((kv? rest "bal").getD "-")
    let alS := (kv? rest "allow").getD "-"
    let allow := if alS = "-" then [] else (alS.splitOn ";").filterMap (fun t =>
      match t.splitOn ":" with
      | [o, s, a] => do pure ((← o.toNat?), (← s.toNat?), (← a.toInt?))
      | _ => none)
    let now ← kvNat? rest "now"
    let evS := (kv? rest "ev").getD "-"
    let evs := if evS = "-" then [] else (evS.splitOn ";").filterMap (fun t => parseEvent (t.splitOn ":"))
    let dem := natList ((kv? rest "dem").getD "-")
    pure { ok := tag = "ok", sup, bal, allow, now, evs, dem }
  | _ => none

def parseKind (s : String) : Kind :=
  match s with
  | "mint" => .mint
  | "transfer" => .transfer
  | "transfer_from" => .transferFrom
  | "approve" => .approve
  | "burn" => .burn
  | "burn_from" => .burnFrom
  | "advance" => .advance
  | s => .other s

/-- the op line as the monitors read it (never fails: absent fields read as empty / 0) -/
def parseLine (opl : String) : Line :=
  let ws := words opl
  { kind := parseKind ((ws.drop 1).head?.getD ""),
    a := natList ((kv? ws "a").getD "-"),
    auth := natList ((kv? ws "auth").getD "-"),
    amt := (kvInt? ws "amt").getD 0,
    lu := (kvNat? ws "lu").getD 0 }

end OZ.Drv.FungibleIO
