import OZ.DrvUtil
import OZ.Model.Identity
/-
Driver for C15 (an RWA identity is verified only by valid claims from currently trusted issuers).

Model side: `OZ.Identity.applyOp` over a world with two registries (addresses 0, 1), the identity
registry storage (2), the verifier (3), three claim issuer contracts (4, 5, 6), two identity
contracts (8, 9); 7 and 10 are addresses without a contract, 11..13 accounts. Signatures are
symbolic: the op line carries the tuple that was really signed and a bit `ok` the harness computed
with the Rust crypto crates (the bytes verify under the embedded public key over that tuple's
encoding, for the algorithm `ns`); the oracle accepts iff `ok`, the scheme is that algorithm's and
the message to verify IS that tuple (ideal signatures: "cryptography assumed").

Monitor side: a ghost state at the level of the property — required topics as a set, trusted
issuer ↦ topic set as a plain map, the claims an identity holds, per issuer the allowed
(key, scheme, topic, registry) tuples, nonces, revocations — updated from ACCEPTED op lines only,
never through the model. Every `ver=` entry and every `verify` / `valid` outcome of the
implementation must equal the property's condition evaluated on the ghost state.
-/
namespace OZ.Drv.C15
open OZ.Drv OZ.Host OZ.Identity OZ.ClaimIssuer

def REGS : List Nat := [0, 1]
def ISSUERS : List Nat := [4, 5, 6]
def ISSUER_CANDS : List Nat := [4, 5, 6, 7, 8]
def IDS : List Nat := [8, 9]
def ID_CANDS : List Nat := [8, 9, 10]
def ACCOUNTS : List Nat := [11, 12, 13]
def TOPICS : List Nat := [1, 2, 3, 7]
def SCHEMES : List Nat := [101, 102, 103, 111, 112, 113]
/-- the verifier (algorithm) a scheme number of the harness issuer selects; 0 = none -/
def algOf (scheme : Nat) : Nat :=
  if scheme = 101 ∨ scheme = 111 then 101 else if scheme = 102 ∨ scheme = 112 then 102
  else if scheme = 103 ∨ scheme = 113 then 103 else 0
def KEYS : List Nat := [1, 2, 3, 4, 5, 6]
def TS0 : Nat := 1700000000

/-- symbolic signature bytes -/
structure SymSig where
  ok : Bool          -- verifies (Rust crates) under the embedded key over `msg`, algorithm `ns`
  ns : Nat
  msg : Msg
  tag : Nat          -- names the (sig_data, data) byte strings in the dumps
  deriving Repr

def symVerify : Verifier SymSig := fun scheme _pk m s => s.ok && s.ns == algOf scheme && decide (s.msg = m)

/-! ### parsing -/

def hexVal (c : Char) : Nat :=
  if '0' ≤ c ∧ c ≤ '9' then c.toNat - '0'.toNat
  else if 'a' ≤ c ∧ c ≤ 'f' then c.toNat - 'a'.toNat + 10
  else 0

def hexBytesAux : List Char → List Nat
  | a :: b :: rest => (hexVal a * 16 + hexVal b) :: hexBytesAux rest
  | _ => []

def hexBytes (s : String) : List Nat := if s = "-" then [] else hexBytesAux s.toList

def hexDigit (n : Nat) : Char := if n < 10 then Char.ofNat (48 + n) else Char.ofNat (87 + n)
def toHex (bs : List Nat) : String :=
  if bs.isEmpty then "-" else String.ofList (bs.flatMap (fun b => [hexDigit (b / 16), hexDigit (b % 16)]))

structure PClaim where
  topic : Nat
  scheme : Nat
  issuer : Nat
  sl : Nat
  pk : Nat
  sig : SymSig
  data : List Nat

def parseClaim (ws : List String) : Option PClaim := do
  let topic ← kvNat? ws "topic"
  let scheme ← kvNat? ws "scheme"
  let issuer ← kvNat? ws "iss"
  let sl ← kvNat? ws "sl"
  let pk ← kvNat? ws "pk"
  let ok ← kvNat? ws "ok"
  let ns ← kvNat? ws "ns"
  let tag ← kvNat? ws "tag"
  let data := hexBytes ((kv? ws "data").getD "-")
  let sm ← kv? ws "sm"
  match sm.splitOn ":" with
  | [n, i, d, t, nc, h] =>
    let msg : Msg := { network := (← n.toNat?), issuer := (← i.toNat?), identity := (← d.toNat?),
                       topic := (← t.toNat?), nonce := (← nc.toNat?), data := hexBytes h }
    pure { topic, scheme, issuer, sl, pk, sig := { ok := ok = 1, ns, msg, tag }, data }
  | _ => none

def PClaim.toClaim (p : PClaim) : Claim SymSig :=
  { topic := p.topic, scheme := p.scheme, issuer := p.issuer, sig := ⟨p.sl, p.pk, p.sig⟩, data := p.data }

def parseOp (ws : List String) : Option (Op SymSig) :=
  match ws with
  | "id" :: kind :: rest =>
    let n := fun k => kvNat? rest k
    let ts := natList ((kv? rest "ts").getD "-")
    match kind with
    | "add_topic" => do pure (.reg (← n "r") (.addTopic (← n "t")))
    | "remove_topic" => do pure (.reg (← n "r") (.removeTopic (← n "t")))
    | "add_issuer" => do pure (.reg (← n "r") (.addIssuer (← n "i") ts))
    | "remove_issuer" => do pure (.reg (← n "r") (.removeIssuer (← n "i")))
    | "update_issuer" => do pure (.reg (← n "r") (.updateIssuer (← n "i") ts))
    | "irs_add" => do pure (.irsAdd (← n "a") (← n "d"))
    | "irs_modify" => do pure (.irsModify (← n "a") (← n "d"))
    | "irs_remove" => do pure (.irsRemove (← n "a"))
    | "irs_recover" => do pure (.irsRecover (← n "a") (← n "b"))
    | "add_claim" => do pure (.addClaim (← n "d") (← parseClaim rest).toClaim)
    | "remove_claim" => do pure (.removeClaim (← n "d") (← n "ci") (← n "ct"))
    | "raw_put" => do pure (.rawPut (← n "d") (← n "ci") (← n "ct") (← parseClaim rest).toClaim)
    | "raw_del" => do pure (.rawDel (← n "d") (← n "ci") (← n "ct"))
    | "allow_key" => do pure (.allowKey (← n "i") (← n "k") (← n "s") (← n "r") (← n "t"))
    | "remove_key" => do pure (.removeKey (← n "i") (← n "k") (← n "s") (← n "r") (← n "t"))
    | "invalidate" => do pure (.invalidate (← n "i") (← n "d") (← n "t"))
    | "revoke" => do
      pure (.revoke (← n "i") (← n "d") (← n "t") (hexBytes ((kv? rest "data").getD "-")) ((← n "v") = 1))
    | "set_cti" => do pure (.setCti (← n "r"))
    | "set_irs" => pure .setIrs
    | "time" | "advance" => do pure (.time (← kvNat? rest "ts"))   -- ledgers pass: persistent entries stay live, only the clock matters
    | "valid" => do
      let c ← parseClaim rest
      pure (.valid c.issuer (← n "d") c.topic c.scheme ⟨c.sl, c.pk, c.sig⟩ c.data)
    | "verify" => do pure (.verify (← n "a"))
    | _ => none
  | _ => none

/-! ### model side -/

structure M where
  w : World SymSig
  rv : List (Nat × Nat × Nat × List Nat)     -- revocation triples seen in revoke op lines

def initWorld : World SymSig :=
  { env := { network := 0, timestamp := TS0 },
    regs := fun a => if a = 0 ∨ a = 1 then some Reg.empty else none,
    irs := Irs.empty,
    ids := fun a => if a = 8 ∨ a = 9 then some IdStore.empty else none,
    issuers := fun a => if a = 4 ∨ a = 5 ∨ a = 6 then some Issuer.empty else none,
    vCti := none, vIrs := false }

def sn (l : List Nat) : String := showList toString l
def optS (o : Option String) : String := o.getD "x"
def orDash (l : List String) : String := if l.isEmpty then "-" else ";".intercalate l

def dumpReg (r : Reg) : String :=
  let ti := TOPICS.map (fun t => s!"{t}:{optS ((r.topicIssuers t).map sn)}")
  let it := ISSUER_CANDS.map (fun i => s!"{i}:{optS ((r.issuerTopics i).map sn)}")
  s!"T{sn r.topics}/I{sn r.issuers}/{";".intercalate ti}/{";".intercalate it}"

def dumpIrs (s : Irs) : String :=
  let a := ACCOUNTS.map (fun x => s!"{x}:{optS ((s.identity x).map toString)}")
  let b := ACCOUNTS.map (fun x => s!"{x}:{optS ((s.recoveredTo x).map toString)}")
  s!"{";".intercalate a}/{";".intercalate b}"

def dumpId (st : IdStore SymSig) : String :=
  let byT := TOPICS.map (fun t => s!"{t}:{showList (fun (p : Nat × Nat) => s!"{p.1}.{p.2}") (st.byTopic t)}")
  let cl := ISSUER_CANDS.flatMap (fun i => TOPICS.filterMap (fun t =>
    (st.claim i t).map (fun c => s!"{i}.{t}={c.topic}.{c.scheme}.{c.issuer}.{c.sig.sig.tag}")))
  s!"{";".intercalate byT}/{orDash cl}"

def dumpIssuer (i : Nat) (s : Issuer) (rv : List (Nat × Nat × Nat × List Nat)) : String :=
  let ks := TOPICS.map (fun t =>
    s!"{t}:{optS ((s.topicKeys t).map (showList (fun (p : Nat × Nat) => s!"{p.1}.{p.2}")))}")
  let ps := KEYS.flatMap (fun k => SCHEMES.filterMap (fun sc =>
    (s.pairs k sc).map (fun l => s!"{k}.{sc}:{sn (l.map (·.2))}")))
  let ns := ID_CANDS.flatMap (fun d => TOPICS.filterMap (fun t =>
    let n := currentNonce s d t
    if n = 0 then none else some s!"{d}.{t}:{n}"))
  let rvs := (rv.filter (fun x => x.1 = i)).map (fun x =>
    s!"{x.2.1}.{x.2.2.1}.{toHex x.2.2.2}:{if isClaimRevoked s x.2.1 x.2.2.1 x.2.2.2 then 1 else 0}")
  s!"{";".intercalate ks}/{orDash ps}/{orDash ns}/{orDash rvs}"

def isOk {ε α : Type} : Except ε α → Bool
  | .ok _ => true
  | .error _ => false

def dump (m : M) : String :=
  let w := m.w
  let regs := REGS.map (fun r => s!" R{r}={optS ((w.regs r).map dumpReg)}")
  let ids := IDS.map (fun d => s!" D{d}={optS ((w.ids d).map dumpId)}")
  let iss := ISSUERS.map (fun i => s!" I{i}={optS ((w.issuers i).map (fun s => dumpIssuer i s m.rv))}")
  let ver := ACCOUNTS.map (fun a => if isOk (verifyIdentity symVerify w a) then 1 else 0)
  s!"ts={w.env.timestamp} cti={optS (w.vCti.map toString)} virs={if w.vIrs then "2" else "x"}" ++
    "".intercalate regs ++ s!" irs={dumpIrs w.irs}" ++ "".intercalate ids ++ "".intercalate iss ++ s!" ver={sn ver}"

def trackRv (rv : List (Nat × Nat × Nat × List Nat)) (op : Op SymSig) : List (Nat × Nat × Nat × List Nat) :=
  match op with
  | .revoke i d t data _ => if rv.contains (i, d, t, data) ∨ ¬ ISSUERS.contains i then rv else rv ++ [(i, d, t, data)]
  | _ => rv

def stepLine (m : M) (line : String) : M × String :=
  match parseOp (words line) with
  | none => (m, "bad-op")
  | some op =>
    let m1 : M := { m with rv := trackRv m.rv op }
    match applyOp symVerify m1.w op with
    | .ok w' => let m2 : M := { m1 with w := w' }; (m2, "ok " ++ dump m2)
    | .error _ => (m1, "err " ++ dump m1)

/-! ### monitor: ghost state at the level of the property -/

structure GClaim where
  topic : Nat
  scheme : Nat
  issuer : Nat
  sl : Nat
  pk : Nat
  sig : SymSig
  data : List Nat

structure G where
  ts : Nat
  cti : Option Nat
  virs : Bool
  req : List (Nat × Nat)                                 -- (registry, required topic)
  trust : List ((Nat × Nat) × List Nat)                  -- (registry, issuer) ↦ topic set
  ident : List (Nat × Nat)                               -- account ↦ identity
  claims : List ((Nat × Nat × Nat) × GClaim)             -- (identity, id issuer, id topic) ↦ claim
  keys : List (Nat × Nat × Nat × Nat × Nat)              -- (issuer, key, scheme, topic, registry)
  removed : List (Nat × Nat × Nat × Nat)                 -- (issuer, key, scheme, topic) whose last
                                                         -- authorisation was taken back by remove_key
  nonce : List ((Nat × Nat × Nat) × Nat)                 -- (issuer, identity, topic) ↦ bumps
  revoked : List ((Nat × Nat × Nat × List Nat) × Bool)   -- (issuer, identity, topic, data) ↦ flag
  prev : String

def G.init : G :=
  { ts := TS0, cti := none, virs := false, req := [], trust := [], ident := [], claims := [], keys := [], removed := [],
    nonce := [], revoked := [], prev := "" }

def assocSet {κ ν : Type} [BEq κ] (l : List (κ × ν)) (k : κ) (v : ν) : List (κ × ν) :=
  (k, v) :: l.filter (fun p => !(p.1 == k))
def assocDel {κ ν : Type} [BEq κ] (l : List (κ × ν)) (k : κ) : List (κ × ν) := l.filter (fun p => !(p.1 == k))
def assocGet {κ ν : Type} [BEq κ] (l : List (κ × ν)) (k : κ) : Option ν := (l.find? (fun p => p.1 == k)).map (·.2)

def PClaim.toG (p : PClaim) : GClaim :=
  { topic := p.topic, scheme := p.scheme, issuer := p.issuer, sl := p.sl, pk := p.pk, sig := p.sig, data := p.data }

/-- effect of an ACCEPTED operation, at the level of the property -/
def G.update (g : G) (ws : List String) : G :=
  match ws with
  | "id" :: kind :: rest =>
    let n := fun k => (kvNat? rest k).getD 0
    let ts := natList ((kv? rest "ts").getD "-")
    match kind with
    | "add_topic" => { g with req := (n "r", n "t") :: g.req }
    | "remove_topic" =>
      { g with req := g.req.filter (fun p => !(p == (n "r", n "t"))),
               trust := g.trust.map (fun p => if p.1.1 = n "r" then (p.1, p.2.filter (· ≠ n "t")) else p) }
    | "add_issuer" | "update_issuer" => { g with trust := assocSet g.trust (n "r", n "i") ts }
    | "remove_issuer" => { g with trust := assocDel g.trust (n "r", n "i") }
    | "irs_add" | "irs_modify" => { g with ident := assocSet g.ident (n "a") (n "d") }
    | "irs_remove" => { g with ident := assocDel g.ident (n "a") }
    | "irs_recover" =>
      match assocGet g.ident (n "a") with
      | some d => { g with ident := assocSet (assocDel g.ident (n "a")) (n "b") d }
      | none => g
    | "add_claim" =>
      match parseClaim rest with
      | some c => { g with claims := assocSet g.claims (n "d", c.issuer, c.topic) c.toG }
      | none => g
    | "raw_put" =>
      match parseClaim rest with
      | some c => { g with claims := assocSet g.claims (n "d", n "ci", n "ct") c.toG }
      | none => g
    | "remove_claim" | "raw_del" => { g with claims := assocDel g.claims (n "d", n "ci", n "ct") }
    | "allow_key" =>
      { g with keys := (n "i", n "k", n "s", n "t", n "r") :: g.keys,
               removed := g.removed.filter (fun x => !(x == (n "i", n "k", n "s", n "t"))) }
    | "remove_key" =>
      let keys' := g.keys.filter (fun x => !(x == (n "i", n "k", n "s", n "t", n "r")))
      let left := keys'.any (fun x => x.1 == n "i" && x.2.1 == n "k" && x.2.2.1 == n "s" && x.2.2.2.1 == n "t")
      { g with keys := keys',
               removed := if left then g.removed else (n "i", n "k", n "s", n "t") :: g.removed }
    | "invalidate" =>
      { g with nonce := assocSet g.nonce (n "i", n "d", n "t") ((assocGet g.nonce (n "i", n "d", n "t")).getD 0 + 1) }
    | "revoke" =>
      { g with revoked := assocSet g.revoked (n "i", n "d", n "t", hexBytes ((kv? rest "data").getD "-")) (n "v" = 1) }
    | "set_cti" => { g with cti := some (n "r") }
    | "set_irs" => { g with virs := true }
    | "time" | "advance" => { g with ts := n "ts" }   -- nothing else changes with time: revoked stays revoked, removed stays removed
    | _ => g
  | _ => g

def wellFormed (scheme sl : Nat) : Bool :=
  (algOf scheme = 101 ∧ sl = 96) ∨ (algOf scheme = 102 ∧ sl = 129) ∨ (algOf scheme = 103 ∧ sl = 133)

def gValidUntil (data : List Nat) : Option Nat :=
  if data.length < 16 then none else some (((data.drop 8).take 8).foldl (fun a b => a * 256 + b) 0)

/-- the property's second sentence: the issuer confirms a claim only if it is signed, over this
network, issuer, identity, topic, current nonce and data, by a key currently allowed for the topic
(the ghost key registry is keyed by (issuer, KEY, SCHEME, topic, registry): the same key bytes under
another scheme number are another signing key), and the claim is neither expired nor revoked -/
def G.keyAllowed (g : G) (i pk scheme t : Nat) : Bool :=
  g.keys.any (fun x => x.1 == i && x.2.1 == pk && x.2.2.1 == scheme && x.2.2.2.1 == t)

def G.isRevoked (g : G) (i d t : Nat) (data : List Nat) : Bool :=
  (assocGet g.revoked (i, d, t, data)).getD false

/-- well-formed, genuinely signed over exactly (network, issuer, identity, topic, current nonce, data),
not expired -/
def G.coreOk (g : G) (i d t : Nat) (c : GClaim) : Bool :=
  ISSUERS.contains i
  && wellFormed c.scheme c.sl
  && (c.sig.ok && c.sig.ns == algOf c.scheme)
  && decide (c.sig.msg = { network := 0, issuer := i, identity := d, topic := t,
                           nonce := (assocGet g.nonce (i, d, t)).getD 0, data := c.data })
  && (match gValidUntil c.data with | some vu => decide (g.ts < vu) | none => false)

/-- every condition but "signed by a key currently allowed for the topic" -/
def G.confirmsButKey (g : G) (i d t : Nat) (c : GClaim) : Bool :=
  g.coreOk i d t c && !g.isRevoked i d t c.data

def G.confirms (g : G) (i d t : Nat) (c : GClaim) : Bool :=
  g.confirmsButKey i d t c && g.keyAllowed i c.pk c.scheme t

def G.trustedFor (g : G) (r i t : Nat) : Bool :=
  match assocGet g.trust (r, i) with
  | some ts => ts.contains t
  | none => false

/-- the property's first sentence -/
def G.verifies (g : G) (a : Nat) : Bool :=
  g.virs &&
  match assocGet g.ident a, g.cti with
  | some d, some r =>
    REGS.contains r &&
    (g.req.filter (fun p => p.1 == r)).all (fun p =>
      ISSUER_CANDS.any (fun i =>
        g.trustedFor r i p.2 && IDS.contains d &&
        match assocGet g.claims (d, i, p.2) with
        | some c => c.topic == p.2 && c.issuer == i && g.confirms i d p.2 c
        | none => false))
  | _, _ => false

def afterTag (obs : String) : String := " ".intercalate ((words obs).drop 1)

def check (g : G) (opl obs : String) : G × Option String :=
  let ws := words opl
  let ows := words obs
  let ok : Bool := ows.head? == some "ok"
  let rest := afterTag obs
  let g1 := if ok then g.update ws else g
  let g2 := { g1 with prev := rest }
  let kind := (ws.drop 1).head?.getD ""
  let ver := natList ((kv? ows "ver").getD "-")
  let exp := ACCOUNTS.map (fun a => if g1.verifies a then 1 else 0)
  let validFail : Option String :=
    if kind = "valid" then
      match parseClaim (ws.drop 2) with
      | some c =>
        let d := (kvNat? ws "d").getD 0
        let want := g1.confirms c.issuer d c.topic c.toG
        if ok ∧ ¬ want then
          if g1.coreOk c.issuer d c.topic c.toG ∧ g1.keyAllowed c.issuer c.pk c.scheme c.topic
              ∧ g1.isRevoked c.issuer d c.topic c.data then
            some s!"site=identity.issuer.revoked_accepts issuer={c.issuer} identity={d} topic={c.topic}: is_claim_valid accepts a claim that was revoked and never un-revoked (now ts={g1.ts})"
          else if g1.confirmsButKey c.issuer d c.topic c.toG then
            if g1.removed.contains (c.issuer, c.pk, c.scheme, c.topic) then
              some s!"site=identity.issuer.key_removed_accepts issuer={c.issuer} key={c.pk} scheme={c.scheme} topic={c.topic}: is_claim_valid accepts a claim signed by a (key, scheme) whose authorisation for the topic was removed"
            else
              some s!"site=identity.issuer.key_not_allowed_accepts issuer={c.issuer} key={c.pk} scheme={c.scheme} topic={c.topic}: is_claim_valid accepts a claim signed by a (key, scheme) not allowed for the topic"
          else
            some s!"site=issuer.valid.accepts issuer={c.issuer}: is_claim_valid accepts a claim that is not (signed over network, issuer, identity, topic, current nonce, data by an allowed key, unexpired, unrevoked)"
        else if ¬ ok ∧ want then
          if g1.removed.any (fun x => x.1 == c.issuer && x.2.1 == c.pk && x.2.2.1 != c.scheme) then
            some s!"site=identity.issuer.key_kept_rejects issuer={c.issuer} key={c.pk} scheme={c.scheme} topic={c.topic}: is_claim_valid rejects a claim signed by a (key, scheme) still allowed for the topic after the same key was removed under another scheme"
          else
            some s!"site=issuer.valid.rejects issuer={c.issuer}: is_claim_valid rejects a claim meeting every condition"
        else none
      | none => some "site=identity.parse unparsable claim"
    else none
  let fail : Option String :=
    if ¬ ok ∧ g.prev ≠ "" ∧ kind ≠ "revoke" ∧ rest ≠ g.prev then
      some "site=identity.rollback a rejected operation changed an observable"
    else if ver.length ≠ ACCOUNTS.length then some s!"site=identity.parse unparsable observation"
    else if validFail.isSome then validFail
    else
      match (ACCOUNTS.zip (ver.zip exp)).find? (fun x => x.2.1 ≠ x.2.2) with
      | some (a, got, _) =>
        if got = 1 then
          some s!"site=identity.verify.accepts account={a}: verification succeeds although some required topic has no valid claim from a currently trusted issuer"
        else
          some s!"site=identity.verify.rejects account={a}: verification fails although every required topic has a valid claim from a currently trusted issuer"
      | none =>
        if kind = "verify" then
          let a := (kvNat? ws "a").getD 0
          if ok ≠ g1.verifies a then some s!"site=identity.verify.op account={a} outcome differs from the property's condition"
          else none
        else if kind = "add_claim" ∧ ok then
          -- an identity built from `add_claim` stores only claims its issuer confirmed
          match parseClaim (ws.drop 2) with
          | some c =>
            if g.confirms c.issuer ((kvNat? ws "d").getD 0) c.topic c.toG then none
            else some s!"site=identity.add_claim.accepts a claim its issuer does not confirm was stored"
          | none => none
        else none
  (g2, fail)

def machine : Machine where
  σ := M
  init := fun _ => { w := initWorld, rv := [] }
  op := stepLine
  μ := G
  minit := fun _ => G.init
  mon := check

end OZ.Drv.C15

def main : IO Unit := OZ.Drv.run OZ.Drv.C15.machine
