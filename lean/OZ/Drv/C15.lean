import OZ.DrvUtil
import OZ.Model.IdentityMon
/-
Driver for C15 (an RWA identity is verified only by valid claims from currently trusted issuers).

Model side: `OZ.Identity.applyOp` over a world with two registries (addresses 0, 1), the identity
registry storage (2), the verifier (3), three claim issuer contracts (4, 5, 6), two identity
contracts (8, 9); 7 and 10 are addresses without a contract, 11..13 accounts. Signatures are
symbolic: the op line carries the tuple that was really signed and a bit `ok` the harness computed
with the Rust crypto crates (the bytes verify under the embedded public key over that tuple's
encoding, for the algorithm `ns`); the oracle accepts iff `ok`, the scheme is that algorithm's and
the message to verify IS that tuple (ideal signatures: "cryptography assumed").

Monitor side: a ghost state at the level of the property — required topics as a set, trusted
issuer ↦ topic set as a plain map, the claims an identity holds, per issuer the allowed
(key, scheme, topic, registry) tuples, nonces, revocations — updated from ACCEPTED op lines only,
never through the model. Every `ver=` entry and every `verify` / `valid` outcome of the
implementation must equal the property's condition evaluated on the ghost state.

The monitor itself (`checkCore`, on parsed values), the universe, the symbolic signature oracle and
the model-side step `stepM` live in OZ/Model/IdentityMon.lean; OZ/Props/C15Mon.lean proves the monitor
silent on every model trace. This file only parses (`parseOp`, `parseObs`) and prints (`dump`).
String-level parts NOT covered by that theorem (trusted): `parseOp` / `parseClaim` / `parseObs`
(incl. `afterTag`: the text after the `ok` / `err` tag is the same function `dump` of the model-side
state whatever the tag; `natList` of the printed `ver=` field gives back `verOf`), and the
`site=identity.parse` message for an op line that does not parse.
-/
namespace OZ.Drv.C15
open OZ.Drv OZ.Host OZ.Identity OZ.ClaimIssuer OZ.Identity.Mon

def TOPICS : List Nat := [1, 2, 3, 7]
def SCHEMES : List Nat := [101, 102, 103, 111, 112, 113]
def KEYS : List Nat := [1, 2, 3, 4, 5, 6]
def ID_CANDS : List Nat := [8, 9, 10]

/-! ### parsing -/

def hexVal (c : Char) : Nat :=
  if '0' ≤ c ∧ c ≤ '9' then c.toNat - '0'.toNat
  else if 'a' ≤ c ∧ c ≤ 'f' then c.toNat - 'a'.toNat + 10
  else 0

def hexBytesAux : List Char → List Nat
  | a :: b :: rest => (hexVal a * 16 + hexVal b) :: hexBytesAux rest
  | _ => []

def hexBytes (s : String) : List Nat := if s = "-" then [] else hexBytesAux s.toList

def hexDigit (n : Nat) : Char := if n < 10 then Char.ofNat (48 + n) else Char.ofNat (87 + n)
def toHex (bs : List Nat) : String :=
  if bs.isEmpty then "-" else String.ofList (bs.flatMap (fun b => [hexDigit (b / 16), hexDigit (b % 16)]))

structure PClaim where
  topic : Nat
  scheme : Nat
  issuer : Nat
  sl : Nat
  pk : Nat
  sig : SymSig
  data : List Nat

def parseClaim (ws : List String) : Option PClaim := do
  let topic ← kvNat? ws "topic"
  let scheme ← kvNat? ws "scheme"
  let issuer ← kvNat? ws "iss"
  let sl ← kvNat? ws "sl"
  let pk ← kvNat? ws "pk"
  let ok ← kvNat? ws "ok"
  let ns ← kvNat? ws "ns"
  let tag ← kvNat? ws "tag"
  let data := hexBytes ((kv? ws "data").getD "-")
  let sm ← kv? ws "sm"
  match sm.splitOn ":" with
  | [n, i, d, t, nc, h] =>
    let msg : Msg := { network := (← n.toNat?), issuer := (← i.toNat?), identity := (← d.toNat?),
                       topic := (← t.toNat?), nonce := (← nc.toNat?), data := hexBytes h }
    pure { topic, scheme, issuer, sl, pk, sig := { ok := ok = 1, ns, msg, tag }, data }
  | _ => none

def PClaim.toClaim (p : PClaim) : Claim SymSig :=
  { topic := p.topic, scheme := p.scheme, issuer := p.issuer, sig := ⟨p.sl, p.pk, p.sig⟩, data := p.data }

def parseOp (ws : List String) : Option (Op SymSig) :=
  match ws with
  | "id" :: kind :: rest =>
    let n := fun k => kvNat? rest k
    let ts := natList ((kv? rest "ts").getD "-")
    match kind with
    | "add_topic" => do pure (.reg (← n "r") (.addTopic (← n "t")))
    | "remove_topic" => do pure (.reg (← n "r") (.removeTopic (← n "t")))
    | "add_issuer" => do pure (.reg (← n "r") (.addIssuer (← n "i") ts))
    | "remove_issuer" => do pure (.reg (← n "r") (.removeIssuer (← n "i")))
    | "update_issuer" => do pure (.reg (← n "r") (.updateIssuer (← n "i") ts))
    | "irs_add" => do pure (.irsAdd (← n "a") (← n "d"))
    | "irs_modify" => do pure (.irsModify (← n "a") (← n "d"))
    | "irs_remove" => do pure (.irsRemove (← n "a"))
    | "irs_recover" => do pure (.irsRecover (← n "a") (← n "b"))
    | "add_claim" => do pure (.addClaim (← n "d") (← parseClaim rest).toClaim)
    | "remove_claim" => do pure (.removeClaim (← n "d") (← n "ci") (← n "ct"))
    | "raw_put" => do pure (.rawPut (← n "d") (← n "ci") (← n "ct") (← parseClaim rest).toClaim)
    | "raw_del" => do pure (.rawDel (← n "d") (← n "ci") (← n "ct"))
    | "allow_key" => do pure (.allowKey (← n "i") (← n "k") (← n "s") (← n "r") (← n "t"))
    | "remove_key" => do pure (.removeKey (← n "i") (← n "k") (← n "s") (← n "r") (← n "t"))
    | "invalidate" => do pure (.invalidate (← n "i") (← n "d") (← n "t"))
    | "revoke" => do
      pure (.revoke (← n "i") (← n "d") (← n "t") (hexBytes ((kv? rest "data").getD "-")) ((← n "v") = 1))
    | "set_cti" => do pure (.setCti (← n "r"))
    | "set_irs" => pure .setIrs
    | "time" | "advance" => do pure (.time (← kvNat? rest "ts"))   -- ledgers pass: persistent entries stay live, only the clock matters
    | "valid" => do
      let c ← parseClaim rest
      pure (.valid c.issuer (← n "d") c.topic c.scheme ⟨c.sl, c.pk, c.sig⟩ c.data)
    | "verify" => do pure (.verify (← n "a"))
    | _ => none
  | _ => none

/-! ### model side -/

def sn (l : List Nat) : String := showList toString l
def optS (o : Option String) : String := o.getD "x"
def orDash (l : List String) : String := if l.isEmpty then "-" else ";".intercalate l

def dumpReg (r : Reg) : String :=
  let ti := TOPICS.map (fun t => s!"{t}:{optS ((r.topicIssuers t).map sn)}")
  let it := ISSUER_CANDS.map (fun i => s!"{i}:{optS ((r.issuerTopics i).map sn)}")
  s!"T{sn r.topics}/I{sn r.issuers}/{";".intercalate ti}/{";".intercalate it}"

def dumpIrs (s : Irs) : String :=
  let a := ACCOUNTS.map (fun x => s!"{x}:{optS ((s.identity x).map toString)}")
  let b := ACCOUNTS.map (fun x => s!"{x}:{optS ((s.recoveredTo x).map toString)}")
  s!"{";".intercalate a}/{";".intercalate b}"

def dumpId (st : IdStore SymSig) : String :=
  let byT := TOPICS.map (fun t => s!"{t}:{showList (fun (p : Nat × Nat) => s!"{p.1}.{p.2}") (st.byTopic t)}")
  let cl := ISSUER_CANDS.flatMap (fun i => TOPICS.filterMap (fun t =>
    (st.claim i t).map (fun c => s!"{i}.{t}={c.topic}.{c.scheme}.{c.issuer}.{c.sig.sig.tag}")))
  s!"{";".intercalate byT}/{orDash cl}"

def dumpIssuer (i : Nat) (s : Issuer) (rv : List (Nat × Nat × Nat × List Nat)) : String :=
  let ks := TOPICS.map (fun t =>
    s!"{t}:{optS ((s.topicKeys t).map (showList (fun (p : Nat × Nat) => s!"{p.1}.{p.2}")))}")
  let ps := KEYS.flatMap (fun k => SCHEMES.filterMap (fun sc =>
    (s.pairs k sc).map (fun l => s!"{k}.{sc}:{sn (l.map (·.2))}")))
  let ns := ID_CANDS.flatMap (fun d => TOPICS.filterMap (fun t =>
    let n := currentNonce s d t
    if n = 0 then none else some s!"{d}.{t}:{n}"))
  let rvs := (rv.filter (fun x => x.1 = i)).map (fun x =>
    s!"{x.2.1}.{x.2.2.1}.{toHex x.2.2.2}:{if isClaimRevoked s x.2.1 x.2.2.1 x.2.2.2 then 1 else 0}")
  s!"{";".intercalate ks}/{orDash ps}/{orDash ns}/{orDash rvs}"

def dump (m : M) : String :=
  let w := m.w
  let regs := REGS.map (fun r => s!" R{r}={optS ((w.regs r).map dumpReg)}")
  let ids := IDS.map (fun d => s!" D{d}={optS ((w.ids d).map dumpId)}")
  let iss := ISSUERS.map (fun i => s!" I{i}={optS ((w.issuers i).map (fun s => dumpIssuer i s m.rv))}")
  let ver := verOf w
  s!"ts={w.env.timestamp} cti={optS (w.vCti.map toString)} virs={if w.vIrs then "2" else "x"}" ++
    "".intercalate regs ++ s!" irs={dumpIrs w.irs}" ++ "".intercalate ids ++ "".intercalate iss ++ s!" ver={sn ver}"

/-- model side: `stepM` (OZ/Model/IdentityMon.lean) runs the model with the host's rollback; the
observation is the tag and the dump of the resulting driver state -/
def stepLine (m : M) (line : String) : M × String :=
  match parseOp (words line) with
  | none => (m, "bad-op")
  | some op =>
    match stepM m op with
    | (m', true) => (m', "ok " ++ dump m')
    | (m', false) => (m', "err " ++ dump m')

/-! ### monitor: parse, then `checkCore` (OZ/Model/IdentityMon.lean) -/

def afterTag (obs : String) : String := " ".intercalate ((words obs).drop 1)

def parseObs (obs : String) : Obs :=
  { ok := (words obs).head? == some "ok", rest := afterTag obs,
    ver := natList ((kv? (words obs) "ver").getD "-") }

def check (g : G) (opl obs : String) : G × Option String :=
  match parseOp (words opl) with
  | some op => checkCore g op (parseObs obs)
  | none => ({ g with prev := afterTag obs }, some s!"site=identity.parse unparsable op line: {opl}")

def machine : Machine where
  σ := M
  init := fun _ => initM
  op := stepLine
  μ := G
  minit := fun _ => G.init
  mon := check

end OZ.Drv.C15

def main : IO Unit := OZ.Drv.run OZ.Drv.C15.machine
