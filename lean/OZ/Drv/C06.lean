import OZ.DrvUtil
import OZ.Model.AccessMon
import OZ.Model.AccessStkMon
/-
Driver for C06 (roles, role admins, admin / owner guards, enumeration).

Sequence label:  `... kind=lib|nft|own min_temp=<n> max_ttl=<n> start=<ledger> admin=<a|-> owner=<a|-> empty=<role idx>`
  (roles are indices; the harness maps them to Symbols: 0 minter, 1 burner, 2 r2, 3 "admin", 4 the EMPTY symbol "", n ≥ 5 r<n>)
Op lines (accounts a/k, roles r/ar are small naturals; auth = authorizing addresses):
  ac grant a= r= k= auth=          ac revoke a= r= k= auth=        ac renounce r= k= auth=
  ac grant_na a= r= k= auth=       ac revoke_na a= r= k= auth=
  ac set_ra r= ar= auth=           ac set_ra_na r= ar= auth=       ac rm_ra_na r= auth=      ac rm_cnt_na r= auth=
  ac adm_offer new= lu= auth=      ac adm_accept auth=             ac adm_renounce auth=     ac adm_guarded auth=
  ac own_offer new= lu= auth=      ac own_accept auth=             ac own_renounce auth=     ac own_guarded auth=
  ac only_role k= r= body=0|1 auth=          ac has_role k= r= ba=0|1 body=0|1 auth=
  ac has_any k= rs=0,1 ba=0|1 auth=          ac only_any k= rs=0,1 auth=          ac ensure_aor r= k= auth=
  ac advance n=
Observation:
  ok|err admin=<a|-> owner=<a|-> now=<n> ra=<role admin of roles 0..R-1> roles=<R blocks ;-separated>
         xr=<idx:block;..|-> ex=<existing roles|-> ev=<events|->
  block = count/members by index/index of accounts 0..N-1/F (get_role_member(count) failed) or S<a>

`op` runs the model. `mon` never does: it only PARSES the op / observation lines and calls
`OZ.Access.Mon.checkCore` (OZ/Model/AccessMon.lean), which keeps the plain set of (account, role)
pairs (OZ.Access.setStep fed with the implementation's outcomes), the previously observed
admin / owner / role admins and two more ghost logs, and evaluates the conclusions of Props/C06 on
the implementation's observations. `checkCore` is proved sound in OZ/Props/C06Mon.lean
(`monitor_accepts_every_model_trace`). Not covered by that theorem (string level, trusted):
`parseOp`, `parseObs` (the observation grammar; `site=ac.parse`) and the fact that `parseObs`
applied to the line `stepLine` prints yields `OZ.Access.Mon.modelObs` of the printed state.

Fourth machine `stk` (label `kind=stk`; harness contract `stk::Stacked2`: sixteen entry points stacking TWO
role guards, every ordered pair of has_role / only_role / has_any_role / only_any_role):
  label        `... kind=stk admin=<a> start=<ledger>`
  op lines     stk <outer>_<inner> a=<acct> b=<acct> auth=       (hr has_role, or only_role, ha has_any_role, oa only_any_role)
               stk grant a=<acct> r=<role> auth=                 stk revoke a=<acct> r=<role> auth=
  observation  ok|err ret=<i|-> counter=<i> roles=<bits of accounts 0..4 for role 0>;<role 1>;<role 2>
It has its own small model side and monitor core, `OZ.Access.Stk.Mon.stepM` / `checkCore`
(OZ/Model/AccessStkMon.lean, proved sound in OZ/Props/C06StkMon.lean); `machine` dispatches on the label
(`Sigma` / `MonSt`), this file only parses (`StkIO.parseOp`, `StkIO.parseObs`) and prints (`StkIO.obsLine`) for
it. The lines and `site=` tokens of the machines lib / nft / own are unchanged. String level and trusted
like the other parsers: the dispatch on `kind=stk`, `StkIO.parseOp` / `parseObs` (an absent or malformed
field of an observation reads as its default; an unparsable op line is `site=ac.parse`).
-/
namespace OZ.Drv.C06
open OZ.Drv OZ.Access OZ.Access.Mon OZ.Host

structure M where
  cfg : Cfg
  s : State
  /-- index of the role whose Symbol is the empty string (label `empty=<idx>`): the
  `role_admin_changed` event shows "no previous admin role" as that same Symbol, so a previous
  admin role equal to it is indistinguishable from none at the event level and printed `-` -/
  empty : Option Nat

def optNat (ws : List String) (k : String) : Option Nat := (kv? ws k).bind String.toNat?

def parseCfg (ws : List String) : Cfg := ⟨(kvNat? ws "min_temp").getD 1, (kvNat? ws "max_ttl").getD 200000⟩

def initM (label : String) : M :=
  let ws := words label
  { cfg := parseCfg ws, s := init (optNat ws "admin") (optNat ws "owner") ((kvNat? ws "start").getD 100),
    empty := optNat ws "empty" }

def flag (ws : List String) (k : String) : Bool := kv? ws k = some "1"

def parseOp (ws : List String) : Option (List Nat × Op) :=
  match ws with
  | "ac" :: kind :: rest =>
    let auth := natList ((kv? rest "auth").getD "-")
    let a := (kvNat? rest "a").getD 0
    let r := (kvNat? rest "r").getD 0
    let k := (kvNat? rest "k").getD 0
    let ar := (kvNat? rest "ar").getD 0
    let rs := natList ((kv? rest "rs").getD "-")
    let rtOffer : OZ.RoleTransfer.Op := .offer ((kvNat? rest "new").getD 0) ((kvNat? rest "lu").getD 0)
    match kind with
    | "grant" => some (auth, .grant a r k)
    | "revoke" => some (auth, .revoke a r k)
    | "renounce" => some (auth, .renounce r k)
    | "grant_na" => some (auth, .grantNoAuth a r k)
    | "revoke_na" => some (auth, .revokeNoAuth a r k)
    | "set_ra" => some (auth, .setRoleAdmin r ar)
    | "set_ra_na" => some (auth, .setRoleAdminNoAuth r ar)
    | "rm_ra_na" => some (auth, .removeRoleAdminNoAuth r)
    | "rm_cnt_na" => some (auth, .removeCountNoAuth r)
    | "adm_offer" => some (auth, .adm rtOffer)
    | "adm_accept" => some (auth, .adm .accept)
    | "adm_renounce" => some (auth, .adm .renounce)
    | "adm_guarded" => some (auth, .adm .guarded)
    | "own_offer" => some (auth, .own rtOffer)
    | "own_accept" => some (auth, .own .accept)
    | "own_renounce" => some (auth, .own .renounce)
    | "own_guarded" => some (auth, .own .guarded)
    | "only_role" => some (auth, .onlyRole k r (flag rest "body"))
    | "has_role" => some (auth, .hasRole k r (flag rest "ba") (flag rest "body"))
    | "has_any" => some (auth, .hasAnyRole k rs (flag rest "ba"))
    | "only_any" => some (auth, .onlyAnyRole k rs)
    | "ensure_aor" => some (auth, .ensureAdminOrRole r k)
    | "advance" => some ([], .advance ((kvNat? rest "n").getD 0))
    | _ => none
  | _ => none

/-- roles ≥ R named by the op line are displayed too -/
def extraRoles (ws : List String) : List Nat :=
  ((["r", "ar"].filterMap (kvNat? ws)).filter (· ≥ R)).eraseDups

/-- the observation line of a state; `showHolders`, `showRoles`, `showExisting` (OZ/Model/AccessMon.lean)
are the persistent part (`OZ.Access.Mon.persistStr`) -/
def showState (s : State) (xr : List Nat) : String :=
  let x := if xr.isEmpty then "-" else ";".intercalate (xr.map (fun r => s!"{r}:{showRole s r}"))
  s!"{showHolders s} now={s.adm.now} {showRoles s} xr={x} {showExisting s}"

def showEvent (empty : Option Nat) : Event → String
  | .roleGranted r a k => s!"grant:{r}:{a}:{k}"
  | .roleRevoked r a k => s!"revoke:{r}:{a}:{k}"
  | .roleAdminChanged r p n => s!"radm:{r}:{if p = empty then "-" else showOpt p}:{n}"

def showRtEvent : OZ.RoleTransfer.Event → String
  | .initiated o n lu => s!"xfer:{o}:{n}:{lu}"
  | .completed n p => s!"done:{n}:{showOpt p}"
  | .renounced o => s!"renounced:{o}"

def stepLine (m : M) (line : String) : M × String :=
  let ws := words line
  match parseOp ws with
  | none => (m, "bad-op")
  | some (auth, op) =>
    let xr := extraRoles ws
    match apply m.cfg m.s auth op with
    | .ok s' =>
      let evs := (s'.events.drop m.s.events.length).map (showEvent m.empty)
        ++ (s'.adm.events.drop m.s.adm.events.length).map showRtEvent
        ++ (s'.own.events.drop m.s.own.events.length).map showRtEvent
      ({ m with s := s' }, s!"ok {showState s' xr} ev={if evs.isEmpty then "-" else ";".intercalate evs}")
    | .error _ => (m, s!"err {showState m.s xr} ev=-")

/-! ### monitor -/

def optList (s : String) : List (Option Nat) :=
  if s = "" ∨ s = "-" then [] else (s.splitOn ",").map String.toNat?

def parseBlock (role : Nat) (b : String) : Option RoleObs :=
  match b.splitOn "/" with
  | [c, mem, idx, oob] => do
    let c ← c.toNat?
    pure { role, count := c, members := optList mem, idx := (idx.splitOn ",").map String.toNat?, oob }
  | _ => none

def parseObs (line : String) : Option Obs :=
  match words line with
  | tag :: rest => do
    let ra := ((← kv? rest "ra").splitOn ",").map String.toNat?
    let blocks := (← kv? rest "roles").splitOn ";"
    let base ← (List.range blocks.length |>.zip blocks).mapM (fun (r, b) => parseBlock r b)
    let xrS ← kv? rest "xr"
    let extra ← if xrS = "-" then some [] else (xrS.splitOn ";").mapM (fun t =>
      match t.splitOn ":" with
      | [r, b] => do parseBlock (← r.toNat?) b
      | _ => none)
    let st := " ".intercalate (rest.filter (fun w => ¬ w.startsWith "ev=" ∧ ¬ w.startsWith "xr=" ∧ ¬ w.startsWith "now="))
    pure { ok := tag = "ok", admin := (← kv? rest "admin").toNat?, owner := (← kv? rest "owner").toNat?,
           ra, roles := base ++ extra, ex := natList ((kv? rest "ex").getD "-"), stateStr := st }
  | _ => none

def minit (label : String) : Mon :=
  let ws := words label
  monInit (optNat ws "admin") (optNat ws "owner")

def check (m : Mon) (opl obs : String) : Mon × Option String :=
  match parseOp (words opl), parseObs obs with
  | some (auth, op), some o => checkCore m auth op o
  | _, _ => (m, some s!"site=ac.parse unparsable op/observation: {opl} / {obs}")

/-! ### machine `stk` (stacked role guards): parsing and printing only -/

namespace StkIO
open OZ.Access.Stk OZ.Access.Stk.Mon

def parseMac (s : String) : Option Mac :=
  match s with
  | "hr" => some .has
  | "or" => some .only
  | "ha" => some .hasAny
  | "oa" => some .onlyAny
  | _ => none

/-- `<outer>_<inner>` -/
def parseFn (s : String) : Option Fn :=
  match s.splitOn "_" with
  | [o, i] => do pure ⟨(← parseMac o), (← parseMac i)⟩
  | _ => none

/-- the parameter of a `kind=stk` label -/
def paramsOf (label : String) : Stk.Mon.Params := { admin := (kvNat? (words label) "admin").getD 0 }

/-- the op line, as both the model side and the monitor read it -/
def parseOp (line : String) : Option (List Nat × Stk.Op) :=
  match words line with
  | "stk" :: name :: rest =>
    let auth := natList ((kv? rest "auth").getD "-")
    match name with
    | "grant" => do pure (auth, .grant (← kvNat? rest "a") (← kvNat? rest "r"))
    | "revoke" => do pure (auth, .revoke (← kvNat? rest "a") (← kvNat? rest "r"))
    | _ => do pure (auth, .call (← parseFn name) (← kvNat? rest "a") (← kvNat? rest "b"))
  | _ => none

def bits (l : List Bool) : String := String.join (l.map fun b => if b then "1" else "0")

/-- the observation line: the fields of `OZ.Access.Stk.Mon.modelObs` -/
def obsLine (tag : String) (o : Stk.Mon.Obs) : String :=
  let ret := match o.ret with | some r => toString r | none => "-"
  s!"{tag} ret={ret} counter={o.st.counter} roles={";".intercalate (o.st.roles.map bits)}"

def stepLine (x : Stk.St) (line : String) : Stk.St × String :=
  match parseOp line with
  | none => (x, "bad-op")
  | some (auth, op) =>
    let r := stepM x auth op
    (r.1, obsLine (if r.2 then "ok" else "err") (modelObs r.1 r.2 op))

/-- the observation line as the monitor reads it (never fails: absent fields read as defaults) -/
def parseObs (obs : String) : Stk.Mon.Obs :=
  let ows := words obs
  { ok := ows.head? = some "ok",
    ret := kvInt? ows "ret",
    st := { counter := (kvInt? ows "counter").getD 0,
            roles := (((kv? ows "roles").getD "").splitOn ";").map fun b => b.toList.map (· == '1') } }

def check (m : Stk.Mon.Mon) (opl obs : String) : Stk.Mon.Mon × Option String :=
  match parseOp opl with
  | some (auth, op) => checkCore m auth op (parseObs obs)
  | none => (m, some s!"site=ac.parse unparsable op/observation: {opl} / {obs}")

end StkIO

/-! ### dispatch on the label -/

/-- the model state of a sequence: one of the machines lib / nft / own, or the machine `stk` -/
inductive Sigma where
  | ac (m : M)
  | stk (x : OZ.Access.Stk.St)

inductive MonSt where
  | ac (m : Mon)
  | stk (m : OZ.Access.Stk.Mon.Mon)

def isStk (label : String) : Bool := kv? (words label) "kind" == some "stk"

def initAny (label : String) : Sigma :=
  if isStk label then .stk (OZ.Access.Stk.Mon.initM (StkIO.paramsOf label)) else .ac (initM label)

def opAny : Sigma → String → Sigma × String
  | .ac m, line => let r := stepLine m line; (.ac r.1, r.2)
  | .stk x, line => let r := StkIO.stepLine x line; (.stk r.1, r.2)

def minitAny (label : String) : MonSt :=
  if isStk label then .stk (OZ.Access.Stk.Mon.monInit (StkIO.paramsOf label)) else .ac (minit label)

def monAny : MonSt → String → String → MonSt × Option String
  | .ac m, opl, obs => let r := check m opl obs; (.ac r.1, r.2)
  | .stk m, opl, obs => let r := StkIO.check m opl obs; (.stk r.1, r.2)

def machine : Machine where
  σ := Sigma
  init := initAny
  op := opAny
  μ := MonSt
  minit := minitAny
  mon := monAny

end OZ.Drv.C06

def main : IO Unit := OZ.Drv.run OZ.Drv.C06.machine
