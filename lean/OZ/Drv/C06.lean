import OZ.DrvUtil
import OZ.Model.Access
/-
Driver for C06 (roles, role admins, admin / owner guards, enumeration).

Sequence label:  `... kind=lib|nft|own min_temp=<n> max_ttl=<n> start=<ledger> admin=<a|-> owner=<a|-> empty=<role idx>`
  (roles are indices; the harness maps them to Symbols: 0 minter, 1 burner, 2 r2, 3 "admin", 4 the EMPTY symbol "", n ≥ 5 r<n>)
Op lines (accounts a/k, roles r/ar are small naturals; auth = authorizing addresses):
  ac grant a= r= k= auth=          ac revoke a= r= k= auth=        ac renounce r= k= auth=
  ac grant_na a= r= k= auth=       ac revoke_na a= r= k= auth=
  ac set_ra r= ar= auth=           ac set_ra_na r= ar= auth=       ac rm_ra_na r= auth=      ac rm_cnt_na r= auth=
  ac adm_offer new= lu= auth=      ac adm_accept auth=             ac adm_renounce auth=     ac adm_guarded auth=
  ac own_offer new= lu= auth=      ac own_accept auth=             ac own_renounce auth=     ac own_guarded auth=
  ac only_role k= r= body=0|1 auth=          ac has_role k= r= ba=0|1 body=0|1 auth=
  ac has_any k= rs=0,1 ba=0|1 auth=          ac only_any k= rs=0,1 auth=          ac ensure_aor r= k= auth=
  ac advance n=
Observation:
  ok|err admin=<a|-> owner=<a|-> now=<n> ra=<role admin of roles 0..R-1> roles=<R blocks ;-separated>
         xr=<idx:block;..|-> ex=<existing roles|-> ev=<events|->
  block = count/members by index/index of accounts 0..N-1/F (get_role_member(count) failed) or S<a>

`op` runs the model. `mon` keeps only the plain set of (account, role) pairs
(OZ.Access.setStep fed with the implementation's outcomes) and the previously observed
admin / owner / role admins, and evaluates the conclusions of Props/C06 on the
implementation's observations.
-/
namespace OZ.Drv.C06
open OZ.Drv OZ.Access OZ.Host

def N : Nat := 5      -- accounts 0..N-1
def R : Nat := 5      -- roles 0..R-1 are always displayed

structure M where
  cfg : Cfg
  s : State
  /-- index of the role whose Symbol is the empty string (label `empty=<idx>`): the
  `role_admin_changed` event shows "no previous admin role" as that same Symbol, so a previous
  admin role equal to it is indistinguishable from none at the event level and printed `-` -/
  empty : Option Nat

def optNat (ws : List String) (k : String) : Option Nat := (kv? ws k).bind String.toNat?

def parseCfg (ws : List String) : Cfg := ⟨(kvNat? ws "min_temp").getD 1, (kvNat? ws "max_ttl").getD 200000⟩

def initM (label : String) : M :=
  let ws := words label
  { cfg := parseCfg ws, s := init (optNat ws "admin") (optNat ws "owner") ((kvNat? ws "start").getD 100),
    empty := optNat ws "empty" }

def flag (ws : List String) (k : String) : Bool := kv? ws k = some "1"

def parseOp (ws : List String) : Option (List Nat × Op) :=
  match ws with
  | "ac" :: kind :: rest =>
    let auth := natList ((kv? rest "auth").getD "-")
    let a := (kvNat? rest "a").getD 0
    let r := (kvNat? rest "r").getD 0
    let k := (kvNat? rest "k").getD 0
    let ar := (kvNat? rest "ar").getD 0
    let rs := natList ((kv? rest "rs").getD "-")
    let rtOffer : OZ.RoleTransfer.Op := .offer ((kvNat? rest "new").getD 0) ((kvNat? rest "lu").getD 0)
    match kind with
    | "grant" => some (auth, .grant a r k)
    | "revoke" => some (auth, .revoke a r k)
    | "renounce" => some (auth, .renounce r k)
    | "grant_na" => some (auth, .grantNoAuth a r k)
    | "revoke_na" => some (auth, .revokeNoAuth a r k)
    | "set_ra" => some (auth, .setRoleAdmin r ar)
    | "set_ra_na" => some (auth, .setRoleAdminNoAuth r ar)
    | "rm_ra_na" => some (auth, .removeRoleAdminNoAuth r)
    | "rm_cnt_na" => some (auth, .removeCountNoAuth r)
    | "adm_offer" => some (auth, .adm rtOffer)
    | "adm_accept" => some (auth, .adm .accept)
    | "adm_renounce" => some (auth, .adm .renounce)
    | "adm_guarded" => some (auth, .adm .guarded)
    | "own_offer" => some (auth, .own rtOffer)
    | "own_accept" => some (auth, .own .accept)
    | "own_renounce" => some (auth, .own .renounce)
    | "own_guarded" => some (auth, .own .guarded)
    | "only_role" => some (auth, .onlyRole k r (flag rest "body"))
    | "has_role" => some (auth, .hasRole k r (flag rest "ba") (flag rest "body"))
    | "has_any" => some (auth, .hasAnyRole k rs (flag rest "ba"))
    | "only_any" => some (auth, .onlyAnyRole k rs)
    | "ensure_aor" => some (auth, .ensureAdminOrRole r k)
    | "advance" => some ([], .advance ((kvNat? rest "n").getD 0))
    | _ => none
  | _ => none

/-- roles ≥ R named by the op line are displayed too -/
def extraRoles (ws : List String) : List Nat :=
  ((["r", "ar"].filterMap (kvNat? ws)).filter (· ≥ R)).eraseDups

def showOpt (o : Option Nat) : String := match o with | some a => toString a | none => "-"

def showRole (s : State) (r : Nat) : String :=
  let c := cnt s r
  let mem := (List.range c).map (fun i => match getRoleMember s r i with | .ok a => toString a | .error _ => "?")
  let idx := (List.range N).map (fun a => showOpt (hasRoleQ s a r))
  let oob := match getRoleMember s r c with | .ok a => s!"S{a}" | .error _ => "F"
  s!"{c}/{showList id mem}/{",".intercalate idx}/{oob}"

def showState (s : State) (xr : List Nat) : String :=
  let ra := (List.range R).map (fun r => showOpt (getRoleAdmin s r))
  let roles := (List.range R).map (showRole s)
  let x := if xr.isEmpty then "-" else ";".intercalate (xr.map (fun r => s!"{r}:{showRole s r}"))
  s!"admin={showOpt (getAdmin s)} owner={showOpt s.own.holder} now={s.adm.now} ra={",".intercalate ra} roles={";".intercalate roles} xr={x} ex={showList toString (getExistingRoles s)}"

def showEvent (empty : Option Nat) : Event → String
  | .roleGranted r a k => s!"grant:{r}:{a}:{k}"
  | .roleRevoked r a k => s!"revoke:{r}:{a}:{k}"
  | .roleAdminChanged r p n => s!"radm:{r}:{if p = empty then "-" else showOpt p}:{n}"

def showRtEvent : OZ.RoleTransfer.Event → String
  | .initiated o n lu => s!"xfer:{o}:{n}:{lu}"
  | .completed n p => s!"done:{n}:{showOpt p}"
  | .renounced o => s!"renounced:{o}"

def stepLine (m : M) (line : String) : M × String :=
  let ws := words line
  match parseOp ws with
  | none => (m, "bad-op")
  | some (auth, op) =>
    let xr := extraRoles ws
    match apply m.cfg m.s auth op with
    | .ok s' =>
      let evs := (s'.events.drop m.s.events.length).map (showEvent m.empty)
        ++ (s'.adm.events.drop m.s.adm.events.length).map showRtEvent
        ++ (s'.own.events.drop m.s.own.events.length).map showRtEvent
      ({ m with s := s' }, s!"ok {showState s' xr} ev={if evs.isEmpty then "-" else ";".intercalate evs}")
    | .error _ => (m, s!"err {showState m.s xr} ev=-")

/-! ### monitor -/

structure RoleObs where
  role : Nat
  count : Nat
  members : List (Option Nat)
  idx : List (Option Nat)       -- per account 0..N-1
  oob : String

structure Obs where
  ok : Bool
  admin : Option Nat
  owner : Option Nat
  ra : List (Option Nat)
  roles : List RoleObs
  ex : List Nat
  stateStr : String             -- the persistent part: everything but the tag, `now=`, `xr=`, `ev=`

def optList (s : String) : List (Option Nat) :=
  if s = "" ∨ s = "-" then [] else (s.splitOn ",").map String.toNat?

def parseBlock (role : Nat) (b : String) : Option RoleObs :=
  match b.splitOn "/" with
  | [c, mem, idx, oob] => do
    let c ← c.toNat?
    pure { role, count := c, members := optList mem, idx := (idx.splitOn ",").map String.toNat?, oob }
  | _ => none

def parseObs (line : String) : Option Obs :=
  match words line with
  | tag :: rest => do
    let ra := ((← kv? rest "ra").splitOn ",").map String.toNat?
    let blocks := (← kv? rest "roles").splitOn ";"
    let base ← (List.range blocks.length |>.zip blocks).mapM (fun (r, b) => parseBlock r b)
    let xrS ← kv? rest "xr"
    let extra ← if xrS = "-" then some [] else (xrS.splitOn ";").mapM (fun t =>
      match t.splitOn ":" with
      | [r, b] => do parseBlock (← r.toNat?) b
      | _ => none)
    let st := " ".intercalate (rest.filter (fun w => ¬ w.startsWith "ev=" ∧ ¬ w.startsWith "xr=" ∧ ¬ w.startsWith "now="))
    pure { ok := tag = "ok", admin := (← kv? rest "admin").toNat?, owner := (← kv? rest "owner").toNat?,
           ra, roles := base ++ extra, ex := natList ((kv? rest "ex").getD "-"), stateStr := st }
  | _ => none

structure Mon where
  g : PSet                     -- plain set of granted-not-revoked pairs (from accepted calls)
  touched : List Nat           -- roles ever named by a membership op (to check `ex` both ways)
  admin : Option Nat
  owner : Option Nat
  ra : List (Option Nat)
  stateStr : String
  first : Bool

def minit (label : String) : Mon :=
  let ws := words label
  { g := fun _ _ => false, touched := [], admin := optNat ws "admin", owner := optNat ws "owner",
    ra := List.replicate R none, stateStr := "", first := true }

def inAuth (p : Option Nat) (auth : List Nat) : Bool :=
  match p with | some a => auth.contains a | none => false

/-- may `k` grant / revoke `r` according to the previously OBSERVED admin and role admins and
the plain membership set? (roles ≥ R have no displayed role admin: only the admin counts,
unless the harness displays them — it never sets admins for such roles) -/
def mayAdminister (m : Mon) (r k : Nat) : Bool :=
  m.admin = some k ||
  (match m.ra[r]? with
   | some (some ar) => m.g k ar
   | _ => false)

def nodupB (l : List Nat) : Bool := l.eraseDups.length = l.length

/-- refinement check of one displayed role against the plain set -/
def checkRole (g : PSet) (ex : List Nat) (ro : RoleObs) : Option String :=
  let r := ro.role
  let accs := List.range N
  let mem := ro.members.filterMap id
  if mem.length ≠ ro.members.length then some s!"site=ac.enum.gap role {r}: get_role_member fails below the count"
  else if ro.members.length ≠ ro.count then some s!"site=ac.enum.count role {r}: count {ro.count} but {ro.members.length} members"
  else if ¬ nodupB mem then some s!"site=ac.enum.dup role {r}: an account is enumerated twice: {mem}"
  else if ro.oob ≠ "F" then some s!"site=ac.enum.oob role {r}: get_role_member(count) answered {ro.oob}"
  else if accs.any (fun a => ((ro.idx[a]?.getD none).isSome) != g a r) then
    some s!"site=ac.set.has_role role {r}: has_role differs from the granted-not-revoked set"
  else if mem.any (fun a => ¬ (a < N ∧ g a r)) ∨ accs.any (fun a => g a r ∧ ¬ mem.contains a) then
    some s!"site=ac.set.members role {r}: enumerated members {mem} differ from the granted-not-revoked set"
  else if accs.any (fun a => match ro.idx[a]?.getD none with | some i => mem[i]? != some a | none => false) then
    some s!"site=ac.enum.index role {r}: has_role index does not point at the account"
  else if (ex.contains r) != decide (ro.count > 0) then
    some s!"site=ac.existing role {r}: listed in existing roles = {ex.contains r} but count = {ro.count}"
  else none

def firstSome {α} (l : List α) (f : α → Option String) : Option String :=
  l.foldl (fun acc x => match acc with | some e => some e | none => f x) none

def verdict (m : Mon) (auth : List Nat) (op : Op) (o : Obs) : Option String :=
  if ¬ o.ok then
    if ¬ m.first ∧ o.stateStr ≠ m.stateStr then some "site=ac.rollback a rejected call changed the observable state"
    else match op with
      | .adm .guarded => if inAuth m.admin auth then some "site=ac.only_admin.refused the admin authorized but was refused" else none
      | .own .guarded => if inAuth m.owner auth then some "site=ac.only_owner.refused the owner authorized but was refused" else none
      | .onlyRole k r b => if m.g k r ∧ auth.contains k ∧ b then some "site=ac.only_role.refused a role holder authorized but was refused" else none
      | .hasRole k r ba b => if m.g k r ∧ (¬ ba ∨ auth.contains k) ∧ b then some "site=ac.has_role.refused a role holder was refused by a #[has_role] function" else none
      | .hasAnyRole k rs ba => if rs.any (fun r => m.g k r) ∧ (¬ ba ∨ auth.contains k) then some "site=ac.has_any_role.refused a role holder was refused by a #[has_any_role] function" else none
      | .onlyAnyRole k rs => if rs.any (fun r => m.g k r) ∧ auth.contains k then some "site=ac.only_any_role.refused a role holder authorized but was refused" else none
      | .ensureAdminOrRole r k => if mayAdminister m r k then some "site=ac.ensure_admin_or_role.refused the admin / a role-admin holder was refused" else none
      | _ => none
  else
    match op with
    | .grant a r k =>
      if ¬ auth.contains k then some s!"site=ac.grant.no-auth grant({a},{r}) accepted without the caller {k} authorizing"
      else if ¬ mayAdminister m r k then some s!"site=ac.grant.unauthorized grant({a},{r}) accepted from {k}, neither admin nor holder of the role's admin role"
      else none
    | .revoke a r k =>
      if ¬ auth.contains k then some s!"site=ac.revoke.no-auth revoke({a},{r}) accepted without the caller {k} authorizing"
      else if ¬ mayAdminister m r k then some s!"site=ac.revoke.unauthorized revoke({a},{r}) accepted from {k}, neither admin nor holder of the role's admin role"
      else if ¬ m.g a r then some "site=ac.revoke.nonmember revoke of a pair that was not granted accepted"
      else none
    | .renounce r k =>
      if ¬ auth.contains k then some s!"site=ac.renounce.no-auth renounce({r}) accepted without its holder {k} authorizing"
      else if ¬ m.g k r then some "site=ac.renounce.nonmember renounce of a role not held accepted"
      else none
    | .revokeNoAuth a r _ => if ¬ m.g a r then some "site=ac.revoke.nonmember revoke of a pair that was not granted accepted" else none
    | .setRoleAdmin _ _ => if ¬ inAuth m.admin auth then some "site=ac.set_role_admin.unauthorized set_role_admin accepted without the admin's authorization" else none
    | .adm .guarded => if ¬ inAuth m.admin auth then some "site=ac.only_admin.unauthorized an #[only_admin] function ran without the admin's authorization" else none
    | .own .guarded => if ¬ inAuth m.owner auth then some "site=ac.only_owner.unauthorized an #[only_owner] function ran without the owner's authorization" else none
    | .adm (.offer _ _) => if ¬ inAuth m.admin auth then some "site=ac.admin.offer.unauthorized admin transfer initiated without the admin's authorization" else none
    | .adm .renounce => if ¬ inAuth m.admin auth then some "site=ac.admin.renounce.unauthorized" else none
    | .own (.offer _ _) => if ¬ inAuth m.owner auth then some "site=ac.owner.offer.unauthorized ownership transfer initiated without the owner's authorization" else none
    | .own .renounce => if ¬ inAuth m.owner auth then some "site=ac.owner.renounce.unauthorized" else none
    | .onlyRole k r _ =>
      if ¬ m.g k r then some s!"site=ac.only_role.no-role an #[only_role] function ran for {k} who does not hold role {r}"
      else if ¬ auth.contains k then some "site=ac.only_role.no-auth an #[only_role] function ran without the caller authorizing" else none
    | .hasRole k r ba _ =>
      if ¬ m.g k r then some s!"site=ac.has_role.no-role a #[has_role] function ran for {k} who does not hold role {r}"
      else if ba ∧ ¬ auth.contains k then some "site=ac.has_role.body-auth the body's require_auth was passed without authorization" else none
    | .hasAnyRole k rs ba =>
      if ¬ rs.any (fun r => m.g k r) then some s!"site=ac.has_any_role.no-role a #[has_any_role] function ran for {k} who holds none of the roles"
      else if ba ∧ ¬ auth.contains k then some "site=ac.has_any_role.body-auth the body's require_auth was passed without authorization" else none
    | .onlyAnyRole k rs =>
      if ¬ rs.any (fun r => m.g k r) then some s!"site=ac.only_any_role.no-role an #[only_any_role] function ran for {k} who holds none of the roles"
      else if ¬ auth.contains k then some "site=ac.only_any_role.no-auth an #[only_any_role] function ran without the caller authorizing" else none
    | .ensureAdminOrRole r k =>
      if ¬ mayAdminister m r k then some "site=ac.ensure_admin_or_role.unauthorized ensure_if_admin_or_admin_role passed for an account that is neither" else none
    | .advance n =>
      -- nothing that must persist (membership, indices, counts, role admins, existing roles,
      -- admin, owner) may change while nobody touches the contract
      if ¬ m.first ∧ o.stateStr ≠ m.stateStr then
        some s!"site=ac.idle.lost persistent state changed by the mere passage of {n} ledgers: {m.stateStr} -> {o.stateStr}"
      else none
    | _ => none

def roleOfOp : Op → Option Nat
  | .grant _ r _ | .revoke _ r _ | .grantNoAuth _ r _ | .revokeNoAuth _ r _ | .renounce r _ => some r
  | _ => none

def isAdmHandover : Op → Bool
  | .adm .accept | .adm .renounce => true
  | _ => false
def isOwnHandover : Op → Bool
  | .own .accept | .own .renounce => true
  | _ => false

def check (m : Mon) (opl obs : String) : Mon × Option String :=
  match parseOp (words opl), parseObs obs with
  | some (auth, op), some o =>
    let g' := setStep m.g op o.ok
    let touched := match roleOfOp op with
      | some r => if m.touched.contains r then m.touched else r :: m.touched
      | none => m.touched
    let v := verdict m auth op o
    -- holders change only by their own handshake; once renounced, nobody holds again
    let v := v.orElse fun _ =>
      if o.admin ≠ m.admin ∧ ¬ (o.ok ∧ isAdmHandover op) then
        some s!"site=ac.admin.changed the admin changed {showOpt m.admin} -> {showOpt o.admin} outside accept / renounce"
      else if o.owner ≠ m.owner ∧ ¬ (o.ok ∧ isOwnHandover op) then
        some s!"site=ac.owner.changed the owner changed {showOpt m.owner} -> {showOpt o.owner} outside accept / renounce"
      else if m.admin = none ∧ o.admin ≠ none then some "site=ac.admin.resurrected an admin appeared after the admin was renounced"
      else if m.owner = none ∧ o.owner ≠ none then some "site=ac.owner.resurrected an owner appeared after ownership was renounced"
      else none
    -- the getters answer exactly as the plain set of granted-not-revoked pairs
    let v := v.orElse fun _ => firstSome o.roles (checkRole g' o.ex)
    let v := v.orElse fun _ =>
      if ¬ nodupB o.ex then some "site=ac.existing.dup a role is listed twice in existing roles"
      else if o.ex.length > 256 then some "site=ac.existing.max more than MAX_ROLES existing roles"
      else if o.ex.any (fun r => ¬ (List.range N).any (fun a => g' a r)) then some "site=ac.existing.empty a role without members is listed in existing roles"
      else if touched.any (fun r => (List.range N).any (fun a => g' a r) ∧ ¬ o.ex.contains r) then
        some "site=ac.existing.missing a role with members is missing from existing roles"
      else none
    ({ m with g := g', touched, admin := o.admin, owner := o.owner,
              ra := o.ra, stateStr := o.stateStr, first := false }, v)
  | _, _ => (m, some s!"site=ac.parse unparsable op/observation: {opl} / {obs}")

def machine : Machine where
  σ := M
  init := initM
  op := stepLine
  μ := Mon
  minit := minit
  mon := check

end OZ.Drv.C06

def main : IO Unit := OZ.Drv.run OZ.Drv.C06.machine
