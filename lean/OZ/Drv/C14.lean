import OZ.DrvUtil
import OZ.Model.Policies
/-
Driver for C14 (account policies). `op` runs the MODEL (OZ.Policies) on an op line and prints
its observation in the harness's format. `mon` is the monitor: it never calls the model; it
keeps its own ghost log of accepted spends and evaluates the property's conclusions on the
IMPLEMENTATION's observation lines:
  * simple / weighted policy accept exactly when count / weight sum reaches the threshold
    read from the implementation's previous observation;
  * no stored threshold is 0 or unreachable (simple: checked against the rule of the call;
    weighted: 1 ≤ threshold ≤ Σ weights ≤ u32::MAX in every observed state);
  * sliding window: for every accepted spend, the accepted amounts of the same (account, rule)
    since its installation with ledger in (now − period, now] sum to at most the limit in force;
  * cached total = Σ history, history sorted, ≤ 1000 entries;
  * the can_enforce answer given immediately before an enforce with the same arguments agrees
    with the outcome of that enforce (when the account authorized it);
  * every accepted state-changing call was authorized by the account itself;
  * a rejected call (and every can_enforce) leaves all getters unchanged and emits no event;
  * long idle periods (`pol idle`: ledger moved by days/months with no policy call, then every
    getter re-read) change nothing (`site=policy.idle.changed`), and the window check above keeps
    counting spends made before the gap.
-/
namespace OZ.Drv.C14
open OZ.Drv OZ.Policies OZ.Host

def NA : Nat := 2
def NR : Nat := 2
def keys : List (Nat × Nat) := (List.range NA).flatMap (fun a => (List.range NR).map (fun r => (a, r)))

structure M where
  s : Simple.State
  w : Weighted.State
  l : Spend.State

def initM (label : String) : M :=
  let st := (kvNat? (words label) "start").getD 100
  { s := Simple.init, w := Weighted.init, l := Spend.init st }

/-! ### op lines -/

structure POp where
  kind : String
  a : Nat
  r : Nat
  rs : List Nat
  thr : Nat
  w : List (Nat × Nat)
  sgn : Nat
  wt : Nat
  lim : Int
  per : Nat
  ctxS : String
  sg : List Nat
  auth : List Nat

def parsePairs (s : String) : List (Nat × Nat) :=
  if s = "" ∨ s = "-" then [] else (s.splitOn ",").filterMap (fun t =>
    match t.splitOn ":" with
    | [k, v] => do pure ((← k.toNat?), (← v.toNat?))
    | _ => none)

def parseCtx (s : String) : Option Ctx :=
  match s.splitOn ":" with
  | ["t", x] => x.toInt?.map Ctx.transfer
  | ["x", x] => x.toInt?.map Ctx.transfer
  | "m" :: _ => some .malformed
  | "o" :: _ => some .otherCall
  | "c" :: _ => some .createContract
  | _ => none

def parseOp (ws : List String) : Option POp :=
  match ws with
  | "pol" :: kind :: rest => do
    let a ← kvNat? rest "a"
    let r ← kvNat? rest "r"
    let thr ← kvNat? rest "thr"
    let sgn ← kvNat? rest "sgn"
    let wt ← kvNat? rest "wt"
    let lim ← kvInt? rest "lim"
    let per ← kvNat? rest "per"
    pure { kind, a, r, rs := natList ((kv? rest "rs").getD "-"), thr,
           w := parsePairs ((kv? rest "w").getD "-"), sgn, wt, lim, per,
           ctxS := (kv? rest "ctx").getD "", sg := natList ((kv? rest "sg").getD "-"),
           auth := natList ((kv? rest "auth").getD "-") }
  | _ => none

/-! ### printing the model state -/

def joinOr (sep : String) (l : List String) : String := if l.isEmpty then "-" else sep.intercalate l

def showS (s : Simple.State) : String :=
  joinOr ";" (keys.filterMap (fun (a, r) => (s.thr a r).map (fun t => s!"{a}:{r}:{t}")))

def showW (s : Weighted.State) : String :=
  joinOr ";" (keys.filterMap (fun (a, r) => (s.par a r).map (fun p =>
    s!"{a}:{r}:{p.threshold}:{joinOr "," (p.weights.map (fun (k, w) => s!"{k}={w}"))}")))

def showL (s : Spend.State) : String :=
  joinOr ";" (keys.filterMap (fun (a, r) => (s.store a r).map (fun d =>
    s!"{a}:{r}:{d.limit}:{d.period}:{d.cached}:{joinOr "," (d.history.map (fun e => s!"{e.amount}@{e.ledger}"))}")))

def line (m : M) (tag res ev dem : String) : String :=
  s!"{tag} r={res} S={showS m.s} W={showW m.w} L={showL m.l} now={m.l.now} ev={ev} dem={dem}"

def canLine (m : M) (r : Except Err Bool) : M × String :=
  match r with
  | .ok true => (m, line m "ok" "true" "-" "-")
  | .ok false => (m, line m "no" "false" "-" "-")
  | .error _ => (m, line m "err" "trap" "-" "-")

def showSimpleEv : Simple.Event → String
  | .enforced a r sg => s!"S:{a}:{r}:{sg.length}"
def showWeightedEv : Weighted.Event → String
  | .enforced a r sg => s!"W:{a}:{r}:{sg.length}"
def showSpendEv : Spend.Event → String
  | .enforced a r amt tot => s!"L:{a}:{r}:{amt}:{tot}"

/-- one op line through the model -/
def stepLine (m : M) (ln : String) : M × String :=
  let ws := words ln
  match ws with
  | ["pol", "idle", n] =>
    -- a long idle period is nothing but a ledger advance for the model: persistent state stays
    match kvNat? [n] "n" with
    | some k =>
      let m' := { m with l := { m.l with now := m.l.now + k } }
      (m', line m' "ok" "-" "-" "-")
    | none => (m, "bad-op")
  | ["pol", "adv", n] =>
    match kvNat? [n] "n" with
    | some k =>
      let m' := { m with l := { m.l with now := m.l.now + k } }
      (m', line m' "ok" "-" "-" "-")
    | none => (m, "bad-op")
  | _ =>
  match parseOp ws with
  | none => (m, "bad-op")
  | some o =>
    let rule : Rule := ⟨o.r, o.rs⟩
    let ctx := (parseCtx o.ctxS).getD .otherCall
    let fin {σ : Type} (r : Except Err σ) (put : σ → M) (evs : σ → String) : M × String :=
      match r with
      | .ok s' => let m' := put s'; (m', line m' "ok" "-" (evs s') (toString o.a))
      | .error _ => (m, line m "err" "-" "-" "-")
    let sEv (s' : Simple.State) := joinOr ";" ((s'.events.drop m.s.events.length).map showSimpleEv)
    let wEv (s' : Weighted.State) := joinOr ";" ((s'.events.drop m.w.events.length).map showWeightedEv)
    let lEv (s' : Spend.State) := joinOr ";" ((s'.events.drop m.l.events.length).map showSpendEv)
    match o.kind with
    | "s_install" => fin (Simple.install m.s o.auth o.thr rule o.a) (fun s' => { m with s := s' }) sEv
    | "s_set" => fin (Simple.setThreshold m.s o.auth o.thr rule o.a) (fun s' => { m with s := s' }) sEv
    | "s_uninstall" => fin (Simple.uninstall m.s o.auth rule o.a) (fun s' => { m with s := s' }) sEv
    | "s_enforce" => fin (Simple.enforce m.s o.auth ctx o.sg rule o.a) (fun s' => { m with s := s' }) sEv
    | "s_can" => canLine m (.ok (Simple.canEnforce m.s ctx o.sg rule o.a))
    | "w_install" => fin (Weighted.install m.w o.auth o.w o.thr rule o.a) (fun s' => { m with w := s' }) wEv
    | "w_set_thr" => fin (Weighted.setThreshold m.w o.auth o.thr rule o.a) (fun s' => { m with w := s' }) wEv
    | "w_set_weight" =>
      fin (Weighted.setSignerWeight m.w o.auth o.sgn o.wt rule o.a) (fun s' => { m with w := s' }) wEv
    | "w_uninstall" => fin (Weighted.uninstall m.w o.auth rule o.a) (fun s' => { m with w := s' }) wEv
    | "w_enforce" => fin (Weighted.enforce m.w o.auth ctx o.sg rule o.a) (fun s' => { m with w := s' }) wEv
    | "w_can" => canLine m (Weighted.canEnforce m.w ctx o.sg rule o.a)
    | "l_install" => fin (Spend.install m.l o.auth o.lim o.per rule o.a) (fun s' => { m with l := s' }) lEv
    | "l_set_limit" => fin (Spend.setSpendingLimit m.l o.auth o.lim rule o.a) (fun s' => { m with l := s' }) lEv
    | "l_uninstall" => fin (Spend.uninstall m.l o.auth rule o.a) (fun s' => { m with l := s' }) lEv
    | "l_enforce" => fin (Spend.enforce m.l o.auth ctx o.sg rule o.a) (fun s' => { m with l := s' }) lEv
    | "l_can" => canLine m (Spend.canEnforce m.l ctx o.sg rule o.a)
    | _ => (m, "bad-op")

/-! ### the monitor (implementation observations only) -/

structure WObs where
  a : Nat
  r : Nat
  thr : Nat
  ws : List (Nat × Nat)

structure LObs where
  a : Nat
  r : Nat
  lim : Int
  per : Nat
  cached : Int
  hist : List (Int × Nat)

structure Obs where
  tag : String
  res : String
  S : List (Nat × Nat × Nat)
  W : List WObs
  L : List LObs
  now : Nat
  ev : String
  dem : String
  stateStr : String

def sections (s : String) : List String := if s = "-" ∨ s = "" then [] else s.splitOn ";"

def parseS (s : String) : Option (List (Nat × Nat × Nat)) :=
  (sections s).mapM (fun t => match t.splitOn ":" with
    | [a, r, v] => do pure ((← a.toNat?), (← r.toNat?), (← v.toNat?))
    | _ => none)

def parseW (s : String) : Option (List WObs) :=
  (sections s).mapM (fun t => match t.splitOn ":" with
    | [a, r, v, ws] => do
      let ws' ← (if ws = "-" then some [] else (ws.splitOn ",").mapM (fun p => match p.splitOn "=" with
        | [k, w] => do pure ((← k.toNat?), (← w.toNat?))
        | _ => none))
      pure { a := (← a.toNat?), r := (← r.toNat?), thr := (← v.toNat?), ws := ws' }
    | _ => none)

def parseL (s : String) : Option (List LObs) :=
  (sections s).mapM (fun t => match t.splitOn ":" with
    | [a, r, lim, per, c, h] => do
      let h' ← (if h = "-" then some [] else (h.splitOn ",").mapM (fun p => match p.splitOn "@" with
        | [x, l] => do pure ((← x.toInt?), (← l.toNat?))
        | _ => none))
      pure { a := (← a.toNat?), r := (← r.toNat?), lim := (← lim.toInt?), per := (← per.toNat?),
             cached := (← c.toInt?), hist := h' }
    | _ => none)

def parseObs (ln : String) : Option Obs :=
  match words ln with
  | tag :: rest => do
    let sS := (kv? rest "S").getD "?"
    let sW := (kv? rest "W").getD "?"
    let sL := (kv? rest "L").getD "?"
    pure { tag, res := (kv? rest "r").getD "?", S := (← parseS sS), W := (← parseW sW), L := (← parseL sL),
           now := (← kvNat? rest "now"), ev := (kv? rest "ev").getD "?", dem := (kv? rest "dem").getD "?",
           stateStr := s!"S={sS} W={sW} L={sL}" }
  | _ => none

/-- an accepted spend as the monitor saw it: account, rule, amount, ledger, limit in force, period -/
structure Spent where
  a : Nat
  r : Nat
  amount : Int
  ledger : Nat
  limit : Int
  period : Nat

structure Mon where
  prev : Option Obs
  lastCan : Option (String × String)     -- arguments of the preceding can_enforce, its answer
  log : List Spent                       -- newest first

def isum (l : List Int) : Int := l.foldl (· + ·) 0
def nsum (l : List Nat) : Nat := l.foldl (· + ·) 0

def sortedNat : List Nat → Bool
  | a :: b :: rest => a ≤ b && sortedNat (b :: rest)
  | _ => true

def nodupNat : List Nat → Bool
  | [] => true
  | a :: rest => !rest.contains a && nodupNat rest

/-- the map denoted by install pairs (a later pair for the same signer wins) -/
def lastWins (ps : List (Nat × Nat)) : List (Nat × Nat) :=
  ps.foldl (fun m p => (m.filter (fun q => q.1 ≠ p.1)) ++ [p]) []

def firstSome (l : List (Unit → Option String)) : Option String :=
  match l with
  | [] => none
  | f :: rest => match f () with
    | some m => some m
    | none => firstSome rest

/-- invariants every observed state must satisfy -/
def stateChecks (o : Obs) : Option String :=
  firstSome [
    fun _ => if o.S.any (fun (_, _, t) => t = 0) then some "site=policy.simple.zero a stored simple threshold is 0" else none,
    fun _ => if o.W.any (fun w => w.thr = 0) then some "site=policy.weighted.zero a stored weighted threshold is 0" else none,
    fun _ => if o.W.any (fun w => nsum (w.ws.map (·.2)) > U32_MAX) then
        some "site=policy.weighted.overflow stored weights sum past u32::MAX" else none,
    fun _ => if o.W.any (fun w => w.thr > nsum (w.ws.map (·.2))) then
        some "site=policy.weighted.unreachable stored threshold exceeds the total configured weight" else none,
    fun _ => if o.L.any (fun d => d.cached ≠ isum (d.hist.map (·.1))) then
        some "site=policy.spend.cache cached_total_spent differs from the sum of the history" else none,
    fun _ => if o.L.any (fun d => !sortedNat (d.hist.map (·.2))) then some "site=policy.spend.sorted history not sorted by ledger" else none,
    fun _ => if o.L.any (fun d => d.hist.any (fun e => e.2 > o.now)) then some "site=policy.spend.future history entry from the future" else none,
    fun _ => if o.L.any (fun d => d.hist.length > 1000) then some "site=policy.spend.capacity more than 1000 history entries" else none,
    fun _ => if o.L.any (fun d => d.lim ≤ 0 ∨ d.per = 0) then some "site=policy.spend.config non-positive limit or zero period stored" else none ]

def check (m : Mon) (opl obs : String) : Mon × Option String :=
  match parseObs obs with
  | none => (m, some s!"site=policy.parse unparsable observation {obs.take 200}")
  | some o =>
    let ws := words opl
    let prev : Obs := m.prev.getD { o with S := [], W := [], L := [], stateStr := "S=- W=- L=-" }
    if ws.take 2 = ["pol", "idle"] then
      -- every getter was re-read after a long period without any policy call
      ({ m with prev := some o, lastCan := none },
        if o.stateStr ≠ prev.stateStr then
          some s!"site=policy.idle.changed a threshold, weight map or spending-limit entry changed or vanished while the policies were idle: before {prev.stateStr.take 160} after {o.stateStr.take 160}"
        else stateChecks o)
    else if ws.take 2 = ["pol", "adv"] then
      ({ m with prev := some o, lastCan := none },
        if o.stateStr ≠ prev.stateStr then some "site=policy.adv a ledger advance changed policy state" else stateChecks o)
    else
    match parseOp ws with
    | none => (m, some s!"site=policy.parse unparsable op {opl.take 200}")
    | some p =>
      let ok : Bool := o.tag == "ok"
      let resTrue : Bool := o.res == "true"
      let isCan := p.kind.endsWith "_can"
      let pol : String := (p.kind.take 1).toString
      let canKey := s!"{pol} a={p.a} r={p.r} rs={p.rs} ctx={p.ctxS} sg={p.sg}"
      let authd := p.auth.contains p.a
      let isTransfer := p.ctxS.startsWith "t:" ∨ p.ctxS.startsWith "x:"
      let amount : Int := ((p.ctxS.drop 2).toString.toInt?).getD 0
      -- previous configuration of the key, as the implementation reported it
      let sThr := (prev.S.find? (fun (a, r, _) => a = p.a ∧ r = p.r)).map (·.2.2)
      let wCfg := prev.W.find? (fun w => w.a = p.a ∧ w.r = p.r)
      let lCfg := prev.L.find? (fun d => d.a = p.a ∧ d.r = p.r)
      let wOf (k : Nat) : Nat := match wCfg with
        | some c => ((c.ws.find? (fun q => q.1 = k)).map (·.2)).getD 0
        | none => 0
      let wSum := nsum (p.sg.map wOf)
      -- ghost log update
      let entry : Option Spent :=
        if ok ∧ p.kind = "l_enforce" then
          match lCfg with
          | some d => some ⟨p.a, p.r, amount, o.now, d.lim, d.per⟩
          | none => some ⟨p.a, p.r, amount, o.now, 0, 1⟩
        else none
      let log1 := match entry with | some e => e :: m.log | none => m.log
      let log2 := if ok ∧ p.kind = "l_uninstall" then log1.filter (fun e => ¬ (e.a = p.a ∧ e.r = p.r)) else log1
      let m' : Mon := { prev := some o, lastCan := if isCan then some (canKey, o.res) else none, log := log2 }
      let expectAccept : Option Bool :=
        if pol = "s" then some (match sThr with | some t => decide (t ≤ p.sg.length) | none => false)
        else if pol = "w" then
          some (match wCfg with | some c => decide (wSum ≤ U32_MAX ∧ c.thr ≤ wSum) | none => false)
        else none
      let fail : Option String := firstSome [
        fun _ => stateChecks o,
        -- rejected calls and queries leave no trace
        fun _ => if (¬ ok ∨ isCan) ∧ o.stateStr ≠ prev.stateStr then
            some s!"site=policy.rollback a rejected call or a can_enforce query changed a getter ({p.kind})" else none,
        fun _ => if (¬ ok ∨ isCan) ∧ o.ev ≠ "-" then some "site=policy.rollback.event a rejected call emitted an event" else none,
        -- only the account itself
        fun _ => if ok ∧ ¬ isCan ∧ ¬ authd then
            some s!"site=policy.auth {p.kind} accepted without the smart account's authorization" else none,
        fun _ => if ok ∧ ¬ isCan ∧ o.dem ≠ toString p.a then
            some s!"site=policy.auth.demand {p.kind} demanded authorization of {o.dem}, expected {p.a}" else none,
        -- threshold / weight rules
        fun _ => match expectAccept with
          | some e =>
            if isCan ∧ resTrue ≠ e then
              some s!"site=policy.{pol}.can can_enforce answered {o.res}; count/weight rule says {e}"
            else if p.kind.endsWith "_enforce" ∧ authd ∧ ok ≠ e then
              some s!"site=policy.{pol}.enforce enforce accepted={ok}; count/weight rule says {e}"
            else none
          | none => none,
        fun _ => if pol = "w" ∧ isCan ∧ o.res = "trap" ∧ nodupNat p.sg then
            some "site=policy.w.trap can_enforce trapped on a duplicate-free signer list" else none,
        -- configuration validity at every change
        fun _ => if ok ∧ (p.kind = "s_install" ∨ p.kind = "s_set") ∧ (p.thr = 0 ∨ p.thr > p.rs.length) then
            some s!"site=policy.simple.config threshold {p.thr} accepted for a rule with {p.rs.length} signers" else none,
        fun _ => if ok ∧ p.kind = "s_install" ∧ sThr.isSome then some "site=policy.simple.reinstall installed twice" else none,
        fun _ => if ok ∧ p.kind = "w_install" ∧
              (p.thr = 0 ∨ p.thr > nsum ((lastWins p.w).map (·.2)) ∨ nsum ((lastWins p.w).map (·.2)) > U32_MAX) then
            some "site=policy.weighted.config install accepted a zero/unreachable threshold or overflowing weights" else none,
        fun _ => if ok ∧ p.kind = "w_install" ∧ wCfg.isSome then some "site=policy.weighted.reinstall installed twice" else none,
        fun _ => if ok ∧ p.kind = "w_set_thr" ∧ (p.thr = 0 ∨ wCfg.isNone ∨ p.thr > nsum ((wCfg.map (·.ws.map (·.2))).getD [])) then
            some "site=policy.weighted.config set_threshold accepted a zero/unreachable threshold" else none,
        fun _ => if ok ∧ (p.kind = "l_install" ∨ p.kind = "l_set_limit") ∧ p.lim ≤ 0 then
            some "site=policy.spend.config non-positive limit accepted" else none,
        fun _ => if ok ∧ p.kind = "l_install" ∧ (p.per = 0 ∨ lCfg.isSome) then
            some "site=policy.spend.config zero period or re-install accepted" else none,
        -- spending: context, signers, window
        fun _ => if ok ∧ p.kind = "l_enforce" ∧ (¬ isTransfer ∨ p.sg.isEmpty ∨ lCfg.isNone) then
            some "site=policy.spend.ctx enforce accepted a non-transfer/malformed context, no signer, or no installation" else none,
        fun _ => if isCan ∧ pol = "l" ∧ o.res = "true" ∧ (¬ isTransfer ∨ p.sg.isEmpty ∨ lCfg.isNone) then
            some "site=policy.spend.ctx can_enforce true for a non-transfer/malformed context, no signer, or no installation" else none,
        fun _ => match entry with
          | some e =>
            let win := isum ((log2.filter (fun x => x.a = e.a ∧ x.r = e.r ∧ e.ledger < x.ledger + e.period)).map (·.amount))
            if e.ledger ≥ 1 ∧ win > e.limit then
              some s!"site=policy.spend.window accepted amounts in ({e.ledger}-{e.period}, {e.ledger}] sum to {win} > limit {e.limit}"
            else none
          | none => none,
        -- can_enforce (asked immediately before, same arguments, same state) agrees with enforce
        fun _ => if p.kind.endsWith "_enforce" ∧ authd then
            match m.lastCan with
            | some (k, ans) =>
              if k = canKey ∧ (ans == "true") ≠ ok then
                some s!"site=policy.{pol}.agree can_enforce answered {ans} but enforce accepted={ok} in the same state"
              else none
            | none => none
          else none ]
      (m', fail)

def machine : Machine where
  σ := M
  init := initM
  op := stepLine
  μ := Mon
  minit := fun _ => { prev := none, lastCan := none, log := [] }
  mon := check

end OZ.Drv.C14

def main : IO Unit := OZ.Drv.run OZ.Drv.C14.machine
