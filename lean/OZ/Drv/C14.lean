import OZ.DrvUtil
import OZ.Model.PoliciesMon
/-
Driver for C14 (account policies). It only PARSES and PRINTS: `op` parses an op line, runs the
MODEL (`OZ.Policies.Mon.mstep`, i.e. OZ.Policies) and prints its observation in the harness's
format; `mon` parses the op line and the IMPLEMENTATION's observation line and calls the monitor
core `OZ.Policies.Mon.checkCore` (OZ/Model/PoliciesMon.lean), which never calls the model; it
keeps its own ghost log of accepted spends and evaluates the property's conclusions:
  * simple / weighted policy accept exactly when count / weight sum reaches the threshold
    read from the implementation's previous observation;
  * no stored threshold is 0 or unreachable (simple: checked against the rule of the call;
    weighted: 1 ≤ threshold ≤ Σ weights ≤ u32::MAX in every observed state);
  * sliding window: for every accepted spend, the accepted amounts of the same (account, rule)
    since its installation with ledger in (now − period, now] sum to at most the limit in force;
  * cached total = Σ history, history sorted, ≤ 1000 entries;
  * the can_enforce answer given immediately before an enforce with the same arguments agrees
    with the outcome of that enforce (when the account authorized it);
  * every accepted state-changing call was authorized by the account itself;
  * a rejected call (and every can_enforce) leaves all getters unchanged and emits no event;
  * long idle periods (`pol idle`: ledger moved by days/months with no policy call, then every
    getter re-read) change nothing (`site=policy.idle.changed`), and the window check above keeps
    counting spends made before the gap.
The monitor core is proved sound in OZ/Props/C14Mon.lean (`monitor_accepts_every_model_trace`).
NOT covered by that theorem (string level, trusted): `parseOp`, `parseCtx`, `parseKind`,
`parseObs` (+ `parseS/W/L`), the printing `line`, and the two `site=policy.parse` alarms below.
-/
namespace OZ.Drv.C14
open OZ.Drv OZ.Policies OZ.Policies.Mon OZ.Host

def initM (label : String) : M := M.init ((kvNat? (words label) "start").getD 100)

/-! ### op lines -/

def parsePairs (s : String) : List (Nat × Nat) :=
  if s = "" ∨ s = "-" then [] else (s.splitOn ",").filterMap (fun t =>
    match t.splitOn ":" with
    | [k, v] => do pure ((← k.toNat?), (← v.toNat?))
    | _ => none)

def parseCtx (s : String) : Option Ctx :=
  match s.splitOn ":" with
  | ["t", x] => x.toInt?.map Ctx.transfer
  | ["x", x] => x.toInt?.map Ctx.transfer
  | ["s", x] => x.toInt?.map Ctx.transfer       -- transfer(from, from, amt): the amount counts like any other
  | "m" :: _ => some .malformed
  | "o" :: _ => some .otherCall
  | "c" :: _ => some .createContract
  | _ => none

def parseKind (s : String) : Option Kind :=
  match s with
  | "s_install" => some .sInstall
  | "s_set" => some .sSet
  | "s_uninstall" => some .sUninstall
  | "s_enforce" => some .sEnforce
  | "s_can" => some .sCan
  | "w_install" => some .wInstall
  | "w_set_thr" => some .wSetThr
  | "w_set_weight" => some .wSetWeight
  | "w_uninstall" => some .wUninstall
  | "w_enforce" => some .wEnforce
  | "w_can" => some .wCan
  | "l_install" => some .lInstall
  | "l_set_limit" => some .lSetLimit
  | "l_uninstall" => some .lUninstall
  | "l_enforce" => some .lEnforce
  | "l_can" => some .lCan
  | _ => none

/-- a call line. (A `pol <kind> …` line whose kind is none of the sixteen entry points is no op
line: the model answers `bad-op`, the monitor `site=policy.parse`.) -/
def parseOp (ws : List String) : Option POp :=
  match ws with
  | "pol" :: kind :: rest => do
    let kind ← parseKind kind
    let a ← kvNat? rest "a"
    let r ← kvNat? rest "r"
    let thr ← kvNat? rest "thr"
    let sgn ← kvNat? rest "sgn"
    let wt ← kvNat? rest "wt"
    let lim ← kvInt? rest "lim"
    let per ← kvNat? rest "per"
    let ctxS := (kv? rest "ctx").getD ""
    pure { kind, a, r, rs := natList ((kv? rest "rs").getD "-"), thr,
           w := parsePairs ((kv? rest "w").getD "-"), sgn, wt, lim, per,
           ctxS, ctx := (parseCtx ctxS).getD .otherCall,
           isTransfer := ctxS.startsWith "t:" ∨ ctxS.startsWith "x:" ∨ ctxS.startsWith "s:",
           amount := ((ctxS.drop 2).toString.toInt?).getD 0,
           sg := natList ((kv? rest "sg").getD "-"),
           auth := natList ((kv? rest "auth").getD "-") }
  | _ => none

/-- a `>` line for the model -/
def parseLine (ws : List String) : Option Line :=
  match ws with
  | ["pol", "idle", n] => (kvNat? [n] "n").map Line.idle
  | ["pol", "adv", n] => (kvNat? [n] "n").map Line.adv
  | _ => (parseOp ws).map Line.call

/-! ### printing the model's observation -/

def line (m : M) (tag res ev dem : String) : String :=
  s!"{tag} r={res} S={showS m.s} W={showW m.w} L={showL m.l} now={m.l.now} ev={ev} dem={dem}"

/-- one op line through the model -/
def stepLine (m : M) (ln : String) : M × String :=
  match parseLine (words ln) with
  | none => (m, "bad-op")
  | some l =>
    let (m', out) := mstep m l
    (m', line m' out.tag out.res out.ev out.dem)

/-! ### the monitor (implementation observations only) -/

def sections (s : String) : List String := if s = "-" ∨ s = "" then [] else s.splitOn ";"

def parseS (s : String) : Option (List (Nat × Nat × Nat)) :=
  (sections s).mapM (fun t => match t.splitOn ":" with
    | [a, r, v] => do pure ((← a.toNat?), (← r.toNat?), (← v.toNat?))
    | _ => none)

def parseW (s : String) : Option (List WObs) :=
  (sections s).mapM (fun t => match t.splitOn ":" with
    | [a, r, v, ws] => do
      let ws' ← (if ws = "-" then some [] else (ws.splitOn ",").mapM (fun p => match p.splitOn "=" with
        | [k, w] => do pure ((← k.toNat?), (← w.toNat?))
        | _ => none))
      pure { a := (← a.toNat?), r := (← r.toNat?), thr := (← v.toNat?), ws := ws' }
    | _ => none)

def parseL (s : String) : Option (List LObs) :=
  (sections s).mapM (fun t => match t.splitOn ":" with
    | [a, r, lim, per, c, h] => do
      let h' ← (if h = "-" then some [] else (h.splitOn ",").mapM (fun p => match p.splitOn "@" with
        | [x, l] => do pure ((← x.toInt?), (← l.toNat?))
        | _ => none))
      pure { a := (← a.toNat?), r := (← r.toNat?), lim := (← lim.toInt?), per := (← per.toNat?),
             cached := (← c.toInt?), hist := h' }
    | _ => none)

def parseObs (ln : String) : Option Obs :=
  match words ln with
  | tag :: rest => do
    let sS := (kv? rest "S").getD "?"
    let sW := (kv? rest "W").getD "?"
    let sL := (kv? rest "L").getD "?"
    pure { ok := tag == "ok", res := (kv? rest "r").getD "?", S := (← parseS sS), W := (← parseW sW), L := (← parseL sL),
           now := (← kvNat? rest "now"), ev := (kv? rest "ev").getD "?", dem := (kv? rest "dem").getD "?",
           stateStr := stateFmt sS sW sL }
  | _ => none

def check (m : Mon) (opl obs : String) : Mon × Option String :=
  match parseObs obs with
  | none => (m, some s!"site=policy.parse unparsable observation {obs.take 200}")
  | some o =>
    let ws := words opl
    if ws.take 2 = ["pol", "idle"] then checkCore m .idle o
    else if ws.take 2 = ["pol", "adv"] then checkCore m .adv o
    else
    match parseOp ws with
    | none => (m, some s!"site=policy.parse unparsable op {opl.take 200}")
    | some p => checkCore m (.call p) o

def machine : Machine where
  σ := M
  init := initM
  op := stepLine
  μ := Mon
  minit := fun _ => monInit
  mon := check

end OZ.Drv.C14

def main : IO Unit := OZ.Drv.run OZ.Drv.C14.machine
