import OZ.DrvUtil
import OZ.Model.MerkleMon
/-
Driver for C17. Node values are 32-byte strings in lower-case hex; `proof` is a comma
separated list ("-" = empty).
  hash alg=<sha|kec> parts=<hex,hex,..|none> want=<hex>       the library's Hasher (new/update*/finalize)
  pair alg=.. mode=<plain|sorted> a=.. b=.. want=..            hash_pair / commutative_hash_pair
  verify alg=.. root=.. leaf=.. proof=.. exp=<tag>             Verifier::verify
  verifyidx alg=.. root=.. leaf=.. index=<n> proof=.. exp=..   Verifier::verify_with_index
  # dist alg=.. w=<window>                                     a MerkleDistributor history:
  setroot root=..
  advance d=<ledgers> look=<0|1>        the ledger moves on and nobody touches the contract; look=1:
                                        root and flags are observed afterwards, look=0: `ok now=<n>`
  claim mode=<sorted|indexed> index=<n> leaf=<H(leaf xdr)> proof=.. exp=..
  # airdrop alg=sha w=.. root=.. pool=<funding> nrcv=<k>       the fungible-merkle-airdrop example:
  aclaim index=.. rcv=<i> amount=.. leaf=.. proof=.. exp=..
`want` = the harness' own sha2 / sha3 result. `exp` = what the harness did to an honest
(leaf, proof): honest | c:<what was corrupted> | exchange | repeat | sweep | free | noroot.

Observations: `ok <hex>` | `ok true` | `ok false` | `err`;
  `ok|err root=<hex|none> claimed=<indices>`; `ok|err claimed=.. pool=.. bal=..`.

The model side uses OZ.Merkle with SHA-256 / Keccak-256 implemented in Lean
(OZ/Model/Sha256.lean, Keccak.lean; every `hash` / `pair` op validates them against the
host's and against the harness' sha2 / sha3). The monitor does not call the model's verifier
or distributor: it re-folds with its own code (big-endian number comparison for the sorted
pair, bit tests for the positional form) and keeps its own ghost {root, claimed, far claims,
balances}. The monitor's checks are in OZ/Model/MerkleMon.lean (proved sound on every model trace in
OZ/Props/C17Mon.lean); this file only parses the lines for it.
-/
namespace OZ.Drv.C17
open OZ.Drv OZ.B64 OZ.Merkle OZ.Merkle.Mon

/- `Node`, `hashOf`, `claimedList` live in OZ/Model/MerkleMon.lean (moved there unchanged so that the
soundness theorems can speak about them) -/

def opsOf (alg : String) : Ops Node := bytesOps (hashOf alg)

def hexArg (ws : List String) (k : String) : Option Node := (kv? ws k).bind ofHex

def hexList (s : String) : Option (List Node) :=
  if s = "-" ∨ s = "" then some [] else (s.splitOn ",").mapM ofHex

def proofArg (ws : List String) : Option (List Node) := (kv? ws "proof").bind hexList

def showBoolRes {ε} : Except ε Bool → String
  | .ok true => "ok true"
  | .ok false => "ok false"
  | .error _ => "err"

/-! ### model state -/

structure St where
  kind : String := ""          -- "dist" | "airdrop" | ""
  alg : String := "sha"
  w : Nat := 0
  dist : Dist Node := Dist.empty
  pool : Int := 0
  bal : List Int := []
  now : Nat := 0

def showDist (ok : Bool) (d : Dist Node) (w : Nat) : String :=
  let r := match d.root with | some r => toHex r | none => "none"
  s!"{if ok then "ok" else "err"} root={r} claimed={showList toString (claimedList d w)}"

def showAir (ok : Bool) (s : St) : String :=
  s!"{if ok then "ok" else "err"} claimed={showList toString (claimedList s.dist s.w)} pool={s.pool} bal={showList toString s.bal}"

def initSt (label : String) : St :=
  let ws := words label
  match ws with
  | "dist" :: rest => { kind := "dist", alg := (kv? rest "alg").getD "sha", w := (kvNat? rest "w").getD 0,
                        now := (kvNat? rest "start").getD 0 }
  | "airdrop" :: rest =>
    { kind := "airdrop", alg := (kv? rest "alg").getD "sha", w := (kvNat? rest "w").getD 0,
      now := (kvNat? rest "start").getD 0,
      dist := { root := hexArg rest "root", claimed := fun _ => false },
      pool := (kvInt? rest "pool").getD 0, bal := List.replicate ((kvNat? rest "nrcv").getD 0) 0 }
  | _ => {}

def stepOp (s : St) (line : String) : St × String :=
  let ws := words line
  match ws with
  | "hash" :: rest =>
    let alg := (kv? rest "alg").getD "sha"
    match kv? rest "parts" with
    | some "none" => (s, "err")          -- finalize without update: HasherEmptyState
    | some p =>
      match hexList p with
      | some parts => (s, "ok " ++ toHex (hashOf alg parts.flatten))
      | none => (s, "bad-op")
    | none => (s, "bad-op")
  | "pair" :: rest =>
    let alg := (kv? rest "alg").getD "sha"
    match hexArg rest "a", hexArg rest "b" with
    | some a, some b =>
      let o := opsOf alg
      (s, "ok " ++ toHex (if kv? rest "mode" = some "sorted" then chp o a b else o.hp a b))
    | _, _ => (s, "bad-op")
  | "verifyj" :: _ => (s, "err")        -- an element of the proof vector is not a BytesN<32>: the read fails
  | "verify" :: rest =>
    let alg := (kv? rest "alg").getD "sha"
    match hexArg rest "root", hexArg rest "leaf", proofArg rest with
    | some root, some leaf, some proof =>
      (s, if verify (opsOf alg) proof root leaf then "ok true" else "ok false")
    | _, _, _ => (s, "bad-op")
  | "verifyidx" :: rest =>
    let alg := (kv? rest "alg").getD "sha"
    match hexArg rest "root", hexArg rest "leaf", proofArg rest, kvNat? rest "index" with
    | some root, some leaf, some proof, some index =>
      (s, showBoolRes (verifyWithIndex (opsOf alg) proof root leaf index))
    | _, _, _, _ => (s, "bad-op")
  | "advance" :: rest =>
    -- persistent / instance entries do not expire in the model: time changes nothing
    let s' := { s with now := s.now + (kvNat? rest "d").getD 0 }
    if kv? rest "look" = some "1" then (s', showDist true s'.dist s'.w) else (s', s!"ok now={s'.now}")
  | "setroot" :: rest =>
    match hexArg rest "root" with
    | some r =>
      let d := s.dist.apply (opsOf s.alg) (.setRoot r)
      ({ s with dist := d }, showDist true d s.w)
    | none => (s, "bad-op")
  | "claim" :: rest =>
    match hexArg rest "leaf", proofArg rest, kvNat? rest "index" with
    | some leaf, some proof, some index =>
      let op : DOp Node := if kv? rest "mode" = some "indexed" then .claimIndexed leaf index proof else .claim leaf index proof
      match s.dist.step (opsOf s.alg) op with
      | .ok d => ({ s with dist := d }, showDist true d s.w)
      | .error _ => (s, showDist false s.dist s.w)
    | _, _, _ => (s, "bad-op")
  | "aclaim" :: rest =>
    match hexArg rest "leaf", proofArg rest, kvNat? rest "index", kvNat? rest "rcv", kvInt? rest "amount" with
    | some leaf, some proof, some index, some rcv, some amount =>
      let a : Airdrop Node := { dist := s.dist, pool := s.pool, bal := fun j => s.bal.getD j 0 }
      match a.claim (opsOf s.alg) leaf index rcv amount proof with
      | .ok a' =>
        let s' := { s with dist := a'.dist, pool := a'.pool, bal := (List.range s.bal.length).map a'.bal }
        (s', showAir true s')
      | .error _ => (s, showAir false s)
    | _, _, _, _, _ => (s, "bad-op")
  | _ => (s, "bad-op")

/-! ### monitor: parsing only; the checks are in OZ/Model/MerkleMon.lean (own fold, own ghost state)

Proved sound in OZ/Props/C17Mon.lean (`verifier_monitor_accepts_every_model_answer`,
`dist_monitor_accepts_every_model_trace`, `airdrop_monitor_accepts_every_model_trace`).
NOT covered by those theorems (string level, below):
  * `hash` / `pair` lines: the library's answer must be the `want` the harness computed with the
    sha2 / sha3 crates (no model conclusion involved);
  * lines that do not parse, and lines of a `dist` / `airdrop` sequence that are none of
    advance / setroot / claim resp. advance look=0 / aclaim (the harness writes none). -/

def parseTag (s : String) : Tag :=
  if s = "honest" then .honest else if s.startsWith "c:" then .corrupt (s.drop 2).toString else .other

def expTag (ws : List String) : Tag := parseTag ((kv? ws "exp").getD "")

def parseAns (s : String) : Option Ans :=
  if s = "ok true" then some .accept else if s = "ok false" then some .reject
  else if s = "err" then some .fail else none

def parseVOp (ws : List String) : Option VOp :=
  match ws with
  | "verify" :: rest => do
    let root ← hexArg rest "root"
    let leaf ← hexArg rest "leaf"
    let proof ← proofArg rest
    pure { indexed := false, root, leaf, index := 0, proof, tag := expTag rest }
  | "verifyidx" :: rest => do
    let root ← hexArg rest "root"
    let leaf ← hexArg rest "leaf"
    let proof ← proofArg rest
    let index ← kvNat? rest "index"
    pure { indexed := true, root, leaf, index, proof, tag := expTag rest }
  | _ => none

def initMon (label : String) : Mon :=
  let ws := words label
  match ws with
  | "dist" :: rest => { kind := "dist", alg := (kv? rest "alg").getD "sha", w := (kvNat? rest "w").getD 0 }
  | "airdrop" :: rest =>
    { kind := "airdrop", alg := (kv? rest "alg").getD "sha", w := (kvNat? rest "w").getD 0,
      root := hexArg rest "root",
      pool := (kvInt? rest "pool").getD 0, bal := List.replicate ((kvNat? rest "nrcv").getD 0) 0 }
  | _ => {}

def monStateless (opl obs : String) : Option String :=
  let ws := words opl
  match ws with
  | "hash" :: rest =>
    match kv? rest "parts", kv? rest "want" with
    | some "none", _ => if obs = "err" then none else some "site=hasher.empty finalize without update did not fail"
    | some _, some want =>
      if obs = "ok " ++ want then none else some s!"site=hasher.digest library hasher {obs} but sha2/sha3 crate says {want}"
    | _, _ => some s!"site=c17.parse {opl}"
  | "pair" :: rest =>
    match kv? rest "want" with
    | some want => if obs = "ok " ++ want then none else some s!"site=hashable.pair library pair hash {obs} but independent computation says {want}"
    | none => some s!"site=c17.parse {opl}"
  | "verifyj" :: rest => verdictJunk (kv? rest "index" ≠ some "-") { ans := parseAns obs, raw := obs }
  | "verify" :: rest | "verifyidx" :: rest =>
    match parseVOp ws with
    | some op => verdictVerify (hashOf ((kv? rest "alg").getD "sha")) op { ans := parseAns obs, raw := obs }
    | none => some s!"site=c17.parse {opl}"
  | _ => none

def parseClaimed (ws : List String) : List Nat := natList ((kv? ws "claimed").getD "-")

def isBlindAdvance (ws : List String) : Bool := ws.head? = some "advance" ∧ kv? ws "look" ≠ some "1"

def parseDLine (ws : List String) : Option DLine :=
  if isBlindAdvance ws then some .blind else
  match ws with
  | "advance" :: _ => some .look
  | "setroot" :: rest => (hexArg rest "root").map DLine.setRoot
  | "claim" :: rest => do
    let leaf ← hexArg rest "leaf"
    let proof ← proofArg rest
    let index ← kvNat? rest "index"
    pure (.claim (kv? rest "mode" = some "indexed") leaf index proof (expTag rest))
  | _ => none

def parseDObs (ows : List String) : DObs :=
  { ok := ows.head? = some "ok",
    root := match kv? ows "root" with | some "none" => none | some h => ofHex h | none => none,
    claimed := parseClaimed ows }

def monDist (m : Mon) (opl obs : String) : Mon × Option String :=
  let ws := words opl
  let o := parseDObs (words obs)
  match parseDLine ws with
  | some op => distCore (hashOf m.alg) m op o
  | none =>
    let m' : Mon := { m with root := o.root, claimed := o.claimed }
    if unmarked m.claimed o.claimed then (m', some unmarkedMsg)
    else if ws.head? = some "claim" ∨ ws.head? = some "setroot" then (m', some s!"site=c17.parse {opl}")
    else (m', none)

def parseALine (ws : List String) : Option ALine :=
  if isBlindAdvance ws then some .blind else
  match ws with
  | "aclaim" :: rest => do
    let leaf ← hexArg rest "leaf"
    let proof ← proofArg rest
    let index ← kvNat? rest "index"
    let rcv ← kvNat? rest "rcv"
    let amount ← kvInt? rest "amount"
    pure (.claim leaf index rcv amount proof (expTag rest))
  | _ => none

def parseAObs (ows : List String) : AObs :=
  { ok := ows.head? = some "ok", claimed := parseClaimed ows,
    pool := (kvInt? ows "pool").getD 0, bal := intList ((kv? ows "bal").getD "-") }

def monAir (m : Mon) (opl obs : String) : Mon × Option String :=
  let ws := words opl
  let o := parseAObs (words obs)
  match parseALine ws with
  | some op => airCore (hashOf m.alg) m op o
  | none =>
    let m' : Mon := { m with claimed := o.claimed, pool := o.pool, bal := o.bal }
    if unmarked m.claimed o.claimed then (m', some unmarkedMsg)
    else if ws.head? = some "aclaim" then (m', some s!"site=c17.parse {opl}")
    else (m', none)

def machine : Machine where
  σ := St
  init := initSt
  op := stepOp
  μ := Mon
  minit := initMon
  mon := fun m opl obs =>
    if m.kind = "dist" then monDist m opl obs
    else if m.kind = "airdrop" then monAir m opl obs
    else (m, monStateless opl obs)

end OZ.Drv.C17

def main : IO Unit := OZ.Drv.run OZ.Drv.C17.machine
