import OZ.DrvUtil
import OZ.Model.Merkle
import OZ.Model.Sha256
import OZ.Model.Keccak
/-
Driver for C17. Node values are 32-byte strings in lower-case hex; `proof` is a comma
separated list ("-" = empty).
  hash alg=<sha|kec> parts=<hex,hex,..|none> want=<hex>       the library's Hasher (new/update*/finalize)
  pair alg=.. mode=<plain|sorted> a=.. b=.. want=..            hash_pair / commutative_hash_pair
  verify alg=.. root=.. leaf=.. proof=.. exp=<tag>             Verifier::verify
  verifyidx alg=.. root=.. leaf=.. index=<n> proof=.. exp=..   Verifier::verify_with_index
  # dist alg=.. w=<window>                                     a MerkleDistributor history:
  setroot root=..
  advance d=<ledgers> look=<0|1>        the ledger moves on and nobody touches the contract; look=1:
                                        root and flags are observed afterwards, look=0: `ok now=<n>`
  claim mode=<sorted|indexed> index=<n> leaf=<H(leaf xdr)> proof=.. exp=..
  # airdrop alg=sha w=.. root=.. pool=<funding> nrcv=<k>       the fungible-merkle-airdrop example:
  aclaim index=.. rcv=<i> amount=.. leaf=.. proof=.. exp=..
`want` = the harness' own sha2 / sha3 result. `exp` = what the harness did to an honest
(leaf, proof): honest | c:<what was corrupted> | exchange | repeat | sweep | free | noroot.

Observations: `ok <hex>` | `ok true` | `ok false` | `err`;
  `ok|err root=<hex|none> claimed=<indices>`; `ok|err claimed=.. pool=.. bal=..`.

The model side uses OZ.Merkle with SHA-256 / Keccak-256 implemented in Lean
(OZ/Model/Sha256.lean, Keccak.lean; every `hash` / `pair` op validates them against the
host's and against the harness' sha2 / sha3). The monitor does not call the model's verifier
or distributor: it re-folds with its own code (big-endian number comparison for the sorted
pair, bit tests for the positional form) and keeps its own ghost {root, claimed, balances}.
-/
namespace OZ.Drv.C17
open OZ.Drv OZ.B64 OZ.Merkle

abbrev Node := List UInt8

def hashOf (alg : String) : Node → Node :=
  if alg = "kec" then OZ.Keccak.keccak256 else OZ.Sha256.sha256

def opsOf (alg : String) : Ops Node := bytesOps (hashOf alg)

def hexArg (ws : List String) (k : String) : Option Node := (kv? ws k).bind ofHex

def hexList (s : String) : Option (List Node) :=
  if s = "-" ∨ s = "" then some [] else (s.splitOn ",").mapM ofHex

def proofArg (ws : List String) : Option (List Node) := (kv? ws "proof").bind hexList

def showBoolRes {ε} : Except ε Bool → String
  | .ok true => "ok true"
  | .ok false => "ok false"
  | .error _ => "err"

/-! ### model state -/

structure St where
  kind : String := ""          -- "dist" | "airdrop" | ""
  alg : String := "sha"
  w : Nat := 0
  dist : Dist Node := Dist.empty
  pool : Int := 0
  bal : List Int := []
  now : Nat := 0

def claimedList (d : Dist Node) (w : Nat) : List Nat :=
  ((List.range w) ++ [4294967294, 4294967295]).filter (fun i => d.claimed i)

def showDist (ok : Bool) (d : Dist Node) (w : Nat) : String :=
  let r := match d.root with | some r => toHex r | none => "none"
  s!"{if ok then "ok" else "err"} root={r} claimed={showList toString (claimedList d w)}"

def showAir (ok : Bool) (s : St) : String :=
  s!"{if ok then "ok" else "err"} claimed={showList toString (claimedList s.dist s.w)} pool={s.pool} bal={showList toString s.bal}"

def initSt (label : String) : St :=
  let ws := words label
  match ws with
  | "dist" :: rest => { kind := "dist", alg := (kv? rest "alg").getD "sha", w := (kvNat? rest "w").getD 0,
                        now := (kvNat? rest "start").getD 0 }
  | "airdrop" :: rest =>
    { kind := "airdrop", alg := (kv? rest "alg").getD "sha", w := (kvNat? rest "w").getD 0,
      now := (kvNat? rest "start").getD 0,
      dist := { root := hexArg rest "root", claimed := fun _ => false },
      pool := (kvInt? rest "pool").getD 0, bal := List.replicate ((kvNat? rest "nrcv").getD 0) 0 }
  | _ => {}

def stepOp (s : St) (line : String) : St × String :=
  let ws := words line
  match ws with
  | "hash" :: rest =>
    let alg := (kv? rest "alg").getD "sha"
    match kv? rest "parts" with
    | some "none" => (s, "err")          -- finalize without update: HasherEmptyState
    | some p =>
      match hexList p with
      | some parts => (s, "ok " ++ toHex (hashOf alg parts.flatten))
      | none => (s, "bad-op")
    | none => (s, "bad-op")
  | "pair" :: rest =>
    let alg := (kv? rest "alg").getD "sha"
    match hexArg rest "a", hexArg rest "b" with
    | some a, some b =>
      let o := opsOf alg
      (s, "ok " ++ toHex (if kv? rest "mode" = some "sorted" then chp o a b else o.hp a b))
    | _, _ => (s, "bad-op")
  | "verify" :: rest =>
    let alg := (kv? rest "alg").getD "sha"
    match hexArg rest "root", hexArg rest "leaf", proofArg rest with
    | some root, some leaf, some proof =>
      (s, if verify (opsOf alg) proof root leaf then "ok true" else "ok false")
    | _, _, _ => (s, "bad-op")
  | "verifyidx" :: rest =>
    let alg := (kv? rest "alg").getD "sha"
    match hexArg rest "root", hexArg rest "leaf", proofArg rest, kvNat? rest "index" with
    | some root, some leaf, some proof, some index =>
      (s, showBoolRes (verifyWithIndex (opsOf alg) proof root leaf index))
    | _, _, _, _ => (s, "bad-op")
  | "advance" :: rest =>
    -- persistent / instance entries do not expire in the model: time changes nothing
    let s' := { s with now := s.now + (kvNat? rest "d").getD 0 }
    if kv? rest "look" = some "1" then (s', showDist true s'.dist s'.w) else (s', s!"ok now={s'.now}")
  | "setroot" :: rest =>
    match hexArg rest "root" with
    | some r =>
      let d := s.dist.apply (opsOf s.alg) (.setRoot r)
      ({ s with dist := d }, showDist true d s.w)
    | none => (s, "bad-op")
  | "claim" :: rest =>
    match hexArg rest "leaf", proofArg rest, kvNat? rest "index" with
    | some leaf, some proof, some index =>
      let op : DOp Node := if kv? rest "mode" = some "indexed" then .claimIndexed leaf index proof else .claim leaf index proof
      match s.dist.step (opsOf s.alg) op with
      | .ok d => ({ s with dist := d }, showDist true d s.w)
      | .error _ => (s, showDist false s.dist s.w)
    | _, _, _ => (s, "bad-op")
  | "aclaim" :: rest =>
    match hexArg rest "leaf", proofArg rest, kvNat? rest "index", kvNat? rest "rcv", kvInt? rest "amount" with
    | some leaf, some proof, some index, some rcv, some amount =>
      let a : Airdrop Node := { dist := s.dist, pool := s.pool, bal := fun j => s.bal.getD j 0 }
      match a.claim (opsOf s.alg) leaf index rcv amount proof with
      | .ok a' =>
        let s' := { s with dist := a'.dist, pool := a'.pool, bal := (List.range s.bal.length).map a'.bal }
        (s', showAir true s')
      | .error _ => (s, showAir false s)
    | _, _, _, _, _ => (s, "bad-op")
  | _ => (s, "bad-op")

/-! ### monitor: own fold, own ghost state -/

/-- a 32-byte string as a big-endian number -/
def beNat (b : Node) : Nat := b.foldl (fun acc x => acc * 256 + x.toNat) 0

def monPairSorted (H : Node → Node) (a b : Node) : Node :=
  if beNat a ≤ beNat b then H (a ++ b) else H (b ++ a)

def monFoldSorted (H : Node → Node) (leaf : Node) (proof : List Node) : Node :=
  proof.foldl (monPairSorted H) leaf

/-- positional: at level k the node is a right child iff bit k of the index is set -/
def monFoldIndexed (H : Node → Node) (leaf : Node) (index : Nat) (proof : List Node) : Node :=
  ((List.range proof.length).zip proof).foldl
    (fun acc (k, sib) => if index.testBit k then H (sib ++ acc) else H (acc ++ sib)) leaf

/-- `some true` / `some false`: the verifier must answer so; `none`: it must fail -/
def monVerify (H : Node → Node) (indexed : Bool) (root leaf : Node) (index : Nat) (proof : List Node) : Option Bool :=
  if indexed then
    if proof.length ≥ 32 ∨ index ≥ 2 ^ proof.length then none
    else some (monFoldIndexed H leaf index proof == root)
  else some (monFoldSorted H leaf proof == root)

structure Mon where
  kind : String := ""
  alg : String := "sha"
  root : Option Node := none
  claimed : List Nat := []
  pool : Int := 0
  bal : List Int := []

def initMon (label : String) : Mon :=
  let ws := words label
  match ws with
  | "dist" :: rest => { kind := "dist", alg := (kv? rest "alg").getD "sha" }
  | "airdrop" :: rest =>
    { kind := "airdrop", alg := (kv? rest "alg").getD "sha", root := hexArg rest "root",
      pool := (kvInt? rest "pool").getD 0, bal := List.replicate ((kvNat? rest "nrcv").getD 0) 0 }
  | _ => {}

def expTag (ws : List String) : String := (kv? ws "exp").getD ""

/-- the semantic expectation attached to an op by the harness: an honest (leaf, proof) must be
accepted; a corrupted one must be rejected (false or failure) -/
def tagCheck (what : String) (tag : String) (accepted : Bool) : Option String :=
  if tag = "honest" ∧ ¬ accepted then some s!"site={what}.reject.honest an honest (leaf, proof) was rejected"
  else if tag.startsWith "c:" ∧ accepted then
    some s!"site={what}.accept.{(tag.drop 2).toString} a corrupted (leaf, proof, index, root) was accepted"
  else none

def monStateless (opl obs : String) : Option String :=
  let ws := words opl
  match ws with
  | "hash" :: rest =>
    match kv? rest "parts", kv? rest "want" with
    | some "none", _ => if obs = "err" then none else some "site=hasher.empty finalize without update did not fail"
    | some _, some want =>
      if obs = "ok " ++ want then none else some s!"site=hasher.digest library hasher {obs} but sha2/sha3 crate says {want}"
    | _, _ => some s!"site=c17.parse {opl}"
  | "pair" :: rest =>
    match kv? rest "want" with
    | some want => if obs = "ok " ++ want then none else some s!"site=hashable.pair library pair hash {obs} but independent computation says {want}"
    | none => some s!"site=c17.parse {opl}"
  | "verify" :: rest =>
    let alg := (kv? rest "alg").getD "sha"
    match hexArg rest "root", hexArg rest "leaf", proofArg rest with
    | some root, some leaf, some proof =>
      let want := monVerify (hashOf alg) false root leaf 0 proof
      let wantS := match want with | some true => "ok true" | some false => "ok false" | none => "err"
      if obs ≠ wantS then some s!"site=merkle.verify.fold verifier says {obs} but the independent fold says {wantS}"
      else tagCheck "merkle.verify" (expTag rest) (obs = "ok true")
    | _, _, _ => some s!"site=c17.parse {opl}"
  | "verifyidx" :: rest =>
    let alg := (kv? rest "alg").getD "sha"
    match hexArg rest "root", hexArg rest "leaf", proofArg rest, kvNat? rest "index" with
    | some root, some leaf, some proof, some index =>
      let want := monVerify (hashOf alg) true root leaf index proof
      let wantS := match want with | some true => "ok true" | some false => "ok false" | none => "err"
      if obs ≠ wantS then some s!"site=merkle.verify_with_index.fold verifier says {obs} but the independent fold says {wantS}"
      else tagCheck "merkle.verify_with_index" (expTag rest) (obs = "ok true")
    | _, _, _, _ => some s!"site=c17.parse {opl}"
  | _ => none

def parseClaimed (ws : List String) : List Nat := natList ((kv? ws "claimed").getD "-")

/-- flags that are newly set although no accepted claim for exactly that index produced them -/
def spurious (old new : List Nat) (accepted : Option Nat) : List Nat :=
  new.filter (fun j => ¬ old.contains j ∧ accepted ≠ some j)

def isBlindAdvance (ws : List String) : Bool := ws.head? = some "advance" ∧ kv? ws "look" ≠ some "1"

def monDist (m : Mon) (opl obs : String) : Mon × Option String :=
  let ws := words opl
  let ows := words obs
  let ok := ows.head? = some "ok"
  if isBlindAdvance ws then (m, if ok then none else some "site=c17.advance advancing the ledger failed") else
  let oroot : Option Node := match kv? ows "root" with | some "none" => none | some h => ofHex h | none => none
  let oclaimed := parseClaimed ows
  let m' : Mon := { m with root := oroot, claimed := oclaimed }
  -- claimed forever: nothing ever disappears
  if m.claimed.any (fun i => ¬ oclaimed.contains i) then
    (m', some "site=distributor.unmarked an index that was claimed is not claimed any more")
  else
  match ws with
  | "advance" :: _ =>
    if oclaimed ≠ m.claimed then
      (m', some s!"site=distributor.spurious_claimed flags {spurious m.claimed oclaimed none} appeared while time passed")
    else if oroot ≠ m.root then (m', some "site=distributor.root_lost the root changed while time passed")
    else (m', none)
  | "setroot" :: rest =>
    let r := hexArg rest "root"
    if ¬ ok then (m', some "site=distributor.set_root set_root failed")
    else if oroot ≠ r then (m', some "site=distributor.set_root root not stored")
    else if oclaimed ≠ m.claimed then (m', some "site=distributor.root_change_lost_claims a root change altered the claimed set")
    else (m', none)
  | "claim" :: rest =>
    match hexArg rest "leaf", proofArg rest, kvNat? rest "index" with
    | some leaf, some proof, some index =>
      let indexed := kv? rest "mode" = some "indexed"
      let valid : Bool := match m.root with
        | none => false
        | some root => monVerify (hashOf m.alg) indexed root leaf index proof == some true
      let was := m.claimed.contains index
      let new := oclaimed.filter (fun i => ¬ m.claimed.contains i)
      let sp := spurious m.claimed oclaimed (if ok then some index else none)
      let f : Option String :=
        if sp ≠ [] then some s!"site=distributor.spurious_claimed flags {sp} are set although no claim for them was accepted (op: claim index {index}, {if ok then "accepted" else "refused"})"
        else if ok ∧ was then some s!"site=distributor.double_claim index {index} was claimed again"
        else if ok ∧ (expTag rest).startsWith "c:" then some s!"site=distributor.accept.{((expTag rest).drop 2).toString} a corrupted claim was accepted"
        else if ok ∧ ¬ valid then some s!"site=distributor.claimed_without_valid_proof claim for index {index} accepted although the proof does not verify against the current root"
        else if ok ∧ new ≠ [index] then some s!"site=distributor.marks accepted claim for {index} marked {new}"
        else if ok ∧ oroot ≠ m.root then some "site=distributor.claim_changed_root"
        else if ¬ ok ∧ (new ≠ [] ∨ oroot ≠ m.root) then some s!"site=distributor.failed_claim_marked a failed claim changed the state (newly claimed {new})"
        else if ¬ ok ∧ valid ∧ ¬ was then some s!"site=distributor.reject.honest a valid claim for the unclaimed index {index} was refused"
        else none
      (m', f)
    | _, _, _ => (m', some s!"site=c17.parse {opl}")
  | _ => (m', none)

def monAir (m : Mon) (opl obs : String) : Mon × Option String :=
  let ws := words opl
  let ows := words obs
  let ok := ows.head? = some "ok"
  if isBlindAdvance ws then (m, if ok then none else some "site=c17.advance advancing the ledger failed") else
  let oclaimed := parseClaimed ows
  let opool := (kvInt? ows "pool").getD 0
  let obal := intList ((kv? ows "bal").getD "-")
  let m' : Mon := { m with claimed := oclaimed, pool := opool, bal := obal }
  if m.claimed.any (fun i => ¬ oclaimed.contains i) then
    (m', some "site=distributor.unmarked an index that was claimed is not claimed any more")
  else
  match ws with
  | "aclaim" :: rest =>
    match hexArg rest "leaf", proofArg rest, kvNat? rest "index", kvNat? rest "rcv", kvInt? rest "amount" with
    | some leaf, some proof, some index, some rcv, some amount =>
      let valid : Bool := match m.root with
        | none => false
        | some root => monVerify (hashOf m.alg) false root leaf index proof == some true
      let was := m.claimed.contains index
      let new := oclaimed.filter (fun i => ¬ m.claimed.contains i)
      let paid : List Int := (List.range m.bal.length).map (fun j => m.bal.getD j 0 + (if j = rcv then amount else 0))
      let sp := spurious m.claimed oclaimed (if ok then some index else none)
      let f : Option String :=
        if sp ≠ [] then some s!"site=distributor.spurious_claimed flags {sp} are set although no claim for them was accepted (airdrop claim index {index})"
        else if ok ∧ was then some s!"site=airdrop.double_claim index {index} was paid again"
        else if ok ∧ (expTag rest).startsWith "c:" then some s!"site=airdrop.accept.{((expTag rest).drop 2).toString} a corrupted claim was paid"
        else if ok ∧ ¬ valid then some s!"site=airdrop.claimed_without_valid_proof claim for index {index} paid although the proof does not verify"
        else if ok ∧ new ≠ [index] then some s!"site=airdrop.marks accepted claim for {index} marked {new}"
        else if ok ∧ (opool ≠ m.pool - amount ∨ obal ≠ paid) then some s!"site=airdrop.payment accepted claim did not move exactly {amount} to receiver {rcv}"
        else if ¬ ok ∧ (new ≠ [] ∨ opool ≠ m.pool ∨ obal ≠ m.bal) then some "site=airdrop.failed_claim_changed_state a failed claim changed flags or balances"
        else if ¬ ok ∧ valid ∧ ¬ was ∧ 0 ≤ amount ∧ amount ≤ m.pool then some s!"site=airdrop.reject.honest a valid, funded claim for the unclaimed index {index} was refused"
        else none
      (m', f)
    | _, _, _, _, _ => (m', some s!"site=c17.parse {opl}")
  | _ => (m', none)

def machine : Machine where
  σ := St
  init := initSt
  op := stepOp
  μ := Mon
  minit := initMon
  mon := fun m opl obs =>
    if m.kind = "dist" then monDist m opl obs
    else if m.kind = "airdrop" then monAir m opl obs
    else (m, monStateless opl obs)

end OZ.Drv.C17

def main : IO Unit := OZ.Drv.run OZ.Drv.C17.machine
