import OZ.Drv.NftIO
/-
Driver for C10 (every NFT has exactly one owner; enumerations mirror ownership).
Models: OZ.Nft (sequential + explicit ids), OZ.NftEnum, OZ.NftCons at the bit level.

`op` runs the model (`NftIO.stepLine` = print ∘ `NftMon.stepObs`). `mon` never does: it parses the
op line and the IMPLEMENTATION's observation line and calls the monitor core
`OZ.NftMon.Own.checkCore` (OZ/Model/NftMon.lean), which recomputes a PLAIN ownership map from the
accepted operations alone and checks the property's conclusion on every observation:
  * every reported `owner_of` (windows and direct calls) equals the plain map, for every id;
  * an accepted transfer / burn names the token's current owner as `from`;
  * sequential / batch ids are never reused (each issue lies above everything issued before)
    and a batch of n issues exactly n consecutive ids;
  * balance(a) = number of tokens the plain map gives to a; token_uri exists iff owned;
  * enumerable: total_supply = number of existing tokens, the global list and each owner's
    list contain exactly those tokens once, and one index past the end fails;
  * a rejected call changes nothing;
  * idle time changes nothing (`nft.idle.changed`: after ledger gaps of 1, 31 and 100 days without any
    call every owner, balance, enumeration is still what the plain map says) and ids issued after a
    gap are still above every id issued before (`nft.idle.id_reused`).
Mints are judged under the fresh-id hypothesis of the property: when a mint hits an id that
currently has an owner the monitor stops judging that sequence.

The core is proved sound in OZ/Props/C10Mon.lean (`monitor_accepts_every_model_trace`: silent on
every trace of the three models). NOT covered by that theorem, string level only: the alarm
`site=nft.parse` below (an op / observation line that does not parse) and the parsers themselves.
-/
namespace OZ.Drv.C10
open OZ.Drv OZ.Drv.NftIO OZ.NftMon OZ.NftMon.Own

def check (m : Mon) (opl obs : String) : Mon × Option String :=
  match parseObs obs, parseLine opl with
  | some o, some l => checkCore m l o
  | _, _ => (m, some s!"site=nft.parse unparsable line {obs}")

def machine : Machine where
  σ := M
  init := initM
  op := stepLine
  μ := Mon
  minit := fun label => Own.init (labelFlavour label)
  mon := check

end OZ.Drv.C10

def main : IO Unit := OZ.Drv.run OZ.Drv.C10.machine
