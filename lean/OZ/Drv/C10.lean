import OZ.Drv.NftIO
/-
Driver for C10 (every NFT has exactly one owner; enumerations mirror ownership).
Models: OZ.Nft (sequential + explicit ids), OZ.NftEnum, OZ.NftCons at the bit level.

The monitor does not run the model. It recomputes a PLAIN ownership map from the accepted
operations alone (mint ↦ the returned / named id gets the recipient, batch ↦ the interval,
transfer ↦ the named id moves, burn ↦ the named id disappears) and checks the property's
conclusion on every observation of the implementation:
  * every reported `owner_of` (windows and direct calls) equals the plain map, for every id;
  * an accepted transfer / burn names the token's current owner as `from`;
  * sequential / batch ids are never reused (each issue lies above everything issued before)
    and a batch of n issues exactly n consecutive ids;
  * balance(a) = number of tokens the plain map gives to a; token_uri exists iff owned;
  * enumerable: total_supply = number of existing tokens, the global list and each owner's
    list contain exactly those tokens once, and one index past the end fails;
  * a rejected call changes nothing;
  * idle time changes nothing (`nft.idle.changed`: after ledger gaps of 1, 31 and 100 days without any
    call every owner, balance, enumeration is still what the plain map says) and ids issued after a
    gap are still above every id issued before (`nft.idle.id_reused`).
Explicit-id mints are judged under the fresh-id hypothesis of the property: when a mint hits
an id that currently has an owner the monitor stops judging that sequence.
-/
namespace OZ.Drv.C10
open OZ.Drv OZ.Drv.NftIO

structure Mon where
  flavour : String
  batches : List (Nat × Nat × Nat)       -- first, last, owner
  over : List (Nat × Option Nat)         -- point overrides, most recent first
  next : Nat                             -- every id issued by a counter so far is < next
  bal : List Nat
  live : Nat                             -- number of existing tokens
  disabled : Bool
  gap : Bool                             -- an idle gap of at least a day has passed
  prev : Option Obs

def ghostOwner (m : Mon) (id : Nat) : Option Nat :=
  match m.over.find? (fun p => p.1 = id) with
  | some (_, o) => o
  | none =>
    match m.batches.find? (fun (f, l, _) => f ≤ id ∧ id ≤ l) with
    | some (_, _, o) => some o
    | none => none

def setOwner (m : Mon) (id : Nat) (o : Option Nat) : Mon :=
  { m with over := (id, o) :: m.over.filter (fun p => p.1 ≠ id) }

def addBal (l : List Nat) (i : Nat) (d : Int) : List Nat :=
  l.mapIdx (fun j x => if j = i then (Int.ofNat x + d).toNat else x)

def nodup (l : List Nat) : Bool :=
  match l with
  | [] => true
  | x :: xs => !xs.contains x && nodup xs

/-- first id of a run / direct query whose reported owner differs from the plain map -/
def firstBadRun (m : Mon) (runs : List (Nat × Nat × Option Nat)) : Option String :=
  runs.findSome? (fun (lo, hi, o) =>
    ((List.range (hi + 1 - lo)).find? (fun k => ghostOwner m (lo + k) != o)).map (fun k =>
      s!"site=nft.owner_of id={lo + k} reported={showOpt o} plain-map={showOpt (ghostOwner m (lo + k))}"))

def checkList (what : String) (entries : List (Option Nat)) (count : Nat) (probe : Bool)
    (okTok : Nat → Bool) : Option String :=
  let body := entries.take count
  let toks := body.filterMap id
  if body.length ≠ count ∨ toks.length ≠ count then
    some s!"site=nft.enum.{what} the list has fewer than {count} readable entries"
  else if !nodup toks then some s!"site=nft.enum.{what} a token occurs twice: {toks}"
  else if !toks.all okTok then some s!"site=nft.enum.{what} lists a token that does not belong there: {toks}"
  else if probe ∧ entries.drop count ≠ [none] then
    some s!"site=nft.enum.{what} index {count} (one past the end) is readable"
  else none

def check (m : Mon) (opl obs : String) : Mon × Option String :=
  match parseObs obs, parseOpLine opl with
  | some o, some ol =>
    if m.disabled then ({ m with prev := some o }, none) else
    let a := fun (i : Nat) => ol.a.getD i 0
    -- 1. the plain map follows the accepted operation
    let (m1, fail1) : Mon × Option String :=
      if ¬ o.ok then (m, none) else
      match ol.kind with
      | "mint" =>
        match o.ret with
        | none => (m, some "site=nft.mint.ret a sequential mint returned no id")
        | some id =>
          if id < m.next then (m, some s!"site={if m.gap then "nft.idle.id_reused" else "nft.mint.reused"} sequential mint issued {id}, already issued before (counter was {m.next})")
          else if (ghostOwner m id).isSome then
            if m.flavour = "exp" then ({ m with disabled := true }, none)   -- collides with an explicit id: hypothesis
            else (m, some s!"site=nft.mint.reused sequential mint issued the owned id {id}")
          else ({ setOwner m id (some (a 0)) with next := id + 1, bal := addBal m.bal (a 0) 1, live := m.live + 1 }, none)
      | "mint_id" =>
        if (ghostOwner m ol.id).isSome then ({ m with disabled := true }, none)
        else ({ setOwner m ol.id (some (a 0)) with bal := addBal m.bal (a 0) 1, live := m.live + 1 }, none)
      | "batch_mint" =>
        match o.ret with
        | none => (m, some "site=nft.batch.ret a batch mint returned no id")
        | some last =>
          if last + 1 < ol.n ∨ ol.n = 0 then (m, some s!"site=nft.batch.range batch of {ol.n} ends at {last}")
          else
            let first := last + 1 - ol.n
            if first < m.next then (m, some s!"site={if m.gap then "nft.idle.id_reused" else "nft.batch.reused"} batch [{first},{last}] overlaps ids issued before (counter was {m.next})")
            else ({ m with batches := (first, last, a 0) :: m.batches, next := last + 1,
                           bal := addBal m.bal (a 0) ol.n, live := m.live + ol.n }, none)
      | "transfer" | "transfer_from" =>
        let (f, t) := if ol.kind = "transfer" then (a 0, a 1) else (a 1, a 2)
        if ghostOwner m ol.id ≠ some f then
          (m, some s!"site=nft.transfer.not-owner token {ol.id} moved from {f} but its owner is {showOpt (ghostOwner m ol.id)}")
        else ({ setOwner m ol.id (some t) with bal := addBal (addBal m.bal f (-1)) t 1 }, none)
      | "burn" | "burn_from" =>
        let f := if ol.kind = "burn" then a 0 else a 1
        if ghostOwner m ol.id ≠ some f then
          (m, some s!"site=nft.burn.not-owner token {ol.id} burned from {f} but its owner is {showOpt (ghostOwner m ol.id)}")
        else ({ setOwner m ol.id none with bal := addBal m.bal f (-1), live := m.live - 1 }, none)
      | "advance" => ({ m with gap := m.gap || decide (ol.n ≥ 17280) }, none)
      | _ => (m, none)
    let m2 := { m1 with prev := some o }
    if m1.disabled then (m2, none) else
    match fail1 with
    | some f => (m2, some f)
    | none =>
      -- 2. the implementation's answers against the plain map
      let fail : Option String :=
        match firstBadRun m1 o.own with
        | some f => some f
        | none =>
        match firstBadRun m1 (o.oq.map (fun (id, ow) => (id, id, ow))) with
        | some f => some f
        | none =>
        if o.bal ≠ m1.bal then some s!"site=nft.balance reported {o.bal} but the plain map counts {m1.bal}"
        else if ol.qa.any (fun id => o.uri.contains id != (ghostOwner m1 id).isSome) then
          some s!"site=nft.token_uri existence differs from ownership on {ol.qa}: {o.uri}"
        else if m1.flavour = "enum" then
          if o.ts ≠ some m1.live then some s!"site=nft.enum.total_supply reported {o.ts} but {m1.live} tokens exist"
          else
            match checkList "global" o.gl m1.live true (fun t => (ghostOwner m1 t).isSome) with
            | some f => some f
            | none =>
              (List.range N).findSome? (fun acc =>
                checkList s!"owner{acc}" (o.ol.getD acc []) (m1.bal.getD acc 0)
                  (ol.kind ≠ "advance" ∧ ol.a.contains acc) (fun t => ghostOwner m1 t = some acc))
        else none
      -- an idle gap (no call at all) must leave every answer as the plain map has it
      let fail := if ol.kind = "advance" then
          fail.map (fun f => s!"site=nft.idle.changed after {ol.n} idle ledgers the contract answers differently: {f.replace "site=" "was-site="}")
        else fail
      (m2, fail)
  | _, _ => (m, some s!"site=nft.parse unparsable line {obs}")

def machine : Machine where
  σ := M
  init := initM
  op := stepLine
  μ := Mon
  minit := fun label =>
    { flavour := (kv? (words label) "flavour").getD "seq", batches := [], over := [], next := 0,
      bal := List.replicate N 0, live := 0, disabled := false, gap := false, prev := none }
  mon := check

end OZ.Drv.C10

def main : IO Unit := OZ.Drv.run OZ.Drv.C10.machine
