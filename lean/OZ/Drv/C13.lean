import OZ.DrvUtil
import OZ.Model.VotesMon
/-
Driver for C13 (voting power = delegated balances, now and at every past ledger).

Model side: the three contracts of harness/src/bin/c13.rs — examples/fungible-votes
(`kind=ex`, owner-gated mint, no burn), the harness `FungibleVotes` contract (`kind=fvb`) and
the harness `NonFungibleVotes` contract (`kind=nft`) — through OZ.FungibleVotes /
OZ.NonFungibleVotes / OZ.Votes.

Monitor side: an independent ghost that never calls the model: units per account = the
observed token balances, the current delegate of every account from the accepted `delegate`
operations, and a table "ledger ↦ votes of every account and total supply at the end of
that ledger" filled in whenever the ledger moves. On every implementation observation:
  get_votes(a) = Σ balances of the accounts whose ghost delegate is a; total = Σ balances;
  units = balance (when exposed); get_delegate = ghost delegate (also for accounts whose units
  dropped to zero and were funded again); moving the ledger — by one step or by 100 days
  without any access to the contract — changes no current value and makes no getter fail
  (`votes.idle.changed`: an entry that must persist has vanished); every past query equals the
  ghost table (hence never changes later; 0 before the start); the current / future ledgers
  are refused; a failed call changes nothing; at most one new checkpoint per account and
  ledger (when the counter is exposed).

The monitor itself (`checkCore`) and the model step on parsed values (`mstep`) live in
OZ/Model/VotesMon.lean; this file only parses (`parse`, `parseObs`, `initM`, `minitM`) and prints
(`showState`). OZ/Props/C13Mon.lean proves that `checkCore` never reports anything on the
observations of the model (`monitor_accepts_every_model_trace`). Not covered by that theorem
(string level, trusted): `parse` / `parseObs` / `showState` (print-then-parse round trip of an
observation line), the `site=votes.parse` alarms below, and `parseObs` returning `none` for an
observation whose `bal` / `votes` / `del` lists do not have N entries.
-/
namespace OZ.Drv.C13
open OZ.Drv OZ.Host OZ.Votes.Mon

def IDS : Nat := 8
def MAX_TTL : Nat := 200000

def initM (label : String) : M :=
  let ws := words label
  let mt := (kvNat? ws "min_temp").getD 1
  let st := (kvNat? ws "start").getD 100
  let kind := match kv? ws "kind" with
    | some "fvb" => Kind.fvb
    | some "nft" => Kind.nft
    | _ => Kind.ex
  let mx := (kvNat? ws "max_ttl").getD MAX_TTL
  M.init kind ⟨mt, mx⟩ st

def parse (ws : List String) : Option Parsed :=
  match ws with
  | "votes" :: op :: rest =>
    some { op, a := natList ((kv? rest "a").getD "-"), amt := (kvInt? rest "amt").getD 0,
           id := (kvNat? rest "id").getD 0, lu := (kvNat? rest "lu").getD 0,
           n := (kvNat? rest "n").getD 0, auth := natList ((kv? rest "auth").getD "-"),
           q := natList ((kv? rest "q").getD "-") }
  | _ => none

def commas (l : List String) : String := if l.isEmpty then "-" else ",".intercalate l

/-- the observation line (same format as `Sim::state` in c13.rs) -/
def showState (m : M) (q : List Nat) : String :=
  let v : OZ.Votes.State := vOf m
  let acc := List.range N
  let bal := acc.map (fun i => if m.kind = .nft then toString (m.nf.nft.bal i) else toString (m.fv.tok.bal i))
  let units := if m.kind = .ex then "-" else commas (acc.map (fun i => toString (OZ.Votes.getVotingUnits v i)))
  let del := acc.map (fun i => showOpt (OZ.Votes.getDelegate v i))
  let votes := acc.map (fun i => showRes (OZ.Votes.getVotes v i))
  let ncp := if m.kind = .ex then "-" else commas (acc.map (fun i => toString (OZ.Votes.numCheckpoints v i)))
  let ts := showRes (OZ.Votes.getTotalSupply v)
  let tsup := if m.kind = .nft then "-" else toString m.fv.tok.supply
  let own := if m.kind = .nft then commas ((List.range IDS).map (fun id => showOpt (m.nf.nft.owner id))) else "-"
  let fut := if futOk v then "acc" else "rej"
  let hist := q.map (fun l => s!"{l}:{"/".intercalate (histRow v l)}")
  s!"now={v.now} bal={commas bal} units={units} del={commas del} votes={commas votes} ncp={ncp} ts={ts} tsup={tsup} own={own} fut={fut} hist={if hist.isEmpty then "-" else ";".intercalate hist}"

def stepLine (m : M) (line : String) : M × String :=
  match parse (words line) with
  | none => (m, "bad-op")
  | some p =>
    match mstep m p with
    | none => (m, "bad-op")
    | some (m', ok) => (m', (if ok then "ok " else "err ") ++ showState m' p.q)

/-! ### the monitor: parsing only, the checks are `OZ.Votes.Mon.checkCore` -/

def optList (s : String) : Option (List Nat) := if s = "-" then none else some (natList s)

def parseObs (line : String) : Option Obs :=
  match words line with
  | tag :: rest => do
    let now ← kvNat? rest "now"
    let bal := intList ((kv? rest "bal").getD "-")
    let units := optList ((kv? rest "units").getD "-")
    let del := ((kv? rest "del").getD "").splitOn "," |>.map String.toNat?
    let votes := intList ((kv? rest "votes").getD "-")
    let ncp := optList ((kv? rest "ncp").getD "-")
    let ts := (kvInt? rest "ts").getD 0
    let fut := (kv? rest "fut").getD "?"
    let hS := (kv? rest "hist").getD "-"
    let hist := if hS = "-" then [] else (hS.splitOn ";").filterMap (fun t =>
      match t.splitOn ":" with
      | [l, row] => do pure ((← l.toNat?), row.splitOn "/")
      | _ => none)
    let failed := ["bal", "units", "del", "votes", "ncp", "ts", "tsup"].any (fun k =>
      (((kv? rest k).getD "").splitOn ",").contains "E")
    if ¬ failed ∧ (bal.length ≠ N ∨ votes.length ≠ N ∨ del.length ≠ N) then none
    else pure { ok := tag = "ok", now, bal, units, del, votes, ncp, ts, fut, hist, failed }
  | _ => none

def minitM (label : String) : Mon := monInit ((kvNat? (words label) "start").getD 100)

def check (m : Mon) (opl obs : String) : Mon × Option String :=
  match parseObs obs, parse (words opl) with
  | none, _ => (m, some s!"site=votes.parse unparsable observation {obs}")
  | _, none => (m, some s!"site=votes.parse unparsable op {opl}")
  | some o, some p => checkCore m p o obs

def machine : Machine where
  σ := M
  init := initM
  op := stepLine
  μ := Mon
  minit := minitM
  mon := check

end OZ.Drv.C13

def main : IO Unit := OZ.Drv.run OZ.Drv.C13.machine
