import OZ.DrvUtil
import OZ.Model.Votes
/-
Driver for C13 (voting power = delegated balances, now and at every past ledger).

Model side: the three contracts of harness/src/bin/c13.rs — examples/fungible-votes
(`kind=ex`, owner-gated mint, no burn), the harness `FungibleVotes` contract (`kind=fvb`) and
the harness `NonFungibleVotes` contract (`kind=nft`) — through OZ.FungibleVotes /
OZ.NonFungibleVotes / OZ.Votes.

Monitor side: an independent ghost that never calls the model: units per account = the
observed token balances, the current delegate of every account from the accepted `delegate`
operations, and a table "ledger ↦ votes of every account and total supply at the end of
that ledger" filled in whenever the ledger moves. On every implementation observation:
  get_votes(a) = Σ balances of the accounts whose ghost delegate is a; total = Σ balances;
  units = balance (when exposed); get_delegate = ghost delegate (also for accounts whose units
  dropped to zero and were funded again); moving the ledger — by one step or by 100 days
  without any access to the contract — changes no current value and makes no getter fail
  (`votes.idle.changed`: an entry that must persist has vanished); every past query equals the
  ghost table (hence never changes later; 0 before the start); the current / future ledgers
  are refused; a failed call changes nothing; at most one new checkpoint per account and
  ledger (when the counter is exposed).
-/
namespace OZ.Drv.C13
open OZ.Drv OZ.Host

def N : Nat := 5
def OWNER : Nat := 5
def IDS : Nat := 8
def MAX_TTL : Nat := 200000

inductive Kind where
  | ex | fvb | nft
  deriving DecidableEq

structure M where
  kind : Kind
  cfg : Cfg
  fv : OZ.FungibleVotes.State
  nf : OZ.NonFungibleVotes.State

def initM (label : String) : M :=
  let ws := words label
  let mt := (kvNat? ws "min_temp").getD 1
  let st := (kvNat? ws "start").getD 100
  let kind := match kv? ws "kind" with
    | some "fvb" => Kind.fvb
    | some "nft" => Kind.nft
    | _ => Kind.ex
  let mx := (kvNat? ws "max_ttl").getD MAX_TTL
  { kind, cfg := ⟨mt, mx⟩, fv := OZ.FungibleVotes.init st, nf := OZ.NonFungibleVotes.init st }

structure Parsed where
  op : String
  a : List Nat
  amt : Int
  id : Nat
  lu : Nat
  n : Nat
  auth : List Nat
  q : List Nat

def parse (ws : List String) : Option Parsed :=
  match ws with
  | "votes" :: op :: rest =>
    some { op, a := natList ((kv? rest "a").getD "-"), amt := (kvInt? rest "amt").getD 0,
           id := (kvNat? rest "id").getD 0, lu := (kvNat? rest "lu").getD 0,
           n := (kvNat? rest "n").getD 0, auth := natList ((kv? rest "auth").getD "-"),
           q := natList ((kv? rest "q").getD "-") }
  | _ => none

def fvOp (p : Parsed) : Option OZ.FungibleVotes.Op :=
  match p.op, p.a with
  | "mint", [t] => some (.mint t p.amt)
  | "transfer", [f, t] => some (.transfer f t p.amt)
  | "transfer_from", [sp, f, t] => some (.transferFrom sp f t p.amt)
  | "approve", [o, sp] => some (.approve o sp p.amt p.lu)
  | "burn", [f] => some (.burn f p.amt)
  | "burn_from", [sp, f] => some (.burnFrom sp f p.amt)
  | "delegate", [a, d] => some (.delegate a d)
  | "advance", _ => some (.advance p.n)
  | _, _ => none

def nftOp (p : Parsed) : Option OZ.NonFungibleVotes.Op :=
  match p.op, p.a with
  | "mint", [t] => some (.mint t p.id)
  | "seq_mint", [t] => some (.sequentialMint t)
  | "transfer", [f, t] => some (.transfer f t p.id)
  | "transfer_from", [sp, f, t] => some (.transferFrom sp f t p.id)
  | "burn", [f] => some (.burn f p.id)
  | "burn_from", [sp, f] => some (.burnFrom sp f p.id)
  | "approve", [a, b] => some (.approve a b p.id p.lu)
  | "approve_all", [o, x] => some (.approveForAll o x p.lu)
  | "delegate", [a, d] => some (.delegate a d)
  | "advance", _ => some (.advance p.n)
  | _, _ => none

def showRes (x : Except OZ.Votes.Err Nat) : String :=
  match x with
  | .ok v => toString v
  | .error _ => "E"

def showOpt (x : Option Nat) : String :=
  match x with
  | some v => toString v
  | none => "x"

def commas (l : List String) : String := if l.isEmpty then "-" else ",".intercalate l

/-- the observation line (same format as `Sim::state` in c13.rs) -/
def showState (m : M) (q : List Nat) : String :=
  let v : OZ.Votes.State := if m.kind = .nft then m.nf.v else m.fv.v
  let acc := List.range N
  let bal := acc.map (fun i => if m.kind = .nft then toString (m.nf.nft.bal i) else toString (m.fv.tok.bal i))
  let units := if m.kind = .ex then "-" else commas (acc.map (fun i => toString (OZ.Votes.getVotingUnits v i)))
  let del := acc.map (fun i => showOpt (OZ.Votes.getDelegate v i))
  let votes := acc.map (fun i => showRes (OZ.Votes.getVotes v i))
  let ncp := if m.kind = .ex then "-" else commas (acc.map (fun i => toString (OZ.Votes.numCheckpoints v i)))
  let ts := showRes (OZ.Votes.getTotalSupply v)
  let tsup := if m.kind = .nft then "-" else toString m.fv.tok.supply
  let own := if m.kind = .nft then commas ((List.range IDS).map (fun id => showOpt (m.nf.nft.owner id))) else "-"
  let futOk := [v.now, v.now + 1, U32_MAX].zipIdx.any (fun (l, k) =>
    let a := (v.now + k) % N
    (match OZ.Votes.getVotesAtCheckpoint v a l with | .ok _ => true | .error _ => false) ||
    (match OZ.Votes.getTotalSupplyAtCheckpoint v l with | .ok _ => true | .error _ => false))
  let fut := if futOk then "acc" else "rej"
  let hist := q.map (fun l =>
    let row := acc.map (fun i => showRes (OZ.Votes.getVotesAtCheckpoint v i l)) ++
      [showRes (OZ.Votes.getTotalSupplyAtCheckpoint v l)]
    s!"{l}:{"/".intercalate row}")
  s!"now={v.now} bal={commas bal} units={units} del={commas del} votes={commas votes} ncp={ncp} ts={ts} tsup={tsup} own={own} fut={fut} hist={if hist.isEmpty then "-" else ";".intercalate hist}"

def stepLine (m : M) (line : String) : M × String :=
  match parse (words line) with
  | none => (m, "bad-op")
  | some p =>
    match m.kind with
    | .nft =>
      match nftOp p with
      | none => (m, "bad-op")
      | some op =>
        match OZ.NonFungibleVotes.apply m.cfg m.nf p.auth op with
        | .ok s' => let m' := { m with nf := s' }; (m', "ok " ++ showState m' p.q)
        | .error _ => (m, "err " ++ showState m p.q)
    | k =>
      match fvOp p with
      | none => (m, "bad-op")
      | some op =>
        let r := if k = .ex then OZ.FungibleVotes.exampleApply m.cfg OWNER m.fv p.auth op
                 else OZ.FungibleVotes.apply m.cfg m.fv p.auth op
        match r with
        | .ok s' => let m' := { m with fv := s' }; (m', "ok " ++ showState m' p.q)
        | .error _ => (m, "err " ++ showState m p.q)

/-! ### the monitor -/

structure Obs where
  ok : Bool
  now : Nat
  bal : List Int
  units : Option (List Nat)
  del : List (Option Nat)
  votes : List Int
  ncp : Option (List Nat)
  ts : Int
  fut : String
  hist : List (Nat × List String)
  failed : Bool          -- some current getter failed (printed `E` by the harness)

def optList (s : String) : Option (List Nat) := if s = "-" then none else some (natList s)

def parseObs (line : String) : Option Obs :=
  match words line with
  | tag :: rest => do
    let now ← kvNat? rest "now"
    let bal := intList ((kv? rest "bal").getD "-")
    let units := optList ((kv? rest "units").getD "-")
    let del := ((kv? rest "del").getD "").splitOn "," |>.map String.toNat?
    let votes := intList ((kv? rest "votes").getD "-")
    let ncp := optList ((kv? rest "ncp").getD "-")
    let ts := (kvInt? rest "ts").getD 0
    let fut := (kv? rest "fut").getD "?"
    let hS := (kv? rest "hist").getD "-"
    let hist := if hS = "-" then [] else (hS.splitOn ";").filterMap (fun t =>
      match t.splitOn ":" with
      | [l, row] => do pure ((← l.toNat?), row.splitOn "/")
      | _ => none)
    let failed := ["bal", "units", "del", "votes", "ncp", "ts", "tsup"].any (fun k =>
      (((kv? rest k).getD "").splitOn ",").contains "E")
    if ¬ failed ∧ (bal.length ≠ N ∨ votes.length ≠ N ∨ del.length ≠ N) then none
    else pure { ok := tag = "ok", now, bal, units, del, votes, ncp, ts, fut, hist, failed }
  | _ => none

structure Mon where
  start : Nat
  prev : Obs
  del : List (Option Nat)                 -- ghost: delegate per account
  table : List (Nat × Nat × List String)  -- ghost: ledgers lo ≤ l < hi ended with this row
  lastCp : List (Option Nat)              -- ledger at which the counter of an account last grew

def zeroObs (start : Nat) : Obs :=
  { ok := true, now := start, bal := List.replicate N 0, units := none, del := List.replicate N none,
    votes := List.replicate N 0, ncp := none, ts := 0, fut := "rej", hist := [], failed := false }

def minitM (label : String) : Mon :=
  let st := (kvNat? (words label) "start").getD 100
  { start := st, prev := zeroObs st, del := List.replicate N none, table := [],
    lastCp := List.replicate N none }

def rowOf (o : Obs) : List String := o.votes.map toString ++ [toString o.ts]

/-- ghost value of a past ledger: zeros before the start, else the recorded row -/
def expected (m : Mon) (table : List (Nat × Nat × List String)) (q : Nat) : Option (List String) :=
  if q < m.start then some (List.replicate (N + 1) "0")
  else (table.find? (fun (lo, hi, _) => lo ≤ q ∧ q < hi)).map (fun (_, _, r) => r)

/-- Σ of the balances of the accounts whose (ghost) delegate is `a` -/
def delegatedSum (del : List (Option Nat)) (bal : List Int) (a : Nat) : Int :=
  ((del.zip bal).filterMap (fun (d, b) => if d = some a then some b else none)).sum

def check (m : Mon) (opl obs : String) : Mon × Option String :=
  match parseObs obs, parse (words opl) with
  | none, _ => (m, some s!"site=votes.parse unparsable observation {obs}")
  | _, none => (m, some s!"site=votes.parse unparsable op {opl}")
  | some o, some p =>
    if o.failed then
      -- a getter of the current state panicked: an entry the library relies on is gone
      (m, some (if p.op = "advance"
        then s!"site=votes.idle.changed after moving the ledger by {p.n} a getter fails: {obs.take 300}"
        else s!"site=votes.getter_failed a getter fails after {p.op}: {obs.take 300}"))
    else
    let prev := m.prev
    -- ghost updates from the ACCEPTED operation only
    let del' := match p.op, p.a with
      | "delegate", [a, d] => if o.ok then m.del.set a (some d) else m.del
      | _, _ => m.del
    let table' := if p.op = "advance" ∧ o.ok ∧ p.n > 0 then (prev.now, prev.now + p.n, rowOf prev) :: m.table
                  else m.table
    -- checkpoint counters: at most one new checkpoint per account and ledger
    let cpFail : Option String := match o.ncp, prev.ncp with
      | some nc, some pc =>
        (List.range N).findSome? (fun a =>
          let c := nc.getD a 0; let c0 := pc.getD a 0
          if c < c0 then some s!"site=votes.coalesce checkpoint counter of {a} decreased"
          else if c > c0 + 1 then some s!"site=votes.coalesce {c - c0} checkpoints for {a} in one call"
          else if c = c0 + 1 ∧ (m.lastCp.getD a none) = some o.now then
            some s!"site=votes.coalesce second checkpoint for {a} in ledger {o.now}"
          else if c = c0 ∧ o.votes.getD a 0 ≠ prev.votes.getD a 0 ∧ (m.lastCp.getD a none) ≠ some o.now then
            some s!"site=votes.coalesce votes of {a} changed in a new ledger without a new checkpoint"
          else none)
      | _, _ => none
    let lastCp' := match o.ncp with
      | some nc =>
        let pc := prev.ncp.getD (List.replicate N 0)
        (List.range N).map (fun a => if nc.getD a 0 > pc.getD a 0 then some o.now else m.lastCp.getD a none)
      | none => m.lastCp
    let m' : Mon := { m with prev := o, del := del', table := table', lastCp := lastCp' }
    let badVotes := (List.range N).find? (fun a => o.votes.getD a 0 ≠ delegatedSum del' o.bal a)
    let badHist := o.hist.find? (fun (q, row) =>
      if q ≥ o.now then row.any (· ≠ "E")
      else match expected m table' q with
        | some r => r ≠ row
        | none => false)
    let fail : Option String :=
      if p.op = "advance" ∧ (o.now ≠ prev.now + p.n ∨ o.votes ≠ prev.votes ∨ o.ts ≠ prev.ts ∨ o.bal ≠ prev.bal ∨
          o.del ≠ prev.del ∨ (prev.units.isSome ∧ o.units ≠ prev.units) ∨ (prev.ncp.isSome ∧ o.ncp ≠ prev.ncp)) then
        some s!"site=votes.idle.changed moving the ledger by {p.n} (no call in between) changed a current value: votes {prev.votes}->{o.votes} total {prev.ts}->{o.ts} delegates {prev.del.map showOpt}->{o.del.map showOpt} units {prev.units}->{o.units} checkpoints {prev.ncp}->{o.ncp}"
      else if o.fut ≠ "rej" then some s!"site=votes.future a query for the current or a future ledger was answered: {o.fut}"
      else if let some a := badVotes then
        some s!"site=votes.delegated_sum get_votes({a})={o.votes.getD a 0} but the balances delegated to {a} sum to {delegatedSum del' o.bal a}"
      else if o.ts ≠ o.bal.sum then some s!"site=votes.total get_total_supply={o.ts} but balances sum to {o.bal.sum}"
      else if o.units.isSome ∧ (o.units.getD []).map Int.ofNat ≠ o.bal then
        some s!"site=votes.units_balance voting units {o.units.getD []} differ from balances {o.bal}"
      else if o.del ≠ del' then some s!"site=votes.delegate get_delegate differs from the accepted delegations"
      else if let some (q, row) := badHist then
        some s!"site=votes.history query at ledger {q} (now={o.now}) returned {row} but the values at the end of that ledger were {(expected m table' q).getD []}"
      else if ¬ o.ok ∧ (o.bal ≠ prev.bal ∨ o.votes ≠ prev.votes ∨ o.del ≠ prev.del ∨ o.ts ≠ prev.ts ∨ (prev.ncp.isSome ∧ o.ncp ≠ prev.ncp) ∨ o.now ≠ prev.now) then
        some "site=votes.rollback a failed call changed balances, votes, delegates or checkpoints"
      else if (o.bal.any (· < 0)) then some "site=votes.negative a balance is negative"
      else cpFail
    (m', fail)

def machine : Machine where
  σ := M
  init := initM
  op := stepLine
  μ := Mon
  minit := minitM
  mon := check

end OZ.Drv.C13

def main : IO Unit := OZ.Drv.run OZ.Drv.C13.machine
