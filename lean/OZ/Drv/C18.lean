import OZ.DrvUtil
import OZ.Model.VerifiersMon
/-
Driver for C18. Ops (bytes are lower-case hex, "-" = empty):
  wa c=<lib|ex> pl=<payload> kl=<key(-data) length> xdr=<0|1> cd=<client data> parse=<ok|fail>
     ty=<parsed type> ch=<parsed challenge> ad=<authenticator data> sv=<0|1>
       c=lib : the library's `webauthn::verify` (through a pass-through contract)
       c=ex  : examples/multisig-smart-account/webauthn-verifier
       parse/ty/ch : what `serde_json_core::de::from_slice::<ClientDataJson>` answers on `cd`
       sv    : the harness' own P-256 check of (key, sha256(ad ‖ sha256 cd), signature)
       xdr   : sig_data decodes as WebAuthnSigData (always 1 for c=lib)
  ed c=<lib|ex> pl=<payload> sv=<0|1>
  enc src=<bytes> dst=<length of the destination buffer, pre-filled with 0xAA>
  encblk a=<byte> b=<byte>      source = the 256 groups (a, b, 0) … (a, b, 255), exact buffer
Observations: `ok true` | `ok false` | `err`;  `ok <hex of dst>` | `panic`;  `ok <ascii>`.

`op` runs the model (`OZ.Verifiers.modelLine` on the parsed op line). `mon` never does: it only
parses (`parseOp`, `readObs`) and calls the monitor core `OZ.Verifiers.Mon.checkCore`
(model-independent; uses only the RFC 4648 specification `rfc4648`): accept ⇔ the property's
conjunction; encoder output = RFC 4648 §5 unpadded. The core is proved sound in OZ/Props/C18Mon.lean.

String-level parts that stay here and are NOT covered by the soundness theorem: `parseOp` (with
`ofHex`) and the `site=c18.parse` report for a `wa` / `ed` / `enc` / `encblk` line that does not parse
(the model side prints `bad-op` for it, which the correspondence diff reports). A line of any other
kind is ignored by the monitor.
-/
namespace OZ.Drv.C18
open OZ.Drv OZ.B64 OZ.Verifiers OZ.Verifiers.Mon

def hexArg (ws : List String) (k : String) : Option Bytes := (kv? ws k).bind ofHex

def which : Option String → Which
  | some "lib" => .lib
  | some "ex" => .ex
  | _ => .other

def parseOp (ws : List String) : Option Op :=
  match ws with
  | "wa" :: rest => do
    let c ← kv? rest "c"
    let pl ← hexArg rest "pl"
    let kl ← kvNat? rest "kl"
    let xdr ← kvNat? rest "xdr"
    let cd ← hexArg rest "cd"
    let parse ← kv? rest "parse"
    let ty ← hexArg rest "ty"
    let ch ← hexArg rest "ch"
    let ad ← hexArg rest "ad"
    let sv ← kvNat? rest "sv"
    pure (.wa { c := which (some c), pl, kl, xdr, cd, parseOk := decide (parse = "ok"), ty, ch, ad, sv })
  | "ed" :: rest => do
    let sv ← kvNat? rest "sv"
    pure (.ed { c := which (kv? rest "c"), pl := hexArg rest "pl", sv })
  | "enc" :: rest => do
    let src ← hexArg rest "src"
    let n ← kvNat? rest "dst"
    pure (.enc src n)
  | "encblk" :: rest => do
    let a ← kvNat? rest "a"
    let b ← kvNat? rest "b"
    pure (.encblk a b)
  | _ => none

/-- model side: the model's answer to an op line (`bad-op` when it is not an op line) -/
def evalOp (ws : List String) : String :=
  match parseOp ws with
  | some op => modelLine op
  | none => "bad-op"

/-! ### monitor -/

def isOpKind (ws : List String) : Bool :=
  match ws with
  | k :: _ => k = "wa" || k = "ed" || k = "enc" || k = "encblk"
  | [] => false

def monitor (opl obs : String) : Option String :=
  match parseOp (words opl) with
  | some op => checkCore op (readObs obs)
  | none => if isOpKind (words opl) then some s!"site=c18.parse unparsable op {opl}" else none

def machine : Machine where
  σ := Unit
  init := fun _ => ()
  op := fun _ line => ((), evalOp (words line))
  μ := Unit
  minit := fun _ => ()
  mon := fun _ opl obs => ((), monitor opl obs)

end OZ.Drv.C18

def main : IO Unit := OZ.Drv.run OZ.Drv.C18.machine
