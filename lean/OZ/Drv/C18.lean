import OZ.DrvUtil
import OZ.Model.WebAuthn
import OZ.Model.Ed25519Verifier
/-
Driver for C18. Ops (bytes are lower-case hex, "-" = empty):
  wa c=<lib|ex> pl=<payload> kl=<key(-data) length> xdr=<0|1> cd=<client data> parse=<ok|fail>
     ty=<parsed type> ch=<parsed challenge> ad=<authenticator data> sv=<0|1>
       c=lib : the library's `webauthn::verify` (through a pass-through contract)
       c=ex  : examples/multisig-smart-account/webauthn-verifier
       parse/ty/ch : what `serde_json_core::de::from_slice::<ClientDataJson>` answers on `cd`
       sv    : the harness' own P-256 check of (key, sha256(ad ‖ sha256 cd), signature)
       xdr   : sig_data decodes as WebAuthnSigData (always 1 for c=lib)
  ed c=<lib|ex> pl=<payload> sv=<0|1>
  enc src=<bytes> dst=<length of the destination buffer, pre-filled with 0xAA>
  encblk a=<byte> b=<byte>      source = the 256 groups (a, b, 0) … (a, b, 255), exact buffer
Observations: `ok true` | `ok false` | `err`;  `ok <hex of dst>` | `panic`;  `ok <ascii>`.

Monitor (model-independent; uses only the RFC 4648 specification `rfc4648`): accept ⇔ the
property's conjunction; encoder output = RFC 4648 §5 unpadded.
-/
namespace OZ.Drv.C18
open OZ.Drv OZ.B64

def hexArg (ws : List String) (k : String) : Option Bytes := (kv? ws k).bind ofHex

def showRes {ε} : Except ε Bool → String
  | .ok true => "ok true"
  | .ok false => "ok false"
  | .error _ => "err"

def blkSrc (a b : Nat) : Bytes :=
  (List.range 256).flatMap (fun c => [UInt8.ofNat a, UInt8.ofNat b, UInt8.ofNat c])

def evalOp (ws : List String) : Option String :=
  match ws with
  | "wa" :: rest => do
    let c ← kv? rest "c"
    let pl ← hexArg rest "pl"
    let kl ← kvNat? rest "kl"
    let xdr ← kvNat? rest "xdr"
    let cd ← hexArg rest "cd"
    let parse ← kv? rest "parse"
    let ty ← hexArg rest "ty"
    let ch ← hexArg rest "ch"
    let ad ← hexArg rest "ad"
    let sv ← kvNat? rest "sv"
    let sd : OZ.WebAuthn.SigData := { signature := [], authenticatorData := ad, clientData := cd }
    let O : OZ.WebAuthn.Oracles :=
      { parse := fun _ => if parse = "ok" then some { challenge := ch, typeField := ty } else none
        sha256 := fun _ => []
        p256Verify := fun _ _ _ => sv == 1
        fromXdr := fun _ => if xdr = 1 then some sd else none }
    let key : Bytes := List.replicate kl 0
    if c = "lib" then some (showRes (OZ.WebAuthn.verify O pl key sd))
    else if c = "ex" then some (showRes (OZ.WebAuthn.exampleVerify O pl key []))
    else none
  | "ed" :: rest => do
    let c ← kv? rest "c"
    let pl ← hexArg rest "pl"
    let sv ← kvNat? rest "sv"
    if c = "lib" then some (showRes (OZ.Ed25519Verifier.verify (fun _ _ _ => sv == 1) pl [] []))
    else if c = "ex" then some (showRes (OZ.Ed25519Verifier.exampleVerify (fun _ _ _ => sv == 1) pl [] []))
    else none
  | "enc" :: rest => do
    let src ← hexArg rest "src"
    let n ← kvNat? rest "dst"
    match encodeInto (List.replicate n 0xAA) src with
    | none => some "panic"
    | some out => some ("ok " ++ toHex out)
  | "encblk" :: rest => do
    let a ← kvNat? rest "a"
    let b ← kvNat? rest "b"
    some ("ok " ++ toAscii (encode (blkSrc a b)))
  | _ => none

/-- first conjunct of the property that an assertion violates (`none`: it is genuine and
well-formed, so it must be accepted) -/
def waDefect (ws : List String) : Option (Option String) := do
  let c ← kv? ws "c"
  let pl ← hexArg ws "pl"
  let kl ← kvNat? ws "kl"
  let xdr ← kvNat? ws "xdr"
  let cd ← hexArg ws "cd"
  let parse ← kv? ws "parse"
  let ty ← hexArg ws "ty"
  let ch ← hexArg ws "ch"
  let ad ← hexArg ws "ad"
  let sv ← kvNat? ws "sv"
  let f := (ad.getD 32 0).toNat
  pure (
    if c = "ex" ∧ xdr ≠ 1 then some "sig_data_xdr"
    else if c = "ex" ∧ kl < 65 then some "key_data_len"
    else if cd.length > 1024 then some "client_data_len"
    else if parse ≠ "ok" then some "parse"
    else if ty ≠ ofAscii "webauthn.get" then some "type"
    else if pl.length ≠ 32 then some "payload_len"
    else if ch ≠ rfc4648 pl then some "challenge"
    else if ad.length < 37 then some "auth_data_len"
    else if f % 2 ≠ 1 then some "up"
    else if f / 4 % 2 ≠ 1 then some "uv"
    else if f / 8 % 2 = 0 ∧ f / 16 % 2 = 1 then some "backup_state"
    else if sv ≠ 1 then some "signature"
    else none)

def monitor (opl obs : String) : Option String :=
  let ws := words opl
  match ws with
  | "wa" :: rest =>
    match waDefect rest with
    | none => some s!"site=c18.parse unparsable op {opl}"
    | some d =>
      if obs = "ok false" then some "site=webauthn.returns_false the verifier returned false"
      else match d with
        | some why => if obs = "ok true" then some s!"site=webauthn.accept.{why} accepted although the {why} condition fails" else none
        | none => if obs = "ok true" then none else some "site=webauthn.reject.genuine a genuine, well-formed assertion was rejected"
  | "ed" :: rest =>
    match kvNat? rest "sv" with
    | none => some s!"site=c18.parse unparsable op {opl}"
    | some sv =>
      if obs = "ok false" then some "site=ed25519.returns_false the verifier returned false"
      else if sv = 1 ∧ obs ≠ "ok true" then some "site=ed25519.reject.genuine a valid signature was rejected"
      else if sv ≠ 1 ∧ obs = "ok true" then some "site=ed25519.accept.invalid accepted although the signature does not verify"
      else none
  | "enc" :: rest =>
    match hexArg rest "src", kvNat? rest "dst" with
    | some src, some n =>
      let want := rfc4648 src
      let expect := if n < want.length then "panic"
                    else "ok " ++ toHex (want ++ List.replicate (n - want.length) 0xAA)
      if obs = expect then none
      else some s!"site=base64url.rfc4648 encoder output differs from RFC 4648 §5: want {expect} got {obs}"
    | _, _ => some s!"site=c18.parse unparsable op {opl}"
  | "encblk" :: rest =>
    match kvNat? rest "a", kvNat? rest "b" with
    | some a, some b =>
      let expect := "ok " ++ toAscii (rfc4648 (blkSrc a b))
      if obs = expect then none
      else some s!"site=base64url.rfc4648 encoder output differs from RFC 4648 §5 on a 3-byte group ({a},{b},*)"
    | _, _ => some s!"site=c18.parse unparsable op {opl}"
  | _ => none

def machine : Machine where
  σ := Unit
  init := fun _ => ()
  op := fun _ line =>
    match evalOp (words line) with
    | some r => ((), r)
    | none => ((), "bad-op")
  μ := Unit
  minit := fun _ => ()
  mon := fun _ opl obs => ((), monitor opl obs)

end OZ.Drv.C18

def main : IO Unit := OZ.Drv.run OZ.Drv.C18.machine
