import OZ.DrvUtil
import OZ.Model.Timelock
/-
Driver for C08 (timelock). `op` runs the model OZ.Timelock on the op lines of
harness/src/bin/c08.rs and prints the model's observation in the harness's format.

`mon` is the monitor: it never calls the model. It keeps its own ghost log of the accepted
schedule / cancel / execute calls seen on the IMPLEMENTATION trace (keyed by the canonical
text of the operation tuple) and checks, on every implementation observation,
  * each accepted execution against the property's conditions (scheduled with delay ≥ the
    minimum delay then in force, not cancelled since, delay elapsed, predecessor zero or
    executed, never executed before), each accepted schedule / cancel likewise,
  * every reported state, ledger value and predicate of every id against the ghost log,
  * that the target was invoked exactly once, with the scheduled function and argument, by an
    accepted `execute` and by nothing else,
  * that nothing stored changes while the ledger advances (idle gaps of up to 100 days):
    only Waiting → Ready by time,
  * that a rejected call changed nothing,
  * id-equality ⇔ tuple-equality for every defined operation.
-/
namespace OZ.Drv.C08
open OZ.Drv OZ.Timelock OZ.Host

/-- the correspondence is validated for ledger sequences up to `u32::MAX -
TIMELOCK_EXTEND_AMOUNT`; beyond, the host refuses `extend_ttl` (the harness never goes there) -/
def HORIZON : Nat := U32_MAX - 518400

structure M where
  s : State
  defs : List Operation

def initM (label : String) : M :=
  { s := init ((kvNat? (words label) "start").getD 100), defs := [] }

def parseRef (defs : List Operation) (r : String) : Option Id :=
  if r = "z" then some Id.zero
  else if r.startsWith "r" then (r.drop 1).toString.toNat?.map Id.raw
  else if r.startsWith "o" then
    match (r.drop 1).toString.toNat? with
    | some k => (defs[k]?).map Operation.id
    | none => none
  else none

def parseArgs (a : String) : List Nat :=
  if a = "" ∨ a = "-" then [] else (a.splitOn ".").filterMap String.toNat?

def allIds (m : M) : List Id := m.defs.map Operation.id ++ [Id.zero, Id.raw 1]

def b2s (b : Bool) : String := if b then "1" else "0"

def showId (s : State) (id : Id) : String :=
  let c := match getOperationState s id with
    | .unset => "U" | .waiting => "W" | .ready => "R" | .done => "D"
  s!"{c}:{getOperationLedger s id}:{b2s (operationExists s id)}{b2s (isOperationPending s id)}{b2s (isOperationReady s id)}{b2s (isOperationDone s id)}"

def showCalls (s : State) (t : Nat) : String :=
  let cs := s.calls.filter (fun c => c.1 = t)
  match cs with
  | [] => "0:-:-"
  | (_, f, a) :: _ => s!"{cs.length}:{f}:{a.headD 0}"

def showState (m : M) : String :=
  let min := match m.s.minDelay with | some d => toString d | none => "-"
  s!"now={m.s.now} min={min} st={",".intercalate ((allIds m).map (showId m.s))} calls={showCalls m.s 0},{showCalls m.s 1}"

def parseOp (m : M) (ws : List String) : Option Op :=
  match ws with
  | "tl" :: "min" :: rest => (kvNat? rest "d").map Op.setMinDelay
  | "tl" :: "sched" :: rest => do
    let k ← kvNat? rest "k"
    let d ← kvNat? rest "d"
    let op ← m.defs[k]?
    pure (.schedule op d)
  | "tl" :: "setexec" :: rest => do
    let k ← kvNat? rest "k"
    let op ← m.defs[k]?
    pure (.setExecute op)
  | "tl" :: "exec" :: rest => do
    let k ← kvNat? rest "k"
    let ok ← kvNat? rest "callok"
    let op ← m.defs[k]?
    pure (.execute op (ok = 1))
  | "tl" :: "cancel" :: rest => do
    let i ← kv? rest "i"
    let id ← parseRef m.defs i
    pure (.cancel id)
  | "tl" :: "advance" :: rest => (kvNat? rest "n").map Op.advance
  | _ => none

def stepLine (m : M) (line : String) : M × String :=
  let ws := words line
  match ws with
  | "tl" :: "def" :: rest =>
    match kvNat? rest "t", kvNat? rest "f", kv? rest "a", (kv? rest "p").bind (parseRef m.defs), kvNat? rest "s" with
    | some t, some f, some a, some p, some s =>
      let op : Operation := ⟨t, f, parseArgs a, p, s⟩
      let eq := (List.range m.defs.length).filter (fun j => (m.defs[j]?).map Operation.id = some op.id)
      let m' := { m with defs := m.defs ++ [op] }
      (m', s!"ok eq={showList toString eq} {showState m'}")
    | _, _, _, _, _ => (m, "bad-op")
  | _ =>
    match parseOp m ws with
    | none => (m, "bad-op")
    | some op =>
      let outside := match op with
        | .advance n => decide (m.s.now + n > HORIZON)
        | _ => false
      if outside then (m, s!"err {showState m}")
      else
        match apply m.s op with
        | .ok s' => let m' := { m with s := s' }; (m', s!"ok {showState m'}")
        | .error _ => (m, s!"err {showState m}")

/-! ### the monitor (implementation side only) -/

inductive G where
  | unset
  | pending (l d : Nat)
  | done
  deriving DecidableEq

structure IdObs where
  code : String
  ledger : Nat
  flags : String
  deriving DecidableEq

structure Obs where
  ok : Bool
  eq : Option (List Nat)
  now : Nat
  min : Option Nat
  st : List IdObs
  calls : List String
  stRaw : String
  callsRaw : String

def parseObs (line : String) : Option Obs :=
  match words line with
  | tag :: rest => do
    let now ← kvNat? rest "now"
    let minS ← kv? rest "min"
    let stRaw ← kv? rest "st"
    let callsRaw ← kv? rest "calls"
    let st ← (stRaw.splitOn ",").mapM (fun t =>
      match t.splitOn ":" with
      | [c, l, f] => do pure { code := c, ledger := (← l.toNat?), flags := f : IdObs }
      | _ => none)
    pure { ok := tag = "ok", eq := (kv? rest "eq").map natList, now, min := minS.toNat?, st,
           calls := callsRaw.splitOn ",", stRaw, callsRaw }
  | _ => none

structure Mon where
  keys : List String                 -- canonical tuple text of each defined operation
  tuples : List (Nat × Nat × Nat)    -- (target, fn, first arg) of each defined operation
  preds : List String                -- canonical key of each operation's predecessor
  ghost : List (String × G)          -- newest binding first
  prev : Option Obs
  start : Nat

def Mon.get (m : Mon) (k : String) : G :=
  match m.ghost.find? (fun p => p.1 = k) with
  | some (_, g) => g
  | none => .unset

def Mon.set (m : Mon) (k : String) (g : G) : Mon := { m with ghost := (k, g) :: m.ghost }

def refKey (keys : List String) (r : String) : String :=
  if r = "z" then "raw0"
  else if r.startsWith "r" then "raw" ++ (r.drop 1).toString
  else match (r.drop 1).toString.toNat? with
    | some k => keys[k]?.getD "?"
    | none => "?"

def satU32 (a b : Nat) : Nat := if a + b > 4294967295 then 4294967295 else a + b

/-- what the property prescribes for an id at ledger `now`: (code, ledger value, flags) -/
def expected (g : G) (now : Nat) : IdObs :=
  match g with
  | .unset => ⟨"U", 0, "0000"⟩
  | .done => ⟨"D", 1, "1001"⟩
  | .pending l d =>
    if l + d ≤ now ∨ (l + d > 4294967295 ∧ now = 4294967295) then ⟨"R", satU32 l d, "1110"⟩
    else ⟨"W", satU32 l d, "1100"⟩

def universeKeys (m : Mon) : List String := m.keys ++ ["raw0", "raw1"]

def checkStates (m : Mon) (o : Obs) : Option String :=
  let ks := universeKeys m
  if ks.length ≠ o.st.length then some s!"site=timelock.universe {o.st.length} ids reported, {ks.length} expected"
  else
    let bad := (ks.zip o.st).filter (fun (k, io) => expected (m.get k) o.now ≠ io)
    match bad with
    | [] => none
    | (k, io) :: _ =>
      let ex := expected (m.get k) o.now
      some s!"site=timelock.state id {k}: reported {io.code}:{io.ledger}:{io.flags} but the accepted history prescribes {ex.code}:{ex.ledger}:{ex.flags} at ledger {o.now}"

def check (m : Mon) (opl obs : String) : Mon × Option String :=
  match parseObs obs with
  | none => (m, some s!"site=timelock.parse unparsable observation {obs}")
  | some o =>
    let ws := words opl
    let kind := (ws.drop 1).head?.getD ""
    let rest := ws.drop 2
    let prevNow := match m.prev with | some p => p.now | none => m.start
    let prevMin := match m.prev with | some p => p.min | none => none
    let prevCalls := match m.prev with | some p => p.callsRaw | none => "0:-:-,0:-:-"
    let fin (m' : Mon) (f : Option String) : Mon × Option String :=
      let m'' := { m' with prev := some o }
      match f with
      | some e => (m'', some e)
      | none => (m'', checkStates m'' o)
    if o.now < 2 then fin m (some "site=timelock.regime ledger below 2") else
    if kind = "def" then
      match kvNat? rest "t", kvNat? rest "f", kv? rest "a", kv? rest "p", kvNat? rest "s" with
      | some t, some f, some a, some p, some s =>
        let pk := refKey m.keys p
        let key := s!"op({t},{f},{a},{pk},{s})"
        let same := (List.range m.keys.length).filter (fun j => m.keys[j]? = some key)
        let m' := { m with keys := m.keys ++ [key], tuples := m.tuples ++ [(t, f, (parseArgs a).headD 0)],
                           preds := m.preds ++ [pk] }
        if o.eq ≠ some same then
          fin m' (some s!"site=timelock.id operation {key}: ids equal to those of definitions {o.eq.getD []}, tuples equal to {same}")
        else fin m' none
      | _, _, _, _, _ => fin m (some "site=timelock.parse bad def line")
    else if ¬ o.ok then
      -- a rejected call changes nothing (the ledger sequence included)
      let changed := match m.prev with
        | some p => p.stRaw != o.stRaw || p.min != o.min || p.callsRaw != o.callsRaw || p.now != o.now
        | none => false
      fin m (if changed then some "site=timelock.rollback a rejected call changed the observable state" else none)
    else
      let callsSame : Option String :=
        if o.callsRaw ≠ prevCalls then some s!"site=timelock.calls a target was invoked by `{kind}`" else none
      let stable : Option String :=
        if o.now ≠ prevNow then some s!"site=timelock.now the ledger moved during `{kind}`"
        else if kind ≠ "min" ∧ o.min ≠ prevMin then some s!"site=timelock.min the minimum delay changed during `{kind}`"
        else none
      match kind with
      | "advance" =>
        let n := (kvNat? rest "n").getD 0
        -- across an idle gap nothing stored may change: only Waiting → Ready, by time, same ledger value
        let prevSt := match m.prev with | some p => p.st | none => []
        let lost := (List.range prevSt.length).filterMap (fun i =>
          match prevSt[i]?, o.st[i]? with
          | some a, some b =>
            if a = b then none
            else if a.code = "W" ∧ b.code = "R" ∧ a.ledger = b.ledger ∧ b.ledger ≤ o.now then none
            else some s!"site=timelock.idle.lost id {(universeKeys m)[i]?.getD "?"}: {a.code}:{a.ledger} before an idle gap of {n} ledgers, {b.code}:{b.ledger} after it"
          | _, _ => none)
        fin m (if o.now ≠ prevNow + n then some "site=timelock.advance ledger not advanced as requested"
               else if o.min ≠ prevMin then some s!"site=timelock.idle.lost the minimum delay changed over an idle gap of {n} ledgers"
               else match lost with
                 | w :: _ => some w
                 | [] => callsSame)
      | "min" =>
        fin m (if o.min ≠ kvNat? rest "d" then some "site=timelock.min minimum delay not stored" else stable.orElse (fun _ => callsSame))
      | "sched" =>
        let k := (kvNat? rest "k").getD 0
        let d := (kvNat? rest "d").getD 0
        let key := m.keys[k]?.getD "?"
        let f : Option String :=
          match m.get key, prevMin with
          | .unset, some mn =>
            if d < mn then some s!"site=timelock.schedule.delay accepted delay {d} below the minimum delay {mn} in force" else none
          | .unset, none => some "site=timelock.schedule.nomin schedule accepted although no minimum delay is set"
          | .done, _ => some s!"site=timelock.schedule.done {key} was re-scheduled after being executed"
          | .pending _ _, _ => some s!"site=timelock.schedule.twice {key} was scheduled while pending"
        fin (m.set key (.pending prevNow d)) (f.orElse (fun _ => stable.orElse (fun _ => callsSame)))
      | "cancel" =>
        let key := refKey m.keys ((kv? rest "i").getD "?")
        let f : Option String :=
          match m.get key with
          | .pending _ _ => none
          | .done => some s!"site=timelock.cancel.done {key} was cancelled after being executed"
          | .unset => some s!"site=timelock.cancel.unset {key} was cancelled although not pending"
        fin (m.set key .unset) (f.orElse (fun _ => stable.orElse (fun _ => callsSame)))
      | _ =>
        -- exec / setexec
        let k := (kvNat? rest "k").getD 0
        let key := m.keys[k]?.getD "?"
        let pk := m.preds[k]?.getD "?"
        let f : Option String :=
          match m.get key with
          | .unset => some s!"site=timelock.execute.unscheduled {key} executed although not scheduled (or cancelled since)"
          | .done => some s!"site=timelock.execute.twice {key} executed a second time"
          | .pending l d =>
            if ¬ (l + d ≤ o.now ∨ (l + d > 4294967295 ∧ o.now = 4294967295)) then
              some s!"site=timelock.execute.early {key} scheduled at {l} with delay {d} executed at ledger {o.now}"
            else if pk ≠ "raw0" ∧ m.get pk ≠ .done then
              some s!"site=timelock.execute.predecessor {key} executed before its predecessor {pk}"
            else none
        let fc : Option String :=
          if kind = "exec" then
            let (t, fn, a0) := m.tuples[k]?.getD (9, 9, 9)
            let pc := prevCalls.splitOn ","
            let cnt := fun (s : String) => ((s.splitOn ":").headD "0").toNat?.getD 0
            let expd := (List.range 2).map (fun i =>
              if i = t then s!"{cnt (pc[i]?.getD "0") + 1}:{fn}:{a0}" else pc[i]?.getD "?")
            if o.calls ≠ expd then some s!"site=timelock.execute.call target calls are {o.callsRaw}, expected exactly one more call ({t},{fn},{a0}) after {prevCalls}" else none
          else callsSame
        fin (m.set key .done) (f.orElse (fun _ => stable.orElse (fun _ => fc)))

def machine : Machine where
  σ := M
  init := initM
  op := stepLine
  μ := Mon
  minit := fun label => { keys := [], tuples := [], preds := [], ghost := [], prev := none,
                          start := (kvNat? (words label) "start").getD 100 }
  mon := check

end OZ.Drv.C08

def main : IO Unit := OZ.Drv.run OZ.Drv.C08.machine
