import OZ.DrvUtil
import OZ.Model.TimelockMon
/-
Driver for C08 (timelock). `op` runs the model OZ.Timelock on the op lines of
harness/src/bin/c08.rs and prints the model's observation in the harness's format.

`mon` is the monitor: it never calls the model. Here it only PARSES the op line and the
implementation's observation (`parseLine`, `parseObs`) and calls `OZ.Timelock.Mon.checkCore`
(OZ/Model/TimelockMon.lean), which is proved sound in OZ/Props/C08Mon.lean
(`monitor_accepts_every_model_trace`). The core keeps its own ghost log of the accepted
schedule / cancel / execute calls seen on the IMPLEMENTATION trace (keyed by the canonical
operation tuple) and checks, on every implementation observation,
  * each accepted execution against the property's conditions (scheduled with delay ≥ the
    minimum delay then in force, not cancelled since, delay elapsed, predecessor zero or
    executed, never executed before), each accepted schedule / cancel likewise,
  * every reported state, ledger value and predicate of every id against the ghost log,
  * that the target was invoked exactly once, with the scheduled function and argument, by an
    accepted `execute` and by nothing else,
  * that nothing stored changes while the ledger advances (idle gaps of up to 100 days):
    only Waiting → Ready by time,
  * that a rejected call changed nothing,
  * id-equality ⇔ tuple-equality for every defined operation.
-/
namespace OZ.Drv.C08
open OZ.Drv OZ.Timelock OZ.Timelock.Mon OZ.Host

-- `HORIZON` (u32::MAX - TIMELOCK_EXTEND_AMOUNT) is defined in OZ/Model/TimelockMon.lean

structure M where
  s : State
  defs : List Operation

def initM (label : String) : M :=
  { s := init ((kvNat? (words label) "start").getD 100), defs := [] }

def parseRef (defs : List Operation) (r : String) : Option Id :=
  if r = "z" then some Id.zero
  else if r.startsWith "r" then (r.drop 1).toString.toNat?.map Id.raw
  else if r.startsWith "o" then
    match (r.drop 1).toString.toNat? with
    | some k => (defs[k]?).map Operation.id
    | none => none
  else none

def parseArgs (a : String) : List Nat :=
  if a = "" ∨ a = "-" then [] else (a.splitOn ".").filterMap String.toNat?

def allIds (m : M) : List Id := m.defs.map Operation.id ++ [Id.zero, Id.raw 1]

def b2s (b : Bool) : String := if b then "1" else "0"

def showId (s : State) (id : Id) : String :=
  let c := match getOperationState s id with
    | .unset => "U" | .waiting => "W" | .ready => "R" | .done => "D"
  s!"{c}:{getOperationLedger s id}:{b2s (operationExists s id)}{b2s (isOperationPending s id)}{b2s (isOperationReady s id)}{b2s (isOperationDone s id)}"

def showCalls (s : State) (t : Nat) : String :=
  let cs := s.calls.filter (fun c => c.1 = t)
  match cs with
  | [] => "0:-:-"
  | (_, f, a) :: _ => s!"{cs.length}:{f}:{a.headD 0}"

def showState (m : M) : String :=
  let min := match m.s.minDelay with | some d => toString d | none => "-"
  s!"now={m.s.now} min={min} st={",".intercalate ((allIds m).map (showId m.s))} calls={showCalls m.s 0},{showCalls m.s 1}"

def parseOp (m : M) (ws : List String) : Option Op :=
  match ws with
  | "tl" :: "min" :: rest => (kvNat? rest "d").map Op.setMinDelay
  | "tl" :: "sched" :: rest => do
    let k ← kvNat? rest "k"
    let d ← kvNat? rest "d"
    let op ← m.defs[k]?
    pure (.schedule op d)
  | "tl" :: "setexec" :: rest => do
    let k ← kvNat? rest "k"
    let op ← m.defs[k]?
    pure (.setExecute op)
  | "tl" :: "exec" :: rest => do
    let k ← kvNat? rest "k"
    let ok ← kvNat? rest "callok"
    let op ← m.defs[k]?
    pure (.execute op (ok = 1))
  | "tl" :: "cancel" :: rest => do
    let i ← kv? rest "i"
    let id ← parseRef m.defs i
    pure (.cancel id)
  | "tl" :: "advance" :: rest => (kvNat? rest "n").map Op.advance
  | _ => none

def stepLine (m : M) (line : String) : M × String :=
  let ws := words line
  match ws with
  | "tl" :: "def" :: rest =>
    match kvNat? rest "t", kvNat? rest "f", kv? rest "a", (kv? rest "p").bind (parseRef m.defs), kvNat? rest "s" with
    | some t, some f, some a, some p, some s =>
      let op : Operation := ⟨t, f, parseArgs a, p, s⟩
      let eq := (List.range m.defs.length).filter (fun j => (m.defs[j]?).map Operation.id = some op.id)
      let m' := { m with defs := m.defs ++ [op] }
      (m', s!"ok eq={showList toString eq} {showState m'}")
    | _, _, _, _, _ => (m, "bad-op")
  | _ =>
    match parseOp m ws with
    | none => (m, "bad-op")
    | some op =>
      let outside := match op with
        | .advance n => decide (m.s.now + n > HORIZON)
        | _ => false
      if outside then (m, s!"err {showState m}")
      else
        match apply m.s op with
        | .ok s' => let m' := { m with s := s' }; (m', s!"ok {showState m'}")
        | .error _ => (m, s!"err {showState m}")

/-! ### the monitor (implementation side only): parsing, then `OZ.Timelock.Mon.checkCore`

Not covered by the soundness theorem (string level, this file): `parseLine`, `parseRefM`,
`parseObs`, `parseCall`, and the `site=timelock.parse unparsable observation` alarm. Everything
else the monitor does is `checkCore`. -/

def parseRefM (r : String) : Ref :=
  if r = "z" then .z
  else if r.startsWith "r" then
    match (r.drop 1).toString.toNat? with
    | some n => .raw n
    | none => .bad
  else
    match (r.drop 1).toString.toNat? with
    | some k => .op k
    | none => .bad

def parseCallLine (kind : String) (rest : List String) : CallLine :=
  match kind with
  | "advance" => .advance ((kvNat? rest "n").getD 0)
  | "min" => .min (kvNat? rest "d")
  | "sched" => .sched ((kvNat? rest "k").getD 0) ((kvNat? rest "d").getD 0)
  | "cancel" => .cancel (parseRefM ((kv? rest "i").getD "?"))
  | "exec" => .exec ((kvNat? rest "k").getD 0) ((kvNat? rest "callok").getD 0)
  | "setexec" => .setexec ((kvNat? rest "k").getD 0)
  | other => .other other ((kvNat? rest "k").getD 0)

def parseLine (ws : List String) : Line :=
  let kind := (ws.drop 1).head?.getD ""
  let rest := ws.drop 2
  if kind = "def" then
    match kvNat? rest "t", kvNat? rest "f", kv? rest "a", kv? rest "p", kvNat? rest "s" with
    | some t, some f, some a, some p, some s => .defn t f (parseArgs a) (parseRefM p) s
    | _, _, _, _, _ => .badDef
  else .call (parseCallLine kind rest)

def parseCall (t : String) : Option CallObs :=
  match t.splitOn ":" with
  | [c, f, a] => do pure { cnt := (← c.toNat?), fn := f.toNat?, a0 := a.toNat? }
  | _ => none

def parseObs (line : String) : Option Obs :=
  match words line with
  | tag :: rest => do
    let now ← kvNat? rest "now"
    let minS ← kv? rest "min"
    let stRaw ← kv? rest "st"
    let callsRaw ← kv? rest "calls"
    let st ← (stRaw.splitOn ",").mapM (fun t =>
      match t.splitOn ":" with
      | [c, l, f] => do pure { code := c, ledger := (← l.toNat?), flags := f : IdObs }
      | _ => none)
    let calls ← (callsRaw.splitOn ",").mapM parseCall
    pure { ok := tag = "ok", eq := (kv? rest "eq").map natList, now, min := minS.toNat?, st, calls }
  | _ => none

def check (m : Mon) (opl obs : String) : Mon × Option String :=
  match parseObs obs with
  | none => (m, some s!"site=timelock.parse unparsable observation {obs}")
  | some o => checkCore m (parseLine (words opl)) o

def machine : Machine where
  σ := M
  init := initM
  op := stepLine
  μ := Mon
  minit := fun label => monInit ((kvNat? (words label) "start").getD 100)
  mon := check

end OZ.Drv.C08

def main : IO Unit := OZ.Drv.run OZ.Drv.C08.machine
