import OZ.Drv.NftIO
/-
Driver for C11 (an NFT moves only by its owner, its approved account or a live operator).
Models: the same three NFT models as C10 (approvals / operators are temporary entries with the
host's TTL semantics).

The monitor does not run the model. From the ACCEPTED operations alone it keeps
  * the plain ownership map (who owns which token now),
  * ghost approvals  id ↦ (approved, live_until)  — set by an accepted `approve`, dropped by a
    revocation (`live_until = 0`) and by every accepted transfer / burn of that token,
  * ghost operators  (owner, operator) ↦ live_until — set / dropped by accepted `approve_for_all`,
and checks the property's conclusion on the implementation's observations:
  * an accepted `transfer` / `burn` has `from` = current owner ∈ auth;
  * an accepted `transfer_from` / `burn_from` has spender ∈ auth, `from` = current owner, and the
    spender is the owner, or the ghost-approved account of that token with live_until ≥ ledger,
    or a ghost operator of the CURRENT owner with live_until ≥ ledger;
  * an accepted `approve` comes from the current owner or a live ghost operator of it, in auth;
    an accepted `approve_for_all` from the owner in auth;
  * after an accepted transfer / burn `get_approved(token)` is none;
  * every approval / operator the implementation reports is a live ghost one (nothing stale:
    expired, revoked, cleared or a previous owner's).
-/
namespace OZ.Drv.C11
open OZ.Drv OZ.Drv.NftIO

structure Mon where
  batches : List (Nat × Nat × Nat)          -- first, last, owner
  over : List (Nat × Option Nat)            -- point overrides, most recent first
  appr : List (Nat × Nat × Nat)             -- id, approved, live_until
  oper : List (Nat × Nat × Nat)             -- owner, operator, live_until
  next : Nat

def ghostOwner (m : Mon) (id : Nat) : Option Nat :=
  match m.over.find? (fun p => p.1 = id) with
  | some (_, o) => o
  | none =>
    match m.batches.find? (fun (f, l, _) => f ≤ id ∧ id ≤ l) with
    | some (_, _, o) => some o
    | none => none

def setOwner (m : Mon) (id : Nat) (o : Option Nat) : Mon :=
  { m with over := (id, o) :: m.over.filter (fun p => p.1 ≠ id),
           appr := m.appr.filter (fun p => p.1 ≠ id) }

def liveAppr (m : Mon) (now id : Nat) : Option Nat :=
  match m.appr.find? (fun p => p.1 = id) with
  | some (_, a, lu) => if now ≤ lu then some a else none
  | none => none

def liveOper (m : Mon) (now o p : Nat) : Bool :=
  match m.oper.find? (fun x => x.1 = o ∧ x.2.1 = p) with
  | some (_, _, lu) => decide (now ≤ lu)
  | none => false

def check (m : Mon) (opl obs : String) : Mon × Option String :=
  match parseObs obs, parseOpLine opl with
  | some o, some ol =>
    let a := fun (i : Nat) => ol.a.getD i 0
    let now := o.now
    let inAuth := fun (x : Nat) => ol.auth.contains x
    let (m1, fail1) : Mon × Option String :=
      if ¬ o.ok then (m, none) else
      match ol.kind with
      | "mint" =>
        match o.ret with
        | some id => ({ setOwner m id (some (a 0)) with next := id + 1 }, none)
        | none => (m, none)
      | "mint_id" => (setOwner m ol.id (some (a 0)), none)
      | "batch_mint" =>
        match o.ret with
        | some last => ({ m with batches := (last + 1 - ol.n, last, a 0) :: m.batches, next := last + 1 }, none)
        | none => (m, none)
      | "transfer" | "burn" =>
        let f := a 0
        let m' := setOwner m ol.id (if ol.kind = "transfer" then some (a 1) else none)
        if ghostOwner m ol.id ≠ some f then
          (m', some s!"site=nft.auth.not-owner token {ol.id} taken from {f}, owner is {showOpt (ghostOwner m ol.id)}")
        else if ¬ inAuth f then
          (m', some s!"site=nft.auth.transfer-unauthorized token {ol.id} left its owner {f} without {f} authorizing (auth={ol.auth})")
        else (m', none)
      | "transfer_from" | "burn_from" =>
        let sp := a 0
        let f := a 1
        let m' := setOwner m ol.id (if ol.kind = "transfer_from" then some (a 2) else none)
        if ghostOwner m ol.id ≠ some f then
          (m', some s!"site=nft.auth.not-owner token {ol.id} taken from {f}, owner is {showOpt (ghostOwner m ol.id)}")
        else if ¬ inAuth sp then
          (m', some s!"site=nft.auth.spender-not-authorizing spender {sp} moved token {ol.id} without authorizing (auth={ol.auth})")
        else if ¬ (sp = f ∨ liveAppr m now ol.id = some sp ∨ liveOper m now f sp) then
          (m', some s!"site=nft.auth.spender-unjustified spender {sp} moved token {ol.id} of {f} at ledger {now}: not owner, no live approval, no live operator")
        else (m', none)
      | "approve" =>
        let ap := a 0
        let m' : Mon :=
          if ol.lu = 0 then { m with appr := m.appr.filter (fun p => p.1 ≠ ol.id) }
          else { m with appr := (ol.id, a 1, ol.lu) :: m.appr.filter (fun p => p.1 ≠ ol.id) }
        match ghostOwner m ol.id with
        | none => (m', some s!"site=nft.auth.approve-nonexistent approval accepted for token {ol.id} without owner")
        | some ow =>
          if ¬ inAuth ap then
            (m', some s!"site=nft.auth.approve-unauthorized approver {ap} did not authorize (auth={ol.auth})")
          else if ¬ (ap = ow ∨ liveOper m now ow ap) then
            (m', some s!"site=nft.auth.approve-unauthorized approver {ap} is neither the owner {ow} of token {ol.id} nor its live operator")
          else (m', none)
      | "approve_for_all" =>
        let ow := a 0
        let rest := m.oper.filter (fun x => ¬ (x.1 = ow ∧ x.2.1 = a 1))
        let m' : Mon := if ol.lu = 0 then { m with oper := rest } else { m with oper := (ow, a 1, ol.lu) :: rest }
        if ¬ inAuth ow then
          (m', some s!"site=nft.auth.operator-grant-unauthorized owner {ow} did not authorize (auth={ol.auth})")
        else (m', none)
      | _ => (m, none)
    match fail1 with
    | some f => (m1, some f)
    | none =>
      let moved := o.ok ∧ (ol.kind = "transfer" ∨ ol.kind = "transfer_from" ∨ ol.kind = "burn" ∨ ol.kind = "burn_from")
      let fail : Option String :=
        if moved ∧ ¬ ol.qa.contains ol.id then some "site=nft.auth.unobserved the moved token is not in the observed set"
        else if moved ∧ o.appr.any (fun p => p.1 = ol.id) then
          some s!"site=nft.auth.approval-not-cleared get_approved({ol.id}) is still set after the token moved"
        else
          match o.appr.find? (fun (id, ap) => liveAppr m1 now id ≠ some ap) with
          | some (id, ap) =>
            some s!"site=nft.auth.stale-approval get_approved({id}) = {ap} at ledger {now} but the live approval is {showOpt (liveAppr m1 now id)}"
          | none =>
            match o.opr.find? (fun (ow, p) => ¬ liveOper m1 now ow p) with
            | some (ow, p) =>
              some s!"site=nft.auth.stale-operator is_approved_for_all({ow},{p}) at ledger {now} without a live grant"
            | none => none
      (m1, fail)
  | _, _ => (m, some s!"site=nft.parse unparsable line {obs}")

def machine : Machine where
  σ := M
  init := initM
  op := stepLine
  μ := Mon
  minit := fun _ => { batches := [], over := [], appr := [], oper := [], next := 0 }
  mon := check

end OZ.Drv.C11

def main : IO Unit := OZ.Drv.run OZ.Drv.C11.machine
