import OZ.Drv.NftIO
/-
Driver for C11 (an NFT moves only by its owner, its approved account or a live operator).
Models: the same three NFT models as C10 (approvals / operators are temporary entries with the
host's TTL semantics).

`op` runs the model (`NftIO.stepLine` = print ∘ `NftMon.stepObs`). `mon` never does: it parses the
op line and the IMPLEMENTATION's observation line and calls the monitor core
`OZ.NftMon.Auth.checkCore` (OZ/Model/NftMon.lean). From the ACCEPTED operations alone the core keeps
  * the plain ownership map (who owns which token now),
  * ghost approvals  id ↦ (approved, live_until)  — set by an accepted `approve`, dropped by a
    revocation (`live_until = 0`) and by every accepted transfer / burn of that token,
  * ghost operators  (owner, operator) ↦ live_until — set / dropped by accepted `approve_for_all`,
and checks the property's conclusion on the implementation's observations:
  * an accepted `transfer` / `burn` has `from` = current owner ∈ auth;
  * an accepted `transfer_from` / `burn_from` has spender ∈ auth, `from` = current owner, and the
    spender is the owner, or the ghost-approved account of that token with live_until ≥ ledger,
    or a ghost operator of the CURRENT owner with live_until ≥ ledger;
  * an accepted `approve` comes from the current owner or a live ghost operator of it, in auth;
    an accepted `approve_for_all` from the owner in auth;
  * after an accepted transfer / burn `get_approved(token)` is none;
  * every approval / operator the implementation reports is a live ghost one (nothing stale:
    expired, revoked, cleared or a previous owner's).

The core is proved sound in OZ/Props/C11Mon.lean (`monitor_accepts_every_model_trace`: silent on
every trace of the three models that observes the tokens it moves). NOT covered by that theorem,
string level only: the alarm `site=nft.parse` below (an op / observation line that does not parse)
and the parsers themselves.
-/
namespace OZ.Drv.C11
open OZ.Drv OZ.Drv.NftIO OZ.NftMon OZ.NftMon.Auth

def check (m : Mon) (opl obs : String) : Mon × Option String :=
  match parseObs obs, parseLine opl with
  | some o, some l => checkCore m l o
  | _, _ => (m, some s!"site=nft.parse unparsable line {obs}")

def machine : Machine where
  σ := M
  init := initM
  op := stepLine
  μ := Mon
  minit := fun _ => Auth.init
  mon := check

end OZ.Drv.C11

def main : IO Unit := OZ.Drv.run OZ.Drv.C11.machine
