import OZ.Drv.FungibleIO
/-
Driver for C01 (fungible supply conservation). Model = OZ.Fungible (`FungibleIO.stepLine`). The
monitor evaluates the property's conclusion directly on the implementation's observations:
  Σ balances = total_supply, balances ≥ 0, supply moves by exactly ±amount on mint/burn and
  not at all otherwise, a failed call changes nothing, and the replay of the emitted
  mint/burn/transfer events from genesis reproduces every balance.

This file only parses (`parseLine`, `parseObs`, `minit`) and calls the monitor core
`OZ.FungibleMon.Supply.checkCore` (OZ/Model/FungibleMon.lean), which OZ/Props/C01Mon.lean proves
sound (it reports nothing on any observation sequence of the model).
Not covered by that theorem (string level, kept here): `site=fungible.parse` for an observation
line that does not parse.
-/
namespace OZ.Drv.C01
open OZ.Drv OZ.Drv.FungibleIO OZ.Fungible OZ.FungibleMon OZ.FungibleMon.Supply

/-- the size of the observed universe comes from the sequence label (`n=<k>`, default 5), as on
the model side (`FungibleIO.initM`) -/
def minit (label : String) : Mon := { prev := none, replay := List.replicate (labelN label) 0, n := labelN label }

def check (m : Mon) (opl obs : String) : Mon × Option String :=
  match parseObs obs with
  | none => (m, some s!"site=fungible.parse unparsable observation {obs}")
  | some o => checkCore m (parseLine opl) o

def machine : Machine where
  σ := M
  init := initM
  op := stepLine
  μ := Mon
  minit := minit
  mon := check

end OZ.Drv.C01

def main : IO Unit := OZ.Drv.run OZ.Drv.C01.machine
