import OZ.Drv.FungibleIO
/-
Driver for C01 (fungible supply conservation). Model = OZ.Fungible; the monitor evaluates
the property's conclusion directly on the implementation's observations:
  Σ balances = total_supply, balances ≥ 0, supply moves by exactly ±amount on mint/burn and
  not at all otherwise, a failed call changes nothing, and the replay of the emitted
  mint/burn/transfer events from genesis reproduces every balance.
-/
namespace OZ.Drv.C01
open OZ.Drv OZ.Drv.FungibleIO OZ.Fungible

structure Mon where
  prev : Option Obs
  replay : List Int            -- balances reconstructed from events

def zeroObs : Obs := { ok := true, sup := 0, bal := List.replicate N 0, allow := [], now := 0, evs := [], dem := [] }

def addAt (l : List Int) (i : Nat) (d : Int) : List Int := l.mapIdx (fun j x => if j = i then x + d else x)

def replayEv (b : List Int) (ev : List String) : List Int :=
  match ev with
  | ["mint", t, a] => match t.toNat?, a.toInt? with | some t, some a => addAt b t a | _, _ => b
  | ["burn", f, a] => match f.toNat?, a.toInt? with | some f, some a => addAt b f (-a) | _, _ => b
  | ["transfer", f, t, a] =>
    match f.toNat?, t.toNat?, a.toInt? with
    | some f, some t, some a => addAt (addAt b f (-a)) t a
    | _, _, _ => b
  | _ => b

def check (m : Mon) (opl obs : String) : Mon × Option String :=
  match parseObs obs with
  | none => (m, some s!"site=fungible.parse unparsable observation {obs}")
  | some o =>
    let prev := m.prev.getD zeroObs
    let ws := words opl
    let kind := (ws.drop 1).head?.getD ""
    let amt := (kvInt? ws "amt").getD 0
    let replay' := o.evs.foldl replayEv m.replay
    let m' : Mon := { prev := some o, replay := replay' }
    let fail : Option String :=
      if o.bal.sum ≠ o.sup then some s!"site=fungible.sum total_supply={o.sup} but balances sum to {o.bal.sum}"
      else if o.bal.any (· < 0) then some "site=fungible.negative a balance is negative"
      else if ¬ o.ok ∧ (o.sup ≠ prev.sup ∨ o.bal ≠ prev.bal ∨ o.allow ≠ prev.allow) then
        some "site=fungible.rollback a failed call changed supply, a balance or an allowance"
      else if o.ok ∧ kind = "mint" ∧ o.sup ≠ prev.sup + amt then some "site=fungible.mint supply not +amount"
      else if o.ok ∧ (kind = "burn" ∨ kind = "burn_from") ∧ o.sup ≠ prev.sup - amt then
        some "site=fungible.burn supply not -amount"
      else if o.ok ∧ (kind = "transfer" ∨ kind = "transfer_from" ∨ kind = "approve" ∨ kind = "advance")
          ∧ o.sup ≠ prev.sup then some s!"site=fungible.{kind} supply changed"
      else if replay' ≠ o.bal then some s!"site=fungible.replay event replay gives {replay'} but balances are {o.bal}"
      else none
    (m', fail)

def machine : Machine where
  σ := M
  init := initM
  op := stepLine
  μ := Mon
  minit := fun _ => { prev := none, replay := List.replicate N 0 }
  mon := check

end OZ.Drv.C01

def main : IO Unit := OZ.Drv.run OZ.Drv.C01.machine
