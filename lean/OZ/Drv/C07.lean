import OZ.DrvUtil
import OZ.Model.RoleTransfer
/-
Driver for C07 (two-step hand-over of owner / admin).

Sequence label:  `... kind=owner|admin min_temp=<n> max_ttl=<n> start=<ledger> holder=<addr>`
Op lines:        `rt offer new=<a> lu=<ledger> auth=<a,b,..|->`   (lu=0 cancels)
                 `rt accept auth=..`   `rt renounce auth=..`   `rt guarded auth=..`   `rt advance n=<k>`
Observation:     `ok|err holder=<a|-> pend=<a|-> now=<ledger> ev=<events|->`
  `pend` is what a non-committing accept attempt with everybody authorizing reveals at the
  current ledger (the account that would become holder), i.e. the pending account as seen
  through accept behaviour only.

`op` runs the model (OZ.RoleTransfer.apply). `mon` never does: it keeps the ghost log of
offers (OZ.RoleTransfer.ghostStep, fed with the IMPLEMENTATION's outcomes) and evaluates the
conclusions of Props/C07 on the implementation's observations.
-/
namespace OZ.Drv.C07
open OZ.Drv OZ.RoleTransfer OZ.Host

structure M where
  cfg : Cfg
  f : Flavor
  s : State

def parseFlavor (ws : List String) : Flavor := if kv? ws "kind" = some "admin" then .admin else .owner

def parseCfg (ws : List String) : Cfg := ⟨(kvNat? ws "min_temp").getD 1, (kvNat? ws "max_ttl").getD 200000⟩

def parseHolder (ws : List String) : Option Nat := (kv? ws "holder").bind String.toNat?

def initM (label : String) : M :=
  let ws := words label
  { cfg := parseCfg ws, f := parseFlavor ws, s := init (parseHolder ws) ((kvNat? ws "start").getD 100) }

def parseOp (ws : List String) : Option (List Nat × Op) :=
  match ws with
  | "rt" :: kind :: rest =>
    let auth := natList ((kv? rest "auth").getD "-")
    match kind with
    | "offer" => do
      let new ← kvNat? rest "new"
      let lu ← kvNat? rest "lu"
      pure (auth, .offer new lu)
    | "accept" => some (auth, .accept)
    | "renounce" => some (auth, .renounce)
    | "guarded" => some (auth, .guarded)
    | "advance" => do
      let n ← kvNat? rest "n"
      pure ([], .advance n)
    | _ => none
  | _ => none

def showOpt (o : Option Nat) : String := match o with | some a => toString a | none => "-"

def showEvent : Event → String
  | .initiated o n lu => s!"xfer:{o}:{n}:{lu}"
  | .completed n p => s!"done:{n}:{showOpt p}"
  | .renounced o => s!"renounced:{o}"

/-- the account a successful accept would install right now (model side of `pend=`) -/
def pendNow (f : Flavor) (s : State) : Option Nat :=
  match f, s.holder with
  | .admin, none => none
  | _, _ => Temp.get? s.pending s.now

def showState (f : Flavor) (s : State) : String :=
  s!"holder={showOpt s.holder} pend={showOpt (pendNow f s)} now={s.now}"

def stepLine (m : M) (line : String) : M × String :=
  match parseOp (words line) with
  | none => (m, "bad-op")
  | some (auth, op) =>
    match apply m.cfg m.f m.s auth op with
    | .ok s' =>
      let evs := s'.events.drop m.s.events.length
      ({ m with s := s' }, s!"ok {showState m.f s'} ev={if evs.isEmpty then "-" else ";".intercalate (evs.map showEvent)}")
    | .error _ => (m, s!"err {showState m.f m.s} ev=-")

/-! ### monitor -/

structure Obs where
  ok : Bool
  holder : Option Nat
  pend : Option Nat
  now : Nat

def parseObs (line : String) : Option Obs :=
  match words line with
  | tag :: rest => do
    let h ← kv? rest "holder"
    let p ← kv? rest "pend"
    let now ← kvNat? rest "now"
    pure { ok := tag = "ok", holder := h.toNat?, pend := p.toNat?, now }
  | _ => none

structure Mon where
  cfg : Cfg
  g : Option Offer            -- ghost: the open offer according to the log of accepted calls
  holder : Option Nat         -- holder observed after the previous call
  now : Nat
  pend : Option Nat

def minit (label : String) : Mon :=
  let ws := words label
  { cfg := parseCfg ws, g := none, holder := parseHolder ws, now := (kvNat? ws "start").getD 100, pend := none }

def holderIn (h : Option Nat) (auth : List Nat) : Bool :=
  match h with | some a => auth.contains a | none => false

/-- is the ghost offer open and within its acceptance window at ledger `now`? -/
def openAt (c : Cfg) (g : Option Offer) (now : Nat) : Bool :=
  match g with | some o => decide (now ≤ deadline c o) | none => false

/-- is the ghost offer open and has its live_until_ledger not passed at ledger `now`? -/
def liveAt (g : Option Offer) (now : Nat) : Bool :=
  match g with | some o => decide (now ≤ o.lu) | none => false

/-- the property's conclusion for one accepted / rejected call, on observed values only -/
def verdict (m : Mon) (auth : List Nat) (op : Op) (o : Obs) : Option String :=
  if ¬ o.ok then
    if o.holder ≠ m.holder then some s!"site=rt.rollback a rejected call changed the holder {showOpt m.holder} -> {showOpt o.holder}"
    else if o.pend ≠ m.pend then some "site=rt.rollback a rejected call changed what accept would do"
    else match op with
      | .guarded => if holderIn m.holder auth then some "site=rt.guarded.lost-control the holder authorized but was refused" else none
      | _ => none
  else
    match op with
    | .accept =>
      match m.g with
      | none => some "site=rt.accept.no-offer accept succeeded although no offer is open (never made, cancelled or already accepted)"
      | some off =>
        if ¬ auth.contains off.acct then some s!"site=rt.accept.unauthorized accept succeeded without the authorization of the invited account {off.acct}"
        else if o.holder ≠ some off.acct then some s!"site=rt.accept.wrong-account the latest offer invites {off.acct} but the holder became {showOpt o.holder}"
        else if ¬ holderIn off.holderThen off.auth then some "site=rt.accept.offer-unauthorized the accepted offer was not authorized by the then-holder"
        else if off.holderThen ≠ m.holder then some "site=rt.accept.stale-holder the holder changed between offer and accept"
        else if m.now > deadline m.cfg off then
          some s!"site=rt.accept.expired accept succeeded at ledger {m.now} for an offer made at {off.madeAt} with live_until_ledger {off.lu} (last acceptable ledger {deadline m.cfg off})"
        else none
    | .renounce =>
      if ¬ holderIn m.holder auth then some "site=rt.renounce.unauthorized renounce succeeded without the holder's authorization"
      else if o.holder ≠ none then some "site=rt.renounce.noop renounce succeeded but a holder remains"
      else if liveAt m.g m.now then
        some "site=rt.renounce.pending renounce succeeded while an offer is pending and live"
      else none
    | .offer new lu =>
      if o.holder ≠ m.holder then some s!"site=rt.holder.changed the holder changed {showOpt m.holder} -> {showOpt o.holder} by an offer"
      else if ¬ holderIn m.holder auth then some "site=rt.offer.unauthorized an offer / cancellation succeeded without the holder's authorization"
      else if lu = 0 then
        match m.g with
        | none => some "site=rt.cancel.no-offer a cancellation succeeded although no offer is open"
        | some off => if off.acct ≠ new then some "site=rt.cancel.wrong-account a cancellation naming another account succeeded" else none
      else if lu < m.now ∨ lu > m.cfg.maxLiveUntil m.now then some s!"site=rt.offer.bounds offer with live_until_ledger {lu} accepted at ledger {m.now}"
      else none
    | .guarded =>
      if o.holder ≠ m.holder then some "site=rt.holder.changed the holder changed by a guarded call"
      else if ¬ holderIn m.holder auth then some "site=rt.guarded.unauthorized a holder-only function ran without the holder's authorization"
      else none
    | .advance _ =>
      -- nothing that must persist may change while nobody touches the contract
      if o.holder ≠ m.holder then
        some s!"site=rt.idle.changed the holder changed {showOpt m.holder} -> {showOpt o.holder} by the mere passage of time (ledger {m.now} -> {o.now})"
      else none

def check (m : Mon) (opl obs : String) : Mon × Option String :=
  match parseOp (words opl), parseObs obs with
  | some (auth, op), some o =>
    let v := verdict m auth op o
    let g' := ghostStep m.g m.holder m.now auth op o.ok
    -- what accept WOULD do now must be covered by an open, live offer to that account
    let v := match v with
      | some x => some x
      | none =>
        match o.pend with
        | none => none
        | some p =>
          match g' with
          | none => some s!"site=rt.probe.no-offer account {p} could accept at ledger {o.now} although no offer is open"
          | some off =>
            if off.acct ≠ p then some s!"site=rt.probe.wrong-account account {p} could accept but the open offer invites {off.acct}"
            else if o.now > deadline m.cfg off then
              some s!"site=rt.probe.expired account {p} could still accept at ledger {o.now}: offer made at {off.madeAt} with live_until_ledger {off.lu} (last acceptable ledger {deadline m.cfg off})"
            else none
    ({ m with g := g', holder := o.holder, now := o.now, pend := o.pend }, v)
  | _, _ => (m, some s!"site=rt.parse unparsable op/observation: {opl} / {obs}")

def machine : Machine where
  σ := M
  init := initM
  op := stepLine
  μ := Mon
  minit := minit
  mon := check

end OZ.Drv.C07

def main : IO Unit := OZ.Drv.run OZ.Drv.C07.machine
