import OZ.DrvUtil
import OZ.Model.RoleTransferMon
/-
Driver for C07 (two-step hand-over of owner / admin).

Sequence label:  `... kind=owner|admin min_temp=<n> max_ttl=<n> start=<ledger> holder=<addr>`
Op lines:        `rt offer new=<a> lu=<ledger> auth=<a,b,..|->`   (lu=0 cancels)
                 `rt accept auth=..`   `rt renounce auth=..`   `rt guarded auth=..`   `rt advance n=<k>`
Observation:     `ok|err holder=<a|-> pend=<a|-> now=<ledger> ev=<events|->`
  `pend` is what a non-committing accept attempt with everybody authorizing reveals at the
  current ledger (the account that would become holder), i.e. the pending account as seen
  through accept behaviour only.

`op` runs the model (OZ.RoleTransfer.apply). `mon` never does: it keeps the ghost log of
offers (OZ.RoleTransfer.ghostStep, fed with the IMPLEMENTATION's outcomes) and evaluates the
conclusions of Props/C07 on the implementation's observations.
-/
namespace OZ.Drv.C07
open OZ.Drv OZ.RoleTransfer OZ.RoleTransfer.Mon OZ.Host

structure M where
  cfg : Cfg
  f : Flavor
  s : State

def parseFlavor (ws : List String) : Flavor := if kv? ws "kind" = some "admin" then .admin else .owner

def parseCfg (ws : List String) : Cfg := ⟨(kvNat? ws "min_temp").getD 1, (kvNat? ws "max_ttl").getD 200000⟩

def parseHolder (ws : List String) : Option Nat := (kv? ws "holder").bind String.toNat?

def initM (label : String) : M :=
  let ws := words label
  { cfg := parseCfg ws, f := parseFlavor ws, s := init (parseHolder ws) ((kvNat? ws "start").getD 100) }

def parseOp (ws : List String) : Option (List Nat × Op) :=
  match ws with
  | "rt" :: kind :: rest =>
    let auth := natList ((kv? rest "auth").getD "-")
    match kind with
    | "offer" => do
      let new ← kvNat? rest "new"
      let lu ← kvNat? rest "lu"
      pure (auth, .offer new lu)
    | "accept" => some (auth, .accept)
    | "renounce" => some (auth, .renounce)
    | "guarded" => some (auth, .guarded)
    | "advance" => do
      let n ← kvNat? rest "n"
      pure ([], .advance n)
    | _ => none
  | _ => none

def showEvent : Event → String
  | .initiated o n lu => s!"xfer:{o}:{n}:{lu}"
  | .completed n p => s!"done:{n}:{showOpt p}"
  | .renounced o => s!"renounced:{o}"

def showState (f : Flavor) (s : State) : String :=
  s!"holder={showOpt s.holder} pend={showOpt (pendNow f s)} now={s.now}"

def stepLine (m : M) (line : String) : M × String :=
  match parseOp (words line) with
  | none => (m, "bad-op")
  | some (auth, op) =>
    match apply m.cfg m.f m.s auth op with
    | .ok s' =>
      let evs := s'.events.drop m.s.events.length
      ({ m with s := s' }, s!"ok {showState m.f s'} ev={if evs.isEmpty then "-" else ";".intercalate (evs.map showEvent)}")
    | .error _ => (m, s!"err {showState m.f m.s} ev=-")

/-! ### monitor -/

def parseObs (line : String) : Option Obs :=
  match words line with
  | tag :: rest => do
    let h ← kv? rest "holder"
    let p ← kv? rest "pend"
    let now ← kvNat? rest "now"
    pure { ok := tag = "ok", holder := h.toNat?, pend := p.toNat?, now }
  | _ => none

def minit (label : String) : Mon :=
  let ws := words label
  { cfg := parseCfg ws, g := none, holder := parseHolder ws, now := (kvNat? ws "start").getD 100, pend := none }

def check (m : Mon) (opl obs : String) : Mon × Option String :=
  match parseOp (words opl), parseObs obs with
  | some (auth, op), some o => checkCore m auth op o
  | _, _ => (m, some s!"site=rt.parse unparsable op/observation: {opl} / {obs}")

def machine : Machine where
  σ := M
  init := initM
  op := stepLine
  μ := Mon
  minit := minit
  mon := check

end OZ.Drv.C07

def main : IO Unit := OZ.Drv.run OZ.Drv.C07.machine
