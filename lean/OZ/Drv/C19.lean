import OZ.DrvUtil
import OZ.Model.FeeForwarder
/-
Driver for C19 (fee forwarding). `op`: parse an `ff …` op line, run the MODEL
(OZ.FeeForwarder), print the model's observation in the harness's format. `mon`: the
property's conclusion evaluated directly on the IMPLEMENTATION's observation lines (own
ghost state only: previous observation and the set of allowed tokens; it never calls the
model's transition functions).

Address universe (fixed by harness/src/bin/c19.rs): 0..5 accounts (0 admin, 1 manager,
2 and 3 executors), 6 the forwarder, 7 the target contract, 8..11 fee tokens.
-/
namespace OZ.Drv.C19
open OZ.Drv OZ.Host OZ.FeeForwarder

def FWD : Nat := 6
def TGT : Nat := 7
def TOK0 : Nat := 8
def NTOK : Nat := 4
def NHOLD : Nat := 8
def MAX_TTL : Nat := 6312000

def fnNames : List String := ["?", "ping", "add", "add2", "boom", "uadd", "nofn", "transfer", "balance"]

def fnId (n : String) : Nat := if n = "approve" then FN_APPROVE else (fnNames.findIdx? (· = n)).getD 0
def fnName (i : Nat) : String := if i = FN_APPROVE then "approve" else fnNames.getD i "?"

def parseVal (w : String) : Option Val :=
  let rest := (w.drop 1).toString
  if w.startsWith "a" then rest.toNat?.map Val.addr
  else if w.startsWith "i" then rest.toInt?.map Val.i128
  else if w.startsWith "u" then rest.toNat?.map Val.u32
  else none

def parseVals (s : String) : List Val := if s = "-" ∨ s = "" then [] else (s.splitOn ",").filterMap parseVal

def showVal : Val → String
  | .addr a => s!"a{a}"
  | .i128 v => s!"i{v}"
  | .u32 n => s!"u{n}"

def showVals (sep : String) (l : List Val) : String := if l.isEmpty then "-" else sep.intercalate (l.map showVal)

structure M where
  p : Params
  s : State
  var : String

def initM (label : String) : M :=
  let ws := words label
  let mt := (kvNat? ws "min_temp").getD 16
  let st := (kvNat? ws "start").getD 100
  let mx := (kvNat? ws "max_ttl").getD MAX_TTL
  { p := { cfg := ⟨mt, mx⟩, self := FWD, managers := [1], executors := [2, 3] }, s := init st,
    var := (kv? ws "v").getD "pl" }

/-- one parsed op line: the authorization, the op, and how to print `dem=` on success -/
structure Parsed where
  au : Auth
  op : Op

def parseInv (t : String) : Option Inv :=
  match t.splitOn ":" with
  | [c, f, a] => do pure ⟨← c.toNat?, fnId f, parseVals a⟩
  | _ => none

def parseUserAuth (ws : List String) : Option UserAuth := do
  let signer ← kvNat? ws "uas"
  let t ← kv? ws "uat"
  match t.splitOn ":" with
  | [tok, mx, ex, tg, f, a] =>
    let subsS := (kv? ws "usub").getD "-"
    let subs := if subsS = "-" then [] else (subsS.splitOn ";").filterMap parseInv
    pure { signer, tuple := ⟨← tok.toNat?, ← mx.toInt?, ← ex.toNat?, ← tg.toNat?, fnId f, parseVals a⟩, subs }
  | _ => none

def everyone : List Nat := List.range 12

def parseTarget (s : String) : Target := if s = "ok" then .ok else if s = "user" then .needsUser else .fail

def parseOp (m : M) (ws : List String) : Option Parsed :=
  match ws with
  | "ff" :: "mint" :: r => do
    pure ⟨⟨[], none⟩, .mint (← kvNat? r "tok") (← kvNat? r "to") (← kvInt? r "amt")⟩
  | "ff" :: "approve" :: r => do
    pure ⟨⟨natList ((kv? r "auth").getD "-"), none⟩,
      .approve (← kvNat? r "tok") (← kvNat? r "owner") (← kvNat? r "sp") (← kvInt? r "amt") (← kvNat? r "lu")⟩
  | "ff" :: "advance" :: r => do pure ⟨⟨[], none⟩, .advance (← kvNat? r "n")⟩
  | "ff" :: "forward" :: r => do
    let c : Call := { token := ← kvNat? r "tok", fee := ← kvInt? r "fee", maxFee := ← kvInt? r "max",
                      expiration := ← kvNat? r "exp", target := ← kvNat? r "target",
                      fn := fnId (← kv? r "fn"), args := parseVals (← kv? r "args") }
    let user ← kvNat? r "user"
    let rel ← kvNat? r "rel"
    let tgt := parseTarget ((kv? r "tgt").getD "fail")
    let all := (kv? r "mode") = some "all"
    let au : Auth :=
      if all then
        -- recording mode: every demanded authorization is granted
        { plain := everyone,
          user := some { signer := user, tuple := tupleOf c,
                         subs := [approveInv m.p c.token user c.maxFee c.expiration, targetInv c] } }
      else { plain := natList ((kv? r "auth").getD "-"), user := parseUserAuth r }
    let op : Op :=
      if m.var = "pl" then .forwardPL c user rel tgt
      else if m.var = "pd" then .forwardPD c user rel tgt
      else .forwardLib c user rel (if (kv? r "eager") = some "1" then .eager else .lazy) tgt
    pure ⟨au, op⟩
  | "ff" :: "allow" :: r => do
    let all := (kv? r "mode") = some "all"
    let au : Auth := ⟨if all then everyone else natList ((kv? r "auth").getD "-"), none⟩
    let tok ← kvNat? r "tok"
    let allowed := (kv? r "allowed") = some "1"
    if m.var = "pd" then pure ⟨au, .setAllowedPD tok (← kvNat? r "op") allowed⟩
    else if m.var = "lib" then pure ⟨au, .setAllowedLib tok allowed⟩
    else none
  | "ff" :: "sweep" :: r => do
    let all := (kv? r "mode") = some "all"
    let au : Auth := ⟨if all then everyone else natList ((kv? r "auth").getD "-"), none⟩
    let tok ← kvNat? r "tok"
    let to ← kvNat? r "to"
    if m.var = "pd" then pure ⟨au, .sweepPD tok to (← kvNat? r "op")⟩
    else if m.var = "lib" then pure ⟨au, .sweepLib tok to⟩
    else none
  | _ => none

/-! ### printing the model's observation -/

def showOptNat : Option Nat → String
  | some n => toString n
  | none => "_"

def showAl (al : AllowList) : String :=
  let n := min (al.count + 2) (NTOK + 2)
  let at_ := (List.range n).map (fun i => showOptNat (al.tokenAt i))
  let toks := (List.range NTOK).map (· + TOK0)
  let idx := toks.map (fun t => showOptNat (al.indexOf t))
  let allowed := toks.map (fun t => if isAllowedFeeToken al t then "1" else "0")
  s!"{al.count}|{",".intercalate at_}|{",".intercalate idx}|{"".intercalate allowed}|{if allowlistEnabled al then 1 else 0}"

def showTok (s : State) (t : Nat) : String :=
  let ts := tokAt s t
  let b := (List.range NHOLD).map (fun i => toString (ts.bal i))
  let a := (List.range NHOLD).map (fun i => toString (OZ.Fungible.allowance ts i FWD))
  s!"t{t}={",".intercalate b}|{",".intercalate a}"

def showInvArgs (i : Inv) : String := s!"{i.contract}:{fnName i.fn}:{showVals "," i.args}"

def showCalls (s : State) : String :=
  match s.calls.getLast? with
  | some i => s!"{s.calls.length}:{fnName i.fn}:{showVals "," i.args}"
  | none => "0:-:-"

def showTokEvent (t : Nat) : OZ.Fungible.Event → String
  | .mint to a => s!"mint:{t}:{to}:{a}"
  | .burn f a => s!"burn:{t}:{f}:{a}"
  | .transfer f to a => s!"transfer:{t}:{f}:{to}:{a}"
  | .approve o sp a lu => s!"approve:{t}:{o}:{sp}:{a}:{lu}"

def showVec (l : List Val) : String := s!"[{showVals "+" l}]"

def showEvent : Event → String
  | .feeCollected u r t a => s!"fee:{u}:{r}:{t}:{a}"
  | .forwardExecuted u tg f a => s!"fwd:{u}:{tg}:s{fnName f}:{showVec a}"
  | .allowlistUpdated t a => s!"al:{t}:b{if a then 1 else 0}"
  | .tokensSwept t r a => s!"swept:{t}:{r}:{a}"

def showEvents (s s' : State) : String :=
  let toks := (List.range NTOK).map (· + TOK0)
  let te := toks.flatMap (fun t => (((s'.toks t).events.drop (s.toks t).events.length).map (showTokEvent t)))
  let fe := (s'.events.drop s.events.length).map showEvent
  let all := te ++ fe
  if all.isEmpty then "-" else ";".intercalate all

def showState (s : State) : String :=
  let toks := (List.range NTOK).map (fun k => showTok s (k + TOK0))
  s!"now={s.now} al={showAl s.al} {" ".intercalate toks} calls={showCalls s}"

def sortStrs (l : List String) : List String := l.mergeSort (fun a b => decide (a ≤ b))

def callArgs (c : Call) : String :=
  s!"a{c.token},i{c.fee},i{c.maxFee},u{c.expiration},a{c.target},s{fnName c.fn},{showVec c.args}"

def tupleArgs (c : Call) : String :=
  s!"a{c.token},i{c.maxFee},u{c.expiration},a{c.target},s{fnName c.fn},{showVec c.args}"

def userEntry (user : Nat) (c : Call) (subs : List Inv) : String :=
  let root := s!"{user}@{FWD}:forward:{tupleArgs c}"
  if subs.isEmpty then root else root ++ "{" ++ "|".intercalate (subs.map showInvArgs) ++ "}"

/-- the authorizations a successful op consumed (`env.auths()` of the real host), from the
model's `usedSubs` evaluated in the state BEFORE the op -/
def showDem (m : M) (op : Op) : String :=
  match op with
  | .mint .. => "-"
  | .advance _ => "-"
  | .approve tok o sp a lu => s!"{o}@{tok}:approve:a{o},a{sp},i{a},u{lu}"
  | .forwardPL c u r tgt =>
    ";".intercalate (sortStrs [s!"{r}@{FWD}:forward:{callArgs c},a{u},a{r}",
      userEntry u c (usedSubs m.p m.s c u .eager tgt)])
  | .forwardPD c u r tgt =>
    ";".intercalate (sortStrs [s!"{r}@{FWD}:forward:{callArgs c},a{u},a{r}",
      userEntry u c (usedSubs m.p m.s c u .lazy tgt)])
  | .forwardLib c u _ ap tgt => userEntry u c (usedSubs m.p m.s c u ap tgt)
  | .setAllowedPD tok o a => s!"{o}@{FWD}:{if a then "enable_fee_token" else "disable_fee_token"}:a{tok},a{o}"
  | .sweepPD tok r o => s!"{o}@{FWD}:sweep_tokens:a{tok},a{r},a{o}"
  | .setAllowedLib .. => "-"
  | .sweepLib .. => "-"

def stepLine (m : M) (line : String) : M × String :=
  match parseOp m (words line) with
  | none => (m, s!"err {showState m.s} ev=- dem=-")
  | some ⟨au, op⟩ =>
    match apply m.p m.s au op with
    | .ok s' => ({ m with s := s' }, s!"ok {showState s'} ev={showEvents m.s s'} dem={showDem m op}")
    | .error _ => (m, s!"err {showState m.s} ev=- dem=-")

/-! ### the monitor: the property evaluated on the implementation's observations -/

structure TokObs where
  bal : List Int
  allow : List Int
  deriving Repr, BEq

structure Obs where
  ok : Bool
  now : Nat
  alCount : Nat
  alAt : List String
  alIdx : List String
  alAllowed : String
  alEnabled : String
  alRaw : String
  toks : List TokObs          -- tokens 8..11
  callsN : Nat
  callsFn : String
  callsArgs : String
  dem : String

def parseTokObs (s : String) : Option TokObs :=
  match s.splitOn "|" with
  | [b, a] => some ⟨intList b, intList a⟩
  | _ => none

def parseObs (line : String) : Option Obs :=
  match words line with
  | tag :: r => do
    let now ← kvNat? r "now"
    let alRaw ← kv? r "al"
    let toks ← (List.range NTOK).mapM (fun k => (kv? r s!"t{k + TOK0}").bind parseTokObs)
    let calls ← kv? r "calls"
    match alRaw.splitOn "|", calls.splitOn ":" with
    | [cnt, at_, idx, allowed, en], [n, f, a] =>
      pure { ok := tag = "ok", now, alCount := ← cnt.toNat?, alAt := at_.splitOn ",", alIdx := idx.splitOn ",",
             alAllowed := allowed, alEnabled := en, alRaw, toks, callsN := ← n.toNat?, callsFn := f, callsArgs := a,
             dem := (kv? r "dem").getD "-" }
    | _, _ => none
  | _ => none

structure Mon where
  prev : Option Obs
  allowed : List Nat         -- ghost: tokens allowed and not since removed, in order of the accepted ops
  var : String

def zeroTok : TokObs := ⟨List.replicate NHOLD 0, List.replicate NHOLD 0⟩

/-- the allow-list getters must describe exactly the ghost set, with gap-free indices -/
def checkAllowlist (ghost : List Nat) (o : Obs) : Option String :=
  let n := ghost.length
  let live := o.alAt.take n
  let dead := o.alAt.drop n
  let liveNats := live.filterMap String.toNat?
  let toks := (List.range NTOK).map (· + TOK0)
  if o.alCount ≠ n then some s!"site=ff.allowlist.count count={o.alCount} but {n} tokens are allowed"
  else if liveNats.length ≠ n ∨ ¬ liveNats.Nodup ∨ liveNats.any (fun t => ¬ ghost.contains t) then
    some s!"site=ff.allowlist.enumeration entries 0..count-1 are {live} but the allowed set is {ghost}"
  else if dead.any (· ≠ "_") then some s!"site=ff.allowlist.stale an entry at index >= count exists: {o.alAt}"
  else if (toks.zip o.alIdx).any (fun (t, ix) =>
      if ghost.contains t then (match ix.toNat? with | some i => o.alAt.getD i "_" ≠ toString t | none => true)
      else ix ≠ "_") then
    some s!"site=ff.allowlist.index index map {o.alIdx} is not the inverse of the enumeration {o.alAt}"
  else if o.alAllowed ≠ "".intercalate (toks.map (fun t => if n = 0 ∨ ghost.contains t then "1" else "0")) then
    some s!"site=ff.allowlist.accepted is_allowed_fee_token={o.alAllowed} but allowed set is {ghost}"
  else if o.alEnabled ≠ (if n = 0 then "0" else "1") then some "site=ff.allowlist.enabled wrong enabled flag"
  else none

def zeroObs : Obs :=
  { ok := true, now := 0, alCount := 0, alAt := ["_", "_"], alIdx := List.replicate NTOK "_"
    alAllowed := "1111", alEnabled := "0", alRaw := "0|_,_|_,_,_,_|1111|0"
    toks := List.replicate NTOK zeroTok, callsN := 0, callsFn := "-", callsArgs := "-", dem := "-" }

def nth (l : List Int) (i : Nat) : Int := l.getD i 0

def check (m : Mon) (opl obs : String) : Mon × Option String :=
  match parseObs obs with
  | none => (m, some s!"site=ff.parse unparsable observation {obs}")
  | some o =>
    let ws := words opl
    let kind := (ws.drop 1).head?.getD ""
    let prev : Obs := m.prev.getD zeroObs
    let exact := (kv? ws "mode") ≠ some "all"
    let auth := natList ((kv? ws "auth").getD "-")
    -- ghost allowed set: updated by ACCEPTED allow/disallow ops only
    let tokArg := (kvNat? ws "tok").getD 0
    let nAdv := (kvNat? ws "n").getD 0
    let ghost' : List Nat :=
      if o.ok ∧ kind = "allow" then
        (if (kv? ws "allowed") = some "1" then m.allowed ++ [tokArg] else m.allowed.filter (· ≠ tokArg))
      else m.allowed
    let m' : Mon := { m with prev := some o, allowed := ghost' }
    let unchangedToks := o.toks == prev.toks
    let fail : Option String :=
      if ¬ o.ok then
        (if o.alRaw ≠ prev.alRaw ∨ ¬ unchangedToks ∨ o.callsN ≠ prev.callsN ∨ o.callsFn ≠ prev.callsFn
            ∨ o.callsArgs ≠ prev.callsArgs then
          some "site=ff.rollback a rejected call changed the allow-list, a balance, an allowance or the target's call log"
        else checkAllowlist ghost' o)
      else if kind = "forward" then
        let user := (kvNat? ws "user").getD 0
        let rel := (kvNat? ws "rel").getD 0
        let fee := (kvInt? ws "fee").getD 0
        let mx := (kvInt? ws "max").getD 0
        let exp := (kvNat? ws "exp").getD 0
        let target := (kvNat? ws "target").getD 0
        let fn := (kv? ws "fn").getD "?"
        let args := (kv? ws "args").getD "-"
        let rcp := if m.var = "pd" then FWD else rel
        let k := tokArg - TOK0
        let pt := prev.toks.getD k zeroTok
        let nt := o.toks.getD k zeroTok
        let expectBal := (List.range NHOLD).map (fun h =>
          nth pt.bal h - (if h = user then fee else 0) + (if h = rcp then fee else 0))
        let vec := "[" ++ (if args = "-" then "-" else "+".intercalate (args.splitOn ",")) ++ "]"
        let tuple := s!"a{tokArg},i{mx},u{exp},a{target},s{fn},{vec}"
        let entries := o.dem.splitOn ";"
        let userRoot := s!"{user}@{FWD}:forward:{tuple}"
        let userEntries := entries.filter (fun en => en = userRoot ∨ en.startsWith (userRoot ++ "{"))
        let okSubs : List String := [s!"{tokArg}:approve:a{user},a{FWD},i{mx},u{exp}", s!"{target}:{fn}:{args}"]
        let subsOf (en : String) : List String :=
          match en.splitOn "{" with
          | [_, rest] => (rest.dropEnd 1).toString.splitOn "|"
          | _ => []
        let uasS := (kv? ws "uas").getD "-"
        let uatS := (kv? ws "uat").getD "-"
        let relRoot := s!"{rel}@{FWD}:forward:a{tokArg},i{fee},i{mx},u{exp},a{target},s{fn},{vec},a{user},a{rel}"
        if ¬ (0 < fee ∧ fee ≤ mx) then some s!"site=ff.bounds accepted with fee={fee} max={mx}"
        else if exp < o.now then some s!"site=ff.expired accepted with expiration {exp} < ledger {o.now}"
        else if user = FWD then some "site=ff.user-is-forwarder accepted with user = forwarder"
        else if tokArg < TOK0 ∨ tokArg ≥ TOK0 + NTOK then some "site=ff.token fee token is not a token"
        else if ¬ (m.allowed.isEmpty ∨ m.allowed.contains tokArg) then
          some s!"site=ff.token-not-allowed token {tokArg} accepted but allow-list is {m.allowed}"
        else if nt.bal ≠ expectBal then
          some s!"site=ff.charge balances of token {tokArg} are {nt.bal}, expected {expectBal} (user {user} -{fee}, recipient {rcp} +{fee})"
        else if (List.range NTOK).any (fun j => j ≠ k ∧ ¬ (o.toks.getD j zeroTok == prev.toks.getD j zeroTok)) then
          some "site=ff.other-token another token's balances or allowances moved"
        else if (List.range NHOLD).any (fun h => h ≠ user ∧ nth nt.allow h ≠ nth pt.allow h) then
          some "site=ff.allowance an allowance of somebody else changed"
        else if nth nt.allow user < 0 ∨ nth nt.allow user > max (nth pt.allow user) mx - fee then
          some s!"site=ff.allowance-exposure allowance user->forwarder is {nth nt.allow user}, was {nth pt.allow user}, max={mx} fee={fee}"
        else if o.callsN ≠ prev.callsN + 1 ∨ target ≠ TGT ∨ o.callsFn ≠ fn ∨ o.callsArgs ≠ args then
          some s!"site=ff.target-call target log {o.callsN}:{o.callsFn}:{o.callsArgs}, before {prev.callsN}; call was {target}.{fn}({args})"
        else if userEntries.length ≠ 1 then
          some s!"site=ff.user-auth the user's demanded authorization does not cover exactly ({tuple}): {o.dem}"
        else if userEntries.any (fun en => (subsOf en).any (fun sb => ¬ okSubs.contains sb)) then
          some s!"site=ff.user-auth-sub the user's authority was used for a foreign nested call: {o.dem}"
        else if m.var ≠ "lib" ∧ ¬ entries.contains relRoot then
          some s!"site=ff.relayer-auth the relayer's authorization was not demanded: {o.dem}"
        else if m.var = "pd" ∧ ¬ [2, 3].contains rel then some s!"site=ff.executor-role relayer {rel} is no executor"
        else if exact ∧ m.var ≠ "lib" ∧ ¬ auth.contains rel then some "site=ff.relayer-auth accepted without the relayer's authorization"
        else if exact ∧ ((kvNat? ws "uas") ≠ some user ∨ (kv? ws "uat") ≠ some s!"{tokArg}:{mx}:{exp}:{target}:{fn}:{args}") then
          some s!"site=ff.accepted-with-wrong-auth user signed uas={uasS} uat={uatS} but the call is user={user} ({tuple})"
        else checkAllowlist ghost' o
      else if o.callsN ≠ prev.callsN then some "site=ff.spurious-call the target was invoked by a non-forward operation"
      else if kind = "advance" ∧ (o.alRaw ≠ prev.alRaw ∨ o.toks.map (·.bal) ≠ prev.toks.map (·.bal)) then
        some s!"site=ff.idle.changed the mere passing of {nAdv} ledgers changed the allow-list getters ({prev.alRaw} -> {o.alRaw}) or a balance"
      else if kind = "allow" then
        let allowed := (kv? ws "allowed") = some "1"
        let oper := (kvNat? ws "op").getD 99
        if allowed ∧ m.allowed.contains tokArg then some s!"site=ff.allowlist.dup token {tokArg} allowed twice"
        else if ¬ allowed ∧ ¬ m.allowed.contains tokArg then some s!"site=ff.allowlist.absent token {tokArg} removed but was not allowed"
        else if m.var = "pd" ∧ (oper ≠ 1 ∨ (exact ∧ ¬ auth.contains oper)) then
          some "site=ff.allow-gate allow-list changed without the manager's authorization"
        else if ¬ unchangedToks then some "site=ff.allow-moved-tokens allow-list update moved tokens"
        else checkAllowlist ghost' o
      else if kind = "sweep" then
        let to := (kvNat? ws "to").getD 0
        let oper := (kvNat? ws "op").getD 99
        let k := tokArg - TOK0
        let pt := prev.toks.getD k zeroTok
        let nt := o.toks.getD k zeroTok
        let amt := nth pt.bal FWD
        let expectBal := (List.range NHOLD).map (fun h =>
          nth pt.bal h - (if h = FWD then amt else 0) + (if h = to then amt else 0))
        if amt = 0 then some "site=ff.sweep nothing to sweep but accepted"
        else if nt.bal ≠ expectBal then some s!"site=ff.sweep balances {nt.bal}, expected {expectBal}"
        else if m.var = "pd" ∧ (oper ≠ 1 ∨ (exact ∧ ¬ auth.contains oper)) then
          some "site=ff.sweep-gate swept without the manager's authorization"
        else checkAllowlist ghost' o
      else checkAllowlist ghost' o
    (m', fail)

def machine : Machine where
  σ := M
  init := initM
  op := stepLine
  μ := Mon
  minit := fun label => { prev := none, allowed := [], var := (kv? (words label) "v").getD "pl" }
  mon := check

end OZ.Drv.C19

def main : IO Unit := OZ.Drv.run OZ.Drv.C19.machine
