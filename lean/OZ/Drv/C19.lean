import OZ.DrvUtil
import OZ.Model.FeeForwarderMon
/-
Driver for C19 (fee forwarding). It only PARSES: `parseIn` an `ff …` op line, `parseObs` an
observation line. `op` runs the MODEL (`OZ.FeeForwarder.Mon.mstep` = `OZ.FeeForwarder.apply` on the
invocation the line stands for) and prints the model's observation in the harness's format. `mon`
calls `OZ.FeeForwarder.Mon.checkCore`: the property's conclusion evaluated directly on the
IMPLEMENTATION's observation lines (own ghost state only: previous observation and the set of
allowed tokens; it never calls the model's transition functions). `checkCore` is proved sound in
OZ/Props/C19Mon.lean (`monitor_accepts_every_model_trace`); it covers EVERY check of the monitor —
no string-level check remains in this file (the only message produced here is `site=ff.parse`).

Address universe (fixed by harness/src/bin/c19.rs): 0..5 accounts (0 admin, 1 manager,
2 and 3 executors), 6 the forwarder, 7 the target contract, 8..11 fee tokens.
-/
namespace OZ.Drv.C19
open OZ.Drv OZ.Host OZ.FeeForwarder OZ.FeeForwarder.Mon

def MAX_TTL : Nat := 6312000

def fnId (n : String) : Nat := if n = "approve" then FN_APPROVE else (fnNames.findIdx? (· = n)).getD 0

def parseVal (w : String) : Option Val :=
  let rest := (w.drop 1).toString
  if w.startsWith "a" then rest.toNat?.map Val.addr
  else if w.startsWith "i" then rest.toInt?.map Val.i128
  else if w.startsWith "u" then rest.toNat?.map Val.u32
  else none

def parseVals (s : String) : List Val := if s = "-" ∨ s = "" then [] else (s.splitOn ",").filterMap parseVal

structure M where
  p : Params
  s : State
  var : Var

def parseVar (label : String) : Var :=
  match (kv? (words label) "v").getD "pl" with
  | "pl" => .pl
  | "pd" => .pd
  | "lib" => .lib
  | _ => .other

def initM (label : String) : M :=
  let ws := words label
  let mt := (kvNat? ws "min_temp").getD 16
  let st := (kvNat? ws "start").getD 100
  let mx := (kvNat? ws "max_ttl").getD MAX_TTL
  { p := params ⟨mt, mx⟩, s := init st, var := parseVar label }

def parseInv (t : String) : Option Inv :=
  match t.splitOn ":" with
  | [c, f, a] => do pure ⟨← c.toNat?, fnId f, parseVals a⟩
  | _ => none

def parseUserAuth (ws : List String) : Option UserAuth := do
  let signer ← kvNat? ws "uas"
  let t ← kv? ws "uat"
  match t.splitOn ":" with
  | [tok, mx, ex, tg, f, a] =>
    let subsS := (kv? ws "usub").getD "-"
    let subs := if subsS = "-" then [] else (subsS.splitOn ";").filterMap parseInv
    pure { signer, tuple := ⟨← tok.toNat?, ← mx.toInt?, ← ex.toNat?, ← tg.toNat?, fnId f, parseVals a⟩, subs }
  | _ => none

def parseTarget (s : String) : Target := if s = "ok" then .ok else if s = "user" then .needsUser else .fail

/-- one op line with its fields parsed (`none`: not an `ff` line / a required field is missing) -/
def parseIn (ws : List String) : Option In :=
  match ws with
  | "ff" :: "mint" :: r => do
    pure (.mint (← kvNat? r "tok") (← kvNat? r "to") (← kvInt? r "amt"))
  | "ff" :: "approve" :: r => do
    pure (.approve (natList ((kv? r "auth").getD "-"))
      (← kvNat? r "tok") (← kvNat? r "owner") (← kvNat? r "sp") (← kvInt? r "amt") (← kvNat? r "lu"))
  | "ff" :: "advance" :: r => do pure (.advance (← kvNat? r "n"))
  | "ff" :: "forward" :: r => do
    let c : Call := { token := ← kvNat? r "tok", fee := ← kvInt? r "fee", maxFee := ← kvInt? r "max",
                      expiration := ← kvNat? r "exp", target := ← kvNat? r "target",
                      fn := fnId (← kv? r "fn"), args := parseVals (← kv? r "args") }
    let user ← kvNat? r "user"
    let rel ← kvNat? r "rel"
    pure (.forward ((kv? r "mode") = some "all") (natList ((kv? r "auth").getD "-")) (parseUserAuth r) c user rel
      (parseTarget ((kv? r "tgt").getD "fail")) ((kv? r "eager") = some "1")
      ((kv? r "uas").getD "-") ((kv? r "uat").getD "-"))
  | "ff" :: "allow" :: r => do
    pure (.allow ((kv? r "mode") = some "all") (natList ((kv? r "auth").getD "-")) (← kvNat? r "tok")
      (kvNat? r "op") ((kv? r "allowed") = some "1"))
  | "ff" :: "sweep" :: r => do
    pure (.sweep ((kv? r "mode") = some "all") (natList ((kv? r "auth").getD "-")) (← kvNat? r "tok")
      (← kvNat? r "to") (kvNat? r "op"))
  | _ => none

/-! ### printing the model's observation -/

def showTok (s : State) (t : Nat) : String :=
  let o := tokObs s t
  s!"t{t}={",".intercalate (o.bal.map toString)}|{",".intercalate (o.allow.map toString)}"

def showCalls (s : State) : String := s!"{s.calls.length}:{callsFnOf s}:{callsArgsOf s}"

def showTokEvent (t : Nat) : OZ.Fungible.Event → String
  | .mint to a => s!"mint:{t}:{to}:{a}"
  | .burn f a => s!"burn:{t}:{f}:{a}"
  | .transfer f to a => s!"transfer:{t}:{f}:{to}:{a}"
  | .approve o sp a lu => s!"approve:{t}:{o}:{sp}:{a}:{lu}"

def showEvent : Event → String
  | .feeCollected u r t a => s!"fee:{u}:{r}:{t}:{a}"
  | .forwardExecuted u tg f a => s!"fwd:{u}:{tg}:s{fnName f}:{showVec a}"
  | .allowlistUpdated t a => s!"al:{t}:b{if a then 1 else 0}"
  | .tokensSwept t r a => s!"swept:{t}:{r}:{a}"

def showEvents (s s' : State) : String :=
  let te := toks.flatMap (fun t => (((s'.toks t).events.drop (s.toks t).events.length).map (showTokEvent t)))
  let fe := (s'.events.drop s.events.length).map showEvent
  let all := te ++ fe
  if all.isEmpty then "-" else ";".intercalate all

/-- prints exactly the fields of `OZ.FeeForwarder.Mon.obsOf s` -/
def showState (s : State) : String :=
  s!"now={s.now} al={showAl s.al} {" ".intercalate (toks.map (showTok s))} calls={showCalls s}"

/-- model side: `mstep` on the parsed line; prints `obsOf` of the new state, the events of the call
and `showDem (modelDem …)` — i.e. `OZ.FeeForwarder.Mon.modelObs` (plus `ev=`, which the monitor does
not look at) -/
def stepLine (m : M) (line : String) : M × String :=
  let i := (parseIn (words line)).getD .bad
  let r := mstep m.p m.var m.s i
  if r.2 then ({ m with s := r.1 }, s!"ok {showState r.1} ev={showEvents m.s r.1} dem={showDem (modelDem m.p m.var m.s i)}")
  else (m, s!"err {showState m.s} ev=- dem=-")

/-! ### parsing an observation line for the monitor -/

def parseTokObs (s : String) : Option TokObs :=
  match s.splitOn "|" with
  | [b, a] => some ⟨intList b, intList a⟩
  | _ => none

/-- `_`, a canonically printed number, or junk -/
def parseCell (w : String) : Cell :=
  if w = "_" then .empty
  else match w.toNat? with
    | some n => if toString n = w then .num n else .junk w
    | none => .junk w

/-- `who@contract:fn:a,b,c{sub|sub}`; anything of another shape becomes an entry that equals no
expected one (`who = none`) -/
def parseEntry (en : String) : DemEntry :=
  let parts := en.splitOn "{"
  let head := parts.headD ""
  let subs := match parts with
    | [_, rest] => (rest.dropEnd 1).toString.splitOn "|"
    | _ => []
  let junk : DemEntry := { who := none, contract := head, fn := "", args := [], subs }
  match head.splitOn "@" with
  | [who, inv] =>
    match inv.splitOn ":" with
    | [c, f, a] => { who := who.toNat?.filter (fun n => toString n = who), contract := c, fn := f, args := a.splitOn ",", subs }
    | _ => junk
  | _ => junk

def parseDem (s : String) : List DemEntry := if s = "-" then [] else (s.splitOn ";").map parseEntry

def parseObs (line : String) : Option Obs :=
  match words line with
  | tag :: r => do
    let now ← kvNat? r "now"
    let alRaw ← kv? r "al"
    let toks ← (List.range NTOK).mapM (fun k => (kv? r s!"t{k + TOK0}").bind parseTokObs)
    let calls ← kv? r "calls"
    match alRaw.splitOn "|", calls.splitOn ":" with
    | [cnt, at_, idx, allowed, en], [n, f, a] =>
      let demRaw := (kv? r "dem").getD "-"
      pure { ok := tag = "ok", now, alCount := ← cnt.toNat?, alAt := (at_.splitOn ",").map parseCell,
             alIdx := (idx.splitOn ",").map parseCell, alAllowed := allowed, alEnabled := en, alRaw, toks,
             callsN := ← n.toNat?, callsFn := f, callsArgs := a, dem := parseDem demRaw, demRaw }
    | _, _ => none
  | _ => none

/-! ### the monitor: parse, then `checkCore` -/

def minit (label : String) : Mon := { prev := zeroObs, allowed := [], var := parseVar label }

def check (m : Mon) (opl obs : String) : Mon × Option String :=
  match parseObs obs with
  | none => (m, some s!"site=ff.parse unparsable observation {obs}")
  | some o => checkCore m ((parseIn (words opl)).getD .bad) o

def machine : Machine where
  σ := M
  init := initM
  op := stepLine
  μ := Mon
  minit := minit
  mon := check

end OZ.Drv.C19

def main : IO Unit := OZ.Drv.run OZ.Drv.C19.machine
