import OZ.Drv.C20Keys
import OZ.Drv.C20Topics
import OZ.Drv.C20Binder
import OZ.Drv.C20Docs
import OZ.Drv.C20Irs
import OZ.Drv.C20Claims
import OZ.Drv.C20Hooks
import OZ.Drv.C20Rules
/-
Driver for C20 (registries behave as the sets and maps they represent). One sub-machine per
registry; the first word of the sequence label selects it (`keys`, `topics`, `binder`, `docs`,
`irs`, `claims`, `hooks`, `rules`), every op line is prefixed with the same word.
`op` runs the MODEL (OZ.Model.Reg*); `mon` recomputes the plain set / map / relation from the
accepted operations only and compares every getter of the IMPLEMENTATION with it (it never
calls a model transition function).
-/
namespace OZ.Drv.C20
open OZ.Drv

inductive St where
  | none
  | keys (m : Keys.M)
  | topics (m : Topics.M)
  | binder (m : Binder.M)
  | docs (m : Docs.M)
  | irs (m : Irs.M)
  | claims (m : Claims.M)
  | hooks (m : Hooks.M)
  | rules (m : Rules.M)

inductive Mn where
  | none
  | keys (g : Keys.Mon)
  | topics (g : Topics.Mon)
  | binder (g : Binder.Mon)
  | docs (g : Docs.Mon)
  | irs (g : Irs.Mon)
  | claims (g : Claims.Mon)
  | hooks (g : Hooks.Mon)
  | rules (g : Rules.Mon)

def initSt (label : String) : St :=
  let ws := words label
  match ws.head? with
  | some "keys" => .keys (Keys.initM ws)
  | some "topics" => .topics (Topics.initM ws)
  | some "binder" => .binder (Binder.initM ws)
  | some "docs" => .docs (Docs.initM ws)
  | some "irs" => .irs (Irs.initM ws)
  | some "claims" => .claims (Claims.initM ws)
  | some "hooks" => .hooks (Hooks.initM ws)
  | some "rules" => .rules (Rules.initM ws)
  | _ => .none

def initMn (label : String) : Mn :=
  let ws := words label
  match ws.head? with
  | some "keys" => .keys (Keys.minit ws)
  | some "topics" => .topics (Topics.minit ws)
  | some "binder" => .binder (Binder.minit ws)
  | some "docs" => .docs (Docs.minit ws)
  | some "irs" => .irs (Irs.minit ws)
  | some "claims" => .claims (Claims.minit ws)
  | some "hooks" => .hooks (Hooks.minit ws)
  | some "rules" => .rules (Rules.minit ws)
  | _ => .none

def opSt (s : St) (line : String) : St × String :=
  match s with
  | .keys m => let (m', o) := Keys.stepLine m line; (.keys m', o)
  | .topics m => let (m', o) := Topics.stepLine m line; (.topics m', o)
  | .binder m => let (m', o) := Binder.stepLine m line; (.binder m', o)
  | .docs m => let (m', o) := Docs.stepLine m line; (.docs m', o)
  | .irs m => let (m', o) := Irs.stepLine m line; (.irs m', o)
  | .claims m => let (m', o) := Claims.stepLine m line; (.claims m', o)
  | .hooks m => let (m', o) := Hooks.stepLine m line; (.hooks m', o)
  | .rules m => let (m', o) := Rules.stepLine m line; (.rules m', o)
  | .none => (s, "no-registry")

def monMn (g : Mn) (opl obs : String) : Mn × Option String :=
  match g with
  | .keys m => let (m', f) := Keys.check m opl obs; (.keys m', f)
  | .topics m => let (m', f) := Topics.check m opl obs; (.topics m', f)
  | .binder m => let (m', f) := Binder.check m opl obs; (.binder m', f)
  | .docs m => let (m', f) := Docs.check m opl obs; (.docs m', f)
  | .irs m => let (m', f) := Irs.check m opl obs; (.irs m', f)
  | .claims m => let (m', f) := Claims.check m opl obs; (.claims m', f)
  | .hooks m => let (m', f) := Hooks.check m opl obs; (.hooks m', f)
  | .rules m => let (m', f) := Rules.check m opl obs; (.rules m', f)
  | .none => (g, some "site=c20.label sequence label does not name a registry")

def machine : Machine where
  σ := St
  init := initSt
  op := opSt
  μ := Mn
  minit := initMn
  mon := monMn

end OZ.Drv.C20

def main : IO Unit := OZ.Drv.run OZ.Drv.C20.machine
