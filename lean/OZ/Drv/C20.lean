import OZ.Drv.C20Keys
import OZ.Drv.C20Topics
import OZ.Drv.C20Binder
import OZ.Drv.C20Docs
import OZ.Drv.C20Irs
import OZ.Drv.C20Claims
import OZ.Drv.C20Hooks
import OZ.Drv.C20Rules
/-
Driver for C20 (registries behave as the sets and maps they represent). One sub-machine per
registry; the first word of the sequence label selects it (`keys`, `topics`, `binder`, `docs`,
`irs`, `claims`, `hooks`, `rules`), every op line is prefixed with the same word.
`op` runs the MODEL (OZ.Model.Reg*); `mon` recomputes the plain set / map / relation from the
accepted operations only and compares every getter of the IMPLEMENTATION with it (it never
calls a model transition function). The eight sub-monitors are `checkCore` functions on parsed
values in OZ/Model/Reg*Mon.lean (the sub-drivers only parse), each proved silent on every trace of
its model in OZ/Props/C20aMon..C20hMon (`monitor_accepts_every_model_trace`); the idle comparison
below works on the raw words of two consecutive observation lines and is not part of those theorems.

`<registry> idle days=<n>` moves the ledger on by `n` days (17 280 ledgers each) WITHOUT touching
the contract; it is handled here for all registries: the model state stays as it is (the context
rules only learn the new ledger sequence), and the monitor requires that two consecutive idle
observations (the harness always sends `idle days=0` right before `idle days=n`) print exactly
the same getters: `site=<registry>.idle.changed`.
-/
namespace OZ.Drv.C20
open OZ.Drv

def LEDGERS_PER_DAY : Nat := 17280

inductive St where
  | none
  | keys (m : Keys.M)
  | topics (m : Topics.M)
  | binder (m : Binder.M)
  | docs (m : Docs.M)
  | irs (m : Irs.M)
  | claims (m : Claims.M)
  | hooks (m : Hooks.M)
  | rules (m : Rules.M)

inductive Mn where
  | none
  | keys (g : Keys.MonT)
  | topics (g : Topics.MonT)
  | binder (g : Binder.MonT)
  | docs (g : Docs.MonT)
  | irs (g : Irs.MonT)
  | claims (g : Claims.MonT)
  | hooks (g : Hooks.MonT)
  | rules (g : Rules.MonT)

def initSt (label : String) : St :=
  let ws := words label
  match ws.head? with
  | some "keys" => .keys (Keys.initM ws)
  | some "topics" => .topics (Topics.initM ws)
  | some "binder" => .binder (Binder.initM ws)
  | some "docs" => .docs (Docs.initM ws)
  | some "irs" => .irs (Irs.initM ws)
  | some "claims" => .claims (Claims.initM ws)
  | some "hooks" => .hooks (Hooks.initM ws)
  | some "rules" => .rules (Rules.initM ws)
  | _ => .none

def initMn (label : String) : Mn :=
  let ws := words label
  match ws.head? with
  | some "keys" => .keys (Keys.minit ws)
  | some "topics" => .topics (Topics.minit ws)
  | some "binder" => .binder (Binder.minit ws)
  | some "docs" => .docs (Docs.minit ws)
  | some "irs" => .irs (Irs.minit ws)
  | some "claims" => .claims (Claims.minit ws)
  | some "hooks" => .hooks (Hooks.minit ws)
  | some "rules" => .rules (Rules.minit ws)
  | _ => .none

/-- `some days` for an idle line -/
def idleDays (line : String) : Option Nat :=
  match words line with
  | _ :: "idle" :: rest => some (kvN rest "days")
  | _ => none

/-- the model's observation after an idle gap: nothing but the ledger sequence moved -/
def idleSt (s : St) (days : Nat) : St × String :=
  match s with
  | .keys m => (s, "ok " ++ Keys.showState m)
  | .topics m => (s, "ok " ++ Topics.showState m)
  | .binder m => (s, "ok " ++ Binder.showState m (.preload 0))
  | .docs m => (s, "ok " ++ Docs.showState m (.preload 0 0 0 0))
  | .irs m => (s, "ok " ++ Irs.showState m)
  | .claims m => (s, "ok ret=- " ++ Claims.showState m)
  | .hooks m => (s, "ok " ++ Hooks.showState m)
  | .rules m =>
    let m' : Rules.M := { s := OZ.RegRules.next Rules.installOk m.s (.advance (days * LEDGERS_PER_DAY)) }
    (.rules m', "ok ret=- " ++ Rules.showState m')
  | .none => (s, "no-registry")

def opSt (s : St) (line : String) : St × String :=
  match idleDays line with
  | some d => idleSt s d
  | none =>
  match s with
  | .keys m => let (m', o) := Keys.stepLine m line; (.keys m', o)
  | .topics m => let (m', o) := Topics.stepLine m line; (.topics m', o)
  | .binder m => let (m', o) := Binder.stepLine m line; (.binder m', o)
  | .docs m => let (m', o) := Docs.stepLine m line; (.docs m', o)
  | .irs m => let (m', o) := Irs.stepLine m line; (.irs m', o)
  | .claims m => let (m', o) := Claims.stepLine m line; (.claims m', o)
  | .hooks m => let (m', o) := Hooks.stepLine m line; (.hooks m', o)
  | .rules m => let (m', o) := Rules.stepLine m line; (.rules m', o)
  | .none => (s, "no-registry")

/-- monitor state: the registry's plain structure, and the getters printed by the previous
observation if that observation was an idle one -/
structure MonSt where
  sub : Mn
  lastIdle : Option (List String)

/-- the getters of an observation: everything but the verdict and the returned value -/
def getterWords (obs : String) : List String :=
  ((words obs).drop 1).filter (fun w => !w.startsWith "ret=")

def firstDiff (a b : List String) : String :=
  match (List.zip a b).find? (fun p => p.1 ≠ p.2) with
  | some (x, y) => s!"{(x.take 160).toString} became {(y.take 160).toString}"
  | none => s!"{a.length} getters became {b.length}"

def monSub (g : Mn) (opl obs : String) : Mn × Option String :=
  match g with
  | .keys m => let (m', f) := Keys.check m opl obs; (.keys m', f)
  | .topics m => let (m', f) := Topics.check m opl obs; (.topics m', f)
  | .binder m => let (m', f) := Binder.check m opl obs; (.binder m', f)
  | .docs m => let (m', f) := Docs.check m opl obs; (.docs m', f)
  | .irs m => let (m', f) := Irs.check m opl obs; (.irs m', f)
  | .claims m => let (m', f) := Claims.check m opl obs; (.claims m', f)
  | .hooks m => let (m', f) := Hooks.check m opl obs; (.hooks m', f)
  | .rules m => let (m', f) := Rules.check m opl obs; (.rules m', f)
  | .none => (g, some "site=c20.label sequence label does not name a registry")

def monMn (g : MonSt) (opl obs : String) : MonSt × Option String :=
  match idleDays opl with
  | some d =>
    let reg := (words opl).head?.getD "c20"
    let now := getterWords obs
    let sub' : Mn := match g.sub with
      | .rules r => .rules { r with now := r.now + d * LEDGERS_PER_DAY }
      | x => x
    let fail : Option String :=
      if (words obs).head? ≠ some "ok" then some s!"site={reg}.idle.changed an idle gap is reported as refused"
      else match g.lastIdle with
        | some before =>
          if before = now then none
          else some s!"site={reg}.idle.changed after {d} idle days (no call in between) a getter answers differently: {firstDiff before now}"
        | none => none
    ({ sub := sub', lastIdle := some now }, fail)
  | none =>
    let (sub', f) := monSub g.sub opl obs
    ({ sub := sub', lastIdle := none }, f)

def machine : Machine where
  σ := St
  init := initSt
  op := opSt
  μ := MonSt
  minit := fun l => { sub := initMn l, lastIdle := none }
  mon := monMn

end OZ.Drv.C20

def main : IO Unit := OZ.Drv.run OZ.Drv.C20.machine
